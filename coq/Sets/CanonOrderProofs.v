(* C16, part 2 — theorems about the ordered asset maps (CanonOrder.v). *)
From CSL Require Import Base.Prelude Cbor.Head Cbor.HeadProofs Sets.DedupVec Sets.CanonOrder.
From Coq Require Import Permutation.
Local Open Scope N_scope.

(* ================= byte-string equality ================= *)
Lemma bytes_eqb_spec a : forall b, bytes_eqb a b = true <-> a = b.
Proof.
  induction a as [|x a IH]; destruct b as [|y b]; cbn; try (split; [discriminate | congruence]); [tauto|].
  rewrite andb_true_iff, N.eqb_eq, IH. split; [intros [-> ->]; reflexivity | intros [= -> ->]; auto].
Qed.
Lemma bytes_eqb_refl a : bytes_eqb a a = true.
Proof. now apply bytes_eqb_spec. Qed.

(* ================= the bytewise order is a strict total order ================= *)
Lemma lex_irrefl a : lex_ltb a a = false.
Proof. induction a as [|x a IH]; cbn; [reflexivity|]. now rewrite N.ltb_irrefl. Qed.
Lemma lex_trans a : forall b c, lex_ltb a b = true -> lex_ltb b c = true -> lex_ltb a c = true.
Proof.
  induction a as [|x a IH]; intros [|y b] [|z c]; cbn; try discriminate; try reflexivity.
  destruct (x <? y) eqn:XY, (y <? x) eqn:YX, (y <? z) eqn:YZ, (z <? y) eqn:ZY, (x <? z) eqn:XZ, (z <? x) eqn:ZX;
    try discriminate; try reflexivity; try lia; intros; try discriminate.
  eapply IH; eassumption.
Qed.
Lemma lex_total a : forall b, lex_ltb a b = false -> lex_ltb b a = false -> a = b.
Proof.
  induction a as [|x a IH]; intros [|y b]; cbn; try discriminate; try reflexivity.
  destruct (x <? y) eqn:XY, (y <? x) eqn:YX; try discriminate. intros H1 H2.
  assert (x = y) by lia. subst. f_equal. now apply IH.
Qed.
Lemma lex_app p : forall a b, lex_ltb (p ++ a) (p ++ b) = lex_ltb a b.
Proof. induction p as [|x p IH]; intros; cbn; [reflexivity|]. now rewrite N.ltb_irrefl. Qed.
Lemma lex_length_lt_nil a b : lex_ltb a b = true -> b <> [].
Proof. destruct a, b; cbn; congruence. Qed.

(* the AssetName order is a strict total order as well *)
Lemma name_irrefl a : name_ltb a a = false.
Proof. unfold name_ltb. rewrite N.ltb_irrefl. apply lex_irrefl. Qed.
Lemma name_trans a b c : name_ltb a b = true -> name_ltb b c = true -> name_ltb a c = true.
Proof.
  unfold name_ltb.
  destruct (N.of_nat (length a) <? N.of_nat (length b)) eqn:E1, (N.of_nat (length b) <? N.of_nat (length a)) eqn:E2,
           (N.of_nat (length b) <? N.of_nat (length c)) eqn:E3, (N.of_nat (length c) <? N.of_nat (length b)) eqn:E4,
           (N.of_nat (length a) <? N.of_nat (length c)) eqn:E5, (N.of_nat (length c) <? N.of_nat (length a)) eqn:E6;
    try discriminate; try reflexivity; try lia; intros; try discriminate.
  eapply lex_trans; eassumption.
Qed.
Lemma name_total a b : name_ltb a b = false -> name_ltb b a = false -> a = b.
Proof.
  unfold name_ltb.
  destruct (N.of_nat (length a) <? N.of_nat (length b)) eqn:E1, (N.of_nat (length b) <? N.of_nat (length a)) eqn:E2;
    try discriminate. apply lex_total.
Qed.

(* ================= the AssetName order IS the canonical CBOR key order ================= *)
Lemma enc_bstr_length b : N.of_nat (length (enc_bstr b)) = head_size (N.of_nat (length b)) + N.of_nat (length b).
Proof. unfold enc_bstr. rewrite app_length, Nat2N.inj_add, head_length. reflexivity. Qed.

(* RFC 7049 3.9 (length-first on the encoded keys): for ALL names, not only those of at most 32 bytes *)
Theorem name_order_is_canonical a b : name_ltb a b = canon_ltb (enc_bstr a) (enc_bstr b).
Proof.
  unfold name_ltb, canon_ltb. rewrite !enc_bstr_length.
  set (la := N.of_nat (length a)). set (lb := N.of_nat (length b)).
  destruct (la <? lb) eqn:E1.
  - pose proof (head_size_mono la lb ltac:(lia)).
    destruct (head_size la + la <? head_size lb + lb) eqn:F; [reflexivity | lia].
  - destruct (lb <? la) eqn:E2.
    + pose proof (head_size_mono lb la ltac:(lia)).
      destruct (head_size la + la <? head_size lb + lb) eqn:F; [lia|].
      destruct (head_size lb + lb <? head_size la + la) eqn:G; [reflexivity | lia].
    + assert (la = lb) by lia. rewrite H, N.ltb_irrefl.
      unfold enc_bstr. fold la lb. rewrite H. now rewrite lex_app.
Qed.
(* policy ids: the derived bytewise order of hashes of equal length (28) is the canonical order too *)
Theorem policy_order_is_canonical a b : length a = length b -> lex_ltb a b = canon_ltb (enc_bstr a) (enc_bstr b).
Proof.
  intros H. unfold canon_ltb. rewrite !enc_bstr_length, H, N.ltb_irrefl. unfold enc_bstr. now rewrite H, lex_app.
Qed.

(* RFC 8949 4.2.1 (plain bytewise order of the encoded keys) agrees as well, for keys shorter than 256 bytes
   (asset names are at most 32 bytes, policy ids 28) *)
Lemma head2_small n : n < 24 -> encode_head 2 n = [64 + n].
Proof. intros H. unfold encode_head. destruct (n <? 24) eqn:E; [reflexivity | lia]. Qed.
Lemma head2_mid n : 24 <= n -> n < 256 -> encode_head 2 n = [88; n].
Proof.
  intros H1 H2. unfold encode_head. destruct (n <? 24) eqn:E; [lia|]. destruct (n <? 256) eqn:F; [|lia].
  cbn [be app]. rewrite N.mod_small by lia. reflexivity.
Qed.
Theorem name_order_is_deterministic a b :
  N.of_nat (length a) < 256 -> N.of_nat (length b) < 256 ->
  name_ltb a b = det_ltb (enc_bstr a) (enc_bstr b).
Proof.
  intros Ha Hb. unfold name_ltb, det_ltb, enc_bstr.
  set (la := N.of_nat (length a)) in *. set (lb := N.of_nat (length b)) in *.
  destruct (la <? lb) eqn:E1; [|destruct (lb <? la) eqn:E2].
  - destruct (la <? 24) eqn:A; [rewrite (head2_small la) by lia | rewrite (head2_mid la) by lia];
    (destruct (lb <? 24) eqn:B; [rewrite (head2_small lb) by lia | rewrite (head2_mid lb) by lia]); cbn [app lex_ltb].
    + destruct (64 + la <? 64 + lb) eqn:F; [reflexivity | lia].
    + destruct (64 + la <? 88) eqn:F; [reflexivity | lia].
    + lia.
    + rewrite N.ltb_irrefl. destruct (la <? lb) eqn:F; [reflexivity | lia].
  - destruct (la <? 24) eqn:A; [rewrite (head2_small la) by lia | rewrite (head2_mid la) by lia];
    (destruct (lb <? 24) eqn:B; [rewrite (head2_small lb) by lia | rewrite (head2_mid lb) by lia]); cbn [app lex_ltb].
    + destruct (64 + la <? 64 + lb) eqn:F; [lia|]. destruct (64 + lb <? 64 + la) eqn:G; [reflexivity | lia].
    + lia.
    + destruct (88 <? 64 + lb) eqn:F; [lia|]. destruct (64 + lb <? 88) eqn:G; [reflexivity | lia].
    + rewrite N.ltb_irrefl. destruct (la <? lb) eqn:F; [lia|]. destruct (lb <? la) eqn:G; [reflexivity | lia].
  - assert (H : la = lb) by lia. rewrite H. now rewrite lex_app.
Qed.

(* ================= ordered maps over a strict total order ================= *)
Definition strict_total {K} (ltb : K -> K -> bool) : Prop :=
  (forall a, ltb a a = false) /\
  (forall a b c, ltb a b = true -> ltb b c = true -> ltb a c = true) /\
  (forall a b, ltb a b = false -> ltb b a = false -> a = b).
Lemma lex_ord : strict_total lex_ltb.
Proof. split; [exact lex_irrefl | split; [exact lex_trans | exact lex_total]]. Qed.
Lemma name_ord : strict_total name_ltb.
Proof. split; [exact name_irrefl | split; [exact name_trans | exact name_total]]. Qed.

Section SMapProofs.
  Context {K V : Type} (ltb : K -> K -> bool).
  Hypothesis ord : strict_total ltb.
  Lemma lt_irrefl a : ltb a a = false.
  Proof. apply ord. Qed.
  Lemma lt_trans a b c : ltb a b = true -> ltb b c = true -> ltb a c = true.
  Proof. apply ord. Qed.
  Lemma lt_total a b : ltb a b = false -> ltb b a = false -> a = b.
  Proof. apply ord. Qed.

  Lemma lt_asym a b : ltb a b = true -> ltb b a = false.
  Proof. intros H. destruct (ltb b a) eqn:E; [|reflexivity]. pose proof (lt_trans a b a H E) as F. now rewrite lt_irrefl in F. Qed.
  Lemma keq_eq a b : keq ltb a b = true <-> a = b.
  Proof.
    unfold keq. split.
    - rewrite andb_true_iff, !negb_true_iff. intros [? ?]. now apply lt_total.
    - intros ->. now rewrite lt_irrefl.
  Qed.
  Lemma keq_refl a : keq ltb a a = true.
  Proof. now apply keq_eq. Qed.
  Lemma keq_lt a b : ltb a b = true -> keq ltb a b = false /\ keq ltb b a = false.
  Proof. intros H. unfold keq. rewrite H, (lt_asym _ _ H). now cbn. Qed.

  Notation sorted m := (@sm_sorted K V ltb m = true) (only parsing).

  Lemma sorted_tail e (r : list (K * V)) : sorted (e :: r) -> sorted r.
  Proof. destruct e as [k v]. cbn. destruct r as [|[k' v'] r']; [reflexivity|]. intros H. apply andb_true_iff in H. apply H. Qed.
  Lemma sorted_head_lt k v (r : list (K * V)) : sorted ((k, v) :: r) -> forall k', In k' (map fst r) -> ltb k k' = true.
  Proof.
    revert k v. induction r as [|[k1 v1] r IH]; intros k v H k' I; [destruct I|].
    cbn in H. rewrite andb_true_iff in H. destruct H as [H1 H2]. destruct I as [<-|I]; [assumption|].
    eapply lt_trans; [exact H1|]. apply (IH k1 v1 H2 k' I).
  Qed.
  Lemma sorted_cons k v (r : list (K * V)) : sorted r -> (forall k', In k' (map fst r) -> ltb k k' = true) -> sorted ((k, v) :: r).
  Proof. intros H L. destruct r as [|[k1 v1] r]; [reflexivity|]. cbn. rewrite andb_true_iff. split; [apply L; now left | exact H]. Qed.

  Lemma In_insert_keys k v (m : list (K * V)) k' : In k' (map fst (sm_insert ltb k v m)) <-> k' = k \/ In k' (map fst m).
  Proof.
    induction m as [|[k1 v1] m IH]; cbn; [intuition|].
    destruct (ltb k k1) eqn:E1; [cbn; intuition|]. destruct (ltb k1 k) eqn:E2; cbn.
    - rewrite IH. intuition.
    - assert (k = k1) by now apply lt_total. subst. intuition.
  Qed.

  Lemma sorted_insert k v (m : list (K * V)) : sorted m -> sorted (sm_insert ltb k v m).
  Proof.
    induction m as [|[k1 v1] m IH]; intros S; [reflexivity|]. cbn [sm_insert].
    destruct (ltb k k1) eqn:E1.
    - apply sorted_cons; [assumption|]. intros k' [<-|I]; [assumption|].
      eapply lt_trans; [exact E1|]. eapply sorted_head_lt; eassumption.
    - destruct (ltb k1 k) eqn:E2.
      + apply sorted_cons; [apply IH; eapply sorted_tail; eassumption|].
        intros k' I. apply In_insert_keys in I. destruct I as [->|I]; [assumption|]. eapply sorted_head_lt; eassumption.
      + assert (k = k1) by now apply lt_total. subst. apply sorted_cons; [eapply sorted_tail; eassumption|].
        intros k' I. eapply sorted_head_lt; eassumption.
  Qed.

  Lemma lookup_insert k v (m : list (K * V)) k' :
    sm_lookup ltb k' (sm_insert ltb k v m) = if keq ltb k' k then Some v else sm_lookup ltb k' m.
  Proof.
    induction m as [|[k1 v1] m IH]; cbn [sm_insert sm_lookup]; [reflexivity|].
    destruct (ltb k k1) eqn:E1; [reflexivity|]. destruct (ltb k1 k) eqn:E2; cbn [sm_lookup].
    - rewrite IH. destruct (keq ltb k' k1) eqn:Q; [|reflexivity].
      apply keq_eq in Q. subst k'. now rewrite (proj1 (keq_lt _ _ E2)).
    - assert (k = k1) by now apply lt_total. subst. now destruct (keq ltb k' k1).
  Qed.

  Lemma lookup_In k (m : list (K * V)) v : sm_lookup ltb k m = Some v -> In (k, v) m.
  Proof.
    induction m as [|[k1 v1] m IH]; cbn; [discriminate|]. destruct (keq ltb k k1) eqn:Q.
    - apply keq_eq in Q. intros [= ->]. subst. now left.
    - intros H. right. now apply IH.
  Qed.
  Lemma lookup_none k (m : list (K * V)) : ~ In k (map fst m) -> sm_lookup ltb k m = None.
  Proof.
    induction m as [|[k1 v1] m IH]; cbn; [reflexivity|]. intros H. destruct (keq ltb k k1) eqn:Q.
    - apply keq_eq in Q. subst. exfalso. apply H. now left.
    - apply IH. intros ?. apply H. now right.
  Qed.
  Lemma lookup_some_key k (m : list (K * V)) : In k (map fst m) -> exists v, sm_lookup ltb k m = Some v.
  Proof.
    induction m as [|[k1 v1] m IH]; cbn; [intros []|]. intros [->|I].
    - rewrite keq_refl. now eexists.
    - destruct (keq ltb k k1); [now eexists | now apply IH].
  Qed.
  Lemma sorted_head_fresh k v (r : list (K * V)) : sorted ((k, v) :: r) -> sm_lookup ltb k r = None.
  Proof.
    intros S. apply lookup_none. intros I. pose proof (sorted_head_lt _ _ _ S _ I) as H. now rewrite lt_irrefl in H.
  Qed.

  (* a sorted association list is determined by its lookup function *)
  Theorem sorted_ext (m1 : list (K * V)) : forall m2, sorted m1 -> sorted m2 ->
    (forall k, sm_lookup ltb k m1 = sm_lookup ltb k m2) -> m1 = m2.
  Proof.
    induction m1 as [|[k1 v1] r1 IH]; intros [|[k2 v2] r2] S1 S2 H.
    - reflexivity.
    - specialize (H k2). cbn in H. now rewrite keq_refl in H.
    - specialize (H k1). cbn in H. now rewrite keq_refl in H.
    - assert (E : k1 = k2).
      { pose proof (H k1) as H1. pose proof (H k2) as H2. cbn in H1, H2. rewrite keq_refl in H1, H2.
        destruct (keq ltb k1 k2) eqn:Q; [now apply keq_eq|].
        assert (Q' : keq ltb k2 k1 = false).
        { destruct (keq ltb k2 k1) eqn:Q'; [|reflexivity]. apply keq_eq in Q'. subst. now rewrite keq_refl in Q. }
        rewrite Q' in H2. symmetry in H1. apply lookup_In in H1. apply lookup_In in H2.
        pose proof (sorted_head_lt _ _ _ S2 k1 (in_map fst _ _ H1)) as L1.
        pose proof (sorted_head_lt _ _ _ S1 k2 (in_map fst _ _ H2)) as L2.
        rewrite (lt_asym _ _ L1) in L2. discriminate. }
      subst k2. pose proof (H k1) as H1. cbn in H1. rewrite keq_refl in H1. injection H1 as ->.
      f_equal. apply IH; [eapply sorted_tail; eassumption | eapply sorted_tail; eassumption |].
      intros k. specialize (H k). cbn in H. destruct (keq ltb k k1) eqn:Q; [|assumption].
      apply keq_eq in Q. subst. now rewrite (sorted_head_fresh _ _ _ S1), (sorted_head_fresh _ _ _ S2).
  Qed.

  (* sortedness only depends on the order restricted to the keys present *)
  Lemma sorted_transfer (ltb' : K -> K -> bool) (m : list (K * V)) :
    (forall a b, In a (map fst m) -> In b (map fst m) -> ltb a b = ltb' a b) ->
    sm_sorted ltb m = true -> sm_sorted ltb' m = true.
  Proof.
    induction m as [|[k v] m IH]; intros E S; [reflexivity|]. cbn in *. destruct m as [|[k' v'] m]; [reflexivity|].
    rewrite andb_true_iff in *. destruct S as [S1 S2]. split.
    - rewrite <- E; [assumption | now left | right; now left].
    - apply IH; [|assumption]. intros a b Ia Ib. apply E; now right.
  Qed.
End SMapProofs.

(* ================= instances: policy ids (bytewise) and asset names (length first) ================= *)
Lemma keq_lex a b : keq lex_ltb a b = bytes_eqb a b.
Proof.
  destruct (bytes_eqb a b) eqn:E.
  - apply bytes_eqb_spec in E. subst. apply (keq_refl lex_ltb lex_ord).
  - destruct (keq lex_ltb a b) eqn:Q; [|reflexivity].
    apply (keq_eq lex_ltb lex_ord) in Q. subst. now rewrite bytes_eqb_refl in E.
Qed.
Lemma keq_name a b : keq name_ltb a b = bytes_eqb a b.
Proof.
  destruct (bytes_eqb a b) eqn:E.
  - apply bytes_eqb_spec in E. subst. apply (keq_refl name_ltb name_ord).
  - destruct (keq name_ltb a b) eqn:Q; [|reflexivity].
    apply (keq_eq name_ltb name_ord) in Q. subst. now rewrite bytes_eqb_refl in E.
Qed.
Lemma nv_get_lex {V} p (m : list (bytes * V)) : nv_get p m = sm_lookup lex_ltb p m.
Proof. induction m as [|[k v] m IH]; cbn; [reflexivity|]. now rewrite keq_lex, IH. Qed.
Lemma nv_get_name {V} p (m : list (bytes * V)) : nv_get p m = sm_lookup name_ltb p m.
Proof. induction m as [|[k v] m IH]; cbn; [reflexivity|]. now rewrite keq_name, IH. Qed.

Lemma Forall_insert {K V} (ltb : K -> K -> bool) (P : K * V -> Prop) k v m :
  Forall P m -> P (k, v) -> Forall P (sm_insert ltb k v m).
Proof.
  intros F H. induction F as [|[k1 v1] m H1 F IH]; cbn; [now constructor|].
  destruct (ltb k k1); [now repeat constructor|]. destruct (ltb k1 k); now constructor.
Qed.

Section Two.
  Context {V : Type} (d : V).
  Notation M := (list (bytes * list (bytes * V))).

  (* invariant of every reachable two-level map: policies strictly ascending, names strictly ascending under each *)
  Definition inv2 (m : M) : Prop :=
    sm_sorted lex_ltb m = true /\ Forall (fun e => sm_sorted name_ltb (snd e) = true) m.
  Definition wf2 (m : M) : Prop := inv2 m /\ Forall (fun e => snd e <> []) m.

  Lemma inv2_nil : inv2 [].
  Proof. split; [reflexivity | constructor]. Qed.
  Lemma inv2_lookup m p a : inv2 m -> sm_lookup lex_ltb p m = Some a -> sm_sorted name_ltb a = true.
  Proof.
    intros [_ F] H. apply (lookup_In lex_ltb lex_ord) in H.
    rewrite Forall_forall in F. apply (F _ H).
  Qed.
  Lemma inv2_insert m p a : inv2 m -> sm_sorted name_ltb a = true -> inv2 (sm_insert lex_ltb p a m).
  Proof.
    intros [S F] Ha. split.
    - now apply (sorted_insert lex_ltb lex_ord).
    - now apply Forall_insert.
  Qed.
  Lemma inv2_upd2 m p n f : inv2 m -> inv2 (upd2 d p n f m).
  Proof.
    intros I. unfold upd2. apply inv2_insert; [assumption|].
    apply (sorted_insert name_ltb name_ord).
    destruct (sm_lookup lex_ltb p m) eqn:E; [eapply inv2_lookup; eassumption | reflexivity].
  Qed.
  Lemma insert_nonempty {K W} (ltb : K -> K -> bool) k (v : W) m : sm_insert ltb k v m <> [].
  Proof. destruct m as [|[k1 v1] m]; cbn; [discriminate|]. destruct (ltb k k1); [discriminate|]. destruct (ltb k1 k); discriminate. Qed.
  Lemma wf2_upd2 m p n f : wf2 m -> wf2 (upd2 d p n f m).
  Proof.
    intros [I F]. split; [now apply inv2_upd2|]. unfold upd2. apply Forall_insert; [assumption|]. apply insert_nonempty.
  Qed.

  Lemma lookup2_upd2 m p n f p' n' :
    lookup2 (upd2 d p n f m) p' n' =
    if bytes_eqb p' p && bytes_eqb n' n
    then Some (f (match lookup2 m p n with Some x => x | None => d end))
    else lookup2 m p' n'.
  Proof.
    unfold lookup2, upd2.
    rewrite (lookup_insert lex_ltb lex_ord), keq_lex.
    destruct (bytes_eqb p' p) eqn:E; cbn [andb]; [|reflexivity].
    apply bytes_eqb_spec in E. subst p'.
    rewrite (lookup_insert name_ltb name_ord), keq_name.
    destruct (bytes_eqb n' n) eqn:F.
    - destruct (sm_lookup lex_ltb p m); reflexivity.
    - destruct (sm_lookup lex_ltb p m); reflexivity.
  Qed.

  (* a well-formed two-level map is determined by its (policy, name) -> value function *)
  Theorem ext2 (m1 m2 : M) : wf2 m1 -> wf2 m2 ->
    (forall p n, lookup2 m1 p n = lookup2 m2 p n) -> m1 = m2.
  Proof.
    intros [[S1 F1] N1] [[S2 F2] N2] H.
    assert (KEY : forall (ma mb : M), sm_sorted lex_ltb ma = true -> Forall (fun e => snd e <> []) ma ->
              Forall (fun e => sm_sorted name_ltb (snd e) = true) ma ->
              Forall (fun e => sm_sorted name_ltb (snd e) = true) mb ->
              (forall p n, lookup2 ma p n = lookup2 mb p n) ->
              forall p a, sm_lookup lex_ltb p ma = Some a -> sm_lookup lex_ltb p mb = Some a).
    { intros ma mb Sa Na Fa Fb Hab p a La.
      pose proof (lookup_In lex_ltb lex_ord _ _ _ La) as Ia.
      rewrite Forall_forall in Na, Fa, Fb. pose proof (Na _ Ia) as NE. pose proof (Fa _ Ia) as SA. cbn in NE, SA.
      destruct a as [|[n0 v0] a']; [contradiction|].
      pose proof (Hab p n0) as H0. unfold lookup2 in H0. rewrite La in H0. cbn in H0.
      rewrite (keq_refl name_ltb name_ord) in H0.
      destruct (sm_lookup lex_ltb p mb) as [b|] eqn:Lb; [|discriminate].
      f_equal. symmetry. apply (sorted_ext name_ltb name_ord).
      - assumption.
      - apply (Fb (p, b)). eapply (lookup_In lex_ltb lex_ord); eassumption.
      - intros n. specialize (Hab p n). unfold lookup2 in Hab. now rewrite La, Lb in Hab. }
    apply (sorted_ext lex_ltb lex_ord); try assumption.
    intros p. destruct (sm_lookup lex_ltb p m1) as [a|] eqn:L1.
    - symmetry. exact (KEY m1 m2 S1 N1 F1 F2 H p a L1).
    - destruct (sm_lookup lex_ltb p m2) as [b|] eqn:L2; [|reflexivity].
      rewrite (KEY m2 m1 S2 N2 F2 F1 (fun p n => eq_sym (H p n)) p b L2) in L1. discriminate.
  Qed.

  (* ---- runs of updates and their order independence ---- *)
  Definition upd := (bytes * bytes * (V -> V))%type.
  Definition ukey (u : upd) : bytes * bytes := fst u.
  Definition run2 (us : list upd) (m : M) : M := fold_left (fun m u => upd2 d (fst (fst u)) (snd (fst u)) (snd u) m) us m.
  Definition vstep (p n : bytes) (acc : option V) (u : upd) : option V :=
    if bytes_eqb p (fst (fst u)) && bytes_eqb n (snd (fst u))
    then Some (snd u (match acc with Some x => x | None => d end)) else acc.

  Lemma wf2_run2 us : forall m, wf2 m -> wf2 (run2 us m).
  Proof. unfold run2. induction us as [|u us IH]; intros m W; cbn; [assumption | apply IH, wf2_upd2, W]. Qed.
  Lemma lookup2_run2 us p n : forall m, lookup2 (run2 us m) p n = fold_left (vstep p n) us (lookup2 m p n).
  Proof.
    unfold run2. induction us as [|[[p0 n0] f] us IH]; intros m; cbn [fold_left]; [reflexivity|].
    rewrite IH. f_equal. rewrite lookup2_upd2. unfold vstep. cbn [fst snd].
    destruct (bytes_eqb p p0 && bytes_eqb n n0) eqn:E; [|reflexivity].
    rewrite andb_true_iff, !bytes_eqb_spec in E. destruct E; subst. reflexivity.
  Qed.

  Lemma vstep_perm us us' : Permutation us us' ->
    (forall u1 u2, In u1 us -> In u2 us -> ukey u1 = ukey u2 -> forall x, snd u1 (snd u2 x) = snd u2 (snd u1 x)) ->
    forall p n acc, fold_left (vstep p n) us acc = fold_left (vstep p n) us' acc.
  Proof.
    induction 1 as [|u l l' P IH|u1 u2 l|l l' l'' P1 IH1 P2 IH2]; intros C p n acc.
    - reflexivity.
    - cbn. apply IH. intros a b Ia Ib. apply C; now right.
    - cbn. f_equal. unfold vstep.
      destruct (bytes_eqb p (fst (fst u2)) && bytes_eqb n (snd (fst u2))) eqn:E2,
               (bytes_eqb p (fst (fst u1)) && bytes_eqb n (snd (fst u1))) eqn:E1; try reflexivity.
      f_equal. apply C; [right; now left | now left |].
      rewrite andb_true_iff, !bytes_eqb_spec in E1, E2. destruct E1 as [A1 B1], E2 as [A2 B2].
      unfold ukey. destruct u1 as [[a1 b1] f1], u2 as [[a2 b2] f2]. cbn in *. congruence.
    - rewrite IH1 by assumption. apply IH2. intros a b Ia Ib. apply C; eapply Permutation_in; try eassumption; now apply Permutation_sym.
  Qed.

  Theorem run2_perm us us' : Permutation us us' ->
    (forall u1 u2, In u1 us -> In u2 us -> ukey u1 = ukey u2 -> forall x, snd u1 (snd u2 x) = snd u2 (snd u1 x)) ->
    run2 us [] = run2 us' [].
  Proof.
    intros P C. apply ext2.
    - apply wf2_run2. repeat split; constructor.
    - apply wf2_run2. repeat split; constructor.
    - intros p n. rewrite !lookup2_run2. now apply vstep_perm.
  Qed.
End Two.

(* ================= Assets / MultiAsset ================= *)
Lemma assets_of_sorted l : sm_sorted name_ltb (assets_of l) = true.
Proof.
  unfold assets_of. assert (G : forall a, sm_sorted name_ltb a = true ->
    sm_sorted name_ltb (fold_left (fun a e => sm_insert name_ltb (fst e) (snd e) a) l a) = true).
  { induction l as [|e l IH]; intros a S; cbn; [assumption|].
    apply IH. now apply (sorted_insert name_ltb name_ord). }
  now apply G.
Qed.
Lemma ma_step_inv m o : inv2 m -> inv2 (ma_step m o).
Proof. intros I. destruct o; cbn [ma_step]; [now apply inv2_upd2 | apply inv2_insert; [assumption | apply assets_of_sorted]]. Qed.
Theorem ma_run_inv h : inv2 (ma_run h).
Proof.
  unfold ma_run. assert (G : forall m, inv2 m -> inv2 (fold_left ma_step h m)).
  { induction h as [|o h IH]; intros m I; cbn; [assumption | apply IH, ma_step_inv, I]. }
  apply G, inv2_nil.
Qed.

(* keys of the result come from the history *)
Lemma ma_run_keys h : forall p, In p (map fst (ma_run h)) -> In p (map ma_op_policy h).
Proof.
  unfold ma_run. assert (G : forall m p, In p (map fst (fold_left ma_step h m)) -> In p (map fst m) \/ In p (map ma_op_policy h)).
  { induction h as [|o h IH]; intros m p H; cbn in *; [now left|].
    apply IH in H. destruct H as [H|H]; [|right; now right].
    destruct o; cbn [ma_step] in H; unfold upd2 in H;
      apply (In_insert_keys lex_ltb lex_ord) in H; destruct H as [->|H]; cbn; auto. }
  intros p H. apply G in H. destruct H as [[]|H]. exact H.
Qed.

(* canonical CBOR key order of the serialised bundle, for every history *)
Theorem ma_canonical h :
  Forall (fun o => length (ma_op_policy o) = 28%nat) h ->
  sorted_by_enc (ma_run h) = true /\ forallb (fun e => sorted_by_enc (snd e)) (ma_run h) = true.
Proof.
  intros L. destruct (ma_run_inv h) as [S F]. split.
  - unfold sorted_by_enc. eapply sorted_transfer; [|exact S].
    intros a b Ia Ib. apply policy_order_is_canonical.
    apply ma_run_keys in Ia. apply ma_run_keys in Ib. rewrite in_map_iff in Ia, Ib.
    destruct Ia as [oa [<- Ia]], Ib as [ob [<- Ib]]. rewrite Forall_forall in L. now rewrite (L _ Ia), (L _ Ib).
  - apply forallb_forall. intros e He. rewrite Forall_forall in F. unfold sorted_by_enc.
    eapply sorted_transfer; [|exact (F _ He)]. intros a b _ _. apply name_order_is_canonical.
Qed.

(* content: the bundle holds exactly what the history wrote *)
Lemma lookup_assets_of n l : forall a,
  sm_lookup name_ltb n (fold_left (fun a e => sm_insert name_ltb (fst e) (snd e) a) l a) = last_qty n l (sm_lookup name_ltb n a).
Proof.
  induction l as [|[n' q] l IH]; intros a; cbn [fold_left last_qty]; [reflexivity|].
  rewrite IH. f_equal. cbn [fst snd]. now rewrite (lookup_insert name_ltb name_ord), keq_name.
Qed.
Lemma ma_content_gen h p n : forall m,
  lookup2 (fold_left ma_step h m) p n =
  fold_left (fun acc o =>
    match o with
    | MSetAsset p' n' q => if bytes_eqb p p' && bytes_eqb n n' then Some q else acc
    | MInsert p' l => if bytes_eqb p p' then last_qty n l None else acc
    end) h (lookup2 m p n).
Proof.
  induction h as [|o h IH]; intros m; cbn [fold_left]; [reflexivity|]. rewrite IH. f_equal.
  destruct o; cbn [ma_step].
  - apply lookup2_upd2.
  - unfold lookup2. rewrite (lookup_insert lex_ltb lex_ord), keq_lex.
    destruct (bytes_eqb p p0); [|reflexivity]. unfold assets_of. now rewrite lookup_assets_of.
Qed.
Theorem ma_content h p n : lookup2 (ma_run h) p n = ma_val h p n.
Proof. unfold ma_run, ma_val. now rewrite ma_content_gen. Qed.
Lemma ma_present_gen h p : forall m,
  is_some (sm_lookup lex_ltb p (fold_left ma_step h m)) =
  is_some (sm_lookup lex_ltb p m) || existsb (fun o => match o with MSetAsset p' _ _ | MInsert p' _ => bytes_eqb p p' end) h.
Proof.
  induction h as [|o h IH]; intros m; cbn [fold_left existsb]; [now rewrite orb_false_r|]. rewrite IH.
  rewrite orb_assoc. f_equal.
  destruct o; cbn [ma_step]; unfold upd2; rewrite (lookup_insert lex_ltb lex_ord), keq_lex;
    destruct (bytes_eqb p p0); cbn; now rewrite ?orb_true_r, ?orb_false_r.
Qed.
Theorem ma_presence h p : is_some (sm_lookup lex_ltb p (ma_run h)) = ma_present h p.
Proof. unfold ma_run, ma_present. now rewrite ma_present_gen. Qed.

(* order independence: inserting the same (policy, name, quantity) triples in any order gives the same
   map, hence the same bytes *)
Definition set_ops (es : list (bytes * bytes * N)) : list ma_op := map (fun e => MSetAsset (fst (fst e)) (snd (fst e)) (snd e)) es.
Lemma ma_run_set_ops es : ma_run (set_ops es) = run2 0 (map (fun e => (fst e, fun _ : N => snd e)) es) [].
Proof.
  unfold ma_run, run2, set_ops.
  assert (G : forall m : multiasset, fold_left ma_step (map (fun e => MSetAsset (fst (fst e)) (snd (fst e)) (snd e)) es) m =
    fold_left (fun m u => upd2 0 (fst (fst u)) (snd (fst u)) (snd u) m) (map (fun e => (fst e, fun _ : N => snd e)) es) m).
  { induction es as [|[[p n] q] es IH]; intros m; cbn; [reflexivity | apply IH]. }
  apply G.
Qed.
Lemma NoDup_map_eq {A B} (f : A -> B) l : NoDup (map f l) -> forall a b, In a l -> In b l -> f a = f b -> a = b.
Proof.
  induction l as [|x l IH]; intros ND a b Ia Ib E; [destruct Ia|]. cbn in ND. inversion ND as [|? ? H ND']; subst.
  destruct Ia as [<-|Ia], Ib as [<-|Ib]; try reflexivity.
  - exfalso. apply H. rewrite E. now apply in_map.
  - exfalso. apply H. rewrite <- E. now apply in_map.
  - now apply IH.
Qed.
Theorem ma_order_independent es es' :
  Permutation es es' -> NoDup (map fst es) ->
  ma_run (set_ops es) = ma_run (set_ops es') /\
  ser_multiasset (ma_run (set_ops es)) = ser_multiasset (ma_run (set_ops es')).
Proof.
  intros P ND. assert (E : ma_run (set_ops es) = ma_run (set_ops es')); [|now rewrite E].
  rewrite !ma_run_set_ops. apply run2_perm; [now apply Permutation_map|].
  intros u1 u2 I1 I2 K x. rewrite in_map_iff in I1, I2. destruct I1 as [e1 [<- I1]], I2 as [e2 [<- I2]].
  unfold ukey in K. cbn in K. now rewrite (NoDup_map_eq fst es ND e1 e2 I1 I2 K).
Qed.

(* decoding a map whose keys come in any (non-canonical) order: the result is ordered, a repeated key is an error *)
Lemma assets_of_wire_sorted l : forall acc a, sm_sorted name_ltb acc = true -> assets_of_wire l acc = Ok a -> sm_sorted name_ltb a = true.
Proof.
  induction l as [|[n q] l IH]; intros acc a S; cbn; [now intros [= <-]|].
  destruct (sm_lookup name_ltb n acc); [discriminate|]. apply IH.
  now apply (sorted_insert name_ltb name_ord).
Qed.
Theorem ma_of_wire_inv l : forall acc m, inv2 acc -> ma_of_wire l acc = Ok m -> inv2 m.
Proof.
  induction l as [|[p a] l IH]; intros acc m I; cbn; [now intros [= <-]|].
  destruct (assets_of_wire a []) as [a'| | |] eqn:E; cbn [bind]; try (intros; discriminate).
  match goal with |- context [match ?x with Some _ => _ | None => _ end] => destruct x end; [intros; discriminate|]. apply IH. apply inv2_insert; [assumption|].
  eapply assets_of_wire_sorted; [|eassumption]. reflexivity.
Qed.

(* ================= MintBuilder ================= *)
Definition mint_upds (h : list mint_op) : list (bytes * bytes * (Z -> Z)) :=
  flat_map (fun o => match o with
                     | MbAdd p n a => if (a =? 0)%Z then [] else [(p, n, fun old => (old + a)%Z)]
                     | MbSet p n a => if (a =? 0)%Z then [] else [(p, n, fun _ : Z => a)]
                     end) h.
Lemma mb_run_upds h : mb_run h = run2 0%Z (mint_upds h) [].
Proof.
  unfold mb_run, run2.
  assert (G : forall m : mint_state, fold_left mb_step h m =
    fold_left (fun m u => upd2 0%Z (fst (fst u)) (snd (fst u)) (snd u) m) (mint_upds h) m).
  { unfold mint_upds. induction h as [|o h IH]; intros m; cbn [fold_left flat_map]; [reflexivity|].
    rewrite fold_left_app, <- IH. f_equal. destruct o; cbn [mb_step]; destruct (a =? 0)%Z; reflexivity. }
  apply G.
Qed.
Theorem mb_run_wf h : wf2 (mb_run h).
Proof. rewrite mb_run_upds. apply wf2_run2. repeat split; constructor. Qed.

Lemma mb_run_keys h : forall p, In p (map fst (mb_run h)) -> In p (map (fun o => fst (mint_op_key o)) h).
Proof.
  unfold mb_run. assert (G : forall m p, In p (map fst (fold_left mb_step h m)) -> In p (map fst m) \/ In p (map (fun o => fst (mint_op_key o)) h)).
  { induction h as [|o h IH]; intros m p H; cbn in *; [now left|].
    apply IH in H. destruct H as [H|H]; [|right; now right].
    destruct o; cbn [mb_step] in H; destruct (a =? 0)%Z; auto; unfold upd2 in H;
      apply (In_insert_keys lex_ltb lex_ord) in H; destruct H as [->|H]; cbn; auto. }
  intros p H. apply G in H. destruct H as [[]|H]. exact H.
Qed.
Theorem mint_canonical h :
  Forall (fun o => length (fst (mint_op_key o)) = 28%nat) h ->
  sorted_by_enc (mb_run h) = true /\
  forallb (fun e => sorted_by_enc (snd e) && negb (match snd e with [] => true | _ => false end)) (mb_run h) = true.
Proof.
  intros L. destruct (mb_run_wf h) as [[S F] NE]. split.
  - unfold sorted_by_enc. eapply sorted_transfer; [|exact S].
    intros a b Ia Ib. apply policy_order_is_canonical.
    apply mb_run_keys in Ia. apply mb_run_keys in Ib. rewrite in_map_iff in Ia, Ib.
    destruct Ia as [oa [<- Ia]], Ib as [ob [<- Ib]]. rewrite Forall_forall in L. now rewrite (L _ Ia), (L _ Ib).
  - apply forallb_forall. intros e He. rewrite Forall_forall in F, NE. apply andb_true_iff. split.
    + unfold sorted_by_enc. eapply sorted_transfer; [|exact (F _ He)]. intros a b _ _. apply name_order_is_canonical.
    + specialize (NE _ He). now destruct (snd e).
Qed.
Theorem mint_content h p n : lookup2 (mb_run h) p n = mint_val h p n.
Proof.
  unfold mb_run, mint_val.
  assert (G : forall m : mint_state, lookup2 (fold_left mb_step h m) p n =
    fold_left (fun acc o =>
      match o with
      | MbAdd p' n' a => if (a =? 0)%Z then acc
                         else if bytes_eqb p p' && bytes_eqb n n' then Some ((match acc with Some x => x | None => 0 end) + a)%Z else acc
      | MbSet p' n' a => if (a =? 0)%Z then acc
                         else if bytes_eqb p p' && bytes_eqb n n' then Some a else acc
      end) h (lookup2 m p n)).
  { induction h as [|o h IH]; intros m; cbn [fold_left]; [reflexivity|]. rewrite IH. f_equal.
    destruct o; cbn [mb_step]; destruct (a =? 0)%Z; try reflexivity; rewrite lookup2_upd2;
      destruct (bytes_eqb p p0 && bytes_eqb n n0) eqn:E; try reflexivity;
      rewrite andb_true_iff, !bytes_eqb_spec in E; destruct E; subst; reflexivity. }
  apply G.
Qed.

(* order independence of the mint: add_asset calls commute, in any order and with repeats *)
Definition is_add (o : mint_op) : bool := match o with MbAdd _ _ _ => true | MbSet _ _ _ => false end.
Theorem mint_order_independent h h' :
  Permutation h h' -> forallb is_add h = true ->
  mb_run h = mb_run h' /\ mint_case h = mint_case h'.
Proof.
  intros P A. assert (E : mb_run h = mb_run h'); [|unfold mint_case; now rewrite E].
  rewrite !mb_run_upds. apply run2_perm.
  - unfold mint_upds. now apply Permutation_flat_map.
  - intros u1 u2 I1 I2 _ x. unfold mint_upds in I1, I2. rewrite in_flat_map in I1, I2.
    destruct I1 as [o1 [H1 I1]], I2 as [o2 [H2 I2]]. rewrite forallb_forall in A.
    pose proof (A _ H1) as A1. pose proof (A _ H2) as A2.
    destruct o1 as [p1 n1 a1|]; [|discriminate]. destruct o2 as [p2 n2 a2|]; [|discriminate].
    destruct (a1 =? 0)%Z; [destruct I1|]. destruct (a2 =? 0)%Z; [destruct I2|].
    destruct I1 as [<-|[]], I2 as [<-|[]]. cbn. lia.
Qed.
