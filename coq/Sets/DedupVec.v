(* C16, part 1 — the "vector + membership index" set types.  Model definitions only (no proofs).

   Mirrors, in /repo/rust/src:
     protocol_types/tx_inputs.rs            TransactionInputs   (Vec<Rc<_>> + BTreeSet<Rc<_>>)   add, from_vec, serde
     protocol_types/ed25519_key_hashes.rs   Ed25519KeyHashes    (Vec + HashSet)  add, add_move, extend, extend_move, from_vec, contains, serde
     protocol_types/credentials.rs          Credentials         (Vec + HashSet)  add, add_move, from_vec, from_iter, serde
     protocol_types/certificates/certificates_collection.rs   Certificates  add, add_move, from_vec (= repeated add_move), serde
     protocol_types/governance/proposals/voting_proposals.rs  VotingProposals  add, contains, from_vec, serde
     protocol_types/witnesses/vkeywitnesses.rs       Vkeywitnesses       add, add_move, from_vec, serde
     protocol_types/witnesses/bootstrap_witnesses.rs BootstrapWitnesses  add, from_vec, serde
   and the seven CBOR (de)serializers serialization/{tx_inputs,ed25519_key_hashes,credentials,
   certificates/certificates_collection,governance/proposals/voting_proposals,witnesses/vkeywitnesses,
   witnesses/bootstrap_witnesses}.rs.

   All seven keep TWO fields that every insertion path updates together: the vector (what is
   serialized, what `get`/`len`/`to_json` see) and a membership index (what decides whether an element
   is new).  The model keeps both ([items], [index]); that they never drift apart is a theorem
   (the wf lemmas of DedupVecProofs), not an assumption.  The element type is a parameter: the library compares
   elements with their derived Eq/Hash (HashSet) or Ord (BTreeSet of TransactionInput), here [eqb].

   The deserializers differ per type in three ways that matter for duplicates and are modelled by
   [kind_cfg]: how many set tags (258) they skip (VotingProposals and Vkeywitnesses call skip_set_tag twice), what
   happens on a CBOR "special" that is not a break where an element is expected (is_break_tag => error; the two witness
   collections used to assert_eq! => panic, repaired in /repo 795c77b: error; the switch [break_asserts] is kept in the model) and whether elements are added one by one while reading
   (Ed25519KeyHashes, Credentials, Vkeywitnesses: add_move) or collected into a Vec first and
   then passed to from_vec (the other four).  The element codec itself is not part of C16 (C01);
   a wire item is given as the element it decodes to, [IBad] when the element decoder fails. *)
From CSL Require Import Base.Prelude Cbor.Head.
Local Open Scope N_scope.

Section Generic.
  Context {A : Type} (eqb : A -> A -> bool).

  Definition mem (x : A) (l : list A) : bool := existsb (eqb x) l.

  Record dset := mk_dset { items : list A; index : list A }.
  Definition empty : dset := mk_dset [] [].

  (* HashSet::insert / BTreeSet::insert: true iff no equal element was present (then it is stored) *)
  Definition index_insert (x : A) (ix : list A) : list A * bool :=
    if mem x ix then (ix, false) else (x :: ix, true).

  (* pub fn add(&mut self, x) -> bool *)
  Definition add (s : dset) (x : A) : dset * bool :=
    let '(ix, fresh) := index_insert x (index s) in
    if fresh then (mk_dset (items s ++ [x]) ix, true) else (mk_dset (items s) ix, false).
  (* pub(crate) fn add_move(&mut self, x) *)
  Definition add_move (s : dset) (x : A) : dset := fst (add s x).
  (* pub fn contains(&self, x) -> bool : asks the index *)
  Definition contains (s : dset) (x : A) : bool := mem x (index s).
  (* from_vec / from_iter: fresh vector and index, same loop *)
  Definition from_vec (v : list A) : dset := fold_left add_move v empty.
  (* extend(&other) = for k in other.keyhashes { self.add(k) };  extend_move: same insert-then-push loop *)
  Definition extend (s o : dset) : dset := fold_left add_move (items o) s.

  (* one step of an API history *)
  Inductive op :=
  | OAdd (x : A)                 (* add, result observed *)
  | OAddMove (x : A)
  | OExtend (v : list A)         (* extend / extend_move with a set that was itself built by from_vec v *)
  | OContains (x : A).           (* read-only *)
  Definition step (s : dset) (o : op) : dset :=
    match o with
    | OAdd x | OAddMove x => add_move s x
    | OExtend v => extend s (from_vec v)
    | OContains _ => s
    end.
  Definition run (s : dset) (h : list op) : dset := fold_left step h s.
  (* the booleans a caller sees along the history (add and contains) *)
  Fixpoint observe (s : dset) (h : list op) : list bool :=
    match h with
    | [] => []
    | o :: r =>
        match o with
        | OAdd x => snd (add s x) :: observe (step s o) r
        | OContains x => contains s x :: observe s r
        | _ => observe (step s o) r
        end
    end.
  (* elements offered to the set along a history, in order *)
  Fixpoint offered (h : list op) : list A :=
    match h with
    | [] => []
    | OAdd x :: r | OAddMove x :: r => x :: offered r
    | OExtend v :: r => v ++ offered r
    | OContains _ :: r => offered r
    end.

  (* SPEC: the duplicate-free list of first occurrences, written without reference to the code *)
  Fixpoint first_occ (l : list A) : list A :=
    match l with
    | [] => []
    | x :: r => x :: filter (fun y => negb (eqb x y)) (first_occ r)
    end.

  (* SPEC for the booleans a caller sees: [seen] = everything offered so far, repeats included *)
  Fixpoint spec_bools (seen : list A) (h : list op) : list bool :=
    match h with
    | [] => []
    | OAdd x :: r => negb (mem x seen) :: spec_bools (seen ++ [x]) r
    | OAddMove x :: r => spec_bools (seen ++ [x]) r
    | OExtend v :: r => spec_bools (seen ++ v) r
    | OContains x :: r => mem x seen :: spec_bools seen r
    end.

  (* ---- CBOR decoding with repeated elements ---- *)
  Inductive item := IElem (a : A) | IBad | INull.
  Inductive flen := Definite (n : N) | Indefinite.
  (* what is on the wire: tags, array head, items, optionally a break byte; nothing after it *)
  Record frame := mk_frame { f_tags : list N; f_len : flen; f_items : list item; f_break : bool }.
  Record kind_cfg := mk_kind { double_tag : bool; break_asserts : bool; incremental : bool }.

  (* skip_tag(raw, 258): a tag other than 258 is an error; no tag: nothing consumed *)
  Definition skip_set_tag (tags : list N) : result (list N) :=
    match tags with
    | [] => Ok []
    | t :: r => if t =? 258 then Ok r else Err
    end.

  (* the element loop.  `while match len { Len(n) => count < n, Indefinite => true }`:
     EOF => error (cbor_type fails); a break ends an indefinite-length array and is an error (BreakInDefiniteLen) inside a
     definite-length one (since /repo ec1af1f; before, it silently ended both forms); any other special:
     error (or assert-panic, see [break_asserts]).  [acc] = elements read so far, in wire order, repeats included *)
  Fixpoint read_items (k : kind_cfg) (len : flen) (its : list item) (brk : bool) (acc : list A) : result (list A) :=
    let continue_ := match len with Definite n => negb (n =? 0) | Indefinite => true end in
    if negb continue_ then Ok acc else
    match its with
    | [] => if brk then (match len with Indefinite => Ok acc | Definite _ => Err end) else Err
    | IElem a :: r => read_items k (match len with Definite n => Definite (n - 1) | Indefinite => Indefinite end) r brk (acc ++ [a])
    | IBad :: _ => Err
    | INull :: _ => if break_asserts k then Panic else Err
    end.

  Definition decode (k : kind_cfg) (f : frame) : result dset :=
    let* t1 := skip_set_tag (f_tags f) in
    let* t2 := (if double_tag k then skip_set_tag t1 else Ok t1) in
    match t2 with
    | _ :: _ => Err                                   (* raw.array() meets a tag *)
    | [] =>
        let* elems := read_items k (f_len f) (f_items f) (f_break f) [] in
        Ok (from_vec elems)       (* incremental add_move while reading, or from_vec afterwards: the same fold *)
    end.
  (* serde: Vec<T>::deserialize then from_vec *)
  Definition of_json (v : list A) : dset := from_vec v.
  Definition to_json (s : dset) : list A := items s.

  (* the elements a successful decode has read (for the statements) *)
  Definition frame_elems (k : kind_cfg) (f : frame) : result (list A) :=
    read_items k (f_len f) (f_items f) (f_break f) [].
End Generic.

Arguments dset A : clear implicits.
Arguments op A : clear implicits.
Arguments item A : clear implicits.
Arguments frame A : clear implicits.
Arguments IBad {A}.
Arguments INull {A}.

(* ---- the seven concrete types ---- *)
Inductive set_kind := KTxInputs | KKeyHashes | KCredentials | KCertificates | KProposals | KVkeys | KBootstraps.
Definition cfg_of (k : set_kind) : kind_cfg :=
  match k with
  | KTxInputs     => mk_kind false false false
  | KKeyHashes    => mk_kind false false true
  | KCredentials  => mk_kind false false true
  | KCertificates => mk_kind false false false
  | KProposals    => mk_kind true  false false
  | KVkeys        => mk_kind true  false true     (* break_asserts was true until /repo 795c77b (assert_eq! replaced by an error) *)
  | KBootstraps   => mk_kind false false false
  end.
Definition kind_of_N (n : N) : set_kind :=
  match n with 0 => KTxInputs | 1 => KKeyHashes | 2 => KCredentials | 3 => KCertificates | 4 => KProposals | 5 => KVkeys | _ => KBootstraps end.

(* ---- serialisation: tag 258, definite array head, the elements in vector order.
   (All seven serializers; Vkeywitnesses / BootstrapWitnesses omit the tag only inside a FixedTransaction that
   preserves an untagged original — force_original_cbor_set_type — which no public constructor of the collection sets.) *)
Definition ser_set {A} (enc : A -> bytes) (s : dset A) : bytes :=
  encode_head 6 258 ++ encode_head 4 (N.of_nat (length (items s))) ++ concat (map enc (items s)).

(* element = its canonical CBOR bytes; equality of byte strings *)
Fixpoint bytes_eqb (a b : bytes) : bool :=
  match a, b with
  | [], [] => true
  | x :: a', y :: b' => (x =? y) && bytes_eqb a' b'
  | _, _ => false
  end.

(* ---- what the driver evaluates ---- *)
Inductive init_form :=
| FromNew
| FromBytes (f : frame bytes)
| FromJson (v : list bytes)
| FromScripts (vs : list (list bytes)).   (* Ed25519KeyHashes::from(&NativeScripts): fold extend_move over per-script sets *)

Definition init_set (k : set_kind) (i : init_form) : result (dset bytes) :=
  match i with
  | FromNew => Ok (empty)
  | FromBytes f => decode bytes_eqb (cfg_of k) f
  | FromJson v => Ok (of_json bytes_eqb v)
  | FromScripts vs => Ok (fold_left (fun s v => extend bytes_eqb s (from_vec bytes_eqb v)) vs empty)
  end.

(* observation: booleans of add/contains, final elements, final bytes, bytes after a JSON round trip *)
Record set_obs := mk_obs { o_bools : list bool; o_items : list bytes; o_bytes : bytes; o_json_bytes : bytes }.
Definition set_case (k : set_kind) (i : init_form) (h : list (op bytes)) : result set_obs :=
  let* s0 := init_set k i in
  let s := run bytes_eqb s0 h in
  Ok (mk_obs (observe bytes_eqb s0 h) (items s) (ser_set (fun b => b) s)
             (ser_set (fun b => b) (of_json bytes_eqb (to_json s)))).

(* JUDGE (the property's executable statement, evaluated on the IMPLEMENTATION's observation):
   the serialized element sequence has no repeats, equals the first-occurrence list of everything
   offered (initial content first), and each `add` returned true exactly for a first occurrence. *)
Fixpoint nodupb (l : list bytes) : bool :=
  match l with [] => true | x :: r => negb (mem bytes_eqb x r) && nodupb r end.
Fixpoint list_eqb (a b : list bytes) : bool :=
  match a, b with
  | [], [] => true
  | x :: a', y :: b' => bytes_eqb x y && list_eqb a' b'
  | _, _ => false
  end.
Definition init_offered (k : set_kind) (i : init_form) : result (list bytes) :=
  match i with
  | FromNew => Ok []
  | FromBytes f =>
      let* t1 := skip_set_tag (f_tags f) in
      let* t2 := (if double_tag (cfg_of k) then skip_set_tag t1 else Ok t1) in
      match t2 with _ :: _ => Err | [] => frame_elems (cfg_of k) f end
  | FromJson v => Ok v
  | FromScripts vs => Ok (concat vs)
  end.
Fixpoint bools_eqb (a b : list bool) : bool :=
  match a, b with
  | [], [] => true
  | x :: a', y :: b' => Bool.eqb x y && bools_eqb a' b'
  | _, _ => false
  end.
(* impl_items: the element encodings found in the implementation's to_bytes (the harness splits the
   array with the library's own element decoder and re-encodes each element) *)
Definition judge_set (k : set_kind) (i : init_form) (h : list (op bytes))
                     (impl_items : list bytes) (impl_bools : list bool) : bool :=
  match init_offered k i with
  | Ok pre =>
      nodupb impl_items
      && list_eqb impl_items (first_occ bytes_eqb (pre ++ offered h))
      && bools_eqb impl_bools (spec_bools bytes_eqb pre h)
  | _ => true      (* the initial bytes are rejected: nothing to judge *)
  end.
