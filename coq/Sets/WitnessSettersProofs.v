(* C16, part 3 — theorems about the witness-set setters, the builder's witness set and its reference inputs. *)
From CSL Require Import Base.Prelude Cbor.Head Cbor.HeadProofs Sets.DedupVec Sets.DedupVecProofs Sets.CanonOrder Sets.CanonOrderProofs Sets.WitnessSetters.
From Coq Require Import Permutation.
Local Open Scope N_scope.

(* ---------- equalities ---------- *)
Lemma pscript_eqb_spec a b : pscript_eqb a b = true <-> a = b.
Proof.
  destruct a as [la ba], b as [lb bb]. unfold pscript_eqb. cbn. rewrite andb_true_iff, N.eqb_eq, bytes_eqb_spec.
  split; [intros [-> ->]; reflexivity | intros [= -> ->]; auto].
Qed.
Lemma txin_eqb_spec (a b : txin) : txin_eqb a b = true <-> a = b.
Proof.
  destruct a as [ha ia], b as [hb ib]. unfold txin_eqb. cbn. rewrite andb_true_iff, N.eqb_eq, bytes_eqb_spec.
  split; [intros [-> ->]; reflexivity | intros [= -> ->]; auto].
Qed.
Lemma nodupb_spec l : nodupb l = true <-> NoDup l.
Proof.
  induction l as [|x l IH]; cbn; [split; [constructor | reflexivity]|].
  rewrite andb_true_iff, negb_true_iff, IH, (mem_false bytes_eqb bytes_eqb_spec). split.
  - intros [H1 H2]. now constructor.
  - intros H. inversion H. now split.
Qed.

(* ---------- de-duplication by a key ---------- *)
(* comparing elements through a key function = de-duplicating the keys *)
Lemma mem_map {A B} (eqb : B -> B -> bool) (f : A -> B) x l :
  mem (fun x y => eqb (f x) (f y)) x l = mem eqb (f x) (map f l).
Proof. unfold mem. induction l as [|a l IH]; cbn; [reflexivity | now rewrite IH]. Qed.
Lemma from_vec_map {A B} (eqb : B -> B -> bool) (f : A -> B) l :
  map f (items (from_vec (fun x y => eqb (f x) (f y)) l)) = items (from_vec eqb (map f l)).
Proof.
  unfold from_vec.
  assert (G : forall (s : dset A) (t : dset B), map f (items s) = items t -> map f (index s) = index t ->
    map f (items (fold_left (add_move (fun x y => eqb (f x) (f y))) l s)) = items (fold_left (add_move eqb) (map f l) t)).
  { induction l as [|x l IH]; intros s t Hi Hx; cbn [fold_left map]; [assumption|].
    assert (M : mem (fun x y => eqb (f x) (f y)) x (index s) = mem eqb (f x) (index t)).
    { rewrite <- Hx. apply mem_map. }
    apply IH; unfold add_move, add, index_insert; rewrite M; destruct (mem eqb (f x) (index t)); cbn [fst items index]; try assumption.
    - now rewrite map_app, Hi.
    - cbn. now rewrite Hx. }
  now apply G.
Qed.
Lemma dedup_clone_spec {A} (eqb : A -> A -> bool) (H : forall x y, eqb x y = true <-> x = y) l :
  dedup_clone eqb l = first_occ eqb l.
Proof. apply (items_from_vec eqb H). Qed.
Lemma dedup_clone_nodup {A} (eqb : A -> A -> bool) (H : forall x y, eqb x y = true <-> x = y) l :
  NoDup (dedup_clone eqb l).
Proof. rewrite dedup_clone_spec by assumption. now apply NoDup_first_occ. Qed.

(* the repaired datum de-duplication: the bytes written are pairwise distinct, and they are the first
   occurrences of the bytes offered (nothing lost, first-insertion order) *)
Theorem datum_dedup_emits_once l :
  map d_emit (dedup_clone datum_emit_eqb l) = first_occ bytes_eqb (map d_emit l) /\
  NoDup (map d_emit (dedup_clone datum_emit_eqb l)).
Proof.
  unfold dedup_clone, datum_emit_eqb. rewrite (from_vec_map bytes_eqb d_emit l), (items_from_vec bytes_eqb bytes_eqb_spec).
  split; [reflexivity | apply (NoDup_first_occ bytes_eqb bytes_eqb_spec)].
Qed.
(* the code as found (key = derived Ord, which also looks at original_bytes) wrote the same datum twice *)
Theorem datum_dedup_by_ord_refuted :
  exists l, ~ NoDup (map d_emit (dedup_clone datum_ord_eqb l)) /\ known_datum_twice l = true.
Proof.
  exists [mk_datum [1] None; mk_datum [1] (Some [1])]. split; [|reflexivity].
  vm_compute. intros H. inversion H as [|? ? N _]. apply N. now left.
Qed.
(* outside the known class even the old code emitted each datum once *)
Theorem datum_dedup_by_ord_outside_class l :
  known_datum_twice l = false -> NoDup (map d_emit (dedup_clone datum_ord_eqb l)).
Proof. unfold known_datum_twice. rewrite negb_false_iff. apply nodupb_spec. Qed.

(* ---------- a byte-string item determines its content ---------- *)
Lemma enc_bstr_inj a b : N.of_nat (length a) < two64 -> N.of_nat (length b) < two64 -> enc_bstr a = enc_bstr b -> a = b.
Proof.
  intros Ha Hb E. unfold enc_bstr in E.
  pose proof (decode_encode_head 2 (N.of_nat (length a)) a Ha) as Da.
  pose proof (decode_encode_head 2 (N.of_nat (length b)) b Hb) as Db.
  rewrite E in Da. rewrite Da in Db. now injection Db.
Qed.

Lemma NoDup_map_inj_in {A B} (f : A -> B) l : (forall x y, In x l -> In y l -> f x = f y -> x = y) -> NoDup l -> NoDup (map f l).
Proof.
  intros Inj ND. induction ND as [|a l H ND IH]; cbn; constructor.
  - rewrite in_map_iff. intros [y [E Hy]]. apply Inj in E; [subst; contradiction | now right | now left].
  - apply IH. intros x y Hx Hy. apply Inj; now right.
Qed.

(* plutus scripts of one language inside a de-duplicated list: pairwise distinct encodings *)
Lemma view_dedup_nodup v l :
  Forall (fun s => N.of_nat (length (ps_bytes s)) < two64) l ->
  NoDup (map (fun s => enc_bstr (ps_bytes s)) (view v (dedup_clone pscript_eqb l))).
Proof.
  intros L. apply NoDup_map_inj_in.
  - intros x y Hx Hy E. unfold view in Hx, Hy. rewrite filter_In in Hx, Hy. destruct Hx as [Hx Lx], Hy as [Hy Ly].
    rewrite dedup_clone_spec in Hx, Hy by apply pscript_eqb_spec.
    apply (proj1 (In_first_occ pscript_eqb pscript_eqb_spec _ _)) in Hx. apply (proj1 (In_first_occ pscript_eqb pscript_eqb_spec _ _)) in Hy. rewrite Forall_forall in L.
    pose proof (L _ Hx) as Bx. pose proof (L _ Hy) as By. cbn beta in Bx, By. apply (enc_bstr_inj _ _ Bx By) in E.
    apply N.eqb_eq in Lx, Ly. destruct x, y. cbn in *. congruence.
  - unfold view. apply NoDup_filter. apply dedup_clone_nodup. apply pscript_eqb_spec.
Qed.

(* ---------- the typed setters: every reachable witness set writes each element once ---------- *)
Definition op_ok (o : ws_op) : Prop :=
  match o with
  | SetPlutus l => Forall (fun s => N.of_nat (length (ps_bytes s)) < two64) l
  | _ => True
  end.
Definition ws_good (w : wset) : Prop :=
  (forall v, ws_vkeys w = Some v -> NoDup v) /\ (forall l, ws_native w = Some l -> NoDup l) /\
  (forall b, ws_boot w = Some b -> NoDup b) /\
  (forall l, ws_plutus w = Some l -> forall v, NoDup (map (fun s => enc_bstr (ps_bytes s)) (view v l))) /\
  (forall p, ws_data w = Some p -> NoDup (map d_emit (pl_elems p))).

Lemma ws_good_new : ws_good ws_new.
Proof. repeat split; intros; discriminate. Qed.
Lemma ws_good_step w o : ws_good w -> op_ok o -> ws_good (ws_step_gen false w o).
Proof.
  intros (G1 & G2 & G3 & G4 & G5) Ok. destruct o; cbn [ws_step_gen op_ok] in *.
  - destruct (nonempty _); [|now repeat split]. repeat split; cbn; try assumption.
    intros ? [= <-]. apply (wf_from_vec bytes_eqb bytes_eqb_spec).
  - destruct (nonempty l); [|now repeat split]. repeat split; cbn; try assumption.
    intros ? [= <-]. apply dedup_clone_nodup, bytes_eqb_spec.
  - repeat split; cbn; try assumption. intros ? [= <-]. apply (wf_from_vec bytes_eqb bytes_eqb_spec).
  - destruct (nonempty l); [|now repeat split]. repeat split; cbn; try assumption.
    intros ? [= <-] v. now apply view_dedup_nodup.
  - destruct (nonempty (pl_elems p)); [|now repeat split]. repeat split; cbn; try assumption.
    intros ? [= <-]. cbn. apply datum_dedup_emits_once.
Qed.
Lemma ws_good_fields w : ws_good w -> forall k els, In (k, els) (ws_fields w) -> NoDup els.
Proof.
  intros (G1 & G2 & G3 & G4 & G5) k els. unfold ws_fields. rewrite !in_app_iff.
  intros [H|[H|[H|[H|H]]]].
  - destruct (ws_vkeys w) as [v|] eqn:E; [|destruct H]. destruct (nonempty v); [|destruct H]. destruct H as [[= <- <-]|[]]. now apply G1.
  - destruct (ws_native w) as [v|] eqn:E; [|destruct H]. destruct (nonempty v); [|destruct H]. destruct H as [[= <- <-]|[]]. now apply G2.
  - destruct (ws_boot w) as [v|] eqn:E; [|destruct H]. destruct (nonempty v); [|destruct H]. destruct H as [[= <- <-]|[]]. now apply G3.
  - destruct (ws_plutus w) as [l|] eqn:E; [|destruct H]. rewrite !in_app_iff in H.
    destruct H as [H|[H|H]];
      match type of H with In _ (if ?c then _ else _) => destruct c end; try destruct H as [[= <- <-]|[]]; try destruct H; now apply G4.
  - destruct (ws_data w) as [p|] eqn:E; [|destruct H]. destruct (nonempty (pl_elems p)); [|destruct H]. destruct H as [[= <- <-]|[]]. now apply G5.
Qed.
Lemma ws_run_gen_good h : Forall op_ok h -> forall w, ws_good w -> ws_good (fold_left (ws_step_gen false) h w).
Proof.
  induction 1 as [|o h Ho _ IH]; intros w G; cbn; [assumption|]. apply IH. now apply ws_good_step.
Qed.

(* the switch is off: the model run by the check is the repaired one *)
Lemma switch_is_repaired : datum_dedup_by_ord = false.
Proof. reflexivity. Qed.

Theorem ws_setters_emit_once h :
  Forall op_ok h -> forall k els, In (k, els) (ws_fields (ws_run h)) -> NoDup els.
Proof.
  intros Ok. apply ws_good_fields. unfold ws_run, ws_step. rewrite switch_is_repaired.
  apply ws_run_gen_good; [assumption | apply ws_good_new].
Qed.
Theorem ws_setters_emit_once_refuted :
  exists h, Forall op_ok h /\ exists k els, In (k, els) (ws_fields (fold_left (ws_step_gen true) h ws_new)) /\ ~ NoDup els.
Proof.
  exists [SetData (mk_plist [mk_datum [1] None; mk_datum [1] (Some [1])] None)]. split; [repeat constructor|].
  exists 4, [[1]; [1]]. split; [vm_compute; now left|]. intros H. inversion H as [|? ? N _]. apply N. now left.
Qed.

(* the builder's witness set (new_with_partial_dedup) *)
Theorem ws_builder_emits_once vk ns bs ps pd :
  (forall v, vk = Some v -> NoDup v) -> (forall b, bs = Some b -> NoDup b) ->
  (forall l, ps = Some l -> Forall (fun s => N.of_nat (length (ps_bytes s)) < two64) l) ->
  forall k els, In (k, els) (ws_fields (ws_partial_dedup_gen false vk ns bs ps pd)) -> NoDup els.
Proof.
  intros Hv Hb Hp. apply ws_good_fields. unfold ws_partial_dedup_gen. repeat split; cbn.
  - assumption.
  - intros l. destruct ns as [n|]; [|discriminate]. unfold some_nonempty. destruct (nonempty _); [|discriminate].
    intros [= <-]. apply dedup_clone_nodup, bytes_eqb_spec.
  - assumption.
  - intros l. destruct ps as [p|]; [|discriminate]. unfold some_nonempty. destruct (nonempty _); [|discriminate].
    intros [= <-] v. apply view_dedup_nodup. now apply Hp.
  - intros p. destruct pd as [q|]; [|discriminate]. destruct (nonempty _); [|discriminate].
    intros [= <-]. cbn. apply datum_dedup_emits_once.
Qed.

(* ---------- reference inputs ---------- *)
Lemma txin_ord : strict_total txin_ltb.
Proof.
  unfold txin_ltb. split; [|split].
  - intros [h i]. cbn. rewrite lex_irrefl. apply N.ltb_irrefl.
  - intros [h1 i1] [h2 i2] [h3 i3]. cbn.
    destruct (lex_ltb h1 h2) eqn:A; destruct (lex_ltb h2 h3) eqn:B.
    + rewrite (lex_trans _ _ _ A B). reflexivity.
    + destruct (lex_ltb h3 h2) eqn:B'; [discriminate|]. rewrite (lex_total _ _ B B') in *. now rewrite A.
    + destruct (lex_ltb h2 h1) eqn:A'; [discriminate|]. rewrite (lex_total _ _ A A') in *. now rewrite B.
    + destruct (lex_ltb h2 h1) eqn:A'; [discriminate|]. destruct (lex_ltb h3 h2) eqn:B'; [discriminate|].
      rewrite (lex_total _ _ A A') in *. rewrite (lex_total _ _ B B') in *. rewrite lex_irrefl. intros H1 H2. lia.
  - intros [h1 i1] [h2 i2]. cbn. destruct (lex_ltb h1 h2) eqn:A; [discriminate|]. destruct (lex_ltb h2 h1) eqn:A'; [discriminate|].
    rewrite (lex_total _ _ A A'). intros H1 H2. f_equal. lia.
Qed.
Lemma keq_txin a b : keq txin_ltb a b = txin_eqb a b.
Proof.
  destruct (txin_eqb a b) eqn:E.
  - apply txin_eqb_spec in E. subst. apply (keq_refl txin_ltb txin_ord).
  - destruct (keq txin_ltb a b) eqn:Q; [|reflexivity].
    apply (keq_eq txin_ltb txin_ord) in Q. subst. assert (txin_eqb b b = true) by now apply txin_eqb_spec. congruence.
Qed.

Definition tmem (k : txin) (s : tset) : bool := is_some (sm_lookup txin_ltb k s).
Lemma In_keys_tmem (s : tset) k : In k (map fst s) <-> tmem k s = true.
Proof.
  unfold tmem. split.
  - intros I. destruct (lookup_some_key txin_ltb txin_ord k _ I) as [v ->]. reflexivity.
  - destruct (sm_lookup txin_ltb k s) eqn:L; [|discriminate]. intros _.
    apply (lookup_In txin_ltb txin_ord) in L. now apply (in_map fst) in L.
Qed.
Lemma tset_sorted_fold (f : txin -> bool) l : forall s, sm_sorted txin_ltb s = true ->
  sm_sorted txin_ltb (fold_left (fun s x => if f x then s else tset_add s x) l s) = true.
Proof.
  induction l as [|x l IH]; intros s S; cbn; [assumption|]. apply IH. destruct (f x); [assumption|].
  now apply (sorted_insert txin_ltb txin_ord).
Qed.
Lemma tmem_fold (f : txin -> bool) l k : forall s,
  tmem k (fold_left (fun s x => if f x then s else tset_add s x) l s) = tmem k s || (mem txin_eqb k l && negb (f k)).
Proof.
  induction l as [|x l IH]; intros s; cbn [fold_left mem existsb]; [now rewrite andb_false_l, orb_false_r|].
  rewrite IH. unfold mem. destruct (f x) eqn:F.
  - destruct (txin_eqb k x) eqn:E; cbn [orb]; [|reflexivity].
    apply txin_eqb_spec in E. subst. rewrite F. cbn. now rewrite andb_false_r.
  - unfold tmem at 1, tset_add. rewrite (lookup_insert txin_ltb txin_ord), keq_txin.
    destruct (txin_eqb k x) eqn:E; cbn [orb is_some].
    + apply txin_eqb_spec in E. subst. rewrite F. cbn. now rewrite orb_true_r.
    + reflexivity.
Qed.
Lemma tset_ext (s1 s2 : tset) : sm_sorted txin_ltb s1 = true -> sm_sorted txin_ltb s2 = true ->
  (forall k, tmem k s1 = tmem k s2) -> s1 = s2.
Proof.
  intros S1 S2 H. apply (sorted_ext txin_ltb txin_ord); try assumption.
  intros k. specialize (H k). unfold tmem in H.
  destruct (sm_lookup txin_ltb k s1) as [[]|], (sm_lookup txin_ltb k s2) as [[]|]; cbn in H; congruence.
Qed.
Lemma mem_perm {A} (eqb : A -> A -> bool) (Hs : forall x y, eqb x y = true <-> x = y) l l' k : Permutation l l' -> mem eqb k l = mem eqb k l'.
Proof.
  intros P. destruct (mem eqb k l') eqn:M.
  - apply (mem_In eqb Hs). apply (mem_In eqb Hs) in M. eapply Permutation_in; [apply Permutation_sym|]; eassumption.
  - apply (mem_false eqb Hs). apply (mem_false eqb Hs) in M. intros H. apply M. eapply Permutation_in; eassumption.
Qed.

Definition ref_set (d : bool) (regular sources explicit : list txin) : tset :=
  let has_input x := mem txin_eqb x regular in
  let add_set s l := fold_left (fun s x => if has_input x then s else tset_add s x) l s in
  let s1 := add_set [] sources in
  if d then add_set s1 explicit else fold_left tset_add explicit s1.
Lemma ref_set_sorted d r s e : sm_sorted txin_ltb (ref_set d r s e) = true.
Proof.
  unfold ref_set. destruct d.
  - apply tset_sorted_fold, tset_sorted_fold. reflexivity.
  - change (fold_left tset_add e) with (fold_left (fun s x => if (fun _ => false) x then s else tset_add s x) e).
    apply tset_sorted_fold, tset_sorted_fold. reflexivity.
Qed.
Lemma ref_set_mem d r s e k :
  tmem k (ref_set d r s e) =
  (mem txin_eqb k s && negb (mem txin_eqb k r)) || (mem txin_eqb k e && (negb d || negb (mem txin_eqb k r))).
Proof.
  unfold ref_set. destruct d.
  - rewrite !tmem_fold. cbn. reflexivity.
  - change (fold_left tset_add e) with (fold_left (fun s x => if (fun _ => false) x then s else tset_add s x) e).
    rewrite !tmem_fold. cbn. now rewrite andb_true_r.
Qed.
Lemma sorted_keys_nodup (s : tset) : sm_sorted txin_ltb s = true -> NoDup (map fst s).
Proof.
  induction s as [|[k v] s IH]; intros S; cbn; constructor.
  - intros I. pose proof (sorted_head_lt txin_ltb txin_ord _ _ _ S _ I) as H.
    destruct txin_ord as [Irr _]. now rewrite Irr in H.
  - apply IH. eapply sorted_tail; eassumption.
Qed.
Lemma ref_inputs_eq d r s e : ref_inputs d r s e = map fst (ref_set d r s e).
Proof.
  unfold ref_inputs. fold (ref_set d r s e). rewrite (items_from_vec txin_eqb txin_eqb_spec).
  apply (first_occ_nodup txin_eqb txin_eqb_spec), sorted_keys_nodup, ref_set_sorted.
Qed.

(* what get_reference_inputs returns: duplicate-free, in ascending TransactionInput order, and exactly the script-source
   reference inputs that are not regular inputs plus the explicit ones (filtered the same way when the config flag is set) *)
Theorem ref_inputs_spec d r s e :
  NoDup (ref_inputs d r s e) /\
  (forall k, In k (ref_inputs d r s e) <->
     (In k s /\ ~ In k r) \/ (In k e /\ (d = false \/ ~ In k r))).
Proof.
  rewrite ref_inputs_eq. split; [apply sorted_keys_nodup, ref_set_sorted|].
  intros k. assert (M : In k (map fst (ref_set d r s e)) <-> tmem k (ref_set d r s e) = true).
  { unfold tmem. split.
    - intros I. destruct (lookup_some_key txin_ltb txin_ord k _ I) as [v ->]. reflexivity.
    - destruct (sm_lookup txin_ltb k (ref_set d r s e)) eqn:L; [|discriminate]. intros _.
      apply (lookup_In txin_ltb txin_ord) in L. now apply (in_map fst) in L. }
  rewrite M, ref_set_mem, orb_true_iff, !andb_true_iff, orb_true_iff, !negb_true_iff,
    !(mem_In txin_eqb txin_eqb_spec), !(mem_false txin_eqb txin_eqb_spec). reflexivity.
Qed.
(* the result does not depend on the order in which the sources or the explicit HashMap hand over their
   elements: any two iteration orders (permutations) give the same list, hence the same bytes *)
Theorem ref_inputs_order_independent d r r' s s' e e' :
  Permutation r r' -> Permutation s s' -> Permutation e e' ->
  ref_inputs d r s e = ref_inputs d r' s' e'.
Proof.
  intros Pr Ps Pe. rewrite !ref_inputs_eq. f_equal. apply tset_ext; try apply ref_set_sorted.
  intros k. rewrite !ref_set_mem.
  now rewrite (mem_perm txin_eqb txin_eqb_spec _ _ k Pr), (mem_perm txin_eqb txin_eqb_spec _ _ k Ps), (mem_perm txin_eqb txin_eqb_spec _ _ k Pe).
Qed.
(* the code as found: the output followed the hash set's iteration order, so two calls could differ *)
Theorem ref_inputs_hash_order_refuted :
  exists (o1 o2 : list txin -> list txin) d r s e,
    (forall l, Permutation (o1 l) l) /\ (forall l, Permutation (o2 l) l) /\
    ref_inputs_hashed o1 d r s e <> ref_inputs_hashed o2 d r s e.
Proof.
  exists (fun l => l), (@rev txin), false, [], [], [([1], 0); ([2], 0)].
  split; [intros; apply Permutation_refl|]. split; [intros; apply Permutation_sym, Permutation_rev|].
  vm_compute. discriminate.
Qed.

(* inputs / collateral: keys of a BTreeMap — the order of the add_*_input calls is irrelevant *)
Theorem tin_set_spec l :
  NoDup (tin_set l) /\ (forall k, In k (tin_set l) <-> In k l) /\
  (forall l', Permutation l l' -> tin_set l = tin_set l').
Proof.
  unfold tin_set.
  assert (S : forall l, sm_sorted txin_ltb (fold_left tset_add l []) = true).
  { intros l0. change (fold_left tset_add l0) with (fold_left (fun s x => if (fun _ => false) x then s else tset_add s x) l0).
    now apply tset_sorted_fold. }
  assert (Mm : forall l k, tmem k (fold_left tset_add l []) = mem txin_eqb k l).
  { intros l0 k. change (fold_left tset_add l0) with (fold_left (fun s x => if (fun _ => false) x then s else tset_add s x) l0).
    rewrite tmem_fold. cbn. now rewrite andb_true_r. }
  split; [apply sorted_keys_nodup, S|]. split.
  - intros k. rewrite In_keys_tmem, Mm. apply (mem_In txin_eqb txin_eqb_spec).
  - intros l' P. f_equal. apply tset_ext; try apply S. intros k. rewrite !Mm. now apply mem_perm; [apply txin_eqb_spec|].
Qed.

(* ---------- one build: independent of every order a hash-seeded or call-ordered container could impose ---------- *)
Definition reorder (c : tx_case) (ins coll refs expl : list txin) : tx_case :=
  mk_tx ins coll (t_dedup_flag c) refs expl (t_signers c) (t_mint c) (t_native c) (t_plutus c) (t_wit_datums c) (t_extra_datums c).
Theorem tx_build_order_independent c ins coll refs expl :
  Permutation (t_inputs c) ins -> Permutation (t_collateral c) coll ->
  Permutation (t_script_refs c) refs -> Permutation (t_explicit_refs c) expl ->
  tx_build (reorder c ins coll refs expl) = tx_build c.
Proof.
  intros Pi Pc Pr Pe. unfold tx_build, reorder. cbn [t_inputs t_collateral t_dedup_flag t_script_refs t_explicit_refs t_signers t_mint t_native t_plutus t_wit_datums t_extra_datums].
  destruct (tin_set_spec (t_inputs c)) as (_ & _ & Hi). destruct (tin_set_spec (t_collateral c)) as (_ & _ & Hc).
  rewrite <- (Hi _ Pi), <- (Hc _ Pc).
  rewrite (ref_inputs_order_independent (t_dedup_flag c) _ _ _ _ _ _ (Permutation_refl _) (Permutation_sym Pr) (Permutation_sym Pe)).
  reflexivity.
Qed.
(* what a build emits in its set-like fields *)
Theorem tx_build_sets c o : tx_build c = Ok o ->
  Forall (fun s => N.of_nat (length (ps_bytes s)) < two64) (t_plutus c) ->
  NoDup (x_inputs o) /\ NoDup (x_collateral o) /\ NoDup (x_refs o) /\ NoDup (x_signers o) /\
  x_signers o = first_occ bytes_eqb (t_signers c) /\ NoDup (x_native o) /\ NoDup (x_data o) /\
  (forall k els, In (k, els) (x_plutus o) -> NoDup els) /\
  (forall d, In d (t_wit_datums c ++ t_extra_datums c) -> In (d_emit d) (x_data o)).
Proof.
  unfold tx_build. destruct (match t_mint c with Some h => _ | None => _ end) as [m| | |]; cbn [bind]; try discriminate.
  intros [= <-] L. cbn [x_inputs x_collateral x_refs x_signers x_native x_data x_plutus].
  set (h := [SetNative (t_native c); SetPlutus (dedup_clone pscript_eqb (t_plutus c));
             SetData (mk_plist (dedup_clone datum_ord_eqb (t_wit_datums c) ++ t_extra_datums c) None)]).
  assert (OK : Forall op_ok h).
  { repeat constructor. cbn. try rewrite dedup_clone_spec by apply pscript_eqb_spec.
    rewrite Forall_forall in *. intros x Hx. apply L. exact (proj1 (In_first_occ pscript_eqb pscript_eqb_spec _ _) Hx). }
  pose proof (ws_setters_emit_once h OK) as EO.
  repeat split.
  - apply tin_set_spec.
  - apply tin_set_spec.
  - apply ref_inputs_spec.
  - apply (wf_from_vec bytes_eqb bytes_eqb_spec).
  - apply (items_from_vec bytes_eqb bytes_eqb_spec).
  - destruct (ws_native (ws_run h)) as [l|] eqn:E; [|constructor].
    destruct l as [|x l]; [constructor|]. apply (EO 1). unfold ws_fields. rewrite E. cbn [nonempty]. rewrite !in_app_iff. right. left. now left.
  - destruct (ws_data (ws_run h)) as [p|] eqn:E; [|constructor].
    destruct (pl_elems p) as [|x l] eqn:P; [constructor|]. rewrite <- P. apply (EO 4). unfold ws_fields. rewrite E, P. cbn [nonempty]. rewrite !in_app_iff. do 4 right. now left.
  - intros k els I. apply filter_In in I. apply (EO k els), I.
  - intros d Hd. subst h. unfold ws_run, ws_step. rewrite switch_is_repaired.
    cbn [fold_left ws_step_gen ws_new ws_native ws_vkeys ws_boot ws_plutus ws_data pl_elems].
    set (all := dedup_clone datum_ord_eqb (t_wit_datums c) ++ t_extra_datums c).
    assert (IA : In (d_emit d) (map d_emit all)).
    { (* de-duplication by the Ord key keeps, for every datum, an element with the same key, hence the same bytes *)
      apply in_app_iff in Hd. unfold all. rewrite map_app, in_app_iff. destruct Hd as [Hd|Hd]; [left | right; now apply in_map].
      clear - Hd. unfold dedup_clone.
      assert (G : forall l (s : dset datum), (In (d_emit d) (map d_emit (items s)) \/ In d l) ->
                  (forall x, In x (index s) -> In x (items s)) ->
                  In (d_emit d) (map d_emit (items (fold_left (add_move datum_ord_eqb) l s)))).
      { induction l as [|x l IH]; intros s [H|H] IX; cbn [fold_left]; try assumption; try destruct H.
        - apply IH; [left | ].
          + unfold add_move, add, index_insert. destruct (mem datum_ord_eqb x (index s)); cbn [fst items]; [assumption|].
            rewrite map_app, in_app_iff. now left.
          + unfold add_move, add, index_insert. destruct (mem datum_ord_eqb x (index s)); cbn [fst items index]; [assumption|].
            intros y [<-|Hy]; rewrite in_app_iff; [right; now left | left; now apply IX].
        - subst x. apply IH; [left | ].
          + unfold add_move, add, index_insert. destruct (mem datum_ord_eqb d (index s)) eqn:M; cbn [fst items].
            * unfold mem in M. apply existsb_exists in M. destruct M as [y [Hy E]]. apply IX in Hy.
              assert (d_emit y = d_emit d) as <-; [|now apply in_map].
              unfold datum_ord_eqb in E. apply andb_true_iff in E. destruct E as [E1 E2]. apply bytes_eqb_spec in E1.
              unfold d_emit. destruct (d_orig d), (d_orig y); try discriminate; [apply bytes_eqb_spec in E2; now subst | now symmetry].
            * rewrite map_app, in_app_iff. right. now left.
          + unfold add_move, add, index_insert. destruct (mem datum_ord_eqb d (index s)); cbn [fst items index]; [assumption|].
            intros y [<-|Hy]; rewrite in_app_iff; [right; now left | left; now apply IX].
        - apply IH; [right; assumption|].
          unfold add_move, add, index_insert. destruct (mem datum_ord_eqb x (index s)); cbn [fst items index]; [assumption|].
          intros y [<-|Hy]; rewrite in_app_iff; [right; now left | left; now apply IX]. }
      apply G; [now right | intros x []]. }
    destruct (nonempty (t_native c)); destruct (nonempty (dedup_clone pscript_eqb (t_plutus c)));
      (destruct (nonempty all) eqn:NE; [|destruct all; [destruct IA | discriminate]]);
      cbn [ws_data pl_elems plist_dedup_gen]; change (datum_key_eqb_gen false) with datum_emit_eqb;
      rewrite (proj1 (datum_dedup_emits_once all)); apply (In_first_occ bytes_eqb bytes_eqb_spec); exact IA.
Qed.
(* ---------- the judges accept the model's own observations (they are not contradictory) ---------- *)
Lemma list_eqb_refl l : list_eqb l l = true.
Proof. induction l as [|x l IH]; cbn; [reflexivity | now rewrite bytes_eqb_refl, IH]. Qed.
Lemma bools_eqb_refl l : bools_eqb l l = true.
Proof. induction l as [|x l IH]; cbn; [reflexivity | rewrite IH; now destruct x]. Qed.

Lemma first_occ_absorb {A} (eqb : A -> A -> bool) (E : forall x y, eqb x y = true <-> x = y) a b :
  first_occ eqb (first_occ eqb a ++ b) = first_occ eqb (a ++ b).
Proof.
  rewrite !(first_occ_app eqb E). rewrite (first_occ_nodup eqb E (first_occ eqb a)) by apply (NoDup_first_occ eqb E).
  f_equal. apply filter_ext. intros y. f_equal.
  destruct (mem eqb y a) eqn:M.
  - apply (proj2 (mem_In eqb E _ _)). apply (proj2 (In_first_occ eqb E _ _)). now apply (proj1 (mem_In eqb E _ _)).
  - apply (proj2 (mem_false eqb E _ _)). intros H. apply (proj1 (In_first_occ eqb E _ _)) in H.
    apply (proj2 (mem_In eqb E _ _)) in H. congruence.
Qed.

Lemma scripts_init_is_run vs : forall s,
  fold_left (fun s v => extend bytes_eqb s (from_vec bytes_eqb v)) vs s = run bytes_eqb s (map (@OExtend bytes) vs).
Proof. unfold run. induction vs as [|v vs IH]; intros s; cbn; [reflexivity | apply IH]. Qed.
Lemma offered_extends (vs : list (list bytes)) : offered (map (@OExtend bytes) vs) = concat vs.
Proof. induction vs as [|v vs IH]; cbn; [reflexivity | now rewrite IH]. Qed.

Lemma init_set_ok k i s0 : init_set k i = Ok s0 ->
  exists pre, init_offered k i = Ok pre /\ wf s0 /\ items s0 = first_occ bytes_eqb pre.
Proof.
  destruct i as [|f|v|vs]; cbn [init_set init_offered].
  - intros [= <-]. exists []. split; [reflexivity|]. split; [apply wf_empty | reflexivity].
  - intros D. unfold decode in D. unfold frame_elems.
    destruct (skip_set_tag (f_tags f)) as [t1| | |]; cbn [bind] in *; try discriminate.
    destruct (if double_tag (cfg_of k) then skip_set_tag t1 else Ok t1) as [t2| | |]; cbn [bind] in *; try discriminate.
    destruct t2; [|discriminate].
    destruct (read_items (cfg_of k) (f_len f) (f_items f) (f_break f) []) as [e| | |]; cbn [bind] in *; try discriminate.
    injection D as <-. exists e. split; [reflexivity|]. split; [apply (wf_from_vec bytes_eqb bytes_eqb_spec) | apply (items_from_vec bytes_eqb bytes_eqb_spec)].
  - intros [= <-]. exists v. split; [reflexivity|]. split; [apply (wf_from_vec bytes_eqb bytes_eqb_spec) | apply (items_from_vec bytes_eqb bytes_eqb_spec)].
  - intros [= <-]. exists (concat vs). rewrite scripts_init_is_run. split; [reflexivity|]. split.
    + apply (wf_run bytes_eqb bytes_eqb_spec), wf_empty.
    + rewrite (first_insertion_order bytes_eqb bytes_eqb_spec). now rewrite offered_extends.
Qed.

Theorem judge_set_accepts_model k i h o : set_case k i h = Ok o -> judge_set k i h (o_items o) (o_bools o) = true.
Proof.
  unfold set_case. destruct (init_set k i) as [s0| | |] eqn:I; cbn [bind]; try discriminate.
  intros [= <-]. cbn [o_items o_bools]. destruct (init_set_ok k i s0 I) as (pre & IO & W & IT).
  unfold judge_set. rewrite IO. rewrite !andb_true_iff. repeat split.
  - apply nodupb_spec. now apply (nodup_run bytes_eqb bytes_eqb_spec).
  - rewrite (first_insertion_order_from bytes_eqb bytes_eqb_spec s0 h W), IT, (first_occ_absorb bytes_eqb bytes_eqb_spec).
    apply list_eqb_refl.
  - rewrite (observe_spec bytes_eqb bytes_eqb_spec h s0 pre W); [apply bools_eqb_refl|].
    intros x. rewrite IT. apply (In_first_occ bytes_eqb bytes_eqb_spec).
Qed.

Theorem judge_fields_accepts_model h : Forall op_ok h -> judge_fields (ws_fields (ws_run h)) = true.
Proof.
  intros Ok. unfold judge_fields. apply forallb_forall. intros [k els] I. cbn. apply nodupb_spec.
  eapply ws_setters_emit_once; eassumption.
Qed.
