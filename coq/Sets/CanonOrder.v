(* C16, part 2 — asset bundles and the builder's mint: ordered maps and canonical CBOR key order.
   Model definitions only (no proofs).

   Mirrors, in /repo/rust/src:
     lib.rs  AssetName (Ord: length first, then bytewise; new: <= 32 bytes)      lib.rs:1194-1217
             Assets   = BTreeMap<AssetName, BigNum>   insert                     lib.rs:1329-1363
             MultiAsset = BTreeMap<PolicyID, Assets>  insert, set_asset          lib.rs:1365-1418
             PolicyID = ScriptHash = [u8; 28] with the derived (bytewise) Ord
             Mint = Vec<(PolicyID, MintAssets)> (insertion ordered!), MintAssets = BTreeMap<AssetName, Int>
     builders/mint_builder.rs  MintBuilder { mints: BTreeMap<PolicyID, ScriptMint{ mints: BTreeMap<AssetName, Int> }> }
             add_asset / set_asset / update_mint_value (:97-190), build (:305-325)
     serialization/general.rs  Serialize for AssetName, Assets, MultiAsset, MintAssets, Mint (:1345-1532),
             Deserialize for Assets / MultiAsset (duplicate key => DuplicateKey error) (:1408-1476)
     serialization/numeric/int.rs  Serialize for Int
   A BTreeMap is modelled by an association list kept strictly sorted by the key order ([sm_insert]);
   iteration (and so serialisation) order is list order. *)
From CSL Require Import Base.Prelude Cbor.Head Sets.DedupVec.
Local Open Scope N_scope.

(* derived Ord of [u8; 28] / Vec<u8>: bytewise lexicographic, a proper prefix is smaller *)
Fixpoint lex_ltb (a b : bytes) : bool :=
  match a, b with
  | _, [] => false
  | [], _ :: _ => true
  | x :: a', y :: b' => if x <? y then true else if y <? x then false else lex_ltb a' b'
  end.
(* impl Ord for AssetName: match len.cmp(len) { Equal => bytes.cmp(bytes), x => x } *)
Definition name_ltb (a b : bytes) : bool :=
  let la := N.of_nat (length a) in
  let lb := N.of_nat (length b) in
  if la <? lb then true else if lb <? la then false else lex_ltb a b.

(* SPEC. RFC 7049 section 3.9 canonical map-key order, on the ENCODED keys: a shorter encoding sorts
   earlier; encodings of the same length sort bytewise.  (Same shape as name_ltb but applied to
   other arguments: the whole CBOR data item of the key, head included.) *)
Definition canon_ltb (x y : bytes) : bool :=
  let lx := N.of_nat (length x) in
  let ly := N.of_nat (length y) in
  if lx <? ly then true else if ly <? lx then false else lex_ltb x y.
(* RFC 8949 section 4.2.1 core deterministic order: plain bytewise order of the encoded keys *)
Definition det_ltb (x y : bytes) : bool := lex_ltb x y.

(* a byte-string data item (write_bytes): head of major type 2 with the length, then the bytes *)
Definition enc_bstr (b : bytes) : bytes := encode_head 2 (N.of_nat (length b)) ++ b.

(* ---------- ordered map (BTreeMap) ---------- *)
Section SMap.
  Context {K V : Type} (ltb : K -> K -> bool).
  Definition keq (a b : K) : bool := negb (ltb a b) && negb (ltb b a).
  (* BTreeMap::insert: replaces the value of an equal key, else inserts at its sorted position *)
  Fixpoint sm_insert (k : K) (v : V) (m : list (K * V)) : list (K * V) :=
    match m with
    | [] => [(k, v)]
    | (k', v') :: r =>
        if ltb k k' then (k, v) :: m
        else if ltb k' k then (k', v') :: sm_insert k v r
        else (k, v) :: r
    end.
  Fixpoint sm_lookup (k : K) (m : list (K * V)) : option V :=
    match m with
    | [] => None
    | (k', v') :: r => if keq k k' then Some v' else sm_lookup k r
    end.
  Fixpoint sm_sorted (m : list (K * V)) : bool :=
    match m with
    | [] => true
    | (k, _) :: r => match r with [] => true | (k', _) :: _ => ltb k k' && sm_sorted r end
    end.
End SMap.

(* plain association-list lookup by equality of the byte strings (no order involved); used by the judge *)
Fixpoint nv_get {V} (k : bytes) (m : list (bytes * V)) : option V :=
  match m with
  | [] => None
  | (k', v') :: r => if bytes_eqb k k' then Some v' else nv_get k r
  end.

(* ---------- two-level update shared by MultiAsset::set_asset and MintBuilder::update_mint_value:
   `map.entry(policy).or_default()` then `inner.entry(name)` / `inner.insert(name, ..)`; [d] is the value an
   absent name starts from, [f] what the call does to it ---------- *)
Definition upd2 {V} (d : V) (p n : bytes) (f : V -> V) (m : list (bytes * list (bytes * V))) : list (bytes * list (bytes * V)) :=
  let cur := match sm_lookup lex_ltb p m with Some a => a | None => [] end in
  let old := match sm_lookup name_ltb n cur with Some x => x | None => d end in
  sm_insert lex_ltb p (sm_insert name_ltb n (f old) cur) m.
Definition lookup2 {V} (m : list (bytes * list (bytes * V))) (p n : bytes) : option V :=
  match sm_lookup lex_ltb p m with Some a => sm_lookup name_ltb n a | None => None end.

(* ---------- Assets / MultiAsset ---------- *)
Definition assets := list (bytes * N).
Definition multiasset := list (bytes * assets).

Inductive ma_op :=
| MSetAsset (p n : bytes) (q : N)            (* MultiAsset::set_asset *)
| MInsert (p : bytes) (l : list (bytes * N)). (* MultiAsset::insert(p, assets) with assets filled by Assets::insert in this order *)

Definition assets_of (l : list (bytes * N)) : assets :=
  fold_left (fun a e => sm_insert name_ltb (fst e) (snd e) a) l [].
Definition ma_step (m : multiasset) (o : ma_op) : multiasset :=
  match o with
  | MSetAsset p n q => upd2 0 p n (fun _ => q) m   (* self.0.entry(policy).or_default().insert(name, value) *)
  | MInsert p l => sm_insert lex_ltb p (assets_of l) m
  end.
Definition ma_run (h : list ma_op) : multiasset := fold_left ma_step h [].

(* SPEC: what a history puts into the bundle, read off the history alone (no map, no order):
   the quantity of (policy, name) is the one of the last call that wrote it; MultiAsset::insert replaces the policy *)
Fixpoint last_qty (n : bytes) (l : list (bytes * N)) (acc : option N) : option N :=
  match l with [] => acc | (n', q) :: r => last_qty n r (if bytes_eqb n n' then Some q else acc) end.
Definition ma_val (h : list ma_op) (p n : bytes) : option N :=
  fold_left (fun acc o =>
    match o with
    | MSetAsset p' n' q => if bytes_eqb p p' && bytes_eqb n n' then Some q else acc
    | MInsert p' l => if bytes_eqb p p' then last_qty n l None else acc
    end) h None.
Definition ma_present (h : list ma_op) (p : bytes) : bool :=
  existsb (fun o => match o with MSetAsset p' _ _ | MInsert p' _ => bytes_eqb p p' end) h.
Definition ma_op_policy (o : ma_op) : bytes := match o with MSetAsset p _ _ | MInsert p _ => p end.
Definition ma_op_names (o : ma_op) : list bytes := match o with MSetAsset _ n _ => [n] | MInsert _ l => map fst l end.

Definition ser_assets (a : assets) : bytes :=
  encode_head 5 (N.of_nat (length a)) ++ concat (map (fun e => enc_bstr (fst e) ++ encode_head 0 (snd e)) a).
Definition ser_multiasset (m : multiasset) : bytes :=
  encode_head 5 (N.of_nat (length m)) ++ concat (map (fun e => enc_bstr (fst e) ++ ser_assets (snd e)) m).

(* decoding a map given in WIRE order (possibly not canonical, possibly with a repeated key):
   `if table.insert(key, value).is_some() { return Err(DuplicateKey) }` at both levels *)
Fixpoint assets_of_wire (l : list (bytes * N)) (acc : assets) : result assets :=
  match l with
  | [] => Ok acc
  | (n, q) :: r =>
      match sm_lookup name_ltb n acc with
      | Some _ => Err
      | None => assets_of_wire r (sm_insert name_ltb n q acc)
      end
  end.
Fixpoint ma_of_wire (l : list (bytes * list (bytes * N))) (acc : multiasset) : result multiasset :=
  match l with
  | [] => Ok acc
  | (p, a) :: r =>
      let* a' := assets_of_wire a [] in
      match sm_lookup lex_ltb p acc with
      | Some _ => Err
      | None => ma_of_wire r (sm_insert lex_ltb p a' acc)
      end
  end.
(* serde (BTreeMap visitor): later entries replace earlier ones *)
Definition ma_of_json (l : list (bytes * list (bytes * N))) : multiasset :=
  fold_left (fun m e => sm_insert lex_ltb (fst e) (assets_of (snd e)) m) l [].

(* ---------- MintBuilder ---------- *)
Definition mint_assets := list (bytes * Z).
Definition mint_state := list (bytes * mint_assets).
Inductive mint_op := MbAdd (p n : bytes) (a : Z) | MbSet (p n : bytes) (a : Z).

Definition mb_step (m : mint_state) (o : mint_op) : mint_state :=
  match o with
  | MbAdd p n a => if (a =? 0)%Z then m (* Err("Mint cannot be zero."), builder unchanged *)
                   else upd2 0%Z p n (fun old => (old + a)%Z) m       (* or_insert(Int 0); mint.0 += amount.0 *)
  | MbSet p n a => if (a =? 0)%Z then m else upd2 0%Z p n (fun _ => a) m
  end.
Definition mb_run (h : list mint_op) : mint_state := fold_left mb_step h [].

(* Int: write_unsigned_integer(x as u64) / write_negative_integer(x as i64); faithful for -2^63 <= x < 2^64 *)
Definition enc_int (a : Z) : bytes :=
  if (a <? 0)%Z then encode_head 1 (Z.to_N (- 1 - a) mod two64) else encode_head 0 (Z.to_N a mod two64).
Definition ser_mint_assets (a : mint_assets) : bytes :=
  encode_head 5 (N.of_nat (length a)) ++ concat (map (fun e => enc_bstr (fst e) ++ enc_int (snd e)) a).
Definition ser_mint (m : mint_state) : bytes :=
  encode_head 5 (N.of_nat (length m)) ++ concat (map (fun e => enc_bstr (fst e) ++ ser_mint_assets (snd e)) m).
(* MintBuilder::build: MintAssets::insert refuses a zero amount (two add_asset that cancel out) *)
Definition mb_build (m : mint_state) : result mint_state :=
  if forallb (fun e => forallb (fun x => negb (snd x =? 0)%Z) (snd e)) m then Ok m else Err.
Definition mint_case (h : list mint_op) : result bytes :=
  let* m := mb_build (mb_run h) in Ok (ser_mint m).

(* SPEC for the mint: running amount per (policy, name), read off the history alone *)
Definition mint_val (h : list mint_op) (p n : bytes) : option Z :=
  fold_left (fun acc o =>
    match o with
    | MbAdd p' n' a => if (a =? 0)%Z then acc
                       else if bytes_eqb p p' && bytes_eqb n n' then Some ((match acc with Some x => x | None => 0 end) + a)%Z else acc
    | MbSet p' n' a => if (a =? 0)%Z then acc
                       else if bytes_eqb p p' && bytes_eqb n n' then Some a else acc
    end) h None.
Definition mint_op_key (o : mint_op) : bytes * bytes := match o with MbAdd p n _ | MbSet p n _ => (p, n) end.

(* ---------- JUDGE: the property's statement on the implementation's output.
   [entries] = the implementation's map walked in ITS iteration order (keys() + get), [b] = its to_bytes.
   (1) policy ids, and the asset names under each policy, are strictly ascending in the canonical
       order of their ENCODED keys (RFC 7049 3.9); (2) the entries hold exactly what the history wrote
       ([ma_val] / [mint_val]), for every policy and name occurring in the history or in the output;
   (3) the bytes are the plain serialisation of the entries in that order. *)
Definition sorted_by_enc {V} (m : list (bytes * V)) : bool :=
  sm_sorted (fun a b => canon_ltb (enc_bstr a) (enc_bstr b)) m.
Definition get2 {V} (m : list (bytes * list (bytes * V))) (p n : bytes) : option V :=
  match nv_get p m with Some a => nv_get n a | None => None end.
Definition opt_eqb {V} (veq : V -> V -> bool) (a b : option V) : bool :=
  match a, b with Some x, Some y => veq x y | None, None => true | _, _ => false end.
Definition is_some {V} (o : option V) : bool := match o with Some _ => true | None => false end.

Definition judge_ma (h : list ma_op) (entries : multiasset) (b : bytes) : bool :=
  let pols := map ma_op_policy h ++ map fst entries in
  let names := flat_map ma_op_names h ++ flat_map (fun e => map fst (snd e)) entries in
  sorted_by_enc entries
  && forallb (fun e => sorted_by_enc (snd e)) entries
  && forallb (fun p => Bool.eqb (is_some (nv_get p entries)) (ma_present h p)) pols
  && forallb (fun p => forallb (fun n => opt_eqb N.eqb (get2 entries p n) (ma_val h p n)) names) pols
  && bytes_eqb (ser_multiasset entries) b.

(* the mint: [impl] = None when build() reported an error *)
Definition judge_mint (h : list mint_op) (impl : option (mint_state * bytes)) : bool :=
  let hk := map mint_op_key h in
  let cancels := existsb (fun k => opt_eqb Z.eqb (mint_val h (fst k) (snd k)) (Some 0%Z)) hk in
  match impl with
  | None => cancels                         (* an error is right exactly when some amount cancelled out to 0 *)
  | Some (entries, b) =>
      let pols := map fst hk ++ map fst entries in
      let names := map snd hk ++ flat_map (fun e => map fst (snd e)) entries in
      negb cancels
      && sorted_by_enc entries
      && forallb (fun e => sorted_by_enc (snd e) && negb (match snd e with [] => true | _ => false end)) entries
      && forallb (fun p => forallb (fun n => opt_eqb Z.eqb (get2 entries p n) (mint_val h p n)) names) pols
      && bytes_eqb (ser_mint entries) b
  end.
