(* C16, part 3 — scripts and datums in a witness set (typed setters and the builder), the
   reference inputs a TransactionBuilder collects, and what one build of a builder emits.
   Model definitions only (no proofs).

   Mirrors, in /repo/rust/src:
     protocol_types/native_scripts.rs          NativeScripts (plain Vec): add, deduplicated_clone (:46-59)
     protocol_types/plutus/plutus_scripts.rs   PlutusScripts (plain Vec): add, view, has_version, deduplicated_clone (:84-128)
     protocol_types/plutus/plutus_data.rs      PlutusList (plain Vec + definite_encoding): add, deduplicated_clone (:649-680);
                                               PlutusData: Eq compares the datum only, the bytes written are original_bytes when kept (:180-200)
     protocol_types/witnesses/transaction_witnesses_set.rs   set_vkeys, set_native_scripts, set_bootstraps, set_plutus_scripts,
                                               set_plutus_data, new_with_partial_dedup (:45-138)
     serialization/witnesses/transaction_witnesses_set.rs    serialize (:200-303) (redeemers are not modelled: never set here)
     serialization/native_scripts.rs serialize_as_set(false), serialization/plutus/plutus_scripts.rs serialize_as_set_by_version(false),
     serialization/plutus/plutus_data.rs serialize_as_set(false), Serialize for PlutusData / PlutusScript
     builders/tx_builder.rs   get_reference_inputs (:1565-1608), add_reference_input (:856-867), add_required_signer (:2315),
                              build_and_size body fields (:2324-2351), fake_full_tx/get_witness_set -> new_with_partial_dedup (:40-99),
                              get_combined_native_scripts (:2381-2425), add_extra_witness_datum (:1501)
     builders/tx_inputs_builder.rs   inputs: BTreeMap<TransactionInput, _> (:23), inputs() (:397), has_input (:446), get_ref_inputs (:256)
     builders/mint_builder.rs  get_native_scripts (:327), get_ref_inputs (:358) *)
From CSL Require Import Base.Prelude Cbor.Head Sets.DedupVec Sets.CanonOrder.
Local Open Scope N_scope.

(* ---------- elements ---------- *)
(* a plutus script: language (1, 2, 3) and the script bytes; derived Ord/Eq on (bytes, language) *)
Record pscript := mk_ps { ps_lang : N; ps_bytes : bytes }.
Definition pscript_eqb (a b : pscript) : bool := (ps_lang a =? ps_lang b) && bytes_eqb (ps_bytes a) (ps_bytes b).
(* a datum: [d_val] identifies the datum value (its canonical encoding; what Eq compares),
   [d_orig] = the original bytes kept by from_bytes / from_hex (what is written instead, when present) *)
Record datum := mk_datum { d_val : bytes; d_orig : option bytes }.
Definition d_emit (d : datum) : bytes := match d_orig d with Some o => o | None => d_val d end.
(* the derived Ord of PlutusData compares (datum, original_bytes): the key of the BTreeSet the de-duplication used before
   the repair (C16-datum-emitted-twice); after it the key is the bytes written *)
Definition datum_ord_eqb (a b : datum) : bool :=
  bytes_eqb (d_val a) (d_val b) &&
  match d_orig a, d_orig b with
  | Some x, Some y => bytes_eqb x y
  | None, None => true
  | _, _ => false
  end.
Definition datum_emit_eqb (a b : datum) : bool := bytes_eqb (d_emit a) (d_emit b).
(* switch: true = the code as found (dedup by Ord), false = repaired code (dedup by written bytes) *)
Definition datum_dedup_by_ord : bool := false.
Definition datum_key_eqb_gen (by_ord : bool) : datum -> datum -> bool := if by_ord then datum_ord_eqb else datum_emit_eqb.
Definition datum_key_eqb := datum_key_eqb_gen datum_dedup_by_ord.

(* deduplicated_clone: `if dedup.insert(x) { out.push(x) }` over the vector = the insertion loop of part 1 *)
Definition dedup_clone {A} (eqb : A -> A -> bool) (l : list A) : list A := items (from_vec eqb l).

Record plist := mk_plist { pl_elems : list datum; pl_definite : option bool }.
Definition plist_dedup_gen (by_ord : bool) (p : plist) : plist :=
  mk_plist (dedup_clone (datum_key_eqb_gen by_ord) (pl_elems p)) (pl_definite p).
Definition plist_dedup := plist_dedup_gen datum_dedup_by_ord.

(* ---------- the witness set ---------- *)
Record wset := mk_wset {
  ws_vkeys : option (list bytes);       (* a Vkeywitnesses value: duplicate-free by part 1 *)
  ws_native : option (list bytes);
  ws_boot : option (list bytes);        (* a BootstrapWitnesses value *)
  ws_plutus : option (list pscript);
  ws_data : option plist }.
Definition ws_new : wset := mk_wset None None None None None.

Inductive ws_op :=
| SetVkeys (v : list bytes)             (* a Vkeywitnesses filled by add with these elements, repeats allowed (part 1) *)
| SetNative (l : list bytes)            (* a NativeScripts filled by add, repeats allowed *)
| SetBoot (b : list bytes)
| SetPlutus (l : list pscript)
| SetData (p : plist).

Definition nonempty {A} (l : list A) : bool := match l with [] => false | _ => true end.
Definition ws_step_gen (by_ord : bool) (w : wset) (o : ws_op) : wset :=
  match o with
  | SetVkeys l => let v := items (from_vec bytes_eqb l) in
                  if nonempty v then mk_wset (Some v) (ws_native w) (ws_boot w) (ws_plutus w) (ws_data w) else w
  | SetNative l => if nonempty l then mk_wset (ws_vkeys w) (Some (dedup_clone bytes_eqb l)) (ws_boot w) (ws_plutus w) (ws_data w) else w
  | SetBoot l => mk_wset (ws_vkeys w) (ws_native w) (Some (items (from_vec bytes_eqb l))) (ws_plutus w) (ws_data w)
  | SetPlutus l => if nonempty l then mk_wset (ws_vkeys w) (ws_native w) (ws_boot w) (Some (dedup_clone pscript_eqb l)) (ws_data w) else w
  | SetData p => if nonempty (pl_elems p) then mk_wset (ws_vkeys w) (ws_native w) (ws_boot w) (ws_plutus w) (Some (plist_dedup_gen by_ord p)) else w
  end.
Definition ws_step := ws_step_gen datum_dedup_by_ord.
Definition ws_run (h : list ws_op) : wset := fold_left ws_step h ws_new.

(* new_with_partial_dedup (what fake_full_tx / build_tx put into the transaction): an empty result becomes None *)
Definition some_nonempty {A} (l : list A) : option (list A) := if nonempty l then Some l else None.
Definition ws_partial_dedup_gen (by_ord : bool) (vk ns bs : option (list bytes)) (ps : option (list pscript)) (pd : option plist) : wset :=
  mk_wset vk
    (match ns with Some l => some_nonempty (dedup_clone bytes_eqb l) | None => None end)
    bs
    (match ps with Some l => some_nonempty (dedup_clone pscript_eqb l) | None => None end)
    (match pd with
     | Some p => let q := plist_dedup_gen by_ord p in if nonempty (pl_elems q) then Some q else None
     | None => None
     end).
Definition ws_partial_dedup := ws_partial_dedup_gen datum_dedup_by_ord.

(* ---------- what is written ---------- *)
Definition view (v : N) (l : list pscript) : list pscript := filter (fun s => ps_lang s =? v) l.
(* the element encodings written under each key of the witness-set map: (key, encodings) in writing order *)
Definition ws_fields (w : wset) : list (N * list bytes) :=
  (match ws_vkeys w with Some v => if nonempty v then [(0, v)] else [] | None => [] end) ++
  (match ws_native w with Some l => if nonempty l then [(1, l)] else [] | None => [] end) ++
  (match ws_boot w with Some b => if nonempty b then [(2, b)] else [] | None => [] end) ++
  (match ws_plutus w with
   | Some l =>
       (if nonempty (view 1 l) then [(3, map (fun s => enc_bstr (ps_bytes s)) (view 1 l))] else []) ++
       (if nonempty (view 2 l) then [(6, map (fun s => enc_bstr (ps_bytes s)) (view 2 l))] else []) ++
       (if nonempty (view 3 l) then [(7, map (fun s => enc_bstr (ps_bytes s)) (view 3 l))] else [])
   | None => []
   end) ++
  (match ws_data w with Some p => if nonempty (pl_elems p) then [(4, map d_emit (pl_elems p))] else [] | None => [] end).

Definition b2n (b : bool) : N := if b then 1 else 0.
(* the map length the serializer announces: opt64(vkeys) + opt64_non_empty(...) + number of plutus versions present *)
Definition ws_count (w : wset) : N :=
  b2n (match ws_vkeys w with Some _ => true | None => false end) +
  b2n (match ws_native w with Some l => nonempty l | None => false end) +
  b2n (match ws_boot w with Some l => nonempty l | None => false end) +
  b2n (match ws_data w with Some p => nonempty (pl_elems p) | None => false end) +
  match ws_plutus w with
  | Some l => b2n (nonempty (view 1 l)) + b2n (nonempty (view 2 l)) + b2n (nonempty (view 3 l))
  | None => 0
  end.
Definition ser_tagged_array (els : list bytes) : bytes :=
  encode_head 6 258 ++ encode_head 4 (N.of_nat (length els)) ++ concat els.
(* PlutusList::serialize_as_set(false): tag, then definite head or 0x9f ... 0xff (None: cardano-cli default = indefinite unless empty) *)
Definition ser_plist_set (p : plist) : bytes :=
  let definite := match pl_definite p with Some b => b | None => negb (nonempty (pl_elems p)) end in
  encode_head 6 258 ++
  (if definite then encode_head 4 (N.of_nat (length (pl_elems p))) else [159]) ++
  concat (map d_emit (pl_elems p)) ++
  (if definite then [] else [255]).
Definition ser_wset (w : wset) : bytes :=
  encode_head 5 (ws_count w) ++
  (match ws_vkeys w with Some v => if nonempty v then encode_head 0 0 ++ ser_tagged_array v else [] | None => [] end) ++
  (match ws_native w with Some l => if nonempty l then encode_head 0 1 ++ ser_tagged_array l else [] | None => [] end) ++
  (match ws_boot w with Some b => if nonempty b then encode_head 0 2 ++ ser_tagged_array b else [] | None => [] end) ++
  (match ws_plutus w with
   | Some l =>
       (if nonempty (view 1 l) then encode_head 0 3 ++ ser_tagged_array (map (fun s => enc_bstr (ps_bytes s)) (view 1 l)) else []) ++
       (if nonempty (view 2 l) then encode_head 0 6 ++ ser_tagged_array (map (fun s => enc_bstr (ps_bytes s)) (view 2 l)) else []) ++
       (if nonempty (view 3 l) then encode_head 0 7 ++ ser_tagged_array (map (fun s => enc_bstr (ps_bytes s)) (view 3 l)) else [])
   | None => []
   end) ++
  (match ws_data w with Some p => if nonempty (pl_elems p) then encode_head 0 4 ++ ser_plist_set p else [] | None => [] end).

(* JUDGE ("emitted once"): under every key of the witness-set map no element encoding is written twice *)
Definition judge_fields (fs : list (N * list bytes)) : bool := forallb (fun f => nodupb (snd f)) fs.
(* known class of the defect found (now repaired): the same datum given once with and once without preserved
   original bytes that equal its canonical encoding *)
Definition known_datum_twice (l : list datum) : bool :=
  negb (nodupb (map d_emit (dedup_clone datum_ord_eqb l))).

(* ---------- reference inputs of a TransactionBuilder ---------- *)
Definition txin := (bytes * N)%type.        (* transaction id, index *)
(* derived Ord of TransactionInput: transaction_id (bytewise), then index *)
Definition txin_ltb (a b : txin) : bool :=
  if lex_ltb (fst a) (fst b) then true else if lex_ltb (fst b) (fst a) then false else snd a <? snd b.
Definition txin_eqb (a b : txin) : bool := bytes_eqb (fst a) (fst b) && (snd a =? snd b).
Definition tset := list (txin * unit).      (* BTreeSet<TransactionInput> *)
Definition tset_add (s : tset) (x : txin) : tset := sm_insert txin_ltb x tt s.

(* get_reference_inputs after the repair C16-ref-inputs-hash-order (BTreeSet instead of HashSet).
   [regular] = keys of the inputs builder, [sources] = the reference inputs reported by the inputs, mint,
   withdrawals, certificates, votes and proposals builders, concatenated in that order,
   [explicit] = the keys of the `reference_inputs: HashMap` in whatever order that map iterates *)
Definition ref_inputs (dedup_with_regular : bool) (regular sources explicit : list txin) : list txin :=
  let has_input x := mem txin_eqb x regular in
  let add_set s l := fold_left (fun s x => if has_input x then s else tset_add s x) l s in
  let s1 := add_set [] sources in
  let s2 := if dedup_with_regular then add_set s1 explicit else fold_left tset_add explicit s1 in
  items (from_vec txin_eqb (map fst s2)).
(* the code as found: the set was a HashSet; [order] stands for its (randomly seeded) iteration order *)
Definition ref_inputs_hashed (order : list txin -> list txin) (dedup_with_regular : bool) (regular sources explicit : list txin) : list txin :=
  items (from_vec txin_eqb (order (ref_inputs dedup_with_regular regular sources explicit))).

(* ---------- one build of a builder: the set-like and map-like parts of what it emits ---------- *)
Record tx_case := mk_tx {
  t_inputs : list txin;                   (* add_*_input calls, in call order (repeats allowed) *)
  t_collateral : list txin;
  t_dedup_flag : bool;                    (* deduplicate_explicit_ref_inputs_with_regular_inputs *)
  t_script_refs : list txin;              (* reference inputs of script sources (inputs first, then mint in policy order) *)
  t_explicit_refs : list txin;            (* add_reference_input / add_script_reference_input calls *)
  t_signers : list bytes;                 (* add_required_signer calls *)
  t_mint : option (list mint_op);         (* MintBuilder history, if a mint builder is set *)
  t_native : list bytes;                  (* native scripts in the order the builder combines them: inputs ([input_script_order]), collateral, mint (policy order),
                                             certificates, withdrawals (insertion order) — get_combined_native_scripts *)
  t_plutus : list pscript;                (* scripts of the Plutus witnesses (inputs, collateral, mint, certificates, withdrawals ...), witness-script sources only *)
  t_wit_datums : list datum;              (* datums carried by those Plutus witnesses, in the builder's combination order *)
  t_extra_datums : list datum }.          (* add_extra_witness_datum calls *)

(* order in which the inputs builder hands over the native scripts of its script inputs: `required_witnesses.scripts` is a
   hashlink LinkedHashMap filled through `entry(hash).or_insert(..)`, which MOVES an existing entry to the back
   (tx_inputs_builder.rs:462-474): the script groups are ordered by the LAST input added for each script *)
Definition input_script_order (l : list bytes) : list bytes := rev (first_occ bytes_eqb (rev l)).

Definition tin_set (l : list txin) : list txin := map fst (fold_left tset_add l []).   (* BTreeMap keys: sorted, unique *)
Record tx_obs := mk_txo {
  x_inputs : list txin; x_collateral : list txin; x_refs : list txin; x_signers : list bytes;
  x_mint : option bytes; x_native : list bytes; x_plutus : list (N * list bytes); x_data : list bytes }.
Definition tx_build (c : tx_case) : result tx_obs :=
  let* mint := match t_mint c with
               | Some h => let* b := mint_case h in Ok (Some b)
               | None => Ok None
               end in
  (* build_tx_unsafe -> get_witness_set (tx_builder.rs:2523-2553): the combined native scripts go through set_native_scripts;
     PlutusWitnesses::collect (plutus_witnesses.rs:25-57) keeps the first occurrence of every script and of every witness datum
     (BTreeSet on the derived Ord), the extra datums are appended to that list, and the typed setters
     set_plutus_scripts / set_plutus_data (de-duplicating) put the result into the witness set.
     (new_with_partial_dedup is only used for the fake transaction that sizes the fee.) *)
  let collected_scripts := dedup_clone pscript_eqb (t_plutus c) in
  let collected_datums := dedup_clone datum_ord_eqb (t_wit_datums c) in
  let w := ws_run [SetNative (t_native c); SetPlutus collected_scripts;
                   SetData (mk_plist (collected_datums ++ t_extra_datums c) None)] in
  Ok (mk_txo (tin_set (t_inputs c)) (tin_set (t_collateral c))
             (ref_inputs (t_dedup_flag c) (tin_set (t_inputs c)) (t_script_refs c) (t_explicit_refs c))
             (items (from_vec bytes_eqb (t_signers c)))
             mint
             (match ws_native w with Some l => l | None => [] end)
             (filter (fun f => (fst f =? 3) || (fst f =? 6) || (fst f =? 7)) (ws_fields w))
             (match ws_data w with Some p => map d_emit (pl_elems p) | None => [] end)).

(* JUDGE for a build: every set-like field is duplicate-free, inputs / collateral / reference inputs hold
   exactly the right elements, required signers keep first-insertion order, scripts and datums are
   written once — every witness / extra datum and every script of the case is in the EMITTED witness set exactly once —
   and all repeated builds (same process, other process) gave the same bytes *)
Fixpoint txins_nodupb (l : list txin) : bool :=
  match l with [] => true | x :: r => negb (mem txin_eqb x r) && txins_nodupb r end.
Definition same_txins (a b : list txin) : bool :=
  forallb (fun x => mem txin_eqb x b) a && forallb (fun x => mem txin_eqb x a) b.
Definition judge_tx (c : tx_case) (o : tx_obs) (all_builds_equal : bool) : bool :=
  let regular := t_inputs c in
  let want_refs := filter (fun x => negb (mem txin_eqb x regular))
                     (t_script_refs c ++ (if t_dedup_flag c then t_explicit_refs c else [])) ++
                   (if t_dedup_flag c then [] else t_explicit_refs c) in
  all_builds_equal
  && txins_nodupb (x_inputs o) && same_txins (x_inputs o) (t_inputs c)
  && txins_nodupb (x_collateral o) && same_txins (x_collateral o) (t_collateral c)
  && txins_nodupb (x_refs o) && same_txins (x_refs o) want_refs
  && list_eqb (x_signers o) (first_occ bytes_eqb (t_signers c))
  && nodupb (x_native o) && nodupb (x_data o) && judge_fields (x_plutus o)
  && list_eqb (x_native o) (first_occ bytes_eqb (t_native c))     (* native scripts: first-insertion order of the builder's combination *)
  && forallb (fun s => mem bytes_eqb s (x_native o)) (t_native c)
  && forallb (fun d => mem bytes_eqb (d_emit d) (x_data o)) (t_wit_datums c ++ t_extra_datums c)
  && forallb (fun s => existsb (fun f => (fst f =? match ps_lang s with 1 => 3 | 2 => 6 | _ => 7 end)
                                         && mem bytes_eqb (enc_bstr (ps_bytes s)) (snd f)) (x_plutus o)) (t_plutus c).
