(* C16, part 1 — theorems about the vector + index set types (DedupVec.v).
   Everything is proved for an arbitrary element type with a decidable equality that decides
   Leibniz equality ([eqb_spec], the contract of a derived Eq/Hash/Ord) and for ALL histories. *)
From CSL Require Import Base.Prelude Cbor.Head Sets.DedupVec.
From Coq Require Import Permutation.
Local Open Scope N_scope.

Section Proofs.
  Context {A : Type} (eqb : A -> A -> bool).
  Hypothesis eqb_spec : forall x y, eqb x y = true <-> x = y.

  Lemma eqb_refl x : eqb x x = true.
  Proof. now apply eqb_spec. Qed.
  Lemma eqb_sym x y : eqb x y = eqb y x.
  Proof.
    destruct (eqb x y) eqn:E, (eqb y x) eqn:F; try reflexivity.
    - apply eqb_spec in E. subst. now rewrite eqb_refl in F.
    - apply eqb_spec in F. subst. now rewrite eqb_refl in E.
  Qed.
  Lemma eqb_false x y : eqb x y = false <-> x <> y.
  Proof.
    split.
    - intros E H. apply eqb_spec in H. congruence.
    - intros H. destruct (eqb x y) eqn:E; [apply eqb_spec in E; contradiction | reflexivity].
  Qed.

  Lemma mem_In x l : mem eqb x l = true <-> In x l.
  Proof.
    unfold mem. rewrite existsb_exists. split.
    - intros [y [Hy E]]. apply eqb_spec in E. now subst.
    - intros H. exists x. split; [assumption | apply eqb_refl].
  Qed.
  Lemma mem_false x l : mem eqb x l = false <-> ~ In x l.
  Proof.
    split.
    - intros E H. apply mem_In in H. congruence.
    - intros H. destruct (mem eqb x l) eqn:E; [apply mem_In in E; contradiction | reflexivity].
  Qed.
  Lemma mem_app x l1 l2 : mem eqb x (l1 ++ l2) = mem eqb x l1 || mem eqb x l2.
  Proof. unfold mem. apply existsb_app. Qed.

  (* ---------- the invariant: vector duplicate-free, index = vector as sets ---------- *)
  Definition wf (s : dset A) : Prop :=
    NoDup (items s) /\ forall x, In x (index s) <-> In x (items s).

  Lemma wf_empty : wf empty.
  Proof. split; [constructor | intros x; reflexivity]. Qed.

  Lemma add_present s x : mem eqb x (index s) = true -> add eqb s x = (s, false).
  Proof. intros H. unfold add, index_insert. rewrite H. now destruct s. Qed.
  Lemma add_fresh s x : mem eqb x (index s) = false ->
    add eqb s x = (mk_dset (items s ++ [x]) (x :: index s), true).
  Proof. intros H. unfold add, index_insert. now rewrite H. Qed.

  Lemma NoDup_snoc (l : list A) x : NoDup l -> ~ In x l -> NoDup (l ++ [x]).
  Proof.
    induction 1 as [|a l H ND IH]; intros N; cbn.
    - constructor; [intros []|constructor].
    - constructor.
      + rewrite in_app_iff. intros [?|[?|[]]]; [contradiction | subst; apply N; now left].
      + apply IH. intros ?. apply N. now right.
  Qed.

  Lemma wf_add_move s x : wf s -> wf (add_move eqb s x).
  Proof.
    intros [ND IX]. unfold add_move. destruct (mem eqb x (index s)) eqn:M.
    - rewrite add_present by assumption. now split.
    - rewrite add_fresh by assumption. unfold wf. cbn [fst items index]. split.
      + apply NoDup_snoc; [assumption|]. intros H. apply IX in H. apply mem_In in H. congruence.
      + intros y. cbn [In]. rewrite in_app_iff, IX. cbn [In]. tauto.
  Qed.

  Lemma wf_fold l : forall s, wf s -> wf (fold_left (add_move eqb) l s).
  Proof. induction l as [|x l IH]; intros s H; cbn; [assumption | apply IH, wf_add_move, H]. Qed.
  Lemma wf_from_vec v : wf (from_vec eqb v).
  Proof. apply wf_fold, wf_empty. Qed.
  Lemma wf_step s o : wf s -> wf (step eqb s o).
  Proof.
    intros H. destruct o; cbn [step]; try (now apply wf_add_move); [|assumption].
    unfold extend. now apply wf_fold.
  Qed.
  Lemma wf_run h : forall s, wf s -> wf (run eqb s h).
  Proof. unfold run. induction h as [|o h IH]; intros s H; cbn; [assumption | apply IH, wf_step, H]. Qed.

  (* ---------- what add does to the vector, in terms of the vector only ---------- *)
  Lemma items_add_move s x : wf s ->
    items (add_move eqb s x) = if mem eqb x (items s) then items s else items s ++ [x].
  Proof.
    intros [_ IX]. unfold add_move.
    assert (E : mem eqb x (index s) = mem eqb x (items s)).
    { destruct (mem eqb x (items s)) eqn:M.
      - apply mem_In. apply IX. now apply mem_In.
      - apply mem_false. intros H. apply IX in H. apply mem_In in H. congruence. }
    destruct (mem eqb x (items s)) eqn:M.
    - now rewrite add_present.
    - now rewrite add_fresh.
  Qed.
  Lemma add_result s x : wf s -> snd (add eqb s x) = negb (mem eqb x (items s)).
  Proof.
    intros [_ IX].
    destruct (mem eqb x (index s)) eqn:M.
    - rewrite add_present by assumption. cbn. apply mem_In, IX, mem_In in M. now rewrite M.
    - rewrite add_fresh by assumption. cbn.
      assert (mem eqb x (items s) = false) as ->; [|reflexivity].
      apply mem_false. intros H. apply IX, mem_In in H. congruence.
  Qed.
  Lemma contains_spec s x : wf s -> contains eqb s x = mem eqb x (items s).
  Proof.
    intros [_ IX]. unfold contains. destruct (mem eqb x (items s)) eqn:M.
    - apply mem_In, IX. now apply mem_In.
    - apply mem_false. intros H. apply IX, mem_In in H. congruence.
  Qed.
  Lemma add_move_present s x : wf s -> In x (items s) -> add_move eqb s x = s.
  Proof.
    intros [_ IX] H. unfold add_move. rewrite add_present; [reflexivity|]. now apply mem_In, IX.
  Qed.
  Lemma In_items_add_move s x y : wf s -> In y (items (add_move eqb s x)) <-> In y (items s) \/ y = x.
  Proof.
    intros W. rewrite items_add_move by assumption. destruct (mem eqb x (items s)) eqn:M.
    - apply mem_In in M. split; [tauto | intros [?|E]; [|rewrite E]; assumption].
    - rewrite in_app_iff. cbn. intuition.
  Qed.
  Lemma In_items_fold l : forall s y, wf s ->
    In y (items (fold_left (add_move eqb) l s)) <-> In y (items s) \/ In y l.
  Proof.
    induction l as [|x l IH]; intros s y W; cbn [fold_left].
    - cbn. tauto.
    - rewrite IH by now apply wf_add_move. rewrite In_items_add_move by assumption. cbn. intuition.
  Qed.

  (* ---------- first_occ: the specification ---------- *)
  Lemma In_first_occ l x : In x (first_occ eqb l) <-> In x l.
  Proof.
    induction l as [|a l IH]; cbn; [reflexivity|].
    rewrite filter_In, IH. split.
    - intros [->|[H _]]; auto.
    - intros [->|H]; [now left|]. destruct (eqb a x) eqn:E.
      + apply eqb_spec in E. now left.
      + right. now split.
  Qed.
  Lemma NoDup_filter {B} (f : B -> bool) l : NoDup l -> NoDup (filter f l).
  Proof.
    induction 1 as [|a l H ND IH]; cbn; [constructor|].
    destruct (f a); [constructor; [rewrite filter_In; tauto | assumption] | assumption].
  Qed.
  Lemma NoDup_first_occ l : NoDup (first_occ eqb l).
  Proof.
    induction l as [|a l IH]; cbn; [constructor|]. constructor.
    - rewrite filter_In. intros [_ H]. now rewrite eqb_refl in H.
    - now apply NoDup_filter.
  Qed.
  Lemma filter_all {B} (f : B -> bool) l : (forall x, f x = true) -> filter f l = l.
  Proof. intros H. induction l as [|a l IH]; cbn; [reflexivity | now rewrite H, IH]. Qed.
  Lemma filter_filter {B} (f g : B -> bool) l : filter f (filter g l) = filter (fun y => g y && f y) l.
  Proof.
    induction l as [|a l IH]; cbn; [reflexivity|]. destruct (g a); cbn; [destruct (f a)|]; now rewrite IH.
  Qed.
  (* a duplicate-free list is its own first-occurrence list *)
  Lemma first_occ_nodup l : NoDup l -> first_occ eqb l = l.
  Proof.
    induction 1 as [|a l H ND IH]; cbn; [reflexivity|]. rewrite IH. f_equal.
    clear - H eqb_spec. induction l as [|b l IH]; cbn; [reflexivity|].
    destruct (eqb a b) eqn:E.
    - apply eqb_spec in E. subst. exfalso. apply H. now left.
    - cbn. f_equal. apply IH. intros ?. apply H. now right.
  Qed.
  (* position-free reading of "first-insertion order": a occurs before b in first_occ l iff the
     first occurrence of a in l is before the first occurrence of b *)
  Lemma first_occ_app_new l x : ~ In x l -> first_occ eqb (l ++ [x]) = first_occ eqb l ++ [x].
  Proof.
    induction l as [|a l IH]; intros H; cbn; [reflexivity|].
    rewrite IH by (intros ?; apply H; now right). rewrite filter_app. cbn.
    destruct (eqb a x) eqn:E; [apply eqb_spec in E; subst; exfalso; apply H; now left | reflexivity].
  Qed.
  Lemma first_occ_app_old l x : In x l -> first_occ eqb (l ++ [x]) = first_occ eqb l.
  Proof.
    induction l as [|a l IH]; intros H; [destruct H|]. cbn.
    destruct (eqb a x) eqn:E.
    - apply eqb_spec in E. subst. f_equal.
      destruct (in_dec (fun p q => match bool_dec (eqb p q) true with
                                   | left e => left (proj1 (eqb_spec p q) e)
                                   | right n => right (fun h => n (proj2 (eqb_spec p q) h)) end) x l) as [I|I].
      + now rewrite IH.
      + rewrite first_occ_app_new by assumption. rewrite filter_app. cbn. rewrite eqb_refl. cbn. now rewrite app_nil_r.
    - destruct H as [->|H]; [now rewrite eqb_refl in E|]. now rewrite IH.
  Qed.

  (* ---------- the vector after any fold of insertions = first occurrences, appended ---------- *)
  Lemma items_fold l : forall s, wf s ->
    items (fold_left (add_move eqb) l s) =
    items s ++ filter (fun y => negb (mem eqb y (items s))) (first_occ eqb l).
  Proof.
    induction l as [|x l IH]; intros s W; cbn [fold_left first_occ].
    - cbn. now rewrite app_nil_r.
    - rewrite IH by now apply wf_add_move. rewrite items_add_move by assumption.
      cbn [filter]. destruct (mem eqb x (items s)) eqn:M; cbn [negb].
      + f_equal. rewrite filter_filter. apply filter_ext_in. intros y _.
        destruct (eqb x y) eqn:E; cbn; [|reflexivity].
        apply eqb_spec in E. subst. now rewrite M.
      + rewrite <- app_assoc. cbn [app]. do 2 f_equal. rewrite filter_filter. apply filter_ext. intros y.
        rewrite mem_app. cbn [mem existsb]. rewrite orb_false_r, negb_orb, (eqb_sym y x). apply andb_comm.
  Qed.

  Theorem items_from_vec v : items (from_vec eqb v) = first_occ eqb v.
  Proof.
    unfold from_vec. rewrite items_fold by apply wf_empty. cbn [items empty app].
    apply filter_all. reflexivity.
  Qed.

  (* adding again what is already there changes nothing (vector AND index) *)
  Lemma fold_present l : forall s, wf s -> (forall y, In y l -> In y (items s)) ->
    fold_left (add_move eqb) l s = s.
  Proof.
    induction l as [|x l IH]; intros s W H; cbn; [reflexivity|].
    rewrite add_move_present by (try assumption; apply H; now left).
    apply IH; [assumption | intros y Hy; apply H; now right].
  Qed.
  Lemma fold_filter_neq x l : forall s, wf s -> In x (items s) ->
    fold_left (add_move eqb) (filter (fun y => negb (eqb x y)) l) s = fold_left (add_move eqb) l s.
  Proof.
    induction l as [|a l IH]; intros s W H; cbn; [reflexivity|].
    destruct (eqb x a) eqn:E; cbn.
    - apply eqb_spec in E. subst a. rewrite add_move_present by assumption. now apply IH.
    - apply IH; [now apply wf_add_move | apply In_items_add_move; auto].
  Qed.
  Lemma fold_first_occ l : forall s, wf s ->
    fold_left (add_move eqb) (first_occ eqb l) s = fold_left (add_move eqb) l s.
  Proof.
    induction l as [|x l IH]; intros s W; cbn; [reflexivity|].
    rewrite fold_filter_neq; [apply IH; now apply wf_add_move | now apply wf_add_move |].
    apply In_items_add_move; auto.
  Qed.

  (* a history is the fold of add_move over everything it offers *)
  Lemma run_offered h : forall s, wf s -> run eqb s h = fold_left (add_move eqb) (offered h) s.
  Proof.
    unfold run. induction h as [|o h IH]; intros s W; [reflexivity|].
    cbn [fold_left]. rewrite IH by now apply wf_step. destruct o; cbn [step offered fold_left]; try reflexivity.
    rewrite fold_left_app. f_equal. unfold extend. rewrite items_from_vec. now apply fold_first_occ.
  Qed.

  (* ---------- the property theorems (generic) ---------- *)
  Theorem nodup_run s h : wf s -> NoDup (items (run eqb s h)).
  Proof. intros W. now apply (wf_run h s W). Qed.

  Theorem first_insertion_order h :
    items (run eqb empty h) = first_occ eqb (offered h).
  Proof. rewrite run_offered by apply wf_empty. apply items_from_vec. Qed.

  Lemma first_occ_app l1 l2 :
    first_occ eqb (l1 ++ l2) = first_occ eqb l1 ++ filter (fun y => negb (mem eqb y l1)) (first_occ eqb l2).
  Proof.
    induction l1 as [|a l1 IH]; cbn [app first_occ].
    - cbn [app]. symmetry. apply filter_all. reflexivity.
    - rewrite IH, filter_app, filter_filter. cbn [app]. do 2 f_equal. apply filter_ext. intros y.
      cbn [mem existsb]. rewrite negb_orb, (eqb_sym y a). apply andb_comm.
  Qed.

  (* starting from any well-formed set (decoded, read from JSON, built earlier): old elements keep their
     places, new ones follow in order of first insertion *)
  Theorem first_insertion_order_from s h : wf s ->
    items (run eqb s h) = first_occ eqb (items s ++ offered h).
  Proof.
    intros W. rewrite run_offered by assumption. rewrite items_fold by assumption.
    rewrite first_occ_app. now rewrite (first_occ_nodup (items s)) by apply W.
  Qed.

  Theorem nothing_lost s h x : wf s -> In x (items (run eqb s h)) <-> In x (items s) \/ In x (offered h).
  Proof. intros W. rewrite run_offered by assumption. now apply In_items_fold. Qed.

  Theorem add_returns_fresh s x : wf s -> snd (add eqb s x) = true <-> ~ In x (items s).
  Proof. intros W. rewrite add_result by assumption. rewrite negb_true_iff. apply mem_false. Qed.

  Theorem decode_is_from_vec k f s : decode eqb k f = Ok s ->
    exists elems, frame_elems k f = Ok elems /\ s = from_vec eqb elems.
  Proof.
    unfold decode, frame_elems. destruct (skip_set_tag (f_tags f)) as [t1| | |]; cbn [bind]; try discriminate.
    destruct (if double_tag k then skip_set_tag t1 else Ok t1) as [t2| | |]; cbn [bind]; try discriminate.
    destruct t2; [|discriminate].
    destruct (read_items k (f_len f) (f_items f) (f_break f) []) as [e| | |]; cbn [bind]; try discriminate.
    intros [= <-]. now exists e.
  Qed.

  Theorem serialised_nodup {B} (enc : A -> B) s :
    (forall x y, enc x = enc y -> x = y) -> wf s -> NoDup (map enc (items s)).
  Proof.
    intros Inj [ND _]. induction ND as [|a l H ND IH]; cbn; constructor; [|assumption].
    rewrite in_map_iff. intros [y [E Hy]]. apply Inj in E. now subst.
  Qed.

  (* booleans seen by the caller = those of the specification walk *)
  Lemma observe_spec h : forall s pre, wf s -> (forall x, In x (items s) <-> In x pre) ->
    observe eqb s h = spec_bools eqb pre h.
  Proof.
    assert (MEM : forall s pre x, (forall y, In y (items s) <-> In y pre) -> mem eqb x (items s) = mem eqb x pre).
    { intros s pre x H. destruct (mem eqb x pre) eqn:M.
      - apply mem_In, H. now apply mem_In.
      - apply mem_false. intros I. apply H, mem_In in I. congruence. }
    induction h as [|o h IH]; intros s pre W H; [reflexivity|].
    destruct o; cbn [observe spec_bools step].
    - rewrite add_result by assumption. rewrite (MEM s pre) by assumption. f_equal.
      apply IH; [now apply wf_add_move|]. intros y. rewrite In_items_add_move by assumption.
      rewrite in_app_iff, H. cbn. intuition.
    - apply IH; [now apply wf_add_move|]. intros y. rewrite In_items_add_move by assumption.
      rewrite in_app_iff, H. cbn. intuition.
    - apply IH; [now apply wf_step with (o := OExtend v)|]. intros y. unfold extend.
      rewrite In_items_fold by assumption. rewrite items_from_vec, In_first_occ, in_app_iff, H. tauto.
    - rewrite contains_spec by assumption. rewrite (MEM s pre) by assumption. f_equal. now apply IH.
  Qed.
End Proofs.
