(* Proofs about the change paths (model in Change.v): every output they create passes the admission
   limits, the top-up of the last output is where that can break (refuted by witnesses for the code
   before the repair, proved for the repaired code), and the side conditions under which the unrepaired
   top-up is harmless. *)
From CSL Require Import Base.Prelude Base.U64 Cbor.Head Cbor.HeadProofs
  MinAda.OutputSize MinAda.MinAda MinAda.MinAdaProofs MinAda.Change.
Local Open Scope N_scope.

Definition all_ok (cfg : config) (outs : list output) : bool := forallb (output_ok cfg) outs.

Lemma all_ok_app cfg a b : all_ok cfg (a ++ b) = all_ok cfg a && all_ok cfg b.
Proof. apply forallb_app. Qed.

Lemma all_ok_rev cfg l : all_ok cfg (rev l) = all_ok cfg l.
Proof.
  induction l as [|x l IH]; [reflexivity|]. cbn [rev]. rewrite all_ok_app, IH. cbn [all_ok forallb].
  rewrite andb_true_r. apply andb_comm.
Qed.

(* ---- ADA-only change ---- *)
Theorem change_ada_only_invariant cfg rq outs l0 fee f b outs' :
  all_ok cfg outs = true -> change_ada_only cfg rq outs l0 fee f b = Ok outs' -> all_ok cfg outs' = true.
Proof.
  intros I. unfold change_ada_only.
  destruct (calculate_ada _ _) as [m| | |]; cbn [bind]; try discriminate.
  assert (B : (if b then Ok outs else Err) = Ok outs' -> all_ok cfg outs' = true).
  { destruct b; [|discriminate]. intros H; inversion H; subst; exact I. }
  destruct (l0 <? m); [exact B|].
  destruct (fee_for_output _ _ _) as [ffc| | |]; cbn [bind]; try discriminate.
  destruct (checked_add fee ffc) as [nf| | |]; cbn [bind]; try discriminate.
  destruct (checked_add m nf) as [need| | |]; cbn [bind]; try discriminate.
  destruct (l0 <? need); [exact B|].
  destruct (checked_sub l0 nf) as [c| | |]; cbn [bind]; try discriminate.
  intros H. eapply add_output_invariant; eauto.
Qed.

(* the change output of the ADA-only branch, when one is made, is the last one and went through add_output *)
Theorem change_ada_only_shape cfg rq outs l0 fee f b outs' :
  change_ada_only cfg rq outs l0 fee f b = Ok outs' ->
  outs' = outs \/ exists c, outs' = outs ++ [change_output rq c []] /\ output_ok cfg (change_output rq c []) = true.
Proof.
  unfold change_ada_only.
  destruct (calculate_ada _ _) as [m| | |]; cbn [bind]; try discriminate.
  assert (B : (if b then Ok outs else Err) = Ok outs' -> outs' = outs).
  { destruct b; [|discriminate]. intros H; inversion H; reflexivity. }
  destruct (l0 <? m); [intros H; left; auto|].
  destruct (fee_for_output _ _ _) as [ffc| | |]; cbn [bind]; try discriminate.
  destruct (checked_add fee ffc) as [nf| | |]; cbn [bind]; try discriminate.
  destruct (checked_add m nf) as [need| | |]; cbn [bind]; try discriminate.
  destruct (l0 <? need); [intros H; left; auto|].
  destruct (checked_sub l0 nf) as [c| | |]; cbn [bind]; try discriminate.
  intros H. right. exists c. apply add_output_admission in H. destruct H as [E [M V]].
  split; [exact E|]. unfold output_ok. rewrite M. cbn [andb]. apply N.leb_le. exact V.
Qed.

(* ---- asset change, before the top-up ---- *)
Theorem change_packs_invariant cfg rq packs : forall outs l nf outs' l' nf',
  all_ok cfg outs = true -> change_packs cfg rq outs l nf packs = Ok (outs', l', nf') ->
  all_ok cfg outs' = true.
Proof.
  induction packs as [|[ma f] rest IH]; intros outs l nf outs' l' nf' I H; cbn [change_packs] in H.
  - inversion H; subst; exact I.
  - destruct (calculate_ada _ _) as [m| | |]; cbn [bind] in H; try discriminate.
    destruct (fee_for_output _ _ _) as [ffc| | |]; cbn [bind] in H; try discriminate.
    destruct (checked_add nf ffc) as [nf1| | |]; cbn [bind] in H; try discriminate.
    destruct (checked_add m nf1) as [need| | |]; cbn [bind] in H; try discriminate.
    destruct (l <? need); [discriminate|].
    destruct (checked_sub l m) as [l1| | |]; cbn [bind] in H; try discriminate.
    destruct (add_output cfg outs _) as [outs1| | |] eqn:A; cbn [bind] in H; try discriminate.
    eapply IH; [|exact H]. eapply add_output_invariant; eauto.
Qed.

(* ---- the top-up ---- *)
Lemma rev_split {A} (l : list A) x r : rev l = x :: r -> l = rev r ++ [x].
Proof. intros H. rewrite <- (rev_involutive l), H. reflexivity. Qed.

Theorem topup_repaired_invariant cfg outs l res merged outs' :
  all_ok cfg outs = true -> topup true cfg outs l res merged = Ok outs' -> all_ok cfg outs' = true.
Proof.
  intros I. unfold topup. destruct (rev outs) as [|last br] eqn:R; [discriminate|].
  destruct (checked_add (o_coin last) l) as [c| | |]; cbn [bind]; try discriminate.
  destruct (check_output_limits cfg _) as [[]| | |] eqn:C; cbn [bind]; try discriminate.
  intros H; inversion H; subst outs'. apply rev_split in R. subst outs.
  rewrite all_ok_app in I |- *. apply andb_prop in I. destruct I as [I1 _]. rewrite I1.
  cbn [all_ok forallb andb]. rewrite (check_output_limits_ok _ _ C). reflexivity.
Qed.

(* the unrepaired top-up touches nothing but the last output ... *)
Lemma topup_shape b cfg outs l res merged outs' :
  topup b cfg outs l res merged = Ok outs' ->
  exists before last c, outs = before ++ [last] /\ c = o_coin last + l /\
    outs' = before ++ [mkOut (o_addr last) c (match res with [] => o_ma last | _ => merged end) (o_datum last) (o_sref last)].
Proof.
  unfold topup. destruct (rev outs) as [|last br] eqn:R; [discriminate|].
  destruct (checked_add (o_coin last) l) as [c| | |] eqn:A; cbn [bind]; try discriminate.
  destruct (if b then check_output_limits cfg _ else Ok tt) as [[]| | |]; cbn [bind]; try discriminate.
  intros H; inversion H; subst outs'. apply rev_split in R.
  exists (rev br), last, c. repeat split; auto.
  unfold checked_add in A. destruct (o_coin last + l <? two64); inversion A; reflexivity.
Qed.

(* ... and is harmless when the coin stays in its width class (then no size changes, the coin only grows) *)
Theorem topup_same_width_invariant cfg outs l outs' :
  all_ok cfg outs = true -> topup false cfg outs l [] [] = Ok outs' ->
  (forall before last, outs = before ++ [last] -> head_size (o_coin last + l) = head_size (o_coin last)) ->
  all_ok cfg outs' = true.
Proof.
  intros I H W. apply topup_shape in H. destruct H as (before & last & c & E & Ec & E').
  specialize (W _ _ E). subst outs outs'. rewrite all_ok_app in I |- *.
  apply andb_prop in I. destruct I as [I1 I2]. rewrite I1. cbn [all_ok forallb andb] in I2 |- *.
  rewrite andb_true_r in I2 |- *. unfold output_ok in I2 |- *. apply andb_prop in I2. destruct I2 as [M V].
  set (o' := mkOut _ _ _ _ _).
  assert (S : out_size o' = out_size last).
  { rewrite !out_size_decomp. change (out_base o') with (out_base last). cbn [o' o_coin]. subst c. rewrite W. reflexivity. }
  assert (S2 : out_value_size o' = out_value_size last).
  { rewrite !out_value_size_decomp. cbn [o' o_coin o_ma]. subst c. rewrite W. reflexivity. }
  rewrite S2, V, andb_true_r. unfold meets_min in M |- *. rewrite S. cbn [o' o_coin]. subst c.
  apply N.leb_le in M. apply N.leb_le. lia.
Qed.

(* ---- whole asset branch, repaired code ---- *)
Theorem change_assets_repaired_invariant cfg rq outs l0 fee packs pf res merged outs' :
  all_ok cfg outs = true ->
  change_assets_gen true cfg rq outs l0 fee packs pf res merged = Ok outs' ->
  all_ok cfg outs' = true.
Proof.
  intros I. unfold change_assets_gen.
  destruct (calculate_ada _ _) as [minimum| | |]; cbn [bind]; try discriminate.
  destruct (change_packs cfg rq outs l0 fee packs) as [[[outs1 l1] nf]| | |] eqn:P; cbn [bind]; try discriminate.
  pose proof (change_packs_invariant _ _ _ _ _ _ _ _ _ I P) as I1.
  destruct (checked_sub l1 nf) as [l2| | |]; cbn [bind]; try discriminate.
  match goal with |- context [bind ?X _] => destruct X as [[[outs2 l3] r3]| | |] eqn:Q end; cbn [bind]; try discriminate.
  assert (I2 : all_ok cfg outs2 = true).
  { destruct (r_prefer_pure rq && (minimum <? l2)).
    - destruct (fee_for_output _ _ _) as [pf'| | |]; cbn [bind] in Q; try discriminate.
      destruct (checked_sub l2 pf') as [pot| | |]; cbn [bind] in Q; try discriminate.
      destruct (minimum <? pot).
      + destruct (add_output cfg outs1 _) as [o'| | |] eqn:A; cbn [bind] in Q; try discriminate.
        inversion Q; subst. eapply add_output_invariant; eauto.
      + inversion Q; subst; exact I1.
    - inversion Q; subst; exact I1. }
  intros H.
  assert (T : topup true cfg outs2 l3 r3 merged = Ok outs' -> all_ok cfg outs' = true)
    by (apply topup_repaired_invariant; exact I2).
  destruct l3; destruct r3; auto. inversion H; subst; exact I2.
Qed.

(* ---- the code before the repair: refuted ---- *)

(* (a) value size, MAINNET parameters (4310 lovelace per byte, max value size 5000): the last change
   output is admitted with a 5-byte coin (value 4997 bytes); the top-up pushes the coin over 2^32 and the
   value to 5001 bytes *)
Definition w_bundle : multiasset := [repeat (32, 1) 141 ++ [(21, 1)]].
Definition w_cfg_mainnet : config := mkCfg 4310 5000 16384.
Theorem topup_value_size_refuted :
  exists cfg rq outs l0 fee packs pf outs',
    all_ok cfg outs = true /\
    change_assets_gen false cfg rq outs l0 fee packs pf [] [] = Ok outs' /\
    all_ok cfg outs' = false /\
    existsb (fun o => c_max_value_size cfg <? out_value_size o) outs' = true.
Proof.
  exists w_cfg_mainnet, (mkReq 57 DNone None false), [], 6000000000, 170000, [(w_bundle, 220000)], 0.
  eexists. split; [reflexivity|]. split; [vm_compute; reflexivity|]. split; vm_compute; reflexivity.
Qed.

(* (b) minimum ADA: a 58-byte change address (the calculators price 57 bytes), 16 250 000 lovelace per
   byte: admitted with 4 290 000 000 (5-byte coin), topped up to 4 300 000 000 (9-byte coin) while the
   output then needs 4 306 250 000 *)
Theorem topup_min_ada_refuted :
  exists cfg rq outs l0 fee packs pf outs',
    all_ok cfg outs = true /\
    change_assets_gen false cfg rq outs l0 fee packs pf [] [] = Ok outs' /\
    existsb (fun o => negb (meets_min (c_cpb cfg) o)) outs' = true.
Proof.
  exists (mkCfg 16250000 5000 16384), (mkReq 58 DNone None false), [], 4301000000, 1000000, [([[(0, 1)]], 0)], 0.
  eexists. split; [reflexivity|]. split; [vm_compute; reflexivity|]. vm_compute. reflexivity.
Qed.

(* ---- the code before the repair: where the top-up is still safe for the minimum ADA ----
   For a change address of at most 57 bytes the top-up cannot break the MINIMUM (it can still break the
   value size, witness (a)): the last bundle was priced on the fake address with the whole remaining
   ADA as its coin, the final coin is at most that amount, so it is never wider than what was priced. *)

Lemma calculate_ada_first_round cpb o m :
  calculate_ada cpb o = Ok m -> m <= o_coin o -> m = cost cpb (out_base o + head_size (o_coin o)).
Proof.
  rewrite calculate_ada_abs_eq. unfold calculate_ada_abs. cbn [rounds]. intros H L.
  destruct (required cpb (out_base o) (o_coin o)) as [r| | |] eqn:R; cbn [bind] in H; try discriminate.
  apply required_ok in R.
  destruct (o_coin o <? r) eqn:Q.
  - apply N.ltb_lt in Q. pose proof (rounds_ge 2 _ _ _ _ H) as G.
    assert (head_size (o_coin o) <= head_size r) by (apply head_size_mono; lia).
    pose proof (cost_mono cpb (out_base o + head_size (o_coin o)) (out_base o + head_size r)). lia.
  - inversion H; subst. reflexivity.
Qed.

(* state after the packs: the last output of the builder is the last bundle's output, its coin m was priced at
   the width of the ADA that was left (l' + m) on the fake address, and l' + m >= m + nf' *)
Lemma change_packs_last cfg rq packs : forall outs l nf outs' l' nf',
  packs <> [] ->
  change_packs cfg rq outs l nf packs = Ok (outs', l', nf') ->
  exists before ma m,
    outs' = before ++ [change_output rq m ma] /\
    m = cost (c_cpb cfg) (out_base (change_calc rq (Some (0, ma))) + head_size (l' + m)) /\
    nf' <= l'.
Proof.
  induction packs as [|[ma f] rest IH]; intros outs l nf outs' l' nf' NE H; [congruence|].
  cbn [change_packs] in H.
  destruct (calculate_ada _ _) as [m| | |] eqn:C; cbn [bind] in H; try discriminate.
  destruct (fee_for_output _ _ _) as [ffc| | |]; cbn [bind] in H; try discriminate.
  destruct (checked_add nf ffc) as [nf1| | |] eqn:A1; cbn [bind] in H; try discriminate.
  destruct (checked_add m nf1) as [need| | |] eqn:A2; cbn [bind] in H; try discriminate.
  destruct (l <? need) eqn:G; [discriminate|].
  destruct (checked_sub l m) as [l1| | |] eqn:S; cbn [bind] in H; try discriminate.
  destruct (add_output cfg outs _) as [outs1| | |] eqn:AO; cbn [bind] in H; try discriminate.
  destruct rest as [|p rest'].
  - cbn [change_packs] in H. inversion H; subst outs' l' nf'.
    apply add_output_admission in AO. destruct AO as [E _].
    unfold checked_add in A2. destruct (m + nf1 <? two64); inversion A2; subst need.
    unfold checked_sub in S. destruct (m <=? l) eqn:ML; inversion S; subst l1.
    apply N.ltb_ge in G. apply N.leb_le in ML.
    exists outs, ma, m. split; [exact E|]. split; [|lia].
    apply calculate_ada_first_round in C; [|cbn [change_calc calc_output o_coin]; lia].
    cbn [change_calc calc_output o_coin] in C. replace (l - m + m) with l by lia. exact C.
  - eapply IH; [discriminate | exact H].
Qed.

Theorem topup_min_ada_safe_short_addr cfg rq outs l0 fee packs pf outs' :
  r_addr rq <= fake_addr_len -> packs <> [] ->
  all_ok cfg outs = true ->
  change_assets_gen false cfg rq outs l0 fee packs pf [] [] = Ok outs' ->
  forallb (meets_min (c_cpb cfg)) outs' = true.
Proof.
  intros A NE I. unfold change_assets_gen.
  destruct (calculate_ada _ _) as [minimum| | |]; cbn [bind]; try discriminate.
  destruct (change_packs cfg rq outs l0 fee packs) as [[[outs1 l1] nf]| | |] eqn:P; cbn [bind]; try discriminate.
  pose proof (change_packs_invariant _ _ _ _ _ _ _ _ _ I P) as I1.
  destruct (change_packs_last _ _ _ _ _ _ _ _ _ NE P) as (before & ma & m & E1 & Em & Lnf).
  destruct (checked_sub l1 nf) as [l2| | |] eqn:S2; cbn [bind]; try discriminate.
  unfold checked_sub in S2. destruct (nf <=? l1); inversion S2; subst l2.
  assert (OKM : forall o, output_ok cfg o = true -> meets_min (c_cpb cfg) o = true).
  { intros o H. unfold output_ok in H. apply andb_prop in H. tauto. }
  assert (ALL : forall l, all_ok cfg l = true -> forallb (meets_min (c_cpb cfg)) l = true).
  { intros l. unfold all_ok. rewrite !forallb_forall. intros H x Hx. apply OKM, H, Hx. }
  match goal with |- context [bind ?X _] => destruct X as [[[outs2 l3] r3]| | |] eqn:Q end; cbn [bind]; try discriminate.
  assert (D : (all_ok cfg outs2 = true /\ l3 = 0 /\ r3 = []) \/ (outs2 = outs1 /\ l3 = l1 - nf /\ r3 = [])).
  { destruct (r_prefer_pure rq && (minimum <? l1 - nf)).
    - destruct (fee_for_output _ _ _) as [pf'| | |]; cbn [bind] in Q; try discriminate.
      destruct (checked_sub (l1 - nf) pf') as [pot| | |]; cbn [bind] in Q; try discriminate.
      destruct (minimum <? pot).
      + destruct (add_output cfg outs1 _) as [o'| | |] eqn:AO; cbn [bind] in Q; try discriminate.
        inversion Q; subst. left. split; [eapply add_output_invariant; eauto | auto].
      + inversion Q; subst. right; auto.
    - inversion Q; subst. right; auto. }
  destruct D as [[I2 [E3 Er]] | [E2 [E3 Er]]]; subst l3 r3.
  - intros H; inversion H; subst. apply ALL, I2.
  - subst outs2. intros H.
    destruct (l1 - nf) as [|p] eqn:Z; [inversion H; subst; apply ALL, I1|].
    rewrite <- Z in H. apply topup_shape in H. destruct H as (b' & last & c & E & Ec & E').
    rewrite E1 in E. apply app_inj_tail in E. destruct E as [Eb El]. subst b' last outs'.
    rewrite E1 in I1. rewrite all_ok_app in I1. apply andb_prop in I1. destruct I1 as [Ib _].
    rewrite forallb_app, (ALL _ Ib). cbn [forallb andb]. rewrite andb_true_r.
    cbn [change_output o_addr o_ma o_datum o_sref o_coin] in Ec |- *.
    (* the final coin c = m + (l1 - nf) <= l1 + m is priced no wider than l1 + m, on an address no longer than the fake one *)
    rewrite meets_min_abs_eq. apply cost_meets. cbn [o_coin].
    assert (W : head_size c <= head_size (l1 + m)) by (apply head_size_mono; lia).
    assert (B : out_base (mkOut (r_addr rq) c ma (r_datum rq) (r_sref rq))
                <= out_base (change_calc rq (Some (0, ma)))).
    { unfold change_calc. apply calc_output_base_le. exact A. }
    pose proof (cost_mono (c_cpb cfg) (out_base (mkOut (r_addr rq) c ma (r_datum rq) (r_sref rq)) + head_size c)
                  (out_base (change_calc rq (Some (0, ma))) + head_size (l1 + m))).
    lia.
Qed.
