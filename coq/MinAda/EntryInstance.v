(* C07 on the one-call helper add_inputs_from_and_change_with_collateral_return (C05/C19's joint model
   Builder/MoreEntry.v percent_entry): with the concrete size answers, a successful call leaves every output of the
   builder within the limits AND a collateral return that meets min ADA and max_value_size -- because the entry point
   stores the return through set_total_collateral_and_return, whose admission test is [ask_col].  (A variant that
   computes the return itself and stores it through the raw setters has no such test: that is what the correspondence
   run's judge catches.) *)
From CSL Require Import Base.Prelude Base.U64 Cbor.Head Num.Value Deposits.Deposits Builder.Totals Builder.Change
  Builder.ChangeProofs.
From CSL Require Collateral.Collateral Builder.Scenario Builder.MoreEntry MinAda.OutputSize MinAda.MinAda MinAda.MinAdaProofs.
From CSL Require Import MinAda.ChangeInstance MinAda.BuildScenario.
Local Open Scope N_scope.

Definition col_exact {O : Type} (e : cenv) (ask_col : Collateral.Collateral.output -> O -> result N * O) : Prop :=
  forall out o, fst (ask_col out o) = fst (ask_col_c e out tt).

Definition col_return_ok (e : cenv) (c : MoreEntry.colstate) : Prop :=
  match MoreEntry.cs_return c with
  | Some out => MinAda.output_ok (ce_cfg e) (col_shape out) = true
  | None => True
  end.

Lemma ask_col_c_exact e : col_exact e (ask_col_c e).
Proof. intros out []. reflexivity. Qed.

Section Entry.
  Context {O : Type}.
  Variable orc : @oracle O.
  Variable ask_col : Collateral.Collateral.output -> O -> result N * O.
  Variable e : cenv.
  Hypothesis SE : sizes_exact e orc.
  Hypothesis CE : col_exact e ask_col.

  (* set_total_collateral_and_return: a stored return passed the value-size and min-ADA tests *)
  Lemma col_set_total_and_return_ok total addr c o c' o' :
    MoreEntry.col_set_total_and_return ask_col total addr c o = (Ok tt, c', o') -> col_return_ok e c'.
  Proof.
    unfold MoreEntry.col_set_total_and_return.
    destruct (MoreEntry.is_nilb _); [discriminate|].
    destruct (Collateral.Collateral.total_value _) as [inp| | |]; try discriminate.
    destruct (coin inp <? total); [discriminate|].
    destruct (value_checked_sub inp (value_new total)) as [ret| | |]; try discriminate.
    destruct (MoreEntry.is_someb (multiasset_of ret) || (0 <? coin ret)).
    - pose proof (CE (Collateral.Collateral.output_new addr ret) o) as X.
      destruct (ask_col (Collateral.Collateral.output_new addr ret) o) as [[m| | |] o1]; try discriminate.
      destruct (coin ret <? m) eqn:L; [discriminate|]. intros H; inversion H; subst.
      unfold col_return_ok. cbn [MoreEntry.cs_return].
      cbn [fst] in X. unfold ask_col_c in X. cbn [fst] in X.
      set (sh := col_shape (Collateral.Collateral.output_new addr ret)) in *.
      destruct (MinAda.c_max_value_size (ce_cfg e) <? OutputSize.out_value_size sh) eqn:V; [discriminate|].
      symmetry in X. apply N.ltb_ge in L, V.
      unfold MinAda.output_ok. rewrite (MinAdaProofs.admitted_meets_min _ _ _ X); [|exact L].
      cbn [andb]. apply N.leb_le. exact V.
    - intros H; inversion H; subst. exact I.
  Qed.

  Theorem percent_entry_ok fuel utxos addr extra addr_b pct s c o :
    ChangeInstance.J0 e s ->
    MoreEntry.jo_res (MoreEntry.percent_entry orc ask_col fuel utxos addr extra addr_b pct s c o) = Ok tt ->
    all_ok e (MoreEntry.jo_st (MoreEntry.percent_entry orc ask_col fuel utxos addr extra addr_b pct s c o)) /\
    col_return_ok e (MoreEntry.jo_col (MoreEntry.percent_entry orc ask_col fuel utxos addr extra addr_b pct s c o)).
  Proof.
    intros Js. unfold MoreEntry.percent_entry.
    destruct (Collateral.Collateral.total_value _) as [tc| | |]; cbn [MoreEntry.jo_res]; try discriminate.
    destruct (add_inputs_from_and_change_ok orc e SE fuel utxos addr extra s o Js I) as [_ Q].
    destruct (out_res (add_inputs_from_and_change orc fuel utxos addr extra s o)) as [b| | |];
      cbn [MoreEntry.jo_res]; try discriminate.
    destruct (get_fee_if_set _) as [fee|]; cbn [MoreEntry.jo_res]; [|discriminate].
    destruct (let* x := checked_mul fee pct in checked_add (x / 100) 1) as [required| | |]; cbn [MoreEntry.jo_res]; try discriminate.
    destruct (MoreEntry.col_set_total_and_return ask_col required addr_b _ _) as [[[[]| | |] c''] o''] eqn:K;
      cbn [MoreEntry.jo_res MoreEntry.jo_st MoreEntry.jo_col]; try discriminate.
    intros _. split; [exact Q | exact (col_set_total_and_return_ok _ _ _ _ _ _ K)].
  Qed.
End Entry.
