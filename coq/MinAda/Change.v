(* The change paths of TransactionBuilder::add_change_if_needed_with_optional_script_and_datum
   (builders/tx_builder.rs), at the level the min-ADA / size clauses need.  Model definitions only.

   What is mirrored exactly: which min-ADA calculators are run and on what (always the FAKE 57-byte
   address, never the change address), every `add_output` / `fee_for_output` admission test an output
   passes through, the "not enough ADA" guards, the optional pure-ADA change output, and the top-up of
   the LAST output of the builder with what is left -- after that output was admitted.

   What is opaque (fee arithmetic and asset bookkeeping belong to C05/C06): the fee figures
   (min_fee, the increments returned by fee_for_output), the bundles pack_nfts_for_change produces, and
   whatever zero-quantity residue the asset subtraction leaves.  They are ARGUMENTS of the model
   (an oracle); every theorem quantifies over all of them, so it holds for whatever the code computes.

   [reval]: the repaired code runs the admission limits again on the topped-up output
   (false = the code before the repair). *)
From CSL Require Import Base.Prelude Base.U64 Cbor.Head MinAda.OutputSize MinAda.MinAda.
Local Open Scope N_scope.

Record change_req := mkReq {
  r_addr : N;              (* byte length of the change address *)
  r_datum : datum;
  r_sref : option sref;
  r_prefer_pure : bool     (* config.prefer_pure_change *)
}.

Definition change_output (rq : change_req) (coin : N) (ma : multiasset) : output :=
  mkOut (r_addr rq) coin ma (r_datum rq) (r_sref rq).

(* the calculator the change code uses: new_empty (fake address) + set_amount + datum + script ref *)
Definition change_calc (rq : change_req) (amount : option (N * multiasset)) : output :=
  calc_output None amount (r_datum rq) (r_sref rq).

(* fee_for_output: a clone of the builder must ADMIT the output (add_output on the clone); the fee
   difference itself is the oracle value f *)
Definition fee_for_output (cfg : config) (o : output) (f : N) : result N :=
  let* _ := check_output_limits cfg o in Ok f.

(* ---- no assets in the change (tx_builder.rs "else" branch) ----
   burn_ok = false stands for do_not_burn_extra_change or an exact fee below the amount to burn *)
Definition change_ada_only (cfg : config) (rq : change_req) (outs : list output)
    (l0 fee f : N) (burn_ok : bool) : result (list output) :=
  let* m := calculate_ada (c_cpb cfg) (change_calc rq (Some (l0, []))) in
  let burn := if burn_ok then Ok outs else Err in
  if l0 <? m then burn else
  let* ffc := fee_for_output cfg (change_output rq l0 []) f in
  let* new_fee := checked_add fee ffc in
  let* need := checked_add m new_fee in
  if l0 <? need then burn else
  let* c := checked_sub l0 new_fee in
  add_output cfg outs (change_output rq c []).

(* ---- assets in the change: one output per packed bundle, coin = the minimum computed with the whole
        remaining ADA as the coin of the fake output ---- *)
Fixpoint change_packs (cfg : config) (rq : change_req) (outs : list output) (l new_fee : N)
    (packs : list (multiasset * N)) : result (list output * N * N) :=
  match packs with
  | [] => Ok (outs, l, new_fee)
  | (ma, f) :: rest =>
      let* m := calculate_ada (c_cpb cfg) (change_calc rq (Some (l, ma))) in
      let o := change_output rq m ma in
      let* ffc := fee_for_output cfg o f in
      let* nf := checked_add new_fee ffc in
      let* need := checked_add m nf in
      if l <? need then Err else
      let* l' := checked_sub l m in
      let* outs' := add_output cfg outs o in
      change_packs cfg rq outs' l' nf rest
  end.

(* self.outputs.0.last_mut().unwrap().amount = last.amount.checked_add(&change_left)
   [merged]: the bundle of the last output after the addition when the residue is not empty *)
Definition topup (reval : bool) (cfg : config) (outs : list output) (l : N)
    (residue merged : multiasset) : result (list output) :=
  match rev outs with
  | [] => Panic
  | last :: before_rev =>
      let* c := checked_add (o_coin last) l in
      let last' := mkOut (o_addr last) c (match residue with [] => o_ma last | _ => merged end)
                         (o_datum last) (o_sref last) in
      let* _ := (if reval then check_output_limits cfg last' else Ok tt) in
      Ok (rev before_rev ++ [last'])
  end.

Definition change_assets_gen (reval : bool) (cfg : config) (rq : change_req) (outs : list output)
    (l0 fee : N) (packs : list (multiasset * N)) (pure_fee : N) (residue merged : multiasset)
  : result (list output) :=
  let* minimum := calculate_ada (c_cpb cfg) (change_calc rq None) in
  let* '(outs1, l1, nf) := change_packs cfg rq outs l0 fee packs in
  let* l2 := checked_sub l1 nf in
  let* '(outs2, l3, res) :=
    (if r_prefer_pure rq && (minimum <? l2) then
       let* pf := fee_for_output cfg (change_output rq l2 residue) pure_fee in
       let* potential := checked_sub l2 pf in
       if minimum <? potential then
         let* o' := add_output cfg outs1 (change_output rq potential residue) in Ok (o', 0, [])
       else Ok (outs1, l2, residue)
     else Ok (outs1, l2, residue)) in
  match l3, res with
  | 0, [] => Ok outs2                               (* change_left.is_zero() *)
  | _, _ => topup reval cfg outs2 l3 res merged
  end.

(* the state of /repo *)
Definition topup_revalidates : bool := true.
Definition change_assets := change_assets_gen topup_revalidates.
