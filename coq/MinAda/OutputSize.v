(* Serialised size of a TransactionOutput, mirroring the writers the min-ADA code measures:
     serialization/general.rs:213-246   TransactionOutput (legacy array / post-Alonzo map, chosen by the FIELDS:
                                        map iff inline datum or script reference; a lone datum hash stays legacy)
     utils.rs:340-360                   Value (coin alone when the multi-asset reduces to nothing, else [coin, ma])
     lib.rs:1464-1472                   MultiAsset::reduce_empty_to_none (some policy has at least one asset)
     serialization/general.rs:1394-1447 Assets / MultiAsset maps (definite length, BTreeMap order)
     serialization/general.rs:479-498   DataOption ([0, hash32] / [1, #6.24(bytes)])
     serialization/script_ref.rs:45-95  ScriptRef (#6.24(bytes .cbor [kind, script]))
     protocol_types/address.rs:615-622  Address (one definite byte string, any length)
   Only LENGTHS are modelled (the property speaks about sizes): an output is described by the byte length of
   its address, its coin, the shape of its asset bundle (name lengths and quantities per policy), the kind
   and byte length of its datum and of its script reference.  Model definitions only; proofs in
   MinAdaProofs.v.  The tie to the compiled serializer is the correspondence run (exact `to_bytes().len()`
   of every generated output) and, for the schema-expressible outputs, lemma [out_size_is_schema_length]. *)
From CSL Require Import Base.Prelude Cbor.Head.
Local Open Scope N_scope.

(* one asset: length of its name (0..32 in valid values; any N here) and quantity *)
Definition asset := (N * N)%type.
(* one policy = its assets (the 28-byte policy id has a fixed size); BTreeMap order is irrelevant for sizes *)
Definition policy := list asset.
Definition multiasset := list policy.

Inductive datum :=
| DNone
| DHash                  (* 32-byte datum hash *)
| DInline (len : N).     (* inline datum; len = length of PlutusData::to_bytes() *)

Inductive sref :=
| SRNative (len : N)     (* len = length of NativeScript::to_bytes() *)
| SRPlutus (len : N).    (* len = length of the script's bytes; the language tag 1/2/3 takes one byte *)

Record output := mkOut {
  o_addr : N;            (* byte length of Address::to_bytes() (29 enterprise/reward, 57 base, <= 59 pointer, Byron: any) *)
  o_coin : N;
  o_ma : multiasset;     (* [] when Value.multiasset is None *)
  o_datum : datum;
  o_sref : option sref
}.

Definition set_coin (o : output) (c : N) : output :=
  mkOut (o_addr o) c (o_ma o) (o_datum o) (o_sref o).

Definition sumN (l : list N) : N := fold_right N.add 0 l.
Definition lenN {A} (l : list A) : N := N.of_nat (length l).

(* a definite byte/text string of n bytes *)
Definition bytes_size (n : N) : N := head_size n + n.

Definition asset_size (a : asset) : N := bytes_size (fst a) + head_size (snd a).
Definition assets_size (p : policy) : N := head_size (lenN p) + sumN (map asset_size p).
Definition policy_size (p : policy) : N := bytes_size 28 + assets_size p.
Definition ma_size (ma : multiasset) : N := head_size (lenN ma) + sumN (map policy_size ma).

Definition policy_nonempty (p : policy) : bool := match p with [] => false | _ => true end.
(* reduce_empty_to_none: the bundle is written iff some policy has an asset *)
Definition ma_present (ma : multiasset) : bool := existsb policy_nonempty ma.

(* Value::serialize: [coin, multiasset] (one-byte array head) when the bundle is present, else the bare coin *)
Definition value_size (coin : N) (ma : multiasset) : N :=
  if ma_present ma then 1 + head_size coin + ma_size ma else head_size coin.

Definition data_option_size (d : datum) : N :=
  match d with
  | DNone => 0
  | DHash => 1 + 1 + bytes_size 32
  | DInline n => 1 + 1 + (2 + bytes_size n)          (* [1, #6.24(bytes)] : tag 24 is the two bytes d8 18 *)
  end.
Definition sref_inner (s : sref) : N :=
  match s with
  | SRNative n => 1 + 1 + n
  | SRPlutus n => 1 + 1 + bytes_size n
  end.
Definition sref_size (s : sref) : N := 2 + bytes_size (sref_inner s).

Definition is_inline (d : datum) : bool := match d with DInline _ => true | _ => false end.
Definition is_some {A} (o : option A) : bool := match o with Some _ => true | None => false end.
(* has_plutus_data() || has_script_ref() *)
Definition map_form (o : output) : bool := is_inline (o_datum o) || is_some (o_sref o).

(* output.amount.to_bytes().len() *)
Definition out_value_size (o : output) : N := value_size (o_coin o) (o_ma o).

(* TransactionOutput::to_bytes().len() *)
Definition out_size (o : output) : N :=
  if map_form o then
    (* map head (2..4 entries: one byte), key 0, address, key 1, value, [key 2, datum option], [key 3, script ref] *)
    1 + (1 + bytes_size (o_addr o)) + (1 + out_value_size o)
    + (match o_datum o with DNone => 0 | d => 1 + data_option_size d end)
    + (match o_sref o with None => 0 | Some s => 1 + sref_size s end)
  else
    (* array head (2 or 3 items), address, value, [datum hash] *)
    1 + bytes_size (o_addr o) + out_value_size o
    + (match o_datum o with DHash => bytes_size 32 | _ => 0 end).

(* everything except the head of the coin: the size with the coin at 0 (a one-byte head) minus that byte.
   [out_size o = out_base o + head_size (o_coin o)] is lemma out_size_decomp. *)
Definition out_base (o : output) : N := out_size (set_coin o 0) - 1.
Definition value_base (ma : multiasset) : N := value_size 0 ma - 1.
