(* Size algebra of the whole (fake full) transaction that TransactionBuilder::build() measures against
   max_tx_size, for the bodies the C07 scenarios build: inputs, outputs, fee (body keys 0, 1, 2), a witness
   set of vkey witnesses and bootstrap witnesses, is_valid = true, no auxiliary data.

     full_tx_size t = 3 (array(4) head, true, null) + 7 (body map head, keys 0 1 2, set tag 258)
                      + witness set + array head(#outputs) + SUM out_size + head(fee)
                      + array head(#inputs) + SUM input sizes

   and the proof that it is the length of the C01 schema encoding of that transaction
   ([enc (Transaction d)] of Codec/Schema.v on Ledger/Schemas.v), by composing
     Batch/EncProofs.v (C13)  tx_size_exact, witness_set_exact, vkey_witness_size, input_size
     MinAda/SchemaTie.v       out_size_is_schema_length (every output form: legacy, data hash, map form)
   The mock witnesses of fake_full_tx take exactly the room of real ones (Witnesses/FakeSize.v, C18), so the
   same figure bounds the signed transaction. *)
From CSL Require Import Base.Prelude Cbor.Head Cbor.HeadProofs Codec.Schema Ledger.Schemas.
From CSL Require Batch.Calc Batch.CalcProofs Batch.Denote Batch.EncProofs.
From CSL Require Import MinAda.OutputSize MinAda.MinAda MinAda.SchemaTie.
Local Open Scope N_scope.

(* ---- the shape of a transaction: everything its size depends on ---- *)
Record tx_shape := mkTx {
  t_inputs : list N;          (* output index of every input (the 32-byte transaction id has a fixed size) *)
  t_outputs : list output;
  t_fee : N;
  t_vkeys : N;                (* number of vkey witnesses (mock or real: 32-byte key, 64-byte signature) *)
  t_boots : list N;           (* encoded size of every bootstrap witness *)
  (* optional parts (absent in the transactions of theorem full_tx_size_is_encoding; tied by the correspondence run only) *)
  t_col_inputs : list N;      (* collateral inputs (body key 13, a set): output indices *)
  t_col_return : option output;   (* collateral return (key 16) *)
  t_col_total : option N;     (* total collateral (key 17) *)
  t_aux : option N            (* encoded size of the auxiliary data (4th item of the transaction; its hash is body key 7) *)
}.
Definition mkTx0 (ins : list N) (outs : list output) (fee vkeys : N) (boots : list N) : tx_shape :=
  mkTx ins outs fee vkeys boots [] None None None.

Definition input_size (ix : N) : N := 1 + 34 + head_size ix.
Definition vkey_witness_size : N := 101.
Definition set_head (n : N) : N := 3 + head_size n.       (* #6.258([...]) *)

(* map head, then per non-empty field: key, set tag, array head, items *)
Definition witness_set_size (v : N) (boots : list N) : N :=
  1 + (if 0 <? v then 1 + set_head v + vkey_witness_size * v else 0)
    + (if 0 <? lenN boots then 1 + set_head (lenN boots) + sumN boots else 0).

Definition outputs_size (outs : list output) : N := head_size (lenN outs) + sumN (map out_size outs).
Definition inputs_size (ins : list N) : N := head_size (lenN ins) + sumN (map input_size ins).

(* body keys 13 / 16 / 17 / 7 and the auxiliary data replacing the null; every key and the map head stay one byte *)
Definition extras_size (t : tx_shape) : N :=
  (match t_col_inputs t with [] => 0 | l => 1 + 3 + inputs_size l end)
  + (match t_col_return t with Some o => 1 + out_size o | None => 0 end)
  + (match t_col_total t with Some c => 1 + head_size c | None => 0 end)
  + (match t_aux t with Some n => (1 + 34) + n - 1 | None => 0 end).

Definition full_tx_size (t : tx_shape) : N :=
  3 + 7 + witness_set_size (t_vkeys t) (t_boots t) + outputs_size (t_outputs t) + head_size (t_fee t)
  + inputs_size (t_inputs t) + extras_size t.

(* build(): the guard on the modelled size *)
Definition build_tx_guard (cfg : config) (t : tx_shape) : result unit := build_guard cfg (full_tx_size t).

(* ---- the concrete transaction ---- *)
Record ctx := mkCTx {
  x_inputs : list (bytes * N);           (* transaction id, index *)
  x_outputs : list coutput;
  x_fee : N;
  x_vkeys : list (bytes * bytes);        (* vkey, signature *)
  x_boots : list val                     (* bootstrap witnesses as values of the BootstrapWitness schema *)
}.

Section TxTie.
Variable d : nat.

Definition ctx_shape (x : ctx) : tx_shape :=
  mkTx0 (map snd (x_inputs x)) (map (shape d) (x_outputs x)) (x_fee x) (lenN (x_vkeys x))
        (map (fun b => len (enc BootstrapWitness b)) (x_boots x)).

Definition ctx_val (x : ctx) : val :=
  Batch.Denote.tx_val
    (Batch.Denote.body_val (map (fun i => Batch.Denote.input_val (fst i) (snd i)) (x_inputs x))
                           (map (val_output d) (x_outputs x)) (x_fee x))
    (Batch.Denote.ws_val (map (fun w => Batch.Denote.vkeywit_val (fst w) (snd w)) (x_vkeys x)) (x_boots x)).

Definition enc_tx (x : ctx) : bytes := enc (Transaction d) (ctx_val x).

Definition ctx_ok (x : ctx) : Prop :=
  Forall (fun i => len (fst i) = 32) (x_inputs x) /\
  Forall (fun o => ids28 (co_ma o) /\ hash_ok (co_datum o) /\ lang_ok (co_sref o)) (x_outputs x) /\
  Forall (fun w => len (fst w) = 32 /\ len (snd w) = 64) (x_vkeys x).

Lemma sumN_eq l : Batch.Calc.sumN l = sumN l.
Proof. reflexivity. Qed.

Lemma sumN_map_in {A} (f g : A -> N) (l : list A) :
  Forall (fun x => f x = g x) l -> sumN (map f l) = sumN (map g l).
Proof.
  induction 1 as [|x l H _ IH]; [reflexivity|]. cbn [map sumN fold_right]. rewrite H. unfold sumN in IH. rewrite IH. reflexivity.
Qed.

Lemma empty_ws_size : len (enc (TransactionWitnessSet d) (Batch.Denote.ws_val [] [])) = 1.
Proof. reflexivity. Qed.

Theorem full_tx_size_is_encoding (x : ctx) :
  ctx_ok x -> len (enc_tx x) = full_tx_size (ctx_shape x).
Proof.
  intros (Hi & Ho & Hv). unfold enc_tx, ctx_val.
  pose proof (Batch.EncProofs.tx_size_exact d
                (map (fun i => Batch.Denote.input_val (fst i) (snd i)) (x_inputs x))
                (map (val_output d) (x_outputs x)) (x_fee x)
                (Batch.Denote.ws_val (map (fun w => Batch.Denote.vkeywit_val (fst w) (snd w)) (x_vkeys x)) (x_boots x))) as E.
  change (@Batch.Calc.lenN N) with len in E. rewrite E. clear E.
  unfold full_tx_size, extras_size, ctx_shape, mkTx0. cbn [t_inputs t_outputs t_fee t_vkeys t_boots t_col_inputs t_col_return t_col_total t_aux].
  (* constants *)
  change (Batch.Calc.get_bare_tx_size false) with 3.
  change (Batch.Calc.get_bare_tx_body_size [0; 1; 2]) with 7.
  unfold Batch.Calc.get_coin_size. rewrite !Batch.CalcProofs.struct_size_head_size.
  (* outputs *)
  assert (EO : Batch.Calc.sumN (map (fun o => len (enc (TransactionOutput d) o)) (map (val_output d) (x_outputs x)))
               = sumN (map out_size (map (shape d) (x_outputs x)))).
  { rewrite !map_map. rewrite sumN_eq. apply sumN_map_in. eapply Forall_impl; [|exact Ho].
    intros o (A & B & C). exact (out_size_is_schema_length d o A B C). }
  (* inputs *)
  assert (EI : Batch.Calc.sumN (map (fun i => len (enc TransactionInput i))
                                 (map (fun i => Batch.Denote.input_val (fst i) (snd i)) (x_inputs x)))
               = sumN (map input_size (map snd (x_inputs x)))).
  { rewrite !map_map. rewrite sumN_eq. apply sumN_map_in. eapply Forall_impl; [|exact Hi].
    intros [txid ix] H. cbn [fst snd] in *. pose proof (Batch.EncProofs.input_size txid ix H) as Q.
    change (@Batch.Calc.lenN N) with len in Q. rewrite Q.
    rewrite Batch.CalcProofs.struct_size_head_size. reflexivity. }
  rewrite EO, EI. unfold outputs_size, inputs_size, Batch.Calc.lenN, lenN. rewrite !map_length.
  (* witness set *)
  assert (EW : len (enc (TransactionWitnessSet d)
                 (Batch.Denote.ws_val (map (fun w => Batch.Denote.vkeywit_val (fst w) (snd w)) (x_vkeys x)) (x_boots x)))
               = witness_set_size (lenN (x_vkeys x)) (map (fun b => len (enc BootstrapWitness b)) (x_boots x))).
  { assert (VK : forall v, In v (map (fun w0 => Batch.Denote.vkeywit_val (fst w0) (snd w0)) (x_vkeys x)) ->
                 Batch.Calc.lenN (enc Vkeywitness v) = Batch.Calc.get_fake_vkey_size).
    { intros v Hin. apply in_map_iff in Hin. destruct Hin as ([vk sg] & <- & Hin).
      rewrite Forall_forall in Hv. specialize (Hv _ Hin). cbn [fst snd] in *.
      apply Batch.EncProofs.vkey_witness_size; tauto. }
    destruct (x_vkeys x) as [|w ws] eqn:EV; destruct (x_boots x) as [|b bs] eqn:EB; [reflexivity| | |];
    (match goal with |- context [Batch.Denote.ws_val ?vs ?bs] =>
       pose proof (Batch.EncProofs.witness_set_exact d vs bs VK) as W end);
    change (@Batch.Calc.lenN N) with len in W;
    (rewrite W; [|first [left; discriminate | right; discriminate]]);
    unfold Batch.EncProofs.wit_closed, witness_set_size, set_head, Batch.Calc.get_wrapped_struct_size, Batch.Calc.get_tag_size,
           Batch.Calc.lenN, lenN, len, vkey_witness_size;
    rewrite ?Batch.CalcProofs.struct_size_head_size, ?map_length; cbn [length map];
    change Batch.Calc.sumN with sumN; change (head_size 258) with 3; change Batch.Calc.get_fake_vkey_size with 101;
    repeat match goal with
           | |- context [?a =? ?b] => destruct (N.eqb_spec a b)
           | |- context [?a <? ?b] => destruct (N.ltb_spec a b)
           end; cbn [andb]; try lia. }
  rewrite EW. unfold lenN. lia.
Qed.

(* build() on the modelled size: a transaction is only released when its encoding fits *)
Theorem build_tx_guard_encoding (cfg : config) (x : ctx) :
  ctx_ok x -> build_tx_guard cfg (ctx_shape x) = Ok tt -> len (enc_tx x) <= c_max_tx_size cfg.
Proof.
  intros H G. rewrite (full_tx_size_is_encoding x H). unfold build_tx_guard, build_guard in G.
  destruct (c_max_tx_size cfg <? full_tx_size (ctx_shape x)) eqn:E; [discriminate | lia].
Qed.
End TxTie.
