(* The executable statement of C07 ("judge") evaluated on the IMPLEMENTATION's own figures (coins and
   `to_bytes().len()` sizes reported by the harness), the model observations the driver prints, and the
   known-finding classes.  Extracted; definitions only.  The judge never uses the size model: it is the
   property's inequalities on what the compiled code produced. *)
From CSL Require Import Base.Prelude Base.U64 Cbor.Head MinAda.OutputSize MinAda.MinAda MinAda.Change.
Local Open Scope N_scope.

Inductive verdict := Holds | FailsKnown (class : N) | FailsUnknown.

(* known-finding classes (ids are mapped to names by the driver) *)
Definition CLS_HELPER_LONG_ADDR : N := 1.     (* output-builder min-coin helper, address longer than 57 bytes *)
Definition CLS_COLLRET_VALUE_SIZE : N := 2.   (* collateral return accepted with a value above max_value_size *)
Definition CLS_TOPUP : N := 3.                (* last change output topped up after admission, coin got wider *)
Definition CLS_RAW_COLLRET : N := 4.          (* raw setter set_collateral_return: no check at all (by design) *)

(* an output as observed on the implementation *)
Record oobs := mkObs { ob_coin : N; ob_size : N; ob_vsize : N }.

Definition obs_meets_min (cpb : N) (o : oobs) : bool := cpb * (160 + ob_size o) <=? ob_coin o.
Definition obs_ok (cfg : config) (o : oobs) : bool :=
  obs_meets_min (c_cpb cfg) o && (ob_vsize o <=? c_max_value_size cfg).

(* ---- min_ada_for_output ----
   impl result: Some (c, size with coin max(c, coin0), size with coin u64::MAX) or None (error) *)
Definition judge_min_ada (cpb coin0 : N) (r : option (N * N)) (size_widest : N) : verdict :=
  match r with
  | Some (c, size_at_max) =>
      let coin' := N.max c coin0 in
      if (cpb * (160 + size_at_max) <=? coin') && (c <=? cpb * (160 + size_widest)) then Holds else FailsUnknown
  | None =>
      (* an error is legitimate only when the widest price is not representable *)
      if (two64 <=? size_widest + 160) || (two64 <=? cpb * (160 + size_widest)) then Holds else FailsUnknown
  end.

(* ---- add_output: accepted => within the limits ---- *)
Definition judge_admission (cfg : config) (r : option oobs) : verdict :=
  match r with
  | Some o => if obs_ok cfg o then Holds else FailsUnknown
  | None => Holds
  end.

(* ---- output-builder helper: the output it returns meets the minimum ---- *)
Definition known_helper (addr_len : N) : bool := negb helper_repaired && (fake_addr_len <? addr_len).
Definition judge_helper (cpb addr_len : N) (r : option oobs) : verdict :=
  match r with
  | Some o => if obs_meets_min cpb o then Holds
              else if known_helper addr_len then FailsKnown CLS_HELPER_LONG_ADDR else FailsUnknown
  | None => Holds
  end.

(* ---- collateral return (checked entry points) ---- *)
Definition known_collret (cfg : config) (ret : output) : bool :=
  negb collateral_checks_value_size && (c_max_value_size cfg <? out_value_size ret) && meets_min (c_cpb cfg) ret.
Definition judge_collret (cfg : config) (ret : output) (r : option oobs) : verdict :=
  match r with
  | Some o => if obs_ok cfg o then Holds
              else if known_collret cfg ret && obs_meets_min (c_cpb cfg) o then FailsKnown CLS_COLLRET_VALUE_SIZE
              else FailsUnknown
  | None => Holds
  end.
(* raw setter: whatever it is given is accepted *)
Definition judge_collraw (cfg : config) (r : option oobs) : verdict :=
  match r with
  | Some o => if obs_ok cfg o then Holds else FailsKnown CLS_RAW_COLLRET
  | None => Holds
  end.

(* ---- built transaction: every output within the limits, the transaction within max_tx_size ----
   [topup]: Some m when the scenario's last output was topped up from coin m (model figure) -- only used
   to classify a failure of THAT output as the known top-up class while the repair is not in *)
Fixpoint all_but_last_ok (cfg : config) (l : list oobs) : bool :=
  match l with
  | [] => true
  | [_] => true
  | o :: r => obs_ok cfg o && all_but_last_ok cfg r
  end.
Definition last_ok (cfg : config) (l : list oobs) : bool :=
  match rev l with [] => true | o :: _ => obs_ok cfg o end.
Definition last_coin (l : list oobs) : N := match rev l with [] => 0 | o :: _ => ob_coin o end.

Definition known_topup (topup : option N) (final_coin : N) : bool :=
  match topup with
  | Some m => negb topup_revalidates && (head_size m <? head_size final_coin)
  | None => false
  end.

Definition judge_build (cfg : config) (outs : list oobs) (full_size : N) (topup : option N) : verdict :=
  if negb (full_size <=? c_max_tx_size cfg) then FailsUnknown
  else if negb (all_but_last_ok cfg outs) then FailsUnknown
  else if last_ok cfg outs then Holds
  else if known_topup topup (last_coin outs) then FailsKnown CLS_TOPUP
  else FailsUnknown.

(* ---- model observations (what the driver prints next to the implementation's line) ---- *)
Record min_ada_obs := mkMAO { mo_c : N; mo_size : N; mo_vsize : N; mo_size_at_max : N; mo_size_widest : N }.
Definition model_min_ada (cpb : N) (o : output) : result min_ada_obs :=
  let* c := min_ada_for_output cpb o in
  Ok (mkMAO c (out_size o) (out_value_size o) (out_size (set_coin o (N.max c (o_coin o)))) (out_size (set_coin o u64_max))).

Definition obs_of (o : output) : oobs := mkObs (o_coin o) (out_size o) (out_value_size o).

Definition model_add_output (cfg : config) (o : output) : result oobs :=
  let* _ := add_output cfg [] o in Ok (obs_of o).
Definition model_helper (cpb addr : N) (ma : multiasset) (d : datum) (s : option sref) : result oobs :=
  let* o := helper_output cpb addr ma d s in Ok (obs_of o).
Definition model_collret (cfg : config) (ret : output) : result oobs :=
  let* _ := collateral_return_guard cfg ret in Ok (obs_of ret).

(* built transaction with change.  The oracle is read off the implementation's result: the final fee, the
   bundles of the change outputs it made (in order), whether the last of them is a pure-ADA output.
   With fee := final fee and all increments 0 the model's guards are implied by the implementation's
   own (its last guard carries the full fee), so a success of the code is a success of the model with
   the same outputs -- the comparison is then exact on every coin and size.
   Pure-ADA output: when the code made one, the model is run with prefer_pure_change on and increment 0
   (the increment is inside the final fee); when it did not, with prefer_pure_change off, which is the
   same path as "preferred but declined". *)
Definition model_build_assets (cfg : config) (rq : change_req) (req : list output) (l0 final_fee : N)
    (bundles : list multiasset) (pure_made : bool) : result (list output) :=
  let* outs := add_outputs cfg [] req in
  let packs := map (fun b => (b, 0)) bundles in
  change_assets cfg (mkReq (r_addr rq) (r_datum rq) (r_sref rq) pure_made) outs l0 final_fee packs 0 [] [].

Definition model_build_ada (cfg : config) (rq : change_req) (req : list output) (l0 final_fee : N)
    (change_made : bool) : result (list output) :=
  let* outs := add_outputs cfg [] req in
  if change_made then change_ada_only cfg rq outs l0 final_fee 0 true else Ok outs.

(* the coin the last bundle's output was admitted with (before the top-up): what known_topup compares with *)
Definition model_last_admitted (cfg : config) (rq : change_req) (req : list output) (l0 final_fee : N)
    (bundles : list multiasset) : option N :=
  match add_outputs cfg [] req with
  | Ok outs =>
      match change_packs cfg rq outs l0 final_fee (map (fun b => (b, 0)) bundles) with
      | Ok (outs1, _, _) => match rev outs1 with o :: _ => Some (o_coin o) | [] => None end
      | _ => None
      end
  | _ => None
  end.

(* ---- any build entry point (build, build_tx, build_tx_unsafe) after any balancing entry point ----
   [returned]: some entry point handed out a body / transaction; then every output of it, its collateral return, the
   size build() measures and the bytes of the returned transaction are judged.  An entry point that stores a collateral
   return it computed itself is judged like any other (only the raw setter called by the USER is the known finding). *)
Definition judge_returned (cfg : config) (returned : bool) (outs : list oobs) (col_ret : option oobs)
    (full : option N) (len : N) : verdict :=
  if negb returned then Holds
  else if forallb (obs_ok cfg) outs
          && (match col_ret with Some o => obs_ok cfg o | None => true end)
          && (match full with Some f => f <=? c_max_tx_size cfg | None => true end)
          && (len <=? c_max_tx_size cfg)
       then Holds else FailsUnknown.
