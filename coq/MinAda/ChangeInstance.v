(* C07 on C05's full model of add_change_if_needed (Builder/Change.v).

   C05's model leaves sizes, minimum ADA and fees to an ORACLE.  Here the size / min-ADA answers are the concrete
   MinAda model (OutputSize.v out_size, MinAda.v calculate_ada), the transaction-size and fee answers the concrete
   transaction size algebra (TxSize.v full_tx_size, linear fee), and we prove on C05's OWN functions
   (add_output, fee_for_output, pack_nfts_for_change, change_outputs_loop, change_while_loop, top_up_last,
   asset_branch, pure_branch, add_change):

     sizes_exact e orc  ->  every output of the builder is within the limits before add_change
                        ->  add_change ... = Ok _  ->  every output is within the limits afterwards,
                            measured on the REAL change address (address table of the environment).

   for ANY oracle whose min-ADA and value-size answers are the concrete ones (its fee / tx-size / selection answers
   and its own state are arbitrary), hence in particular for the fully concrete oracle [c07_oracle], which also meets
   C05's typing premise [oracle_u64] -- so C05's conservation theorem and this one hold together on it. *)
From CSL Require Import Base.Prelude Base.U64 Cbor.Head Cbor.HeadProofs Num.Value Deposits.Deposits
  Builder.Totals Builder.Change Builder.ChangeProofs.
From CSL Require MinAda.OutputSize MinAda.MinAda MinAda.MinAdaProofs MinAda.TxSize.
Local Open Scope N_scope.


(* ---- environment: what the identifiers of C05's model stand for ---- *)
Record cenv := mkCEnv {
  ce_cfg : MinAda.config;                          (* coins per byte, max value size, max tx size *)
  ce_addr : N -> N;                            (* address id -> byte length of the address *)
  ce_extra : N -> OutputSize.datum * option OutputSize.sref;   (* datum / script-ref id -> their shapes *)
  ce_a : N; ce_b : N;                          (* LinearFee *)
  ce_vkeys : N;                                (* mock vkey witnesses of fake_full_tx *)
  (* what else the builder carries while the fee is estimated: collateral inputs / return / total, auxiliary data *)
  ce_col_inputs : list N;
  ce_col_return : option OutputSize.output;
  ce_col_total : option N;
  ce_aux : option N
}.

(* the size-only view of C05's values and outputs *)
Definition shape_assets (a : assets) : OutputSize.policy := map (fun nq => (N.of_nat (length (fst nq)), snd nq)) a.
Definition shape_ma (m : option multiasset) : OutputSize.multiasset :=
  match m with Some m => map (fun pa => shape_assets (snd pa)) m | None => [] end.
Definition shape_output (e : cenv) (x : output) : OutputSize.output :=
  OutputSize.mkOut (ce_addr e (o_addr x)) (coin (o_amount x)) (shape_ma (multiasset_of (o_amount x)))
           (fst (ce_extra e (o_extra x))) (snd (ce_extra e (o_extra x))).

(* the concrete answers *)
Definition min_ada_c (e : cenv) (x : output) : result N :=
  MinAda.min_ada_for_output (MinAda.c_cpb (ce_cfg e)) (shape_output e x).
Definition value_too_big_c (e : cenv) (v : value) : bool :=
  MinAda.c_max_value_size (ce_cfg e) <? OutputSize.value_size (coin v) (shape_ma (multiasset_of v)).

(* the transaction build() measures, for builder states that only carry inputs, outputs and a fee *)
Definition tx_shape_of (e : cenv) (s : state) (fee : N) : TxSize.tx_shape :=
  TxSize.mkTx (map fst (s_inputs s)) (map (shape_output e) (s_outputs s)) fee (ce_vkeys e) []
            (ce_col_inputs e) (ce_col_return e) (ce_col_total e) (ce_aux e).
Definition tx_too_big_c (e : cenv) (s : state) : bool :=
  match get_fee_if_set s with
  | Some f => MinAda.c_max_tx_size (ce_cfg e) <? TxSize.full_tx_size (tx_shape_of e s f)
  | None => false
  end.
(* the private min_fee: build() (fee must be set, size guard), then the linear fee of the size *)
Definition min_fee_c (e : cenv) (s : state) : result N :=
  match get_fee_if_set s with
  | None => Err
  | Some f =>
      let size := TxSize.full_tx_size (tx_shape_of e s f) in
      if MinAda.c_max_tx_size (ce_cfg e) <? size then Err
      else let* m := checked_mul size (ce_a e) in checked_add m (ce_b e)
  end.

Definition c07_oracle (e : cenv) : @oracle unit :=
  mkOracle (fun st o => (min_fee_c e st, o))
           (fun x o => (min_ada_c e x, o))
           (fun v o => (value_too_big_c e v, o))
           (fun st o => (tx_too_big_c e st, o))
           (fun _ _ o => (([], true), o)).

(* what the theorems need of an oracle *)
Definition sizes_exact {O : Type} (e : cenv) (orc : @oracle O) : Prop :=
  (forall x o, fst (ask_min_ada orc x o) = min_ada_c e x) /\
  (forall v o, fst (ask_value_too_big orc v o) = value_too_big_c e v).

(* the property on C05's outputs *)
Definition out_ok (e : cenv) (x : output) : bool := MinAda.output_ok (ce_cfg e) (shape_output e x).
Definition all_ok (e : cenv) (s : state) : Prop := forallb (out_ok e) (s_outputs s) = true.

Lemma c07_oracle_sizes_exact e : sizes_exact e (c07_oracle e).
Proof. split; reflexivity. Qed.

(* C05's typing premise holds for the concrete oracle *)
Lemma c07_oracle_u64 e : oracle_u64 (c07_oracle e).
Proof.
  repeat split.
  - intros st o v. cbn [c07_oracle ask_fee fst]. unfold min_fee_c.
    destruct (get_fee_if_set st); [|discriminate].
    destruct (_ <? _); [discriminate|]. unfold checked_mul, checked_add, bind.
    destruct (_ * _ <? two64); [|discriminate]. destruct (_ + _ <? two64) eqn:L; [|discriminate].
    intros H; inversion H; subst. lia.
  - intros x o v. cbn [c07_oracle ask_min_ada fst]. unfold min_ada_c, MinAda.min_ada_for_output.
    rewrite MinAdaProofs.calculate_ada_abs_eq. apply MinAdaProofs.rounds_range.
  - intros st utxos o _. cbn. constructor.
Qed.

(* ------------------------------------------------------------------------------------------- *)
Section Instance.
  Context {O : Type}.
  Variable orc : @oracle O.
  Variable e : cenv.
  Hypothesis SE : sizes_exact e orc.

  Notation M := (@M O).

  (* computations that do not touch the builder state *)
  Definition pure_st {A} (m : M A) : Prop := forall s o, out_st (m s o) = s.

  Lemma pure_ret {A} (a : A) : pure_st (ret a).
  Proof. intros s o; reflexivity. Qed.
  Lemma pure_lift {A} (r : result A) : pure_st (lift r).
  Proof. intros s o; reflexivity. Qed.
  Lemma pure_get : pure_st get.
  Proof. intros s o; reflexivity. Qed.
  Lemma pure_askF st : pure_st (askF orc st).
  Proof. intros s o; reflexivity. Qed.
  Lemma pure_askA x : pure_st (askA orc x).
  Proof. intros s o; reflexivity. Qed.
  Lemma pure_askS v : pure_st (askS orc v).
  Proof. intros s o; reflexivity. Qed.
  Lemma pure_bind {A B} (m : M A) (f : A -> M B) : pure_st m -> (forall a, pure_st (f a)) -> pure_st (bindM m f).
  Proof.
    intros Hm Hf s o. unfold bindM. specialize (Hm s o).
    destruct (out_res (m s o)) eqn:R; cbn [out_st]; try exact Hm.
    rewrite Hf. exact Hm.
  Qed.
  Lemma pure_if {A} (b : bool) (m1 m2 : M A) : pure_st m1 -> pure_st m2 -> pure_st (if b then m1 else m2).
  Proof. destruct b; auto. Qed.

  Ltac pure_tac :=
    repeat first
      [ apply pure_ret | apply pure_lift | apply pure_get | apply pure_askF | apply pure_askA | apply pure_askS
      | apply pure_bind; [| intros ?] | apply pure_if
      | match goal with |- pure_st (match ?x with _ => _ end) => destruct x end ].

  Lemma pure_output_admissible x : pure_st (output_admissible orc x).
  Proof. unfold output_admissible. pure_tac. Qed.
  (* add_output / fee_for_output first refuse a value with empty entries (Builder/Change.v output_acceptable) *)
  Lemma pure_output_acceptable x : pure_st (output_acceptable orc x).
  Proof.
    unfold output_acceptable. destruct (Num.ValueNorm.value_has_empty_entries (o_amount x));
      [apply pure_lift | apply pure_output_admissible].
  Qed.
  Lemma pure_fee_for_output x : pure_st (fee_for_output orc x).
  Proof. unfold fee_for_output. pure_tac; try apply pure_output_acceptable. Qed.
  Lemma pure_min_fee_pub : pure_st (min_fee_pub orc).
  Proof. unfold min_fee_pub. pure_tac. Qed.
  Lemma pure_unwrap_ma m : pure_st (@unwrap_ma O m).
  Proof. unfold unwrap_ma. pure_tac. Qed.
  Lemma pure_will_overflow a b c d q : pure_st (will_adding_asset_make_output_overflow orc a b c d q).
  Proof. unfold will_adding_asset_make_output_overflow. pure_tac. Qed.
  Lemma pure_pack_policy_assets policy l : forall a, pure_st (pack_policy_assets orc policy l a).
  Proof.
    induction l as [|[name q] r IH]; intros a; cbn [pack_policy_assets]; [apply pure_ret|].
    apply pure_bind; [apply pure_will_overflow|]. intros ov.
    apply pure_bind; [|intros a'; apply IH].
    destruct ov; [|apply pure_ret]. pure_tac; try apply pure_unwrap_ma.
  Qed.
  Lemma pure_pack_policies l : forall out changes, pure_st (pack_policies orc l out changes).
  Proof.
    induction l as [|[policy a] r IH]; intros out changes; cbn [pack_policies]; [apply pure_ret|].
    apply pure_bind; [apply pure_pack_policy_assets|]. intros acc. pure_tac; try apply IH.
  Qed.
  Lemma pure_pack_nfts ce : pure_st (pack_nfts_for_change orc ce).
  Proof.
    unfold pack_nfts_for_change. apply pure_bind; [apply pure_unwrap_ma|]. intros ma.
    apply pure_bind; [apply pure_pack_policies|]. intros r.
    apply pure_bind; [apply pure_unwrap_ma|]. intros last. apply pure_ret.
  Qed.
  Lemma pure_check_fee : pure_st (check_fee_after_change orc).
  Proof. unfold check_fee_after_change. pure_tac. Qed.

  (* add_output: a REFUSED output leaves the builder exactly as it was (the admission tests run before the push), an
     accepted one is appended unchanged -- for every oracle.  The caller can go on using the builder after an error. *)
  Lemma add_output_frame x s o :
    match out_res (add_output orc x s o) with
    | Ok _ => out_st (add_output orc x s o) = set_s_outputs (s_outputs s ++ [x]) s
    | _ => out_st (add_output orc x s o) = s
    end.
  Proof.
    unfold add_output, bindM, modify. pose proof (pure_output_acceptable x s o) as E.
    destruct (out_res (output_acceptable orc x s o)); cbn [out_res out_st]; congruence.
  Qed.

  (* a state-preserving computation in front of a continuation *)
  Lemma hoare_pure_bind {A B} J P (m : M A) (f : A -> M B) R :
    pure_st m -> (forall a, hoare J P (f a) R) -> hoare J P (bindM m f) R.
  Proof.
    intros Hm Hf s o Js Ps. unfold bindM. pose proof (Hm s o) as E.
    destruct (out_res (m s o)) eqn:Res; cbn [out_st out_res]; try (rewrite E; split; [exact Js | exact I]).
    apply Hf; rewrite E; assumption.
  Qed.
  Lemma hoare_pure {A} J P (m : M A) : pure_st m -> hoare J P m (fun _ s => P s).
  Proof.
    intros Hm s o Js Ps. rewrite (Hm s o). split; [exact Js|]. destruct (out_res (m s o)); auto.
  Qed.

  Lemma hoare_ret_keep {A} J (P : state -> Prop) (a : A) : hoare J P (ret a : M A) (fun _ s => P s).
  Proof. apply hoare_pure, pure_ret. Qed.

  (* the invariant that survives FAILING runs (the Rust code mutates before it fails, and add_inputs_from_and_change retries
     on the state a failed add_change left): either every output is within the limits, or the fee has been fixed already --
     the only step that can put an inadmissible output into the builder is the top-up, which comes after set_final_fee, and a
     builder whose fee is set refuses every further add_change *)
  Definition J0 : state -> Prop := fun s => all_ok e s \/ s_fee s <> None.
  Lemma set_final_fee_some v s : s_fee (set_final_fee v s) <> None.
  Proof. unfold set_final_fee, set_s_fee. cbn [s_fee]. destruct (s_fee_request s) as [|nl|x]; try discriminate. destruct (nl <=? v); discriminate. Qed.

  (* the admission test with the concrete answers: success means the output is within the limits *)
  Lemma output_admissible_ok P x :
    hoare J0 P (output_admissible orc x) (fun _ s => P s /\ out_ok e x = true).
  Proof.
    intros s o Js Ps. split; [rewrite (pure_output_admissible x s o); exact Js|].
    unfold output_admissible, bindM, askS, askA, lift, ret. cbn [out_res out_st out_orc].
    destruct SE as [EA ES]. rewrite ES.
    destruct (value_too_big_c e (o_amount x)) eqn:Big; cbn [out_res out_st]; [exact I|].
    cbn [out_res out_st out_orc]. rewrite EA.
    destruct (min_ada_c e x) as [m| | |] eqn:Min; cbn [out_res out_st]; try exact I.
    destruct (coin (o_amount x) <? m) eqn:L; cbn [out_res out_st]; [exact I|].
    split; [exact Ps|]. unfold out_ok, MinAda.output_ok.
    unfold min_ada_c in Min. apply N.ltb_ge in L.
    rewrite (MinAdaProofs.admitted_meets_min _ _ _ Min L). cbn [andb].
    unfold value_too_big_c in Big. apply N.ltb_ge in Big. apply N.leb_le. exact Big.
  Qed.

  Lemma output_acceptable_ok P x :
    hoare J0 P (output_acceptable orc x) (fun _ s => P s /\ out_ok e x = true).
  Proof.
    unfold output_acceptable. destruct (Num.ValueNorm.value_has_empty_entries (o_amount x));
      [apply hoare_fail; discriminate | apply output_admissible_ok].
  Qed.

  Lemma all_ok_app s l : all_ok e s -> forallb (out_ok e) l = true -> all_ok e (set_s_outputs (s_outputs s ++ l) s).
  Proof. unfold all_ok. cbn [set_s_outputs s_outputs]. intros A B. rewrite forallb_app, A, B. reflexivity. Qed.

  Lemma add_output_ok x : hoare J0 (all_ok e) (add_output orc x) (fun _ s => all_ok e s).
  Proof.
    unfold add_output. eapply hoare_bind; [apply output_acceptable_ok|]. intros ?. cbn beta.
    apply hoare_modify. intros s _ [A B].
    assert (K : all_ok e (set_s_outputs (s_outputs s ++ [x]) s)) by (apply all_ok_app; [exact A|]; cbn [forallb]; rewrite B; reflexivity).
    split; [left; exact K | exact K].
  Qed.

  Lemma change_outputs_loop_ok addr extra l : forall cl nf,
    hoare J0 (all_ok e) (change_outputs_loop orc addr extra l cl nf) (fun _ s => all_ok e s).
  Proof.
    induction l as [|b r IH]; intros cl nf; cbn [change_outputs_loop]; [apply hoare_ret_keep|].
    apply hoare_pure_bind; [apply pure_askA|]. intros m.
    apply hoare_pure_bind; [apply pure_fee_for_output|]. intros f.
    apply hoare_pure_bind; [apply pure_lift|]. intros nf'.
    apply hoare_pure_bind; [apply pure_lift|]. intros need.
    apply hoare_if; intros _; [apply hoare_fail; discriminate|].
    apply hoare_pure_bind; [apply pure_lift|]. intros cl'.
    eapply hoare_bind; [apply add_output_ok|]. intros ?. apply IH.
  Qed.

  Lemma change_while_loop_ok addr extra fuel : forall cl nf,
    hoare J0 (all_ok e) (change_while_loop orc fuel addr extra cl nf) (fun _ s => all_ok e s).
  Proof.
    induction fuel as [|fuel IH]; intros cl nf; cbn [change_while_loop].
    - destruct (change_has_assets_left cl); [apply hoare_fail; discriminate | apply hoare_ret_keep].
    - destruct (change_has_assets_left cl); [|apply hoare_ret_keep].
      apply hoare_pure_bind; [apply pure_pack_nfts|]. intros nfts.
      apply hoare_if; intros _; [|apply hoare_fail; discriminate].
      eapply hoare_bind; [apply change_outputs_loop_ok|]. intros r. apply IH.
  Qed.

  Lemma forallb_rev {A} (f : A -> bool) l : forallb f (rev l) = forallb f l.
  Proof.
    induction l as [|x l IH]; [reflexivity|]. cbn [rev forallb]. rewrite forallb_app, IH. cbn [forallb].
    rewrite andb_true_r. apply andb_comm.
  Qed.

  (* the top-up: the grown output is put back and then has to pass the admission test again *)
  Lemma top_up_last_ok cl : hoare J0 (fun s => all_ok e s /\ s_fee s <> None) (top_up_last orc cl) (fun _ s => all_ok e s).
  Proof.
    unfold top_up_last. apply hoare_get_bind. intros s0.
    destruct (rev (s_outputs s0)) as [|last before] eqn:R; [apply hoare_fail; discriminate|].
    apply hoare_pure_bind; [apply pure_lift|]. intros amount.
    set (last' := mkOutput (o_addr last) amount (o_extra last)).
    eapply hoare_bind with (Q := fun _ s => forallb (out_ok e) (rev before) = true /\ s_outputs s = rev before ++ [last']).
    - apply hoare_put. intros s _ [E [A F]]. subst s. split; [right; exact F|]. split; [|reflexivity].
      unfold all_ok in A. rewrite <- (rev_involutive (s_outputs s0)), R in A. cbn [rev] in A.
      rewrite forallb_app in A. apply andb_prop in A. tauto.
    - intros ?. eapply hoare_conseq; [apply output_admissible_ok | intros s _ H; exact H |].
      intros _ s _ [[B E] K]. unfold all_ok. rewrite E, forallb_app, B. cbn [forallb]. rewrite K. reflexivity.
  Qed.

  Lemma all_ok_set_final_fee v s : all_ok e s -> all_ok e (set_final_fee v s).
  Proof. intros A. exact A. Qed.

  Lemma asset_branch_ok fuel addr extra ti to fee :
    hoare J0 (all_ok e) (asset_branch orc fuel addr extra ti to fee) (fun _ s => all_ok e s).
  Proof.
    unfold asset_branch.
    apply hoare_pure_bind; [apply pure_lift|]. intros cl0.
    apply hoare_pure_bind; [apply pure_askA|]. intros minimum.
    eapply hoare_bind; [apply change_while_loop_ok|]. intros r. cbn beta.
    apply hoare_pure_bind; [apply pure_lift|]. intros cl1.
    apply hoare_get_bind. intros s1.
    apply hoare_weaken with (P := all_ok e); [intros s _ [_ A]; exact A|].
    eapply hoare_bind with (Q := fun _ s => all_ok e s).
    - destruct (c_prefer_pure_change (s_cfg s1) && (minimum <? coin cl1)); [|apply hoare_ret_keep].
      apply hoare_pure_bind; [apply pure_fee_for_output|]. intros af.
      apply hoare_pure_bind; [apply pure_lift|]. intros pot.
      destruct (minimum <? coin pot); [|apply hoare_ret_keep].
      apply hoare_pure_bind; [apply pure_lift|]. intros nf'.
      eapply hoare_bind; [apply add_output_ok|]. intros ?. apply hoare_ret_keep.
    - intros r2. cbn beta.
      eapply hoare_modify_bind with (P' := fun s => all_ok e s /\ s_fee s <> None);
        [intros s _ A; split; [right; apply set_final_fee_some | split; [apply all_ok_set_final_fee; exact A | apply set_final_fee_some]]|].
      eapply hoare_bind with (Q := fun _ s => all_ok e s).
      + destruct (value_is_zero (fst r2)); [apply hoare_ret'; intros s _ [A _]; exact A | apply top_up_last_ok].
      + intros ?. eapply hoare_bind; [apply (hoare_pure J0 (all_ok e)); apply pure_check_fee|].
        intros ?. cbn beta. apply hoare_ret_keep.
  Qed.

  Lemma burn_extra_ok amount : hoare J0 (all_ok e) (@burn_extra O amount) (fun _ s => all_ok e s).
  Proof.
    unfold burn_extra. apply hoare_get_bind. intros s0.
    apply hoare_weaken with (P := all_ok e); [intros s _ [_ A]; exact A|].
    destruct (c_do_not_burn_extra_change (s_cfg s0)); [apply hoare_fail; discriminate|].
    destruct (s_fee_request s0) as [| |f].
    - eapply hoare_modify_bind with (P' := all_ok e); [intros s _ A; split; [right; apply set_final_fee_some | exact A]|]. apply hoare_ret_keep.
    - eapply hoare_modify_bind with (P' := all_ok e); [intros s _ A; split; [right; apply set_final_fee_some | exact A]|]. apply hoare_ret_keep.
    - destruct (f <? amount); [apply hoare_fail; discriminate|].
      eapply hoare_modify_bind with (P' := all_ok e); [intros s _ A; split; [right; apply set_final_fee_some | exact A]|]. apply hoare_ret_keep.
  Qed.

  Lemma pure_branch_ok addr extra ce fee :
    hoare J0 (all_ok e) (pure_branch orc addr extra ce fee) (fun _ s => all_ok e s).
  Proof.
    unfold pure_branch.
    apply hoare_pure_bind; [apply pure_askA|]. intros m.
    destruct (coin ce <? m); [apply burn_extra_ok|].
    apply hoare_pure_bind; [apply pure_fee_for_output|]. intros f.
    apply hoare_pure_bind; [apply pure_lift|]. intros nf.
    apply hoare_pure_bind; [apply pure_lift|]. intros need.
    destruct (coin ce <? need); [apply burn_extra_ok|].
    eapply hoare_modify_bind with (P' := all_ok e); [intros s _ A; split; [right; apply set_final_fee_some | exact A]|].
    apply hoare_pure_bind; [apply pure_lift|]. intros amount.
    eapply hoare_bind; [apply add_output_ok|]. intros ?.
    eapply hoare_bind; [apply (hoare_pure J0 (all_ok e)); apply pure_check_fee|]. intros ?. cbn beta. apply hoare_ret_keep.
  Qed.

  (* add_change_if_needed on C05's model with the concrete size answers *)
  Theorem add_change_ok fuel addr extra :
    hoare J0 (all_ok e) (add_change orc fuel addr extra) (fun _ s => all_ok e s).
  Proof.
    unfold add_change. apply hoare_get_bind. intros s0.
    apply hoare_weaken with (P := all_ok e); [intros s _ [_ A]; exact A|].
    destruct (s_fee s0); [apply hoare_fail; discriminate|].
    apply hoare_pure_bind; [apply pure_min_fee_pub|]. intros fee.
    apply hoare_pure_bind; [apply pure_lift|]. intros ti.
    apply hoare_pure_bind; [apply pure_lift|]. intros to.
    apply hoare_pure_bind; [apply pure_lift|]. intros shortage.
    destruct shortage; [apply hoare_fail; discriminate|].
    apply hoare_pure_bind; [apply pure_lift|]. intros opf.
    destruct (value_partial_cmp ti opf) as [[| |]|]; try (apply hoare_fail; discriminate).
    - apply hoare_pure_bind; [apply pure_lift|]. intros d.
      eapply hoare_modify_bind with (P' := all_ok e); [intros s _ A; split; [right; apply set_final_fee_some | exact A]|]. apply hoare_ret_keep.
    - apply hoare_pure_bind; [apply pure_lift|]. intros ce.
      destruct (has_assets (multiasset_of ce)); [apply asset_branch_ok | apply pure_branch_ok].
  Qed.

  Corollary add_change_all_ok fuel addr extra s o b :
    all_ok e s -> out_res (add_change orc fuel addr extra s o) = Ok b ->
    all_ok e (out_st (add_change orc fuel addr extra s o)).
  Proof.
    intros A R. destruct (add_change_ok fuel addr extra s o (or_introl A) A) as [_ Q]. rewrite R in Q. exact Q.
  Qed.
  (* from ANY state that satisfies the invariant (in particular the state a failed attempt left behind) *)
  Lemma add_change_ok_any fuel addr extra :
    hoare J0 (fun _ => True) (add_change orc fuel addr extra) (fun _ s => all_ok e s).
  Proof.
    intros s o Js _. destruct (s_fee s) eqn:F.
    - unfold add_change, bindM, get, lift. cbn [out_res out_st out_orc]. rewrite F. cbn [out_res out_st]. split; [exact Js | exact I].
    - destruct Js as [A | B]; [|congruence]. apply add_change_ok; [left; exact A | exact A].
  Qed.

  Lemma J0_set_inputs x s : J0 s -> J0 (set_s_inputs x s).
  Proof. intros H. exact H. Qed.

  Lemma pure_askSel st utxos : pure_st (askSel orc st utxos).
  Proof. intros s o; reflexivity. Qed.

  Lemma retry_loop_ok fuel addr extra l :
    hoare J0 (fun _ => True) (retry_loop orc fuel addr extra l)
      (fun r s => match r with Some _ => all_ok e s | None => True end).
  Proof.
    induction l as [|x r IH]; cbn [retry_loop]; [apply hoare_ret'; auto|].
    unfold add_inputs at 1.
    eapply hoare_modify_bind with (P' := fun _ => True); [intros s Js _; split; [apply J0_set_inputs; exact Js | exact I]|].
    eapply hoare_bind; [apply hoare_catch, add_change_ok_any|]. intros [v|]; cbn beta.
    - apply hoare_ret'. intros s _ A. exact A.
    - eapply hoare_weaken; [|apply IH]. intros; exact I.
  Qed.

  (* add_inputs_from_and_change: the selection (an oracle answer), add_change, and the retries on further inputs *)
  Theorem add_inputs_from_and_change_ok fuel utxos addr extra :
    hoare J0 (fun _ => True) (add_inputs_from_and_change orc fuel utxos addr extra) (fun _ s => all_ok e s).
  Proof.
    unfold add_inputs_from_and_change. apply hoare_get_bind. intros s0.
    apply hoare_pure_bind; [apply pure_askSel|]. intros sel.
    unfold add_inputs at 1.
    eapply hoare_modify_bind with (P' := fun _ => True); [intros s Js _; split; [apply J0_set_inputs; exact Js | exact I]|].
    destruct (negb (snd sel)); [apply hoare_fail; discriminate|].
    apply hoare_get_bind. intros s1.
    destruct (s_fee s1); [apply hoare_fail; discriminate|].
    eapply hoare_bind.
    { apply hoare_catch. eapply hoare_weaken; [|apply add_change_ok_any]. intros; exact I. }
    intros [v|]; cbn beta.
    - apply hoare_ret'. intros s _ A. exact A.
    - apply hoare_get_bind. intros s2.
      eapply hoare_bind.
      { eapply hoare_weaken; [|apply retry_loop_ok]. intros; exact I. }
      intros [v|]; cbn beta.
      + apply hoare_ret'. intros s _ A. exact A.
      + apply hoare_fail; discriminate.
  Qed.

  (* ----------------------------------------------------------------------------------------- *)
  (* pack_nfts_for_change: which bundles it returns.
     A value FITS when its serialised size is within max_value_size at some coin (the packer tests every candidate
     at the min ADA of a fake one-policy output, a coin that is later replaced; a different coin moves the size by
     at most 8 bytes, lemma fits_any_coin).  Every bundle the packer returns is
       - empty, or
       - the bundle of a value that was TESTED and fits, or
       - the re-normalisation v + {policy: {}} of such a value / of the empty output (a policy whose very first asset
         overflowed: the output is closed as it stood),
     PROVIDED every single asset of the change fits an output of its own -- the asset that caused a split is put into
     the fresh output without a test (witness pack_untested_witness below shows the premise is needed). *)
  Definition fits (v : value) : Prop := exists c, value_too_big_c e (value_set_coin c v) = false.
  Definition out_inv (v : value) : Prop := multiasset_of v = Some ma_new \/ fits v.
  Definition empty_policy_value (p : bytes) : value :=
    value_set_multiasset (ma_insert p assets_new ma_new) (value_new 0).
  Definition bundle_ok (b : multiasset) : Prop :=
    b = ma_new \/
    (exists v, fits v /\ multiasset_of v = Some b) \/
    (exists v p v', out_inv v /\ value_checked_add v (empty_policy_value p) = Ok v' /\ multiasset_of v' = Some b).
  Definition single_fits (policy : bytes) (a : assets) : Prop :=
    forall name q, In (name, q) a ->
      value_too_big_c e (mkValue 0 (Some [(policy, [(name, q)])])) = false.

  Lemma hoare_askS_final J P v :
    hoare J P (askS orc v) (fun b s => P s /\ b = value_too_big_c e v).
  Proof.
    intros s o Js Ps. unfold askS. cbn [out_st out_res]. split; [exact Js|]. split; [exact Ps|]. apply (proj2 SE).
  Qed.

  Definition policy_value (policy : bytes) (a : assets) : value :=
    value_set_multiasset (ma_insert policy a ma_new) (value_new 0).

  Lemma will_overflow_exact (J : state -> Prop) P out cur policy name q :
    hoare J P (will_adding_asset_make_output_overflow orc out cur policy name q)
      (fun ov s => P s /\ exists ac m,
         value_checked_add out (policy_value policy (assets_insert name q cur)) = Ok ac /\
         ov = value_too_big_c e (value_set_coin m ac)).
  Proof.
    unfold will_adding_asset_make_output_overflow. apply hoare_lift_bind. intros ac Eac.
    apply hoare_pure_bind; [apply pure_askA|]. intros m.
    eapply hoare_conseq; [apply hoare_askS_final | intros s _ H; exact H |].
    intros ov s _ [Ps Eov]. split; [exact Ps|]. exists ac, m. split; [exact Eac | exact Eov].
  Qed.

  Record acc_inv (policy : bytes) (a : pack_acc) : Prop := mkAccInv {
    ai_out : out_inv (pa_output a);
    ai_old : out_inv (pa_old a);
    ai_next : pa_next a = ma_new;
    ai_reb : pa_rebuilt a = assets_new \/
             exists v', value_checked_add (pa_output a) (policy_value policy (pa_rebuilt a)) = Ok v' /\ fits v';
    ai_changes : Forall bundle_ok (pa_changes a)
  }.

  Lemma empty_output_inv : out_inv (@empty_output_amount).
  Proof. left. reflexivity. Qed.

  Lemma single_after_split policy name q :
    value_too_big_c e (mkValue 0 (Some [(policy, [(name, q)])])) = false ->
    exists v', value_checked_add empty_output_amount (policy_value policy (assets_insert name q assets_new)) = Ok v' /\ fits v'.
  Proof.
    intros H. exists (mkValue 0 (Some [(policy, [(name, q)])])). split; [reflexivity|].
    exists 0. exact H.
  Qed.

  Lemma pack_policy_assets_fits (J : state -> Prop) P policy l : forall a,
    single_fits policy l -> acc_inv policy a ->
    hoare J P (pack_policy_assets orc policy l a) (fun a' s => P s /\ acc_inv policy a').
  Proof.
    induction l as [|[name q] r IH]; intros a SF AI; cbn [pack_policy_assets].
    - apply hoare_ret'. intros s _ Ps. split; [exact Ps | exact AI].
    - eapply hoare_bind; [apply will_overflow_exact|]. intros ov. cbn beta.
      apply hoare_pre_pure with
        (phi := exists ac m, value_checked_add (pa_output a) (policy_value policy (assets_insert name q (pa_rebuilt a))) = Ok ac /\
                             ov = value_too_big_c e (value_set_coin m ac));
        [intros s _ [_ H]; exact H|]. intros (ac & m & Eac & Eov).
      apply hoare_weaken with (P := P); [intros s _ [Ps _]; exact Ps|].
      set (mid := fun a' : pack_acc =>
             out_inv (pa_output a') /\ out_inv (pa_old a') /\ pa_next a' = ma_new /\ Forall bundle_ok (pa_changes a') /\
             exists v', value_checked_add (pa_output a') (policy_value policy (assets_insert name q (pa_rebuilt a'))) = Ok v' /\ fits v').
      eapply hoare_bind with (Q := fun a' s => P s /\ mid a').
      + destruct ov.
        * (* split: close the output as it stands, start a fresh one with this asset *)
          apply hoare_lift_bind. intros out_amount Eout.
          unfold unwrap_ma. destruct (multiasset_of out_amount) as [mm|] eqn:Emm; [|apply hoare_fail; discriminate].
          match goal with |- hoare _ _ (bindM (ret ?x) ?g) _ => change (bindM (ret x) g) with (g x) end. cbn beta.
          apply hoare_ret'. intros s _ Ps. split; [exact Ps|]. unfold mid. cbn [pa_output pa_old pa_next pa_rebuilt pa_changes].
          split; [apply empty_output_inv|]. split; [apply empty_output_inv|]. split; [reflexivity|]. split.
          -- apply Forall_app. split; [exact (ai_changes _ _ AI)|]. constructor; [|constructor].
             rewrite (ai_next _ _ AI) in Eout.
             destruct (ai_reb _ _ AI) as [Er | (v' & Ev' & Fv')].
             ++ right. right. exists (pa_output a), policy, out_amount. split; [exact (ai_out _ _ AI)|].
                rewrite Er in Eout. split; [exact Eout | exact Emm].
             ++ right. left. exists out_amount. unfold policy_value in Ev'. rewrite Eout in Ev'. inversion Ev'; subst v'.
                split; [exact Fv' | exact Emm].
          -- apply single_after_split. apply SF. left. reflexivity.
        * (* no overflow: the tested value is the new candidate *)
          apply hoare_ret'. intros s _ Ps. split; [exact Ps|]. unfold mid.
          split; [exact (ai_out _ _ AI)|]. split; [exact (ai_old _ _ AI)|]. split; [exact (ai_next _ _ AI)|].
          split; [exact (ai_changes _ _ AI)|]. exists ac. split; [exact Eac|]. exists m. symmetry. exact Eov.
      + intros a'. cbn beta.
        apply hoare_pre_pure with (phi := mid a'); [intros s _ [_ H]; exact H|]. intros (M1 & M2 & M3 & M4 & M5).
        apply hoare_weaken with (P := P); [intros s _ [Ps _]; exact Ps|].
        apply IH; [intros n' q' Hin; apply SF; right; exact Hin|].
        constructor; cbn [pa_output pa_old pa_next pa_rebuilt pa_changes]; auto.
  Qed.

  Definition all_single_fit (m : multiasset) : Prop := Forall (fun pa => single_fits (fst pa) (snd pa)) m.

  Lemma pack_policies_fits (J : state -> Prop) P l : forall out changes,
    all_single_fit l -> out_inv out -> Forall bundle_ok changes ->
    hoare J P (pack_policies orc l out changes)
      (fun r s => P s /\ out_inv (fst r) /\ Forall bundle_ok (snd r)).
  Proof.
    induction l as [|[policy a] r IH]; intros out changes SF OI CH; cbn [pack_policies].
    - apply hoare_ret'. intros s _ Ps. cbn [fst snd]. auto.
    - inversion SF as [|x y SF1 SF2]; subst. cbn [fst snd] in SF1.
      eapply hoare_bind.
      + apply (pack_policy_assets_fits J P policy a (mkPack out out ma_new assets_new changes) SF1).
        constructor; cbn [pa_output pa_old pa_next pa_rebuilt pa_changes]; auto.
      + intros acc. cbn beta.
        apply hoare_pre_pure with (phi := acc_inv policy acc); [intros s _ [_ H]; exact H|]. intros AI.
        apply hoare_weaken with (P := P); [intros s _ [Ps _]; exact Ps|].
        apply hoare_lift_bind. intros out_amount Eout.
        apply hoare_pure_bind; [apply pure_askA|]. intros m.
        eapply hoare_bind; [apply hoare_askS_final|]. intros big. cbn beta.
        apply hoare_pre_pure with (phi := big = value_too_big_c e (value_set_coin m out_amount));
          [intros s _ [_ H]; exact H|]. intros Ebig.
        apply hoare_weaken with (P := P); [intros s _ [Ps _]; exact Ps|].
        destruct big.
        * apply hoare_ret'. intros s _ Ps. cbn [fst snd]. split; [exact Ps|]. split; [exact (ai_old _ _ AI) | exact (ai_changes _ _ AI)].
        * apply IH; [exact SF2 | right; exists m; symmetry; exact Ebig | exact (ai_changes _ _ AI)].
  Qed.

  Theorem pack_nfts_fits (J : state -> Prop) P ce ma :
    multiasset_of ce = Some ma -> all_single_fit ma ->
    hoare J P (pack_nfts_for_change orc ce) (fun l s => P s /\ Forall bundle_ok l).
  Proof.
    intros Ema SF. unfold pack_nfts_for_change. rewrite Ema. unfold unwrap_ma at 1.
    match goal with |- hoare _ _ (bindM (ret ?x) ?g) _ => change (bindM (ret x) g) with (g x) end. cbn beta.
    eapply hoare_bind.
    - apply (pack_policies_fits J P ma); [exact SF | left; reflexivity | constructor].
    - intros r. cbn beta.
      apply hoare_pre_pure with (phi := out_inv (fst r) /\ Forall bundle_ok (snd r)); [intros s _ [_ H]; exact H|].
      intros [OI CH]. apply hoare_weaken with (P := P); [intros s _ [Ps _]; exact Ps|].
      unfold unwrap_ma. destruct (multiasset_of (fst r)) as [last|] eqn:El; [|apply hoare_fail; discriminate].
      match goal with |- hoare _ _ (bindM (ret ?x) ?g) _ => change (bindM (ret x) g) with (g x) end. cbn beta.
      apply hoare_ret'. intros s _ Ps. split; [exact Ps|]. apply Forall_app. split; [exact CH|].
      constructor; [|constructor]. destruct OI as [E | F].
      + left. congruence.
      + right. left. exists (fst r). split; [exact F | exact El].
  Qed.

  (* a different coin moves the size of a value by at most 8 bytes *)
  Lemma fits_any_coin v c : fits v ->
    OutputSize.value_size c (shape_ma (multiasset_of v)) <= MinAda.c_max_value_size (ce_cfg e) + 8.
  Proof.
    intros [c0 H]. unfold value_too_big_c in H. cbn [value_set_coin coin multiasset_of] in H. apply N.ltb_ge in H.
    rewrite !MinAdaProofs.value_size_decomp in *.
    pose proof (head_size_bounds c). pose proof (head_size_bounds c0). lia.
  Qed.
End Instance.

(* the two theorems together on the fully concrete oracle: a successful add_change leaves a ledger-balanced
   builder (C05) all of whose outputs are within the limits on their real addresses (C07) *)
Theorem add_change_concrete e fuel addr extra s b :
  state_wf s -> all_ok e s ->
  out_res (add_change (c07_oracle e) fuel addr extra s tt) = Ok b ->
  let s' := out_st (add_change (c07_oracle e) fuel addr extra s tt) in
  all_ok e s' /\ balanced s'.
Proof.
  intros W A R s'. split.
  - apply (add_change_all_ok (c07_oracle e) e (c07_oracle_sizes_exact e) fuel addr extra s tt b A R).
  - pose proof (add_change_balances (c07_oracle e) (c07_oracle_u64 e) (s_cfg s) fuel addr extra s tt) as H.
    destruct (H (conj W eq_refl) I) as [_ Q]. fold s' in Q. unfold s' in Q. rewrite R in Q. exact Q.
Qed.

(* the premise [all_single_fit] is needed: max_value_size 40, one policy with two 32-byte names.  The first asset
   overflows at once (the output is closed empty), is put into the fresh output untested, and when the second one
   overflows too that output -- 69 bytes at any coin -- is returned *)
Definition w_env : cenv :=
  mkCEnv (MinAda.mkCfg 4310 40 16384) (fun _ => 57) (fun _ => (OutputSize.DNone, None)) 44 155381 1 [] None None None.
Definition w_change : value :=
  mkValue 5000000 (Some [(repeat 7 28, [(repeat 1 32, 1); (repeat 2 32, 1)])]).
Theorem pack_untested_witness :
  exists l b,
    out_res (pack_nfts_for_change (c07_oracle w_env) w_change (new_state (mkConfig 0 0 false false)) tt) = Ok l /\
    In b l /\
    forall c, MinAda.c_max_value_size (ce_cfg w_env) < OutputSize.value_size c (shape_ma (Some b)).
Proof.
  eexists. exists [(repeat 7 28, [(repeat 1 32, 1)])]. split; [vm_compute; reflexivity|]. split.
  - right. left. reflexivity.
  - intros c. rewrite MinAdaProofs.value_size_decomp. pose proof (head_size_bounds c).
    change (MinAda.c_max_value_size (ce_cfg w_env)) with 40.
    change (OutputSize.value_base (shape_ma (Some [(repeat 7 28, [(repeat 1 32, 1)])]))) with 68. lia.
Qed.
