(* Tie between the hand-written size model (OutputSize.v) and the schema-directed encoder of check C01
   (Codec/Schema.v [enc], Ledger/Schemas.v [TransactionOutput]), which C01 proves to round-trip and ties
   to the Rust serializer by its own differential run:

     out_size (shape of o) = length (enc (TransactionOutput d) (value of o))

   for every concrete output o (address bytes, coin, bundle with 28-byte policy ids and arbitrary names,
   no datum / 32-byte datum hash / inline datum given as any value of the PlutusData schema, no script /
   native script given as any value of the NativeScript schema / Plutus script bytes of the three
   languages).  The lone-datum-hash form is the schema TransactionOutputLegacyDH, as in the Rust writer. *)
From CSL Require Import Base.Prelude Cbor.Head Cbor.HeadProofs Codec.Schema Ledger.Schemas MinAda.OutputSize.
Local Open Scope N_scope.

Definition cassets := list (bytes * N).                 (* asset name, quantity *)
Definition cma := list (bytes * cassets).               (* policy id, assets *)
Inductive cdatum := CDNone | CDHash (h : bytes) | CDInline (v : val).
Inductive csref := CSNative (v : val) | CSPlutus (lang : nat) (b : bytes).   (* lang 0,1,2 = Plutus V1,V2,V3 *)
Record coutput := mkCOut { co_addr : bytes; co_coin : N; co_ma : cma; co_datum : cdatum; co_sref : option csref }.

Definition len (b : bytes) : N := N.of_nat (length b).

Section Tie.
Variable d : nat.    (* unrolling depth of the recursive schemas; the tie holds for every depth *)

(* the size-only view of a concrete output *)
Definition shape_ma (ma : cma) : multiasset := map (fun p => map (fun a => (len (fst a), snd a)) (snd p)) ma.
Definition shape_datum (x : cdatum) : datum :=
  match x with CDNone => DNone | CDHash _ => DHash | CDInline v => DInline (len (enc (PlutusData d) v)) end.
Definition shape_sref (x : csref) : sref :=
  match x with
  | CSNative v => SRNative (len (enc (NativeScript d) v))
  | CSPlutus _ b => SRPlutus (len b)
  end.
Definition shape (o : coutput) : output :=
  mkOut (len (co_addr o)) (co_coin o) (shape_ma (co_ma o)) (shape_datum (co_datum o)) (option_map shape_sref (co_sref o)).

(* the value universe of the schema interpreter *)
Definition val_assets (a : cassets) : val := VMap (map (fun x => (VBytes (fst x), VNat (snd x))) a).
Definition val_ma (ma : cma) : val := VMap (map (fun p => (VBytes (fst p), val_assets (snd p))) ma).
Definition val_value (coin : N) (ma : cma) : val :=
  if ma_present (shape_ma ma) then VAlt 1 (VList [VNat coin; val_ma ma]) else VAlt 0 (VNat coin).
Definition val_datum (x : cdatum) : option val :=
  match x with CDNone => None | CDHash h => Some (VVar 0 [VBytes h]) | CDInline v => Some (VVar 1 [v]) end.
Definition val_sref (x : csref) : val :=
  match x with CSNative v => VVar 0 [v] | CSPlutus lang b => VVar (S lang) [VBytes b] end.

(* the value of the TransactionOutput schema: map form, or the array form (SArrOpt) without / with the
   trailing data hash (the optional item comes first in the value list of the second alternative) *)
Definition val_output (o : coutput) : val :=
  if map_form (shape o) then
    VAlt 1 (VStruct [Some (VBytes (co_addr o)); Some (val_value (co_coin o) (co_ma o));
                     val_datum (co_datum o); option_map val_sref (co_sref o)])
  else
    match co_datum o with
    | CDHash h => VAlt 0 (VAlt 1 (VList [VBytes h; VBytes (co_addr o); val_value (co_coin o) (co_ma o)]))
    | _ => VAlt 0 (VAlt 0 (VList [VBytes (co_addr o); val_value (co_coin o) (co_ma o)]))
    end.
Definition enc_output (o : coutput) : bytes := enc (TransactionOutput d) (val_output o).

(* the same bytes through the stand-alone schemas of the two array forms *)
Definition enc_output_standalone (o : coutput) : bytes :=
  if map_form (shape o) then enc_output o
  else
    match co_datum o with
    | CDHash h => enc TransactionOutputLegacyDH (VList [VBytes (co_addr o); val_value (co_coin o) (co_ma o); VBytes h])
    | _ => enc TransactionOutputLegacy (VList [VBytes (co_addr o); val_value (co_coin o) (co_ma o)])
    end.

(* ---- lengths ---- *)
Lemma len_app a b : len (a ++ b) = len a + len b.
Proof. unfold len. rewrite app_length. lia. Qed.
Lemma len_cons x b : len (x :: b) = 1 + len b.
Proof. unfold len. cbn [length]. lia. Qed.
Lemma len_nil : len [] = 0.
Proof. reflexivity. Qed.
Lemma len_head m n : len (encode_head m n) = head_size n.
Proof. apply head_length. Qed.
Lemma len_concat_map {A} (f : A -> bytes) (l : list A) :
  len (concat (map f l)) = sumN (map (fun x => len (f x)) l).
Proof.
  induction l as [|x l IH]; [reflexivity|]. cbn [map concat sumN fold_right]. rewrite len_app, IH. reflexivity.
Qed.
Lemma lenN_map {A B} (f : A -> B) (l : list A) : lenN (map f l) = lenN l.
Proof. unfold lenN. rewrite map_length. reflexivity. Qed.
Lemma sumN_ext {A} (f g : A -> N) (l : list A) : (forall x, f x = g x) -> sumN (map f l) = sumN (map g l).
Proof. intros H. induction l as [|x l IH]; [reflexivity|]. cbn [map sumN fold_right]. rewrite H. unfold sumN in IH. rewrite IH. reflexivity. Qed.

Lemma len_assets (a : cassets) :
  len (enc Assets (val_assets a)) = assets_size (map (fun x => (len (fst x), snd x)) a).
Proof.
  unfold Assets, val_assets, AssetNameS, Coin, U64. cbn [enc]. rewrite len_app, len_head, len_concat_map.
  unfold assets_size. rewrite !map_length, lenN_map. unfold lenN. f_equal.
  rewrite map_map, map_map. apply sumN_ext. intros [n q]. cbn [fst snd enc].
  rewrite !len_app, !len_head. unfold asset_size, bytes_size. cbn [fst snd]. unfold len. lia.
Qed.

Definition ids28 (ma : cma) : Prop := Forall (fun p => len (fst p) = 28) ma.

Lemma len_ma (ma : cma) : ids28 ma ->
  len (enc MultiAsset (val_ma ma)) = ma_size (shape_ma ma).
Proof.
  intros I. unfold MultiAsset, val_ma, H28. cbn [enc]. fold Assets. rewrite len_app, len_head, len_concat_map.
  unfold ma_size, shape_ma. rewrite !map_length, lenN_map. unfold lenN. f_equal.
  rewrite map_map, map_map.
  induction I as [|[pid a] l Hp _ IH]; [reflexivity|]. cbn [map sumN fold_right]. unfold sumN in IH. rewrite IH. f_equal.
  cbn [fst snd enc]. rewrite !len_app, len_head, len_assets. cbn [fst] in Hp.
  unfold policy_size, bytes_size. fold (len pid). rewrite Hp. reflexivity.
Qed.

Lemma len_value coin ma : ids28 ma ->
  len (enc Value (val_value coin ma)) = value_size coin (shape_ma ma).
Proof.
  intros I. unfold val_value, value_size.
  destruct (ma_present (shape_ma ma)).
  - unfold Value, choice, arr, Coin, U64. cbn [cl sl enc enc_cl enc_sl slen app]. fold MultiAsset.
    rewrite !len_app, !len_head, len_ma by exact I. rewrite len_nil. change (head_size (1 + (1 + 0))) with 1. lia.
  - unfold Value, choice, arr, Coin, U64. cbn [cl sl enc enc_cl app]. apply len_head.
Qed.

Definition hash_ok (x : cdatum) : Prop := match x with CDHash h => len h = 32 | _ => True end.
Definition lang_ok (x : option csref) : Prop := match x with Some (CSPlutus l _) => (l < 3)%nat | _ => True end.

Ltac fold_len := repeat match goal with |- context [N.of_nat (length ?x)] => change (N.of_nat (length x)) with (len x) end.
Ltac lens := repeat (rewrite ?len_app, ?len_cons, ?len_head, ?len_nil).
(* closed arguments of head_size (array / map lengths, keys, tags): literals and sums of literals are evaluated *)
Ltac is_lit n := lazymatch n with N0 => idtac | Npos _ => idtac | ?a + ?b => is_lit a; is_lit b end.
Ltac closed_heads :=
  repeat match goal with |- context [head_size ?n] =>
    is_lit n; let r := eval vm_compute in (head_size n) in change (head_size n) with r
  end.

Theorem out_size_is_schema_length (o : coutput) :
  ids28 (co_ma o) -> hash_ok (co_datum o) -> lang_ok (co_sref o) ->
  len (enc_output o) = out_size (shape o).
Proof.
  intros I Hh Hl.
  destruct o as [addr coin ma dat sr]. cbn [co_addr co_coin co_ma co_datum co_sref] in *.
  pose proof (len_value coin ma I) as LV.
  destruct dat as [|h|v]; destruct sr as [[nv|lang pb]|];
    try (destruct lang as [|[|[|lang]]]; [| | | cbn in Hl; lia]);
    unfold enc_output, val_output, out_size, out_value_size, shape, map_form;
    cbn [co_addr co_coin co_ma co_datum co_sref o_addr o_coin o_ma o_datum o_sref
         shape_datum is_inline option_map is_some orb shape_sref val_datum val_sref];
    unfold TransactionOutput, TransactionOutputArr, TransactionOutputMap, DataOption, ScriptRef,
           AddressS, H32, PlutusScriptBytes, choice, arr, mapS, var;
    cbn [cl sl kl al enc enc_cl enc_sl enc_kl enc_vl count_kl present is_empty_val slen klen app negb];
    fold Value; unfold enc_uint;
    fold_len; lens; fold_len; lens;
    rewrite ?LV; cbn [hash_ok] in Hh; rewrite ?Hh;
    unfold data_option_size, sref_size, sref_inner, bytes_size;
    closed_heads; rewrite ?N.add_0_r, ?N.add_assoc; lia.
Qed.

(* the array forms inside TransactionOutput (SArrOpt) are byte for byte the stand-alone schemas
   TransactionOutputLegacy / TransactionOutputLegacyDH *)
Theorem enc_output_standalone_eq (o : coutput) : enc_output o = enc_output_standalone o.
Proof.
  unfold enc_output_standalone, enc_output, val_output.
  destruct (map_form (shape o)); [reflexivity|].
  destruct (co_datum o) as [|h|v];
    unfold TransactionOutput, TransactionOutputArr, TransactionOutputLegacy, TransactionOutputLegacyDH, choice, arr;
    cbn [cl sl enc enc_cl enc_sl slen app]; rewrite ?app_nil_r, <- ?app_assoc; reflexivity.
Qed.

Corollary out_size_is_standalone_schema_length (o : coutput) :
  ids28 (co_ma o) -> hash_ok (co_datum o) -> lang_ok (co_sref o) ->
  len (enc_output_standalone o) = out_size (shape o).
Proof. intros. rewrite <- enc_output_standalone_eq. apply out_size_is_schema_length; assumption. Qed.
End Tie.
