(* Minimum-ADA calculator and the size / min-ADA guards of the transaction builder.
   Model definitions only (executable, extracted); proofs in MinAdaProofs.v.

   Modelled Rust (rust/src):
     utils.rs:787-793   MinOutputAdaCalculator::calc_size_cost      (size + 160) * coins_per_byte, checked u64
     utils.rs:795-802   calc_required_coin                          calc_size_cost of output.to_bytes().len()
     utils.rs:767-779   calculate_ada                               3 rounds, then the u64::MAX-width fallback
     utils.rs:781-785   create_fake_output (new_empty)              57-byte base address, 1_000_000 lovelace
     utils.rs:819-824   min_ada_for_output
     builders/tx_builder.rs  add_output (value size, min ADA), set_collateral_return_and_total,
                        set_total_collateral_and_return, build (max_tx_size guard)
     builders/output_builder.rs  with_asset_and_min_required_coin_by_utxo_cost
   The change paths are in Change.v. *)
From CSL Require Import Base.Prelude Base.U64 Cbor.Head MinAda.OutputSize.
Local Open Scope N_scope.

Definition u64_max : N := 18446744073709551615.

(* BigNum(size as u64).checked_add(160)?.checked_mul(coins_per_byte) *)
Definition calc_size_cost (cpb size : N) : result N :=
  let* s := checked_add size 160 in checked_mul s cpb.

(* ---- the calculator over (base, coin): the only thing it sees of an output is
        size = base + head_size coin (lemma out_size_decomp) ---- *)
Definition required (cpb base coin : N) : result N := calc_size_cost cpb (base + head_size coin).

(* for _ in 0..n { r = required(coin); if coin < r { coin = r } else { return Ok(r) } }
   coin = u64::MAX; required(coin) *)
Fixpoint rounds (n : nat) (cpb base coin : N) : result N :=
  match n with
  | O => required cpb base u64_max
  | S n' =>
      let* r := required cpb base coin in
      if coin <? r then rounds n' cpb base r else Ok r
  end.
Definition calculate_ada_abs (cpb base coin : N) : result N := rounds 3 cpb base coin.

(* ---- the same on outputs, written as the Rust code is (clone, overwrite the coin, re-serialise) ---- *)
Definition calc_required_coin (cpb : N) (o : output) : result N := calc_size_cost cpb (out_size o).

Fixpoint calc_rounds (n : nat) (cpb : N) (o : output) : result N :=
  match n with
  | O => calc_required_coin cpb (set_coin o u64_max)
  | S n' =>
      let* r := calc_required_coin cpb o in
      if o_coin o <? r then calc_rounds n' cpb (set_coin o r) else Ok r
  end.
Definition calculate_ada (cpb : N) (o : output) : result N := calc_rounds 3 cpb o.
Definition min_ada_for_output (cpb : N) (o : output) : result N := calculate_ada cpb o.

(* ---- the property's inequality ---- *)
(* coin >= coins_per_byte * (160 + serialized size); in N, no overflow *)
Definition meets_min (cpb : N) (o : output) : bool := cpb * (160 + out_size o) <=? o_coin o.
Definition meets_min_abs (cpb base coin : N) : bool := cpb * (160 + (base + head_size coin)) <=? coin.

(* ---- builder configuration and guards ---- *)
Record config := mkCfg {
  c_cpb : N;               (* coins_per_utxo_byte *)
  c_max_value_size : N;    (* u32 in the code *)
  c_max_tx_size : N        (* u32 in the code *)
}.

Definition output_ok (cfg : config) (o : output) : bool :=
  meets_min (c_cpb cfg) o && (out_value_size o <=? c_max_value_size cfg).

(* the two checks of add_output (tx_builder.rs: value size first, then min ADA; an overflow inside the
   min-ADA computation is an error as well) *)
Definition check_max_value_size (cfg : config) (o : output) : result unit :=
  if c_max_value_size cfg <? out_value_size o then Err else Ok tt.
Definition check_output_limits (cfg : config) (o : output) : result unit :=
  let* _ := check_max_value_size cfg o in
  let* m := min_ada_for_output (c_cpb cfg) o in
  if o_coin o <? m then Err else Ok tt.

(* Value::has_empty_entries on this file's abstract multiasset (policy = its (name length, quantity) pairs) *)
Definition ma_has_empty_entries (ma : multiasset) : bool :=
  existsb (fun p : policy => match p with [] => true | _ => existsb (fun a : asset => snd a =? 0) p end) ma.

(* add_output first refuses a value holding a zero quantity or an asset-less policy (as Num/ValueNorm.v; since the /repo fix
   "the builder drops zero quantities and asset-less policies of the amounts it is given") *)
Definition add_output (cfg : config) (outs : list output) (o : output) : result (list output) :=
  if ma_has_empty_entries (o_ma o) then Err
  else let* _ := check_output_limits cfg o in Ok (outs ++ [o]).

(* a sequence of requested outputs *)
Fixpoint add_outputs (cfg : config) (outs : list output) (req : list output) : result (list output) :=
  match req with
  | [] => Ok outs
  | o :: r => let* outs1 := add_output cfg outs o in add_outputs cfg outs1 r
  end.

(* build(): the fake full transaction (body + mock witnesses + auxiliary data) is measured and compared
   with max_tx_size.  Its size is an input here (it is the implementation's own full_size()). *)
Definition build_guard (cfg : config) (full_tx_size : N) : result unit :=
  if c_max_tx_size cfg <? full_tx_size then Err else Ok tt.

(* ---- MinOutputAdaCalculator::new_empty: the fake output the helper calculators start from ---- *)
Definition fake_addr_len : N := 57.
Definition fake_output : output := mkOut fake_addr_len 1000000 [] DNone None.

(* calculator object after new_empty + optional set_address / set_amount / set_data_hash|set_plutus_data /
   set_script_ref *)
Definition calc_output (addr : option N) (amount : option (N * multiasset)) (d : datum) (s : option sref) : output :=
  mkOut (match addr with Some a => a | None => fake_addr_len end)
        (match amount with Some (c, _) => c | None => o_coin fake_output end)
        (match amount with Some (_, ma) => ma | None => [] end)
        d s.

(* ---- output_builder.rs: with_asset_and_min_required_coin_by_utxo_cost ----
   Two calculators on the FAKE 57-byte address: the first prices an ADA-only output with the datum / script
   reference, the second the bundle carrying that coin.  [repaired = true] (the code after the repair):
   the result is raised to the minimum of the real output (the builder's own address);
   [false]: the second calculator's figure is used as it is. *)
Definition helper_required_coin_gen (repaired : bool) (cpb addr : N) (ma : multiasset) (d : datum) (s : option sref)
  : result N :=
  let* c1 := calculate_ada cpb (calc_output None None d s) in
  let* c2 := calculate_ada cpb (calc_output None (Some (c1, ma)) d s) in
  if repaired then
    let* m := min_ada_for_output cpb (mkOut addr c2 ma d s) in Ok (N.max c2 m)
  else Ok c2.
Definition helper_output_gen (repaired : bool) (cpb addr : N) (ma : multiasset) (d : datum) (s : option sref)
  : result output :=
  let* c := helper_required_coin_gen repaired cpb addr ma d s in
  Ok (mkOut addr c ma d s).

(* ---- collateral return ----
   set_collateral_return_and_total(return) and set_total_collateral_and_return(total, address) both end
   in the same test on the return output: min ADA, and (repaired code) the value size.
   [check_vs = false] is the code before the repair.  The arithmetic that produces the return value
   (inputs - total) belongs to C19 and is not modelled: the output is an input here. *)
Definition collateral_return_guard_gen (check_vs : bool) (cfg : config) (ret : output) : result unit :=
  let* _ := (if check_vs then check_max_value_size cfg ret else Ok tt) in
  let* m := min_ada_for_output (c_cpb cfg) ret in
  if o_coin ret <? m then Err else Ok tt.

(* ---- switches: the state of /repo (flipped when a repair lands there; every theorem is proved
        for the repaired value, every *_refuted lemma speaks about the unrepaired one) ---- *)
Definition helper_repaired : bool := true.
Definition collateral_checks_value_size : bool := true.

Definition helper_required_coin := helper_required_coin_gen helper_repaired.
Definition helper_output := helper_output_gen helper_repaired.
Definition collateral_return_guard := collateral_return_guard_gen collateral_checks_value_size.
