(* Proofs about the min-ADA calculator and the builder guards (models in OutputSize.v / MinAda.v). *)
From CSL Require Import Base.Prelude Base.U64 Cbor.Head Cbor.HeadProofs MinAda.OutputSize MinAda.MinAda.
Local Open Scope N_scope.

(* ------------------------------------------------------------------------------------------ *)
(* size algebra: the coin enters the size of an output only through the head of its own encoding *)

Lemma head_size_0 : head_size 0 = 1.
Proof. reflexivity. Qed.

Lemma head_size_u64_max : head_size u64_max = 9.
Proof. reflexivity. Qed.

Lemma head_size_le9 n : head_size n <= 9.
Proof. apply head_size_bounds. Qed.

Lemma map_form_set_coin o c : map_form (set_coin o c) = map_form o.
Proof. reflexivity. Qed.

Lemma value_size_decomp c ma : value_size c ma = value_base ma + head_size c.
Proof.
  unfold value_base, value_size. rewrite head_size_0.
  pose proof (head_size_bounds c). destruct (ma_present ma); lia.
Qed.

Theorem out_size_decomp o : out_size o = out_base o + head_size (o_coin o).
Proof.
  unfold out_base, out_size, out_value_size. rewrite map_form_set_coin.
  cbn [set_coin o_coin o_ma o_addr o_datum o_sref].
  rewrite (value_size_decomp (o_coin o)), (value_size_decomp 0), head_size_0.
  destruct (map_form o); lia.
Qed.

Lemma out_base_set_coin o c : out_base (set_coin o c) = out_base o.
Proof. reflexivity. Qed.

Lemma out_size_set_coin o c : out_size (set_coin o c) = out_base o + head_size c.
Proof. rewrite out_size_decomp, out_base_set_coin. reflexivity. Qed.

Lemma out_value_size_decomp o : out_value_size o = value_base (o_ma o) + head_size (o_coin o).
Proof. apply value_size_decomp. Qed.

(* the size grows (weakly) with the coin, by at most 8 bytes over all coins *)
Lemma out_size_mono o c1 c2 : c1 <= c2 -> out_size (set_coin o c1) <= out_size (set_coin o c2).
Proof. intros H. rewrite !out_size_set_coin. pose proof (head_size_mono _ _ H). lia. Qed.

Lemma out_size_widest o : out_size o <= out_base o + 9.
Proof. rewrite out_size_decomp. pose proof (head_size_le9 (o_coin o)). lia. Qed.

(* ------------------------------------------------------------------------------------------ *)
(* the cost function *)

Definition cost (cpb size : N) : N := (size + 160) * cpb.

Lemma calc_size_cost_ok cpb size r : calc_size_cost cpb size = Ok r -> r = cost cpb size /\ r < two64.
Proof.
  unfold calc_size_cost, checked_add, checked_mul, cost, bind.
  destruct (size + 160 <? two64) eqn:A; [|discriminate].
  destruct ((size + 160) * cpb <? two64) eqn:B; [|discriminate].
  intros H; inversion H; subst. split; [reflexivity | lia].
Qed.

Lemma calc_size_cost_cases cpb size :
  (calc_size_cost cpb size = Ok (cost cpb size) /\ size + 160 < two64 /\ cost cpb size < two64) \/
  (calc_size_cost cpb size = Err /\ (two64 <= size + 160 \/ two64 <= cost cpb size)).
Proof.
  unfold calc_size_cost, checked_add, checked_mul, cost, bind.
  destruct (size + 160 <? two64) eqn:A.
  - destruct ((size + 160) * cpb <? two64) eqn:B; [left | right]; repeat split; try reflexivity; lia.
  - right. split; [reflexivity | lia].
Qed.

Lemma cost_mono cpb s1 s2 : s1 <= s2 -> cost cpb s1 <= cost cpb s2.
Proof. intros H. unfold cost. apply N.mul_le_mono_r. lia. Qed.

Lemma cost_meets cpb base coin : meets_min_abs cpb base coin = true <-> cost cpb (base + head_size coin) <= coin.
Proof.
  unfold meets_min_abs, cost.
  replace (cpb * (160 + (base + head_size coin))) with ((base + head_size coin + 160) * cpb) by lia.
  rewrite N.leb_le. reflexivity.
Qed.

Lemma required_ok cpb base coin r : required cpb base coin = Ok r -> r = cost cpb (base + head_size coin).
Proof. intros H. apply calc_size_cost_ok in H. tauto. Qed.

(* ------------------------------------------------------------------------------------------ *)
(* the fixed-point iteration, for ANY number of rounds (the code uses 3) *)

(* every value the calculator returns prices the output at some width, and dominates the price at the
   width of the coin it started from *)
Lemma rounds_ge n : forall cpb base coin c,
  rounds n cpb base coin = Ok c -> cost cpb (base + head_size coin) <= c.
Proof.
  induction n as [|n IH]; intros cpb base coin c H; cbn [rounds] in H.
  - apply required_ok in H. subst c. rewrite head_size_u64_max.
    apply cost_mono. pose proof (head_size_le9 coin). lia.
  - destruct (required cpb base coin) as [r| | |] eqn:R; cbn [bind] in H; try discriminate.
    apply required_ok in R.
    destruct (coin <? r) eqn:L.
    + apply IH in H. apply N.ltb_lt in L.
      assert (M : head_size coin <= head_size r) by (apply head_size_mono; lia).
      pose proof (cost_mono cpb (base + head_size coin) (base + head_size r)). lia.
    + inversion H; subst. lia.
Qed.

Theorem rounds_sound n : forall cpb base coin c,
  rounds n cpb base coin = Ok c -> meets_min_abs cpb base (N.max c coin) = true.
Proof.
  induction n as [|n IH]; intros cpb base coin c H; apply cost_meets; cbn [rounds] in H.
  - apply required_ok in H. rewrite head_size_u64_max in H.
    pose proof (head_size_le9 (N.max c coin)).
    pose proof (cost_mono cpb (base + head_size (N.max c coin)) (base + 9)). lia.
  - destruct (required cpb base coin) as [r| | |] eqn:R; cbn [bind] in H; try discriminate.
    apply required_ok in R.
    destruct (coin <? r) eqn:L.
    + apply N.ltb_lt in L.
      pose proof (rounds_ge _ _ _ _ _ H) as G.
      assert (M : head_size coin <= head_size r) by (apply head_size_mono; lia).
      pose proof (cost_mono cpb (base + head_size coin) (base + head_size r)).
      apply IH in H. apply cost_meets in H.
      replace (N.max c coin) with (N.max c r) by lia. exact H.
    + inversion H; subst c. apply N.ltb_ge in L.
      replace (N.max r coin) with coin by lia. lia.
Qed.

Theorem rounds_upper n : forall cpb base coin c,
  rounds n cpb base coin = Ok c -> c <= cost cpb (base + 9).
Proof.
  induction n as [|n IH]; intros cpb base coin c H; cbn [rounds] in H.
  - apply required_ok in H. rewrite head_size_u64_max in H. lia.
  - destruct (required cpb base coin) as [r| | |] eqn:R; cbn [bind] in H; try discriminate.
    apply required_ok in R.
    destruct (coin <? r).
    + eapply IH; eauto.
    + inversion H; subst c. subst r. apply cost_mono. pose proof (head_size_le9 coin). lia.
Qed.

(* the result is in the u64 range and is the price at one of the five widths *)
Lemma rounds_range n : forall cpb base coin c, rounds n cpb base coin = Ok c -> c < two64.
Proof.
  induction n as [|n IH]; intros cpb base coin c H; cbn [rounds] in H.
  - apply calc_size_cost_ok in H. tauto.
  - destruct (required cpb base coin) as [r| | |] eqn:R; cbn [bind] in H; try discriminate.
    destruct (coin <? r); [eauto|]. inversion H; subst. apply calc_size_cost_ok in R. tauto.
Qed.

Lemma rounds_is_price n : forall cpb base coin c,
  rounds n cpb base coin = Ok c -> exists w, 1 <= w <= 9 /\ c = cost cpb (base + w).
Proof.
  induction n as [|n IH]; intros cpb base coin c H; cbn [rounds] in H.
  - apply required_ok in H. rewrite head_size_u64_max in H. exists 9. split; [lia | exact H].
  - destruct (required cpb base coin) as [r| | |] eqn:R; cbn [bind] in H; try discriminate.
    destruct (coin <? r); [eauto|]. inversion H; subst. apply required_ok in R.
    exists (head_size coin). split; [apply head_size_bounds | exact R].
Qed.

(* the result is the LEAST admissible coin at or above the starting coin, unless the fallback price is returned *)
Theorem rounds_least n : forall cpb base coin c,
  rounds n cpb base coin = Ok c ->
  c = cost cpb (base + 9) \/
  (forall x, coin <= x -> meets_min_abs cpb base x = true -> c <= x).
Proof.
  induction n as [|n IH]; intros cpb base coin c H; cbn [rounds] in H.
  - left. apply required_ok in H. rewrite head_size_u64_max in H. exact H.
  - destruct (required cpb base coin) as [r| | |] eqn:R; cbn [bind] in H; try discriminate.
    apply required_ok in R.
    assert (K : forall x, coin <= x -> meets_min_abs cpb base x = true -> r <= x).
    { intros x Hx M. apply cost_meets in M.
      assert (head_size coin <= head_size x) by (apply head_size_mono; lia).
      pose proof (cost_mono cpb (base + head_size coin) (base + head_size x)). lia. }
    destruct (coin <? r) eqn:L.
    + destruct (IH _ _ _ _ H) as [E | Lst]; [left; exact E | right].
      intros x Hx M. apply Lst; [apply K; assumption | exact M].
    + right. inversion H; subst c. exact K.
Qed.

(* errors: never a panic, never out of fuel; an error is reported only when the widest price does not
   fit in 64 bits (or the size itself does not), and then the result can indeed not be represented *)
Lemma rounds_total n : forall cpb base coin,
  rounds n cpb base coin <> Panic /\ rounds n cpb base coin <> OutOfFuel.
Proof.
  induction n as [|n IH]; intros cpb base coin; cbn [rounds].
  - unfold required. destruct (calc_size_cost_cases cpb (base + head_size u64_max)) as [[E _] | [E _]];
      rewrite E; split; discriminate.
  - unfold required. destruct (calc_size_cost_cases cpb (base + head_size coin)) as [[E _] | [E _]];
      rewrite E; cbn [bind]; [|split; discriminate].
    destruct (coin <? _); [apply IH | split; discriminate].
Qed.

Theorem rounds_err n : forall cpb base coin,
  rounds n cpb base coin = Err -> two64 <= base + 9 + 160 \/ two64 <= cost cpb (base + 9).
Proof.
  induction n as [|n IH]; intros cpb base coin H; cbn [rounds] in H.
  - unfold required in H. rewrite head_size_u64_max in H.
    destruct (calc_size_cost_cases cpb (base + 9)) as [[E _] | [_ B]]; [congruence | exact B].
  - unfold required in H.
    destruct (calc_size_cost_cases cpb (base + head_size coin)) as [[E _] | [_ B]].
    + rewrite E in H; cbn [bind] in H. destruct (coin <? _); [eauto | discriminate].
    + pose proof (head_size_le9 coin).
      pose proof (cost_mono cpb (base + head_size coin) (base + 9)). lia.
Qed.

Theorem rounds_ok n : forall cpb base coin,
  base + 9 + 160 < two64 -> cost cpb (base + 9) < two64 -> exists c, rounds n cpb base coin = Ok c.
Proof.
  intros cpb base coin A B.
  destruct (rounds n cpb base coin) as [c| | |] eqn:E.
  - eauto.
  - apply rounds_err in E. lia.
  - exfalso. exact (proj1 (rounds_total n cpb base coin) E).
  - exfalso. exact (proj2 (rounds_total n cpb base coin) E).
Qed.

(* the code's three rounds never need the fallback when they reach a fixed point; the fallback itself may
   over-estimate: base 94, 1 lovelace per byte, coin 0 walks 255 -> 256 -> 257 (widths 2, 3, 3) and then
   returns the 9-byte price 263 although 257 is admissible *)
Lemma fallback_overestimates :
  calculate_ada_abs 1 94 0 = Ok 263 /\ meets_min_abs 1 94 257 = true /\ 257 < 263.
Proof. vm_compute. repeat split; reflexivity. Qed.

(* ------------------------------------------------------------------------------------------ *)
(* transfer to outputs *)

Lemma calc_required_coin_abs cpb o : calc_required_coin cpb o = required cpb (out_base o) (o_coin o).
Proof. unfold calc_required_coin, required. rewrite out_size_decomp. reflexivity. Qed.

Lemma calc_rounds_abs n : forall cpb o, calc_rounds n cpb o = rounds n cpb (out_base o) (o_coin o).
Proof.
  induction n as [|n IH]; intros cpb o; cbn [calc_rounds rounds].
  - rewrite calc_required_coin_abs, out_base_set_coin. reflexivity.
  - rewrite calc_required_coin_abs.
    destruct (required cpb (out_base o) (o_coin o)) as [r| | |]; cbn [bind]; try reflexivity.
    destruct (o_coin o <? r); [|reflexivity]. rewrite IH, out_base_set_coin. reflexivity.
Qed.

Lemma calculate_ada_abs_eq cpb o : calculate_ada cpb o = calculate_ada_abs cpb (out_base o) (o_coin o).
Proof. apply calc_rounds_abs. Qed.

Lemma meets_min_abs_eq cpb o : meets_min cpb o = meets_min_abs cpb (out_base o) (o_coin o).
Proof. unfold meets_min, meets_min_abs. rewrite out_size_decomp. reflexivity. Qed.

Theorem min_ada_sound cpb o c :
  min_ada_for_output cpb o = Ok c -> meets_min cpb (set_coin o (N.max c (o_coin o))) = true.
Proof.
  unfold min_ada_for_output. rewrite calculate_ada_abs_eq. intros H.
  rewrite meets_min_abs_eq, out_base_set_coin. cbn [set_coin o_coin].
  eapply rounds_sound; eauto.
Qed.

Theorem min_ada_upper cpb o c :
  min_ada_for_output cpb o = Ok c -> c <= cpb * (160 + out_size (set_coin o u64_max)).
Proof.
  unfold min_ada_for_output. rewrite calculate_ada_abs_eq. intros H.
  apply rounds_upper in H. rewrite out_size_set_coin, head_size_u64_max. unfold cost in H. lia.
Qed.

(* an output whose coin is at least the computed minimum meets the bound as it is *)
Lemma admitted_meets_min cpb o m :
  min_ada_for_output cpb o = Ok m -> m <= o_coin o -> meets_min cpb o = true.
Proof.
  intros H L. pose proof (min_ada_sound _ _ _ H) as S.
  replace (N.max m (o_coin o)) with (o_coin o) in S by lia.
  destruct o; exact S.
Qed.

(* and conversely the computed minimum never rejects an output that meets the bound: the first round
   already stops (completeness of the admission test) *)
Lemma meets_min_admitted cpb o m :
  min_ada_for_output cpb o = Ok m -> meets_min cpb o = true -> m <= o_coin o.
Proof.
  unfold min_ada_for_output. rewrite calculate_ada_abs_eq, meets_min_abs_eq. unfold calculate_ada_abs.
  cbn [rounds]. intros H M. apply cost_meets in M.
  destruct (required cpb (out_base o) (o_coin o)) as [r| | |] eqn:R; cbn [bind] in H; try discriminate.
  apply required_ok in R.
  destruct (o_coin o <? r) eqn:L; [apply N.ltb_lt in L; lia|]. inversion H; subst. lia.
Qed.

(* ------------------------------------------------------------------------------------------ *)
(* admission guards *)

Lemma check_output_limits_ok cfg o :
  check_output_limits cfg o = Ok tt -> output_ok cfg o = true.
Proof.
  unfold check_output_limits, check_max_value_size, output_ok.
  destruct (c_max_value_size cfg <? out_value_size o) eqn:V; cbn [bind]; [discriminate|].
  destruct (min_ada_for_output (c_cpb cfg) o) as [m| | |] eqn:M; cbn [bind]; try discriminate.
  destruct (o_coin o <? m) eqn:L; [discriminate|]. intros _.
  apply N.ltb_ge in L, V. rewrite (admitted_meets_min _ _ _ M L). cbn [andb]. apply N.leb_le. exact V.
Qed.

Theorem add_output_admission cfg outs o outs' :
  add_output cfg outs o = Ok outs' ->
  outs' = outs ++ [o] /\ meets_min (c_cpb cfg) o = true /\ out_value_size o <= c_max_value_size cfg.
Proof.
  unfold add_output. destruct (ma_has_empty_entries (o_ma o)); [discriminate|].
  destruct (check_output_limits cfg o) as [[]| | |] eqn:C; cbn [bind]; try discriminate.
  intros H; inversion H; subst. apply check_output_limits_ok in C. unfold output_ok in C.
  apply andb_prop in C. destruct C as [A B]. apply N.leb_le in B. auto.
Qed.

(* invariant: a builder whose outputs all meet the limits keeps that through add_output *)
Theorem add_output_invariant cfg outs o outs' :
  forallb (output_ok cfg) outs = true -> add_output cfg outs o = Ok outs' ->
  forallb (output_ok cfg) outs' = true.
Proof.
  intros I H. unfold add_output in H. destruct (ma_has_empty_entries (o_ma o)); [discriminate|].
  destruct (check_output_limits cfg o) as [[]| | |] eqn:C; cbn [bind] in H; try discriminate.
  inversion H; subst. rewrite forallb_app, I. cbn [forallb andb].
  rewrite (check_output_limits_ok _ _ C). reflexivity.
Qed.

(* a whole sequence of requested outputs *)

Theorem add_outputs_invariant cfg req : forall outs outs',
  forallb (output_ok cfg) outs = true -> add_outputs cfg outs req = Ok outs' ->
  forallb (output_ok cfg) outs' = true.
Proof.
  induction req as [|o r IH]; intros outs outs' I H; cbn [add_outputs] in H.
  - inversion H; subst; exact I.
  - destruct (add_output cfg outs o) as [outs1| | |] eqn:A; cbn [bind] in H; try discriminate.
    eapply IH; [|exact H]. eapply add_output_invariant; eauto.
Qed.

(* add_output refuses exactly: too large a value, an unrepresentable minimum, a coin below the minimum *)
Lemma add_output_never_panics cfg outs o : add_output cfg outs o <> Panic /\ add_output cfg outs o <> OutOfFuel.
Proof.
  unfold add_output, check_output_limits, check_max_value_size.
  destruct (ma_has_empty_entries (o_ma o)); [split; discriminate|].
  destruct (c_max_value_size cfg <? out_value_size o); cbn [bind]; [split; discriminate|].
  unfold min_ada_for_output. rewrite calculate_ada_abs_eq.
  pose proof (rounds_total 3 (c_cpb cfg) (out_base o) (o_coin o)) as [P F]. unfold calculate_ada_abs.
  destruct (rounds 3 (c_cpb cfg) (out_base o) (o_coin o)); cbn [bind]; try (split; discriminate); try tauto.
  destruct (o_coin o <? a); cbn [bind]; split; discriminate.
Qed.

Theorem build_guard_ok cfg size : build_guard cfg size = Ok tt -> size <= c_max_tx_size cfg.
Proof. unfold build_guard. destruct (c_max_tx_size cfg <? size) eqn:E; [discriminate|]. intros _. lia. Qed.

Theorem build_guard_iff cfg size : build_guard cfg size = Ok tt <-> size <= c_max_tx_size cfg.
Proof.
  split; [apply build_guard_ok|]. unfold build_guard. intros H.
  destruct (c_max_tx_size cfg <? size) eqn:E; [lia | reflexivity].
Qed.

(* ------------------------------------------------------------------------------------------ *)
(* collateral return *)

Theorem collateral_return_min_gen b cfg ret :
  collateral_return_guard_gen b cfg ret = Ok tt -> meets_min (c_cpb cfg) ret = true.
Proof.
  unfold collateral_return_guard_gen.
  destruct (if b then check_max_value_size cfg ret else Ok tt) as [[]| | |]; cbn [bind]; try discriminate.
  destruct (min_ada_for_output (c_cpb cfg) ret) as [m| | |] eqn:M; cbn [bind]; try discriminate.
  destruct (o_coin ret <? m) eqn:L; [discriminate|]. intros _. apply N.ltb_ge in L.
  eapply admitted_meets_min; eauto.
Qed.

Theorem collateral_return_ok_repaired cfg ret :
  collateral_return_guard_gen true cfg ret = Ok tt -> output_ok cfg ret = true.
Proof.
  intros H. apply check_output_limits_ok. exact H.
Qed.

(* before the repair: a return output with a value above max_value_size is accepted *)
Definition big_bundle : multiasset := [repeat (32, 1) 200].
Theorem collateral_return_value_size_refuted :
  exists cfg ret, collateral_return_guard_gen false cfg ret = Ok tt /\ output_ok cfg ret = false.
Proof.
  exists (mkCfg 4310 5000 16384), (mkOut 57 100000000 big_bundle DNone None).
  vm_compute. split; reflexivity.
Qed.

(* ------------------------------------------------------------------------------------------ *)
(* the min-coin helper of the output builder *)

Lemma calc_output_base_le a ma d s c c' :
  a <= fake_addr_len ->
  out_base (mkOut a c ma d s) <= out_base (calc_output None (Some (c', ma)) d s).
Proof.
  intros H. unfold out_base, out_size, out_value_size, calc_output, map_form, set_coin.
  cbn [o_addr o_coin o_ma o_datum o_sref].
  assert (B : bytes_size a <= bytes_size fake_addr_len).
  { unfold bytes_size. pose proof (head_size_mono _ _ H). lia. }
  destruct (is_inline d || is_some s); lia.
Qed.

Lemma meets_min_abs_base_mono cpb b1 b2 coin :
  b1 <= b2 -> meets_min_abs cpb b2 coin = true -> meets_min_abs cpb b1 coin = true.
Proof.
  intros H M. apply cost_meets in M. apply cost_meets.
  pose proof (cost_mono cpb (b1 + head_size coin) (b2 + head_size coin)). lia.
Qed.

(* repaired helper: the output it returns always meets the bound *)
Theorem helper_output_meets_min_repaired cpb addr ma d s o :
  helper_output_gen true cpb addr ma d s = Ok o -> meets_min cpb o = true.
Proof.
  unfold helper_output_gen, helper_required_coin_gen.
  destruct (calculate_ada cpb (calc_output None None d s)) as [c1| | |]; cbn [bind]; try discriminate.
  destruct (calculate_ada cpb (calc_output None (Some (c1, ma)) d s)) as [c2| | |]; cbn [bind]; try discriminate.
  destruct (min_ada_for_output cpb (mkOut addr c2 ma d s)) as [m| | |] eqn:M; cbn [bind]; try discriminate.
  intros H; inversion H; subst o.
  pose proof (min_ada_sound _ _ _ M) as S. cbn [set_coin o_coin o_addr o_ma o_datum o_sref] in S.
  replace (N.max c2 m) with (N.max m c2) by lia. exact S.
Qed.

(* unrepaired helper (only the fake 57-byte address is priced): sound for addresses of at most 57 bytes *)
Theorem helper_output_meets_min_short_addr cpb addr ma d s o :
  addr <= fake_addr_len ->
  helper_output_gen false cpb addr ma d s = Ok o -> meets_min cpb o = true.
Proof.
  intros A. unfold helper_output_gen, helper_required_coin_gen.
  destruct (calculate_ada cpb (calc_output None None d s)) as [c1| | |]; cbn [bind]; try discriminate.
  destruct (calculate_ada cpb (calc_output None (Some (c1, ma)) d s)) as [c| | |] eqn:C; cbn [bind]; try discriminate.
  intros H; inversion H; subst o.
  pose proof (min_ada_sound _ _ _ C) as S. cbn [calc_output o_coin] in S.
  pose proof (rounds_ge 3 cpb _ _ _ (eq_trans (eq_sym (calculate_ada_abs_eq _ _)) C)) as G.
  rewrite meets_min_abs_eq in S |- *. cbn [set_coin calc_output o_coin] in S |- *.
  eapply meets_min_abs_base_mono; [apply (calc_output_base_le addr ma d s c c A)|].
  change (out_base (set_coin (calc_output None (Some (c1, ma)) d s) (N.max c c1)))
    with (out_base (calc_output None (Some (c, ma)) d s)) in S.
  destruct (N.le_ge_cases c1 c) as [L | L].
  - replace (N.max c c1) with c in S by lia. exact S.
  - apply cost_meets. apply cost_meets in S. replace (N.max c c1) with c1 in S by lia.
    cbn [calc_output o_coin] in G.
    assert (head_size c <= head_size c1) by (apply head_size_mono; lia).
    set (b := out_base _) in *.
    change (out_base (calc_output None (Some (c1, ma)) d s)) with b in G.
    pose proof (cost_mono cpb (b + head_size c) (b + head_size c1)). lia.
Qed.

(* the repair changes nothing for addresses of at most 57 bytes *)
Theorem helper_repair_conservative cpb addr ma d s :
  addr <= fake_addr_len ->
  helper_output_gen true cpb addr ma d s = helper_output_gen false cpb addr ma d s \/
  (helper_output_gen true cpb addr ma d s = Err /\ exists o, helper_output_gen false cpb addr ma d s = Ok o).
Proof.
  intros A.
  destruct (helper_output_gen false cpb addr ma d s) as [o| | |] eqn:F.
  2-4: left; revert F; unfold helper_output_gen, helper_required_coin_gen;
       destruct (calculate_ada cpb (calc_output None None d s)) as [c1| | |]; cbn [bind]; try (intros; congruence);
       destruct (calculate_ada cpb (calc_output None (Some (c1, ma)) d s)) as [c2| | |]; cbn [bind]; intros; congruence.
  pose proof (helper_output_meets_min_short_addr _ _ _ _ _ _ A F) as M.
  revert F M. unfold helper_output_gen, helper_required_coin_gen.
  destruct (calculate_ada cpb (calc_output None None d s)) as [c1| | |]; cbn [bind]; try discriminate.
  destruct (calculate_ada cpb (calc_output None (Some (c1, ma)) d s)) as [c2| | |]; cbn [bind]; try discriminate.
  intros F M. inversion F; subst o.
  destruct (min_ada_for_output cpb (mkOut addr c2 ma d s)) as [m| | |] eqn:E; cbn [bind].
  - left. pose proof (meets_min_admitted _ _ _ E M) as L. cbn [o_coin] in L.
    replace (N.max c2 m) with c2 by lia. reflexivity.
  - right. split; [reflexivity | eauto].
  - exfalso. unfold min_ada_for_output in E. rewrite calculate_ada_abs_eq in E.
    exact (proj1 (rounds_total 3 _ _ _) E).
  - exfalso. unfold min_ada_for_output in E. rewrite calculate_ada_abs_eq in E.
    exact (proj2 (rounds_total 3 _ _ _) E).
Qed.

(* ... and refuted for a longer one: 59-byte pointer address, mainnet price, one token *)
Theorem helper_output_refuted :
  exists cpb addr ma d s o, helper_output_gen false cpb addr ma d s = Ok o /\ meets_min cpb o = false.
Proof.
  exists 4310, 59, [[(3, 5)]], DNone, None, (mkOut 59 1133530 [[(3, 5)]] DNone None).
  vm_compute. split; reflexivity.
Qed.
