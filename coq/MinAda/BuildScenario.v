(* The `build` scenario of the C07 correspondence run, executed on C05's model of the builder (Builder/Change.v:
   add_output, add_change with every branch, build_tx) with the fully concrete oracle of ChangeInstance.v
   (min ADA and value size = the MinAda model, fee and transaction size = the TxSize algebra).
   Nothing is read off the implementation any more: the model predicts the stage the scenario ends in
   (a requested output refused, add_change_if_needed failing or panicking, build_tx failing / too big, success)
   and, on success, every output and the fee.  Extracted; definitions only.

   The values are rebuilt with the byte strings the harness uses (harness/src/bin/c07.rs mk_ma / asset_name:
   policy i = [i mod 256, i / 256, 0x11 x 26], asset j with an n-byte name = [j mod 256, j / 256, 0xA5 ...]
   truncated to n), because the BTreeMap order of policies and names decides how bundles are packed. *)
From CSL Require Import Base.Prelude Base.U64 Cbor.Head Num.Value Deposits.Deposits Builder.Totals Builder.Change.
From CSL Require MinAda.OutputSize MinAda.MinAda MinAda.TxSize Collateral.Collateral Builder.Scenario Builder.MoreEntry.
From CSL Require Import MinAda.ChangeInstance.
Local Open Scope N_scope.

Definition policy_id (i : N) : bytes := (i mod 256) :: ((i / 256) mod 256) :: repeat 17 26.
Definition asset_name (j len : N) : bytes :=
  firstn (N.to_nat len) ((j mod 256) :: ((j / 256) mod 256) :: repeat 165 30).

(* shape: per policy the list of (name length, quantity); Assets::insert / MultiAsset::insert (BTreeMap) *)
Fixpoint mk_assets (j : N) (l : list (N * N)) (acc : assets) : assets :=
  match l with
  | [] => acc
  | (nl, q) :: r => mk_assets (j + 1) r (assets_insert (asset_name j nl) q acc)
  end.
Fixpoint mk_ma (i : N) (l : list (list (N * N))) (acc : multiasset) : multiasset :=
  match l with
  | [] => acc
  | p :: r => mk_ma (i + 1) r (ma_insert (policy_id i) (mk_assets 0 p assets_new) acc)
  end.
(* harness mk_value: the multiasset is only set when the shape has at least one policy *)
Definition mk_value (c : N) (shape : list (list (N * N))) : value :=
  match shape with
  | [] => value_new c
  | _ => value_set_multiasset (mk_ma 0 shape ma_new) (value_new c)
  end.

Inductive build_stage :=
| BAddOut                       (* a requested output was refused *)
| BChange (r : result unit)     (* add_change_if_needed: Err / Panic / OutOfFuel *)
| BBuild (s : state)            (* build_tx failed on this state *)
| BOk (s : state).

(* the requested outputs one after the other; a REFUSED add_output (error caught by the caller) leaves the builder as it
   was and the scenario goes on with the same builder.  Result: which adds were accepted. *)
Fixpoint add_outputs_m {O} (orc : @oracle O) (l : list output) : @M O (list bool) :=
  match l with
  | [] => ret []
  | x :: r =>
      bindM (catch (add_output orc x)) (fun res =>
      bindM (add_outputs_m orc r) (fun m =>
      ret (match res with Some _ => true | None => false end :: m)))
  end.
Definition mask_of {O} (r : @out O (list bool)) : list bool := match out_res r with Ok m => m | _ => [] end.

Definition run_build (e : cenv) (cfg5 : config) (ins : list (N * value)) (req : list output) (addr extra : N)
  : list bool * build_stage :=
  let orc := c07_oracle e in
  let s0 := new_state cfg5 in
  let r0 := add_inputs ins s0 tt in
  let r1 := add_outputs_m orc req (out_st r0) tt in
  (mask_of r1,
  match out_res r1 with
  | Ok _ =>
      let r2 := add_change orc 200 addr extra (out_st r1) tt in
      match out_res r2 with
      | Ok _ =>
          let r3 := build_tx orc (out_st r2) tt in
          match out_res r3 with Ok _ => BOk (out_st r2) | _ => BBuild (out_st r2) end
      | Err => BChange Err
      | Panic => BChange Panic
      | OutOfFuel => BChange OutOfFuel
      end
  | _ => BAddOut
  end).

(* what the driver prints of a state *)
Definition state_fee (s : state) : N := match get_fee_if_set s with Some f => f | None => 0 end.
Definition state_full_size (e : cenv) (s : state) : N := TxSize.full_tx_size (tx_shape_of e s (state_fee s)).
Definition state_outputs (e : cenv) (s : state) : list OutputSize.output := map (shape_output e) (s_outputs s).

(* ---- driver-facing wrapper: plain arguments in, plain observation out ---- *)
Inductive build_res :=
| RAddOut
| RChangeErr
| RChangePanic
| RChangeFuel
| RBuild (full : N)                                  (* build_tx failed; full size of the state it failed on *)
| ROk (fee full : N) (outs : list OutputSize.output).

Definition scenario_env (cpb mvs mts : N) (req : list OutputSize.output) (chg_addr : N) (chg_datum : OutputSize.datum) : cenv :=
  let addrs := map OutputSize.o_addr req ++ [chg_addr] in
  let extras := map (fun o => (OutputSize.o_datum o, OutputSize.o_sref o)) req ++ [(chg_datum, None)] in
  mkCEnv (MinAda.mkCfg cpb mvs mts)
         (fun id => if id =? 0 then 57 else nth (N.to_nat (id - 1)) addrs 0)
         (fun id => if id =? 0 then (OutputSize.DNone, None) else nth (N.to_nat (id - 1)) extras (OutputSize.DNone, None))
         44 155381 1 [] None None None.

Fixpoint number_from {A} (i : N) (l : list A) : list (N * A) :=
  match l with [] => [] | x :: r => (i, x) :: number_from (i + 1) r end.

Definition run_build_case (cpb mvs mts : N) (pure : bool) (ins : list (N * list (list (N * N))))
    (req : list OutputSize.output) (chg_addr : N) (chg_datum : OutputSize.datum) : list bool * build_res :=
  let e := scenario_env cpb mvs mts req chg_addr chg_datum in
  let cfg5 := mkConfig 500000000 2000000 pure false in
  let ins' := map (fun iv => (fst iv, mk_value (fst (snd iv)) (snd (snd iv)))) (number_from 0 ins) in
  let req' := map (fun io => mkOutput (1 + fst io) (mk_value (OutputSize.o_coin (snd io)) (OutputSize.o_ma (snd io))) (1 + fst io))
                  (number_from 0 req) in
  let chg := 1 + N.of_nat (length req) in
  let '(mask, st) := run_build e cfg5 ins' req' chg chg in
  (mask,
  match st with
  | BAddOut => RAddOut
  | BChange Panic => RChangePanic
  | BChange OutOfFuel => RChangeFuel
  | BChange _ => RChangeErr
  | BBuild s => RBuild (state_full_size e s)
  | BOk s => ROk (state_fee s) (state_full_size e s) (state_outputs e s)
  end).

(* ------------------------------------------------------------------------------------------- *)
(* `entry` scenarios: the balancing entry points (add_change_if_needed, add_inputs_from_and_change,
   add_inputs_from_and_change_with_collateral_return = MoreEntry.percent_entry of C05/C19) followed by EVERY build entry
   point (full_size, build, build_tx, build_tx_unsafe), with collateral inputs / return / total and auxiliary data in the
   measured transaction. *)

Definition with_col (e : cenv) (ci : list N) (cr : option OutputSize.output) (ct : option N) : cenv :=
  mkCEnv (ce_cfg e) (ce_addr e) (ce_extra e) (ce_a e) (ce_b e) (ce_vkeys e) ci cr ct (ce_aux e).

(* a collateral return (TransactionOutput::new(address, value): no datum, no script) as a shape *)
Definition col_shape (o : Collateral.Collateral.output) : OutputSize.output :=
  OutputSize.mkOut (N.of_nat (length (Collateral.Collateral.o_addr o))) (coin (Collateral.Collateral.o_amount o))
                   (shape_ma (multiasset_of (Collateral.Collateral.o_amount o))) OutputSize.DNone None.

(* check_max_value_size, then min_ada_for_output, of the collateral return *)
Definition ask_col_c (e : cenv) (o : Collateral.Collateral.output) (u : unit) : result N * unit :=
  let sh := col_shape o in
  (if MinAda.c_max_value_size (ce_cfg e) <? OutputSize.out_value_size sh then Err
   else MinAda.min_ada_for_output (MinAda.c_cpb (ce_cfg e)) sh, u).

Inductive entry_res :=
| EAddOut
| EFail                                   (* the balancing entry point returned an error *)
| EPanic
| EFuel
| EDone (fee full : N) (b_ok t_ok u_ok : bool) (outs : list OutputSize.output)
        (col_ret : option OutputSize.output) (col_total : option N).

Definition col_txin (i : N) : Collateral.Collateral.txin := (repeat 192 32, i).

Definition run_entry_case (cpb mvs mts : N) (pure : bool) (ins : list (N * list (list (N * N))))
    (req : list OutputSize.output) (chg_addr : N) (chg_datum : OutputSize.datum) (chg_sref : option OutputSize.sref)
    (via : N) (cols : list (N * list (list (N * N)))) (pct : N) (aux : option N) (late : bool) : list bool * entry_res :=
  let addrs := map OutputSize.o_addr req ++ [chg_addr] in
  let extras := map (fun o => (OutputSize.o_datum o, OutputSize.o_sref o)) req ++ [(chg_datum, chg_sref)] in
  let e0 := mkCEnv (MinAda.mkCfg cpb mvs mts)
         (fun id => if id =? 0 then 57 else nth (N.to_nat (id - 1)) addrs 0)
         (fun id => if id =? 0 then (OutputSize.DNone, None) else nth (N.to_nat (id - 1)) extras (OutputSize.DNone, None))
         44 155381 1 [] None None (if late then None else aux) in
  let cfg5 := mkConfig 500000000 2000000 pure false in
  let ins' := map (fun iv => (fst iv, mk_value (fst (snd iv)) (snd (snd iv)))) (number_from 0 ins) in
  let req' := map (fun io => mkOutput (1 + fst io) (mk_value (OutputSize.o_coin (snd io)) (OutputSize.o_ma (snd io))) (1 + fst io))
                  (number_from 0 req) in
  let chg := 1 + N.of_nat (length req) in
  let col_ix := map fst (number_from 0 cols) in
  let col_in := Collateral.Collateral.col_of_list
                  (map (fun iv => (col_txin (fst iv), mk_value (fst (snd iv)) (snd (snd iv)))) (number_from 0 cols)) in
  (* collateral inputs are in the builder from the start *)
  let e_in := with_col e0 col_ix None None in
  let r0 := add_inputs ins' (new_state cfg5) tt in
  let r1 := add_outputs_m (c07_oracle e_in) req' (out_st r0) tt in
  (mask_of r1,
  match out_res r1 with
  | Ok _ =>
      let s1 := out_st r1 in
      (* the balancing step: result, state, final collateral return / total *)
      let '(res, s2, cret, ctot) :=
        if via =? 0 then
          let r := add_change (c07_oracle e_in) 200 chg chg s1 tt in (out_res r, out_st r, None, None)
        else if via =? 1 then
          let r := add_inputs_from_and_change (c07_oracle e_in) 200 [] chg chg s1 tt in (out_res r, out_st r, None, None)
        else
          match Collateral.Collateral.total_value col_in with
          | Ok tc =>
              (* while the balancing runs the builder carries the placeholder return (all of the collateral) and total *)
              let addr_b := repeat 0 (N.to_nat chg_addr) in
              let e_bal := with_col e0 col_ix (Some (col_shape (Collateral.Collateral.output_new addr_b tc))) (Some (coin tc)) in
              let j := MoreEntry.percent_entry (c07_oracle e_bal) (ask_col_c e0) 200 [] chg chg addr_b pct s1
                         (MoreEntry.mkCol col_in None None) tt in
              (match MoreEntry.jo_res j with Ok _ => Ok true | Err => Err | Panic => Panic | OutOfFuel => OutOfFuel end,
               MoreEntry.jo_st j,
               option_map col_shape (MoreEntry.cs_return (MoreEntry.jo_col j)), MoreEntry.cs_total (MoreEntry.jo_col j))
          | _ => (Err, s1, None, None)
          end in
      match res with
      | Ok _ =>
          (* metadata attached after the balancing is part of what the build entry points measure *)
          let e1 := mkCEnv (ce_cfg e0) (ce_addr e0) (ce_extra e0) (ce_a e0) (ce_b e0) (ce_vkeys e0) [] None None aux in
          let e_fin := with_col e1 col_ix cret ctot in
          let full := state_full_size e_fin s2 in
          let fee_set := match get_fee_if_set s2 with Some _ => true | None => false end in
          let b_ok := fee_set && negb (mts <? full) in
          let t_ok := match out_res (build_tx (c07_oracle e_fin) s2 tt) with Ok _ => true | _ => false end in
          EDone (state_fee s2) full b_ok t_ok b_ok (state_outputs e_fin s2) cret ctot
      | Err => EFail
      | Panic => EPanic
      | OutOfFuel => EFuel
      end
  | _ => EAddOut
  end).

(* `txsize`: inputs and outputs, set_fee(fee) by hand, no balancing; then every build entry point.
   Returns (full size, admitted?, build ok, build_tx ok, build_tx_unsafe ok). *)
Definition run_txsize_case (mts : N) (ins : list (N * list (list (N * N)))) (req : list OutputSize.output) (fee : N)
  : list bool * option (N * bool * bool * bool) :=
  let e := scenario_env 4310 5000 mts req 57 OutputSize.DNone in
  let cfg5 := mkConfig 500000000 2000000 false false in
  let ins' := map (fun iv => (fst iv, mk_value (fst (snd iv)) (snd (snd iv)))) (number_from 0 ins) in
  let req' := map (fun io => mkOutput (1 + fst io) (mk_value (OutputSize.o_coin (snd io)) (OutputSize.o_ma (snd io))) (1 + fst io))
                  (number_from 0 req) in
  let r0 := add_inputs ins' (new_state cfg5) tt in
  let r1 := add_outputs_m (c07_oracle e) req' (out_st r0) tt in
  (mask_of r1,
  match out_res r1 with
  | Ok _ =>
      let s := set_s_fee_request (FeeExactly fee) (out_st r1) in
      let full := state_full_size e s in
      let b_ok := negb (mts <? full) in
      let t_ok := match out_res (build_tx (c07_oracle e) s tt) with Ok _ => true | _ => false end in
      Some (full, b_ok, t_ok, b_ok)
  | _ => None
  end).
