(* C10 proofs: every redeemer of a built transaction designates, under the ledger's pointer rules,
   the item the caller attached it to; for ALL call sequences (any items, any insertion order,
   repeated calls included). *)
From CSL Require Import Base.Prelude Base.BytesOrd Pointers.Pointers Pointers.PointersSpec Pointers.MapsProofs.
From Coq Require Import Sorting.Sorted Permutation.
Local Open Scope N_scope.

(* ---------------------------------------------------------------------------------------- *)
(* the key orders are strict total orders; the code's orders coincide with the ledger's *)
Lemma key3_st : strict_total key3_ltb.
Proof. apply lex_strict_total; [apply N_strict_total | apply lex_strict_total; [apply N_strict_total | apply bytes_strict_total]]. Qed.
Lemma outpoint_st : strict_total outpoint_ltb.
Proof. apply lex_strict_total; [apply bytes_strict_total | apply N_strict_total]. Qed.

Lemma flag_inj (a b : bool) (x y : N) : x <> y -> (if a then x else y) = (if b then x else y) -> a = b.
Proof. destruct a, b; congruence. Qed.

Lemma racct_code_key_inj a b : racct_code_key a = racct_code_key b -> a = b.
Proof.
  destruct a as [n [s h]], b as [n' [s' h']]. unfold racct_code_key. cbn [ra_net ra_cred cr_script cr_hash].
  intros H. injection H as -> Hs ->. apply flag_inj in Hs; [subst; reflexivity | discriminate].
Qed.
Lemma racct_code_st : strict_total racct_code_ltb.
Proof. apply on_strict_total; [apply racct_code_key_inj | apply key3_st]. Qed.
Lemma racct_code_ledger : racct_code_ltb = racct_ledger_ltb.
Proof. reflexivity. Qed.
Lemma racct_ledger_st : strict_total racct_ledger_ltb.
Proof. rewrite <- racct_code_ledger. apply racct_code_st. Qed.
Lemma outpoint_code_ledger : outpoint_ltb = outpoint_ledger_ltb.
Proof. reflexivity. Qed.

Lemma voter_rust_key_inj a b : voter_rust_key a = voter_rust_key b -> a = b.
Proof.
  destruct a as [[s h]|[s h]|h], b as [[s' h']|[s' h']|h']; unfold voter_rust_key, cred_rust_key; cbn [cr_script cr_hash];
    intros H; try discriminate; injection H; intros; subst; try reflexivity;
    match goal with Hs : (if _ then _ else _) = _ |- _ => apply flag_inj in Hs; [subst; reflexivity | discriminate] end.
Qed.
Lemma voter_rust_st : strict_total voter_rust_ltb.
Proof. apply on_strict_total; [apply voter_rust_key_inj | apply key3_st]. Qed.
Lemma voter_code_key_inj a b : voter_code_key a = voter_code_key b -> a = b.
Proof.
  destruct a as [[s h]|[s h]|h], b as [[s' h']|[s' h']|h']; unfold voter_code_key; cbn [cr_script cr_hash];
    intros H; try discriminate; injection H; intros; subst; try reflexivity;
    match goal with Hs : (if _ then _ else _) = _ |- _ => apply flag_inj in Hs; [subst; reflexivity | discriminate] end.
Qed.
Lemma voter_code_st : strict_total voter_code_ltb.
Proof. apply on_strict_total; [apply voter_code_key_inj | apply key3_st]. Qed.
Lemma voter_ledger_key_inj a b : voter_ledger_key a = voter_ledger_key b -> a = b.
Proof.
  destruct a as [[s h]|[s h]|h], b as [[s' h']|[s' h']|h']; unfold voter_ledger_key, cred_ledger_key; cbn [cr_script cr_hash];
    intros H; try discriminate; injection H; intros; subst; try reflexivity;
    match goal with Hs : (if _ then _ else _) = _ |- _ => apply flag_inj in Hs; [subst; reflexivity | discriminate] end.
Qed.
Lemma voter_ledger_st : strict_total voter_ledger_ltb.
Proof. apply on_strict_total; [apply voter_ledger_key_inj | apply key3_st]. Qed.

(* VotingBuilder::ledger_order_key orders voters exactly as the ledger does *)
Lemma voter_code_ledger v1 v2 : voter_code_ltb v1 v2 = voter_ledger_ltb v1 v2.
Proof.
  assert (H02 : (0 <? 2) = true) by reflexivity. assert (H20 : (2 <? 0) = false) by reflexivity.
  assert (H12 : (1 <? 2) = true) by reflexivity. assert (H21 : (2 <? 1) = false) by reflexivity.
  destruct v1 as [c1|c1|h1], v2 as [c2|c2|h2];
    unfold voter_code_ltb, voter_ledger_ltb, on_ltb, voter_code_key, voter_ledger_key, cred_ledger_key, key3_ltb, lex_ltb;
    cbn [fst snd]; rewrite ?H02, ?H20, ?H12, ?H21, ?N.ltb_irrefl; reflexivity.
Qed.

Lemma cert_key_inj a b : cert_key a = cert_key b -> a = b.
Proof.
  destruct a as [k s i], b as [k' s' i']. unfold cert_key. cbn [c_kind c_script c_id].
  intros H. injection H as -> Hs ->. apply flag_inj in Hs; [subst; reflexivity | discriminate].
Qed.
Lemma cert_st : strict_total cert_ltb.
Proof.
  apply on_strict_total; [apply cert_key_inj|].
  apply lex_strict_total; [apply N_strict_total | apply lex_strict_total; apply N_strict_total].
Qed.
Lemma prop_key_inj a b : prop_rust_key a = prop_rust_key b -> a = b.
Proof. destruct a, b. unfold prop_rust_key. cbn. intros H. injection H as -> -> ->. reflexivity. Qed.
Lemma prop_st : strict_total prop_rust_ltb.
Proof.
  apply on_strict_total; [apply prop_key_inj|].
  apply lex_strict_total; [apply N_strict_total | apply lex_strict_total; [apply opt_strict_total, bytes_strict_total | apply N_strict_total]].
Qed.

(* two order functions that are both strict total orders give the same equality test *)
Lemma eqb_of_indep {A} (l1 l2 : A -> A -> bool) : strict_total l1 -> strict_total l2 -> forall x y, eqb_of l1 x y = eqb_of l2 x y.
Proof.
  intros S1 S2 x y. destruct (eqb_of l2 x y) eqn:E.
  - apply (eqb_of_true l2 S2) in E. subst. apply eqb_of_refl, S1.
  - apply (eqb_of_false l2 S2) in E. apply (eqb_of_false l1 S1). exact E.
Qed.

(* Certificate::has_required_script_witness is the ledger's table *)
Lemma cert_locked_code_ledger c : cert_has_required_script_witness c = ledger_cert_script_locked c.
Proof.
  unfold cert_has_required_script_witness, ledger_cert_script_locked, cert_cred_kinds.
  destruct c as [k s i]. cbn [c_kind c_script].
  destruct (N.lt_ge_cases k 19) as [Hlt|Hge].
  - assert (k = 0 \/ k = 1 \/ k = 2 \/ k = 3 \/ k = 4 \/ k = 5 \/ k = 6 \/ k = 7 \/ k = 8 \/ k = 9 \/ k = 10 \/ k = 11
            \/ k = 12 \/ k = 13 \/ k = 14 \/ k = 15 \/ k = 16 \/ k = 17 \/ k = 18) as H by lia.
    repeat (destruct H as [->|H]; [reflexivity|]). subst. reflexivity.
  - cbn [existsb].
    repeat match goal with |- context [N.eqb k ?n] => replace (N.eqb k n) with false by (symmetry; apply N.eqb_neq; lia) end.
    replace (k <=? 18) with false by (symmetry; apply N.leb_gt; lia). reflexivity.
Qed.

(* ---------------------------------------------------------------------------------------- *)
(* the transaction builder's state after a call sequence, component by component *)
Definition step_st (st : txb) (o : op) : txb := fst (step st o).
Definition apply_res {A} (r : result A) (old : A) : A := match r with Ok a => a | _ => old end.
Definition mint_apply (st : mbuilder) (o : mint_op) : mbuilder := apply_res (mint_step st o) st.
Definition cert_apply (st : cbuilder) (o : wop cert) : cbuilder := apply_res (cert_step st o) st.
Definition wd_apply (st : wbuilder) (o : wop racct) : wbuilder := apply_res (wd_step st o) st.
Definition vote_apply (st : vbuilder) (o : wop voter) : vbuilder := apply_res (vote_step st o) st.
Definition prop_apply (st : pbuilder) (o : wop proposal) : pbuilder := apply_res (prop_step st o) st.

Lemma run_from_fst ops : forall st fl,
  fst (fold_left (fun acc o => let (st', ok) := step (fst acc) o in (st', snd acc ++ [ok])) ops (st, fl)) = fold_left step_st ops st.
Proof.
  induction ops as [|o ops IH]; intros st fl; cbn [fold_left]; [reflexivity|].
  cbn [fst snd]. unfold step_st at 2. destruct (step st o) as [st' ok]. cbn [fst]. apply IH.
Qed.
Lemma run_state ops : fst (run ops) = fold_left step_st ops txb_empty.
Proof. unfold run, run_from. apply run_from_fst. Qed.

Ltac step_cases o :=
  unfold step_st, step; destruct o; cbn [fst fold_left];
  unfold mint_apply, cert_apply, wd_apply, vote_apply, prop_apply, apply_res;
  repeat match goal with |- context [match ?r with Ok _ => _ | Err => _ | Panic => _ | OutOfFuel => _ end] => destruct r end;
  cbn [fst t_inputs t_collateral t_mint t_certs t_wdrl t_votes t_props flat_map app apply_res fold_left].

Lemma proj_inputs ops : forall st, t_inputs (fold_left step_st ops st) = fold_left ib_step (ops_in ops) (t_inputs st).
Proof.
  induction ops as [|o ops IH]; intros st; [reflexivity|]. cbn [fold_left]. rewrite IH. unfold ops_in. cbn [flat_map].
  rewrite fold_left_app. f_equal. step_cases o; reflexivity.
Qed.
Lemma proj_collateral ops : forall st, t_collateral (fold_left step_st ops st) = fold_left ib_step (ops_col ops) (t_collateral st).
Proof.
  induction ops as [|o ops IH]; intros st; [reflexivity|]. cbn [fold_left]. rewrite IH. unfold ops_col. cbn [flat_map].
  rewrite fold_left_app. f_equal. step_cases o; reflexivity.
Qed.
Lemma proj_mint ops : forall st, t_mint (fold_left step_st ops st) = fold_left mint_apply (ops_mint ops) (t_mint st).
Proof.
  induction ops as [|o ops IH]; intros st; [reflexivity|]. cbn [fold_left]. rewrite IH. unfold ops_mint. cbn [flat_map].
  rewrite fold_left_app. f_equal. unfold mint_apply. step_cases o; reflexivity.
Qed.
Lemma proj_certs ops : forall st, t_certs (fold_left step_st ops st) = fold_left cert_apply (ops_cert ops) (t_certs st).
Proof.
  induction ops as [|o ops IH]; intros st; [reflexivity|]. cbn [fold_left]. rewrite IH. unfold ops_cert. cbn [flat_map].
  rewrite fold_left_app. f_equal. unfold cert_apply. step_cases o; reflexivity.
Qed.
Lemma proj_wdrl ops : forall st, t_wdrl (fold_left step_st ops st) = fold_left wd_apply (ops_wd ops) (t_wdrl st).
Proof.
  induction ops as [|o ops IH]; intros st; [reflexivity|]. cbn [fold_left]. rewrite IH. unfold ops_wd. cbn [flat_map].
  rewrite fold_left_app. f_equal. unfold wd_apply. step_cases o; reflexivity.
Qed.
Lemma proj_votes ops : forall st, t_votes (fold_left step_st ops st) = fold_left vote_apply (ops_vote ops) (t_votes st).
Proof.
  induction ops as [|o ops IH]; intros st; [reflexivity|]. cbn [fold_left]. rewrite IH. unfold ops_vote. cbn [flat_map].
  rewrite fold_left_app. f_equal. unfold vote_apply. step_cases o; reflexivity.
Qed.
Lemma proj_props ops : forall st, t_props (fold_left step_st ops st) = fold_left prop_apply (ops_prop ops) (t_props st).
Proof.
  induction ops as [|o ops IH]; intros st; [reflexivity|]. cbn [fold_left]. rewrite IH. unfold ops_prop. cbn [flat_map].
  rewrite fold_left_app. f_equal. unfold prop_apply. step_cases o; reflexivity.
Qed.

(* ---------------------------------------------------------------------------------------- *)
(* the "asked for" maps *)
Section FinalFacts.
  Context {O K V : Type} (keqb : K -> K -> bool) (okey : O -> K) (oval : O -> V) (accept : O -> bool).
  Lemma final_last_snoc ops o :
    final_last keqb okey oval accept (ops ++ [o]) =
    if accept o then upd keqb (final_last keqb okey oval accept ops) (okey o) (oval o) else final_last keqb okey oval accept ops.
  Proof. unfold final_last. rewrite fold_left_app. reflexivity. Qed.
  Lemma final_first_snoc ops o :
    final_first keqb okey oval accept (ops ++ [o]) =
    if accept o then match final_first keqb okey oval accept ops (okey o) with
                     | Some _ => final_first keqb okey oval accept ops
                     | None => upd keqb (final_first keqb okey oval accept ops) (okey o) (oval o)
                     end
    else final_first keqb okey oval accept ops.
  Proof. unfold final_first. rewrite fold_left_app. reflexivity. Qed.

  Hypothesis keqb_true : forall x y, keqb x y = true -> x = y.
  (* a value of the map always comes from an accepted call for that item *)
  Lemma final_last_origin ops : forall k v, final_last keqb okey oval accept ops k = Some v ->
    exists o, In o ops /\ accept o = true /\ okey o = k /\ oval o = v.
  Proof.
    induction ops as [|o ops IH] using rev_ind; intros k v; [discriminate|].
    rewrite final_last_snoc. destruct (accept o) eqn:A.
    - unfold upd. destruct (keqb (okey o) k) eqn:E.
      + intros H. injection H as <-. exists o. rewrite in_app_iff. cbn. auto using keqb_true.
      + intros H. destruct (IH _ _ H) as (o' & Hin & ?). exists o'. rewrite in_app_iff. auto.
    - intros H. destruct (IH _ _ H) as (o' & Hin & ?). exists o'. rewrite in_app_iff. auto.
  Qed.
  Lemma final_first_origin ops : forall k v, final_first keqb okey oval accept ops k = Some v ->
    exists o, In o ops /\ accept o = true /\ okey o = k /\ oval o = v.
  Proof.
    induction ops as [|o ops IH] using rev_ind; intros k v; [discriminate|].
    rewrite final_first_snoc. destruct (accept o) eqn:A.
    - destruct (final_first keqb okey oval accept ops (okey o)) eqn:F.
      + intros H. destruct (IH _ _ H) as (o' & Hin & ?). exists o'. rewrite in_app_iff. auto.
      + unfold upd. destruct (keqb (okey o) k) eqn:E.
        * intros H. injection H as <-. exists o. rewrite in_app_iff. cbn. auto using keqb_true.
        * intros H. destruct (IH _ _ H) as (o' & Hin & ?). exists o'. rewrite in_app_iff. auto.
    - intros H. destruct (IH _ _ H) as (o' & Hin & ?). exists o'. rewrite in_app_iff. auto.
  Qed.
End FinalFacts.

(* ---------------------------------------------------------------------------------------- *)
(* redeemers emitted by enumerating an association list item -> witness *)
Lemma redeemer_eta r : r = mkR (r_tag r) (r_index r) (r_data r).
Proof. destruct r; reflexivity. Qed.

Section Entries.
  Context {K : Type} (ltb : K -> K -> bool) (ST : strict_total ltb) (T : tag).
  Local Notation keq := (eqb_of ltb).

  Lemma wentries_spec_from (st : list (K * option wit)) : forall s, NoDup (map fst st) -> forall r,
    In r (flat_map (wentry_redeemer T) (enum_from s st)) <->
    r_tag r = T /\ exists k, al_get ltb k st = Some (Some (WPlutus (r_data r)))
                             /\ option_map (N.add s) (index_of ltb k (map fst st)) = Some (r_index r).
  Proof.
    induction st as [|[k0 w0] t IH]; intros s ND r.
    - cbn. split; [contradiction | intros (_ & k & H & _); discriminate].
    - inversion ND as [|? ? Hk0 NDt]; subst. cbn [enum_from flat_map]. rewrite in_app_iff, (IH (s + 1) NDt r).
      unfold wentry_redeemer at 1. cbn [fst snd map al_get index_of].
      split.
      + intros [H|(Ht & k & Hg & Hi)].
        * destruct w0 as [[|rid]|]; cbn [plutus_rid] in H; try contradiction. destruct H as [<-|[]].
          cbn [r_tag r_index r_data]. split; [reflexivity|]. exists k0. rewrite (keq_refl ltb ST). cbn [option_map].
          split; [reflexivity | f_equal; lia].
        * split; [exact Ht|]. exists k.
          assert (k0 <> k) as Hne by (intros ->; apply Hk0; eapply al_get_some_key; [exact ST | exact Hg]).
          apply (keq_false ltb ST) in Hne. rewrite Hne. split; [exact Hg|].
          destruct (index_of ltb k (map fst t)) as [j|]; cbn [option_map] in *; [|discriminate].
          injection Hi as <-. f_equal. lia.
      + intros (Ht & k & Hg & Hi). destruct (keq k0 k) eqn:E.
        * left. injection Hg as ->. cbn [plutus_rid option_map] in *. injection Hi as Hi. left.
          rewrite (redeemer_eta r). f_equal; [symmetry; exact Ht | lia].
        * right. split; [exact Ht|]. exists k. split; [exact Hg|].
          destruct (index_of ltb k (map fst t)) as [j|]; cbn [option_map] in *; [|discriminate].
          injection Hi as <-. f_equal. lia.
  Qed.

  Lemma wentries_spec (st : list (K * option wit)) : NoDup (map fst st) -> forall r,
    In r (flat_map (wentry_redeemer T) (enum_from 0 st)) <->
    r_tag r = T /\ exists k, al_get ltb k st = Some (Some (WPlutus (r_data r)))
                             /\ index_of ltb k (map fst st) = Some (r_index r).
  Proof.
    intros ND r. rewrite (wentries_spec_from st 0 ND r). split; intros (Ht & k & Hg & Hi); (split; [exact Ht|]); exists k; (split; [exact Hg|]).
    - destruct (index_of ltb k (map fst st)); cbn [option_map] in *; [|discriminate]. injection Hi as <-. f_equal.
    - rewrite Hi. reflexivity.
  Qed.
End Entries.

(* ---------------------------------------------------------------------------------------- *)
(* generic shape of the statement for one tag, from a lookup-level description of the state *)
Lemma not_none_iff {A} (x : option A) : x <> None <-> exists a, x = Some a.
Proof. destruct x; split; try congruence; [eauto | intros [a H]; discriminate]. Qed.

(* ======================== withdrawals ======================== *)
Lemma wd_refine ops : let st := fold_left wd_apply ops [] in
  NoDup (map fst st) /\ forall a, al_get racct_code_ltb a st = wd_final ops a.
Proof.
  induction ops as [|o ops IH] using rev_ind; [split; [constructor | reflexivity]|].
  cbv zeta in *. rewrite fold_left_app. cbn [fold_left]. destruct IH as [ND G].
  unfold wd_final. rewrite final_last_snoc. fold (wd_final ops).
  unfold wd_apply, wd_step, wd_accept.
  destruct (Bool.eqb (cr_script (ra_cred (wop_key o))) (wop_wants_script o)); cbn [negb apply_res]; [|split; assumption].
  split; [apply lm_insert_nodup; [apply racct_code_st | exact ND]|].
  intros a. rewrite (lm_insert_get racct_code_ltb racct_code_st). unfold upd. rewrite G. reflexivity.
Qed.

Lemma wd_pointers ops : let st := fold_left wd_apply ops [] in
  spec_field (wd_final ops) (wd_body st) /\
  spec_pointers TReward (wd_final ops) (fun k => ledger_set_index racct_ledger_ltb k (wd_body st)) (wd_plutus st).
Proof.
  cbv zeta. destruct (wd_refine ops) as [ND G]. set (st := fold_left wd_apply ops []) in *.
  assert (Hkeys : wd_body st = sset_sort racct_code_ltb (map fst st)) by apply (sm_sort_keys racct_code_ltb racct_code_st).
  assert (Hsorted : sortedk racct_code_ltb (wd_body st)) by (rewrite Hkeys; apply sset_sort_sorted, racct_code_st).
  split.
  - intros a. rewrite Hkeys, (sset_sort_In racct_code_ltb racct_code_st), <- G.
    split; [intros H E; apply (al_get_none racct_code_ltb racct_code_st) in E; contradiction|].
    intros H. destruct (al_get racct_code_ltb a st) eqn:E; [eapply al_get_some_key; [apply racct_code_st | exact E] | congruence].
  - intros r Ht. unfold wd_plutus.
    rewrite (wentries_spec racct_code_ltb racct_code_st TReward (wd_ordered st)) by (apply sortedk_nodup with (ltb := racct_code_ltb); [apply racct_code_st | exact Hsorted]).
    unfold ledger_set_index. rewrite <- racct_code_ledger.
    fold (wd_body st). rewrite (sset_sort_of_sorted racct_code_ltb racct_code_st _ Hsorted).
    split.
    + intros (_ & k & Hg & Hi). exists k, (r_data r). unfold wd_ordered in Hg.
      rewrite (sm_sort_get racct_code_ltb racct_code_st), G in Hg. auto.
    + intros (k & rid & Hf & Hi & Hd). subst rid. split; [exact Ht|]. exists k. unfold wd_ordered.
      rewrite (sm_sort_get racct_code_ltb racct_code_st), G. auto.
Qed.

Lemma wd_locked ops : spec_locked (wd_final ops) (fun a => cr_script (ra_cred a)).
Proof.
  intros a rid H. apply final_last_origin in H; [|intros x y E; apply (eqb_of_true _ racct_ledger_st); exact E].
  destruct H as (o & _ & A & <- & W). unfold wd_accept in A. destruct o; cbn in *; try discriminate.
  destruct (cr_script (ra_cred k)); [reflexivity | discriminate].
Qed.

(* ======================== certificates ======================== *)
Lemma cert_refine ops : let st := fold_left cert_apply ops [] in
  NoDup (map fst st) /\ forall c, al_get cert_ltb c st = cert_final ops c.
Proof.
  induction ops as [|o ops IH] using rev_ind; [split; [constructor | reflexivity]|].
  cbv zeta in *. rewrite fold_left_app. cbn [fold_left]. destruct IH as [ND G].
  unfold cert_final. rewrite final_first_snoc. fold (cert_final ops).
  unfold cert_apply, cert_step, cert_accept. rewrite cert_locked_code_ledger.
  destruct (Bool.eqb (ledger_cert_script_locked (wop_key o)) (wop_wants_script o)); cbn [negb apply_res]; [|split; assumption].
  unfold al_mem. rewrite G. destruct (cert_final ops (wop_key o)) eqn:F; cbn [apply_res]; [split; assumption|].
  split; [apply lm_insert_nodup; [apply cert_st | exact ND]|].
  intros c. rewrite (lm_insert_get cert_ltb cert_st). unfold upd. rewrite G. reflexivity.
Qed.

Lemma cert_pointers ops : let st := fold_left cert_apply ops [] in
  spec_field (cert_final ops) (cert_body st) /\
  spec_pointers TCert (cert_final ops) (fun k => ledger_seq_index cert_ltb k (cert_body st)) (cert_plutus st).
Proof.
  cbv zeta. destruct (cert_refine ops) as [ND G]. set (st := fold_left cert_apply ops []) in *.
  split.
  - intros c. unfold cert_body. rewrite <- G.
    split; [intros H E; apply (al_get_none cert_ltb cert_st) in E; contradiction|].
    intros H. destruct (al_get cert_ltb c st) eqn:E; [eapply al_get_some_key; [apply cert_st | exact E] | congruence].
  - intros r Ht. unfold cert_plutus, ledger_seq_index, cert_body. rewrite (wentries_spec cert_ltb cert_st TCert st ND).
    split.
    + intros (_ & k & Hg & Hi). exists k, (r_data r). rewrite G in Hg. auto.
    + intros (k & rid & Hf & Hi & Hd). subst rid. split; [exact Ht|]. exists k. rewrite G. auto.
Qed.

Lemma cert_locked ops : spec_locked (cert_final ops) ledger_cert_script_locked.
Proof.
  intros c rid H. apply final_first_origin in H; [|intros x y E; apply (eqb_of_true _ cert_st); exact E].
  destruct H as (o & _ & A & <- & W). unfold cert_accept in A. destruct o; cbn in *; try discriminate.
  destruct (ledger_cert_script_locked k); [reflexivity | discriminate].
Qed.

(* ======================== proposals ======================== *)
Lemma prop_refine ops : let st := fold_left prop_apply ops [] in
  sortedk prop_rust_ltb (map fst st) /\ forall p, al_get prop_rust_ltb p st = prop_final ops p.
Proof.
  induction ops as [|o ops IH] using rev_ind; [split; [constructor | reflexivity]|].
  cbv zeta in *. rewrite fold_left_app. cbn [fold_left]. destruct IH as [S G].
  unfold prop_final. rewrite final_last_snoc. fold (prop_final ops).
  unfold prop_apply, prop_step, prop_accept.
  assert (Hins : forall p w, sortedk prop_rust_ltb (map fst (sm_insert prop_rust_ltb p w (fold_left prop_apply ops []))) /\
                             forall p', al_get prop_rust_ltb p' (sm_insert prop_rust_ltb p w (fold_left prop_apply ops []))
                                        = upd (eqb_of prop_rust_ltb) (prop_final ops) p w p').
  { intros p w. split; [rewrite (sm_insert_keys prop_rust_ltb prop_st); apply sset_insert_sorted; [apply prop_st | exact S]|].
    intros p'. unfold upd. destruct (eqb_of prop_rust_ltb p p') eqn:E.
    - apply (eqb_of_true _ prop_st) in E. subst. apply sm_insert_get_same, prop_st.
    - apply (eqb_of_false _ prop_st) in E. rewrite (sm_insert_get_other prop_rust_ltb prop_st) by congruence. apply G. }
  destruct o as [p|p|p rid]; cbn [wop_key wop_wit].
  - destruct (prop_has_script_hash p); cbn [negb apply_res]; [split; assumption | apply Hins].
  - cbn [apply_res]. split; assumption.
  - cbn [apply_res]. apply Hins.
Qed.

Lemma prop_pointers ops : let st := fold_left prop_apply ops [] in
  spec_field (prop_final ops) (prop_body st) /\
  spec_pointers TPropose (prop_final ops) (fun k => ledger_seq_index prop_rust_ltb k (prop_body st)) (prop_plutus st).
Proof.
  cbv zeta. destruct (prop_refine ops) as [S G]. set (st := fold_left prop_apply ops []) in *.
  assert (ND : NoDup (map fst st)) by (apply sortedk_nodup with (ltb := prop_rust_ltb); [apply prop_st | exact S]).
  split.
  - intros c. unfold prop_body. rewrite <- G.
    split; [intros H E; apply (al_get_none prop_rust_ltb prop_st) in E; contradiction|].
    intros H. destruct (al_get prop_rust_ltb c st) eqn:E; [eapply al_get_some_key; [apply prop_st | exact E] | congruence].
  - intros r Ht. unfold prop_plutus, ledger_seq_index, prop_body. rewrite (wentries_spec prop_rust_ltb prop_st TPropose st ND).
    split.
    + intros (_ & k & Hg & Hi). exists k, (r_data r). rewrite G in Hg. auto.
    + intros (k & rid & Hf & Hi & Hd). subst rid. split; [exact Ht|]. exists k. rewrite G. auto.
Qed.

(* a proposal holds a Plutus witness only if it has a policy hash -- outside the known class *)
Lemma prop_locked ops :
  existsb (fun e => match plutus_rid (snd e) with Some _ => negb (prop_has_script_hash (fst e)) | None => false end)
          (fold_left prop_apply ops []) = false ->
  spec_locked (prop_final ops) prop_has_script_hash.
Proof.
  intros Hk p rid H. destruct (prop_refine ops) as [_ G]. rewrite <- G in H.
  apply (al_get_In prop_rust_ltb prop_st) in H.
  destruct (prop_has_script_hash p) eqn:E; [reflexivity|]. exfalso.
  assert (X : existsb (fun e => match plutus_rid (snd e) with Some _ => negb (prop_has_script_hash (fst e)) | None => false end)
                      (fold_left prop_apply ops []) = true).
  { apply existsb_exists. eexists. split; [exact H|]. cbn. rewrite E. reflexivity. }
  congruence.
Qed.

(* ======================== votes ======================== *)
Lemma vote_refine ops : let st := fold_left vote_apply ops [] in
  sortedk voter_rust_ltb (map fst st) /\ forall v, al_get voter_rust_ltb v st = vote_final ops v.
Proof.
  induction ops as [|o ops IH] using rev_ind; [split; [constructor | reflexivity]|].
  cbv zeta in *. rewrite fold_left_app. cbn [fold_left]. destruct IH as [S G].
  unfold vote_final. rewrite final_first_snoc. fold (vote_final ops).
  unfold vote_apply, vote_step, vote_accept.
  destruct (Bool.eqb (voter_has_script (wop_key o)) (wop_wants_script o)); cbn [negb apply_res]; [|split; assumption].
  split; [apply sm_or_insert_keys_sorted; [apply voter_rust_st | exact S]|].
  intros v. rewrite (sm_or_insert_get voter_rust_ltb voter_rust_st), !G.
  destruct (vote_final ops (wop_key o)); [reflexivity|]. unfold upd.
  rewrite (eqb_of_indep voter_ledger_ltb voter_rust_ltb voter_ledger_st voter_rust_st). reflexivity.
Qed.

Lemma vote_pointers ops : let st := fold_left vote_apply ops [] in
  spec_field (vote_final ops) (vote_body st) /\
  spec_pointers TVote (vote_final ops) (fun k => ledger_set_index voter_ledger_ltb k (vote_body st)) (vote_plutus st).
Proof.
  cbv zeta. destruct (vote_refine ops) as [S G]. set (st := fold_left vote_apply ops []) in *.
  assert (ND : NoDup (map fst st)) by (apply sortedk_nodup with (ltb := voter_rust_ltb); [apply voter_rust_st | exact S]).
  assert (Hrank : forall v, rank voter_code_ltb v (map fst st) = rank voter_ledger_ltb v (map fst st)).
  { intros v. unfold rank. f_equal. f_equal. apply filter_ext. intros y. apply voter_code_ledger. }
  split.
  - intros c. unfold vote_body. rewrite <- G.
    split; [intros H E; apply (al_get_none voter_rust_ltb voter_rust_st) in E; contradiction|].
    intros H. destruct (al_get voter_rust_ltb c st) eqn:E; [eapply al_get_some_key; [apply voter_rust_st | exact E] | congruence].
  - intros r Ht. unfold vote_plutus, vote_body, ledger_set_index. rewrite in_flat_map.
    split.
    + intros ([v w] & Hin & Hr). unfold vote_entry_redeemer in Hr. cbn [fst snd] in Hr.
      destruct w as [[|rid]|]; cbn [plutus_rid] in Hr; try contradiction. destruct Hr as [<-|[]]. cbn [r_index r_data].
      exists v, rid. split; [rewrite <- G; apply (al_get_nodup voter_rust_ltb voter_rust_st); assumption|].
      split; [|reflexivity]. rewrite Hrank.
      apply (sorted_index_rank voter_ledger_ltb voter_ledger_st); [exact ND|]. apply (in_map fst) in Hin. exact Hin.
    + intros (v & rid & Hf & Hi & Hd). subst rid. rewrite <- G in Hf.
      pose proof (al_get_In voter_rust_ltb voter_rust_st _ _ _ Hf) as Hin.
      exists (v, Some (WPlutus (r_data r))). split; [exact Hin|]. unfold vote_entry_redeemer. cbn [fst snd plutus_rid]. left.
      rewrite (sorted_index_rank voter_ledger_ltb voter_ledger_st) in Hi; [| exact ND | apply (in_map fst) in Hin; exact Hin].
      injection Hi as Hi. rewrite Hrank, Hi, <- Ht. symmetry. apply redeemer_eta.
Qed.

Lemma vote_locked ops : spec_locked (vote_final ops) voter_has_script.
Proof.
  intros c rid H. apply final_first_origin in H; [|intros x y E; apply (eqb_of_true _ voter_ledger_st); exact E].
  destruct H as (o & _ & A & <- & W). unfold vote_accept in A. destruct o; cbn in *; try discriminate.
  destruct (voter_has_script k); [reflexivity | discriminate].
Qed.
