(* C10 proofs: every redeemer of a built transaction designates, under the ledger's pointer rules,
   the item the caller attached it to; for ALL call sequences (any items, any insertion order,
   repeated calls included). *)
From CSL Require Import Base.Prelude Base.BytesOrd Pointers.Pointers Pointers.PointersSpec Pointers.MapsProofs.
From Coq Require Import Sorting.Sorted Permutation.
Local Open Scope N_scope.

(* ---------------------------------------------------------------------------------------- *)
(* the key orders are strict total orders; the code's orders coincide with the ledger's *)
Lemma key3_st : strict_total key3_ltb.
Proof. apply lex_strict_total; [apply N_strict_total | apply lex_strict_total; [apply N_strict_total | apply bytes_strict_total]]. Qed.
Lemma outpoint_st : strict_total outpoint_ltb.
Proof. apply lex_strict_total; [apply bytes_strict_total | apply N_strict_total]. Qed.

Lemma flag_inj (a b : bool) (x y : N) : x <> y -> (if a then x else y) = (if b then x else y) -> a = b.
Proof. destruct a, b; congruence. Qed.

Lemma racct_code_key_inj a b : racct_code_key a = racct_code_key b -> a = b.
Proof.
  destruct a as [n [s h]], b as [n' [s' h']]. unfold racct_code_key. cbn [ra_net ra_cred cr_script cr_hash].
  intros H. injection H as -> Hs ->. apply flag_inj in Hs; [subst; reflexivity | discriminate].
Qed.
Lemma racct_code_st : strict_total racct_code_ltb.
Proof. apply on_strict_total; [apply racct_code_key_inj | apply key3_st]. Qed.
Lemma racct_code_ledger : racct_code_ltb = racct_ledger_ltb.
Proof. reflexivity. Qed.
Lemma racct_ledger_st : strict_total racct_ledger_ltb.
Proof. rewrite <- racct_code_ledger. apply racct_code_st. Qed.
Lemma outpoint_code_ledger : outpoint_ltb = outpoint_ledger_ltb.
Proof. reflexivity. Qed.

Lemma voter_rust_key_inj a b : voter_rust_key a = voter_rust_key b -> a = b.
Proof.
  destruct a as [[s h]|[s h]|h], b as [[s' h']|[s' h']|h']; unfold voter_rust_key, cred_rust_key; cbn [cr_script cr_hash];
    intros H; try discriminate; injection H; intros; subst; try reflexivity;
    match goal with Hs : (if _ then _ else _) = _ |- _ => apply flag_inj in Hs; [subst; reflexivity | discriminate] end.
Qed.
Lemma voter_rust_st : strict_total voter_rust_ltb.
Proof. apply on_strict_total; [apply voter_rust_key_inj | apply key3_st]. Qed.
Lemma voter_code_key_inj a b : voter_code_key a = voter_code_key b -> a = b.
Proof.
  destruct a as [[s h]|[s h]|h], b as [[s' h']|[s' h']|h']; unfold voter_code_key; cbn [cr_script cr_hash];
    intros H; try discriminate; injection H; intros; subst; try reflexivity;
    match goal with Hs : (if _ then _ else _) = _ |- _ => apply flag_inj in Hs; [subst; reflexivity | discriminate] end.
Qed.
Lemma voter_code_st : strict_total voter_code_ltb.
Proof. apply on_strict_total; [apply voter_code_key_inj | apply key3_st]. Qed.
Lemma voter_ledger_key_inj a b : voter_ledger_key a = voter_ledger_key b -> a = b.
Proof.
  destruct a as [[s h]|[s h]|h], b as [[s' h']|[s' h']|h']; unfold voter_ledger_key, cred_ledger_key; cbn [cr_script cr_hash];
    intros H; try discriminate; injection H; intros; subst; try reflexivity;
    match goal with Hs : (if _ then _ else _) = _ |- _ => apply flag_inj in Hs; [subst; reflexivity | discriminate] end.
Qed.
Lemma voter_ledger_st : strict_total voter_ledger_ltb.
Proof. apply on_strict_total; [apply voter_ledger_key_inj | apply key3_st]. Qed.

(* VotingBuilder::ledger_order_key orders voters exactly as the ledger does *)
Lemma voter_code_ledger v1 v2 : voter_code_ltb v1 v2 = voter_ledger_ltb v1 v2.
Proof.
  assert (H02 : (0 <? 2) = true) by reflexivity. assert (H20 : (2 <? 0) = false) by reflexivity.
  assert (H12 : (1 <? 2) = true) by reflexivity. assert (H21 : (2 <? 1) = false) by reflexivity.
  destruct v1 as [c1|c1|h1], v2 as [c2|c2|h2];
    unfold voter_code_ltb, voter_ledger_ltb, on_ltb, voter_code_key, voter_ledger_key, cred_ledger_key, key3_ltb, lex_ltb;
    cbn [fst snd]; rewrite ?H02, ?H20, ?H12, ?H21, ?N.ltb_irrefl; reflexivity.
Qed.

Lemma cert_key_inj a b : cert_key a = cert_key b -> a = b.
Proof.
  destruct a as [k s i], b as [k' s' i']. unfold cert_key. cbn [c_kind c_script c_id].
  intros H. injection H as -> Hs ->. apply flag_inj in Hs; [subst; reflexivity | discriminate].
Qed.
Lemma cert_st : strict_total cert_ltb.
Proof.
  apply on_strict_total; [apply cert_key_inj|].
  apply lex_strict_total; [apply N_strict_total | apply lex_strict_total; apply N_strict_total].
Qed.
Lemma prop_key_inj a b : prop_rust_key a = prop_rust_key b -> a = b.
Proof. destruct a, b. unfold prop_rust_key. cbn. intros H. injection H as -> -> ->. reflexivity. Qed.
Lemma prop_st : strict_total prop_rust_ltb.
Proof.
  apply on_strict_total; [apply prop_key_inj|].
  apply lex_strict_total; [apply N_strict_total | apply lex_strict_total; [apply opt_strict_total, bytes_strict_total | apply N_strict_total]].
Qed.

(* two order functions that are both strict total orders give the same equality test *)
Lemma eqb_of_indep {A} (l1 l2 : A -> A -> bool) : strict_total l1 -> strict_total l2 -> forall x y, eqb_of l1 x y = eqb_of l2 x y.
Proof.
  intros S1 S2 x y. destruct (eqb_of l2 x y) eqn:E.
  - apply (eqb_of_true l2 S2) in E. subst. apply eqb_of_refl, S1.
  - apply (eqb_of_false l2 S2) in E. apply (eqb_of_false l1 S1). exact E.
Qed.

(* Certificate::has_required_script_witness is the ledger's table *)
Lemma cert_locked_code_ledger c : cert_has_required_script_witness c = ledger_cert_script_locked c.
Proof.
  unfold cert_has_required_script_witness, ledger_cert_script_locked, cert_cred_kinds.
  destruct c as [k s i]. cbn [c_kind c_script].
  destruct (N.lt_ge_cases k 19) as [Hlt|Hge].
  - assert (k = 0 \/ k = 1 \/ k = 2 \/ k = 3 \/ k = 4 \/ k = 5 \/ k = 6 \/ k = 7 \/ k = 8 \/ k = 9 \/ k = 10 \/ k = 11
            \/ k = 12 \/ k = 13 \/ k = 14 \/ k = 15 \/ k = 16 \/ k = 17 \/ k = 18) as H by lia.
    repeat (destruct H as [->|H]; [reflexivity|]). subst. reflexivity.
  - cbn [existsb].
    repeat match goal with |- context [N.eqb k ?n] => replace (N.eqb k n) with false by (symmetry; apply N.eqb_neq; lia) end.
    replace (k <=? 18) with false by (symmetry; apply N.leb_gt; lia). reflexivity.
Qed.

(* ---------------------------------------------------------------------------------------- *)
(* the transaction builder's state after a call sequence, component by component *)
Definition step_st (st : txb) (o : op) : txb := fst (step st o).
Definition apply_res {A} (r : result A) (old : A) : A := match r with Ok a => a | _ => old end.
Definition mint_apply (st : mbuilder) (o : mint_op) : mbuilder := apply_res (mint_step st o) st.
Definition cert_apply (st : cbuilder) (o : wop cert) : cbuilder := apply_res (cert_step st o) st.
Definition wd_apply (st : wbuilder) (o : wop racct) : wbuilder := apply_res (wd_step st o) st.
Definition vote_apply (st : vbuilder) (o : wop voter) : vbuilder := apply_res (vote_step st o) st.
Definition prop_apply (st : pbuilder) (o : wop proposal) : pbuilder := apply_res (prop_step st o) st.

Lemma run_from_fst ops : forall st fl,
  fst (fold_left (fun acc o => let (st', ok) := step (fst acc) o in (st', snd acc ++ [ok])) ops (st, fl)) = fold_left step_st ops st.
Proof.
  induction ops as [|o ops IH]; intros st fl; cbn [fold_left]; [reflexivity|].
  cbn [fst snd]. unfold step_st at 2. destruct (step st o) as [st' ok]. cbn [fst]. apply IH.
Qed.
Lemma run_state ops : fst (run ops) = fold_left step_st ops txb_empty.
Proof. unfold run, run_from. apply run_from_fst. Qed.

Ltac step_cases o :=
  unfold step_st, step; destruct o; cbn [fst fold_left];
  unfold mint_apply, cert_apply, wd_apply, vote_apply, prop_apply, apply_res;
  unfold utxo_calls;
  try match goal with |- context [utxo_effect ?e ?a ?h ?x ?r] => destruct (utxo_effect e a h x r) end;
  try match goal with c : bool |- _ => destruct c end;
  repeat match goal with |- context [match ?r with Ok _ => _ | Err => _ | Panic => _ | OutOfFuel => _ end] => destruct r end;
  cbn [fst t_inputs t_collateral t_mint t_certs t_wdrl t_votes t_props t_mint_amt t_hash flat_map app apply_res fold_left].

Lemma proj_inputs ops : forall st, t_inputs (fold_left step_st ops st) = fold_left ib_step (ops_in ops) (t_inputs st).
Proof.
  induction ops as [|o ops IH]; intros st; [reflexivity|]. cbn [fold_left]. rewrite IH. unfold ops_in. cbn [flat_map].
  rewrite fold_left_app. f_equal. step_cases o; reflexivity.
Qed.
Lemma proj_collateral ops : forall st, t_collateral (fold_left step_st ops st) = fold_left ib_step (ops_col ops) (t_collateral st).
Proof.
  induction ops as [|o ops IH]; intros st; [reflexivity|]. cbn [fold_left]. rewrite IH. unfold ops_col. cbn [flat_map].
  rewrite fold_left_app. f_equal. step_cases o; reflexivity.
Qed.
Lemma proj_mint ops : forall st, t_mint (fold_left step_st ops st) = fold_left mint_apply (ops_mint ops) (t_mint st).
Proof.
  induction ops as [|o ops IH]; intros st; [reflexivity|]. cbn [fold_left]. rewrite IH. unfold ops_mint. cbn [flat_map].
  rewrite fold_left_app. f_equal. unfold mint_apply. step_cases o; reflexivity.
Qed.
Lemma proj_certs ops : forall st, t_certs (fold_left step_st ops st) = fold_left cert_apply (ops_cert ops) (t_certs st).
Proof.
  induction ops as [|o ops IH]; intros st; [reflexivity|]. cbn [fold_left]. rewrite IH. unfold ops_cert. cbn [flat_map].
  rewrite fold_left_app. f_equal. unfold cert_apply. step_cases o; reflexivity.
Qed.
Lemma proj_wdrl ops : forall st, t_wdrl (fold_left step_st ops st) = fold_left wd_apply (ops_wd ops) (t_wdrl st).
Proof.
  induction ops as [|o ops IH]; intros st; [reflexivity|]. cbn [fold_left]. rewrite IH. unfold ops_wd. cbn [flat_map].
  rewrite fold_left_app. f_equal. unfold wd_apply. step_cases o; reflexivity.
Qed.
Lemma proj_votes ops : forall st, t_votes (fold_left step_st ops st) = fold_left vote_apply (ops_vote ops) (t_votes st).
Proof.
  induction ops as [|o ops IH]; intros st; [reflexivity|]. cbn [fold_left]. rewrite IH. unfold ops_vote. cbn [flat_map].
  rewrite fold_left_app. f_equal. unfold vote_apply. step_cases o; reflexivity.
Qed.
Lemma proj_props ops : forall st, t_props (fold_left step_st ops st) = fold_left prop_apply (ops_prop ops) (t_props st).
Proof.
  induction ops as [|o ops IH]; intros st; [reflexivity|]. cbn [fold_left]. rewrite IH. unfold ops_prop. cbn [flat_map].
  rewrite fold_left_app. f_equal. unfold prop_apply. step_cases o; reflexivity.
Qed.

(* ---------------------------------------------------------------------------------------- *)
(* the "asked for" maps *)
Section FinalFacts.
  Context {O K V : Type} (keqb : K -> K -> bool) (okey : O -> K) (oval : O -> V) (accept : O -> bool).
  Lemma final_last_snoc ops o :
    final_last keqb okey oval accept (ops ++ [o]) =
    if accept o then upd keqb (final_last keqb okey oval accept ops) (okey o) (oval o) else final_last keqb okey oval accept ops.
  Proof. unfold final_last. rewrite fold_left_app. reflexivity. Qed.
  Lemma final_first_snoc ops o :
    final_first keqb okey oval accept (ops ++ [o]) =
    if accept o then match final_first keqb okey oval accept ops (okey o) with
                     | Some _ => final_first keqb okey oval accept ops
                     | None => upd keqb (final_first keqb okey oval accept ops) (okey o) (oval o)
                     end
    else final_first keqb okey oval accept ops.
  Proof. unfold final_first. rewrite fold_left_app. reflexivity. Qed.

  Hypothesis keqb_true : forall x y, keqb x y = true -> x = y.
  (* a value of the map always comes from an accepted call for that item *)
  Lemma final_last_origin ops : forall k v, final_last keqb okey oval accept ops k = Some v ->
    exists o, In o ops /\ accept o = true /\ okey o = k /\ oval o = v.
  Proof.
    induction ops as [|o ops IH] using rev_ind; intros k v; [discriminate|].
    rewrite final_last_snoc. destruct (accept o) eqn:A.
    - unfold upd. destruct (keqb (okey o) k) eqn:E.
      + intros H. injection H as <-. exists o. rewrite in_app_iff. cbn. auto using keqb_true.
      + intros H. destruct (IH _ _ H) as (o' & Hin & ?). exists o'. rewrite in_app_iff. auto.
    - intros H. destruct (IH _ _ H) as (o' & Hin & ?). exists o'. rewrite in_app_iff. auto.
  Qed.
  Lemma final_first_origin ops : forall k v, final_first keqb okey oval accept ops k = Some v ->
    exists o, In o ops /\ accept o = true /\ okey o = k /\ oval o = v.
  Proof.
    induction ops as [|o ops IH] using rev_ind; intros k v; [discriminate|].
    rewrite final_first_snoc. destruct (accept o) eqn:A.
    - destruct (final_first keqb okey oval accept ops (okey o)) eqn:F.
      + intros H. destruct (IH _ _ H) as (o' & Hin & ?). exists o'. rewrite in_app_iff. auto.
      + unfold upd. destruct (keqb (okey o) k) eqn:E.
        * intros H. injection H as <-. exists o. rewrite in_app_iff. cbn. auto using keqb_true.
        * intros H. destruct (IH _ _ H) as (o' & Hin & ?). exists o'. rewrite in_app_iff. auto.
    - intros H. destruct (IH _ _ H) as (o' & Hin & ?). exists o'. rewrite in_app_iff. auto.
  Qed.
End FinalFacts.

(* ---------------------------------------------------------------------------------------- *)
(* redeemers emitted by enumerating an association list item -> witness *)
Lemma redeemer_eta r : r = mkR (r_tag r) (r_index r) (r_data r).
Proof. destruct r; reflexivity. Qed.

Section Entries.
  Context {K : Type} (ltb : K -> K -> bool) (ST : strict_total ltb) (T : tag).
  Local Notation keq := (eqb_of ltb).

  Lemma wentries_spec_from (st : list (K * option wit)) : forall s, NoDup (map fst st) -> forall r,
    In r (flat_map (wentry_redeemer T) (enum_from s st)) <->
    r_tag r = T /\ exists k, al_get ltb k st = Some (Some (WPlutus (r_data r)))
                             /\ option_map (N.add s) (index_of ltb k (map fst st)) = Some (r_index r).
  Proof.
    induction st as [|[k0 w0] t IH]; intros s ND r.
    - cbn. split; [contradiction | intros (_ & k & H & _); discriminate].
    - inversion ND as [|? ? Hk0 NDt]; subst. cbn [enum_from flat_map]. rewrite in_app_iff, (IH (s + 1) NDt r).
      unfold wentry_redeemer at 1. cbn [fst snd map al_get index_of].
      split.
      + intros [H|(Ht & k & Hg & Hi)].
        * destruct w0 as [[|rid]|]; cbn [plutus_rid] in H; try contradiction. destruct H as [<-|[]].
          cbn [r_tag r_index r_data]. split; [reflexivity|]. exists k0. rewrite (keq_refl ltb ST). cbn [option_map].
          split; [reflexivity | f_equal; lia].
        * split; [exact Ht|]. exists k.
          assert (k0 <> k) as Hne by (intros ->; apply Hk0; eapply al_get_some_key; [exact ST | exact Hg]).
          apply (keq_false ltb ST) in Hne. rewrite Hne. split; [exact Hg|].
          destruct (index_of ltb k (map fst t)) as [j|]; cbn [option_map] in *; [|discriminate].
          injection Hi as <-. f_equal. lia.
      + intros (Ht & k & Hg & Hi). destruct (keq k0 k) eqn:E.
        * left. injection Hg as ->. cbn [plutus_rid option_map] in *. injection Hi as Hi. left.
          rewrite (redeemer_eta r). f_equal; [symmetry; exact Ht | lia].
        * right. split; [exact Ht|]. exists k. split; [exact Hg|].
          destruct (index_of ltb k (map fst t)) as [j|]; cbn [option_map] in *; [|discriminate].
          injection Hi as <-. f_equal. lia.
  Qed.

  Lemma wentries_spec (st : list (K * option wit)) : NoDup (map fst st) -> forall r,
    In r (flat_map (wentry_redeemer T) (enum_from 0 st)) <->
    r_tag r = T /\ exists k, al_get ltb k st = Some (Some (WPlutus (r_data r)))
                             /\ index_of ltb k (map fst st) = Some (r_index r).
  Proof.
    intros ND r. rewrite (wentries_spec_from st 0 ND r). split; intros (Ht & k & Hg & Hi); (split; [exact Ht|]); exists k; (split; [exact Hg|]).
    - destruct (index_of ltb k (map fst st)); cbn [option_map] in *; [|discriminate]. injection Hi as <-. f_equal.
    - rewrite Hi. reflexivity.
  Qed.
End Entries.

(* ---------------------------------------------------------------------------------------- *)
(* generic shape of the statement for one tag, from a lookup-level description of the state *)
Lemma not_none_iff {A} (x : option A) : x <> None <-> exists a, x = Some a.
Proof. destruct x; split; try congruence; [eauto | intros [a H]; discriminate]. Qed.

(* ======================== withdrawals ======================== *)
Lemma wd_refine ops : let st := fold_left wd_apply ops [] in
  NoDup (map fst st) /\ forall a, al_get racct_code_ltb a st = wd_final ops a.
Proof.
  induction ops as [|o ops IH] using rev_ind; [split; [constructor | reflexivity]|].
  cbv zeta in *. rewrite fold_left_app. cbn [fold_left]. destruct IH as [ND G].
  unfold wd_final. rewrite final_last_snoc. fold (wd_final ops).
  unfold wd_apply, wd_step, wd_accept.
  destruct (Bool.eqb (cr_script (ra_cred (wop_key o))) (wop_wants_script o)); cbn [negb apply_res]; [|split; assumption].
  split; [apply lm_insert_nodup; [apply racct_code_st | exact ND]|].
  intros a. rewrite (lm_insert_get racct_code_ltb racct_code_st). unfold upd. rewrite G. reflexivity.
Qed.

Lemma wd_pointers ops : let st := fold_left wd_apply ops [] in
  spec_field (wd_final ops) (wd_body st) /\
  spec_pointers TReward (wd_final ops) (fun k => ledger_set_index racct_ledger_ltb k (wd_body st)) (wd_plutus st).
Proof.
  cbv zeta. destruct (wd_refine ops) as [ND G]. set (st := fold_left wd_apply ops []) in *.
  assert (Hkeys : wd_body st = sset_sort racct_code_ltb (map fst st)) by apply (sm_sort_keys racct_code_ltb racct_code_st).
  assert (Hsorted : sortedk racct_code_ltb (wd_body st)) by (rewrite Hkeys; apply sset_sort_sorted, racct_code_st).
  split.
  - intros a. rewrite Hkeys, (sset_sort_In racct_code_ltb racct_code_st), <- G.
    split; [intros H E; apply (al_get_none racct_code_ltb racct_code_st) in E; contradiction|].
    intros H. destruct (al_get racct_code_ltb a st) eqn:E; [eapply al_get_some_key; [apply racct_code_st | exact E] | congruence].
  - intros r Ht. unfold wd_plutus.
    rewrite (wentries_spec racct_code_ltb racct_code_st TReward (wd_ordered st)) by (apply sortedk_nodup with (ltb := racct_code_ltb); [apply racct_code_st | exact Hsorted]).
    unfold ledger_set_index. rewrite <- racct_code_ledger.
    fold (wd_body st). rewrite (sset_sort_of_sorted racct_code_ltb racct_code_st _ Hsorted).
    split.
    + intros (_ & k & Hg & Hi). exists k, (r_data r). unfold wd_ordered in Hg.
      rewrite (sm_sort_get racct_code_ltb racct_code_st), G in Hg. auto.
    + intros (k & rid & Hf & Hi & Hd). subst rid. split; [exact Ht|]. exists k. unfold wd_ordered.
      rewrite (sm_sort_get racct_code_ltb racct_code_st), G. auto.
Qed.

Lemma wd_locked ops : spec_locked (wd_final ops) (fun a => cr_script (ra_cred a)).
Proof.
  intros a rid H. apply final_last_origin in H; [|intros x y E; apply (eqb_of_true _ racct_ledger_st); exact E].
  destruct H as (o & _ & A & <- & W). unfold wd_accept in A. destruct o; cbn in *; try discriminate.
  destruct (cr_script (ra_cred k)); [reflexivity | discriminate].
Qed.

(* ======================== certificates ======================== *)
Lemma cert_refine ops : let st := fold_left cert_apply ops [] in
  NoDup (map fst st) /\ forall c, al_get cert_ltb c st = cert_final ops c.
Proof.
  induction ops as [|o ops IH] using rev_ind; [split; [constructor | reflexivity]|].
  cbv zeta in *. rewrite fold_left_app. cbn [fold_left]. destruct IH as [ND G].
  unfold cert_final. rewrite final_first_snoc. fold (cert_final ops).
  unfold cert_apply, cert_step, cert_accept. rewrite cert_locked_code_ledger.
  destruct (Bool.eqb (ledger_cert_script_locked (wop_key o)) (wop_wants_script o)); cbn [negb apply_res]; [|split; assumption].
  unfold al_mem. rewrite G. destruct (cert_final ops (wop_key o)) eqn:F; cbn [apply_res]; [split; assumption|].
  split; [apply lm_insert_nodup; [apply cert_st | exact ND]|].
  intros c. rewrite (lm_insert_get cert_ltb cert_st). unfold upd. rewrite G. reflexivity.
Qed.

Lemma cert_pointers ops : let st := fold_left cert_apply ops [] in
  spec_field (cert_final ops) (cert_body st) /\
  spec_pointers TCert (cert_final ops) (fun k => ledger_seq_index cert_ltb k (cert_body st)) (cert_plutus st).
Proof.
  cbv zeta. destruct (cert_refine ops) as [ND G]. set (st := fold_left cert_apply ops []) in *.
  split.
  - intros c. unfold cert_body. rewrite <- G.
    split; [intros H E; apply (al_get_none cert_ltb cert_st) in E; contradiction|].
    intros H. destruct (al_get cert_ltb c st) eqn:E; [eapply al_get_some_key; [apply cert_st | exact E] | congruence].
  - intros r Ht. unfold cert_plutus, ledger_seq_index, cert_body. rewrite (wentries_spec cert_ltb cert_st TCert st ND).
    split.
    + intros (_ & k & Hg & Hi). exists k, (r_data r). rewrite G in Hg. auto.
    + intros (k & rid & Hf & Hi & Hd). subst rid. split; [exact Ht|]. exists k. rewrite G. auto.
Qed.

Lemma cert_locked ops : spec_locked (cert_final ops) ledger_cert_script_locked.
Proof.
  intros c rid H. apply final_first_origin in H; [|intros x y E; apply (eqb_of_true _ cert_st); exact E].
  destruct H as (o & _ & A & <- & W). unfold cert_accept in A. destruct o; cbn in *; try discriminate.
  destruct (ledger_cert_script_locked k); [reflexivity | discriminate].
Qed.

(* ======================== proposals ======================== *)
Lemma prop_refine ops : let st := fold_left prop_apply ops [] in
  sortedk prop_rust_ltb (map fst st) /\ forall p, al_get prop_rust_ltb p st = prop_final ops p.
Proof.
  induction ops as [|o ops IH] using rev_ind; [split; [constructor | reflexivity]|].
  cbv zeta in *. rewrite fold_left_app. cbn [fold_left]. destruct IH as [S G].
  unfold prop_final. rewrite final_last_snoc. fold (prop_final ops).
  unfold prop_apply, prop_step, prop_accept.
  assert (Hins : forall p w, sortedk prop_rust_ltb (map fst (sm_insert prop_rust_ltb p w (fold_left prop_apply ops []))) /\
                             forall p', al_get prop_rust_ltb p' (sm_insert prop_rust_ltb p w (fold_left prop_apply ops []))
                                        = upd (eqb_of prop_rust_ltb) (prop_final ops) p w p').
  { intros p w. split; [rewrite (sm_insert_keys prop_rust_ltb prop_st); apply sset_insert_sorted; [apply prop_st | exact S]|].
    intros p'. unfold upd. destruct (eqb_of prop_rust_ltb p p') eqn:E.
    - apply (eqb_of_true _ prop_st) in E. subst. apply sm_insert_get_same, prop_st.
    - apply (eqb_of_false _ prop_st) in E. rewrite (sm_insert_get_other prop_rust_ltb prop_st) by congruence. apply G. }
  destruct o as [p|p|p rid]; cbn [wop_key wop_wit].
  - destruct (prop_has_script_hash p); cbn [negb apply_res]; [split; assumption | apply Hins].
  - cbn [apply_res]. split; assumption.
  - cbn [apply_res]. apply Hins.
Qed.

Lemma prop_pointers ops : let st := fold_left prop_apply ops [] in
  spec_field (prop_final ops) (prop_body st) /\
  spec_pointers TPropose (prop_final ops) (fun k => ledger_seq_index prop_rust_ltb k (prop_body st)) (prop_plutus st).
Proof.
  cbv zeta. destruct (prop_refine ops) as [S G]. set (st := fold_left prop_apply ops []) in *.
  assert (ND : NoDup (map fst st)) by (apply sortedk_nodup with (ltb := prop_rust_ltb); [apply prop_st | exact S]).
  split.
  - intros c. unfold prop_body. rewrite <- G.
    split; [intros H E; apply (al_get_none prop_rust_ltb prop_st) in E; contradiction|].
    intros H. destruct (al_get prop_rust_ltb c st) eqn:E; [eapply al_get_some_key; [apply prop_st | exact E] | congruence].
  - intros r Ht. unfold prop_plutus, ledger_seq_index, prop_body. rewrite (wentries_spec prop_rust_ltb prop_st TPropose st ND).
    split.
    + intros (_ & k & Hg & Hi). exists k, (r_data r). rewrite G in Hg. auto.
    + intros (k & rid & Hf & Hi & Hd). subst rid. split; [exact Ht|]. exists k. rewrite G. auto.
Qed.

(* a proposal holds a Plutus witness only if it has a policy hash -- outside the known class *)
Lemma prop_locked ops :
  existsb (fun e => match plutus_rid (snd e) with Some _ => negb (prop_has_script_hash (fst e)) | None => false end)
          (fold_left prop_apply ops []) = false ->
  spec_locked (prop_final ops) prop_has_script_hash.
Proof.
  intros Hk p rid H. destruct (prop_refine ops) as [_ G]. rewrite <- G in H.
  apply (al_get_In prop_rust_ltb prop_st) in H.
  destruct (prop_has_script_hash p) eqn:E; [reflexivity|]. exfalso.
  assert (X : existsb (fun e => match plutus_rid (snd e) with Some _ => negb (prop_has_script_hash (fst e)) | None => false end)
                      (fold_left prop_apply ops []) = true).
  { apply existsb_exists. eexists. split; [exact H|]. cbn. rewrite E. reflexivity. }
  congruence.
Qed.

(* ======================== votes ======================== *)
Lemma vote_refine ops : let st := fold_left vote_apply ops [] in
  sortedk voter_rust_ltb (map fst st) /\ forall v, al_get voter_rust_ltb v st = vote_final ops v.
Proof.
  induction ops as [|o ops IH] using rev_ind; [split; [constructor | reflexivity]|].
  cbv zeta in *. rewrite fold_left_app. cbn [fold_left]. destruct IH as [S G].
  unfold vote_final. rewrite final_first_snoc. fold (vote_final ops).
  unfold vote_apply, vote_step, vote_accept.
  destruct (Bool.eqb (voter_has_script (wop_key o)) (wop_wants_script o)); cbn [negb apply_res]; [|split; assumption].
  split; [apply sm_or_insert_keys_sorted; [apply voter_rust_st | exact S]|].
  intros v. rewrite (sm_or_insert_get voter_rust_ltb voter_rust_st), !G.
  destruct (vote_final ops (wop_key o)); [reflexivity|]. unfold upd.
  rewrite (eqb_of_indep voter_ledger_ltb voter_rust_ltb voter_ledger_st voter_rust_st). reflexivity.
Qed.

Lemma vote_pointers ops : let st := fold_left vote_apply ops [] in
  spec_field (vote_final ops) (vote_body st) /\
  spec_pointers TVote (vote_final ops) (fun k => ledger_set_index voter_ledger_ltb k (vote_body st)) (vote_plutus st).
Proof.
  cbv zeta. destruct (vote_refine ops) as [S G]. set (st := fold_left vote_apply ops []) in *.
  assert (ND : NoDup (map fst st)) by (apply sortedk_nodup with (ltb := voter_rust_ltb); [apply voter_rust_st | exact S]).
  assert (Hrank : forall v, rank voter_code_ltb v (map fst st) = rank voter_ledger_ltb v (map fst st)).
  { intros v. unfold rank. f_equal. f_equal. apply filter_ext. intros y. apply voter_code_ledger. }
  split.
  - intros c. unfold vote_body. rewrite <- G.
    split; [intros H E; apply (al_get_none voter_rust_ltb voter_rust_st) in E; contradiction|].
    intros H. destruct (al_get voter_rust_ltb c st) eqn:E; [eapply al_get_some_key; [apply voter_rust_st | exact E] | congruence].
  - intros r Ht. unfold vote_plutus, vote_body, ledger_set_index. rewrite in_flat_map.
    split.
    + intros ([v w] & Hin & Hr). unfold vote_entry_redeemer in Hr. cbn [fst snd] in Hr.
      destruct w as [[|rid]|]; cbn [plutus_rid] in Hr; try contradiction. destruct Hr as [<-|[]]. cbn [r_index r_data].
      exists v, rid. split; [rewrite <- G; apply (al_get_nodup voter_rust_ltb voter_rust_st); assumption|].
      split; [|reflexivity]. rewrite Hrank.
      apply (sorted_index_rank voter_ledger_ltb voter_ledger_st); [exact ND|]. apply (in_map fst) in Hin. exact Hin.
    + intros (v & rid & Hf & Hi & Hd). subst rid. rewrite <- G in Hf.
      pose proof (al_get_In voter_rust_ltb voter_rust_st _ _ _ Hf) as Hin.
      exists (v, Some (WPlutus (r_data r))). split; [exact Hin|]. unfold vote_entry_redeemer. cbn [fst snd plutus_rid]. left.
      rewrite (sorted_index_rank voter_ledger_ltb voter_ledger_st) in Hi; [| exact ND | apply (in_map fst) in Hin; exact Hin].
      injection Hi as Hi. rewrite Hrank, Hi, <- Ht. symmetry. apply redeemer_eta.
Qed.

Lemma vote_locked ops : spec_locked (vote_final ops) voter_has_script.
Proof.
  intros c rid H. apply final_first_origin in H; [|intros x y E; apply (eqb_of_true _ voter_ledger_st); exact E].
  destruct H as (o & _ & A & <- & W). unfold vote_accept in A. destruct o; cbn in *; try discriminate.
  destruct (voter_has_script k); [reflexivity | discriminate].
Qed.

(* ======================== mint ======================== *)
Definition mint_conv_wit : mint_wit -> option wit :=
  fun w => match w with MNative _ => Some WNative | MPlutus _ r => Some (WPlutus r) end.
Definition mint_conv (st : mbuilder) : list (bytes * option wit) := map (fun e => (fst e, mint_conv_wit (snd e))) st.

Lemma mint_plutus_conv st : forall s,
  flat_map mint_entry_redeemer (enum_from s st) = flat_map (wentry_redeemer TMint) (enum_from s (mint_conv st)).
Proof.
  induction st as [|[p w] t IH]; intros s; [reflexivity|].
  cbn [enum_from mint_conv map flat_map]. fold (mint_conv t). rewrite IH. f_equal.
  unfold mint_entry_redeemer, wentry_redeemer. cbn [fst snd]. destruct w; reflexivity.
Qed.
Lemma mint_conv_get p st : al_get bytes_ltb p (mint_conv st) = option_map mint_conv_wit (al_get bytes_ltb p st).
Proof.
  induction st as [|[p' w] t IH]; [reflexivity|]. cbn [mint_conv map al_get fst snd]. fold (mint_conv t).
  destruct (eqb_of bytes_ltb p' p); [reflexivity | exact IH].
Qed.
Lemma mint_conv_keys st : map fst (mint_conv st) = map fst st.
Proof. unfold mint_conv. rewrite map_map. reflexivity. Qed.

Lemma mint_refine ops : let st := fold_left mint_apply ops [] in
  sortedk bytes_ltb (map fst st) /\ forall p, al_get bytes_ltb p st = mint_final ops p.
Proof.
  induction ops as [|o ops IH] using rev_ind; [split; [constructor | reflexivity]|].
  cbv zeta in *. rewrite fold_left_app. cbn [fold_left]. destruct IH as [S G].
  unfold mint_final. rewrite final_first_snoc. fold (mint_final ops).
  unfold mint_apply, mint_step.
  destruct (mo_zero o); cbn [negb apply_res]; [split; assumption|].
  rewrite G. destruct (mint_final ops (mo_policy o)) as [cur|] eqn:F.
  - destruct (mint_compatible cur (mo_wit o)); cbn [apply_res]; split; assumption.
  - cbn [apply_res]. split; [rewrite (sm_insert_keys bytes_ltb bytes_strict_total); apply sset_insert_sorted; [apply bytes_strict_total | exact S]|].
    intros p. unfold upd. destruct (eqb_of bytes_ltb (mo_policy o) p) eqn:E.
    + apply (eqb_of_true _ bytes_strict_total) in E. subst. apply sm_insert_get_same, bytes_strict_total.
    + apply (eqb_of_false _ bytes_strict_total) in E. rewrite (sm_insert_get_other bytes_ltb bytes_strict_total) by congruence. apply G.
Qed.

Lemma mint_pointers ops : let st := fold_left mint_apply ops [] in
  spec_field (mint_wits (mint_final ops)) (mint_body st) /\
  spec_pointers TMint (mint_wits (mint_final ops)) (fun k => ledger_set_index policy_ledger_ltb k (mint_body st)) (mint_plutus st).
Proof.
  cbv zeta. destruct (mint_refine ops) as [S G]. set (st := fold_left mint_apply ops []) in *.
  assert (ND : NoDup (map fst (mint_conv st))).
  { rewrite mint_conv_keys. apply sortedk_nodup with (ltb := bytes_ltb); [apply bytes_strict_total | exact S]. }
  split.
  - intros p. unfold mint_body, mint_wits. rewrite <- G.
    split.
    + intros H E. destruct (al_get bytes_ltb p st) eqn:E2; [discriminate|].
      apply (al_get_none bytes_ltb bytes_strict_total) in E2. contradiction.
    + intros H. destruct (al_get bytes_ltb p st) eqn:E; [eapply al_get_some_key; [apply bytes_strict_total | exact E] | cbn in H; congruence].
  - intros r Ht. unfold mint_plutus, ledger_set_index, policy_ledger_ltb, mint_body. rewrite mint_plutus_conv.
    rewrite (wentries_spec bytes_ltb bytes_strict_total TMint (mint_conv st) ND).
    rewrite mint_conv_keys, (sset_sort_of_sorted bytes_ltb bytes_strict_total _ S).
    split.
    + intros (_ & k & Hg & Hi). exists k, (r_data r). rewrite mint_conv_get, G in Hg. auto.
    + intros (k & rid & Hf & Hi & Hd). subst rid. split; [exact Ht|]. exists k. rewrite mint_conv_get, G. auto.
Qed.

(* ======================== inputs ======================== *)
Definition wit2 (st : ibuilder) (h : bytes) (o : outpoint) : option (option wit) :=
  match al_get bytes_ltb h (ib_scripts st) with Some inner => al_get outpoint_ltb o inner | None => None end.
Definition ib_inv (st : ibuilder) : Prop :=
  sortedk outpoint_ltb (map fst (ib_inputs st)) /\ NoDup (map fst (ib_scripts st)) /\
  (forall h inner, In (h, inner) (ib_scripts st) -> NoDup (map fst inner)).

Lemma lm_insert_In {K V} (ltb : K -> K -> bool) (k : K) (v : V) l p : In p (lm_insert ltb k v l) -> p = (k, v) \/ In p l.
Proof.
  unfold lm_insert, lm_remove. rewrite in_app_iff, filter_In. cbn [In]. intros [[H _]|[H|[]]]; [right; exact H | left; symmetry; exact H].
Qed.

Lemma ib_push_inv o hh st : ib_inv st -> ib_inv (ib_push o hh st).
Proof.
  intros (S & ND & I). unfold ib_inv, ib_push. cbn [ib_inputs ib_scripts]. split; [|split; assumption].
  rewrite (sm_insert_keys outpoint_ltb outpoint_st). apply sset_insert_sorted; [apply outpoint_st | exact S].
Qed.
Lemma ib_push_get o hh st o' :
  al_get outpoint_ltb o' (ib_inputs (ib_push o hh st)) = if eqb_of outpoint_ltb o o' then Some hh else al_get outpoint_ltb o' (ib_inputs st).
Proof.
  unfold ib_push. cbn [ib_inputs]. destruct (eqb_of outpoint_ltb o o') eqn:E.
  - apply (eqb_of_true _ outpoint_st) in E. subst. apply sm_insert_get_same, outpoint_st.
  - apply (eqb_of_false _ outpoint_st) in E. apply (sm_insert_get_other outpoint_ltb outpoint_st). congruence.
Qed.

Lemma ib_set_wit_inv h o w st : ib_inv st -> ib_inv (ib_set_wit h o w st).
Proof.
  intros (S & ND & I). unfold ib_inv, ib_set_wit. cbn [ib_inputs ib_scripts]. split; [exact S|]. split.
  - apply lm_insert_nodup; [apply bytes_strict_total | exact ND].
  - intros h' inner' Hin. apply lm_insert_In in Hin as [E|Hin]; [|eapply I, Hin].
    injection E as -> ->. apply lm_insert_nodup; [apply outpoint_st|].
    destruct (al_get bytes_ltb h (ib_scripts st)) as [m|] eqn:E; [|constructor].
    eapply I. eapply al_get_In; [apply bytes_strict_total | exact E].
Qed.
Lemma wit2_set_wit h o w st h' o' :
  wit2 (ib_set_wit h o w st) h' o' =
  if eqb_of bytes_ltb h h' && eqb_of outpoint_ltb o o' then Some w else wit2 st h' o'.
Proof.
  unfold wit2, ib_set_wit. cbn [ib_scripts]. rewrite (lm_insert_get bytes_ltb bytes_strict_total).
  destruct (eqb_of bytes_ltb h h') eqn:E; cbn [andb]; [|reflexivity].
  apply (eqb_of_true _ bytes_strict_total) in E. subst h'. rewrite (lm_insert_get outpoint_ltb outpoint_st).
  destruct (eqb_of outpoint_ltb o o'); [reflexivity|]. destruct (al_get bytes_ltb h (ib_scripts st)); reflexivity.
Qed.

Lemma spend_refine ops : let st := fold_left ib_step ops ib_empty in
  ib_inv st /\
  (forall o, al_get outpoint_ltb o (ib_inputs st) = option_map (option_map fst) (spend_final ops o)) /\
  (forall o h w, spend_final ops o = Some (Some (h, w)) -> wit2 st h o = Some (Some w)).
Proof.
  induction ops as [|op ops IH] using rev_ind.
  - cbv zeta. cbn. split; [split; [constructor | split; [constructor | intros ? ? []]]|]. split; [reflexivity | discriminate].
  - cbv zeta in *. rewrite fold_left_app. cbn [fold_left]. destruct IH as (I & B & D).
    set (st := fold_left ib_step ops ib_empty) in *.
    unfold spend_final. rewrite final_last_snoc. fold (spend_final ops). cbv beta iota.
    assert (Hscript : forall h o w,
      ib_inv (ib_add_script h o w st) /\
      (forall o', al_get outpoint_ltb o' (ib_inputs (ib_add_script h o w st)) =
                  option_map (option_map fst) (upd (eqb_of outpoint_ltb) (spend_final ops) o (Some (h, w)) o')) /\
      (forall o' h' w', upd (eqb_of outpoint_ltb) (spend_final ops) o (Some (h, w)) o' = Some (Some (h', w')) ->
                        wit2 (ib_add_script h o w st) h' o' = Some (Some w'))).
    { intros h o w. unfold ib_add_script. split; [apply ib_set_wit_inv, ib_set_wit_inv, ib_push_inv, I|]. split.
      - intros o'. unfold ib_set_wit at 1 2. cbn [ib_inputs]. rewrite ib_push_get. unfold upd.
        destruct (eqb_of outpoint_ltb o o'); [reflexivity | apply B].
      - intros o' h' w'. rewrite !wit2_set_wit. unfold upd. destruct (eqb_of outpoint_ltb o o') eqn:E.
        + intros H. injection H as <- <-. rewrite (eqb_of_refl _ bytes_strict_total). reflexivity.
        + intros H. rewrite !andb_false_r. unfold wit2, ib_push. cbn [ib_scripts]. apply (D _ _ _ H). }
    destruct op as [o|h o|h o rid]; cbn [ib_step in_op_key in_op_val].
    + split; [apply ib_push_inv, I|]. split.
      * intros o'. rewrite ib_push_get. unfold upd. destruct (eqb_of outpoint_ltb o o'); [reflexivity | apply B].
      * intros o' h' w'. unfold upd. destruct (eqb_of outpoint_ltb o o'); [discriminate|]. intros H. apply (D _ _ _ H).
    + apply Hscript.
    + apply Hscript.
Qed.

Lemma ib_index_map_absent l : forall s o, ~ In o (map fst l) -> al_get outpoint_ltb o (ib_index_map s l) = None.
Proof.
  induction l as [|[o' x] t IH]; intros s o Hn; [reflexivity|]. cbn [map fst In] in Hn.
  destruct x as [h|]; cbn [ib_index_map al_get].
  - destruct (eqb_of outpoint_ltb o' o) eqn:E; [apply (eqb_of_true _ outpoint_st) in E; tauto | apply IH; tauto].
  - apply IH. tauto.
Qed.

Lemma ib_index_map_get l : forall s o, NoDup (map fst l) ->
  al_get outpoint_ltb o (ib_index_map s l) =
  match al_get outpoint_ltb o l with
  | Some (Some h) => option_map (fun i => (h, s + i)) (index_of outpoint_ltb o (map fst l))
  | _ => None
  end.
Proof.
  induction l as [|[o' x] t IH]; intros s o ND; [reflexivity|].
  inversion ND as [|? ? Ho' NDt]; subst. cbn [map fst index_of al_get].
  destruct x as [h|]; cbn [ib_index_map al_get]; destruct (eqb_of outpoint_ltb o' o) eqn:E.
  - cbn [option_map]. do 2 f_equal. lia.
  - rewrite (IH (s + 1) o NDt). destruct (al_get outpoint_ltb o t) as [[?|]|]; try reflexivity.
    destruct (index_of outpoint_ltb o (map fst t)); cbn [option_map]; [do 2 f_equal; lia | reflexivity].
  - apply (eqb_of_true _ outpoint_st) in E. subst. apply ib_index_map_absent, Ho'.
  - rewrite (IH (s + 1) o NDt). destruct (al_get outpoint_ltb o t) as [[?|]|]; try reflexivity.
    destruct (index_of outpoint_ltb o (map fst t)); cbn [option_map]; [do 2 f_equal; lia | reflexivity].
Qed.

Lemma ib_plutus_tag st r : In r (ib_plutus st) -> r_tag r = TSpend.
Proof.
  unfold ib_plutus. rewrite in_flat_map. intros (hm & _ & H). rewrite in_flat_map in H. destruct H as (ow & _ & H).
  unfold ib_entry_redeemer in H. destruct (snd ow) as [[|rid]|]; try contradiction.
  destruct (al_get outpoint_ltb (fst ow) _) as [[h' i]|]; [|contradiction].
  destruct (eqb_of bytes_ltb h' (fst hm)); [|contradiction]. destruct H as [<-|[]]. reflexivity.
Qed.

(* a redeemer is emitted exactly for a Plutus witness registered under the script hash the input is locked by now *)
Lemma ib_plutus_spec st : ib_inv st -> forall r, In r (ib_plutus st) <->
  r_tag r = TSpend /\ exists h o, wit2 st h o = Some (Some (WPlutus (r_data r))) /\
    al_get outpoint_ltb o (ib_inputs st) = Some (Some h) /\
    index_of outpoint_ltb o (map fst (ib_inputs st)) = Some (r_index r).
Proof.
  intros (S & ND & I) r.
  assert (NDi : NoDup (map fst (ib_inputs st))) by (apply sortedk_nodup with (ltb := outpoint_ltb); [apply outpoint_st | exact S]).
  split.
  - intros Hin. split; [eapply ib_plutus_tag, Hin|]. unfold ib_plutus in Hin. rewrite in_flat_map in Hin.
    destruct Hin as ([h inner] & Hh & Hin). rewrite in_flat_map in Hin. destruct Hin as ([o w] & Ho & Hr). cbn [fst snd] in *.
    unfold ib_entry_redeemer in Hr. cbn [fst snd] in Hr. destruct w as [[|rid]|]; try contradiction.
    rewrite (ib_index_map_get _ 0 o NDi) in Hr.
    destruct (al_get outpoint_ltb o (ib_inputs st)) as [[hh|]|] eqn:Ei; try contradiction.
    destruct (index_of outpoint_ltb o (map fst (ib_inputs st))) as [i|] eqn:Ex; cbn [option_map] in Hr; [|contradiction].
    destruct (eqb_of bytes_ltb hh h) eqn:Eh; [|contradiction]. apply (eqb_of_true _ bytes_strict_total) in Eh. subst hh.
    destruct Hr as [<-|[]]. cbn [r_data r_index]. exists h, o. split; [|split; [exact Ei | rewrite Ex; reflexivity]].
    unfold wit2. rewrite (al_get_nodup bytes_ltb bytes_strict_total h inner _ ND Hh).
    apply (al_get_nodup outpoint_ltb outpoint_st); [eapply I, Hh | exact Ho].
  - intros (Ht & h & o & Hw & Hi & Hx). unfold wit2 in Hw.
    destruct (al_get bytes_ltb h (ib_scripts st)) as [inner|] eqn:Eh; [|discriminate].
    apply (al_get_In bytes_ltb bytes_strict_total) in Eh. apply (al_get_In outpoint_ltb outpoint_st) in Hw.
    unfold ib_plutus. rewrite in_flat_map. exists (h, inner). split; [exact Eh|]. rewrite in_flat_map.
    exists (o, Some (WPlutus (r_data r))). split; [exact Hw|]. unfold ib_entry_redeemer. cbn [fst snd].
    rewrite (ib_index_map_get _ 0 o NDi), Hi, Hx. cbn [option_map]. rewrite (eqb_of_refl _ bytes_strict_total). left.
    destruct r as [t i d]. cbn [r_tag r_index r_data] in *. subst t. reflexivity.
Qed.

Lemma spend_field ops : let st := fold_left ib_step ops ib_empty in
  spec_field (spend_wits (spend_final ops)) (ib_body st).
Proof.
  cbv zeta. destruct (spend_refine ops) as ((S & _ & _) & B & _). set (st := fold_left ib_step ops ib_empty) in *.
  intros o. unfold ib_body, spend_wits. specialize (B o).
  split.
  - intros H E. destruct (spend_final ops o); [discriminate|]. cbn in B.
    apply (al_get_none outpoint_ltb outpoint_st) in B. contradiction.
  - intros H. destruct (spend_final ops o) eqn:F; [|cbn in H; congruence]. cbn in B.
    eapply al_get_some_key; [apply outpoint_st | exact B].
Qed.

Lemma spend_pointers ops : let st := fold_left ib_step ops ib_empty in
  spec_pointers TSpend (spend_wits (spend_final ops)) (fun k => ledger_set_index outpoint_ledger_ltb k (ib_body st)) (ib_plutus st).
Proof.
  cbv zeta. destruct (spend_refine ops) as (I & B & D). set (st := fold_left ib_step ops ib_empty) in *.
  pose proof I as (S & ND & Iin).
  intros r Ht. rewrite (ib_plutus_spec st I). unfold ledger_set_index. rewrite <- outpoint_code_ledger. unfold ib_body.
  rewrite (sset_sort_of_sorted outpoint_ltb outpoint_st _ S). unfold spend_wits.
  split.
  - intros (_ & h & o & Hw & Hi & Hx). exists o, (r_data r). split; [|split; [exact Hx | reflexivity]].
    rewrite B in Hi. destruct (spend_final ops o) as [[[h' w']|]|] eqn:F; cbn in Hi; try discriminate.
    injection Hi as ->. rewrite (D _ _ _ F) in Hw. injection Hw as ->. reflexivity.
  - intros (o & rid & Hf & Hx & Hd). subst rid. split; [exact Ht|].
    destruct (spend_final ops o) as [[[h w]|]|] eqn:F; cbn in Hf; try discriminate. injection Hf as ->.
    exists h, o. split; [apply (D _ _ _ F)|]. split; [rewrite B, F; reflexivity | exact Hx].
Qed.

Lemma spend_locked_ok ops : spec_locked (spend_wits (spend_final ops)) (spend_locked (spend_wits (spend_final ops))).
Proof. intros o rid H. unfold spend_locked. rewrite H. reflexivity. Qed.

(* ======================== the built transaction ======================== *)
Lemma tag_code_inj a b : tag_code a = tag_code b -> a = b.
Proof. destruct a, b; cbn; intros H; try reflexivity; discriminate. Qed.
Lemma red_eqb_true a b : red_eqb a b = true <-> a = b.
Proof.
  unfold red_eqb. destruct a as [t i d], b as [t' i' d']. cbn [r_tag r_index r_data]. split.
  - intros H. apply andb_true_iff in H as [H Hd]. apply andb_true_iff in H as [Ht Hi].
    apply N.eqb_eq in Ht, Hi, Hd. apply tag_code_inj in Ht. congruence.
  - intros H. injection H as -> -> ->. rewrite !N.eqb_refl. reflexivity.
Qed.
Lemma dedup_first_In r l : In r (dedup_first l) <-> In r l.
Proof.
  induction l as [|a t IH]; cbn [dedup_first In]; [tauto|]. rewrite filter_In, IH. split.
  - intros [H|[H _]]; auto.
  - intros [H|H]; [auto|]. destruct (red_eqb a r) eqn:E; [apply red_eqb_true in E; auto | right; split; [exact H | reflexivity]].
Qed.

Lemma wentries_tag {K} T (l : list (N * (K * option wit))) r : In r (flat_map (wentry_redeemer T) l) -> r_tag r = T.
Proof.
  rewrite in_flat_map. intros (e & _ & H). unfold wentry_redeemer in H.
  destruct (plutus_rid (snd (snd e))); [|contradiction]. destruct H as [<-|[]]. reflexivity.
Qed.
Lemma mint_tag st r : In r (mint_plutus st) -> r_tag r = TMint.
Proof. unfold mint_plutus. rewrite mint_plutus_conv. apply wentries_tag. Qed.
Lemma vote_tag st r : In r (vote_plutus st) -> r_tag r = TVote.
Proof.
  unfold vote_plutus. rewrite in_flat_map. intros (e & _ & H). unfold vote_entry_redeemer in H.
  destruct (plutus_rid (snd e)); [|contradiction]. destruct H as [<-|[]]. reflexivity.
Qed.

Lemma tx_redeemers_tag st r : In r (tx_redeemers st) <->
  match r_tag r with
  | TSpend => In r (ib_plutus (t_inputs st)) \/ In r (ib_plutus (t_collateral st))
  | TMint => In r (mint_plutus (t_mint st))
  | TCert => In r (cert_plutus (t_certs st))
  | TReward => In r (wd_plutus (t_wdrl st))
  | TVote => In r (vote_plutus (t_votes st))
  | TPropose => In r (prop_plutus (t_props st))
  end.
Proof.
  unfold tx_redeemers. rewrite dedup_first_In. unfold all_witness_redeemers. rewrite !in_app_iff. split.
  - intros H. repeat destruct H as [H|H].
    + rewrite (ib_plutus_tag _ _ H). auto.
    + rewrite (ib_plutus_tag _ _ H). auto.
    + rewrite (mint_tag _ _ H). exact H.
    + rewrite (wentries_tag _ _ _ H). exact H.
    + rewrite (wentries_tag _ _ _ H). exact H.
    + rewrite (vote_tag _ _ H). exact H.
    + rewrite (wentries_tag _ _ _ H). exact H.
  - destruct (r_tag r); intros H; tauto.
Qed.

Lemma run_components ops st flags : run ops = (st, flags) ->
  t_inputs st = fold_left ib_step (ops_in ops) ib_empty /\
  t_collateral st = fold_left ib_step (ops_col ops) ib_empty /\
  t_mint st = fold_left mint_apply (ops_mint ops) [] /\
  t_certs st = fold_left cert_apply (ops_cert ops) [] /\
  t_wdrl st = fold_left wd_apply (ops_wd ops) [] /\
  t_votes st = fold_left vote_apply (ops_vote ops) [] /\
  t_props st = fold_left prop_apply (ops_prop ops) [].
Proof.
  intros H. assert (st = fst (run ops)) as -> by (rewrite H; reflexivity). rewrite run_state.
  rewrite proj_inputs, proj_collateral, proj_mint, proj_certs, proj_wdrl, proj_votes, proj_props. repeat split; reflexivity.
Qed.

Lemma build_fields st b : tx_build st = Ok b ->
  b_inputs b = ib_body (t_inputs st) /\ b_collateral b = ib_body (t_collateral st) /\ b_policies b = mint_body (t_mint st) /\
  b_certs b = cert_body (t_certs st) /\ b_withdrawals b = wd_body (t_wdrl st) /\ b_voters b = vote_body (t_votes st) /\
  b_proposals b = prop_body (t_props st) /\ b_redeemers b = tx_redeemers st.
Proof.
  unfold tx_build. destruct (_ || _); [discriminate|]. intros H. injection H as <-. cbn. repeat split; reflexivity.
Qed.

Lemma spec_pointers_same {K} T (final : K -> option (option wit)) ix R R' :
  (forall r, r_tag r = T -> (In r R <-> In r R')) -> spec_pointers T final ix R' -> spec_pointers T final ix R.
Proof. intros E P r Ht. rewrite (E r Ht). apply P, Ht. Qed.

Lemma collateral_silent ops : known_collateral_plutus ops = false -> ib_plutus (t_collateral (fst (run ops))) = [].
Proof. unfold known_collateral_plutus. destruct (ib_plutus _); [reflexivity | discriminate]. Qed.

(* ---- one theorem per purpose ---- *)
Theorem c10_spend ops st flags b : run ops = (st, flags) -> tx_build st = Ok b ->
  known_collateral_plutus ops = false ->
  let sf := spend_wits (spend_final (ops_in ops)) in
  spec_field sf (b_inputs b) /\
  spec_pointers TSpend sf (fun k => ledger_set_index outpoint_ledger_ltb k (b_inputs b)) (b_redeemers b) /\
  spec_locked sf (spend_locked sf).
Proof.
  intros Hr Hb K1. cbv zeta. destruct (run_components _ _ _ Hr) as (Ei & _). destruct (build_fields _ _ Hb) as (-> & _ & _ & _ & _ & _ & _ & ->).
  pose proof (collateral_silent _ K1) as Hc. rewrite Hr in Hc. cbn [fst] in Hc.
  rewrite Ei in *. split; [apply spend_field|]. split; [|apply spend_locked_ok].
  eapply spec_pointers_same; [|apply spend_pointers].
  intros r Ht. rewrite tx_redeemers_tag, Ht, Hc, Ei. cbn [In]. tauto.
Qed.

Theorem c10_mint ops st flags b : run ops = (st, flags) -> tx_build st = Ok b ->
  let mf := mint_wits (mint_final (ops_mint ops)) in
  spec_field mf (b_policies b) /\
  spec_pointers TMint mf (fun k => ledger_set_index policy_ledger_ltb k (b_policies b)) (b_redeemers b).
Proof.
  intros Hr Hb. cbv zeta. destruct (run_components _ _ _ Hr) as (_ & _ & E & _). destruct (build_fields _ _ Hb) as (_ & _ & -> & _ & _ & _ & _ & ->).
  rewrite E. destruct (mint_pointers (ops_mint ops)) as [F P]. split; [exact F|].
  eapply spec_pointers_same; [|exact P]. intros r Ht. rewrite tx_redeemers_tag, Ht, E. tauto.
Qed.

Theorem c10_cert ops st flags b : run ops = (st, flags) -> tx_build st = Ok b ->
  let cf := cert_final (ops_cert ops) in
  spec_field cf (b_certs b) /\
  spec_pointers TCert cf (fun k => ledger_seq_index cert_ltb k (b_certs b)) (b_redeemers b) /\
  spec_locked cf ledger_cert_script_locked.
Proof.
  intros Hr Hb. cbv zeta. destruct (run_components _ _ _ Hr) as (_ & _ & _ & E & _). destruct (build_fields _ _ Hb) as (_ & _ & _ & -> & _ & _ & _ & ->).
  rewrite E. destruct (cert_pointers (ops_cert ops)) as [F P]. split; [exact F|]. split; [|apply cert_locked].
  eapply spec_pointers_same; [|exact P]. intros r Ht. rewrite tx_redeemers_tag, Ht, E. tauto.
Qed.

Theorem c10_reward ops st flags b : run ops = (st, flags) -> tx_build st = Ok b ->
  let wf := wd_final (ops_wd ops) in
  spec_field wf (b_withdrawals b) /\
  spec_pointers TReward wf (fun k => ledger_set_index racct_ledger_ltb k (b_withdrawals b)) (b_redeemers b) /\
  spec_locked wf (fun a => cr_script (ra_cred a)).
Proof.
  intros Hr Hb. cbv zeta. destruct (run_components _ _ _ Hr) as (_ & _ & _ & _ & E & _). destruct (build_fields _ _ Hb) as (_ & _ & _ & _ & -> & _ & _ & ->).
  rewrite E. destruct (wd_pointers (ops_wd ops)) as [F P]. split; [exact F|]. split; [|apply wd_locked].
  eapply spec_pointers_same; [|exact P]. intros r Ht. rewrite tx_redeemers_tag, Ht, E. tauto.
Qed.

Theorem c10_vote ops st flags b : run ops = (st, flags) -> tx_build st = Ok b ->
  let vf := vote_final (ops_vote ops) in
  spec_field vf (b_voters b) /\
  spec_pointers TVote vf (fun k => ledger_set_index voter_ledger_ltb k (b_voters b)) (b_redeemers b) /\
  spec_locked vf voter_has_script.
Proof.
  intros Hr Hb. cbv zeta. destruct (run_components _ _ _ Hr) as (_ & _ & _ & _ & _ & E & _). destruct (build_fields _ _ Hb) as (_ & _ & _ & _ & _ & -> & _ & ->).
  rewrite E. destruct (vote_pointers (ops_vote ops)) as [F P]. split; [exact F|]. split; [|apply vote_locked].
  eapply spec_pointers_same; [|exact P]. intros r Ht. rewrite tx_redeemers_tag, Ht, E. tauto.
Qed.

Theorem c10_propose ops st flags b : run ops = (st, flags) -> tx_build st = Ok b ->
  let pf := prop_final (ops_prop ops) in
  spec_field pf (b_proposals b) /\
  spec_pointers TPropose pf (fun k => ledger_seq_index prop_rust_ltb k (b_proposals b)) (b_redeemers b) /\
  (known_prop_nonscript ops = false -> spec_locked pf prop_has_script_hash).
Proof.
  intros Hr Hb. cbv zeta. destruct (run_components _ _ _ Hr) as (_ & _ & _ & _ & _ & _ & E). destruct (build_fields _ _ Hb) as (_ & _ & _ & _ & _ & _ & -> & ->).
  rewrite E. destruct (prop_pointers (ops_prop ops)) as [F P]. split; [exact F|]. split.
  - eapply spec_pointers_same; [|exact P]. intros r Ht. rewrite tx_redeemers_tag, Ht, E. tauto.
  - intros K2. apply prop_locked. unfold known_prop_nonscript in K2. rewrite Hr in K2. cbn [fst] in K2. rewrite E in K2. exact K2.
Qed.

(* ---- no two redeemers share a pointer ---- *)
Lemma pointers_unique {K} (T : tag) (final : K -> option (option wit)) (ix : K -> option N) (R : list redeemer) :
  spec_pointers T final ix R -> (forall k1 k2 i, ix k1 = Some i -> ix k2 = Some i -> k1 = k2) ->
  forall r1 r2, In r1 R -> In r2 R -> r_tag r1 = T -> r_tag r2 = T -> r_index r1 = r_index r2 -> r1 = r2.
Proof.
  intros P Inj r1 r2 H1 H2 T1 T2 E.
  apply (P r1 T1) in H1 as (k1 & d1 & F1 & I1 & D1). apply (P r2 T2) in H2 as (k2 & d2 & F2 & I2 & D2).
  rewrite E in I1. assert (k1 = k2) by (eapply Inj; eassumption). subst k2. rewrite F1 in F2. injection F2 as <-.
  rewrite (redeemer_eta r1), (redeemer_eta r2). congruence.
Qed.

Theorem c10_unique ops st flags b : run ops = (st, flags) -> tx_build st = Ok b ->
  known_collateral_plutus ops = false ->
  spec_unique (b_redeemers b).
Proof.
  intros Hr Hb K1 r1 r2 H1 H2 Et Ei.
  destruct (c10_spend _ _ _ _ Hr Hb K1) as (_ & Ps & _). destruct (c10_mint _ _ _ _ Hr Hb) as (_ & Pm).
  destruct (c10_cert _ _ _ _ Hr Hb) as (_ & Pc & _). destruct (c10_reward _ _ _ _ Hr Hb) as (_ & Pw & _).
  destruct (c10_vote _ _ _ _ Hr Hb) as (_ & Pv & _). destruct (c10_propose _ _ _ _ Hr Hb) as (_ & Pp & _).
  destruct (r_tag r1) eqn:T1; symmetry in Et.
  - eapply (pointers_unique TSpend _ _ _ Ps); try eassumption. intros k1 k2 i. unfold ledger_set_index. apply index_of_inj. rewrite <- outpoint_code_ledger. apply outpoint_st.
  - eapply (pointers_unique TMint _ _ _ Pm); try eassumption. intros k1 k2 i. unfold ledger_set_index. apply index_of_inj, bytes_strict_total.
  - eapply (pointers_unique TCert _ _ _ Pc); try eassumption. intros k1 k2 i. unfold ledger_seq_index. apply index_of_inj, cert_st.
  - eapply (pointers_unique TReward _ _ _ Pw); try eassumption. intros k1 k2 i. unfold ledger_set_index. apply index_of_inj, racct_ledger_st.
  - eapply (pointers_unique TVote _ _ _ Pv); try eassumption. intros k1 k2 i. unfold ledger_set_index. apply index_of_inj, voter_ledger_st.
  - eapply (pointers_unique TPropose _ _ _ Pp); try eassumption. intros k1 k2 i. unfold ledger_seq_index. apply index_of_inj, prop_st.
Qed.

(* ---- the full statement ---- *)
Theorem c10_statement_holds ops st flags b : run ops = (st, flags) -> tx_build st = Ok b ->
  known_collateral_plutus ops = false -> known_prop_nonscript ops = false ->
  C10_statement ops b.
Proof.
  intros Hr Hb K1 K2. unfold C10_statement. cbv zeta.
  destruct (c10_spend _ _ _ _ Hr Hb K1) as (A1 & A2 & A3). destruct (c10_mint _ _ _ _ Hr Hb) as (B1 & B2).
  destruct (c10_cert _ _ _ _ Hr Hb) as (C1 & C2 & C3). destruct (c10_reward _ _ _ _ Hr Hb) as (D1 & D2 & D3).
  destruct (c10_vote _ _ _ _ Hr Hb) as (E1 & E2 & E3). destruct (c10_propose _ _ _ _ Hr Hb) as (F1 & F2 & F3).
  exact (conj (conj A1 (conj A2 A3)) (conj (conj B1 B2) (conj (conj C1 (conj C2 C3)) (conj (conj D1 (conj D2 D3))
         (conj (conj E1 (conj E2 E3)) (conj (conj F1 (conj F2 (F3 K2))) (c10_unique _ _ _ _ Hr Hb K1))))))).
Qed.

(* ======================== the order of the calls does not matter ======================== *)
Section FinalPerm.
  Context {O K V : Type} (keqb : K -> K -> bool) (okey : O -> K) (oval : O -> V) (accept : O -> bool).
  Hypothesis keqb_spec : forall x y, keqb x y = true <-> x = y.

  Lemma keqb_neq x y : x <> y -> keqb x y = false.
  Proof. intros H. destruct (keqb x y) eqn:E; [apply keqb_spec in E; contradiction | reflexivity]. Qed.

  (* when every item is mentioned by one call only, the map is: item -> value of its (accepted) call *)
  Lemma final_last_distinct ops : NoDup (map okey ops) -> forall k v,
    final_last keqb okey oval accept ops k = Some v <-> exists o, In o ops /\ accept o = true /\ okey o = k /\ oval o = v.
  Proof.
    intros ND k v. split; [apply final_last_origin; intros x y E; apply keqb_spec, E|].
    revert k v. induction ops as [|o ops IH] using rev_ind; intros k v (o' & Hin & A & Ek & Ev); [contradiction|].
    rewrite map_app in ND. cbn [map] in ND. apply NoDup_remove in ND as [ND Hnot]. rewrite app_nil_r in ND, Hnot.
    rewrite final_last_snoc. apply in_app_iff in Hin as [Hin|[<-|[]]].
    - assert (Hne : okey o <> k) by (intros E; apply Hnot; rewrite E, <- Ek; apply in_map, Hin).
      assert (F : final_last keqb okey oval accept ops k = Some v) by (apply (IH ND); exists o'; auto).
      destruct (accept o); [unfold upd; rewrite (keqb_neq _ _ Hne)|]; exact F.
    - rewrite A. unfold upd. subst. rewrite (proj2 (keqb_spec _ _) eq_refl). reflexivity.
  Qed.

  Lemma final_first_distinct ops : NoDup (map okey ops) -> forall k v,
    final_first keqb okey oval accept ops k = Some v <-> exists o, In o ops /\ accept o = true /\ okey o = k /\ oval o = v.
  Proof.
    intros ND k v. split; [apply final_first_origin; intros x y E; apply keqb_spec, E|].
    revert k v. induction ops as [|o ops IH] using rev_ind; intros k v (o' & Hin & A & Ek & Ev); [contradiction|].
    rewrite map_app in ND. cbn [map] in ND. apply NoDup_remove in ND as [ND Hnot]. rewrite app_nil_r in ND, Hnot.
    rewrite final_first_snoc.
    assert (Hnone : final_first keqb okey oval accept ops (okey o) = None).
    { destruct (final_first keqb okey oval accept ops (okey o)) eqn:F; [|reflexivity]. exfalso.
      apply final_first_origin in F; [|intros x y E; apply keqb_spec, E]. destruct F as (o2 & Hin2 & _ & E2 & _).
      apply Hnot. rewrite <- E2. apply in_map, Hin2. }
    apply in_app_iff in Hin as [Hin|[<-|[]]].
    - assert (Hne : okey o <> k) by (intros E; apply Hnot; rewrite E, <- Ek; apply in_map, Hin).
      assert (F : final_first keqb okey oval accept ops k = Some v) by (apply (IH ND); exists o'; auto).
      destruct (accept o); [rewrite Hnone; unfold upd; rewrite (keqb_neq _ _ Hne)|]; exact F.
    - rewrite A, Hnone. unfold upd. subst. rewrite (proj2 (keqb_spec _ _) eq_refl). reflexivity.
  Qed.

  Lemma final_last_perm ops ops' : NoDup (map okey ops) -> Permutation ops ops' ->
    forall k, final_last keqb okey oval accept ops k = final_last keqb okey oval accept ops' k.
  Proof.
    intros ND P k.
    assert (ND' : NoDup (map okey ops')) by (eapply Permutation_NoDup; [apply Permutation_map, P | exact ND]).
    assert (X : forall v, final_last keqb okey oval accept ops k = Some v <-> final_last keqb okey oval accept ops' k = Some v).
    { intros v. rewrite (final_last_distinct ops ND), (final_last_distinct ops' ND').
      split; intros (o & Hin & R); exists o; (split; [|exact R]); [eapply Permutation_in; [exact P | exact Hin] | eapply Permutation_in; [symmetry; exact P | exact Hin]]. }
    destruct (final_last keqb okey oval accept ops k) as [v|] eqn:E1.
    - symmetry. apply X. reflexivity.
    - destruct (final_last keqb okey oval accept ops' k) as [v'|] eqn:E2; [|reflexivity].
      pose proof (proj2 (X v') eq_refl). discriminate.
  Qed.

  Lemma final_first_perm ops ops' : NoDup (map okey ops) -> Permutation ops ops' ->
    forall k, final_first keqb okey oval accept ops k = final_first keqb okey oval accept ops' k.
  Proof.
    intros ND P k.
    assert (ND' : NoDup (map okey ops')) by (eapply Permutation_NoDup; [apply Permutation_map, P | exact ND]).
    assert (X : forall v, final_first keqb okey oval accept ops k = Some v <-> final_first keqb okey oval accept ops' k = Some v).
    { intros v. rewrite (final_first_distinct ops ND), (final_first_distinct ops' ND').
      split; intros (o & Hin & R); exists o; (split; [|exact R]); [eapply Permutation_in; [exact P | exact Hin] | eapply Permutation_in; [symmetry; exact P | exact Hin]]. }
    destruct (final_first keqb okey oval accept ops k) as [v|] eqn:E1.
    - symmetry. apply X. reflexivity.
    - destruct (final_first keqb okey oval accept ops' k) as [v'|] eqn:E2; [|reflexivity].
      pose proof (proj2 (X v') eq_refl). discriminate.
  Qed.
End FinalPerm.

(* every item is named by one call only *)
Definition distinct_items (ops : list op) : Prop :=
  NoDup (map in_op_key (ops_in ops)) /\ NoDup (map mo_policy (ops_mint ops)) /\ NoDup (map wop_key (ops_cert ops)) /\
  NoDup (map wop_key (ops_wd ops)) /\ NoDup (map wop_key (ops_vote ops)) /\ NoDup (map wop_key (ops_prop ops)).

Lemma pointers_transfer {K} T (final final' : K -> option (option wit)) ix ix' R R' :
  spec_pointers T final ix R -> spec_pointers T final' ix' R' ->
  (forall k, final k = final' k) -> (forall k, ix k = ix' k) ->
  forall r, r_tag r = T -> (In r R <-> In r R').
Proof.
  intros P P' Ef Ei r Ht. rewrite (P r Ht), (P' r Ht).
  split; intros (k & rid & F & I & D); exists k, rid; repeat split; try assumption; congruence.
Qed.

Lemma set_index_same {K} (ltb : K -> K -> bool) (ST : strict_total ltb) (final final' : K -> option (option wit)) field field' :
  spec_field final field -> spec_field final' field' -> (forall k, final k = final' k) ->
  forall k, ledger_set_index ltb k field = ledger_set_index ltb k field'.
Proof.
  intros F F' E k. unfold ledger_set_index. f_equal. apply (sset_sort_same_set ltb ST).
  intros x. rewrite (F x), (F' x), E. tauto.
Qed.

(* For pairwise distinct items, every insertion order gives the same redeemers for the purposes whose
   index is a rank in a sorted set (spend, mint, reward, vote) and for proposals; a certificate
   redeemer follows its certificate's position in the sequence (c10_cert says it designates it). *)
Theorem c10_order_irrelevant ops ops' st flags b st' flags' b' :
  Permutation ops ops' -> distinct_items ops ->
  run ops = (st, flags) -> tx_build st = Ok b -> run ops' = (st', flags') -> tx_build st' = Ok b' ->
  known_collateral_plutus ops = false -> known_collateral_plutus ops' = false ->
  forall r, r_tag r <> TCert -> (In r (b_redeemers b) <-> In r (b_redeemers b')).
Proof.
  intros P (Di & Dm & _ & Dw & Dv & Dp) Hr Hb Hr' Hb' K1 K1' r Hnc.
  assert (Pin : Permutation (ops_in ops) (ops_in ops')) by (apply Permutation_flat_map, P).
  assert (Pm : Permutation (ops_mint ops) (ops_mint ops')) by (apply Permutation_flat_map, P).
  assert (Pw : Permutation (ops_wd ops) (ops_wd ops')) by (apply Permutation_flat_map, P).
  assert (Pv : Permutation (ops_vote ops) (ops_vote ops')) by (apply Permutation_flat_map, P).
  assert (Pp : Permutation (ops_prop ops) (ops_prop ops')) by (apply Permutation_flat_map, P).
  destruct (r_tag r) eqn:Ht; [| | congruence | | |].
  - destruct (c10_spend _ _ _ _ Hr Hb K1) as (F1 & P1 & _). destruct (c10_spend _ _ _ _ Hr' Hb' K1') as (F2 & P2 & _).
    assert (E : forall k, spend_wits (spend_final (ops_in ops)) k = spend_wits (spend_final (ops_in ops')) k).
    { intros k. unfold spend_wits, spend_final. rewrite (final_last_perm _ _ _ _ (eqb_of_true _ outpoint_st) _ _ Di Pin). reflexivity. }
    apply (pointers_transfer TSpend _ _ _ _ _ _ P1 P2 E); [|exact Ht].
    apply (set_index_same outpoint_ledger_ltb (eq_ind _ _ outpoint_st _ outpoint_code_ledger) _ _ _ _ F1 F2 E).
  - destruct (c10_mint _ _ _ _ Hr Hb) as (F1 & P1). destruct (c10_mint _ _ _ _ Hr' Hb') as (F2 & P2).
    assert (E : forall k, mint_wits (mint_final (ops_mint ops)) k = mint_wits (mint_final (ops_mint ops')) k).
    { intros k. unfold mint_wits, mint_final. rewrite (final_first_perm _ _ _ _ (eqb_of_true _ bytes_strict_total) _ _ Dm Pm). reflexivity. }
    apply (pointers_transfer TMint _ _ _ _ _ _ P1 P2 E); [|exact Ht].
    apply (set_index_same policy_ledger_ltb bytes_strict_total _ _ _ _ F1 F2 E).
  - destruct (c10_reward _ _ _ _ Hr Hb) as (F1 & P1 & _). destruct (c10_reward _ _ _ _ Hr' Hb') as (F2 & P2 & _).
    assert (E : forall k, wd_final (ops_wd ops) k = wd_final (ops_wd ops') k).
    { intros k. unfold wd_final. apply (final_last_perm _ _ _ _ (eqb_of_true _ racct_ledger_st) _ _ Dw Pw). }
    apply (pointers_transfer TReward _ _ _ _ _ _ P1 P2 E); [|exact Ht].
    apply (set_index_same racct_ledger_ltb racct_ledger_st _ _ _ _ F1 F2 E).
  - destruct (c10_vote _ _ _ _ Hr Hb) as (F1 & P1 & _). destruct (c10_vote _ _ _ _ Hr' Hb') as (F2 & P2 & _).
    assert (E : forall k, vote_final (ops_vote ops) k = vote_final (ops_vote ops') k).
    { intros k. unfold vote_final. apply (final_first_perm _ _ _ _ (eqb_of_true _ voter_ledger_st) _ _ Dv Pv). }
    apply (pointers_transfer TVote _ _ _ _ _ _ P1 P2 E); [|exact Ht].
    apply (set_index_same voter_ledger_ltb voter_ledger_st _ _ _ _ F1 F2 E).
  - destruct (c10_propose _ _ _ _ Hr Hb) as (F1 & P1 & _). destruct (c10_propose _ _ _ _ Hr' Hb') as (F2 & P2 & _).
    assert (E : forall k, prop_final (ops_prop ops) k = prop_final (ops_prop ops') k).
    { intros k. unfold prop_final. apply (final_last_perm _ _ _ _ (eqb_of_true _ prop_st) _ _ Dp Pp). }
    apply (pointers_transfer TPropose _ _ _ _ _ _ P1 P2 E); [|exact Ht].
    (* both proposal sequences are sorted by the same order and list the same proposals: they are equal *)
    assert (Eb : b_proposals b = b_proposals b').
    { destruct (run_components _ _ _ Hr) as (_ & _ & _ & _ & _ & _ & C). destruct (run_components _ _ _ Hr') as (_ & _ & _ & _ & _ & _ & C').
      destruct (build_fields _ _ Hb) as (_ & _ & _ & _ & _ & _ & B & _). destruct (build_fields _ _ Hb') as (_ & _ & _ & _ & _ & _ & B' & _).
      apply (sorted_unique prop_rust_ltb prop_st).
      - rewrite B, C. apply prop_refine.
      - rewrite B', C'. apply prop_refine.
      - intros x. rewrite (F1 x), (F2 x), E. tauto. }
    intros k. rewrite Eb. reflexivity.
Qed.

(* ======================== refutations: the statements are false inside the known classes ======================== *)
Definition w_o1 : outpoint := ([1], 0).
Definition w_oc : outpoint := ([204], 0).
Definition w_of : outpoint := ([240], 7).
(* a Plutus-witnessed collateral input *)
Definition w_collateral_ops : list op := [OpIn (InPlutus [10] w_o1 1); OpCol (InPlutus [11] w_oc 2)].
(* the same input under two script hashes *)
Definition w_stale_ops : list op := [OpCol (InKey w_oc); OpIn (InKey w_of); OpIn (InPlutus [10] w_o1 1); OpIn (InPlutus [11] w_o1 2)].
(* an info-action proposal (no policy hash) given a Plutus witness *)
Definition w_prop_ops : list op := [OpCol (InKey w_oc); OpIn (InKey w_of); OpProp (WAddPlutus (mkProp 6 None 5) 7)].

Theorem unique_refuted_collateral :
  known_collateral_plutus w_collateral_ops = true /\
  exists st flags b, run w_collateral_ops = (st, flags) /\ tx_build st = Ok b /\ ~ spec_unique (b_redeemers b).
Proof.
  split; [vm_compute; reflexivity|].
  eexists. eexists. eexists. split; [vm_compute; reflexivity|]. split; [vm_compute; reflexivity|].
  intros U. specialize (U (mkR TSpend 0 1) (mkR TSpend 0 2)). cbn in U.
  assert (X : mkR TSpend 0 1 = mkR TSpend 0 2) by (apply U; auto). discriminate.
Qed.

(* before the repair ae86092 both witnesses of the re-added input were emitted, with the same pointer; now only the current one *)
Theorem stale_legacy_refuted :
  let st := fold_left ib_step (ops_in w_stale_ops) ib_empty in
  ib_plutus_legacy st = [mkR TSpend 0 1; mkR TSpend 0 2] /\ ~ spec_unique (ib_plutus_legacy st) /\
  ib_plutus st = [mkR TSpend 0 2].
Proof.
  cbv zeta. split; [vm_compute; reflexivity|]. split; [|vm_compute; reflexivity].
  intros U. specialize (U (mkR TSpend 0 1) (mkR TSpend 0 2)).
  assert (X : mkR TSpend 0 1 = mkR TSpend 0 2) by (apply U; vm_compute; auto). discriminate.
Qed.

Theorem locked_refuted_proposal :
  known_prop_nonscript w_prop_ops = true /\
  exists st flags b, run w_prop_ops = (st, flags) /\ tx_build st = Ok b /\ b_redeemers b = [mkR TPropose 0 7] /\
    ~ spec_locked (prop_final (ops_prop w_prop_ops)) prop_has_script_hash.
Proof.
  split; [vm_compute; reflexivity|].
  eexists. eexists. eexists. split; [vm_compute; reflexivity|]. split; [vm_compute; reflexivity|]. split; [reflexivity|].
  intros L. specialize (L (mkProp 6 None 5) 7). assert (X : prop_has_script_hash (mkProp 6 None 5) = true) by (apply L; vm_compute; reflexivity).
  discriminate.
Qed.

(* ---- the two repaired defects: the code before the repair violates the statement ---- *)
Definition w_a9 : racct := mkRacct 0 (mkCred true [9]).
Definition w_a2 : racct := mkRacct 0 (mkCred true [2]).
Definition w_reward_ops : list (wop racct) := [WAddPlutus w_a9 9; WAddPlutus w_a2 2].

Theorem reward_legacy_refuted :
  let st := fold_left wd_apply w_reward_ops [] in
  ~ spec_pointers TReward (wd_final w_reward_ops) (fun k => ledger_set_index racct_ledger_ltb k (wd_body_legacy st)) (wd_plutus_legacy st).
Proof.
  cbv zeta. intros P. destruct (proj1 (P (mkR TReward 0 9) eq_refl)) as (k & rid & F & I & D); [vm_compute; auto|].
  cbn [r_index r_data] in *. subst rid. unfold ledger_set_index in I.
  assert (Hs : sset_sort racct_ledger_ltb (wd_body_legacy (fold_left wd_apply w_reward_ops [])) = [w_a2; w_a9]) by (vm_compute; reflexivity).
  rewrite Hs in I. cbn [index_of] in I.
  destruct (eqb_of racct_ledger_ltb w_a2 k) eqn:E.
  - apply (eqb_of_true _ racct_ledger_st) in E. subst k. vm_compute in F. discriminate.
  - destruct (eqb_of racct_ledger_ltb w_a9 k); cbn in I; discriminate.
Qed.

Definition w_vk : voter := VDRep (mkCred false [5]).
Definition w_vs : voter := VDRep (mkCred true [2]).
Definition w_vote_ops : list (wop voter) := [WAdd w_vk; WAddPlutus w_vs 2].

Theorem vote_legacy_refuted :
  let st := fold_left vote_apply w_vote_ops [] in
  ~ spec_pointers TVote (vote_final w_vote_ops) (fun k => ledger_set_index voter_ledger_ltb k (vote_body st)) (vote_plutus_legacy st).
Proof.
  cbv zeta. intros P. destruct (proj1 (P (mkR TVote 1 2) eq_refl)) as (k & rid & F & I & D); [vm_compute; auto|].
  cbn [r_index r_data] in *. subst rid. unfold ledger_set_index in I.
  assert (Hs : sset_sort voter_ledger_ltb (vote_body (fold_left vote_apply w_vote_ops [])) = [w_vs; w_vk]) by (vm_compute; reflexivity).
  rewrite Hs in I. cbn [index_of] in I.
  destruct (eqb_of voter_ledger_ltb w_vs k) eqn:E; [discriminate|].
  destruct (eqb_of voter_ledger_ltb w_vk k) eqn:E2; cbn in I; [|discriminate].
  apply (eqb_of_true _ voter_ledger_st) in E2. subst k. vm_compute in F. discriminate.
Qed.

(* with the repairs the same call sequences are fine (instances of wd_pointers / vote_pointers), and the
   redeemers are the expected ones *)
Example reward_repaired_witness :
  wd_plutus (fold_left wd_apply w_reward_ops []) = [mkR TReward 0 2; mkR TReward 1 9] /\
  wd_body (fold_left wd_apply w_reward_ops []) = [w_a2; w_a9].
Proof. split; vm_compute; reflexivity. Qed.
Example vote_repaired_witness :
  vote_plutus (fold_left vote_apply w_vote_ops []) = [mkR TVote 0 2] /\
  vote_body (fold_left vote_apply w_vote_ops []) = [w_vk; w_vs].
Proof. split; vm_compute; reflexivity. Qed.

(* ---- the premises of the main theorem are satisfiable on a transaction that uses every purpose ---- *)
Definition ex_ops : list op :=
  [ OpIn (InPlutus [7] ([3], 1) 101); OpCol (InKey w_oc); OpIn (InKey w_of); OpIn (InNative [8] ([3], 0)); OpIn (InPlutus [7] ([2], 9) 102);
    OpMint (mkMintOp [9] (MPlutus true 103) 0 1%Z false); OpMint (mkMintOp [4] (MNative true) 1 5%Z true); OpMint (mkMintOp [1] (MPlutus false 104) 0 2%Z false);
    OpCert (WAdd (mkCert 0 true 1)); OpCert (WAddPlutus (mkCert 7 true 1) 105); OpCert (WAdd (mkCert 4 false 2)); OpCert (WAddPlutus (mkCert 17 true 3) 106);
    OpWd (WAdd (mkRacct 0 (mkCred false [1]))); OpWd (WAddPlutus w_a9 107); OpWd (WAddPlutus w_a2 108);
    OpVote (WAdd w_vk); OpVote (WAddPlutus w_vs 109); OpVote (WAdd (VSPO [0])); OpVote (WAddPlutus (VCC (mkCred true [9])) 110);
    OpProp (WAdd (mkProp 6 None 1)); OpProp (WAddPlutus (mkProp 2 (Some [5]) 2) 111); OpProp (WAddPlutus (mkProp 0 (Some [6]) 3) 112) ].

Example c10_premises_satisfiable :
  known_collateral_plutus ex_ops = false /\ known_prop_nonscript ex_ops = false /\
  exists st flags b, run ex_ops = (st, flags) /\ tx_build st = Ok b /\
    b_redeemers b = [ mkR TSpend 2 101; mkR TSpend 0 102; mkR TMint 0 104; mkR TMint 2 103; mkR TCert 1 105; mkR TCert 3 106;
                      mkR TReward 0 108; mkR TReward 1 107; mkR TVote 0 110; mkR TVote 1 109; mkR TPropose 0 112; mkR TPropose 1 111 ].
Proof.
  split; [vm_compute; reflexivity|]. split; [vm_compute; reflexivity|].
  eexists. eexists. eexists. split; [vm_compute; reflexivity|]. split; [vm_compute; reflexivity|]. vm_compute. reflexivity.
Qed.

Example c10_distinct_items_satisfiable : distinct_items ex_ops.
Proof.
  unfold distinct_items. cbn.
  repeat split; repeat (constructor; [cbn; intuition discriminate|]); constructor.
Qed.

(* ======================== the judge is sound: verdict "holds" implies the statement ======================== *)
Section JudgeSound.
  Context {K : Type} (ltb : K -> K -> bool) (ST : strict_total ltb).
  Variables (T : tag) (keys : list K) (final : K -> option (option wit)) (ix : K -> option N)
            (field : list K) (locked : K -> bool) (R : list redeemer).
  Hypothesis support : forall k, final k <> None -> In k keys.

  Lemma existsb_eqb_In k l : existsb (eqb_of ltb k) l = true <-> In k l.
  Proof.
    rewrite existsb_exists. split.
    - intros (x & Hin & E). apply (eqb_of_true _ ST) in E. subst. exact Hin.
    - intros H. exists k. split; [exact H | apply eqb_of_refl, ST].
  Qed.

  Lemma j_field_sound : j_field (eqb_of ltb) keys final field = true -> spec_field final field.
  Proof.
    unfold j_field. intros H. apply andb_true_iff in H as [H1 H2]. rewrite forallb_forall in H1, H2.
    intros k. split.
    - intros Hin. pose proof (H2 _ Hin) as Hk. apply existsb_eqb_In in Hk. specialize (H1 _ Hk).
      apply (proj2 (existsb_eqb_In k field)) in Hin. rewrite Hin in H1. destruct (final k); [discriminate | discriminate].
    - intros Hf. specialize (H1 _ (support _ Hf)). destruct (final k); [|congruence]. cbn in H1.
      apply existsb_eqb_In. destruct (existsb (eqb_of ltb k) field); [reflexivity | discriminate].
  Qed.

  Lemma attachments_In k rid : In (k, rid) (attachments keys final) <-> In k keys /\ final k = Some (Some (WPlutus rid)).
  Proof.
    unfold attachments. rewrite in_flat_map. split.
    - intros (k' & Hin & H). destruct (final k') as [[[|r]|]|] eqn:F; cbn in H; try contradiction.
      destruct H as [H|[]]. injection H as <- <-. auto.
    - intros (Hin & F). exists k. split; [exact Hin|]. rewrite F. cbn. auto.
  Qed.

  Lemma j_pointers_sound : j_present T keys final ix R = true -> j_expected T keys final ix R = true -> spec_pointers T final ix R.
  Proof.
    unfold j_present, j_expected. intros Hp He. rewrite forallb_forall in Hp, He. intros r Ht. split.
    - intros Hin. specialize (He _ Hin). rewrite Ht, N.eqb_refl in He. cbn [negb orb] in He.
      apply existsb_exists in He as ([k rid] & Ha & E). cbn [fst snd] in E. apply attachments_In in Ha as [_ F].
      destruct (ix k) as [i|] eqn:Ei; [|discriminate]. apply andb_true_iff in E as [E1 E2]. apply N.eqb_eq in E1, E2. subst.
      exists k, (r_data r). auto.
    - intros (k & rid & F & Ei & D). subst rid.
      assert (Ha : In (k, r_data r) (attachments keys final)) by (apply attachments_In; split; [apply support; congruence | exact F]).
      specialize (Hp _ Ha). cbn [fst snd] in Hp. rewrite Ei in Hp. apply existsb_exists in Hp as (x & Hin & E).
      apply red_eqb_true in E. subst x. rewrite (redeemer_eta r), Ht. exact Hin.
  Qed.

  Lemma j_locked_sound : j_locked keys final locked = true -> spec_locked final locked.
  Proof.
    unfold j_locked. intros H. rewrite forallb_forall in H. intros k rid F.
    apply (H (k, rid)). apply attachments_In. split; [apply support; congruence | exact F].
  Qed.
End JudgeSound.

Lemma ptr_eqb_true a b : ptr_eqb a b = true <-> r_tag a = r_tag b /\ r_index a = r_index b.
Proof.
  unfold ptr_eqb. rewrite andb_true_iff, !N.eqb_eq. split; intros [H1 H2]; split; try assumption; [apply tag_code_inj, H1 | rewrite H1; reflexivity].
Qed.
Lemma j_unique_sound R : j_unique R = true ->
  forall r1 r2, In r1 R -> In r2 R -> r_tag r1 = r_tag r2 -> r_index r1 = r_index r2 -> r1 = r2.
Proof.
  induction R as [|a t IH]; cbn [j_unique]; [intros _ ? ? []|]. intros H. apply andb_true_iff in H as [Hn Ht].
  apply negb_true_iff in Hn. intros r1 r2 H1 H2 Et Ei.
  assert (X : forall r, In r t -> r_tag a = r_tag r -> r_index a = r_index r -> False).
  { intros r Hr E1 E2. assert (Y : existsb (ptr_eqb a) t = true); [|congruence].
    apply existsb_exists. exists r. split; [exact Hr | apply ptr_eqb_true; auto]. }
  destruct H1 as [<-|H1], H2 as [<-|H2]; [reflexivity | exfalso; eapply X; eassumption | exfalso; eapply X; eauto | apply IH; assumption].
Qed.

Lemma final_last_support {O K V} (keqb : K -> K -> bool) (okey : O -> K) (oval : O -> V) accept ops :
  (forall x y, keqb x y = true -> x = y) -> forall k, final_last keqb okey oval accept ops k <> None -> In k (map okey ops).
Proof.
  intros Hk k H. destruct (final_last keqb okey oval accept ops k) eqn:F; [|congruence].
  apply final_last_origin in F; [|exact Hk]. destruct F as (o & Hin & _ & <- & _). apply in_map, Hin.
Qed.
Lemma final_first_support {O K V} (keqb : K -> K -> bool) (okey : O -> K) (oval : O -> V) accept ops :
  (forall x y, keqb x y = true -> x = y) -> forall k, final_first keqb okey oval accept ops k <> None -> In k (map okey ops).
Proof.
  intros Hk k H. destruct (final_first keqb okey oval accept ops k) eqn:F; [|congruence].
  apply final_first_origin in F; [|exact Hk]. destruct F as (o & Hin & _ & <- & _). apply in_map, Hin.
Qed.

Theorem judge_sound ops b : judge ops b = Holds -> C10_statement ops b.
Proof.
  unfold judge, verdict_of. cbv zeta.
  match goal with |- (if ?c then _ else _) = _ -> _ => destruct c eqn:Hc end.
  2:{ repeat match goal with |- (if ?c then _ else _) = _ -> _ => destruct c end; discriminate. }
  intros _.
  repeat match goal with H : _ && _ = true |- _ => apply andb_true_iff in H; destruct H end.
  assert (Ss : forall k, spend_wits (spend_final (ops_in ops)) k <> None -> In k (map in_op_key (ops_in ops))).
  { intros k Hk. apply (final_last_support (eqb_of outpoint_ltb) in_op_key in_op_val (fun _ => true)); [intros x y E; apply (eqb_of_true _ outpoint_st), E|].
    unfold spend_wits, spend_final in Hk. intros E. rewrite E in Hk. apply Hk. reflexivity. }
  assert (Sm : forall k, mint_wits (mint_final (ops_mint ops)) k <> None -> In k (map mo_policy (ops_mint ops))).
  { intros k Hk. apply (final_first_support (eqb_of bytes_ltb) mo_policy mo_wit (fun o => negb (mo_zero o))); [intros x y E; apply (eqb_of_true _ bytes_strict_total), E|].
    unfold mint_wits, mint_final in Hk. intros E. rewrite E in Hk. apply Hk. reflexivity. }
  assert (Sc : forall k, cert_final (ops_cert ops) k <> None -> In k (map wop_key (ops_cert ops))).
  { apply final_first_support. intros x y E; apply (eqb_of_true _ cert_st), E. }
  assert (Sw : forall k, wd_final (ops_wd ops) k <> None -> In k (map wop_key (ops_wd ops))).
  { apply final_last_support. intros x y E; apply (eqb_of_true _ racct_ledger_st), E. }
  assert (Sv : forall k, vote_final (ops_vote ops) k <> None -> In k (map wop_key (ops_vote ops))).
  { apply final_first_support. intros x y E; apply (eqb_of_true _ voter_ledger_st), E. }
  assert (Sp : forall k, prop_final (ops_prop ops) k <> None -> In k (map wop_key (ops_prop ops))).
  { apply final_last_support. intros x y E; apply (eqb_of_true _ prop_st), E. }
  unfold C10_statement. cbv zeta.
  repeat match goal with |- _ /\ _ => split end;
    try (eapply (j_field_sound _ outpoint_st); eassumption);
    try (eapply (j_field_sound _ bytes_strict_total); eassumption);
    try (eapply (j_field_sound _ cert_st); eassumption);
    try (eapply (j_field_sound _ racct_ledger_st); eassumption);
    try (eapply (j_field_sound _ voter_ledger_st); eassumption);
    try (eapply (j_field_sound _ prop_st); eassumption);
    try (eapply j_pointers_sound; eassumption);
    try (eapply j_locked_sound; eassumption).
  (* uniqueness: spend pointers and the others are checked separately *)
  intros r1 r2 Hr1 Hr2 Et Ei.
  destruct (tag_code (r_tag r1) =? 0) eqn:E0.
  - apply (j_unique_sound (filter (fun r => tag_code (r_tag r) =? 0) (b_redeemers b))); try assumption.
    + apply filter_In. split; [exact Hr1 | exact E0].
    + apply filter_In. split; [exact Hr2 | rewrite <- Et; exact E0].
  - apply (j_unique_sound (filter (fun r => negb (tag_code (r_tag r) =? 0)) (b_redeemers b))); try assumption.
    + apply filter_In. split; [exact Hr1 | rewrite E0; reflexivity].
    + apply filter_In. split; [exact Hr2 | rewrite <- Et, E0; reflexivity].
Qed.

(* a known-finding verdict is only given inside the corresponding class *)
Lemma verdict_of_known a s p k1 k2 c : verdict_of a s p k1 k2 = FailsKnown c ->
  (c = 1 /\ k1 = true) \/ (c = 2 /\ k2 = true).
Proof. unfold verdict_of. destruct a, s, p, k1, k2; cbn; intros H; try discriminate; injection H as <-; auto. Qed.

Theorem judge_known_narrow ops b c : judge ops b = FailsKnown c ->
  (c = 1 /\ known_collateral_plutus ops = true) \/ (c = 2 /\ known_prop_nonscript ops = true).
Proof. unfold judge. cbv zeta. apply verdict_of_known. Qed.


(* ======================== the known classes, characterised on the call list ======================== *)
(* K1: some collateral input's LAST registration is add_plutus_script_input *)
Theorem known_collateral_plutus_iff ops :
  known_collateral_plutus ops = true <-> exists o h rid, spend_final (ops_col ops) o = Some (Some (h, WPlutus rid)).
Proof.
  unfold known_collateral_plutus. rewrite run_state, proj_collateral. cbn [t_collateral txb_empty].
  pose proof (spend_pointers (ops_col ops)) as P. pose proof (spend_field (ops_col ops)) as F. cbv zeta in P, F.
  set (st := fold_left ib_step (ops_col ops) ib_empty) in *. split.
  - intros H. assert (exists r, In r (ib_plutus st)) as [r Hin].
    { revert H. generalize (ib_plutus st). intros [|r t]; [discriminate|]. intros _. exists r. left; reflexivity. }
    pose proof (ib_plutus_tag _ _ Hin) as Ht. apply (P r Ht) in Hin as (o & rid & Hf & _ & _).
    unfold spend_wits in Hf. destruct (spend_final (ops_col ops) o) as [[[h w]|]|] eqn:Fo; cbn in Hf; try discriminate.
    injection Hf as ->. exists o, h, rid. exact Fo.
  - intros (o & h & rid & Hf).
    assert (Hw : spend_wits (spend_final (ops_col ops)) o = Some (Some (WPlutus rid))) by (unfold spend_wits; rewrite Hf; reflexivity).
    assert (Hb : In o (ib_body st)) by (apply F; rewrite Hw; discriminate).
    destruct (index_of_some outpoint_ledger_ltb (eq_ind _ _ outpoint_st _ outpoint_code_ledger) o (sset_sort outpoint_ledger_ltb (ib_body st))) as [i Hi].
    { apply (sset_sort_In outpoint_ledger_ltb (eq_ind _ _ outpoint_st _ outpoint_code_ledger)). exact Hb. }
    assert (Hin : In (mkR TSpend i rid) (ib_plutus st)).
    { apply (P (mkR TSpend i rid) eq_refl). exists o, rid. unfold ledger_set_index. auto. }
    revert Hin. generalize (ib_plutus st). intros [|x t]; [contradiction | reflexivity].
Qed.

(* K2: some proposal without policy hash whose last accepted call is add_with_plutus_witness *)
Theorem known_prop_nonscript_iff ops :
  known_prop_nonscript ops = true <->
  exists p rid, prop_final (ops_prop ops) p = Some (Some (WPlutus rid)) /\ prop_has_script_hash p = false.
Proof.
  unfold known_prop_nonscript. rewrite run_state, proj_props. cbn [t_props txb_empty].
  destruct (prop_refine (ops_prop ops)) as [S G]. set (st := fold_left prop_apply (ops_prop ops) []) in *.
  assert (ND : NoDup (map fst st)) by (apply sortedk_nodup with (ltb := prop_rust_ltb); [apply prop_st | exact S]).
  rewrite existsb_exists. split.
  - intros ([p w] & Hin & H). cbn [fst snd] in H. destruct w as [[|rid]|]; cbn [plutus_rid] in H; try discriminate.
    exists p, rid. split; [rewrite <- G; apply (al_get_nodup prop_rust_ltb prop_st); assumption | apply negb_true_iff, H].
  - intros (p & rid & Hf & Hs). rewrite <- G in Hf. apply (al_get_In prop_rust_ltb prop_st) in Hf.
    exists (p, Some (WPlutus rid)). split; [exact Hf|]. cbn. rewrite Hs. reflexivity.
Qed.

(* ======================== the judge is complete: it accepts what the model builds outside the known classes ======================== *)
Section JudgeComplete.
  Context {K : Type} (ltb : K -> K -> bool) (ST : strict_total ltb).
  Variables (T : tag) (keys : list K) (final : K -> option (option wit)) (ix : K -> option N)
            (field : list K) (locked : K -> bool) (R : list redeemer).
  Hypothesis support : forall k, final k <> None -> In k keys.
  Hypothesis ix_total : forall k, In k field -> exists i, ix k = Some i.

  Lemma j_field_complete : spec_field final field -> j_field (eqb_of ltb) keys final field = true.
  Proof.
    intros F. unfold j_field. apply andb_true_intro. split; apply forallb_forall; intros k Hk.
    - destruct (final k) eqn:E.
      + assert (Hin : In k field) by (apply F; congruence). apply (existsb_eqb_In ltb ST) in Hin. rewrite Hin. reflexivity.
      + destruct (existsb (eqb_of ltb k) field) eqn:X; [|reflexivity]. apply (existsb_eqb_In ltb ST) in X. apply F in X. congruence.
    - apply (existsb_eqb_In ltb ST). apply support, F, Hk.
  Qed.

  Lemma j_present_complete : spec_field final field -> spec_pointers T final ix R -> j_present T keys final ix R = true.
  Proof.
    intros F P. unfold j_present. apply forallb_forall. intros [k rid] Ha. cbn [fst snd].
    apply attachments_In in Ha as [_ Hf].
    destruct (ix_total k) as [i Hi]; [apply F; congruence|]. rewrite Hi.
    apply existsb_exists. exists (mkR T i rid). split; [|apply red_eqb_true; reflexivity].
    apply (P (mkR T i rid) eq_refl). exists k, rid. auto.
  Qed.

  Lemma j_expected_complete : spec_pointers T final ix R -> j_expected T keys final ix R = true.
  Proof.
    intros P. unfold j_expected. apply forallb_forall. intros r Hin.
    destruct (tag_code (r_tag r) =? tag_code T) eqn:E; [|reflexivity]. cbn [negb orb].
    apply N.eqb_eq, tag_code_inj in E. apply (P r E) in Hin as (k & rid & Hf & Hi & Hd).
    apply existsb_exists. exists (k, rid). split.
    - apply attachments_In. split; [apply support; congruence | exact Hf].
    - cbn [fst snd]. rewrite Hi, Hd, !N.eqb_refl. reflexivity.
  Qed.

  Lemma j_locked_complete : spec_locked final locked -> j_locked keys final locked = true.
  Proof.
    intros L. unfold j_locked. apply forallb_forall. intros [k rid] Ha. cbn [fst]. apply attachments_In in Ha as [_ Hf]. eapply L, Hf.
  Qed.
End JudgeComplete.

Lemma dedup_first_NoDup l : NoDup (dedup_first l).
Proof.
  induction l as [|a t IH]; cbn [dedup_first]; constructor.
  - rewrite filter_In. intros [_ H]. rewrite (proj2 (red_eqb_true a a) eq_refl) in H. discriminate.
  - apply NoDup_filter, IH.
Qed.

Lemma j_unique_complete R : NoDup R ->
  (forall r1 r2, In r1 R -> In r2 R -> r_tag r1 = r_tag r2 -> r_index r1 = r_index r2 -> r1 = r2) -> j_unique R = true.
Proof.
  induction 1 as [|a t Ha ND IH]; intros U; [reflexivity|]. cbn [j_unique]. apply andb_true_intro. split.
  - apply negb_true_iff. destruct (existsb (ptr_eqb a) t) eqn:E; [|reflexivity]. exfalso.
    apply existsb_exists in E as (r & Hr & Hp). apply ptr_eqb_true in Hp as [Et Ei].
    assert (a = r) by (apply U; cbn; auto). subst. contradiction.
  - apply IH. intros r1 r2 H1 H2. apply U; cbn; auto.
Qed.

Lemma verdict_of_holds k1 k2 : verdict_of true true true k1 k2 = Holds.
Proof. reflexivity. Qed.

Opaque j_field j_present j_expected j_locked j_unique.
Theorem judge_complete ops st flags b : run ops = (st, flags) -> tx_build st = Ok b ->
  known_collateral_plutus ops = false -> known_prop_nonscript ops = false -> judge ops b = Holds.
Proof.
  intros Hr Hb K1 K2. pose proof (c10_statement_holds _ _ _ _ Hr Hb K1 K2) as C.
  unfold C10_statement in C. cbv zeta in C.
  destruct C as ((A1 & A2 & A3) & (B1 & B2) & (C1 & C2 & C3) & (D1 & D2 & D3) & (E1 & E2 & E3) & (F1 & F2 & F3) & U).
  assert (NDR : NoDup (b_redeemers b)).
  { destruct (build_fields _ _ Hb) as (_ & _ & _ & _ & _ & _ & _ & ->). apply dedup_first_NoDup. }
  assert (Ss : forall k, spend_wits (spend_final (ops_in ops)) k <> None -> In k (map in_op_key (ops_in ops))).
  { intros k Hk. apply (final_last_support (eqb_of outpoint_ltb) in_op_key in_op_val (fun _ => true)); [intros x y E; apply (eqb_of_true _ outpoint_st), E|].
    unfold spend_wits, spend_final in Hk. intros E. rewrite E in Hk. apply Hk. reflexivity. }
  assert (Sm : forall k, mint_wits (mint_final (ops_mint ops)) k <> None -> In k (map mo_policy (ops_mint ops))).
  { intros k Hk. apply (final_first_support (eqb_of bytes_ltb) mo_policy mo_wit (fun o => negb (mo_zero o))); [intros x y E; apply (eqb_of_true _ bytes_strict_total), E|].
    unfold mint_wits, mint_final in Hk. intros E. rewrite E in Hk. apply Hk. reflexivity. }
  assert (Sc : forall k, cert_final (ops_cert ops) k <> None -> In k (map wop_key (ops_cert ops))).
  { apply final_first_support. intros x y E; apply (eqb_of_true _ cert_st), E. }
  assert (Sw : forall k, wd_final (ops_wd ops) k <> None -> In k (map wop_key (ops_wd ops))).
  { apply final_last_support. intros x y E; apply (eqb_of_true _ racct_ledger_st), E. }
  assert (Sv : forall k, vote_final (ops_vote ops) k <> None -> In k (map wop_key (ops_vote ops))).
  { apply final_first_support. intros x y E; apply (eqb_of_true _ voter_ledger_st), E. }
  assert (Sp : forall k, prop_final (ops_prop ops) k <> None -> In k (map wop_key (ops_prop ops))).
  { apply final_last_support. intros x y E; apply (eqb_of_true _ prop_st), E. }
  assert (Iset : forall {K} (l : K -> K -> bool), strict_total l -> forall fld k, In k fld -> exists i, ledger_set_index l k fld = Some i).
  { intros K0 l S0 fld k Hin. apply (index_of_some l S0). apply (sset_sort_In l S0). exact Hin. }
  assert (Iseq : forall {K} (l : K -> K -> bool), strict_total l -> forall fld k, In k fld -> exists i, ledger_seq_index l k fld = Some i).
  { intros K0 l S0 fld k Hin. apply (index_of_some l S0). exact Hin. }
  pose proof (eq_ind _ _ outpoint_st _ outpoint_code_ledger) as outpoint_ledger_st.
  unfold judge. cbv zeta.
  match goal with |- verdict_of ?c ?s ?p _ _ = _ => assert (Hc : c = true); [| assert (Hs : s = true); [| assert (Hp : p = true)]] end.
  - repeat (apply andb_true_intro; split).
    + eapply (j_field_complete _ outpoint_st); eassumption.
    + eapply (j_present_complete TSpend); try eassumption. apply (Iset _ _ outpoint_ledger_st).
    + eapply j_locked_complete; eassumption.
    + eapply (j_field_complete _ bytes_strict_total); eassumption.
    + eapply (j_present_complete TMint); try eassumption. apply (Iset _ _ bytes_strict_total).
    + eapply j_expected_complete; eassumption.
    + eapply (j_field_complete _ cert_st); eassumption.
    + eapply (j_present_complete TCert); try eassumption. apply (Iseq _ _ cert_st).
    + eapply j_expected_complete; eassumption.
    + eapply j_locked_complete; eassumption.
    + eapply (j_field_complete _ racct_ledger_st); eassumption.
    + eapply (j_present_complete TReward); try eassumption. apply (Iset _ _ racct_ledger_st).
    + eapply j_expected_complete; eassumption.
    + eapply j_locked_complete; eassumption.
    + eapply (j_field_complete _ voter_ledger_st); eassumption.
    + eapply (j_present_complete TVote); try eassumption. apply (Iset _ _ voter_ledger_st).
    + eapply j_expected_complete; eassumption.
    + eapply j_locked_complete; eassumption.
    + eapply (j_field_complete _ prop_st); eassumption.
    + eapply (j_present_complete TPropose); try eassumption. apply (Iseq _ _ prop_st).
    + eapply j_expected_complete; eassumption.
    + apply j_unique_complete; [apply NoDup_filter, NDR|]. intros r1 r2 H1 H2. apply filter_In in H1 as [H1 _], H2 as [H2 _]. apply U; assumption.
  - apply andb_true_intro. split.
    + eapply j_expected_complete; eassumption.
    + apply j_unique_complete; [apply NoDup_filter, NDR|]. intros r1 r2 H1 H2. apply filter_In in H1 as [H1 _], H2 as [H2 _]. apply U; assumption.
  - eapply j_locked_complete; eassumption.
  - rewrite Hc, Hs, Hp. reflexivity.
Qed.
Transparent j_field j_present j_expected j_locked j_unique.

(* the *_utxo entry points accept exactly the UTxOs the ledger lets be spent with that kind of witness *)
Theorem utxo_effect_ledger e a h o rid : utxo_effect e a h o rid = ledger_utxo_effect e a h o rid.
Proof. destruct e, a; reflexivity. Qed.
