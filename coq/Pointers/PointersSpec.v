(* C10 specification: the ledger's redeemer-pointer rules, the attachments a sequence of builder
   calls asks for, and the executable statement of the property (the judge).  No proofs here.

   TRUSTED TRANSCRIPTION (sources: notes/ledger-rules.md "Redeemer pointers"; cardano-ledger, Conway era):
     * spend   i : i-th element of the input SET ordered by TxIn = (TxId bytes, TxIx)            [data TxIn = TxIn !TxId !TxIx deriving Ord]
     * mint    i : i-th policy id of the mint field ordered bytewise                               [Map PolicyID _; PolicyID = ScriptHash]
     * cert    i : i-th certificate of the certificate sequence (wire order)                       [OSet / StrictSeq of TxCert]
     * reward  i : i-th key of the withdrawals MAP ordered by RewardAccount = (network, credential)
                   with data Network = Testnet | Mainnet and
                   data Credential = ScriptHashObj _ | KeyHashObj _  deriving Ord, i.e. SCRIPT BEFORE KEY, then hash bytes
     * vote    i : i-th key of the voting-procedures MAP ordered by
                   data Voter = CommitteeVoter cred | DRepVoter cred | StakePoolVoter keyhash  deriving Ord
                   (constructor order, then Credential order as above)
     * propose i : i-th proposal of the proposal sequence (wire order)
   A map/set on the wire is re-ordered by the ledger when decoded, so for spend / mint / reward / vote the
   index refers to the SORTED keys of the body, whatever order the bytes list them in.
   Items that need a redeemer (Plutus-script-locked): script-hash inputs, Plutus policies, certificates
   whose witness is a script credential (all credential-bearing kinds except the legacy deposit-less
   stake registration, which needs no witness), withdrawals from script reward accounts, voters with a
   script credential, proposals carrying a guardrails (policy) script hash. *)
From CSL Require Import Base.Prelude Base.BytesOrd Pointers.Pointers.
Local Open Scope N_scope.

(* ---------------------------------------------------------------------------------------- *)
(* ledger orders *)
Definition outpoint_ledger_ltb : outpoint -> outpoint -> bool := lex_ltb bytes_ltb N.ltb.
Definition policy_ledger_ltb : bytes -> bytes -> bool := bytes_ltb.
Definition cred_ledger_key (c : cred) : N * bytes := ((if cr_script c then 0 else 1), cr_hash c).
Definition racct_ledger_key (a : racct) : N * (N * bytes) := (ra_net a, cred_ledger_key (ra_cred a)).
Definition racct_ledger_ltb : racct -> racct -> bool := on_ltb racct_ledger_key key3_ltb.
Definition voter_ledger_key (v : voter) : N * (N * bytes) :=
  match v with
  | VCC c => (0, cred_ledger_key c)
  | VDRep c => (1, cred_ledger_key c)
  | VSPO h => (2, (0, h))
  end.
Definition voter_ledger_ltb : voter -> voter -> bool := on_ltb voter_ledger_key key3_ltb.

(* index of x in a body field the ledger reads as a sorted set / map *)
Definition ledger_set_index {K} (ltb : K -> K -> bool) (x : K) (field : list K) : option N :=
  index_of ltb x (sset_sort ltb field).
(* index of x in a body field the ledger reads as a sequence (ltb only provides the equality test) *)
Definition ledger_seq_index {K} (ltb : K -> K -> bool) (x : K) (field : list K) : option N :=
  index_of ltb x field.

(* which certificates need a script witness: the legacy registration (0) and the pool / genesis / MIR kinds never *)
Definition ledger_cert_script_locked (c : cert) : bool :=
  if existsb (N.eqb (c_kind c)) [0; 3; 4; 5; 6] then false
  else (c_kind c <=? 18) && c_script c.           (* there are 19 kinds, 0..18 *)

(* ---------------------------------------------------------------------------------------- *)
(* what a sequence of calls asks for: a finite map item -> witness, as a function *)
Section Final.
  Context {O K V : Type} (keqb : K -> K -> bool) (okey : O -> K) (oval : O -> V) (accept : O -> bool).
  Definition upd (m : K -> option V) (k : K) (v : V) : K -> option V :=
    fun k' => if keqb k k' then Some v else m k'.
  (* every accepted call (re)defines the item *)
  Definition final_last (ops : list O) : K -> option V :=
    fold_left (fun m o => if accept o then upd m (okey o) (oval o) else m) ops (fun _ => None).
  (* the first accepted call defines the item; later calls for it change nothing *)
  Definition final_first (ops : list O) : K -> option V :=
    fold_left (fun m o => if accept o then match m (okey o) with Some _ => m | None => upd m (okey o) (oval o) end else m)
              ops (fun _ => None).
End Final.

(* per builder: key, value, which calls the API accepts *)
Definition in_op_key (o : in_op) : outpoint := match o with InKey x => x | InNative _ x => x | InPlutus _ x _ => x end.
Definition in_op_val (o : in_op) : option (bytes * wit) :=
  match o with InKey _ => None | InNative h _ => Some (h, WNative) | InPlutus h _ r => Some (h, WPlutus r) end.
Definition spend_final (ops : list in_op) : outpoint -> option (option (bytes * wit)) :=
  final_last (eqb_of outpoint_ltb) in_op_key in_op_val (fun _ => true) ops.

Definition mint_final (ops : list mint_op) : bytes -> option mint_wit :=
  final_first (eqb_of bytes_ltb) mo_policy mo_wit (fun o => negb (mo_zero o)) ops.

Definition cert_accept (o : wop cert) : bool := Bool.eqb (ledger_cert_script_locked (wop_key o)) (wop_wants_script o).
Definition cert_final (ops : list (wop cert)) : cert -> option (option wit) :=
  final_first (eqb_of cert_ltb) wop_key wop_wit cert_accept ops.

Definition wd_accept (o : wop racct) : bool := Bool.eqb (cr_script (ra_cred (wop_key o))) (wop_wants_script o).
Definition wd_final (ops : list (wop racct)) : racct -> option (option wit) :=
  final_last (eqb_of racct_ledger_ltb) wop_key wop_wit wd_accept ops.

Definition vote_accept (o : wop voter) : bool := Bool.eqb (voter_has_script (wop_key o)) (wop_wants_script o).
Definition vote_final (ops : list (wop voter)) : voter -> option (option wit) :=
  final_first (eqb_of voter_ledger_ltb) wop_key wop_wit vote_accept ops.

Definition prop_accept (o : wop proposal) : bool :=
  match o with WAdd p => negb (prop_has_script_hash p) | WAddNative _ => false | WAddPlutus _ _ => true end.
Definition prop_final (ops : list (wop proposal)) : proposal -> option (option wit) :=
  final_last (eqb_of prop_rust_ltb) wop_key wop_wit prop_accept ops.

(* projections of a mixed call sequence *)
(* a *_utxo call counts as the registration it amounts to when the entry point accepts the UTxO's address, and as nothing otherwise *)
Definition utxo_calls (col : bool) (o : op) : list in_op :=
  match o with
  | OpInU c e a h x r => if Bool.eqb c col then match utxo_effect e a h x r with Some i => [i] | None => [] end else []
  | _ => []
  end.
Definition ops_in (ops : list op) : list in_op := flat_map (fun o => match o with OpIn i => [i] | _ => utxo_calls false o end) ops.
Definition ops_col (ops : list op) : list in_op := flat_map (fun o => match o with OpCol i => [i] | _ => utxo_calls true o end) ops.
(* the ledger's view of the acceptance rule: a UTxO can be spent with a script witness only if its payment credential is a script
   hash (Base / Enterprise / Pointer address), and with a key / bootstrap witness only if it is a key hash or a Byron address *)
Definition addr_script_locked (a : addr_kind) : bool :=
  match a with ABaseScript | AEntScript | APtrScript => true | _ => false end.
Definition addr_key_locked (a : addr_kind) : bool :=
  match a with ABaseKey | AEntKey | APtrKey | AByron => true | _ => false end.
Definition ledger_utxo_effect (e : utxo_entry) (a : addr_kind) (h : bytes) (o : outpoint) (rid : N) : option in_op :=
  match e with
  | URegular => if addr_key_locked a then Some (InKey o) else None
  | UNative => if addr_script_locked a then Some (InNative h o) else None
  | UPlutus => if addr_script_locked a then Some (InPlutus h o rid) else None
  end.
Definition ops_mint (ops : list op) : list mint_op := flat_map (fun o => match o with OpMint i => [i] | _ => [] end) ops.
Definition ops_cert (ops : list op) : list (wop cert) := flat_map (fun o => match o with OpCert i => [i] | _ => [] end) ops.
Definition ops_wd (ops : list op) : list (wop racct) := flat_map (fun o => match o with OpWd i => [i] | _ => [] end) ops.
Definition ops_vote (ops : list op) : list (wop voter) := flat_map (fun o => match o with OpVote i => [i] | _ => [] end) ops.
Definition ops_prop (ops : list op) : list (wop proposal) := flat_map (fun o => match o with OpProp i => [i] | _ => [] end) ops.

(* ---------------------------------------------------------------------------------------- *)
(* the property on one tag, as propositions about (attachments asked for, body field, redeemers) *)
Section TagSpec.
  Context {K : Type} (T : tag) (final : K -> option (option wit)) (ix : K -> option N)
          (field : list K) (locked : K -> bool) (R : list redeemer).
  (* the body field lists exactly the items that were added *)
  Definition spec_field : Prop := forall k, In k field <-> final k <> None.
  (* the redeemers with tag T are exactly: one per Plutus-witnessed item, at the item's ledger index *)
  Definition spec_pointers : Prop :=
    forall r, r_tag r = T ->
      (In r R <-> exists k rid, final k = Some (Some (WPlutus rid)) /\ ix k = Some (r_index r) /\ r_data r = rid).
  (* only script-locked items carry a redeemer *)
  Definition spec_locked : Prop := forall k rid, final k = Some (Some (WPlutus rid)) -> locked k = true.
End TagSpec.
(* no two redeemers share (tag, index) *)
Definition spec_unique (R : list redeemer) : Prop :=
  forall r1 r2, In r1 R -> In r2 R -> r_tag r1 = r_tag r2 -> r_index r1 = r_index r2 -> r1 = r2.

Definition spend_wits (f : outpoint -> option (option (bytes * wit))) : outpoint -> option (option wit) :=
  fun o => option_map (option_map snd) (f o).
Definition mint_wits (f : bytes -> option mint_wit) : bytes -> option (option wit) :=
  fun p => option_map (fun w => match w with MNative _ => Some WNative | MPlutus _ r => Some (WPlutus r) end) (f p).
Definition spend_locked (f : outpoint -> option (option wit)) (o : outpoint) : bool :=
  match f o with Some (Some _) => true | _ => false end.

(* the full statement of C10 for a call sequence and what the built transaction shows *)
Definition C10_statement (ops : list op) (b : built) : Prop :=
  let sf := spend_wits (spend_final (ops_in ops)) in
  let mf := mint_wits (mint_final (ops_mint ops)) in
  let cf := cert_final (ops_cert ops) in
  let wf := wd_final (ops_wd ops) in
  let vf := vote_final (ops_vote ops) in
  let pf := prop_final (ops_prop ops) in
  let R := b_redeemers b in
  (spec_field sf (b_inputs b) /\ spec_pointers TSpend sf (fun k => ledger_set_index outpoint_ledger_ltb k (b_inputs b)) R
     /\ spec_locked sf (spend_locked sf)) /\
  (spec_field mf (b_policies b) /\ spec_pointers TMint mf (fun k => ledger_set_index policy_ledger_ltb k (b_policies b)) R) /\
  (spec_field cf (b_certs b) /\ spec_pointers TCert cf (fun k => ledger_seq_index cert_ltb k (b_certs b)) R
     /\ spec_locked cf ledger_cert_script_locked) /\
  (spec_field wf (b_withdrawals b) /\ spec_pointers TReward wf (fun k => ledger_set_index racct_ledger_ltb k (b_withdrawals b)) R
     /\ spec_locked wf (fun a => cr_script (ra_cred a))) /\
  (spec_field vf (b_voters b) /\ spec_pointers TVote vf (fun k => ledger_set_index voter_ledger_ltb k (b_voters b)) R
     /\ spec_locked vf voter_has_script) /\
  (spec_field pf (b_proposals b) /\ spec_pointers TPropose pf (fun k => ledger_seq_index prop_rust_ltb k (b_proposals b)) R
     /\ spec_locked pf prop_has_script_hash) /\
  spec_unique R.

(* ---------------------------------------------------------------------------------------- *)
(* known-finding classes (decidable, computed from the calls through the model) *)
(* C10-collateral-plutus: a Plutus witness attached to a COLLATERAL input is emitted as a spend redeemer
   indexed in the collateral set *)
Definition known_collateral_plutus (ops : list op) : bool :=
  match ib_plutus (t_collateral (fst (run ops))) with [] => false | _ => true end.
(* C10-proposal-redeemer-without-script: add_with_plutus_witness accepts a proposal without policy hash *)
Definition known_prop_nonscript (ops : list op) : bool :=
  existsb (fun e => match plutus_rid (snd e) with Some _ => negb (prop_has_script_hash (fst e)) | None => false end)
          (t_props (fst (run ops))).

(* ---------------------------------------------------------------------------------------- *)
(* the judge: C10_statement as a boolean, evaluated on the implementation's built transaction *)
Section JudgeTag.
  Context {K : Type} (eqb : K -> K -> bool) (T : tag) (keys : list K) (final : K -> option (option wit))
          (ix : K -> option N) (field : list K) (locked : K -> bool) (R : list redeemer).
  Definition attachments : list (K * N) :=
    flat_map (fun k => match final k with
                       | Some w => match plutus_rid w with Some rid => [(k, rid)] | None => [] end
                       | None => []
                       end) keys.
  Definition j_field : bool :=
    forallb (fun k => Bool.eqb (match final k with Some _ => true | None => false end) (existsb (eqb k) field)) keys
    && forallb (fun k => existsb (eqb k) keys) field.
  Definition j_present : bool :=
    forallb (fun kr => match ix (fst kr) with
                       | Some i => existsb (red_eqb (mkR T i (snd kr))) R
                       | None => false
                       end) attachments.
  Definition j_expected : bool :=
    forallb (fun r => negb (tag_code (r_tag r) =? tag_code T)
                      || existsb (fun kr => match ix (fst kr) with
                                            | Some i => (i =? r_index r) && (snd kr =? r_data r)
                                            | None => false
                                            end) attachments) R.
  Definition j_locked : bool := forallb (fun kr => locked (fst kr)) attachments.
End JudgeTag.

Fixpoint j_unique (R : list redeemer) : bool :=
  match R with [] => true | r :: t => negb (existsb (ptr_eqb r) t) && j_unique t end.

Inductive verdict := Holds | FailsKnown (class : N) | FailsUnknown.

(* how the parts combine: a failing part that no known class explains is an unknown failure *)
Definition verdict_of (core spend_ok prop_ok k1 k2 : bool) : verdict :=
  if core && spend_ok && prop_ok then Holds
  else if negb core || (negb spend_ok && negb k1) || (negb prop_ok && negb k2) then FailsUnknown
  else if negb spend_ok then FailsKnown 1
  else FailsKnown 2.

Definition judge (ops : list op) (b : built) : verdict :=
  let R := b_redeemers b in
  let io := ops_in ops in let sf := spend_wits (spend_final io) in let ik := map in_op_key io in
  let six := fun k => ledger_set_index outpoint_ledger_ltb k (b_inputs b) in
  let mo := ops_mint ops in let mf := mint_wits (mint_final mo) in let mk := map mo_policy mo in
  let mix := fun k => ledger_set_index policy_ledger_ltb k (b_policies b) in
  let co := ops_cert ops in let cf := cert_final co in let ck := map wop_key co in
  let cix := fun k => ledger_seq_index cert_ltb k (b_certs b) in
  let wo := ops_wd ops in let wf := wd_final wo in let wk := map wop_key wo in
  let wix := fun k => ledger_set_index racct_ledger_ltb k (b_withdrawals b) in
  let vo := ops_vote ops in let vf := vote_final vo in let vk := map wop_key vo in
  let vix := fun k => ledger_set_index voter_ledger_ltb k (b_voters b) in
  let po := ops_prop ops in let pf := prop_final po in let pk := map wop_key po in
  let pix := fun k => ledger_seq_index prop_rust_ltb k (b_proposals b) in
  (* parts that no known class touches *)
  let core :=
    j_field (eqb_of outpoint_ltb) ik sf (b_inputs b) && j_present TSpend ik sf six R && j_locked ik sf (spend_locked sf)
    && j_field (eqb_of bytes_ltb) mk mf (b_policies b) && j_present TMint mk mf mix R && j_expected TMint mk mf mix R
    && j_field (eqb_of cert_ltb) ck cf (b_certs b) && j_present TCert ck cf cix R && j_expected TCert ck cf cix R
    && j_locked ck cf ledger_cert_script_locked
    && j_field (eqb_of racct_ledger_ltb) wk wf (b_withdrawals b) && j_present TReward wk wf wix R && j_expected TReward wk wf wix R
    && j_locked wk wf (fun a => cr_script (ra_cred a))
    && j_field (eqb_of voter_ledger_ltb) vk vf (b_voters b) && j_present TVote vk vf vix R && j_expected TVote vk vf vix R
    && j_locked vk vf voter_has_script
    && j_field (eqb_of prop_rust_ltb) pk pf (b_proposals b) && j_present TPropose pk pf pix R && j_expected TPropose pk pf pix R
    && j_unique (filter (fun r => negb (tag_code (r_tag r) =? 0)) R) in
  (* spend redeemers: none unexpected, none sharing a pointer (Plutus-witnessed collateral breaks this) *)
  let spend_ok := j_expected TSpend ik sf six R && j_unique (filter (fun r => tag_code (r_tag r) =? 0) R) in
  (* proposals: redeemers only on proposals with a policy hash *)
  let prop_ok := j_locked pk pf prop_has_script_hash in
  verdict_of core spend_ok prop_ok (known_collateral_plutus ops) (known_prop_nonscript ops).
