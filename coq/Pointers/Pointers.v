(* C10 model: how the builders assign redeemer pointers (tag, index).  Executable, no proofs.

   Mirrors (file:lines of /repo/rust/src, after the repairs 2fef2d7 and c263357):
     builders/tx_inputs_builder.rs   push_input 450-452, insert_input_with_witness / _empty_witness 454-479,
                                     add_key_input / add_script_input / add_native_script_input /
                                     add_plutus_script_input 111-170, get_plutus_input_scripts 323-364, inputs 397-404
     builders/mint_builder.rs        update_mint_value 122-185, validate_mint_witness 187-280, get_plutus_witnesses 339-357
     builders/certificates_builder.rs add.. 16-78, get_plutus_witnesses 94-104, build 218-221;
                                     Certificate::has_required_script_witness (protocol_types/certificates/certificate.rs 394-417)
     builders/withdrawals_builder.rs add.. 18-78, get_plutus_witnesses 97-107, build + ledger_ordered 178-197
     builders/voting_builder.rs      add.. 24-102, get_plutus_witnesses 122-136, ledger_order_key 199-209, build 211-221
     builders/voting_proposal_builder.rs add 18-24, add_with_plutus_witness 26-36, get_plutus_witnesses 38-48, build 107-113
     builders/script_structs/plutus_witnesses.rs collect 25-57 (redeemer part)
     builders/tx_builder.rs          get_combined_plutus_scripts 2427-2485, get_witness_set 2491-2521,
                                     has_plutus_inputs 2523-2560, build_tx 2566-2583 (the two Plutus pre-conditions)
   Containers: BTreeMap = key-sorted association list (sm_ functions), hashlink::LinkedHashMap = insertion-ordered
   association list whose insert / entry().or_insert move the entry to the back (lm_ functions).
   Mint quantities are modelled as far as they decide whether a transaction is built (a call with amount 0 is
   refused, an asset whose accumulated quantity is 0 makes MintBuilder::build fail).  Scripts, datums, ex-units,
   withdrawal / deposit / input amounts and vote contents are not modelled: they must not influence the body's item
   lists or the pointers, which the correspondence run checks with zero and boundary amounts.
   A redeemer is (tag, index, data marker). *)
From CSL Require Import Base.Prelude Base.BytesOrd.
Local Open Scope N_scope.

(* ---------------------------------------------------------------------------------------- *)
(* containers *)
Section Containers.
  Context {K V : Type} (ltb : K -> K -> bool).

  (* lookup by key equality (BTreeMap::get, LinkedHashMap::get) *)
  Fixpoint al_get (k : K) (l : list (K * V)) : option V :=
    match l with
    | [] => None
    | (k', v') :: t => if eqb_of ltb k' k then Some v' else al_get k t
    end.
  Definition al_mem (k : K) (l : list (K * V)) : bool := match al_get k l with Some _ => true | None => false end.

  (* BTreeMap::insert *)
  Fixpoint sm_insert (k : K) (v : V) (l : list (K * V)) : list (K * V) :=
    match l with
    | [] => [(k, v)]
    | (k', v') :: t =>
        if ltb k k' then (k, v) :: l
        else if ltb k' k then (k', v') :: sm_insert k v t
        else (k, v) :: t
    end.
  (* BTreeMap::entry(k).or_insert(v) *)
  Definition sm_or_insert (k : K) (v : V) (l : list (K * V)) : list (K * V) :=
    match al_get k l with Some _ => l | None => sm_insert k v l end.

  (* LinkedHashMap::remove / insert (an existing entry moves to the back) *)
  Definition lm_remove (k : K) (l : list (K * V)) : list (K * V) :=
    filter (fun p => negb (eqb_of ltb (fst p) k)) l.
  Definition lm_insert (k : K) (v : V) (l : list (K * V)) : list (K * V) := lm_remove k l ++ [(k, v)].

  (* entries sorted by key (slice::sort_by_key on entries with pairwise distinct keys) *)
  Definition sm_sort (l : list (K * V)) : list (K * V) :=
    fold_right (fun p acc => sm_insert (fst p) (snd p) acc) [] l.
End Containers.

Section Keys.
  Context {K : Type} (ltb : K -> K -> bool).
  (* number of elements of l that are smaller than x *)
  Definition rank (x : K) (l : list K) : N := N.of_nat (length (filter (fun y => ltb y x) l)).
  (* position of the first element equal to x *)
  Fixpoint index_of (x : K) (l : list K) : option N :=
    match l with
    | [] => None
    | y :: t => if eqb_of ltb y x then Some 0 else option_map N.succ (index_of x t)
    end.
  (* sorted set: insertion that drops duplicates, and the sort built on it *)
  Fixpoint sset_insert (x : K) (l : list K) : list K :=
    match l with
    | [] => [x]
    | y :: t => if ltb x y then x :: l else if ltb y x then y :: sset_insert x t else l
    end.
  Definition sset_sort (l : list K) : list K := fold_right sset_insert [] l.
End Keys.

Fixpoint enum_from {A} (i : N) (l : list A) : list (N * A) :=
  match l with [] => [] | a :: t => (i, a) :: enum_from (i + 1) t end.

(* ---------------------------------------------------------------------------------------- *)
(* redeemers and witnesses *)
Inductive tag := TSpend | TMint | TCert | TReward | TVote | TPropose.
Definition tag_code (t : tag) : N :=
  match t with TSpend => 0 | TMint => 1 | TCert => 2 | TReward => 3 | TVote => 4 | TPropose => 5 end.
Record redeemer := mkR { r_tag : tag; r_index : N; r_data : N }.
Definition red_eqb (a b : redeemer) : bool :=
  (tag_code (r_tag a) =? tag_code (r_tag b)) && (r_index a =? r_index b) && (r_data a =? r_data b).
Definition ptr_eqb (a b : redeemer) : bool :=
  (tag_code (r_tag a) =? tag_code (r_tag b)) && (r_index a =? r_index b).

Inductive wit := WNative | WPlutus (rid : N).
Definition plutus_rid (w : option wit) : option N :=
  match w with Some (WPlutus r) => Some r | _ => None end.

(* ---------------------------------------------------------------------------------------- *)
(* keys and the orders the CODE uses on them *)
Definition outpoint := (bytes * N)%type.                       (* transaction id, output index *)
(* derived Ord on TransactionInput { transaction_id, index } *)
Definition outpoint_ltb : outpoint -> outpoint -> bool := lex_ltb bytes_ltb N.ltb.

Record cred := mkCred { cr_script : bool; cr_hash : bytes }.
(* derived Ord on enum CredType { Key(_), Script(_) }: key credentials first *)
Definition cred_rust_key (c : cred) : N * bytes := ((if cr_script c then 1 else 0), cr_hash c).

Record racct := mkRacct { ra_net : N; ra_cred : cred }.
(* WithdrawalsBuilder::ledger_ordered sort key: (network, !has_script_hash, raw hash bytes) *)
Definition racct_code_key (a : racct) : N * (N * bytes) :=
  (ra_net a, ((if cr_script (ra_cred a) then 0 else 1), cr_hash (ra_cred a))).
Definition key3_ltb : N * (N * bytes) -> N * (N * bytes) -> bool := lex_ltb N.ltb (lex_ltb N.ltb bytes_ltb).
Definition racct_code_ltb : racct -> racct -> bool := on_ltb racct_code_key key3_ltb.

Inductive voter := VCC (c : cred) | VDRep (c : cred) | VSPO (h : bytes).
Definition voter_has_script (v : voter) : bool :=
  match v with VCC c => cr_script c | VDRep c => cr_script c | VSPO _ => false end.
(* derived Ord on VoterEnum { ConstitutionalCommitteeHotCred(Credential), DRep(Credential), StakingPool(Ed25519KeyHash) } *)
Definition voter_rust_key (v : voter) : N * (N * bytes) :=
  match v with VCC c => (0, cred_rust_key c) | VDRep c => (1, cred_rust_key c) | VSPO h => (2, (0, h)) end.
Definition voter_rust_ltb : voter -> voter -> bool := on_ltb voter_rust_key key3_ltb.
(* VotingBuilder::ledger_order_key: (0|1|2, !has_script_hash, raw hash bytes), stake pool = (2, true, hash) *)
Definition voter_code_key (v : voter) : N * (N * bytes) :=
  match v with
  | VCC c => (0, ((if cr_script c then 0 else 1), cr_hash c))
  | VDRep c => (1, ((if cr_script c then 0 else 1), cr_hash c))
  | VSPO h => (2, (1, h))
  end.
Definition voter_code_ltb : voter -> voter -> bool := on_ltb voter_code_key key3_ltb.

(* a certificate: CDDL kind 0..18, whether its (first) credential is a script hash, a number that
   determines every other field (the harness builds the real certificate from the triple) *)
Record cert := mkCert { c_kind : N; c_script : bool; c_id : N }.
Definition cert_key (c : cert) : N * (N * N) := (c_kind c, ((if c_script c then 1 else 0), c_id c)).
(* only its induced equality matters (LinkedHashMap keys) *)
Definition cert_ltb : cert -> cert -> bool := on_ltb cert_key (lex_ltb N.ltb (lex_ltb N.ltb N.ltb)).
(* Certificate::has_required_script_witness: kinds 0 (legacy registration), 3, 4 (pool), 5, 6 never;
   all others iff the credential is a script hash *)
Definition cert_cred_kinds : list N := [1; 2; 7; 8; 9; 10; 11; 12; 13; 14; 15; 16; 17; 18].
Definition cert_has_required_script_witness (c : cert) : bool :=
  existsb (N.eqb (c_kind c)) cert_cred_kinds && c_script c.

(* a governance proposal: variant index of GovernanceActionEnum (0 parameter change, 1 hard fork,
   2 treasury withdrawals, 3 no confidence, 4 update committee, 5 new constitution, 6 info), the
   policy hash (only variants 0 and 2 have the field), and its deposit, which identifies it; every
   other field is the same for all proposals of a case, so the derived Ord on VotingProposal
   { governance_action, anchor, reward_account, deposit } is the order on (variant, policy, deposit) *)
Record proposal := mkProp { p_kind : N; p_policy : option bytes; p_id : N }.
Definition prop_rust_key (p : proposal) : N * (option bytes * N) := (p_kind p, (p_policy p, p_id p)).
Definition prop_rust_ltb : proposal -> proposal -> bool :=
  on_ltb prop_rust_key (lex_ltb N.ltb (lex_ltb (opt_ltb bytes_ltb) N.ltb)).
Definition prop_has_script_hash (p : proposal) : bool :=
  match p_policy p with Some _ => true | None => false end.

(* ---------------------------------------------------------------------------------------- *)
(* TxInputsBuilder (used for the inputs and for the collateral) *)
Inductive in_op :=
| InKey (o : outpoint)                              (* add_key_input / add_regular_input / add_bootstrap_input *)
| InNative (h : bytes) (o : outpoint)               (* add_native_script_input, script hash h *)
| InPlutus (h : bytes) (o : outpoint) (rid : N).    (* add_plutus_script_input, script hash h, redeemer marker *)

Record ibuilder := mkIB {
  ib_inputs : list (outpoint * option bytes);                         (* BTreeMap input -> script hash option *)
  ib_scripts : list (bytes * list (outpoint * option wit)) }.         (* LinkedHashMap hash -> LinkedHashMap input -> witness option *)
Definition ib_empty : ibuilder := mkIB [] [].

Definition ib_push (o : outpoint) (h : option bytes) (st : ibuilder) : ibuilder :=
  mkIB (sm_insert outpoint_ltb o h (ib_inputs st)) (ib_scripts st).
(* scripts.entry(hash).or_insert(new map) moves the hash to the back; then inner.insert(input, w) *)
Definition ib_set_wit (h : bytes) (o : outpoint) (w : option wit) (st : ibuilder) : ibuilder :=
  let inner := match al_get bytes_ltb h (ib_scripts st) with Some m => m | None => [] end in
  mkIB (ib_inputs st) (lm_insert bytes_ltb h (lm_insert outpoint_ltb o w inner) (ib_scripts st)).
Definition ib_add_script (h : bytes) (o : outpoint) (w : wit) (st : ibuilder) : ibuilder :=
  ib_set_wit h o (Some w) (ib_set_wit h o None (ib_push o (Some h) st)).
Definition ib_step (st : ibuilder) (op : in_op) : ibuilder :=
  match op with
  | InKey o => ib_push o None st
  | InNative h o => ib_add_script h o WNative st
  | InPlutus h o rid => ib_add_script h o (WPlutus rid) st
  end.

(* add_regular_utxo / add_native_script_utxo / add_plutus_script_utxo (tx_inputs_builder.rs 44-106): the address of the UTxO decides
   whether the call is accepted.  Regular: Malformed and Reward addresses are refused, then (add_regular_input_extended) a Base /
   Enterprise / Pointer address must have a KEY payment credential, a Byron address gives a bootstrap input.  Script entry points:
   Malformed, Reward and Byron addresses are refused and the payment credential must be a SCRIPT hash (it is not compared with
   the witness's script hash: the input is registered under the witness's hash). *)
Inductive addr_kind := ABaseKey | ABaseScript | AEntKey | AEntScript | APtrKey | APtrScript | AReward | AByron | AMalformed.
Definition addr_payment_script (a : addr_kind) : option bool :=
  match a with
  | ABaseKey | AEntKey | APtrKey => Some false
  | ABaseScript | AEntScript | APtrScript => Some true
  | AReward | AByron | AMalformed => None
  end.
Inductive utxo_entry := URegular | UNative | UPlutus.
Definition utxo_effect (e : utxo_entry) (a : addr_kind) (h : bytes) (o : outpoint) (rid : N) : option in_op :=
  match e with
  | URegular =>
      match a with
      | AMalformed | AReward => None
      | AByron => Some (InKey o)
      | _ => match addr_payment_script a with Some false => Some (InKey o) | _ => None end
      end
  | UNative | UPlutus =>
      match a with
      | AMalformed | AReward | AByron => None
      | _ => match addr_payment_script a with
             | Some false => None
             | _ => Some (match e with UPlutus => InPlutus h o rid | _ => InNative h o end)
             end
      end
  end.

(* script_hash_index_map of get_plutus_input_scripts: (current script hash, position among ALL inputs), kept for script inputs *)
Fixpoint ib_index_map (i : N) (l : list (outpoint * option bytes)) : list (outpoint * (bytes * N)) :=
  match l with
  | [] => []
  | (o, Some h) :: t => (o, (h, i)) :: ib_index_map (i + 1) t
  | (o, None) :: t => ib_index_map (i + 1) t
  end.
(* a witness registered under script hash h gets a redeemer only if the input is currently locked by h (repair ae86092) *)
Definition ib_entry_redeemer (idx : list (outpoint * (bytes * N))) (h : bytes) (ow : outpoint * option wit) : list redeemer :=
  match snd ow with
  | Some (WPlutus rid) =>
      match al_get outpoint_ltb (fst ow) idx with
      | Some (h', i) => if eqb_of bytes_ltb h' h then [mkR TSpend i rid] else []
      | None => []
      end
  | _ => []
  end.
Definition ib_plutus (st : ibuilder) : list redeemer :=
  let idx := ib_index_map 0 (ib_inputs st) in
  flat_map (fun hm => flat_map (ib_entry_redeemer idx (fst hm)) (snd hm)) (ib_scripts st).
Definition ib_body (st : ibuilder) : list outpoint := map fst (ib_inputs st).
Definition ib_has_plutus (st : ibuilder) : bool :=
  existsb (fun hm => existsb (fun ow => match snd ow with Some (WPlutus _) => true | _ => false end) (snd hm)) (ib_scripts st).

(* ---------------------------------------------------------------------------------------- *)
(* MintBuilder *)
Inductive mint_wit := MNative (is_ref : bool) | MPlutus (is_ref : bool) (rid : N).
(* add_asset / set_asset (witness, asset name, amount): the asset name is a number, the amount an integer
   (negative = burn), set = set_asset (overwrite) instead of add_asset (accumulate) *)
Record mint_op := mkMintOp { mo_policy : bytes; mo_wit : mint_wit; mo_asset : N; mo_amount : Z; mo_set : bool }.
Definition mo_zero (o : mint_op) : bool := (mo_amount o =? 0)%Z.                    (* "Mint cannot be zero." *)
Definition mbuilder := list (bytes * mint_wit).                       (* BTreeMap policy -> ScriptMint *)
(* validate_mint_witness against the entry already stored for the policy *)
Definition mint_compatible (cur w : mint_wit) : bool :=
  match cur, w with
  | MNative r, MNative r' => Bool.eqb r r'
  | MPlutus r d, MPlutus r' d' => Bool.eqb r r' && (d =? d')
  | _, _ => false
  end.
Definition mint_step (st : mbuilder) (op : mint_op) : result mbuilder :=
  if mo_zero op then Err
  else match al_get bytes_ltb (mo_policy op) st with
       | Some cur => if mint_compatible cur (mo_wit op) then Ok st else Err
       | None => Ok (sm_insert bytes_ltb (mo_policy op) (mo_wit op) st)
       end.
Definition mint_entry_redeemer (ie : N * (bytes * mint_wit)) : list redeemer :=
  match snd (snd ie) with MPlutus _ rid => [mkR TMint (fst ie) rid] | MNative _ => [] end.
Definition mint_plutus (st : mbuilder) : list redeemer := flat_map mint_entry_redeemer (enum_from 0 st).
Definition mint_body (st : mbuilder) : list bytes := map fst st.
(* the quantities kept inside the ScriptMint entries: (policy, asset) -> accumulated amount (a BTreeMap per policy,
   flattened to one map keyed by the pair; outpoint_ltb is the lexicographic order on bytes * N).  Only accepted
   calls change it.  Quantities outside the Int range (add_amounts error, MIN_MINT_AMOUNT) are not modelled. *)
Definition mint_amounts := list ((bytes * N) * Z).
Definition mint_amt_step (am : mint_amounts) (op : mint_op) : mint_amounts :=
  let k := (mo_policy op, mo_asset op) in
  let cur := match al_get outpoint_ltb k am with Some q => q | None => 0%Z end in
  sm_insert outpoint_ltb k (if mo_set op then mo_amount op else (cur + mo_amount op)%Z) am.
Definition mint_has_plutus (st : mbuilder) : bool :=
  existsb (fun e => match snd e with MPlutus _ _ => true | _ => false end) st.

(* ---------------------------------------------------------------------------------------- *)
(* generic "item with an optional script witness" operations of the other four builders *)
Inductive wop (K : Type) := WAdd (k : K) | WAddNative (k : K) | WAddPlutus (k : K) (rid : N).
Arguments WAdd {K} k.
Arguments WAddNative {K} k.
Arguments WAddPlutus {K} k rid.
Definition wop_key {K} (op : wop K) : K :=
  match op with WAdd k => k | WAddNative k => k | WAddPlutus k _ => k end.
Definition wop_wit {K} (op : wop K) : option wit :=
  match op with WAdd _ => None | WAddNative _ => Some WNative | WAddPlutus _ r => Some (WPlutus r) end.
Definition wop_wants_script {K} (op : wop K) : bool := match op with WAdd _ => false | _ => true end.

Definition wentry_redeemer {K} (t : tag) (ie : N * (K * option wit)) : list redeemer :=
  match plutus_rid (snd (snd ie)) with Some rid => [mkR t (fst ie) rid] | None => [] end.
Definition wentries_has_plutus {K} (st : list (K * option wit)) : bool :=
  existsb (fun e => match plutus_rid (snd e) with Some _ => true | None => false end) st.

(* CertificatesBuilder: LinkedHashMap certificate -> witness; a certificate already present is an error *)
Definition cbuilder := list (cert * option wit).
Definition cert_step (st : cbuilder) (op : wop cert) : result cbuilder :=
  let c := wop_key op in
  if negb (Bool.eqb (cert_has_required_script_witness c) (wop_wants_script op)) then Err
  else if al_mem cert_ltb c st then Err
  else Ok (lm_insert cert_ltb c (wop_wit op) st).
Definition cert_plutus (st : cbuilder) : list redeemer := flat_map (wentry_redeemer TCert) (enum_from 0 st).
Definition cert_body (st : cbuilder) : list cert := map fst st.

(* WithdrawalsBuilder: LinkedHashMap reward address -> witness, last call wins (and moves to the back);
   emitted and indexed in ledger_ordered() order *)
Definition wbuilder := list (racct * option wit).
Definition wd_step (st : wbuilder) (op : wop racct) : result wbuilder :=
  let a := wop_key op in
  if negb (Bool.eqb (cr_script (ra_cred a)) (wop_wants_script op)) then Err
  else Ok (lm_insert racct_code_ltb a (wop_wit op) st).
Definition wd_ordered (st : wbuilder) : wbuilder := sm_sort racct_code_ltb st.
Definition wd_plutus (st : wbuilder) : list redeemer := flat_map (wentry_redeemer TReward) (enum_from 0 (wd_ordered st)).
Definition wd_body (st : wbuilder) : list racct := map fst (wd_ordered st).

(* VotingBuilder: BTreeMap voter -> (witness, votes); the witness of the FIRST call for a voter is kept;
   emitted in Rust order, indexed by the number of voters that precede in ledger_order_key order *)
Definition vbuilder := list (voter * option wit).
Definition vote_step (st : vbuilder) (op : wop voter) : result vbuilder :=
  let v := wop_key op in
  if negb (Bool.eqb (voter_has_script v) (wop_wants_script op)) then Err
  else Ok (sm_or_insert voter_rust_ltb v (wop_wit op) st).
Definition vote_entry_redeemer (voters : list voter) (e : voter * option wit) : list redeemer :=
  match plutus_rid (snd e) with
  | Some rid => [mkR TVote (rank voter_code_ltb (fst e) voters) rid]
  | None => []
  end.
Definition vote_plutus (st : vbuilder) : list redeemer := flat_map (vote_entry_redeemer (map fst st)) st.
Definition vote_body (st : vbuilder) : list voter := map fst st.

(* VotingProposalBuilder: BTreeMap proposal -> witness, last call wins; add() refuses proposals with a
   policy hash, add_with_plutus_witness() accepts every proposal; no native-script variant *)
Definition pbuilder := list (proposal * option wit).
Definition prop_step (st : pbuilder) (op : wop proposal) : result pbuilder :=
  let p := wop_key op in
  match op with
  | WAdd _ => if prop_has_script_hash p then Err else Ok (sm_insert prop_rust_ltb p None st)
  | WAddNative _ => Err                                   (* no such entry point *)
  | WAddPlutus _ rid => Ok (sm_insert prop_rust_ltb p (Some (WPlutus rid)) st)
  end.
Definition prop_plutus (st : pbuilder) : list redeemer := flat_map (wentry_redeemer TPropose) (enum_from 0 st).
Definition prop_body (st : pbuilder) : list proposal := map fst st.

(* ---------------------------------------------------------------------------------------- *)
(* the transaction builder: sub-builders, witness collection, build_tx pre-conditions *)
Record txb := mkTxb {
  t_inputs : ibuilder; t_collateral : ibuilder; t_mint : mbuilder; t_certs : cbuilder;
  t_wdrl : wbuilder; t_votes : vbuilder; t_props : pbuilder; t_mint_amt : mint_amounts;
  t_hash : bool }.      (* a script data hash is stored in the builder *)
Definition txb_empty : txb := mkTxb ib_empty ib_empty [] [] [] [] [] [] false.

Inductive op :=
| OpIn (o : in_op) | OpCol (o : in_op) | OpMint (m : mint_op) | OpCert (c : wop cert)
| OpWd (w : wop racct) | OpVote (v : wop voter) | OpProp (p : wop proposal)
| OpInU (col : bool) (e : utxo_entry) (a : addr_kind) (h : bytes) (o : outpoint) (rid : N)   (* a *_utxo entry point, on the inputs or the collateral *)
| OpCalc.      (* calc_script_data_hash in the middle of the history (the harness calls it once more before building) *)

(* PlutusWitnesses::collect, redeemer part: the first occurrence of each distinct redeemer, in order *)
Fixpoint dedup_first (l : list redeemer) : list redeemer :=
  match l with
  | [] => []
  | r :: t => r :: filter (fun r' => negb (red_eqb r r')) (dedup_first t)
  end.
(* get_combined_plutus_scripts: inputs, collateral, mint, certificates, withdrawals, votes, proposals *)
Definition all_witness_redeemers (st : txb) : list redeemer :=
  ib_plutus (t_inputs st) ++ ib_plutus (t_collateral st) ++ mint_plutus (t_mint st) ++ cert_plutus (t_certs st)
  ++ wd_plutus (t_wdrl st) ++ vote_plutus (t_votes st) ++ prop_plutus (t_props st).
Definition tx_redeemers (st : txb) : list redeemer := dedup_first (all_witness_redeemers st).

(* calc_script_data_hash stores a hash when it finds a redeemer (then also datums / used languages may exist); when it finds
   nothing it leaves a hash stored by an earlier call in place *)
Definition has_script_data (st : txb) : bool := match all_witness_redeemers st with [] => false | _ => true end.

(* one call; an Err leaves the builder unchanged (the caller sees the error) *)
Definition step (st : txb) (o : op) : txb * bool :=
  let keep {A} (r : result A) (old : A) : A * bool := match r with Ok a => (a, true) | _ => (old, false) end in
  match o with
  | OpIn i => (mkTxb (ib_step (t_inputs st) i) (t_collateral st) (t_mint st) (t_certs st) (t_wdrl st) (t_votes st) (t_props st) (t_mint_amt st) (t_hash st), true)
  | OpCol i => (mkTxb (t_inputs st) (ib_step (t_collateral st) i) (t_mint st) (t_certs st) (t_wdrl st) (t_votes st) (t_props st) (t_mint_amt st) (t_hash st), true)
  | OpMint m => let (x, ok) := keep (mint_step (t_mint st) m) (t_mint st) in
                (mkTxb (t_inputs st) (t_collateral st) x (t_certs st) (t_wdrl st) (t_votes st) (t_props st)
                       (if ok then mint_amt_step (t_mint_amt st) m else t_mint_amt st) (t_hash st), ok)
  | OpCert c => let (x, ok) := keep (cert_step (t_certs st) c) (t_certs st) in
                (mkTxb (t_inputs st) (t_collateral st) (t_mint st) x (t_wdrl st) (t_votes st) (t_props st) (t_mint_amt st) (t_hash st), ok)
  | OpWd w => let (x, ok) := keep (wd_step (t_wdrl st) w) (t_wdrl st) in
              (mkTxb (t_inputs st) (t_collateral st) (t_mint st) (t_certs st) x (t_votes st) (t_props st) (t_mint_amt st) (t_hash st), ok)
  | OpVote v => let (x, ok) := keep (vote_step (t_votes st) v) (t_votes st) in
                (mkTxb (t_inputs st) (t_collateral st) (t_mint st) (t_certs st) (t_wdrl st) x (t_props st) (t_mint_amt st) (t_hash st), ok)
  | OpProp p => let (x, ok) := keep (prop_step (t_props st) p) (t_props st) in
                (mkTxb (t_inputs st) (t_collateral st) (t_mint st) (t_certs st) (t_wdrl st) (t_votes st) x (t_mint_amt st) (t_hash st), ok)
  | OpInU col e a h o rid =>
      match utxo_effect e a h o rid with
      | Some i => if col
                  then (mkTxb (t_inputs st) (ib_step (t_collateral st) i) (t_mint st) (t_certs st) (t_wdrl st) (t_votes st) (t_props st) (t_mint_amt st) (t_hash st), true)
                  else (mkTxb (ib_step (t_inputs st) i) (t_collateral st) (t_mint st) (t_certs st) (t_wdrl st) (t_votes st) (t_props st) (t_mint_amt st) (t_hash st), true)
      | None => (st, false)
      end
  | OpCalc => (mkTxb (t_inputs st) (t_collateral st) (t_mint st) (t_certs st) (t_wdrl st) (t_votes st) (t_props st) (t_mint_amt st)
                     (has_script_data st), true)      (* since /repo fix C09-noop-calc-keeps-hash: a calc that finds nothing to hash removes the hash an earlier calc stored (every hash here is calc's) *)
  end.

Definition run_from (st : txb) (ops : list op) : txb * list bool :=
  fold_left (fun acc o => let (st', ok) := step (fst acc) o in (st', snd acc ++ [ok])) ops (st, []).
Definition run (ops : list op) : txb * list bool := run_from txb_empty ops.

(* has_plutus_inputs (the collateral is not consulted) *)
Definition tx_has_plutus (st : txb) : bool :=
  ib_has_plutus (t_inputs st) || mint_has_plutus (t_mint st) || wentries_has_plutus (t_certs st)
  || wentries_has_plutus (t_wdrl st) || wentries_has_plutus (t_votes st) || wentries_has_plutus (t_props st).

(* what a built transaction shows: the items of the body in wire order, and the redeemers of the witness set *)
Record built := mkBuilt {
  b_inputs : list outpoint; b_collateral : list outpoint; b_policies : list bytes; b_certs : list cert;
  b_withdrawals : list racct; b_voters : list voter; b_proposals : list proposal; b_redeemers : list redeemer }.

(* build_tx, when has_plutus_inputs(): "script data hash is not specified" and "no collateral inputs are added" are
   errors.  The harness always calls calc_script_data_hash (complete cost models, no datums), which sets the hash
   exactly when it finds a redeemer or a used language, i.e. when some builder emits a Plutus witness (and removes a hash
   stored by an earlier call otherwise, since the repair of C09-noop-calc-keeps-hash: OpCalc); a Plutus
   witness that is registered but not emitted (an input re-added as a key input keeps its old witness) therefore makes
   build_tx fail.  Fee and balance are arranged by the harness (add_change_if_needed). *)
Definition tx_build (st : txb) : result built :=
  if (tx_has_plutus st
      && (negb (has_script_data st)
          || match ib_inputs (t_collateral st) with [] => true | _ => false end))
     (* MintBuilder::build: an asset whose accumulated quantity is 0 is an error ("MintAssets cannot be created with 0 value") *)
     || existsb (fun e => (snd e =? 0)%Z) (t_mint_amt st)
  then Err
  else Ok (mkBuilt (ib_body (t_inputs st)) (ib_body (t_collateral st)) (mint_body (t_mint st)) (cert_body (t_certs st))
                   (wd_body (t_wdrl st)) (vote_body (t_votes st)) (prop_body (t_props st)) (tx_redeemers st)).

(* the observation of a case: per-call success flags and the build result *)
Definition model_obs (ops : list op) : list bool * result built :=
  let (st, flags) := run ops in (flags, tx_build st).

(* ---------------------------------------------------------------------------------------- *)
(* the behaviour BEFORE the repairs 2fef2d7 / c263357 / ae86092 (only used by the refutation theorems):
   withdrawals emitted and indexed in insertion order, votes indexed by position in Rust order *)
Definition wd_body_legacy (st : wbuilder) : list racct := map fst st.
Definition wd_plutus_legacy (st : wbuilder) : list redeemer := flat_map (wentry_redeemer TReward) (enum_from 0 st).
Definition vote_plutus_legacy (st : vbuilder) : list redeemer := flat_map (wentry_redeemer TVote) (enum_from 0 st).
(* before ae86092: every registered Plutus witness of an input that is a script input now, whatever hash it is registered under *)
Definition ib_entry_redeemer_legacy (idx : list (outpoint * (bytes * N))) (ow : outpoint * option wit) : list redeemer :=
  match snd ow with
  | Some (WPlutus rid) => match al_get outpoint_ltb (fst ow) idx with Some (_, i) => [mkR TSpend i rid] | None => [] end
  | _ => []
  end.
Definition ib_plutus_legacy (st : ibuilder) : list redeemer :=
  let idx := ib_index_map 0 (ib_inputs st) in
  flat_map (fun hm => flat_map (ib_entry_redeemer_legacy idx) (snd hm)) (ib_scripts st).
