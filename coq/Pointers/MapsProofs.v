(* Facts about the container functions of Pointers.v (key-sorted association lists = BTreeMap,
   insertion-ordered association lists = LinkedHashMap), positions and ranks.  Generic in the
   key order, which is a Section premise discharged by the instances of Base/BytesOrd.v. *)
From CSL Require Import Base.Prelude Base.BytesOrd Pointers.Pointers.
From Coq Require Import Sorting.Sorted Permutation.
Local Open Scope N_scope.

Section Keys.
  Context {K : Type} (ltb : K -> K -> bool) (ST : strict_total ltb).
  Local Notation keq := (eqb_of ltb).
  Local Notation lt := (fun a b => ltb a b = true).
  Definition sortedk (l : list K) : Prop := StronglySorted lt l.

  Lemma keq_true x y : keq x y = true <-> x = y.
  Proof. apply eqb_of_true, ST. Qed.
  Lemma keq_false x y : keq x y = false <-> x <> y.
  Proof. apply eqb_of_false, ST. Qed.
  Lemma keq_refl x : keq x x = true.
  Proof. apply eqb_of_refl, ST. Qed.
  Lemma keq_sym x y : keq x y = keq y x.
  Proof. unfold eqb_of. apply andb_comm. Qed.

  Lemma sortedk_nodup l : sortedk l -> NoDup l.
  Proof.
    induction 1 as [|a l _ IH Hall]; constructor; [|exact IH].
    intros Hin. rewrite Forall_forall in Hall. specialize (Hall _ Hin). cbv beta in Hall.
    rewrite (st_irrefl _ ST) in Hall. discriminate.
  Qed.

  (* ---- sorted-set insertion and sort ---- *)
  Lemma sset_insert_In x k l : In x (sset_insert ltb k l) <-> x = k \/ In x l.
  Proof.
    induction l as [|y t IH]; cbn [sset_insert In]; [intuition|].
    destruct (ltb k y) eqn:E1; [cbn [In]; intuition|].
    destruct (ltb y k) eqn:E2; cbn [In].
    - rewrite IH. intuition.
    - assert (k = y) by (apply (st_total _ ST); assumption). subst. intuition.
  Qed.

  Lemma sset_insert_sorted k l : sortedk l -> sortedk (sset_insert ltb k l).
  Proof.
    induction 1 as [|y t Ht IH Hall]; cbn [sset_insert]; [repeat constructor|].
    destruct (ltb k y) eqn:E1.
    - constructor; [constructor; assumption|]. constructor; [exact E1|].
      rewrite Forall_forall in *. intros z Hz. apply (st_trans _ ST _ _ _ E1). apply Hall, Hz.
    - destruct (ltb y k) eqn:E2; [|constructor; assumption].
      constructor; [exact IH|]. rewrite Forall_forall in *. intros z Hz.
      apply sset_insert_In in Hz as [->|Hz]; [exact E2 | apply Hall, Hz].
  Qed.

  Lemma sset_sort_In x l : In x (sset_sort ltb l) <-> In x l.
  Proof.
    induction l as [|y t IH]; cbn [sset_sort fold_right In]; [tauto|].
    fold (sset_sort ltb t). rewrite sset_insert_In, IH. intuition.
  Qed.

  Lemma sset_sort_sorted l : sortedk (sset_sort ltb l).
  Proof.
    induction l as [|y t IH]; cbn [sset_sort fold_right]; [constructor|].
    apply sset_insert_sorted, IH.
  Qed.

  Lemma sorted_unique l1 : forall l2, sortedk l1 -> sortedk l2 -> (forall x, In x l1 <-> In x l2) -> l1 = l2.
  Proof.
    induction l1 as [|a t1 IH]; intros [|b t2] S1 S2 Heq.
    - reflexivity.
    - exfalso. apply (proj2 (Heq b)). left; reflexivity.
    - exfalso. apply (proj1 (Heq a)). left; reflexivity.
    - inversion S1 as [|? ? St1 Ha]; subst. inversion S2 as [|? ? St2 Hb]; subst.
      rewrite Forall_forall in Ha, Hb.
      assert (a = b) as ->.
      { destruct (proj1 (Heq a) (or_introl eq_refl)) as [E|Hin]; [symmetry; exact E|].
        destruct (proj2 (Heq b) (or_introl eq_refl)) as [E|Hin']; [exact E|].
        pose proof (Hb _ Hin) as L1. pose proof (Ha _ Hin') as L2. cbv beta in L1, L2.
        rewrite (st_asym ltb ST _ _ L1) in L2. discriminate. }
      f_equal. apply IH; [assumption..|].
      intros x. split; intros Hx.
      + destruct (proj1 (Heq x) (or_intror Hx)) as [E|H']; [|exact H'].
        subst. pose proof (Ha _ Hx) as L. cbv beta in L. rewrite (st_irrefl _ ST) in L. discriminate.
      + destruct (proj2 (Heq x) (or_intror Hx)) as [E|H']; [|exact H'].
        subst. pose proof (Hb _ Hx) as L. cbv beta in L. rewrite (st_irrefl _ ST) in L. discriminate.
  Qed.

  Lemma sset_sort_of_sorted l : sortedk l -> sset_sort ltb l = l.
  Proof.
    intros S. apply sorted_unique; [apply sset_sort_sorted | exact S | intros x; apply sset_sort_In].
  Qed.

  Lemma sset_sort_same_set l l' : (forall x, In x l <-> In x l') -> sset_sort ltb l = sset_sort ltb l'.
  Proof.
    intros H. apply sorted_unique; [apply sset_sort_sorted..|].
    intros x. rewrite !sset_sort_In. apply H.
  Qed.

  (* ---- positions and ranks ---- *)
  Lemma index_of_In x l i : index_of ltb x l = Some i -> In x l.
  Proof.
    revert i. induction l as [|y t IH]; cbn [index_of]; [discriminate|]. intros i.
    destruct (keq y x) eqn:E; [apply keq_true in E; subst; left; reflexivity|].
    destruct (index_of ltb x t); [|discriminate]. intros _. right. eapply IH. reflexivity.
  Qed.

  Lemma index_of_some x l : In x l -> exists i, index_of ltb x l = Some i.
  Proof.
    induction l as [|y t IH]; [contradiction|]. intros H. cbn [index_of].
    destruct (keq y x) eqn:E; [eexists; reflexivity|].
    destruct H as [->|H]; [rewrite keq_refl in E; discriminate|].
    destruct (IH H) as [i ->]. eexists; reflexivity.
  Qed.

  Lemma index_of_inj x y l i : index_of ltb x l = Some i -> index_of ltb y l = Some i -> x = y.
  Proof.
    revert i. induction l as [|z t IH]; cbn [index_of]; [discriminate|]. intros i.
    destruct (keq z x) eqn:Ex; destruct (keq z y) eqn:Ey.
    - apply keq_true in Ex, Ey. congruence.
    - intros H1 H2. destruct (index_of ltb y t); cbn in H2; [|discriminate]. injection H1; injection H2; lia.
    - intros H1 H2. destruct (index_of ltb x t); cbn in H1; [|discriminate]. injection H1; injection H2; lia.
    - destruct (index_of ltb x t) as [a|] eqn:Ea; cbn; [|discriminate].
      destruct (index_of ltb y t) as [b|] eqn:Eb; cbn; [|discriminate].
      intros H1 H2. apply (IH a); [reflexivity|]. f_equal. injection H1; injection H2; lia.
  Qed.

  Lemma filter_lt_nil x t : Forall (fun z => ltb x z = true) t -> filter (fun z => ltb z x) t = [].
  Proof.
    induction 1 as [|z t Hz _ IH]; [reflexivity|]. cbn [filter].
    rewrite (st_asym ltb ST _ _ Hz). exact IH.
  Qed.

  Lemma index_of_sorted_rank x l : sortedk l -> In x l -> index_of ltb x l = Some (rank ltb x l).
  Proof.
    induction 1 as [|y t Ht IH Hall]; [contradiction|]. intros Hin. cbn [index_of]. unfold rank. cbn [filter].
    destruct (keq y x) eqn:E.
    - apply keq_true in E. subst y. rewrite (st_irrefl _ ST), filter_lt_nil by exact Hall. reflexivity.
    - destruct Hin as [->|Hin]; [rewrite keq_refl in E; discriminate|].
      rewrite (IH Hin). unfold rank. rewrite Forall_forall in Hall. rewrite (Hall _ Hin). cbn [length option_map].
      f_equal. lia.
  Qed.

  Lemma rank_perm x l l' : Permutation l l' -> rank ltb x l = rank ltb x l'.
  Proof.
    intros P. unfold rank. f_equal. apply Permutation_length.
    induction P; cbn [filter]; try (destruct (ltb _ x)); try (destruct (ltb _ x)); eauto using Permutation.
  Qed.

  Lemma sset_sort_perm l : NoDup l -> Permutation (sset_sort ltb l) l.
  Proof.
    intros ND. apply NoDup_Permutation; [apply sortedk_nodup, sset_sort_sorted | exact ND | intros x; apply sset_sort_In].
  Qed.

  (* index in the sorted set = number of smaller elements *)
  Lemma sorted_index_rank x l : NoDup l -> In x l -> index_of ltb x (sset_sort ltb l) = Some (rank ltb x l).
  Proof.
    intros ND Hin. rewrite index_of_sorted_rank; [| apply sset_sort_sorted | apply sset_sort_In; exact Hin].
    f_equal. apply rank_perm, sset_sort_perm, ND.
  Qed.

  Lemma index_of_nth l : forall n x, NoDup l -> nth_error l n = Some x -> index_of ltb x l = Some (N.of_nat n).
  Proof.
    induction l as [|y t IH]; intros [|n] x ND H; cbn in H; try discriminate.
    - injection H as ->. cbn [index_of]. rewrite keq_refl. reflexivity.
    - inversion ND as [|? ? Hy NDt]; subst. cbn [index_of].
      destruct (keq y x) eqn:E.
      + apply keq_true in E. subst. exfalso. apply Hy. eapply nth_error_In, H.
      + rewrite (IH n x NDt H). cbn [option_map]. f_equal. lia.
  Qed.

  Lemma index_of_nth_inv l : forall x i, index_of ltb x l = Some i -> nth_error l (N.to_nat i) = Some x.
  Proof.
    induction l as [|y t IH]; intros x i; cbn [index_of]; [discriminate|].
    destruct (keq y x) eqn:E.
    - apply keq_true in E. subst. intros H. injection H as <-. reflexivity.
    - destruct (index_of ltb x t) as [j|] eqn:Ej; cbn [option_map]; [|discriminate].
      intros H. injection H as <-. rewrite N2Nat.inj_succ. cbn [nth_error]. apply IH. exact Ej.
  Qed.
End Keys.

Section Maps.
  Context {K V : Type} (ltb : K -> K -> bool) (ST : strict_total ltb).
  Local Notation keq := (eqb_of ltb).
  Implicit Types (l : list (K * V)).

  (* ---- lookup ---- *)
  Lemma al_get_In k v l : al_get ltb k l = Some v -> In (k, v) l.
  Proof.
    induction l as [|[k' v'] t IH]; cbn [al_get]; [discriminate|].
    destruct (keq k' k) eqn:E.
    - apply (keq_true ltb ST) in E. subst. intros H. injection H as ->. left; reflexivity.
    - intros H. right. apply IH, H.
  Qed.

  Lemma al_get_none k l : al_get ltb k l = None <-> ~ In k (map fst l).
  Proof.
    induction l as [|[k' v'] t IH]; cbn [al_get map fst In]; [tauto|].
    destruct (keq k' k) eqn:E.
    - apply (keq_true ltb ST) in E. subst. split; [discriminate | intros H; exfalso; apply H; left; reflexivity].
    - apply (keq_false ltb ST) in E. rewrite IH. tauto.
  Qed.

  Lemma al_get_some_key k v l : al_get ltb k l = Some v -> In k (map fst l).
  Proof. intros H. apply al_get_In in H. apply (in_map fst) in H. exact H. Qed.

  Lemma al_get_key_some k l : In k (map fst l) -> exists v, al_get ltb k l = Some v.
  Proof.
    intros H. destruct (al_get ltb k l) as [v|] eqn:E; [eexists; reflexivity|].
    apply al_get_none in E. contradiction.
  Qed.

  Lemma al_get_nodup k v l : NoDup (map fst l) -> In (k, v) l -> al_get ltb k l = Some v.
  Proof.
    induction l as [|[k' v'] t IH]; [contradiction|]. cbn [map fst al_get]. intros ND H.
    inversion ND as [|? ? Hk NDt]; subst.
    destruct H as [H|H].
    - injection H as -> ->. rewrite (keq_refl ltb ST). reflexivity.
    - destruct (keq k' k) eqn:E; [|apply IH; assumption].
      apply (keq_true ltb ST) in E. subst. exfalso. apply Hk. apply (in_map fst) in H. exact H.
  Qed.

  Lemma al_get_app k l1 l2 :
    al_get ltb k (l1 ++ l2) = match al_get ltb k l1 with Some v => Some v | None => al_get ltb k l2 end.
  Proof.
    induction l1 as [|[k' v'] t IH]; cbn [al_get app]; [reflexivity|].
    destruct (keq k' k); [reflexivity | exact IH].
  Qed.

  (* ---- BTreeMap::insert ---- *)
  Lemma sm_insert_get_same k v l : al_get ltb k (sm_insert ltb k v l) = Some v.
  Proof.
    induction l as [|[k' v'] t IH]; cbn [sm_insert al_get]; [rewrite (keq_refl ltb ST); reflexivity|].
    destruct (ltb k k') eqn:E1; [cbn [al_get]; rewrite (keq_refl ltb ST); reflexivity|].
    destruct (ltb k' k) eqn:E2; cbn [al_get].
    - unfold eqb_of at 1. rewrite E2. cbn. exact IH.
    - rewrite (keq_refl ltb ST). reflexivity.
  Qed.

  Lemma sm_insert_get_other k v l k' : k' <> k -> al_get ltb k' (sm_insert ltb k v l) = al_get ltb k' l.
  Proof.
    intros Hne. induction l as [|[k2 v2] t IH]; cbn [sm_insert al_get].
    - destruct (keq k k') eqn:E; [apply (keq_true ltb ST) in E; congruence | reflexivity].
    - destruct (ltb k k2) eqn:E1.
      + cbn [al_get]. destruct (keq k k') eqn:E; [apply (keq_true ltb ST) in E; congruence | reflexivity].
      + destruct (ltb k2 k) eqn:E2; cbn [al_get].
        * rewrite IH. reflexivity.
        * assert (k = k2) by (apply (st_total _ ST); assumption). subst k2.
          destruct (keq k k') eqn:E; [apply (keq_true ltb ST) in E; congruence | reflexivity].
  Qed.

  Lemma sm_insert_keys k v l : map fst (sm_insert ltb k v l) = sset_insert ltb k (map fst l).
  Proof.
    induction l as [|[k2 v2] t IH]; cbn [sm_insert sset_insert map fst]; [reflexivity|].
    destruct (ltb k k2) eqn:E1; [reflexivity|].
    destruct (ltb k2 k) eqn:E2; cbn [map fst].
    - rewrite IH. reflexivity.
    - assert (k = k2) by (apply (st_total _ ST); assumption). subst. reflexivity.
  Qed.

  Lemma sm_or_insert_get k v l k' :
    al_get ltb k' (sm_or_insert ltb k v l) =
    match al_get ltb k l with
    | Some _ => al_get ltb k' l
    | None => if keq k k' then Some v else al_get ltb k' l
    end.
  Proof.
    unfold sm_or_insert. destruct (al_get ltb k l) eqn:E; [reflexivity|].
    destruct (keq k k') eqn:E2.
    - apply (keq_true ltb ST) in E2. subst. apply sm_insert_get_same.
    - apply (keq_false ltb ST) in E2. apply sm_insert_get_other. congruence.
  Qed.

  Lemma sm_or_insert_keys_sorted k v l : sortedk ltb (map fst l) -> sortedk ltb (map fst (sm_or_insert ltb k v l)).
  Proof.
    intros S. unfold sm_or_insert. destruct (al_get ltb k l); [exact S|].
    rewrite sm_insert_keys. apply sset_insert_sorted; assumption.
  Qed.

  (* ---- sort of the entries ---- *)
  Lemma sm_sort_keys l : map fst (sm_sort ltb l) = sset_sort ltb (map fst l).
  Proof.
    induction l as [|[k v] t IH]; cbn [sm_sort fold_right map fst sset_sort]; [reflexivity|].
    fold (sm_sort ltb t). rewrite sm_insert_keys, IH. reflexivity.
  Qed.

  Lemma sm_sort_get k l : al_get ltb k (sm_sort ltb l) = al_get ltb k l.
  Proof.
    induction l as [|[k' v'] t IH]; cbn [sm_sort fold_right al_get fst snd]; [reflexivity|].
    fold (sm_sort ltb t). destruct (keq k' k) eqn:E.
    - apply (keq_true ltb ST) in E. subst. apply sm_insert_get_same.
    - apply (keq_false ltb ST) in E. rewrite sm_insert_get_other by congruence. exact IH.
  Qed.

  (* ---- LinkedHashMap ---- *)
  Lemma lm_remove_keys k l : map fst (lm_remove ltb k l) = filter (fun k' => negb (keq k' k)) (map fst l).
  Proof.
    induction l as [|[k' v'] t IH]; cbn [lm_remove filter map fst]; [reflexivity|].
    destruct (negb (keq k' k)); cbn [map fst]; fold (lm_remove ltb k t); rewrite IH; reflexivity.
  Qed.

  Lemma lm_remove_get_same k l : al_get ltb k (lm_remove ltb k l) = None.
  Proof.
    apply al_get_none. rewrite lm_remove_keys, filter_In. intros [_ H]. rewrite (keq_refl ltb ST) in H. discriminate.
  Qed.

  Lemma lm_remove_get_other k l k' : k' <> k -> al_get ltb k' (lm_remove ltb k l) = al_get ltb k' l.
  Proof.
    intros Hne. induction l as [|[k2 v2] t IH]; cbn [lm_remove filter al_get fst]; [reflexivity|].
    fold (lm_remove ltb k t).
    destruct (keq k2 k) eqn:E; cbn [negb al_get].
    - apply (keq_true ltb ST) in E. subst k2.
      destruct (keq k k') eqn:E2; [apply (keq_true ltb ST) in E2; congruence | exact IH].
    - rewrite IH. reflexivity.
  Qed.

  Lemma lm_insert_get k v l k' :
    al_get ltb k' (lm_insert ltb k v l) = if keq k k' then Some v else al_get ltb k' l.
  Proof.
    unfold lm_insert. rewrite al_get_app. cbn [al_get].
    destruct (keq k k') eqn:E.
    - apply (keq_true ltb ST) in E. subst. rewrite lm_remove_get_same. reflexivity.
    - apply (keq_false ltb ST) in E. rewrite lm_remove_get_other by congruence.
      destruct (al_get ltb k' l); reflexivity.
  Qed.

  Lemma lm_insert_keys_In k v l k' : In k' (map fst (lm_insert ltb k v l)) <-> k' = k \/ In k' (map fst l).
  Proof.
    unfold lm_insert. rewrite map_app, in_app_iff, lm_remove_keys, filter_In. cbn [map fst In].
    destruct (keq k' k) eqn:E.
    - apply (keq_true ltb ST) in E. subst. cbn. intuition.
    - apply (keq_false ltb ST) in E. cbn. intuition congruence.
  Qed.

  Lemma lm_insert_nodup k v l : NoDup (map fst l) -> NoDup (map fst (lm_insert ltb k v l)).
  Proof.
    intros ND. unfold lm_insert. rewrite map_app, lm_remove_keys. cbn [map fst].
    eapply Permutation_NoDup; [apply Permutation_cons_append|].
    constructor; [|apply NoDup_filter, ND].
    rewrite filter_In. intros [_ H]. rewrite (keq_refl ltb ST) in H. discriminate.
  Qed.
End Maps.
