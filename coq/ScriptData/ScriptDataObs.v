(* C09 — what the correspondence driver evaluates: the model's observation for a case and the judge, with the
   hash instantiated by the executable Blake2b-256 of ScriptData/Blake2b.v.  No proofs in this file. *)
From CSL Require Import Base.Prelude Cbor.Head Cbor.Item ScriptData.LangViews ScriptData.ScriptData
  ScriptData.ScriptDataSpec ScriptData.Blake2b.
Local Open Scope N_scope.

(* stand-alone helper: the hash hash_script_data returns and the witness set emitted for the same redeemers/datums *)
Definition helper_obs (vk bo : option bytes) (r : redeemers) (cm : costmdls) (d : option plutus_list) : bytes * bytes :=
  (hash_script_data blake2b256 r cm d, ws_bytes (helper_witness_set_with vk bo r d)).

Record built := mk_built {
  o_script_data_hash : option bytes;
  o_aux_hash : option bytes;
  o_witness_set : bytes;
  o_aux : option bytes }.

(* a history: outcomes of the calc operations and the transaction build_tx returns *)
Definition builder_obs (ops : list op) : list bool * result built :=
  let '(b, flags) := run blake2b256 builder_new ops in
  (flags,
   match build_tx blake2b256 b with
   | Ok t => Ok (mk_built (tx_script_data_hash t) (tx_aux_data_hash t) (ws_bytes (tx_witness_set t))
                          (match tx_aux t with Some a => Some (enc_aux a) | None => None end))
   | Err => Err | Panic => Panic | OutOfFuel => OutOfFuel
   end).

Definition judge_helper_b := judge_helper blake2b256.
Definition judge_builder_b := judge_builder blake2b256.
