(* C09 — script-integrity and auxiliary-data hashes: executable model of
     rust/src/utils.rs:599-641                      hash_auxiliary_data, hash_script_data
     rust/src/protocol_types/plutus/plutus_data.rs  PlutusData (class under the derived Ord on (datum, original_bytes): what collect's
                                                    BTreeSet sees; to_bytes = original bytes when kept: what PlutusList's
                                                    de-duplication keys on), PlutusList { elems, definite_encoding }:
                                                    new / add / extend / deduplicated_view / deduplicated_clone / to_set_bytes
     rust/src/serialization/plutus/plutus_data.rs   PlutusList::serialize_as_set (tag 258, definite/indefinite, dedup flag)
     rust/src/protocol_types/plutus/redeemers.rs    Redeemers { redeemers, serialization_format }, get_container_type
     rust/src/serialization/plutus/redeemers.rs     Redeemers::serialize (Conway map form / legacy array form)
     rust/src/serialization/plutus/redeemer.rs      serialize_as_array_item / serialize_as_map_item, ExUnits, RedeemerTag
     rust/src/serialization/plutus/plutus_scripts.rs serialize_as_set_by_version / serialize_by_version, view, has_version
     rust/src/builders/script_structs/plutus_witnesses.rs:25-59   PlutusWitnesses::collect
     rust/src/protocol_types/witnesses/transaction_witnesses_set.rs  set_plutus_scripts / set_plutus_data / set_redeemers
     rust/src/serialization/witnesses/transaction_witnesses_set.rs:200-300  serialize (fields 3, 6, 7, 4, 5)
     rust/src/builders/tx_builder.rs                calc_script_data_hash (2223-2300), set/remove_script_data_hash,
                                                    get_combined_plutus_scripts (2427-2486), get_witness_set (2491-2519),
                                                    has_plutus_inputs, build_tx / build_tx_unsafe (script-data and aux-data part),
                                                    auxiliary_data_hash at body construction (2332-2335),
                                                    set_auxiliary_data / remove_auxiliary_data / set_metadata / add_metadatum,
                                                    add_extra_witness_datum
     rust/src/serialization/metadata.rs:173-272     GeneralTransactionMetadata::serialize, AuxiliaryData::serialize (three wire forms)
     rust/src/serialization/general.rs:74-89        Transaction::serialize (position of the auxiliary data)
   Scripts, datums, redeemer data, metadata values and native-script lists are opaque byte strings carrying their
   own CBOR encoding.  The hash (Blake2b-256) is a parameter [H].  No proofs in this file. *)
From CSL Require Import Base.Prelude Cbor.Head Cbor.Item ScriptData.LangViews.
Local Open Scope N_scope.

(* switch mirrored from the code: `true` = PlutusList::serialize_as_set writes `self.elems.len()` as the definite
   array length even when it writes the de-duplicated view (the code as found);  `false` = the length of what is
   written (after fixes/C09-set-bytes-length.patch).  Everything below is defined for both values. *)
Definition set_len_counts_duplicates : bool := false.
(* `true` = hash_script_data hashes an EMPTY datum list as `d9 0102 80` (the code as found); `false` = an empty datum
   list counts as "no datums", as in the witness set and in the ledger (after fixes/C09-empty-datums.patch) *)
Definition empty_datums_hashed : bool := false.

(* `true` = calc_script_data_hash takes the languages in use from everything the sub-builders have REGISTERED
   (get_used_plutus_lang_versions; the code as found); `false` = only from the witnesses it hashes (after
   fixes/C09-stale-input-language.patch: used_langs.retain(..)) *)
Definition stale_langs_counted : bool := false.
(* `true` = a calc_script_data_hash that finds nothing to hash removes a hash that an earlier calc_script_data_hash stored (after
   fixes/C09-noop-calc-keeps-hash.patch); `false` = it leaves every stored hash in place (the code as found) *)
Definition calc_clears_own_hash : bool := true.

(* ------------------------------------------------------------------ Plutus data, lists *)

(* a PlutusData value: its identity class under the derived Ord (what the BTreeSet-based de-duplication looks at)
   and the bytes `to_bytes()` writes for it *)
Record pdata := mk_pdata { pd_id : N; pd_bytes : bytes }.

Record plutus_list := mk_plist { pl_elems : list pdata; pl_definite : option bool }.

Definition pl_new : plutus_list := mk_plist [] None.
(* PlutusList::add resets definite_encoding *)
Definition pl_add (l : plutus_list) (d : pdata) : plutus_list := mk_plist (pl_elems l ++ [d]) None.
(* PlutusList::extend keeps it *)
Definition pl_extend (l : plutus_list) (o : plutus_list) : plutus_list := mk_plist (pl_elems l ++ pl_elems o) (pl_definite l).

(* first occurrence of every identity under the derived Ord, in order (BTreeSet<&PlutusData>::insert returning true:
   PlutusWitnesses::collect) *)
Fixpoint dedup_by {A} (key : A -> N) (seen : list N) (l : list A) : list A :=
  match l with
  | [] => []
  | x :: t => if existsb (N.eqb (key x)) seen then dedup_by key seen t else x :: dedup_by key (key x :: seen) t
  end.
Definition dedup_pdata (l : list pdata) : list pdata := dedup_by pd_id [] l.

(* PlutusList::deduplicated_view / deduplicated_clone key on the bytes a datum is written as (to_bytes()): first
   occurrence of every byte string, in order *)
Fixpoint dedup_written_from (seen : list bytes) (l : list pdata) : list pdata :=
  match l with
  | [] => []
  | x :: t =>
      if existsb (bytes_eqb (pd_bytes x)) seen then dedup_written_from seen t
      else x :: dedup_written_from (pd_bytes x :: seen) t
  end.
Definition dedup_written (l : list pdata) : list pdata := dedup_written_from [] l.

Definition pl_deduplicated_clone (l : plutus_list) : plutus_list := mk_plist (dedup_written (pl_elems l)) (pl_definite l).

Definition is_nil {A} (l : list A) : bool := match l with [] => true | _ => false end.

Definition pl_use_definite (l : plutus_list) : bool :=
  match pl_definite l with Some d => d | None => is_nil (pl_elems l) end.

Definition enc_pdatas (l : list pdata) : bytes := flat_map pd_bytes l.

Definition serialize_as_set_gen (count_dups : bool) (need_deduplication : bool) (l : plutus_list) : bytes :=
  let written := if need_deduplication then dedup_written (pl_elems l) else pl_elems l in
  let counted := if count_dups then pl_elems l else written in
  encode_head 6 258 ++
  (if pl_use_definite l then encode_head 4 (len counted) else [159]) ++
  enc_pdatas written ++
  (if pl_use_definite l then [] else [255]).
Definition serialize_as_set := serialize_as_set_gen set_len_counts_duplicates.
Definition to_set_bytes (l : plutus_list) : bytes := serialize_as_set true l.

(* ------------------------------------------------------------------ redeemers *)

Record redeemer := mk_redeemer { r_tag : N; r_index : N; r_data : pdata; r_mem : N; r_steps : N }.

Definition enc_ex_units (r : redeemer) : bytes := [130] ++ encode_head 0 (r_mem r) ++ encode_head 0 (r_steps r).
Definition enc_redeemer_array_item (r : redeemer) : bytes :=
  [132] ++ encode_head 0 (r_tag r) ++ encode_head 0 (r_index r) ++ pd_bytes (r_data r) ++ enc_ex_units r.
Definition enc_redeemer_map_item (r : redeemer) : bytes :=
  ([130] ++ encode_head 0 (r_tag r) ++ encode_head 0 (r_index r)) ++ ([130] ++ pd_bytes (r_data r) ++ enc_ex_units r).

Inductive container := CMap | CArray.
Record redeemers := mk_redeemers { rs_list : list redeemer; rs_format : option container }.

Definition get_container_type (r : redeemers) : container :=
  match rs_format r with Some f => f | None => CMap end.

Definition redeemers_bytes (r : redeemers) : bytes :=
  match get_container_type r with
  | CMap => encode_head 5 (len (rs_list r)) ++ flat_map enc_redeemer_map_item (rs_list r)
  | CArray => encode_head 4 (len (rs_list r)) ++ flat_map enc_redeemer_array_item (rs_list r)
  end.

(* ------------------------------------------------------------------ hash_script_data *)

Definition datums_for_hash_gen (empty_hashed : bool) (d : option plutus_list) : option plutus_list :=
  match d with
  | Some l => if empty_hashed then Some l else if is_nil (pl_elems l) then None else Some l
  | None => None
  end.

Definition script_data_preimage_gen (count_dups empty_hashed : bool)
    (r : redeemers) (cm : costmdls) (d : option plutus_list) : bytes :=
  let d := datums_for_hash_gen empty_hashed d in
  let set_bytes l := serialize_as_set_gen count_dups true l in
  match rs_list r, d with
  | [], Some l => [160] ++ set_bytes l ++ [160]
  | _, _ => redeemers_bytes r ++ (match d with Some l => set_bytes l | None => [] end) ++ language_views_encoding cm
  end.
Definition script_data_preimage := script_data_preimage_gen set_len_counts_duplicates empty_datums_hashed.

(* ------------------------------------------------------------------ Plutus scripts and witnesses *)

Record script := mk_script { sc_lang : lang; sc_bytes : bytes }.
Definition script_eqb (a b : script) : bool := lang_eqb (sc_lang a) (sc_lang b) && bytes_eqb (sc_bytes a) (sc_bytes b).

Fixpoint dedup_scripts_from (seen : list script) (l : list script) : list script :=
  match l with
  | [] => []
  | x :: t => if existsb (script_eqb x) seen then dedup_scripts_from seen t else x :: dedup_scripts_from (x :: seen) t
  end.
Definition dedup_scripts (l : list script) : list script := dedup_scripts_from [] l.

Inductive script_source := SrcScript (s : script) | SrcRef (l : lang).
Inductive datum_source := DatumNone | DatumValue (d : pdata) | DatumRef.
Record witness := mk_witness { w_script : script_source; w_datum : datum_source; w_redeemer : redeemer }.

Definition source_lang (s : script_source) : lang := match s with SrcScript s => sc_lang s | SrcRef l => l end.
Definition w_lang (w : witness) : lang := source_lang (w_script w).

(* identity of a redeemer under its derived Ord (tag, index, data, ex_units), packed injectively for ids/values
   below 2^64 by the harness: the model only needs a key function *)
Record red_key := mk_red_key { k_tag : N; k_index : N; k_data : N; k_mem : N; k_steps : N }.
Definition red_key_of (r : redeemer) : red_key := mk_red_key (r_tag r) (r_index r) (pd_id (r_data r)) (r_mem r) (r_steps r).
Definition red_key_eqb (a b : red_key) : bool :=
  (k_tag a =? k_tag b) && (k_index a =? k_index b) && (k_data a =? k_data b) && (k_mem a =? k_mem b) && (k_steps a =? k_steps b).
Fixpoint dedup_redeemers_from (seen : list red_key) (l : list redeemer) : list redeemer :=
  match l with
  | [] => []
  | x :: t =>
      if existsb (red_key_eqb (red_key_of x)) seen then dedup_redeemers_from seen t
      else x :: dedup_redeemers_from (red_key_of x :: seen) t
  end.
Definition dedup_redeemers (l : list redeemer) : list redeemer := dedup_redeemers_from [] l.

Definition witness_scripts (ws : list witness) : list script :=
  flat_map (fun w => match w_script w with SrcScript s => [s] | SrcRef _ => [] end) ws.
Definition witness_datums (ws : list witness) : list pdata :=
  flat_map (fun w => match w_datum w with DatumValue d => [d] | _ => [] end) ws.

(* PlutusWitnesses::collect *)
Definition collect (ws : list witness) : list script * option plutus_list * redeemers :=
  (dedup_scripts (witness_scripts ws),
   match dedup_pdata (witness_datums ws) with [] => None | ds => Some (mk_plist ds None) end,
   mk_redeemers (dedup_redeemers (map w_redeemer ws)) None).

(* ------------------------------------------------------------------ witness set *)

Record witness_set := mk_ws {
  ws_vkeys : option bytes;                   (* a non-empty Vkeywitnesses collection, already encoded (set_vkeys ignores an empty one) *)
  ws_native : option (list bytes);           (* NativeScripts: each script as it is written (native scripts keep no original bytes) *)
  ws_bootstraps : option bytes;              (* a non-empty BootstrapWitnesses collection, already encoded *)
  ws_plutus_scripts : option (list script);
  ws_plutus_data : option plutus_list;
  ws_redeemers : option redeemers }.
Definition ws_new : witness_set := mk_ws None None None None None None.
(* NativeScripts::deduplicated_clone: first occurrence of every script *)
Fixpoint dedup_bytes_from (seen : list bytes) (l : list bytes) : list bytes :=
  match l with
  | [] => []
  | x :: t => if existsb (bytes_eqb x) seen then dedup_bytes_from seen t else x :: dedup_bytes_from (x :: seen) t
  end.
Definition set_vkeys (w : witness_set) (v : bytes) : witness_set :=
  mk_ws (Some v) (ws_native w) (ws_bootstraps w) (ws_plutus_scripts w) (ws_plutus_data w) (ws_redeemers w).
Definition set_bootstraps (w : witness_set) (v : bytes) : witness_set :=
  mk_ws (ws_vkeys w) (ws_native w) (Some v) (ws_plutus_scripts w) (ws_plutus_data w) (ws_redeemers w).
Definition set_native_scripts (w : witness_set) (l : list bytes) : witness_set :=
  if is_nil l then w
  else mk_ws (ws_vkeys w) (Some (dedup_bytes_from [] l)) (ws_bootstraps w) (ws_plutus_scripts w) (ws_plutus_data w) (ws_redeemers w).
Definition set_plutus_scripts (w : witness_set) (s : list script) : witness_set :=
  if is_nil s then w
  else mk_ws (ws_vkeys w) (ws_native w) (ws_bootstraps w) (Some (dedup_scripts s)) (ws_plutus_data w) (ws_redeemers w).
Definition set_plutus_data (w : witness_set) (d : plutus_list) : witness_set :=
  if is_nil (pl_elems d) then w
  else mk_ws (ws_vkeys w) (ws_native w) (ws_bootstraps w) (ws_plutus_scripts w) (Some (pl_deduplicated_clone d)) (ws_redeemers w).
Definition set_redeemers (w : witness_set) (r : redeemers) : witness_set :=
  mk_ws (ws_vkeys w) (ws_native w) (ws_bootstraps w) (ws_plutus_scripts w) (ws_plutus_data w) (Some r).

Definition scripts_view (v : lang) (l : list script) : list script := filter (fun s => lang_eqb (sc_lang s) v) l.
Definition enc_script (s : script) : bytes := encode_head 2 (len (sc_bytes s)) ++ sc_bytes s.
Definition enc_scripts_set_by_version (v : lang) (l : list script) : bytes :=
  encode_head 6 258 ++ encode_head 4 (len (scripts_view v l)) ++ flat_map enc_script (scripts_view v l).
Definition has_version (v : lang) (l : list script) : bool := existsb (fun s => lang_eqb (sc_lang s) v) l.

(* NativeScripts::serialize_as_set(false): tag 258, definite array *)
Definition enc_native_set (l : list bytes) : bytes := encode_head 6 258 ++ encode_head 4 (len l) ++ concat l.

(* the fields the serializer writes, in the order it writes them: keys 0, 1, 2, 3, 6, 7, 4, 5 *)
Definition early_fields (w : witness_set) : list (N * bytes) :=
  (match ws_vkeys w with Some v => [(0, v)] | None => [] end) ++
  (match ws_native w with Some l => if is_nil l then [] else [(1, enc_native_set l)] | None => [] end) ++
  (match ws_bootstraps w with Some v => [(2, v)] | None => [] end) ++
  (match ws_plutus_scripts w with
   | Some l =>
       (if has_version V1 l then [(3, enc_scripts_set_by_version V1 l)] else []) ++
       (if has_version V2 l then [(6, enc_scripts_set_by_version V2 l)] else []) ++
       (if has_version V3 l then [(7, enc_scripts_set_by_version V3 l)] else [])
   | None => []
   end).
Definition ws_fields (w : witness_set) : list (N * bytes) :=
  early_fields w ++
  (match ws_plutus_data w with
   | Some d => if is_nil (pl_elems d) then [] else [(4, serialize_as_set false d)]
   | None => []
   end) ++
  (match ws_redeemers w with
   | Some r => if is_nil (rs_list r) then [] else [(5, redeemers_bytes r)]
   | None => []
   end).

Definition enc_fields (fs : list (N * bytes)) : bytes :=
  encode_head 5 (len fs) ++ flat_map (fun kv => encode_head 0 (fst kv) ++ snd kv) fs.
Definition ws_bytes (w : witness_set) : bytes := enc_fields (ws_fields w).

(* ------------------------------------------------------------------ auxiliary data *)

Record aux_data := mk_aux {
  a_metadata : option (list (N * bytes));     (* GeneralTransactionMetadata: label -> encoded metadatum, insertion order *)
  a_native : option bytes;                    (* NativeScripts, already encoded *)
  a_plutus : option (list script);
  a_prefer_alonzo : bool }.
Definition aux_new : aux_data := mk_aux None None None false.

Definition enc_metadata (md : list (N * bytes)) : bytes :=
  encode_head 5 (len md) ++ flat_map (fun kv => encode_head 0 (fst kv) ++ snd kv) md.
Definition enc_scripts_by_version (v : lang) (l : list script) : bytes :=
  encode_head 4 (len (scripts_view v l)) ++ flat_map enc_script (scripts_view v l).
Definition opt64 {A} (o : option A) : N := if is_some o then 1 else 0.
Definition b2n (b : bool) : N := if b then 1 else 0.

Definition enc_aux (a : aux_data) : bytes :=
  match negb (a_prefer_alonzo a), a_metadata a, a_plutus a with
  | true, Some md, None =>
      match a_native a with
      | Some ns => [130] ++ enc_metadata md ++ ns            (* Shelley-MA: [metadata, native scripts] *)
      | None => enc_metadata md                              (* Shelley: the metadata map alone *)
      end
  | _, _, _ =>
      let plutus_added :=
        match a_plutus a with
        | Some l => 1 + b2n (has_version V2 l) + b2n (has_version V3 l)
        | None => 0
        end in
      encode_head 6 259 ++ encode_head 5 (opt64 (a_metadata a) + opt64 (a_native a) + plutus_added) ++
      (match a_metadata a with Some md => [0] ++ enc_metadata md | None => [] end) ++
      (match a_native a with Some ns => [1] ++ ns | None => [] end) ++
      (match a_plutus a with
       | Some l => [2] ++ enc_scripts_by_version V1 l ++
                   (if has_version V2 l then [3] ++ enc_scripts_by_version V2 l else []) ++
                   (if has_version V3 l then [4] ++ enc_scripts_by_version V3 l else [])
       | None => []
       end)
  end.

(* hashlink LinkedHashMap::insert: an existing key is replaced and moved to the back *)
Definition md_insert (md : list (N * bytes)) (k : N) (v : bytes) : list (N * bytes) :=
  filter (fun kv => negb (fst kv =? k)) md ++ [(k, v)].

(* ------------------------------------------------------------------ auxiliary data decoded from its wire forms *)

(* AuxiliaryData::deserialize (serialization/metadata.rs:274-459) on the three wire forms, for inputs written with
   definite lengths and the keys the library knows; components stay opaque (metadatum values, the native-script list):
     Shelley     { label => metadatum }                      -> metadata only, prefer_alonzo_format = false
     Shelley-MA  [ metadata, native scripts ]                -> metadata + native scripts, false
     Alonzo      259({ ? 0: metadata, ? 1: native, ? 2: [v1 scripts], ? 3: [v2], ? 4: [v3] })  -> true,
                 Plutus lists merged in the order V1, V2, V3 (merge_option_plutus_list)
   A repeated metadata label is a DuplicateKey error. *)
Inductive aux_wire :=
| WShelley (md : list (N * bytes))
| WShelleyMA (md : list (N * bytes)) (native : bytes)
| WAlonzo (md : option (list (N * bytes))) (native : option bytes) (v1 v2 v3 : option (list bytes)).

Fixpoint labels_nodup (seen : list N) (md : list (N * bytes)) : bool :=
  match md with
  | [] => true
  | (k, _) :: t => negb (existsb (N.eqb k) seen) && labels_nodup (k :: seen) t
  end.

Definition enc_script_array (l : list bytes) : bytes :=
  encode_head 4 (len l) ++ flat_map (fun b => encode_head 2 (len b) ++ b) l.

Definition enc_wire (w : aux_wire) : bytes :=
  match w with
  | WShelley md => enc_metadata md
  | WShelleyMA md ns => [130] ++ enc_metadata md ++ ns
  | WAlonzo md ns v1 v2 v3 =>
      encode_head 6 259 ++ encode_head 5 (opt64 md + opt64 ns + opt64 v1 + opt64 v2 + opt64 v3) ++
      (match md with Some m => [0] ++ enc_metadata m | None => [] end) ++
      (match ns with Some n => [1] ++ n | None => [] end) ++
      (match v1 with Some l => [2] ++ enc_script_array l | None => [] end) ++
      (match v2 with Some l => [3] ++ enc_script_array l | None => [] end) ++
      (match v3 with Some l => [4] ++ enc_script_array l | None => [] end)
  end.

Definition scripts_of (v : lang) (o : option (list bytes)) : option (list script) :=
  match o with Some l => Some (map (mk_script v) l) | None => None end.
(* merge_option_plutus_list: the first list present, the later ones appended *)
Definition merge_opt (a b : option (list script)) : option (list script) :=
  match a, b with
  | Some x, Some y => Some (x ++ y)
  | Some x, None => Some x
  | None, y => y
  end.

Definition decode_wire (w : aux_wire) : result aux_data :=
  match w with
  | WShelley md => if labels_nodup [] md then Ok (mk_aux (Some md) None None false) else Err
  | WShelleyMA md ns => if labels_nodup [] md then Ok (mk_aux (Some md) (Some ns) None false) else Err
  | WAlonzo md ns v1 v2 v3 =>
      if (match md with Some m => labels_nodup [] m | None => true end)
      then Ok (mk_aux md ns (merge_opt (merge_opt (scripts_of V1 v1) (scripts_of V2 v2)) (scripts_of V3 v3)) true)
      else Err
  end.

(* the builder's auxiliary-data entry points as functions of the auxiliary data it holds *)
(* set_metadata: clone the existing auxiliary data (or a new one) and replace its metadata *)
Definition aux_set_metadata (cur : option aux_data) (md : list (N * bytes)) : aux_data :=
  let a := match cur with Some a => a | None => aux_new end in
  mk_aux (Some md) (a_native a) (a_plutus a) (a_prefer_alonzo a).
(* add_metadatum (also reached by add_json_metadatum / add_json_metadatum_with_schema once the JSON text is converted):
   insert into the existing metadata (or a new map), then set_metadata *)
Definition aux_add_metadatum (cur : option aux_data) (k : N) (v : bytes) : aux_data :=
  let md := match cur with
            | Some a => match a_metadata a with Some md => md | None => [] end
            | None => [] end in
  aux_set_metadata cur (md_insert md k v).

(* ------------------------------------------------------------------ the builder *)

Section WithHash.
Variable H : bytes -> bytes.

Definition hash_script_data (r : redeemers) (cm : costmdls) (d : option plutus_list) : bytes :=
  H (script_data_preimage r cm d).
Definition hash_auxiliary_data (a : aux_data) : bytes := H (enc_aux a).

(* the part of TransactionBuilder the property speaks about.  Each sub-builder is represented by what its
   get_plutus_witnesses / get_plutus_input_scripts returns (redeemer tag and index already assigned: property C10)
   — [] when the sub-builder is not set or has no Plutus witness. *)
(* one sub-builder as far as this property goes *)
Record sub_state := mk_sub {
  ss_witnesses : list witness;     (* what get_plutus_witnesses / get_plutus_input_scripts returns *)
  ss_stale : list lang;            (* languages of Plutus witnesses still registered but NOT returned: an input added again as
                                      a key input keeps its earlier script witness in required_witnesses.scripts;
                                      get_used_plutus_lang_versions still sees it (inputs and collateral only) *)
  ss_native : list bytes }.        (* what get_native_scripts / get_native_input_scripts returns, each script as written *)
Definition sub_empty : sub_state := mk_sub [] [] [].

Record builder := mk_builder {
  b_in : sub_state; b_col : sub_state; b_mi : sub_state; b_ce : sub_state; b_wd : sub_state; b_vo : sub_state; b_pr : sub_state;
  b_collateral_len : N;                (* number of collateral inputs *)
  b_extra_datums : option (list pdata);
  b_script_data_hash : option bytes;
  b_hash_calculated : bool;            (* script_data_hash_is_calculated: the hash was stored by calc_script_data_hash *)
  b_aux : option aux_data }.
Definition b_inputs (b : builder) := ss_witnesses (b_in b).
Definition b_collateral (b : builder) := ss_witnesses (b_col b).
Definition b_mint (b : builder) := ss_witnesses (b_mi b).
Definition b_certs (b : builder) := ss_witnesses (b_ce b).
Definition b_withdrawals (b : builder) := ss_witnesses (b_wd b).
Definition b_votes (b : builder) := ss_witnesses (b_vo b).
Definition b_proposals (b : builder) := ss_witnesses (b_pr b).

Definition builder_new : builder :=
  mk_builder sub_empty sub_empty sub_empty sub_empty sub_empty sub_empty sub_empty 0 None None false None.

Inductive sub := SubInputs | SubCollateral | SubMint | SubCerts | SubWithdrawals | SubVotes | SubProposals.

(* the order in which calc_script_data_hash appends and get_combined_plutus_scripts adds *)
Definition all_witnesses (b : builder) : list witness :=
  b_inputs b ++ b_collateral b ++ b_mint b ++ b_certs b ++ b_withdrawals b ++ b_votes b ++ b_proposals b.

(* get_used_plutus_lang_versions of one sub-builder: a BTreeSet of the languages of the script sources of ALL the
   Plutus witnesses it has registered — the returned ones and the stale ones; [counted] = whether the stale ones
   end up in calc_script_data_hash's set (switch stale_langs_counted) *)
Definition sub_langs_gen (counted : bool) (s : sub_state) : list lang :=
  filter (fun l => mem_lang l (map w_lang (ss_witnesses s)) || (counted && mem_lang l (ss_stale s))) all_langs.
(* for the inputs and the collateral the language set is appended only `if let Some(..) = get_plutus_input_scripts()`,
   i.e. when at least one Plutus witness is returned *)
Definition inputs_langs_gen (counted : bool) (s : sub_state) : list lang :=
  if is_nil (ss_witnesses s) then [] else sub_langs_gen counted s.
(* used_langs.append(&mut sub.get_used_plutus_lang_versions()) for the seven sub-builders (then, since the fix,
   used_langs.retain(language of some collected witness)): the union, iterated in the derived order of Language *)
Definition used_langs_gen (counted : bool) (b : builder) : list lang :=
  filter (fun l => existsb (mem_lang l)
            [inputs_langs_gen counted (b_in b); inputs_langs_gen counted (b_col b); sub_langs_gen counted (b_mi b);
             sub_langs_gen counted (b_ce b); sub_langs_gen counted (b_wd b); sub_langs_gen counted (b_vo b);
             sub_langs_gen counted (b_pr b)]) all_langs.
Definition used_langs := used_langs_gen stale_langs_counted.

(* get_combined_native_scripts: inputs, collateral, mint, certificates, withdrawals, votes (the proposal builder has
   no native-script entry point), in this order, without de-duplication *)
Definition combined_native (b : builder) : list bytes :=
  ss_native (b_in b) ++ ss_native (b_col b) ++ ss_native (b_mi b) ++ ss_native (b_ce b) ++ ss_native (b_wd b) ++ ss_native (b_vo b).

(* the extra-datum step shared (textually) by calc_script_data_hash and get_witness_set *)
Definition add_extra (datums : option plutus_list) (extra : option (list pdata)) : option plutus_list :=
  match extra with
  | Some ex => Some (fold_left pl_add ex (match datums with Some d => d | None => pl_new end))
  | None => datums
  end.

(* `for lang in used_langs { match cost_models.get(&lang) { Some => insert, None => return Err } }` *)
Fixpoint retain_or_fail (cm : costmdls) (ls : list lang) (acc : costmdls) : result costmdls :=
  match ls with
  | [] => Ok acc
  | l :: t => match cm_get cm l with Some c => retain_or_fail cm t (cm_insert acc l c) | None => Err end
  end.

(* the stored hash and where it came from *)
Definition set_hash_flag (b : builder) (h : option bytes) (calculated : bool) : builder :=
  mk_builder (b_in b) (b_col b) (b_mi b) (b_ce b) (b_wd b) (b_vo b) (b_pr b) (b_collateral_len b) (b_extra_datums b) h calculated (b_aux b).
(* set_script_data_hash / remove_script_data_hash: a hash given (or taken away) by the caller *)
Definition set_hash (b : builder) (h : option bytes) : builder := set_hash_flag b h false.
Definition set_aux (b : builder) (a : option aux_data) : builder :=
  mk_builder (b_in b) (b_col b) (b_mi b) (b_ce b) (b_wd b) (b_vo b) (b_pr b) (b_collateral_len b) (b_extra_datums b)
             (b_script_data_hash b) (b_hash_calculated b) a.

(* the preimage calc_script_data_hash hashes (None = nothing to hash: the stored hash is left as it is) *)
Definition calc_preimage_gen (counted : bool) (b : builder) (cm : costmdls) : result (option bytes) :=
  let '(_, datums, reds) := collect (all_witnesses b) in
  let* retained := retain_or_fail cm (used_langs_gen counted b) cm_empty in
  let datums := add_extra datums (b_extra_datums b) in
  if is_some datums || negb (is_nil (rs_list reds)) || negb (cm_len retained =? 0)
  then Ok (Some (script_data_preimage reds retained datums))
  else Ok None.
Definition calc_preimage := calc_preimage_gen stale_langs_counted.

Definition calc_script_data_hash_gen (clears : bool) (b : builder) (cm : costmdls) : result builder :=
  let* p := calc_preimage b cm in
  match p with
  | Some pre => Ok (set_hash_flag b (Some (H pre)) true)
  | None => if clears && b_hash_calculated b then Ok (set_hash_flag b None false) else Ok b
  end.
Definition calc_script_data_hash := calc_script_data_hash_gen calc_clears_own_hash.

(* get_witness_set *)
Definition get_witness_set (b : builder) : witness_set :=
  let wit := set_native_scripts ws_new (combined_native b) in
  let '(wit, all_datums) :=
    match all_witnesses b with
    | [] => (wit, None)
    | pw =>
        let '(scripts, datums, reds) := collect pw in
        (set_redeemers (set_plutus_scripts wit scripts) reds, datums)
    end in
  let all_datums := add_extra all_datums (b_extra_datums b) in
  match all_datums with
  | Some d => set_plutus_data wit d
  | None => wit
  end.

(* has_plutus_inputs: collateral is not looked at; the inputs' registered witnesses are, returned or not *)
Definition has_plutus_inputs (b : builder) : bool :=
  negb (is_nil (b_inputs b)) || negb (is_nil (ss_stale (b_in b))) ||      (* TxInputsBuilder::has_plutus_scripts sees stale witnesses too *) negb (is_nil (b_mint b)) || negb (is_nil (b_certs b)) ||
  negb (is_nil (b_withdrawals b)) || negb (is_nil (b_votes b)) || negb (is_nil (b_proposals b)).

(* the transaction as far as this property goes *)
Record tx := mk_tx {
  tx_script_data_hash : option bytes;        (* body field 11 *)
  tx_aux_data_hash : option bytes;           (* body field 7 *)
  tx_witness_set : witness_set;
  tx_aux : option aux_data }.

(* build_tx: the two Plutus pre-conditions, then build_tx_unsafe.  The remaining validations (inputs
   intersection, fee, balance, size) do not look at script data; scenarios are generated so that they pass. *)
Definition build_tx (b : builder) : result tx :=
  if has_plutus_inputs b && negb (is_some (b_script_data_hash b)) then Err
  else if has_plutus_inputs b && (b_collateral_len b =? 0) then Err
  else Ok (mk_tx (b_script_data_hash b)
                 (match b_aux b with Some a => Some (hash_auxiliary_data a) | None => None end)
                 (get_witness_set b) (b_aux b)).

(* ------------------------------------------------------------------ operations (histories) *)

Inductive op :=
| OpSetSub (k : sub) (ss : sub_state) (n : N)      (* set_inputs / set_collateral (n = number of inputs) / set_mint_builder /
                                                      set_certs_builder / set_withdrawals_builder / set_voting_builder /
                                                      set_voting_proposal_builder, add_*_input …: the sub-builder is now in state ss *)
| OpAddExtraDatum (d : pdata)
| OpCalc (cm : costmdls)
| OpSetHash (h : bytes)
| OpRemoveHash
| OpSetAux (a : aux_data)
| OpRemoveAux
| OpSetMetadata (md : list (N * bytes))
| OpAddMetadatum (k : N) (v : bytes)        (* add_metadatum, add_json_metadatum[_with_schema] (converted value) *)
| OpSetAuxDecoded (w : aux_wire).          (* set_auxiliary_data(AuxiliaryData::from_bytes(enc_wire w)); nothing when decoding fails *)

Definition set_sub (b : builder) (k : sub) (ss : sub_state) (n : N) : builder :=
  let r := fun i c m e w v p cl => mk_builder i c m e w v p cl (b_extra_datums b) (b_script_data_hash b) (b_hash_calculated b) (b_aux b) in
  match k with
  | SubInputs => r ss (b_col b) (b_mi b) (b_ce b) (b_wd b) (b_vo b) (b_pr b) (b_collateral_len b)
  | SubCollateral => r (b_in b) ss (b_mi b) (b_ce b) (b_wd b) (b_vo b) (b_pr b) n
  | SubMint => r (b_in b) (b_col b) ss (b_ce b) (b_wd b) (b_vo b) (b_pr b) (b_collateral_len b)
  | SubCerts => r (b_in b) (b_col b) (b_mi b) ss (b_wd b) (b_vo b) (b_pr b) (b_collateral_len b)
  | SubWithdrawals => r (b_in b) (b_col b) (b_mi b) (b_ce b) ss (b_vo b) (b_pr b) (b_collateral_len b)
  | SubVotes => r (b_in b) (b_col b) (b_mi b) (b_ce b) (b_wd b) ss (b_pr b) (b_collateral_len b)
  | SubProposals => r (b_in b) (b_col b) (b_mi b) (b_ce b) (b_wd b) (b_vo b) ss (b_collateral_len b)
  end.

Definition add_extra_witness_datum (b : builder) (d : pdata) : builder :=
  mk_builder (b_in b) (b_col b) (b_mi b) (b_ce b) (b_wd b) (b_vo b) (b_pr b) (b_collateral_len b)
             (Some (match b_extra_datums b with Some l => l ++ [d] | None => [d] end))
             (b_script_data_hash b) (b_hash_calculated b) (b_aux b).

(* what an operation does to the auxiliary data held by the builder *)
Definition aux_step (cur : option aux_data) (o : op) : option aux_data :=
  match o with
  | OpSetAux a => Some a
  | OpRemoveAux => None
  | OpSetMetadata md => Some (aux_set_metadata cur md)
  | OpAddMetadatum k v => Some (aux_add_metadatum cur k v)
  | OpSetAuxDecoded w => match decode_wire w with Ok a => Some a | _ => cur end
  | _ => cur
  end.

Definition set_metadata (b : builder) (md : list (N * bytes)) : builder := set_aux b (Some (aux_set_metadata (b_aux b) md)).
Definition add_metadatum (b : builder) (k : N) (v : bytes) : builder := set_aux b (Some (aux_add_metadatum (b_aux b) k v)).

(* one operation; calc may fail (missing cost model), in which case the builder is unchanged *)
Definition step (b : builder) (o : op) : builder * bool :=
  match o with
  | OpSetSub k ss n => (set_sub b k ss n, true)
  | OpAddExtraDatum d => (add_extra_witness_datum b d, true)
  | OpCalc cm => match calc_script_data_hash b cm with Ok b' => (b', true) | _ => (b, false) end
  | OpSetHash h => (set_hash b (Some h), true)
  | OpRemoveHash => (set_hash b None, true)
  | OpSetAux a => (set_aux b (Some a), true)
  | OpRemoveAux => (set_aux b None, true)
  | OpSetMetadata md => (set_metadata b md, true)
  | OpAddMetadatum k v => (add_metadatum b k v, true)
  | OpSetAuxDecoded w => (set_aux b (aux_step (b_aux b) o), true)
  end.

(* run a history; the flags are the Ok/Err outcomes of the calc operations, in order *)
Fixpoint run (b : builder) (ops : list op) : builder * list bool :=
  match ops with
  | [] => (b, [])
  | o :: t =>
      let '(b', ok) := step b o in
      let '(bf, flags) := run b' t in
      (bf, match o with OpCalc _ => ok :: flags | _ => flags end)
  end.

End WithHash.
