(* BLAKE2b-256 (RFC 7693, unkeyed, 32-byte digest), executable.  Used ONLY by the extracted judge of the
   C09 correspondence run as the concrete hash function (so that the verdict "reported hash = hash of the
   specification's preimage" is computed entirely by Coq-extracted code).  No theorem of Props/C09.v depends on
   this file: in the theorems the hash is a Section variable without any law.  The implementation is checked
   against the two RFC/reference vectors below and, on every check run, against the library's
   blake2b256 (cryptoxide) on every generated case. *)
From CSL Require Import Base.Prelude.
Local Open Scope N_scope.

Definition mask64 : N := 18446744073709551615.
Definition w64 (x : N) : N := N.land x mask64.
Definition add64 (a b : N) : N := w64 (a + b).
Definition rotr64 (x : N) (r : N) : N := N.lor (N.shiftr x r) (w64 (N.shiftl x (64 - r))).

Definition IV : list N :=
  [ 7640891576956012808;  13503953896175478587; 4354685564936845355;  11912009170470909681;
    5840696475078001361;  11170449401992604703; 2270897969802886507;  6620516959819538809 ].

Definition SIGMA : list (list nat) :=
  [ [0;1;2;3;4;5;6;7;8;9;10;11;12;13;14;15];
    [14;10;4;8;9;15;13;6;1;12;0;2;11;7;5;3];
    [11;8;12;0;5;2;15;13;10;14;3;6;7;1;9;4];
    [7;9;3;1;13;12;11;14;2;6;5;10;4;0;15;8];
    [9;0;5;7;2;4;10;15;14;1;11;12;6;8;3;13];
    [2;12;6;10;0;11;8;3;4;13;7;5;15;14;1;9];
    [12;5;1;15;14;13;4;10;0;7;6;3;9;2;8;11];
    [13;11;7;14;12;1;3;9;5;0;15;4;8;6;2;10];
    [6;15;14;9;11;3;0;8;12;2;13;7;1;4;10;5];
    [10;2;8;4;7;6;1;5;15;11;9;14;3;12;13;0] ]%nat.

Definition get (v : list N) (i : nat) : N := nth i v 0.
Fixpoint upd (v : list N) (i : nat) (x : N) : list N :=
  match v, i with
  | [], _ => []
  | _ :: t, O => x :: t
  | h :: t, S j => h :: upd t j x
  end.

Definition G (v : list N) (a b c d : nat) (x y : N) : list N :=
  let va := add64 (add64 (get v a) (get v b)) x in
  let vd := rotr64 (N.lxor (get v d) va) 32 in
  let vc := add64 (get v c) vd in
  let vb := rotr64 (N.lxor (get v b) vc) 24 in
  let va := add64 (add64 va vb) y in
  let vd := rotr64 (N.lxor vd va) 16 in
  let vc := add64 vc vd in
  let vb := rotr64 (N.lxor vb vc) 63 in
  upd (upd (upd (upd v a va) b vb) c vc) d vd.

Definition round (m : list N) (v : list N) (s : list nat) : list N :=
  let w (i : nat) := get m (nth i s O) in
  let v := G v 0 4 8 12 (w 0%nat) (w 1%nat) in
  let v := G v 1 5 9 13 (w 2%nat) (w 3%nat) in
  let v := G v 2 6 10 14 (w 4%nat) (w 5%nat) in
  let v := G v 3 7 11 15 (w 6%nat) (w 7%nat) in
  let v := G v 0 5 10 15 (w 8%nat) (w 9%nat) in
  let v := G v 1 6 11 12 (w 10%nat) (w 11%nat) in
  let v := G v 2 7 8 13 (w 12%nat) (w 13%nat) in
  G v 3 4 9 14 (w 14%nat) (w 15%nat).

Definition rounds12 : list (list nat) := SIGMA ++ firstn 2 SIGMA.

(* little-endian word of (up to) 8 bytes *)
Fixpoint le_word (bs : bytes) : N :=
  match bs with [] => 0 | b :: t => b + 256 * le_word t end.
Fixpoint words (k : nat) (bs : bytes) : list N :=
  match k with O => [] | S k' => le_word (firstn 8 bs) :: words k' (skipn 8 bs) end.
Fixpoint le_bytes (k : nat) (w : N) : bytes :=
  match k with O => [] | S k' => (w mod 256) :: le_bytes k' (w / 256) end.

Fixpoint zip_xor3 (h a b : list N) : list N :=
  match h, a, b with
  | x :: h', y :: a', z :: b' => N.lxor (N.lxor x y) z :: zip_xor3 h' a' b'
  | _, _, _ => []
  end.

(* block = exactly 128 bytes (already zero padded); t = number of message bytes fed so far (< 2^64 here) *)
Definition compress (h : list N) (block : bytes) (t : N) (last : bool) : list N :=
  let m := words 16 block in
  let v := h ++ IV in
  let v := upd v 12 (N.lxor (get v 12) (w64 t)) in
  let v := upd v 13 (N.lxor (get v 13) (N.shiftr t 64)) in
  let v := if last then upd v 14 (N.lxor (get v 14) mask64) else v in
  let v := fold_left (round m) rounds12 v in
  zip_xor3 h (firstn 8 v) (skipn 8 v).

Definition pad128 (bs : bytes) : bytes := bs ++ repeat 0 (128 - length bs)%nat.

(* fuel = number of blocks + 1 *)
Fixpoint absorb (fuel : nat) (h : list N) (bs : bytes) (t : N) : list N :=
  match fuel with
  | O => h
  | S f =>
    if (length bs <=? 128)%nat then compress h (pad128 bs) (t + N.of_nat (length bs)) true
    else absorb f (compress h (firstn 128 bs) (t + 128) false) (skipn 128 bs) (t + 128)
  end.

Definition blake2b256 (msg : bytes) : bytes :=
  let h0 := upd IV 0 (N.lxor (get IV 0) 16842784) in      (* 0x01010020: digest 32, key 0, fanout 1, depth 1 *)
  let h := absorb (S (length msg / 128)) h0 msg 0 in
  flat_map (le_bytes 8) (firstn 4 h).
