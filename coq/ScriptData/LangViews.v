(* C09 — language views: executable model of
     rust/src/protocol_types/plutus/language.rs      LanguageKind { PlutusV1 = 0, PlutusV2 = 1, PlutusV3 = 2 }
     rust/src/serialization/plutus/language.rs       Language::serialize  (write_unsigned_integer(kind))
     rust/src/serialization/numeric/int.rs           Int::serialize (uint, or write_nint for negatives)
     rust/src/serialization/utils.rs:28-38           write_nint (argument (-1 - v) as u64)
     rust/src/serialization/plutus/cost_model.rs     CostModel::serialize (definite array of Int)
     rust/src/protocol_types/plutus/cost_models.rs   Costmdls (BTreeMap<Language, CostModel>): insert / get / keys,
                                                     language_views_encoding (42-86), retain_language_versions (88-99)
   and the specification of the ledger's language-views map.  No proofs in this file. *)
From CSL Require Import Base.Prelude Cbor.Head Cbor.Item.
Local Open Scope N_scope.

Inductive lang := V1 | V2 | V3.

Definition lang_index (l : lang) : N := match l with V1 => 0 | V2 => 1 | V3 => 2 end.
Definition lang_of_index (n : N) : option lang :=
  match n with 0 => Some V1 | 1 => Some V2 | 2 => Some V3 | _ => None end.
Definition lang_eqb (a b : lang) : bool := lang_index a =? lang_index b.
(* derived Ord on LanguageKind: declaration order *)
Definition lang_ltb (a b : lang) : bool := lang_index a <? lang_index b.

(* ------------------------------------------------------------------ integers of a cost model *)

(* Int(i128)::serialize: `self.0 as u64` for non-negative values, write_nint ((-1 - v) as u64) otherwise.
   The casts truncate to 64 bits; values inside the CBOR int range -2^64 .. 2^64-1 are not changed by them. *)
Definition enc_int (z : Z) : bytes :=
  if (z <? 0)%Z then encode_head 1 (Z.to_N ((- 1 - z) mod two64Z))
  else encode_head 0 (Z.to_N (z mod two64Z)).

Definition int_in_range (z : Z) : bool := ((- two64Z <=? z) && (z <? two64Z))%Z.

Definition enc_ints (cs : list Z) : bytes := flat_map enc_int cs.

(* CostModel::serialize *)
Definition enc_cost_model (cs : list Z) : bytes := encode_head 4 (len cs) ++ enc_ints cs.

(* ------------------------------------------------------------------ Costmdls *)

(* BTreeMap<Language, CostModel> over the closed three-element key type: one optional cost model per language;
   iteration order of the BTreeMap = V1, V2, V3. *)
Record costmdls := mk_costmdls { cm_v1 : option (list Z); cm_v2 : option (list Z); cm_v3 : option (list Z) }.

Definition cm_empty : costmdls := mk_costmdls None None None.
Definition cm_get (cm : costmdls) (l : lang) : option (list Z) :=
  match l with V1 => cm_v1 cm | V2 => cm_v2 cm | V3 => cm_v3 cm end.
Definition cm_insert (cm : costmdls) (l : lang) (c : list Z) : costmdls :=
  match l with
  | V1 => mk_costmdls (Some c) (cm_v2 cm) (cm_v3 cm)
  | V2 => mk_costmdls (cm_v1 cm) (Some c) (cm_v3 cm)
  | V3 => mk_costmdls (cm_v1 cm) (cm_v2 cm) (Some c)
  end.
Definition all_langs : list lang := [V1; V2; V3].
Definition is_some {A} (o : option A) : bool := match o with Some _ => true | None => false end.
(* Costmdls::keys: the map's keys in BTreeMap order *)
Definition cm_keys (cm : costmdls) : list lang := filter (fun l => is_some (cm_get cm l)) all_langs.
Definition cm_len (cm : costmdls) : N := len (cm_keys cm).

(* Costmdls::retain_language_versions: insert every listed language that has a cost model *)
Definition retain_language_versions (cm : costmdls) (ls : list lang) : costmdls :=
  fold_left (fun acc l => match cm_get cm l with Some c => cm_insert acc l c | None => acc end) ls cm_empty.

(* ------------------------------------------------------------------ language_views_encoding *)

(* the key as written into the language-views map: PlutusV1 is the byte string containing its own
   CBOR encoding (0x41 0x00), the others are plain unsigned integers *)
Definition enc_lang (l : lang) : bytes := encode_head 0 (lang_index l).
Definition enc_view_key (l : lang) : bytes :=
  match l with
  | V1 => encode_head 2 (len (enc_lang V1)) ++ enc_lang V1
  | _ => enc_lang l
  end.
(* fn key_len *)
Definition key_len (l : lang) : N := len (enc_view_key l).

(* the comparator of keys.sort_by: key_len first, then the derived order on Language *)
Definition view_key_leb (a b : lang) : bool :=
  if key_len a <? key_len b then true
  else if key_len b <? key_len a then false
  else negb (lang_ltb b a).

(* slice::sort_by is a stable sort; on a list without duplicates and a total comparator every
   correct sort returns the same list.  Modelled as insertion sort. *)
Fixpoint insert_key (x : lang) (l : list lang) : list lang :=
  match l with
  | [] => [x]
  | y :: t => if view_key_leb x y then x :: y :: t else y :: insert_key x t
  end.
Definition sort_keys (l : list lang) : list lang := fold_right insert_key [] l.

(* value of one entry *)
Definition enc_view_value (l : lang) (cs : list Z) : bytes :=
  match l with
  | V1 =>
      (* byte string holding an INDEFINITE-length list of the costs (cardano-ledger-specs issue 2512) *)
      let inner := 159 :: enc_ints cs ++ [255] in
      encode_head 2 (len inner) ++ inner
  | _ => enc_cost_model cs
  end.

Definition enc_view_entry (cm : costmdls) (l : lang) : bytes :=
  match cm_get cm l with
  | Some cs => enc_view_key l ++ enc_view_value l cs
  | None => []           (* unreachable: keys come from the map itself (the Rust code unwraps) *)
  end.

Definition language_views_encoding (cm : costmdls) : bytes :=
  encode_head 5 (cm_len cm) ++ flat_map (enc_view_entry cm) (sort_keys (cm_keys cm)).

(* ------------------------------------------------------------------ specification *)

(* Ledger (Alonzo/Babbage/Conway `getLanguageView` + canonical map encoding of `LangDepView`s):
   a definite-length map with one entry per language in use, keys in canonical CBOR order of their
   ENCODED form (shorter first, then bytewise), where
     PlutusV1:  key = bytes(serialise 0) = 41 00,  value = bytes( 9f cost* ff )
     PlutusV2:  key = 01,                          value = [ cost* ]   (definite)
     PlutusV3:  key = 02,                          value = [ cost* ]   (definite)             *)

(* canonical (RFC 7049 section 3.9, "length-first") order on encoded keys *)
Fixpoint bytes_ltb (a b : bytes) : bool :=
  match a, b with
  | [], [] => false
  | [], _ :: _ => true
  | _ :: _, [] => false
  | x :: a', y :: b' => if x <? y then true else if y <? x then false else bytes_ltb a' b'
  end.
Definition canon_key_ltb (a b : bytes) : bool :=
  if len a <? len b then true else if len b <? len a then false else bytes_ltb a b.

Fixpoint strictly_sorted (l : list bytes) : bool :=
  match l with
  | [] => true
  | x :: t => match t with [] => true | y :: _ => canon_key_ltb x y && strictly_sorted t end
  end.

Definition mem_lang (l : lang) (ls : list lang) : bool := existsb (lang_eqb l) ls.

(* the languages in canonical order of their encoded keys: 01 < 02 < 41 00 *)
Definition canonical_langs : list lang := [V2; V3; V1].

Definition spec_view_entry (cm : costmdls) (l : lang) : bytes :=
  match cm_get cm l with
  | Some cs =>
      match l with
      | V1 => [65; 0] ++ (let inner := [159] ++ enc_ints cs ++ [255] in encode_head 2 (len inner) ++ inner)
      | V2 => [1] ++ encode_head 4 (len cs) ++ enc_ints cs
      | V3 => [2] ++ encode_head 4 (len cs) ++ enc_ints cs
      end
  | None => []
  end.

(* language views of the languages [used] (any order, repetitions allowed) under the cost-model table [cm] *)
Definition spec_views (used : list lang) (cm : costmdls) : bytes :=
  let ls := filter (fun l => mem_lang l used) canonical_langs in
  encode_head 5 (len ls) ++ flat_map (spec_view_entry cm) ls.

(* every used language has a cost model in the table *)
Definition covers (cm : costmdls) (used : list lang) : bool := forallb (fun l => is_some (cm_get cm l)) used.
