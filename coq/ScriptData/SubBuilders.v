(* C09 x C10 — the sub-builders' language sets computed from their ENTRIES.
   The C10 model (Pointers/Pointers.v) has the six sub-builders as containers of entries (input / policy / certificate /
   reward account / voter / proposal, each with an optional witness carrying a redeemer marker `rid`) and computes the
   redeemers each getter returns (tag, index, rid).  Here a payload table gives every rid its script source, datum,
   redeemer data and ex-units, which turns C10's redeemer lists into the witness lists of the C09 model
   (ScriptData.sub_state) and lets get_used_plutus_lang_versions be written over the entries, as the Rust code does:
     tx_inputs_builder.rs 309-319 (all registered witnesses), mint_builder.rs 429-440, certificates_builder.rs 137-145,
     withdrawals_builder.rs 140-148, voting_builder.rs 169-177, voting_proposal_builder.rs 80-88.
   No proofs in this file. *)
From CSL Require Import Base.Prelude Base.BytesOrd Cbor.Head Cbor.Item ScriptData.LangViews ScriptData.ScriptData ScriptData.ScriptDataSpec.
From CSL Require Pointers.Pointers.
Local Open Scope N_scope.

Module P := CSL.Pointers.Pointers.

Record payload := mk_payload { py_script : script_source; py_datum : datum_source; py_data : pdata; py_mem : N; py_steps : N }.

Section WithPayload.
Variable pay : N -> payload.

Definition rid_lang (rid : N) : lang := source_lang (py_script (pay rid)).

(* a C10 redeemer (tag, index, rid) with its payload: the PlutusWitness the getter returns *)
Definition witness_of (r : P.redeemer) : witness :=
  let p := pay (P.r_data r) in
  mk_witness (py_script p) (py_datum p) (mk_redeemer (P.tag_code (P.r_tag r)) (P.r_index r) (py_data p) (py_mem p) (py_steps p)).
(* MintBuilder::get_plutus_witnesses builds its witnesses without datum *)
Definition witness_of_mint (r : P.redeemer) : witness :=
  let p := pay (P.r_data r) in
  mk_witness (py_script p) DatumNone (mk_redeemer (P.tag_code (P.r_tag r)) (P.r_index r) (py_data p) (py_mem p) (py_steps p)).

(* ---- rids registered in the entries (what get_used_plutus_lang_versions iterates over) *)
Definition ib_registered (st : P.ibuilder) : list N :=
  flat_map (fun hm => flat_map (fun ow => match snd ow with Some (P.WPlutus rid) => [rid] | _ => [] end) (snd hm)) (P.ib_scripts st).
(* registered but not returned by get_plutus_input_scripts: the input is not (any more) a script input, or it is now
   locked by another script hash than the one the witness is registered under (repair ae86092) *)
Definition ib_stale_entry (idx : list (P.outpoint * (bytes * N))) (h : bytes) (ow : P.outpoint * option P.wit) : list N :=
  match snd ow with
  | Some (P.WPlutus rid) =>
      match P.al_get P.outpoint_ltb (fst ow) idx with
      | Some (h', _) => if eqb_of BytesOrd.bytes_ltb h' h then [] else [rid]
      | None => [rid]
      end
  | _ => []
  end.
Definition ib_stale (st : P.ibuilder) : list N :=
  let idx := P.ib_index_map 0 (P.ib_inputs st) in
  flat_map (fun hm => flat_map (ib_stale_entry idx (fst hm)) (snd hm)) (P.ib_scripts st).
Definition mint_registered (st : P.mbuilder) : list N :=
  flat_map (fun e => match snd e with P.MPlutus _ rid => [rid] | P.MNative _ => [] end) st.
Definition wentries_registered {K} (st : list (K * option P.wit)) : list N :=
  flat_map (fun e => match P.plutus_rid (snd e) with Some rid => [rid] | None => [] end) st.

(* ---- get_used_plutus_lang_versions: a BTreeSet of the languages of the registered witnesses *)
Definition langs_of_rids (rids : list N) : list lang := filter (fun l => mem_lang l (map rid_lang rids)) all_langs.

(* ---- the C09 sub-builder states *)
Definition sub_of_inputs (st : P.ibuilder) : sub_state :=
  mk_sub (map witness_of (P.ib_plutus st)) (map rid_lang (ib_stale st)) [].
Definition sub_of_mint (st : P.mbuilder) : sub_state := mk_sub (map witness_of_mint (P.mint_plutus st)) [] [].
Definition sub_of_certs (st : P.cbuilder) : sub_state := mk_sub (map witness_of (P.cert_plutus st)) [] [].
Definition sub_of_wdrl (st : P.wbuilder) : sub_state := mk_sub (map witness_of (P.wd_plutus st)) [] [].
Definition sub_of_votes (st : P.vbuilder) : sub_state := mk_sub (map witness_of (P.vote_plutus st)) [] [].
Definition sub_of_props (st : P.pbuilder) : sub_state := mk_sub (map witness_of (P.prop_plutus st)) [] [].

(* the C09 builder state of a C10 transaction-builder state (native scripts are not in the C10 model) *)
Definition builder_of (t : P.txb) (ncol : N) (extra : option (list pdata)) (h : option bytes) (a : option aux_data) : builder :=
  (* the hash, if any, counts as given by the caller (flag false) *)
  mk_builder (sub_of_inputs (P.t_inputs t)) (sub_of_inputs (P.t_collateral t)) (sub_of_mint (P.t_mint t))
             (sub_of_certs (P.t_certs t)) (sub_of_wdrl (P.t_wdrl t)) (sub_of_votes (P.t_votes t)) (sub_of_props (P.t_props t))
             ncol extra h false a.

(* calc_script_data_hash's language set written over the ENTRIES, as the code reads it from the sub-builders:
   inputs / collateral only `if let Some(..) = get_plutus_input_scripts()` *)
Definition entries_langs (t : P.txb) : list lang :=
  let guard (st : P.ibuilder) := if is_nil (P.ib_plutus st) then [] else langs_of_rids (ib_registered st) in
  filter (fun l => existsb (mem_lang l)
    [guard (P.t_inputs t); guard (P.t_collateral t); langs_of_rids (mint_registered (P.t_mint t));
     langs_of_rids (wentries_registered (P.t_certs t)); langs_of_rids (wentries_registered (P.t_wdrl t));
     langs_of_rids (wentries_registered (P.t_votes t)); langs_of_rids (wentries_registered (P.t_props t))]) all_langs.

End WithPayload.
