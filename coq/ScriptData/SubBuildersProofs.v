(* C09 x C10 — proofs: the language set calc_script_data_hash reads from the sub-builders' ENTRIES is the model's
   used_langs_gen true of the derived C09 state (returned witnesses + stale registrations), for every C10 builder
   state; and it is the set of languages of the collected witnesses exactly when nothing stale carries a foreign
   language.  All closed under the global context. *)
From Coq Require Import Permutation.
From CSL Require Import Base.Prelude Base.BytesOrd Cbor.Head Cbor.Item ScriptData.LangViews ScriptData.ScriptData
  ScriptData.ScriptDataSpec ScriptData.ScriptDataProofs ScriptData.SubBuilders.
From CSL Require Pointers.Pointers Pointers.MapsProofs Pointers.PointersProofs.
Local Open Scope N_scope.

Section WithPayload.
Variable pay : N -> payload.

Lemma mem_lang_In l ls : mem_lang l ls = true <-> In l ls.
Proof.
  unfold mem_lang. rewrite existsb_exists. split.
  - intros [y [Hin Hy]]. apply lang_eqb_eq in Hy. subst y. exact Hin.
  - intros Hin. exists l. split; [exact Hin|apply lang_eqb_refl].
Qed.

Lemma mem_lang_ext l a b : (forall x, In x a <-> In x b) -> mem_lang l a = mem_lang l b.
Proof.
  intros E. apply Bool.eq_iff_eq_true. rewrite !mem_lang_In. apply E.
Qed.

Lemma mem_langs_of_rids l rids : mem_lang l (langs_of_rids pay rids) = mem_lang l (map (rid_lang pay) rids).
Proof. unfold langs_of_rids. apply (mem_filter_all (fun l => mem_lang l (map (rid_lang pay) rids))). Qed.

Lemma w_lang_of r : w_lang (witness_of pay r) = rid_lang pay (P.r_data r).
Proof. reflexivity. Qed.
Lemma w_lang_of_mint r : w_lang (witness_of_mint pay r) = rid_lang pay (P.r_data r).
Proof. reflexivity. Qed.

Lemma langs_of_witnesses rs : map w_lang (map (witness_of pay) rs) = map (rid_lang pay) (map P.r_data rs).
Proof. rewrite !map_map. apply map_ext. intros r. apply w_lang_of. Qed.
Lemma langs_of_witnesses_mint rs : map w_lang (map (witness_of_mint pay) rs) = map (rid_lang pay) (map P.r_data rs).
Proof. rewrite !map_map. apply map_ext. intros r. apply w_lang_of_mint. Qed.

(* rids of a flat_map over enumerated entries do not depend on the positions *)
Lemma rids_enum {A} (g : N * A -> list P.redeemer) (h : A -> list N) :
  (forall i e, map P.r_data (g (i, e)) = h e) ->
  forall l i, map P.r_data (flat_map g (P.enum_from i l)) = flat_map h l.
Proof.
  intros Hg. induction l as [|e t IH]; intros i; [reflexivity|].
  cbn [P.enum_from flat_map]. rewrite map_app, Hg, IH. reflexivity.
Qed.

(* ---- the five builders whose two getters iterate the same entries *)
Lemma mint_rids st : map P.r_data (P.mint_plutus st) = mint_registered st.
Proof.
  unfold P.mint_plutus, mint_registered. apply rids_enum. intros i e. unfold P.mint_entry_redeemer. cbn [snd fst].
  destruct (snd e); reflexivity.
Qed.
Lemma wentries_rids {K} T (st : list (K * option P.wit)) :
  map P.r_data (flat_map (P.wentry_redeemer T) (P.enum_from 0 st)) = wentries_registered st.
Proof.
  unfold wentries_registered. apply rids_enum. intros i e. unfold P.wentry_redeemer. cbn [snd fst].
  destruct (P.plutus_rid (snd e)); reflexivity.
Qed.
Lemma vote_rids st : map P.r_data (P.vote_plutus st) = wentries_registered st.
Proof.
  unfold P.vote_plutus, wentries_registered. generalize (map fst st) as voters. intros voters.
  induction st as [|e t IH]; [reflexivity|]. cbn [flat_map]. rewrite map_app, IH. f_equal.
  unfold P.vote_entry_redeemer. destruct (P.plutus_rid (snd e)); reflexivity.
Qed.

(* withdrawals: the witnesses are returned in ledger order, the language getter walks the insertion-ordered map *)
Lemma wd_entries_In st : NoDup (map fst st) -> forall e, In e (P.wd_ordered st) <-> In e st.
Proof.
  intros ND [k v]. unfold P.wd_ordered.
  assert (NDs : NoDup (map fst (P.sm_sort P.racct_code_ltb st))).
  { rewrite (MapsProofs.sm_sort_keys P.racct_code_ltb PointersProofs.racct_code_st).
    apply (MapsProofs.sortedk_nodup P.racct_code_ltb PointersProofs.racct_code_st), MapsProofs.sset_sort_sorted, PointersProofs.racct_code_st. }
  split; intros Hin.
  - apply (MapsProofs.al_get_nodup P.racct_code_ltb PointersProofs.racct_code_st _ _ _ NDs) in Hin.
    rewrite (MapsProofs.sm_sort_get P.racct_code_ltb PointersProofs.racct_code_st) in Hin.
    apply (MapsProofs.al_get_In P.racct_code_ltb PointersProofs.racct_code_st), Hin.
  - apply (MapsProofs.al_get_nodup P.racct_code_ltb PointersProofs.racct_code_st _ _ _ ND) in Hin.
    rewrite <- (MapsProofs.sm_sort_get P.racct_code_ltb PointersProofs.racct_code_st) in Hin.
    apply (MapsProofs.al_get_In P.racct_code_ltb PointersProofs.racct_code_st), Hin.
Qed.
Lemma wd_rids_In st : NoDup (map fst st) -> forall rid, In rid (map P.r_data (P.wd_plutus st)) <-> In rid (wentries_registered st).
Proof.
  intros ND rid. unfold P.wd_plutus. rewrite wentries_rids. unfold wentries_registered. rewrite !in_flat_map.
  split; intros [e [He Hr]]; exists e; (split; [apply (wd_entries_In st ND), He|exact Hr]).
Qed.

(* ---- inputs: registered = returned or stale *)
Lemma ib_rids_In st rid :
  In rid (ib_registered st) <-> In rid (map P.r_data (P.ib_plutus st)) \/ In rid (ib_stale st).
Proof.
  unfold ib_registered, P.ib_plutus, ib_stale. set (idx := P.ib_index_map 0 (P.ib_inputs st)).
  rewrite in_map_iff. split.
  - rewrite in_flat_map. intros [hm [Hhm Hin]]. rewrite in_flat_map in Hin. destruct Hin as [ow [How Hr]].
    destruct (snd ow) as [[|rid']|] eqn:Ew; try contradiction. destruct Hr as [<-|[]].
    destruct (P.al_get P.outpoint_ltb (fst ow) idx) as [[h' i]|] eqn:Ei; [destruct (eqb_of BytesOrd.bytes_ltb h' (fst hm)) eqn:Eh|].
    + left. exists (P.mkR P.TSpend i rid'). split; [reflexivity|].
      rewrite in_flat_map. exists hm. split; [exact Hhm|]. rewrite in_flat_map. exists ow. split; [exact How|].
      unfold P.ib_entry_redeemer. rewrite Ew, Ei, Eh. left. reflexivity.
    + right. rewrite in_flat_map. exists hm. split; [exact Hhm|]. rewrite in_flat_map. exists ow. split; [exact How|].
      unfold ib_stale_entry. rewrite Ew, Ei, Eh. left. reflexivity.
    + right. rewrite in_flat_map. exists hm. split; [exact Hhm|]. rewrite in_flat_map. exists ow. split; [exact How|].
      unfold ib_stale_entry. rewrite Ew, Ei. left. reflexivity.
  - intros [[r [Hr Hin]]|Hin].
    + rewrite in_flat_map in Hin. destruct Hin as [hm [Hhm Hin]]. rewrite in_flat_map in Hin. destruct Hin as [ow [How Hx]].
      unfold P.ib_entry_redeemer in Hx. destruct (snd ow) as [[|rid']|] eqn:Ew; try contradiction.
      destruct (P.al_get P.outpoint_ltb (fst ow) idx) as [[h' i]|]; [|contradiction].
      destruct (eqb_of BytesOrd.bytes_ltb h' (fst hm)); [|contradiction]. destruct Hx as [<-|[]]. cbn [P.r_data] in Hr. subst rid.
      rewrite in_flat_map. exists hm. split; [exact Hhm|]. rewrite in_flat_map. exists ow. split; [exact How|]. rewrite Ew. left. reflexivity.
    + rewrite in_flat_map in Hin. destruct Hin as [hm [Hhm Hin]]. rewrite in_flat_map in Hin. destruct Hin as [ow [How Hx]].
      unfold ib_stale_entry in Hx. destruct (snd ow) as [[|rid']|] eqn:Ew; try contradiction.
      assert (Hrid : rid' = rid).
      { destruct (P.al_get P.outpoint_ltb (fst ow) idx) as [[h' i]|]; [destruct (eqb_of BytesOrd.bytes_ltb h' (fst hm)); [contradiction|]|];
          destruct Hx as [<-|[]]; reflexivity. }
      subst rid'.
      rewrite in_flat_map. exists hm. split; [exact Hhm|]. rewrite in_flat_map. exists ow. split; [exact How|]. rewrite Ew. left. reflexivity.
Qed.

Lemma mem_map_In_ext l (A B : list N) : (forall x, In x A <-> In x B) ->
  mem_lang l (map (rid_lang pay) A) = mem_lang l (map (rid_lang pay) B).
Proof.
  intros E. apply mem_lang_ext. intros x. rewrite !in_map_iff. split; intros [y [Hy Hin]]; exists y; (split; [exact Hy|apply E, Hin]).
Qed.

(* the language set of one inputs builder, read from its entries = model's sub_langs of the derived state (switch on) *)
Lemma inputs_langs_entries st l :
  mem_lang l (langs_of_rids pay (ib_registered st)) = mem_lang l (sub_langs_gen true (sub_of_inputs pay st)).
Proof.
  rewrite mem_langs_of_rids, (mem_sub_langs true). unfold stale_sub_gen, sub_of_inputs. cbn [ss_witnesses ss_stale].
  rewrite langs_of_witnesses, <- mem_lang_app, <- map_app.
  apply mem_map_In_ext. intros x. rewrite in_app_iff. apply ib_rids_In.
Qed.

Lemma sub_langs_no_stale c (ws : list witness) l :
  mem_lang l (sub_langs_gen c (mk_sub ws [] [])) = mem_lang l (map w_lang ws).
Proof. rewrite (mem_sub_langs c). unfold stale_sub_gen. cbn [ss_witnesses ss_stale]. destruct c; apply orb_false_r. Qed.

(* C09 x C10: what calc_script_data_hash reads from the ENTRIES of the seven sub-builders is the model's language set
   of the derived state with the stale registrations counted — for every C10 builder state with duplicate-free
   withdrawal keys (an invariant of every reachable state: PointersProofs.wd_refine) *)
Lemma guard_langs st l :
  mem_lang l (if is_nil (P.ib_plutus st) then [] else langs_of_rids pay (ib_registered st)) =
  mem_lang l (inputs_langs_gen true (sub_of_inputs pay st)).
Proof.
  unfold inputs_langs_gen. unfold sub_of_inputs at 1. cbn [ss_witnesses].
  destruct (P.ib_plutus st) eqn:E; cbn [map is_nil]; [reflexivity|]. apply inputs_langs_entries.
Qed.

Theorem entries_langs_model (t : P.txb) ncol extra h a l :
  NoDup (map fst (P.t_wdrl t)) ->
  mem_lang l (entries_langs pay t) = mem_lang l (used_langs_gen true (builder_of pay t ncol extra h a)).
Proof.
  intros ND. unfold entries_langs, used_langs_gen, builder_of. cbn [b_in b_col b_mi b_ce b_wd b_vo b_pr].
  rewrite !mem_filter_all. cbn [existsb].
  rewrite !guard_langs.
  assert (Em : mem_lang l (langs_of_rids pay (mint_registered (P.t_mint t))) = mem_lang l (sub_langs_gen true (sub_of_mint pay (P.t_mint t)))).
  { unfold sub_of_mint. rewrite sub_langs_no_stale, mem_langs_of_rids, langs_of_witnesses_mint, mint_rids. reflexivity. }
  assert (Ec : mem_lang l (langs_of_rids pay (wentries_registered (P.t_certs t))) = mem_lang l (sub_langs_gen true (sub_of_certs pay (P.t_certs t)))).
  { unfold sub_of_certs, P.cert_plutus. rewrite sub_langs_no_stale, mem_langs_of_rids, langs_of_witnesses, wentries_rids. reflexivity. }
  assert (Ew : mem_lang l (langs_of_rids pay (wentries_registered (P.t_wdrl t))) = mem_lang l (sub_langs_gen true (sub_of_wdrl pay (P.t_wdrl t)))).
  { unfold sub_of_wdrl. rewrite sub_langs_no_stale, mem_langs_of_rids, langs_of_witnesses.
    apply mem_map_In_ext. intros x. symmetry. apply wd_rids_In, ND. }
  assert (Ev : mem_lang l (langs_of_rids pay (wentries_registered (P.t_votes t))) = mem_lang l (sub_langs_gen true (sub_of_votes pay (P.t_votes t)))).
  { unfold sub_of_votes. rewrite sub_langs_no_stale, mem_langs_of_rids, langs_of_witnesses, vote_rids. reflexivity. }
  assert (Ep : mem_lang l (langs_of_rids pay (wentries_registered (P.t_props t))) = mem_lang l (sub_langs_gen true (sub_of_props pay (P.t_props t)))).
  { unfold sub_of_props, P.prop_plutus. rewrite sub_langs_no_stale, mem_langs_of_rids, langs_of_witnesses, wentries_rids. reflexivity. }
  rewrite Em, Ec, Ew, Ev, Ep. reflexivity.
Qed.

(* hence: computed from the entries, the languages are those of the collected witnesses unless a stale registration
   carries a language of its own (the class C09-stale-input-language) *)
Corollary entries_langs_used (t : P.txb) ncol extra h a l :
  NoDup (map fst (P.t_wdrl t)) ->
  known_stale_lang_gen true (builder_of pay t ncol extra h a) = false ->
  mem_lang l (entries_langs pay t) = mem_lang l (langs_used (builder_of pay t ncol extra h a)).
Proof.
  intros ND Hk. rewrite (entries_langs_model t ncol extra h a l ND). apply (used_langs_mem true), Hk.
Qed.

End WithPayload.

(* the ledger's hash depends on the used-language list only through membership *)
Lemma ledger_script_integrity_ext (H : bytes -> bytes) r d u u' cm :
  (forall l, mem_lang l u = mem_lang l u') ->
  ledger_script_integrity H r d u cm = ledger_script_integrity H r d u' cm.
Proof.
  intros E. unfold ledger_script_integrity, langs_in_use.
  rewrite (spec_views_ext u u' cm cm E (fun _ _ => eq_refl)).
  replace (filter (fun l => mem_lang l u) canonical_langs) with (filter (fun l => mem_lang l u') canonical_langs);
    [reflexivity|]. apply filter_ext. intros l. symmetry. apply E.
Qed.

(* C09_same_bytes over a C10 builder state: the languages are COMPUTED from the sub-builders' entries *)
Theorem same_bytes_entries (H : bytes -> bytes) (pay : N -> payload) (t : P.txb) ncol extra h a cm b1 tx :
  let b0 := builder_of pay t ncol extra h a in
  wf_builder b0 -> NoDup (map fst (P.t_wdrl t)) ->
  known_stale_lang_gen true b0 = false ->
  calc_script_data_hash H b0 cm = Ok b1 ->
  (has_script_items b0 = true \/ h = None) ->
  build_tx H b1 = Ok tx ->
  let fs := ws_fields (tx_witness_set tx) in
  tx_script_data_hash tx = ledger_script_integrity H (assoc_field 5 fs) (assoc_field 4 fs) (entries_langs pay t) cm.
Proof.
  intros b0 Hwf ND Hk Hcalc Hprior Hbuild fs.
  assert (Hv : script_view b1 = script_view b0).
  { apply (calc_result_view H calc_clears_own_hash _ _ _ Hcalc). }
  assert (Hks : known_stale_lang b0 = false).
  { unfold known_stale_lang. destruct stale_langs_counted; [exact Hk|apply stale_off]. }
  assert (Hprior' : has_script_items b0 = true \/ b_script_data_hash b0 = None \/ (calc_clears_own_hash = true /\ b_hash_calculated b0 = true)).
  { destruct Hprior as [Hp|Hp]; [left; exact Hp|right; left; exact Hp]. }
  rewrite (same_bytes H b0 cm b1 b1 tx Hwf Hks Hcalc Hprior' Hv eq_refl Hbuild).
  destruct (script_view_eq _ _ Hv) as [_ [_ [_ [Hl _]]]]. rewrite Hl.
  apply ledger_script_integrity_ext. intros l. symmetry. apply entries_langs_used; assumption.
Qed.
