(* C09 — specification side: the ledger's script-integrity hash and auxiliary-data hash, defined over the
   transaction ACTUALLY EMITTED (byte slices of the serialised transaction), the premises of the theorems as
   decidable predicates, the known-finding classes, and the executable judge used by the correspondence run.
   No proofs in this file.

   Ledger (Alonzo .. Conway, `hashScriptIntegrity` / `ScriptIntegrity` and the CDDL comment on script_data_hash):
     script_data_hash = H ( redeemers ‖ datums ‖ language views )
       redeemers : the bytes of witness-set field 5 exactly as they stand in the transaction; when the field is
                   absent the empty Redeemers value is hashed, whose Conway encoding is the empty map A0
       datums    : the bytes of witness-set field 4 exactly as they stand; nothing when the field is absent
       views     : canonical map of the language views of the languages the transaction's Plutus scripts use
     and the hash is absent when there are no redeemers, no datums and no language views.
     auxiliary_data_hash = H ( auxiliary data exactly as they stand in the transaction ). *)
From CSL Require Import Base.Prelude Cbor.Head Cbor.Item ScriptData.LangViews ScriptData.ScriptData.
Local Open Scope N_scope.

(* ------------------------------------------------------------------ the ledger definition *)

Definition ledger_preimage (red_field dat_field : option bytes) (views : bytes) : bytes :=
  (match red_field with Some r => r | None => [160] end) ++
  (match dat_field with Some d => d | None => [] end) ++
  views.

Definition is_none {A} (o : option A) : bool := negb (is_some o).

Definition langs_in_use (used : list lang) : list lang := filter (fun l => mem_lang l used) canonical_langs.

Section WithHash.
Variable H : bytes -> bytes.

Definition ledger_script_integrity (red_field dat_field : option bytes) (used : list lang) (cm : costmdls) : option bytes :=
  if is_none red_field && is_none dat_field && is_nil (langs_in_use used) then None
  else Some (H (ledger_preimage red_field dat_field (spec_views used cm))).

Definition ledger_aux_hash (aux_bytes : option bytes) : option bytes :=
  match aux_bytes with Some a => Some (H a) | None => None end.

End WithHash.

(* ------------------------------------------------------------------ structured view of an emitted witness set *)

Fixpoint assoc_field (k : N) (fs : list (N * bytes)) : option bytes :=
  match fs with
  | [] => None
  | (k', v) :: t => if k' =? k then Some v else assoc_field k t
  end.

(* languages of the Plutus scripts a builder state uses (script sources of all its Plutus witnesses, reference
   scripts with the language declared for them) *)
Definition langs_used (b : builder) : list lang := map w_lang (all_witnesses b).

(* the witness set a caller of the stand-alone helper would emit for the same redeemers and datums, next to whatever
   key / bootstrap witnesses it carries *)
Definition helper_witness_set_with (vk bo : option bytes) (r : redeemers) (d : option plutus_list) : witness_set :=
  let w := match vk with Some v => set_vkeys ws_new v | None => ws_new end in
  let w := match bo with Some v => set_bootstraps w v | None => w end in
  let w := set_redeemers w r in
  match d with Some l => set_plutus_data w l | None => w end.
Definition helper_witness_set := helper_witness_set_with None None.

(* languages of registered-but-not-emitted Plutus witnesses (inputs / collateral added again as key inputs) that
   calc_script_data_hash counts: those of an input builder that also returns at least one witness *)
Definition stale_in_gen (counted : bool) (s : sub_state) : list lang :=
  if counted && negb (is_nil (ss_witnesses s)) then ss_stale s else [].
Definition stale_sub_gen (counted : bool) (s : sub_state) : list lang := if counted then ss_stale s else [].
Definition stale_langs_gen (counted : bool) (b : builder) : list lang :=
  stale_in_gen counted (b_in b) ++ stale_in_gen counted (b_col b) ++ stale_sub_gen counted (b_mi b) ++
  stale_sub_gen counted (b_ce b) ++ stale_sub_gen counted (b_wd b) ++ stale_sub_gen counted (b_vo b) ++
  stale_sub_gen counted (b_pr b).
Definition stale_langs := stale_langs_gen stale_langs_counted.
(* known class C09-stale-input-language: some stale witness's language is used by no emitted witness, so
   calc_script_data_hash puts a language view into the hash that no script of the transaction uses *)
Definition known_stale_lang_gen (counted : bool) (b : builder) : bool :=
  existsb (fun l => negb (mem_lang l (langs_used b))) (stale_langs_gen counted b).
Definition known_stale_lang := known_stale_lang_gen stale_langs_counted.

(* ------------------------------------------------------------------ premises / classes (decidable) *)

Fixpoint has_dup_written (seen : list bytes) (l : list pdata) : bool :=
  match l with
  | [] => false
  | x :: t => existsb (bytes_eqb (pd_bytes x)) seen || has_dup_written (pd_bytes x :: seen) t
  end.

(* known class C09-set-bytes-length: a datum list that will be written with a definite length and holds two datums
   written as the same bytes (only lists decoded from a definite-length encoding can be in it) *)
Definition known_dup_definite (d : option plutus_list) : bool :=
  match d with Some l => pl_use_definite l && has_dup_written [] (pl_elems l) | None => false end.

(* known class C09-empty-datums: Some(empty list) passed as the datums *)
Definition known_empty_datums (d : option plutus_list) : bool :=
  match d with Some l => is_nil (pl_elems l) | None => false end.

(* the languages in use for the stand-alone helper: those of the cost-model table handed over, unless there are no
   redeemers — without redeemers no Plutus script runs, so no language is in use (the CDDL note: A0 | datums | A0) *)
Definition helper_langs (r : redeemers) (cm : costmdls) : list lang :=
  if is_nil (rs_list r) then [] else cm_keys cm.

(* outside the statement for the stand-alone helper: neither redeemers nor datums.  The ledger then carries NO
   script_data_hash at all (when no language is in use either), so there is nothing the helper's result could equal. *)
Definition helper_out_of_scope (r : redeemers) (d : option plutus_list) : bool :=
  is_nil (rs_list r) && (match d with Some l => is_nil (pl_elems l) | None => true end).

(* ------------------------------------------------------------------ histories *)

Definition touches_scripts (o : op) : bool :=
  match o with OpSetSub _ _ _ | OpAddExtraDatum _ => true | _ => false end.
Definition touches_hash (o : op) : bool :=
  match o with OpCalc _ | OpSetHash _ | OpRemoveHash => true | _ => false end.

(* the cost models of the last calc_script_data_hash after which neither a script item nor the hash was touched *)
Fixpoint last_calc_rev (rev_ops : list op) : option (costmdls * list op) :=
  match rev_ops with
  | [] => None
  | OpCalc cm :: before => Some (cm, before)
  | o :: before => if touches_scripts o || touches_hash o then None else last_calc_rev before
  end.

Definition has_script_items (b : builder) : bool :=
  negb (is_nil (all_witnesses b)) || is_some (b_extra_datums b).

(* ------------------------------------------------------------------ slicing the emitted bytes *)

(* n consecutive data items: their exact byte slices and what follows *)
Fixpoint item_slices (n : nat) (bs : bytes) : result (list bytes * bytes) :=
  match n with
  | O => Ok ([], bs)
  | S n' =>
      let* '(x, r) := skip_item bs in
      let* '(xs, r') := item_slices n' r in
      Ok (x :: xs, r')
  end.

(* a definite-length array of exactly n items with nothing after it *)
Definition array_slices (n : N) (bs : bytes) : result (list bytes) :=
  match decode_head bs with
  | Some (4, Arg m, r) =>
      if m =? n then
        let* '(xs, r') := item_slices (N.to_nat n) r in
        if is_nil r' then Ok xs else Err
      else Err
  | _ => Err
  end.

Fixpoint pair_up (l : list bytes) : list (bytes * bytes) :=
  match l with
  | k :: v :: t => (k, v) :: pair_up t
  | _ => []
  end.

(* a definite-length map: (key slice, value slice) for every entry *)
Definition map_slices (bs : bytes) : result (list (bytes * bytes)) :=
  match decode_head bs with
  | Some (5, Arg n, r) =>
      if 2 * n <=? len r then
        let* '(xs, r') := item_slices (N.to_nat (2 * n)) r in
        if is_nil r' then Ok (pair_up xs) else Err
      else Err
  | _ => Err
  end.

Definition key_is (k : N) (key : bytes) : bool :=
  match decode_head key with
  | Some (0, Arg n, []) => n =? k
  | _ => false
  end.
Fixpoint field_slice (k : N) (fs : list (bytes * bytes)) : option bytes :=
  match fs with
  | [] => None
  | (key, v) :: t => if key_is k key then Some v else field_slice k t
  end.

(* the payload of a 32-byte hash field `58 20 <32 bytes>` *)
Definition hash32_payload (v : bytes) : option bytes :=
  match v with
  | 88 :: 32 :: p => if len p =? 32 then Some p else None
  | _ => None
  end.

Record tx_view := mk_tx_view {
  v_script_data_hash : option bytes;     (* body field 11, payload *)
  v_aux_hash : option bytes;             (* body field 7, payload *)
  v_redeemers : option bytes;            (* witness-set field 5, as it stands *)
  v_datums : option bytes;               (* witness-set field 4, as it stands *)
  v_aux : option bytes }.                (* fourth element of the transaction unless it is null (f6) *)

Definition opt_hash (o : option bytes) : result (option bytes) :=
  match o with
  | None => Ok None
  | Some v => match hash32_payload v with Some p => Ok (Some p) | None => Err end
  end.

(* [body, witness_set, is_valid, auxiliary_data / null] *)
Definition view_tx (tx_bytes : bytes) : result tx_view :=
  let* parts := array_slices 4 tx_bytes in
  match parts with
  | [body; ws; _; aux] =>
      let* bf := map_slices body in
      let* wf := map_slices ws in
      let* sdh := opt_hash (field_slice 11 bf) in
      let* auxh := opt_hash (field_slice 7 bf) in
      Ok (mk_tx_view sdh auxh (field_slice 5 wf) (field_slice 4 wf)
                     (match aux with [246] => None | _ => Some aux end))
  | _ => Err
  end.

Definition opt_bytes_eqb (a b : option bytes) : bool :=
  match a, b with
  | None, None => true
  | Some x, Some y => bytes_eqb x y
  | _, _ => false
  end.

(* ------------------------------------------------------------------ the judge *)

Inductive verdict := Holds | NotApplicable | Fails (class : N).   (* class 0 = not a known class *)

Section Judge.
Variable H : bytes -> bytes.

(* stand-alone helper: the reported hash against the ledger definition over the witness set emitted for the same
   redeemers and datums ([ws] = that witness set as serialised by the implementation) *)
Definition judge_helper (r : redeemers) (cm : costmdls) (d : option plutus_list)
    (reported : bytes) (ws : bytes) : verdict :=
  if helper_out_of_scope r d then NotApplicable else
  match map_slices ws with
  | Ok wf =>
      let expected := H (ledger_preimage (field_slice 5 wf) (field_slice 4 wf) (spec_views (helper_langs r cm) cm)) in
      if bytes_eqb reported expected then Holds
      (* the two repaired defects are recognised by their exact symptom: the hash of the defective preimage *)
      else if known_dup_definite d && bytes_eqb reported (H (script_data_preimage_gen true false r cm d)) then Fails 1
      else if known_empty_datums d && bytes_eqb reported (H (script_data_preimage_gen false true r cm d)) then Fails 2
      else Fails 0
  | _ => Fails 0
  end.

(* the shape of the (repaired) defect C09-noop-calc-keeps-hash: nothing to hash, yet a hash stored by an earlier
   calc_script_data_hash is held *)
Definition noop_shape (b0 : builder) : bool :=
  negb (has_script_items b0) && is_some (b_script_data_hash b0) && b_hash_calculated b0.

(* class C09-noop-calc-keeps-hash: the last calc_script_data_hash found nothing to hash (every Plutus witness and extra
   datum present at an earlier calc has been replaced away since) on a builder holding a hash an EARLIER calc had stored *)
Definition known_noop_calc (ops : list op) : bool :=
  match last_calc_rev (rev ops) with
  | Some (cm, before) =>
      let b0 := fst (run H builder_new (rev before)) in
      is_ok (calc_script_data_hash H b0 cm) && noop_shape b0
  | None => false
  end.

(* builder history: the emitted transaction against the ledger definitions.  The auxiliary-data hash is checked
   always; the script-data hash when it was computed by calc_script_data_hash after the last script item was
   added (and was not replaced since).  [built] = whether build_tx succeeded, [tx_bytes] = the transaction. *)
Definition judge_builder (ops : list op) (tx_bytes : bytes) : verdict :=
  match view_tx tx_bytes with
  | Ok v =>
      if negb (opt_bytes_eqb (v_aux_hash v) (ledger_aux_hash H (v_aux v))) then Fails 0 else
      match last_calc_rev (rev ops) with
      | Some (cm, before) =>
          let b0 := fst (run H builder_new (rev before)) in
          let b := fst (run H builder_new ops) in
          (* in scope: the hash in the body is one the builder computed (or there is none) — not one installed by hand *)
          if is_ok (calc_script_data_hash H b0 cm) &&
             (has_script_items b0 || is_none (b_script_data_hash b0) || b_hash_calculated b0) then
            if opt_bytes_eqb (v_script_data_hash v)
                 (ledger_script_integrity H (v_redeemers v) (v_datums v) (langs_used b) cm)
            then Holds
            else if known_stale_lang b0 && opt_bytes_eqb (v_script_data_hash v) (b_script_data_hash b) then Fails 3
            (* the hash of the earlier state left in place by a calc that found nothing to hash *)
            else if noop_shape b0 && opt_bytes_eqb (v_script_data_hash v) (b_script_data_hash b0) then Fails 4
            else Fails 0
          else NotApplicable
      | None => NotApplicable
      end
  | _ => Fails 0
  end.

End Judge.
