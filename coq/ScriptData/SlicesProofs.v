(* C09 — the judge's byte slicing is sound on what the model emits: slicing the serialised witness set
   (ScriptDataSpec.map_slices / field_slice, built on Cbor/Item.v skip_item) returns exactly the structured fields
   of ScriptData.ws_fields, provided every emitted field is one well-formed CBOR item (true whenever the opaque
   scripts / datums / redeemer data are).  This ties the structured statements of ScriptDataProofs.v to the
   bytes of the emitted transaction.  All closed under the global context. *)
From CSL Require Import Base.Prelude Cbor.Head Cbor.HeadProofs Cbor.Item Cbor.ItemProofs
  ScriptData.LangViews ScriptData.ScriptData ScriptData.ScriptDataSpec ScriptData.ScriptDataProofs.
Local Open Scope N_scope.

(* a byte string that skip_item delimits exactly, whatever follows *)
Definition delim (v : bytes) : Prop := forall rest, skip_item (v ++ rest) = Ok (v, rest).

Lemma item_wf_delim v : item_wf v = true -> delim v.
Proof.
  unfold item_wf. intros Hwf rest. destruct (parse_exact v) as [it| | |] eqn:E; try discriminate.
  apply parse_exact_ok in E. rewrite <- (app_nil_r v) in E. apply (parse_one_local _ _ rest) in E.
  apply skip_item_parse. exists it. split; [exact E|reflexivity].
Qed.

Lemma delim_uint k : k < two64 -> delim (encode_head 0 k).
Proof.
  intros Hk rest. change (encode_head 0 k) with (encode_item (IUint k)). apply skip_item_encode.
  cbn [item_ok]. apply N.ltb_lt, Hk.
Qed.

Lemma delim_ne v : delim v -> v <> [].
Proof. intros Hd. specialize (Hd []). apply skip_item_exact in Hd as [_ Hne]. exact Hne. Qed.

Definition flat_fields (fs : list (N * bytes)) : bytes := flat_map (fun kv => encode_head 0 (fst kv) ++ snd kv) fs.
Definition slices_of (fs : list (N * bytes)) : list bytes := flat_map (fun kv => [encode_head 0 (fst kv); snd kv]) fs.

Definition field_ok (kv : N * bytes) : Prop := fst kv < two64 /\ delim (snd kv).

Lemma item_slices_fields fs rest : Forall field_ok fs ->
  item_slices (2 * length fs) (flat_fields fs ++ rest) = Ok (slices_of fs, rest).
Proof.
  induction 1 as [|[k v] t [Hk Hv] _ IH]; [reflexivity|].
  cbn [length flat_fields slices_of flat_map fst snd app] in *.
  replace (2 * S (length t))%nat with (S (S (2 * length t))) by lia.
  cbn [item_slices]. rewrite <- !app_assoc.
  rewrite (delim_uint k Hk). cbn [bind]. rewrite (Hv _). cbn [bind].
  unfold flat_fields in IH. rewrite IH. reflexivity.
Qed.

Lemma pair_up_slices fs : pair_up (slices_of fs) = map (fun kv => (encode_head 0 (fst kv), snd kv)) fs.
Proof.
  induction fs as [|[k v] t IH]; [reflexivity|].
  change (slices_of ((k, v) :: t)) with (encode_head 0 k :: v :: slices_of t).
  cbn [pair_up map fst snd]. rewrite IH. reflexivity.
Qed.

Lemma flat_fields_length fs : Forall field_ok fs -> (2 * length fs <= length (flat_fields fs))%nat.
Proof.
  induction 1 as [|[k v] t [Hk Hv] _ IH]; [cbn; lia|].
  cbn [flat_fields flat_map length fst snd] in *. rewrite !app_length.
  pose proof (delim_ne _ (delim_uint k Hk)) as N1. pose proof (delim_ne _ Hv) as N2.
  destruct (encode_head 0 k); [congruence|]. destruct v; [congruence|]. cbn [length]. unfold flat_fields in IH. lia.
Qed.

Theorem map_slices_fields fs : Forall field_ok fs -> len fs < two64 ->
  map_slices (enc_fields fs) = Ok (map (fun kv => (encode_head 0 (fst kv), snd kv)) fs).
Proof.
  intros Hf Hl. unfold map_slices, enc_fields. rewrite (decode_encode_head 5 _ _ Hl).
  fold (flat_fields fs).
  assert (Hg : (2 * len fs <=? len (flat_fields fs)) = true).
  { apply N.leb_le. unfold len. pose proof (flat_fields_length fs Hf). lia. }
  rewrite Hg.
  replace (N.to_nat (2 * len fs)) with (2 * length fs)%nat by (unfold len; lia).
  rewrite <- (app_nil_r (flat_fields fs)). rewrite (item_slices_fields fs [] Hf). cbn [bind is_nil].
  rewrite pair_up_slices. reflexivity.
Qed.

Lemma key_is_uint k k' : k' < two64 -> key_is k (encode_head 0 k') = (k' =? k).
Proof.
  intros Hk. unfold key_is. rewrite <- (app_nil_r (encode_head 0 k')). rewrite (decode_encode_head 0 k' [] Hk). reflexivity.
Qed.

Lemma field_slice_assoc k fs : Forall field_ok fs ->
  field_slice k (map (fun kv => (encode_head 0 (fst kv), snd kv)) fs) = assoc_field k fs.
Proof.
  induction 1 as [|[k' v] t [Hk _] _ IH]; [reflexivity|].
  cbn [map field_slice assoc_field fst snd] in *. rewrite (key_is_uint k k' Hk), IH. reflexivity.
Qed.

(* the keys of an emitted witness set are 3, 6, 7, 4, 5 and there are at most five fields *)
Lemma ws_fields_keys w : Forall (fun kv => fst kv < two64) (ws_fields w) /\ (length (ws_fields w) <= 5)%nat.
Proof.
  rewrite ws_fields_eq. unfold script_fields.
  destruct (ws_plutus_scripts w) as [l|];
    [destruct (has_version V1 l), (has_version V2 l), (has_version V3 l)|];
    (destruct (ws_plutus_data w) as [d|]; [destruct (is_nil (pl_elems d))|]);
    (destruct (ws_redeemers w) as [r|]; [destruct (is_nil (rs_list r))|]);
    cbn [app length]; (split; [repeat constructor|lia]).
Qed.

(* C09_slices_sound: slicing the bytes of an emitted witness set gives its structured fields *)
Theorem ws_slices_sound w :
  Forall (fun kv => item_wf (snd kv) = true) (ws_fields w) ->
  exists sl, map_slices (ws_bytes w) = Ok sl /\
             field_slice 5 sl = assoc_field 5 (ws_fields w) /\
             field_slice 4 sl = assoc_field 4 (ws_fields w).
Proof.
  intros Hwf. destruct (ws_fields_keys w) as [Hk Hl].
  assert (Hf : Forall field_ok (ws_fields w)).
  { rewrite Forall_forall in *. intros kv Hin. split; [apply Hk, Hin|apply item_wf_delim, Hwf, Hin]. }
  eexists. split; [apply map_slices_fields; [exact Hf|]|].
  - unfold len, two64. lia.
  - split; apply field_slice_assoc, Hf.
Qed.

(* byte-level form of C09_same_bytes_history: the script_data_hash equals the ledger's script-integrity hash computed
   from the byte slices of the serialised witness set *)
Theorem same_bytes_history_bytes (H : bytes -> bytes) ops cm before t :
  last_calc_rev (rev ops) = Some (cm, before) ->
  let b0 := fst (run H builder_new (rev before)) in
  let b := fst (run H builder_new ops) in
  is_ok (calc_script_data_hash H b0 cm) = true ->
  has_script_items b0 || is_none (b_script_data_hash b0) = true ->
  build_tx H b = Ok t ->
  Forall (fun kv => item_wf (snd kv) = true) (ws_fields (tx_witness_set t)) ->
  exists sl, map_slices (ws_bytes (tx_witness_set t)) = Ok sl /\
    tx_script_data_hash t = ledger_script_integrity H (field_slice 5 sl) (field_slice 4 sl) (langs_used b) cm.
Proof.
  intros Hl b0 b Hok Hprior Hbuild Hwf.
  destruct (ws_slices_sound _ Hwf) as [sl [Hs [E5 E4]]]. exists sl. split; [exact Hs|].
  rewrite E5, E4. exact (same_bytes_history H ops cm before t Hl Hok Hprior Hbuild).
Qed.
