(* C09 — the judge's byte slicing is sound on what the model emits: slicing the serialised witness set
   (ScriptDataSpec.map_slices / field_slice, built on Cbor/Item.v skip_item) returns exactly the structured fields
   of ScriptData.ws_fields, provided every emitted field is one well-formed CBOR item (true whenever the opaque
   scripts / datums / redeemer data are).  This ties the structured statements of ScriptDataProofs.v to the
   bytes of the emitted transaction.  All closed under the global context. *)
From CSL Require Import Base.Prelude Cbor.Head Cbor.HeadProofs Cbor.Item Cbor.ItemProofs
  ScriptData.LangViews ScriptData.ScriptData ScriptData.ScriptDataSpec ScriptData.ScriptDataProofs.
Local Open Scope N_scope.

(* a byte string that skip_item delimits exactly, whatever follows *)
Definition delim (v : bytes) : Prop := forall rest, skip_item (v ++ rest) = Ok (v, rest).

Lemma item_wf_delim v : item_wf v = true -> delim v.
Proof.
  unfold item_wf. intros Hwf rest. destruct (parse_exact v) as [it| | |] eqn:E; try discriminate.
  apply parse_exact_ok in E. rewrite <- (app_nil_r v) in E. apply (parse_one_local _ _ rest) in E.
  apply skip_item_parse. exists it. split; [exact E|reflexivity].
Qed.

Lemma delim_uint k : k < two64 -> delim (encode_head 0 k).
Proof.
  intros Hk rest. change (encode_head 0 k) with (encode_item (IUint k)). apply skip_item_encode.
  cbn [item_ok]. apply N.ltb_lt, Hk.
Qed.

Lemma delim_ne v : delim v -> v <> [].
Proof. intros Hd. specialize (Hd []). apply skip_item_exact in Hd as [_ Hne]. exact Hne. Qed.

Definition flat_fields (fs : list (N * bytes)) : bytes := flat_map (fun kv => encode_head 0 (fst kv) ++ snd kv) fs.
Definition slices_of (fs : list (N * bytes)) : list bytes := flat_map (fun kv => [encode_head 0 (fst kv); snd kv]) fs.

Definition field_ok (kv : N * bytes) : Prop := fst kv < two64 /\ delim (snd kv).

Lemma item_slices_fields fs rest : Forall field_ok fs ->
  item_slices (2 * length fs) (flat_fields fs ++ rest) = Ok (slices_of fs, rest).
Proof.
  induction 1 as [|[k v] t [Hk Hv] _ IH]; [reflexivity|].
  cbn [length flat_fields slices_of flat_map fst snd app] in *.
  replace (2 * S (length t))%nat with (S (S (2 * length t))) by lia.
  cbn [item_slices]. rewrite <- !app_assoc.
  rewrite (delim_uint k Hk). cbn [bind]. rewrite (Hv _). cbn [bind].
  unfold flat_fields in IH. rewrite IH. reflexivity.
Qed.

Lemma pair_up_slices fs : pair_up (slices_of fs) = map (fun kv => (encode_head 0 (fst kv), snd kv)) fs.
Proof.
  induction fs as [|[k v] t IH]; [reflexivity|].
  change (slices_of ((k, v) :: t)) with (encode_head 0 k :: v :: slices_of t).
  cbn [pair_up map fst snd]. rewrite IH. reflexivity.
Qed.

Lemma flat_fields_length fs : Forall field_ok fs -> (2 * length fs <= length (flat_fields fs))%nat.
Proof.
  induction 1 as [|[k v] t [Hk Hv] _ IH]; [cbn; lia|].
  cbn [flat_fields flat_map length fst snd] in *. rewrite !app_length.
  pose proof (delim_ne _ (delim_uint k Hk)) as N1. pose proof (delim_ne _ Hv) as N2.
  destruct (encode_head 0 k); [congruence|]. destruct v; [congruence|]. cbn [length]. unfold flat_fields in IH. lia.
Qed.

Theorem map_slices_fields fs : Forall field_ok fs -> len fs < two64 ->
  map_slices (enc_fields fs) = Ok (map (fun kv => (encode_head 0 (fst kv), snd kv)) fs).
Proof.
  intros Hf Hl. unfold map_slices, enc_fields. rewrite (decode_encode_head 5 _ _ Hl).
  fold (flat_fields fs).
  assert (Hg : (2 * len fs <=? len (flat_fields fs)) = true).
  { apply N.leb_le. unfold len. pose proof (flat_fields_length fs Hf). lia. }
  rewrite Hg.
  replace (N.to_nat (2 * len fs)) with (2 * length fs)%nat by (unfold len; lia).
  rewrite <- (app_nil_r (flat_fields fs)). rewrite (item_slices_fields fs [] Hf). cbn [bind is_nil].
  rewrite pair_up_slices. reflexivity.
Qed.

Lemma key_is_uint k k' : k' < two64 -> key_is k (encode_head 0 k') = (k' =? k).
Proof.
  intros Hk. unfold key_is. rewrite <- (app_nil_r (encode_head 0 k')). rewrite (decode_encode_head 0 k' [] Hk). reflexivity.
Qed.

Lemma field_slice_assoc k fs : Forall field_ok fs ->
  field_slice k (map (fun kv => (encode_head 0 (fst kv), snd kv)) fs) = assoc_field k fs.
Proof.
  induction 1 as [|[k' v] t [Hk _] _ IH]; [reflexivity|].
  cbn [map field_slice assoc_field fst snd] in *. rewrite (key_is_uint k k' Hk), IH. reflexivity.
Qed.

(* the keys of an emitted witness set are 0, 1, 2, 3, 6, 7, 4, 5 and there are at most eight fields *)
Lemma ws_fields_keys w : Forall (fun kv => fst kv < two64) (ws_fields w) /\ (length (ws_fields w) <= 8)%nat.
Proof.
  unfold ws_fields, early_fields.
  destruct (ws_vkeys w); (destruct (ws_native w) as [nl|]; [destruct (is_nil nl)|]); destruct (ws_bootstraps w);
  (destruct (ws_plutus_scripts w) as [l|];
    [destruct (has_version V1 l), (has_version V2 l), (has_version V3 l)|]);
    (destruct (ws_plutus_data w) as [d|]; [destruct (is_nil (pl_elems d))|]);
    (destruct (ws_redeemers w) as [r|]; [destruct (is_nil (rs_list r))|]);
    cbn [app length]; (split; [repeat constructor|lia]).
Qed.

(* C09_slices_sound: slicing the bytes of an emitted witness set gives its structured fields *)
Theorem ws_slices_sound w :
  Forall (fun kv => item_wf (snd kv) = true) (ws_fields w) ->
  exists sl, map_slices (ws_bytes w) = Ok sl /\
             field_slice 5 sl = assoc_field 5 (ws_fields w) /\
             field_slice 4 sl = assoc_field 4 (ws_fields w).
Proof.
  intros Hwf. destruct (ws_fields_keys w) as [Hk Hl].
  assert (Hf : Forall field_ok (ws_fields w)).
  { rewrite Forall_forall in *. intros kv Hin. split; [apply Hk, Hin|apply item_wf_delim, Hwf, Hin]. }
  eexists. split; [apply map_slices_fields; [exact Hf|]|].
  - unfold len, two64. lia.
  - split; apply field_slice_assoc, Hf.
Qed.

(* byte-level form of C09_same_bytes_history: the script_data_hash equals the ledger's script-integrity hash computed
   from the byte slices of the serialised witness set *)
Theorem same_bytes_history_bytes (H : bytes -> bytes) ops cm before t :
  last_calc_rev (rev ops) = Some (cm, before) ->
  let b0 := fst (run H builder_new (rev before)) in
  let b := fst (run H builder_new ops) in
  is_ok (calc_script_data_hash H b0 cm) = true ->
  has_script_items b0 || is_none (b_script_data_hash b0) || (calc_clears_own_hash && b_hash_calculated b0) = true ->
  known_stale_lang b0 = false ->
  build_tx H b = Ok t ->
  Forall (fun kv => item_wf (snd kv) = true) (ws_fields (tx_witness_set t)) ->
  exists sl, map_slices (ws_bytes (tx_witness_set t)) = Ok sl /\
    tx_script_data_hash t = ledger_script_integrity H (field_slice 5 sl) (field_slice 4 sl) (langs_used b) cm.
Proof.
  intros Hl b0 b Hok Hprior Hstale Hbuild Hwf.
  destruct (ws_slices_sound _ Hwf) as [sl [Hs [E5 E4]]]. exists sl. split; [exact Hs|].
  rewrite E5, E4. exact (same_bytes_history H ops cm before t Hl Hok Hprior Hstale Hbuild).
Qed.

(* ================================================================== containers of delimited items are delimited *)

(* an item delimited by skip_item parses the same way at every fuel larger than the input *)
Lemma delim_parse v : delim v -> exists it, forall f rest, (length (v ++ rest) < f)%nat -> parse_item f (v ++ rest) = Ok (it, rest).
Proof.
  intros Hd. pose proof (Hd []) as H0. apply skip_item_parse in H0 as [it [H0 _]].
  exists it. intros f rest Hf.
  assert (Hp : parse_one (v ++ rest) = Ok (it, rest)) by (apply (parse_one_local _ [] rest), H0).
  rewrite (parse_item_default f (v ++ rest)); [exact Hp|]. apply parse_item_fuel_enough, Hf.
Qed.

Lemma parse_n_fields f fs : Forall field_ok fs -> forall rest, (length (flat_fields fs ++ rest) < f)%nat ->
  exists kvs, parse_n (parse_pair (parse_item f)) (length fs) (flat_fields fs ++ rest) = Ok (kvs, rest).
Proof.
  induction 1 as [|[k v] t [Hk Hv] _ IH]; intros rest Hf; [exists []; reflexivity|].
  cbn [flat_fields flat_map fst snd length parse_n] in *. fold (flat_fields t) in *.
  destruct (delim_parse _ (delim_uint k Hk)) as [ik Pk]. destruct (delim_parse _ Hv) as [iv Pv].
  rewrite <- !app_assoc in *. unfold parse_pair at 1.
  rewrite Pk by exact Hf. cbn [bind].
  rewrite Pv by (rewrite !app_length in *; lia). cbn [bind].
  destruct (IH rest) as [kvs Hkvs]; [rewrite !app_length in *; lia|].
  rewrite Hkvs. cbn [bind]. eexists. reflexivity.
Qed.

(* a definite-length map of delimited fields is itself delimited *)
Theorem delim_enc_fields fs : Forall field_ok fs -> len fs < two64 -> delim (enc_fields fs).
Proof.
  intros Hf Hl rest. apply skip_item_parse.
  unfold enc_fields. fold (flat_fields fs). rewrite <- app_assoc.
  set (bs := encode_head 5 (len fs) ++ flat_fields fs ++ rest).
  assert (Hd : decode_head bs = Some (5, Arg (len fs), flat_fields fs ++ rest)) by (apply decode_encode_head, Hl).
  unfold parse_one, default_fuel. cbn [parse_item]. rewrite (parse_body_head _ _ _ _ _ Hd).
  unfold parse_after. cbn [major_of].
  assert (Hg : (len fs <=? len (flat_fields fs ++ rest)) = true).
  { apply N.leb_le. unfold len. rewrite app_length. pose proof (flat_fields_length fs Hf). lia. }
  rewrite Hg. replace (N.to_nat (len fs)) with (length fs) by (unfold len; lia).
  assert (Hlen : (length (flat_fields fs ++ rest) < length bs)%nat).
  { apply decode_head_shorter in Hd. exact Hd. }
  destruct (parse_n_fields (length bs) fs Hf rest Hlen) as [kvs Hk]. rewrite Hk. cbn [bind].
  eexists. split; [reflexivity|]. subst bs. reflexivity.
Qed.

(* ================================================================== the serialised transaction *)

(* [ body, witness_set, true, auxiliary_data / null ]; the body is a definite-length map whose fields 7 (auxiliary
   data hash) and 11 (script data hash) are the ones of the model and whose other fields are given, in any order *)
Definition hash_field (h : bytes) : bytes := [88; 32] ++ h.
Definition body_fields (other : list (N * bytes)) (t : tx) : list (N * bytes) :=
  other ++
  (match tx_aux_data_hash t with Some h => [(7, hash_field h)] | None => [] end) ++
  (match tx_script_data_hash t with Some h => [(11, hash_field h)] | None => [] end).
Definition tx_bytes (other : list (N * bytes)) (t : tx) : bytes :=
  [132] ++ enc_fields (body_fields other t) ++ ws_bytes (tx_witness_set t) ++ [245] ++
  (match tx_aux t with Some a => enc_aux a | None => [246] end).

Definition hash_ok (o : option bytes) : Prop :=
  match o with Some h => length h = 32%nat /\ bytes_ok h | None => True end.
Definition other_ok (other : list (N * bytes)) : Prop :=
  Forall (fun kv => fst kv < two64 /\ fst kv <> 7 /\ fst kv <> 11 /\ item_wf (snd kv) = true) other.

Lemma delim_hash_field h : length h = 32%nat -> bytes_ok h -> delim (hash_field h).
Proof.
  intros Hl Hok rest. unfold hash_field.
  assert (E : [88; 32] ++ h = encode_item (IBytes h)).
  { cbn [encode_item]. unfold len. rewrite Hl. reflexivity. }
  rewrite E. apply skip_item_encode. cbn [item_ok]. unfold chunk_ok.
  rewrite (bytes_ok_okb _ Hok). unfold len. rewrite Hl. reflexivity.
Qed.

Lemma hash32_payload_field h : length h = 32%nat -> hash32_payload (hash_field h) = Some h.
Proof. intros Hl. unfold hash_field, hash32_payload. cbn [app]. unfold len. rewrite Hl. reflexivity. Qed.

Lemma assoc_app_none k (a b : list (N * bytes)) : assoc_field k a = None -> assoc_field k (a ++ b) = assoc_field k b.
Proof.
  induction a as [|[k' v] t IH]; [reflexivity|]. cbn [assoc_field app]. destruct (k' =? k); [discriminate|]. exact IH.
Qed.

Lemma other_no_key other k : other_ok other -> (k = 7 \/ k = 11) -> assoc_field k other = None.
Proof.
  intros Ho Hk. induction Ho as [|[k' v] t [_ [H7 [H11 _]]] _ IH]; [reflexivity|].
  cbn [assoc_field fst] in *. destruct (k' =? k) eqn:E; [apply N.eqb_eq in E; destruct Hk; congruence|]. exact IH.
Qed.

Lemma enc_aux_not_null a : enc_aux a <> [246].
Proof.
  unfold enc_aux.
  destruct (negb (a_prefer_alonzo a)), (a_metadata a) as [md|], (a_plutus a) as [pl|];
    try (change (encode_head 6 259) with [217; 1; 3]; cbn [app]; discriminate).
  destruct (a_native a) as [ns|].
  - cbn [app]. discriminate.
  - unfold enc_metadata. destruct (map_head_first (len md)) as [b [r [E Hb]]]. rewrite E. cbn [app].
    intros Heq. injection Heq as Hb' _. lia.
Qed.

(* C09_tx_view_sound: slicing the serialised transaction (what the judge does with the implementation's bytes) yields
   exactly the model's hashes, the structured witness-set fields 5 and 4 and the auxiliary-data bytes *)
Theorem view_tx_sound other t :
  other_ok other -> len (body_fields other t) < two64 ->
  hash_ok (tx_script_data_hash t) -> hash_ok (tx_aux_data_hash t) ->
  Forall (fun kv => item_wf (snd kv) = true) (ws_fields (tx_witness_set t)) ->
  (match tx_aux t with Some a => item_wf (enc_aux a) = true | None => True end) ->
  view_tx (tx_bytes other t) =
  Ok (mk_tx_view (tx_script_data_hash t) (tx_aux_data_hash t)
                 (assoc_field 5 (ws_fields (tx_witness_set t))) (assoc_field 4 (ws_fields (tx_witness_set t)))
                 (match tx_aux t with Some a => Some (enc_aux a) | None => None end)).
Proof.
  intros Hother Hlen Hs Ha Hws Haux.
  (* the body's fields are delimited *)
  assert (Hbf : Forall field_ok (body_fields other t)).
  { unfold body_fields. apply Forall_app. split.
    - eapply Forall_impl; [|exact Hother]. intros kv [Hk [_ [_ Hw]]]. split; [exact Hk|apply item_wf_delim, Hw].
    - apply Forall_app. split.
      + destruct (tx_aux_data_hash t) as [h|]; [|constructor]. destruct Ha as [Hl Hok].
        constructor; [|constructor]. split; [cbn; unfold two64; lia|apply delim_hash_field; assumption].
      + destruct (tx_script_data_hash t) as [h|]; [|constructor]. destruct Hs as [Hl Hok].
        constructor; [|constructor]. split; [cbn; unfold two64; lia|apply delim_hash_field; assumption]. }
  (* so are the witness set's *)
  destruct (ws_fields_keys (tx_witness_set t)) as [Hk Hl5].
  assert (Hwf : Forall field_ok (ws_fields (tx_witness_set t))).
  { rewrite Forall_forall in *. intros kv Hin. split; [apply Hk, Hin|apply item_wf_delim, Hws, Hin]. }
  assert (Hwl : len (ws_fields (tx_witness_set t)) < two64) by (unfold len, two64; lia).
  pose proof (delim_enc_fields _ Hbf Hlen) as Dbody.
  pose proof (delim_enc_fields _ Hwf Hwl) as Dws.
  assert (Dtrue : delim [245]).
  { change [245] with (encode_item (ISimple 21)). intros rest. apply skip_item_encode. reflexivity. }
  unfold view_tx, tx_bytes, array_slices.
  change (decode_head ([132] ++ ?r)) with (Some (4, Arg 4, r)). cbn [N.eqb Pos.eqb].
  change (N.to_nat 4) with 4%nat. cbn [item_slices].
  fold (ws_bytes (tx_witness_set t)).
  rewrite (Dbody _). cbn [bind]. unfold ws_bytes at 1. rewrite (Dws _). cbn [bind].
  rewrite (Dtrue _). cbn [bind].
  match goal with |- context [skip_item ?x] => assert (Daux0 : skip_item x = Ok (x, [])) end.
  { destruct (tx_aux t) as [a|].
    - pose proof (item_wf_delim _ Haux []) as D. rewrite app_nil_r in D. exact D.
    - reflexivity. }
  rewrite Daux0. cbn [bind is_nil].
  change (4 =? 4) with true. cbv iota. cbn [bind].
  rewrite (map_slices_fields _ Hbf Hlen). cbn [bind].
  fold (ws_bytes (tx_witness_set t)). unfold ws_bytes. rewrite (map_slices_fields _ Hwf Hwl). cbn [bind].
  rewrite !(field_slice_assoc _ _ Hbf), !(field_slice_assoc _ _ Hwf).
  (* fields 11 and 7 of the body *)
  assert (H11 : assoc_field 11 (body_fields other t) = match tx_script_data_hash t with Some h => Some (hash_field h) | None => None end).
  { unfold body_fields. rewrite (assoc_app_none _ _ _ (other_no_key other 11 Hother (or_intror eq_refl))).
    destruct (tx_aux_data_hash t); destruct (tx_script_data_hash t); reflexivity. }
  assert (H7 : assoc_field 7 (body_fields other t) = match tx_aux_data_hash t with Some h => Some (hash_field h) | None => None end).
  { unfold body_fields. rewrite (assoc_app_none _ _ _ (other_no_key other 7 Hother (or_introl eq_refl))).
    destruct (tx_aux_data_hash t); destruct (tx_script_data_hash t); reflexivity. }
  rewrite H11, H7.
  assert (O1 : opt_hash (match tx_script_data_hash t with Some h => Some (hash_field h) | None => None end) = Ok (tx_script_data_hash t)).
  { destruct (tx_script_data_hash t) as [h|]; [|reflexivity]. destruct Hs as [Hl _]. cbn [opt_hash]. rewrite (hash32_payload_field h Hl). reflexivity. }
  assert (O2 : opt_hash (match tx_aux_data_hash t with Some h => Some (hash_field h) | None => None end) = Ok (tx_aux_data_hash t)).
  { destruct (tx_aux_data_hash t) as [h|]; [|reflexivity]. destruct Ha as [Hl _]. cbn [opt_hash]. rewrite (hash32_payload_field h Hl). reflexivity. }
  rewrite O1, O2. cbn [bind]. f_equal. f_equal.
  destruct (tx_aux t) as [a|]; [|reflexivity].
  pose proof (enc_aux_not_null a) as Hn.
  destruct (enc_aux a) as [|x [|y r]].
  - reflexivity.
  - destruct x as [|p]; [reflexivity|].
    do 8 (try (destruct p as [p|p|]; try reflexivity)). congruence.
  - destruct x as [|p]; [reflexivity|].
    do 8 (try (destruct p as [p|p|]; try reflexivity)).
Qed.

(* ================================================================== the judge accepts the model's transaction *)

Lemma opt_bytes_eqb_refl o : opt_bytes_eqb o o = true.
Proof. destruct o; [apply bytes_eqb_refl|reflexivity]. Qed.

(* The judge of the correspondence run (ScriptDataSpec.judge_builder), applied to the bytes of the transaction the
   model builds — with ANY other body fields — answers Holds on every history in which the hash was computed after
   the last script item: the judge is exactly the conjunction of C09_same_bytes_history and C09_aux, read off the
   bytes.  (On the implementation's bytes it therefore decides the property whenever model and code agree.) *)
Theorem judge_builder_accepts_model (H : bytes -> bytes) ops cm before other t :
  build_tx H (fst (run H builder_new ops)) = Ok t ->
  last_calc_rev (rev ops) = Some (cm, before) ->
  is_ok (calc_script_data_hash H (fst (run H builder_new (rev before))) cm) = true ->
  has_script_items (fst (run H builder_new (rev before))) || is_none (b_script_data_hash (fst (run H builder_new (rev before))))
    || (calc_clears_own_hash && b_hash_calculated (fst (run H builder_new (rev before)))) = true ->
  known_stale_lang (fst (run H builder_new (rev before))) = false ->
  other_ok other -> len (body_fields other t) < two64 ->
  hash_ok (tx_script_data_hash t) -> hash_ok (tx_aux_data_hash t) ->
  Forall (fun kv => item_wf (snd kv) = true) (ws_fields (tx_witness_set t)) ->
  (match tx_aux t with Some a => item_wf (enc_aux a) = true | None => True end) ->
  judge_builder H ops (tx_bytes other t) = Holds.
Proof.
  intros Hb Hl Hok Hprior Hstale Ho Hlen Hs Ha Hws Haux.
  unfold judge_builder. rewrite (view_tx_sound other t Ho Hlen Hs Ha Hws Haux).
  cbn [v_aux_hash v_aux v_script_data_hash v_redeemers v_datums].
  rewrite (aux_hash H _ _ Hb), opt_bytes_eqb_refl. cbn [negb].
  assert (Hscope : has_script_items (fst (run H builder_new (rev before))) || is_none (b_script_data_hash (fst (run H builder_new (rev before))))
                   || b_hash_calculated (fst (run H builder_new (rev before))) = true).
  { apply orb_true_iff in Hprior as [Hp|Hp]; [rewrite Hp; reflexivity|].
    apply andb_true_iff in Hp as [_ Hp]. rewrite Hp. apply orb_true_r. }
  rewrite Hl, Hok, Hscope. cbn [andb].
  rewrite (same_bytes_history H ops cm before t Hl Hok Hprior Hstale Hb), opt_bytes_eqb_refl. reflexivity.
Qed.
