(* Known-answer tests for the executable Blake2b-256 used by the C09 judge (RFC 7693 parameters: 32-byte digest, no
   key): the empty message, "abc", and two messages exercising a full final block (128 bytes) and a second block
   (200 bytes); reference values computed with Python's hashlib.blake2b(digest_size=32). *)
From CSL Require Import Base.Prelude ScriptData.Blake2b.
Local Open Scope N_scope.

Definition upto (n : nat) : bytes := map N.of_nat (seq 0 n).

Example blake2b256_empty : blake2b256 [] =
  [14; 87; 81; 192; 38; 229; 67; 178; 232; 171; 46; 176; 96; 153; 218; 161; 209; 229; 223; 71; 119; 143; 119; 135; 250; 171; 69;
   205; 241; 47; 227; 168].
Proof. vm_compute. reflexivity. Qed.

Example blake2b256_abc : blake2b256 [97; 98; 99] =
  [189; 221; 129; 60; 99; 66; 57; 114; 49; 113; 239; 63; 238; 152; 87; 155; 148; 150; 78; 59; 177; 203; 62; 66; 114; 98; 200; 192;
   104; 213; 35; 25].
Proof. vm_compute. reflexivity. Qed.

Example blake2b256_128 : blake2b256 (upto 128) =
  [195; 88; 47; 113; 235; 178; 190; 102; 250; 93; 215; 80; 248; 11; 170; 233; 117; 84; 243; 176; 21; 102; 60; 139; 227; 119; 207;
   203; 36; 136; 193; 209].
Proof. vm_compute. reflexivity. Qed.

Example blake2b256_200 : blake2b256 (upto 200) =
  [99; 195; 217; 122; 159; 136; 148; 213; 224; 67; 167; 7; 176; 254; 231; 247; 236; 76; 4; 154; 35; 187; 241; 7; 157; 242; 11; 65;
   101; 249; 226; 45].
Proof. vm_compute. reflexivity. Qed.
