(* C09 — proofs.  Inventory:
     language views      sort_keys_canonical, views_model_spec, views_canonical, langs_in_use_canonical,
                         retain_or_fail_get, retain_or_fail_ok_iff, views_retained
     de-duplication      dedup_no_dups, dedup_nil, set_bytes_clone, set_bytes_clone_no_dups
     stand-alone helper  preimage_spec_gen (both switches), preimage_spec, preimage_cddl_note,
                         preimage_refuted_dup_length, preimage_refuted_empty_datums
     builder             used_langs_mem, collect_redeemers_nil, add_extra_*, witness_fields,
                         same_bytes (state form), run_* (histories), same_bytes_history, aux_hash,
                         stale_hash_not_detected, calc_noop_keeps_hash
   All closed under the global context; the hash function is a universally quantified argument. *)
From CSL Require Import Base.Prelude Cbor.Head Cbor.Item ScriptData.LangViews ScriptData.ScriptData ScriptData.ScriptDataSpec.
Local Open Scope N_scope.

(* ================================================================== language views *)

Lemma sort_keys_canonical cm :
  sort_keys (cm_keys cm) = filter (fun l => is_some (cm_get cm l)) canonical_langs.
Proof. destruct cm as [[a|] [b|] [c|]]; reflexivity. Qed.

(* the model's encoding is the specification's map over exactly the languages of the table *)
Theorem views_model_spec cm : language_views_encoding cm = spec_views (cm_keys cm) cm.
Proof. destruct cm as [[a|] [b|] [c|]]; reflexivity. Qed.

(* keys are written in strictly increasing canonical order of their ENCODED form (shorter first, then bytewise):
   01 < 02 < 41 00, i.e. PlutusV2, PlutusV3, PlutusV1 *)
Theorem views_canonical cm : strictly_sorted (map enc_view_key (sort_keys (cm_keys cm))) = true.
Proof. destruct cm as [[a|] [b|] [c|]]; reflexivity. Qed.

Lemma langs_in_use_canonical used : strictly_sorted (map enc_view_key (langs_in_use used)) = true.
Proof.
  unfold langs_in_use, canonical_langs. cbn [filter].
  destruct (mem_lang V2 used), (mem_lang V3 used), (mem_lang V1 used); reflexivity.
Qed.

Lemma the_three_keys : map enc_view_key canonical_langs = [[1]; [2]; [65; 0]].
Proof. reflexivity. Qed.

Lemma lang_eqb_refl l : lang_eqb l l = true.
Proof. destruct l; reflexivity. Qed.
Lemma lang_eqb_eq a b : lang_eqb a b = true <-> a = b.
Proof. destruct a, b; cbn; split; intros; try reflexivity; try discriminate. Qed.

Lemma cm_get_insert acc l c l' :
  cm_get (cm_insert acc l c) l' = if lang_eqb l' l then Some c else cm_get acc l'.
Proof. destruct l, l'; reflexivity. Qed.

Lemma mem_lang_cons l x t : mem_lang l (x :: t) = lang_eqb l x || mem_lang l t.
Proof. reflexivity. Qed.
Lemma mem_lang_app l a b : mem_lang l (a ++ b) = mem_lang l a || mem_lang l b.
Proof. unfold mem_lang. apply existsb_app. Qed.

Lemma retain_or_fail_get cm ls : forall acc r,
  retain_or_fail cm ls acc = Ok r ->
  forall l, cm_get r l = if mem_lang l ls then cm_get cm l else cm_get acc l.
Proof.
  induction ls as [|x t IH]; intros acc r Hr l; cbn [retain_or_fail] in Hr.
  - injection Hr as <-. reflexivity.
  - destruct (cm_get cm x) as [c|] eqn:E; [|discriminate].
    rewrite (IH _ _ Hr l), mem_lang_cons, cm_get_insert.
    destruct (mem_lang l t); [rewrite orb_true_r; reflexivity|]. rewrite orb_false_r.
    destruct (lang_eqb l x) eqn:El; [|reflexivity]. apply lang_eqb_eq in El. subst. symmetry. exact E.
Qed.

Lemma retain_or_fail_ok_iff cm ls : forall acc,
  is_ok (retain_or_fail cm ls acc) = covers cm ls.
Proof.
  induction ls as [|x t IH]; intros acc; cbn [retain_or_fail covers forallb]; [reflexivity|].
  destruct (cm_get cm x); cbn [is_some andb]; [apply IH|reflexivity].
Qed.

Lemma retain_or_fail_no_panic cm ls : forall acc, retain_or_fail cm ls acc = Err \/ exists r, retain_or_fail cm ls acc = Ok r.
Proof.
  induction ls as [|x t IH]; intros acc; cbn [retain_or_fail]; [right; eexists; reflexivity|].
  destruct (cm_get cm x); [apply IH|left; reflexivity].
Qed.

Lemma spec_views_ext used used' cm cm' :
  (forall l, mem_lang l used = mem_lang l used') ->
  (forall l, mem_lang l used = true -> cm_get cm l = cm_get cm' l) ->
  spec_views used cm = spec_views used' cm'.
Proof.
  intros Hm Hg. unfold spec_views, canonical_langs. cbn [filter].
  rewrite <- (Hm V1), <- (Hm V2), <- (Hm V3).
  pose proof (Hg V1) as G1. pose proof (Hg V2) as G2. pose proof (Hg V3) as G3.
  unfold spec_view_entry.
  destruct (mem_lang V2 used), (mem_lang V3 used), (mem_lang V1 used); cbn [flat_map app];
    rewrite ?(G1 eq_refl), ?(G2 eq_refl), ?(G3 eq_refl); reflexivity.
Qed.

Lemma mem_cm_keys cm l : mem_lang l (cm_keys cm) = is_some (cm_get cm l).
Proof. destruct cm as [[a|] [b|] [c|]], l; reflexivity. Qed.

(* the views of the retained table are the specification's views of the used languages under the caller's table *)
Lemma views_retained cm used r :
  (forall l, cm_get r l = if mem_lang l used then cm_get cm l else None) ->
  covers cm used = true ->
  language_views_encoding r = spec_views used cm.
Proof.
  intros Hget Hcov.
  assert (Hc : forall l, mem_lang l used = true -> is_some (cm_get cm l) = true).
  { intros l Hl. unfold covers in Hcov. rewrite forallb_forall in Hcov.
    unfold mem_lang in Hl. apply existsb_exists in Hl as [y [Hin Hy]]. apply lang_eqb_eq in Hy. subst y.
    exact (Hcov _ Hin). }
  rewrite views_model_spec. apply spec_views_ext.
  - intros l. rewrite mem_cm_keys, Hget. destruct (mem_lang l used) eqn:M; [apply Hc, M|reflexivity].
  - intros l. rewrite mem_cm_keys, Hget. destruct (mem_lang l used); [reflexivity|discriminate].
Qed.

(* ================================================================== de-duplication *)

Lemma dedup_written_no_dups seen l : has_dup_written seen l = false -> dedup_written_from seen l = l.
Proof.
  revert seen. induction l as [|x t IH]; intros seen Hd; [reflexivity|].
  cbn [has_dup_written] in Hd. apply orb_false_iff in Hd as [Hx Ht].
  cbn [dedup_written_from]. rewrite Hx, (IH _ Ht). reflexivity.
Qed.
Lemma dedup_no_dups l : has_dup_written [] l = false -> dedup_written l = l.
Proof. apply dedup_written_no_dups. Qed.

Lemma dedup_nil l : is_nil (dedup_written l) = is_nil l.
Proof. destruct l; reflexivity. Qed.

Lemma use_definite_clone l : pl_use_definite (pl_deduplicated_clone l) = pl_use_definite l.
Proof. unfold pl_use_definite, pl_deduplicated_clone. cbn [pl_definite pl_elems]. destruct (pl_definite l); [reflexivity|apply dedup_nil]. Qed.

(* writing a list as it stands does not depend on the length switch *)
Lemma set_bytes_plain cd cd' l : serialize_as_set_gen cd false l = serialize_as_set_gen cd' false l.
Proof. unfold serialize_as_set_gen. destruct cd, cd'; reflexivity. Qed.

(* the two serialisation paths: to_set_bytes on the list (hash) vs serialize_as_set(false) on its de-duplicated
   clone (witness set) — equal once the header counts what is written *)
Lemma set_bytes_clone cd' l :
  serialize_as_set_gen false true l = serialize_as_set_gen cd' false (pl_deduplicated_clone l).
Proof.
  rewrite (set_bytes_plain cd' false). unfold serialize_as_set_gen. rewrite use_definite_clone. reflexivity.
Qed.

(* with the header counting the un-deduplicated list (the code as found): equal when nothing is dropped or the
   list is written with indefinite length *)
Lemma set_bytes_clone_counting cd' l :
  pl_use_definite l && has_dup_written [] (pl_elems l) = false ->
  serialize_as_set_gen true true l = serialize_as_set_gen cd' false (pl_deduplicated_clone l).
Proof.
  intros Hk. rewrite <- (set_bytes_clone cd'). unfold serialize_as_set_gen.
  destruct (pl_use_definite l) eqn:D; [|reflexivity].
  cbn [andb] in Hk. rewrite (dedup_no_dups _ Hk). reflexivity.
Qed.

Lemma set_bytes_clone_gen cd cd' l :
  (cd = true -> pl_use_definite l && has_dup_written [] (pl_elems l) = false) ->
  serialize_as_set_gen cd true l = serialize_as_set_gen cd' false (pl_deduplicated_clone l).
Proof. destruct cd; intros Hk; [apply set_bytes_clone_counting, Hk; reflexivity|apply set_bytes_clone]. Qed.

(* ================================================================== the stand-alone helper *)

Lemma redeemers_bytes_empty_map r : rs_list r = [] -> rs_format r <> Some CArray -> redeemers_bytes r = [160].
Proof.
  intros Hl Hf. unfold redeemers_bytes, get_container_type. rewrite Hl.
  destruct (rs_format r) as [[|]|]; try reflexivity. congruence.
Qed.

Lemma spec_views_nil cm : spec_views [] cm = [160].
Proof. reflexivity. Qed.

Lemma cm_keys_nil_views cm : cm_keys cm = [] -> spec_views (cm_keys cm) cm = [160].
Proof. intros ->. reflexivity. Qed.

(* ================================================================== fields of an emitted witness set *)

Lemma assoc_skip (pre : list (N * bytes)) k rest :
  (forall kv, In kv pre -> fst kv <> k) -> assoc_field k (pre ++ rest) = assoc_field k rest.
Proof.
  induction pre as [|[k' v] t IH]; intros Hp; [reflexivity|]. cbn [app assoc_field].
  destruct (k' =? k) eqn:E; [apply N.eqb_eq in E; exfalso; apply (Hp (k', v)); [left; reflexivity|exact E]|].
  apply IH. intros kv Hin. apply Hp. right. exact Hin.
Qed.

(* the fields written before the datums carry the keys 0, 1, 2, 3, 6, 7 *)
Lemma early_fields_keys w kv : In kv (early_fields w) -> In (fst kv) [0; 1; 2; 3; 6; 7].
Proof.
  unfold early_fields. intros Hin.
  repeat (apply in_app_or in Hin as [Hin|Hin]).
  - destruct (ws_vkeys w); [destruct Hin as [<-|[]]; cbn; auto|destruct Hin].
  - destruct (ws_native w) as [l|]; [destruct (is_nil l); [destruct Hin|destruct Hin as [<-|[]]; cbn; auto]|destruct Hin].
  - destruct (ws_bootstraps w); [destruct Hin as [<-|[]]; cbn; auto|destruct Hin].
  - destruct (ws_plutus_scripts w) as [l|]; [|destruct Hin].
    repeat (apply in_app_or in Hin as [Hin|Hin]).
    + destruct (has_version V1 l); [destruct Hin as [<-|[]]; cbn; auto|destruct Hin].
    + destruct (has_version V2 l); [destruct Hin as [<-|[]]; cbn; auto 10|destruct Hin].
    + destruct (has_version V3 l); [destruct Hin as [<-|[]]; cbn; auto 10|destruct Hin].
Qed.

Lemma early_fields_not k w : k = 4 \/ k = 5 -> forall kv, In kv (early_fields w) -> fst kv <> k.
Proof.
  intros Hk kv Hin Heq. apply early_fields_keys in Hin. rewrite Heq in Hin.
  destruct Hk; subst k; cbn in Hin; repeat (destruct Hin as [Hin|Hin]; [discriminate|]); exact Hin.
Qed.

Lemma assoc_ws_fields w :
  assoc_field 5 (ws_fields w) =
    (match ws_redeemers w with Some r => if is_nil (rs_list r) then None else Some (redeemers_bytes r) | None => None end) /\
  assoc_field 4 (ws_fields w) =
    (match ws_plutus_data w with Some d => if is_nil (pl_elems d) then None else Some (serialize_as_set false d) | None => None end).
Proof.
  unfold ws_fields. split.
  - rewrite (assoc_skip _ 5) by (apply early_fields_not; auto).
    destruct (ws_plutus_data w) as [d|]; [destruct (is_nil (pl_elems d))|];
    (destruct (ws_redeemers w) as [r|]; [destruct (is_nil (rs_list r))|]); reflexivity.
  - rewrite (assoc_skip _ 4) by (apply early_fields_not; auto).
    destruct (ws_plutus_data w) as [d|]; [destruct (is_nil (pl_elems d))|];
    (destruct (ws_redeemers w) as [r|]; [destruct (is_nil (rs_list r))|]); reflexivity.
Qed.

(* hash_script_data hashes the ledger's preimage over the witness set emitted for the same redeemers and datums
   (whatever key / bootstrap witnesses that witness set carries besides);
   stated for both values of both switches, the classes are needed only for the value `true` (code as found) *)
Theorem preimage_spec_with (cd eh : bool) vk bo r cm d :
  helper_out_of_scope r d = false ->
  (cd = true -> known_dup_definite d = false) ->
  (eh = true -> known_empty_datums d = false) ->
  let fs := ws_fields (helper_witness_set_with vk bo r d) in
  script_data_preimage_gen cd eh r cm d =
  ledger_preimage (assoc_field 5 fs) (assoc_field 4 fs) (spec_views (helper_langs r cm) cm).
Proof.
  intros Hscope Hcd Heh fs. subst fs.
  destruct (assoc_ws_fields (helper_witness_set_with vk bo r d)) as [A5 A4]. rewrite A5, A4.
  assert (Hr : ws_redeemers (helper_witness_set_with vk bo r d) = Some r).
  { unfold helper_witness_set_with, set_plutus_data. destruct vk, bo, d as [l|]; try destruct (is_nil (pl_elems l)); reflexivity. }
  assert (Hd : ws_plutus_data (helper_witness_set_with vk bo r d) =
               match d with Some l => if is_nil (pl_elems l) then None else Some (pl_deduplicated_clone l) | None => None end).
  { unfold helper_witness_set_with, set_plutus_data. destruct vk, bo, d as [l|]; try destruct (is_nil (pl_elems l)); reflexivity. }
  rewrite Hr, Hd. clear A5 A4 Hr Hd.
  unfold script_data_preimage_gen, helper_out_of_scope, helper_langs in *.
  rewrite views_model_spec.
  destruct r as [rl rf]. cbn [rs_list rs_format] in *.
  destruct d as [[de dd]|].
  - destruct de as [|d0 dt].
    + destruct eh; [specialize (Heh eq_refl); discriminate|].
      destruct rl as [|r0 rt]; [discriminate|].
      cbn [datums_for_hash_gen pl_elems is_nil ledger_preimage]. reflexivity.
    + assert (Hd : datums_for_hash_gen eh (Some (mk_plist (d0 :: dt) dd)) = Some (mk_plist (d0 :: dt) dd)) by (destruct eh; reflexivity).
      rewrite Hd.
      assert (Hset : serialize_as_set_gen cd true (mk_plist (d0 :: dt) dd) =
                     serialize_as_set false (pl_deduplicated_clone (mk_plist (d0 :: dt) dd))).
      { apply set_bytes_clone_gen. intros ->. exact (Hcd eq_refl). }
      cbn [pl_elems is_nil]. cbn [pl_deduplicated_clone pl_elems].
      assert (Hne : is_nil (dedup_written (d0 :: dt)) = false) by reflexivity. rewrite Hne.
      destruct rl as [|r0 rt]; cbn [is_nil ledger_preimage]; rewrite Hset; reflexivity.
  - destruct rl as [|r0 rt]; [discriminate|].
    cbn [datums_for_hash_gen is_nil ledger_preimage]. reflexivity.
Qed.

Theorem preimage_spec_gen (cd eh : bool) r cm d :
  helper_out_of_scope r d = false ->
  (cd = true -> known_dup_definite d = false) ->
  (eh = true -> known_empty_datums d = false) ->
  let fs := ws_fields (helper_witness_set r d) in
  script_data_preimage_gen cd eh r cm d =
  ledger_preimage (assoc_field 5 fs) (assoc_field 4 fs) (spec_views (helper_langs r cm) cm).
Proof. apply preimage_spec_with. Qed.

(* the statement for the code as it stands (the two switches of ScriptData.v) *)
Theorem preimage_spec r cm d :
  helper_out_of_scope r d = false ->
  (set_len_counts_duplicates = true -> known_dup_definite d = false) ->
  (empty_datums_hashed = true -> known_empty_datums d = false) ->
  let fs := ws_fields (helper_witness_set r d) in
  script_data_preimage r cm d =
  ledger_preimage (assoc_field 5 fs) (assoc_field 4 fs) (spec_views (helper_langs r cm) cm).
Proof. apply preimage_spec_gen. Qed.

(* datums without redeemers: the CDDL note literally, A0 | datums | A0, whatever table is handed over *)
Lemma preimage_cddl_note cd r cm l :
  rs_list r = [] -> pl_elems l <> [] ->
  script_data_preimage_gen cd false r cm (Some l) = [160] ++ serialize_as_set_gen cd true l ++ [160].
Proof.
  intros Hr Hl. unfold script_data_preimage_gen. rewrite Hr. cbn [datums_for_hash_gen].
  destruct (pl_elems l) eqn:E; [congruence|]. reflexivity.
Qed.

(* the code as found (switch values `true`) violates the unrestricted statement: witnesses *)
Definition dup_witness_datum : pdata := mk_pdata 7 [24; 42].
Definition dup_witness_list : plutus_list := mk_plist [dup_witness_datum; dup_witness_datum] (Some true).
Definition one_redeemer : redeemers := mk_redeemers [mk_redeemer 0 0 (mk_pdata 1 [1]) 10 20] None.

Theorem preimage_refuted_dup_length :
  let fs := ws_fields (helper_witness_set one_redeemer (Some dup_witness_list)) in
  helper_out_of_scope one_redeemer (Some dup_witness_list) = false /\
  script_data_preimage_gen true true one_redeemer cm_empty (Some dup_witness_list) <>
  ledger_preimage (assoc_field 5 fs) (assoc_field 4 fs) (spec_views (helper_langs one_redeemer cm_empty) cm_empty) /\
  (* the hashed datum part announces two elements and holds one: d9 0102 82 18 2a *)
  serialize_as_set_gen true true dup_witness_list = [217; 1; 2; 130; 24; 42] /\
  assoc_field 4 fs = Some [217; 1; 2; 129; 24; 42].
Proof. repeat split; try reflexivity. vm_compute. discriminate. Qed.

Theorem preimage_refuted_empty_datums :
  let d := Some pl_new in
  let fs := ws_fields (helper_witness_set one_redeemer d) in
  helper_out_of_scope one_redeemer d = false /\
  script_data_preimage_gen false true one_redeemer cm_empty d <>
  ledger_preimage (assoc_field 5 fs) (assoc_field 4 fs) (spec_views (helper_langs one_redeemer cm_empty) cm_empty) /\
  assoc_field 4 fs = None.
Proof. repeat split; try reflexivity. vm_compute. discriminate. Qed.

(* ================================================================== the builder *)

Section Builder.
Variable H : bytes -> bytes.

Lemma mem_filter_all (P : lang -> bool) l : mem_lang l (filter P all_langs) = P l.
Proof.
  unfold all_langs. cbn [filter]. destruct l; destruct (P V1) eqn:E1, (P V2) eqn:E2, (P V3) eqn:E3; reflexivity.
Qed.

Lemma mem_sub_langs c l s :
  mem_lang l (sub_langs_gen c s) = mem_lang l (map w_lang (ss_witnesses s)) || mem_lang l (stale_sub_gen c s).
Proof.
  unfold sub_langs_gen, stale_sub_gen.
  rewrite (mem_filter_all (fun l => mem_lang l (map w_lang (ss_witnesses s)) || (c && mem_lang l (ss_stale s)))).
  destruct c; reflexivity.
Qed.

(* what calc_script_data_hash collects from the sub-builders' language sets: the languages of the witnesses it hashes
   and (switch on) those of the stale witnesses *)
Lemma used_langs_mem_gen c b l :
  mem_lang l (used_langs_gen c b) = mem_lang l (langs_used b) || mem_lang l (stale_langs_gen c b).
Proof.
  unfold used_langs_gen, langs_used, stale_langs_gen, all_witnesses, b_inputs, b_collateral, b_mint, b_certs, b_withdrawals, b_votes, b_proposals.
  rewrite mem_filter_all. cbn [existsb].
  assert (Hi : forall s, mem_lang l (inputs_langs_gen c s) = mem_lang l (map w_lang (ss_witnesses s)) || mem_lang l (stale_in_gen c s)).
  { intros s. unfold inputs_langs_gen, stale_in_gen. destruct (ss_witnesses s) eqn:E; cbn [is_nil negb].
    - rewrite andb_false_r. reflexivity.
    - rewrite mem_sub_langs, E, andb_true_r. unfold stale_sub_gen. reflexivity. }
  rewrite !Hi, !mem_sub_langs, !map_app, !mem_lang_app.
  apply Bool.eq_iff_eq_true. rewrite !orb_true_iff. intuition discriminate.
Qed.

Lemma stale_covered_mem c b l :
  known_stale_lang_gen c b = false -> mem_lang l (stale_langs_gen c b) = true -> mem_lang l (langs_used b) = true.
Proof.
  unfold known_stale_lang_gen. intros Hk Hm.
  destruct (mem_lang l (langs_used b)) eqn:E; [reflexivity|exfalso].
  assert (X : existsb (fun l0 => negb (mem_lang l0 (langs_used b))) (stale_langs_gen c b) = true); [|congruence].
  unfold mem_lang in Hm. apply existsb_exists in Hm as [y [Hin Hy]]. apply lang_eqb_eq in Hy. subst y.
  apply existsb_exists. exists l. split; [exact Hin|]. rewrite E. reflexivity.
Qed.

Lemma used_langs_mem c b l : known_stale_lang_gen c b = false -> mem_lang l (used_langs_gen c b) = mem_lang l (langs_used b).
Proof.
  intros Hk. rewrite used_langs_mem_gen. destruct (mem_lang l (stale_langs_gen c b)) eqn:E; [|apply orb_false_r].
  rewrite (stale_covered_mem c b l Hk E). reflexivity.
Qed.

(* with the switch off nothing is stale for the hash: the class is empty *)
Lemma stale_off b : known_stale_lang_gen false b = false.
Proof. reflexivity. Qed.

Lemma dedup_redeemers_nil l : is_nil (dedup_redeemers l) = is_nil l.
Proof. destruct l; reflexivity. Qed.

Lemma collect_parts ws :
  collect ws = (dedup_scripts (witness_scripts ws),
                match dedup_pdata (witness_datums ws) with [] => None | ds => Some (mk_plist ds None) end,
                mk_redeemers (dedup_redeemers (map w_redeemer ws)) None).
Proof. reflexivity. Qed.

(* datum lists the builder handles: never definite, and never Some(empty) *)
Definition builder_list (d : option plutus_list) : Prop :=
  match d with Some l => pl_definite l = None /\ pl_elems l <> [] | None => True end.

Lemma collect_datums_builder_list ws : builder_list (snd (fst (collect ws))).
Proof.
  rewrite collect_parts. cbn [fst snd]. destruct (dedup_pdata (witness_datums ws)) eqn:E; cbn [builder_list]; [exact I|].
  split; [reflexivity|discriminate].
Qed.

Lemma fold_pl_add ex l : fold_left pl_add ex l = mk_plist (pl_elems l ++ ex) (match ex with [] => pl_definite l | _ => None end).
Proof.
  revert l. induction ex as [|x t IH]; intros l; cbn [fold_left].
  - rewrite app_nil_r. destruct l; reflexivity.
  - rewrite IH. unfold pl_add. cbn [pl_elems pl_definite]. rewrite <- app_assoc. cbn [app]. destruct t; reflexivity.
Qed.

(* well-formed builder states: add_extra_witness_datum never leaves an empty list behind *)
Definition wf_builder (b : builder) : Prop := b_extra_datums b <> Some [].

Lemma add_extra_builder_list d ex : builder_list d -> ex <> Some [] -> builder_list (add_extra d ex).
Proof.
  intros Hd Hex. destruct ex as [ex|]; [|exact Hd]. cbn [add_extra]. rewrite fold_pl_add. cbn [builder_list pl_definite pl_elems].
  destruct ex as [|x t]; [congruence|]. split; [reflexivity|]. destruct (pl_elems _); discriminate.
Qed.

Lemma builder_list_set_bytes cd cd' l :
  pl_definite l = None ->
  serialize_as_set_gen cd true l = serialize_as_set_gen cd' false (pl_deduplicated_clone l).
Proof.
  intros Hd. apply set_bytes_clone_gen. intros _. unfold pl_use_definite. rewrite Hd.
  destruct (pl_elems l); reflexivity.
Qed.

Lemma get_witness_set_eq b :
  get_witness_set b =
  let d := match dedup_pdata (witness_datums (all_witnesses b)) with [] => None | ds => Some (mk_plist ds None) end in
  let r := mk_redeemers (dedup_redeemers (map w_redeemer (all_witnesses b))) None in
  let s := dedup_scripts (witness_scripts (all_witnesses b)) in
  let w0 := set_native_scripts ws_new (combined_native b) in
  let wit := if is_nil (all_witnesses b) then w0 else set_redeemers (set_plutus_scripts w0 s) r in
  match add_extra d (b_extra_datums b) with Some l => set_plutus_data wit l | None => wit end.
Proof. unfold get_witness_set. destruct (all_witnesses b); reflexivity. Qed.

(* the fields 4 and 5 of the witness set the builder emits, as functions of the collected data *)
Lemma witness_fields b :
  let d := match dedup_pdata (witness_datums (all_witnesses b)) with [] => None | ds => Some (mk_plist ds None) end in
  let r := mk_redeemers (dedup_redeemers (map w_redeemer (all_witnesses b))) None in
  let d' := add_extra d (b_extra_datums b) in
  let fs := ws_fields (get_witness_set b) in
  assoc_field 5 fs = (if is_nil (rs_list r) then None else Some (redeemers_bytes r)) /\
  assoc_field 4 fs = (match d' with
                      | Some l => if is_nil (pl_elems l) then None else Some (serialize_as_set false (pl_deduplicated_clone l))
                      | None => None end).
Proof.
  intros d r d' fs. subst fs. rewrite get_witness_set_eq. fold d r d'. cbv zeta.
  set (s := dedup_scripts (witness_scripts (all_witnesses b))).
  set (w0 := set_native_scripts ws_new (combined_native b)).
  assert (Hw0 : ws_plutus_data w0 = None /\ ws_redeemers w0 = None).
  { subst w0. unfold set_native_scripts, ws_new. destruct (is_nil (combined_native b)); split; reflexivity. }
  destruct Hw0 as [Hw0d Hw0r].
  set (wit := if is_nil (all_witnesses b) then w0 else set_redeemers (set_plutus_scripts w0 s) r).
  assert (Hwit : ws_plutus_data wit = None /\
                 (match ws_redeemers wit with Some r0 => if is_nil (rs_list r0) then None else Some (redeemers_bytes r0) | None => None end)
                 = (if is_nil (rs_list r) then None else Some (redeemers_bytes r))).
  { subst wit. destruct (all_witnesses b) eqn:EW.
    - subst r. cbn [is_nil]. rewrite Hw0d, Hw0r. split; reflexivity.
    - cbn [is_nil].
      assert (Hr : is_nil (rs_list r) = false) by (subst r; cbn [rs_list]; rewrite dedup_redeemers_nil; reflexivity).
      unfold set_redeemers, set_plutus_scripts.
      destruct (is_nil s); cbn [ws_plutus_data ws_redeemers]; rewrite Hr, ?Hw0d; split; reflexivity. }
  destruct Hwit as [Hwd Hwr].
  subst d'. destruct (add_extra d (b_extra_datums b)) as [l|].
  - unfold set_plutus_data. destruct (is_nil (pl_elems l)) eqn:EN.
    + destruct (assoc_ws_fields wit) as [A5 A4]. rewrite A5, A4, Hwd, Hwr. split; reflexivity.
    + match goal with |- context [ws_fields ?w] => destruct (assoc_ws_fields w) as [A5 A4] end.
      rewrite A5, A4. cbn [ws_plutus_data ws_redeemers pl_deduplicated_clone pl_elems]. rewrite dedup_nil, EN, Hwr.
      split; reflexivity.
  - destruct (assoc_ws_fields wit) as [A5 A4]. rewrite A5, A4, Hwd, Hwr. split; reflexivity.
Qed.


Lemma datums_for_hash_builder_list eh d : builder_list d -> datums_for_hash_gen eh d = d.
Proof.
  destruct d as [l|]; [|reflexivity]. intros [_ Hne]. cbn [datums_for_hash_gen].
  destruct eh; [reflexivity|]. destruct (pl_elems l); [congruence|reflexivity].
Qed.

Lemma ok_inj {A} (x y : A) : @Ok A x = Ok y -> x = y.
Proof. congruence. Qed.

(* what calc_script_data_hash hashes, in terms of the bytes the witness-set serializer writes *)
Lemma preimage_builder cd eh r retained d :
  builder_list d ->
  script_data_preimage_gen cd eh r retained d =
  match rs_list r, d with
  | [], Some l => [160] ++ serialize_as_set false (pl_deduplicated_clone l) ++ [160]
  | _, _ => redeemers_bytes r ++ (match d with Some l => serialize_as_set false (pl_deduplicated_clone l) | None => [] end)
            ++ language_views_encoding retained
  end.
Proof.
  intros Hd. unfold script_data_preimage_gen. rewrite (datums_for_hash_builder_list eh d Hd).
  destruct d as [l|]; [|destruct (rs_list r); reflexivity].
  destruct Hd as [Hdef _]. unfold serialize_as_set.
  rewrite (builder_list_set_bytes cd set_len_counts_duplicates l Hdef). destruct (rs_list r); reflexivity.
Qed.

Lemma cm_get_empty l : cm_get cm_empty l = None.
Proof. destruct l; reflexivity. Qed.

Lemma keys_nil_iff (P Q : lang -> bool) :
  (forall l, P l = Q l) -> (len (filter P all_langs) =? 0) = is_nil (filter Q canonical_langs).
Proof.
  intros E. unfold all_langs, canonical_langs. cbn [filter]. rewrite (E V1), (E V2), (E V3).
  destruct (Q V1), (Q V2), (Q V3); reflexivity.
Qed.

Definition script_view (b : builder) :=
  (b_in b, b_col b, b_mi b, b_ce b, b_wd b, b_vo b, b_pr b, b_extra_datums b).

Lemma script_view_eq b b' : script_view b = script_view b' ->
  all_witnesses b = all_witnesses b' /\ b_extra_datums b = b_extra_datums b' /\
  get_witness_set b = get_witness_set b' /\ langs_used b = langs_used b' /\ has_plutus_inputs b = has_plutus_inputs b'.
Proof.
  unfold script_view. intros E. injection E as E1 E2 E3 E4 E5 E6 E7 E8.
  assert (A : all_witnesses b = all_witnesses b').
  { unfold all_witnesses, b_inputs, b_collateral, b_mint, b_certs, b_withdrawals, b_votes, b_proposals. congruence. }
  assert (C : combined_native b = combined_native b') by (unfold combined_native; congruence).
  repeat split; try assumption.
  - rewrite !get_witness_set_eq, A, C, E8. reflexivity.
  - unfold langs_used. rewrite A. reflexivity.
  - unfold has_plutus_inputs, b_inputs, b_mint, b_certs, b_withdrawals, b_votes, b_proposals. congruence.
Qed.

Lemma calc_preimage_eq c b cm :
  calc_preimage_gen c b cm =
  let d := match dedup_pdata (witness_datums (all_witnesses b)) with [] => None | ds => Some (mk_plist ds None) end in
  let r := mk_redeemers (dedup_redeemers (map w_redeemer (all_witnesses b))) None in
  let* retained := retain_or_fail cm (used_langs_gen c b) cm_empty in
  let d' := add_extra d (b_extra_datums b) in
  if is_some d' || negb (is_nil (rs_list r)) || negb (cm_len retained =? 0)
  then Ok (Some (script_data_preimage r retained d'))
  else Ok None.
Proof. reflexivity. Qed.

(* the heart of the property: whatever calc_script_data_hash hashes is the ledger's preimage over the witness set
   get_witness_set emits for the same builder state (two collection paths, two serialisation paths) *)
Theorem calc_preimage_spec_gen c b cm p :
  wf_builder b -> known_stale_lang_gen c b = false -> calc_preimage_gen c b cm = Ok p ->
  let fs := ws_fields (get_witness_set b) in
  match p with
  | Some pre =>
      has_script_items b = true /\
      pre = ledger_preimage (assoc_field 5 fs) (assoc_field 4 fs) (spec_views (langs_used b) cm) /\
      ledger_script_integrity H (assoc_field 5 fs) (assoc_field 4 fs) (langs_used b) cm = Some (H pre)
  | None =>
      has_script_items b = false /\
      ledger_script_integrity H (assoc_field 5 fs) (assoc_field 4 fs) (langs_used b) cm = None
  end.
Proof.
  intros Hwf Hstale Hcalc fs. subst fs.
  rewrite calc_preimage_eq in Hcalc. cbv zeta in Hcalc.
  pose proof (witness_fields b) as HF. cbv zeta in HF. destruct HF as [F5 F4].
  pose proof (collect_datums_builder_list (all_witnesses b)) as HBL. rewrite collect_parts in HBL. cbn [fst snd] in HBL.
  set (d := match dedup_pdata (witness_datums (all_witnesses b)) with [] => None | ds => Some (mk_plist ds None) end) in *.
  set (r := mk_redeemers (dedup_redeemers (map w_redeemer (all_witnesses b))) None) in *.
  destruct (retain_or_fail cm (used_langs_gen c b) cm_empty) as [retained| | |] eqn:ER; cbn [bind] in Hcalc; try discriminate.
  pose proof (retain_or_fail_get _ _ _ _ ER) as Hget.
  assert (Hcov : covers cm (used_langs_gen c b) = true) by (rewrite <- (retain_or_fail_ok_iff cm (used_langs_gen c b) cm_empty), ER; reflexivity).
  assert (Hget' : forall l, cm_get retained l = if mem_lang l (used_langs_gen c b) then cm_get cm l else None).
  { intros l. rewrite Hget, cm_get_empty. reflexivity. }
  assert (Hviews : language_views_encoding retained = spec_views (langs_used b) cm).
  { rewrite (views_retained cm (used_langs_gen c b) retained Hget' Hcov).
    apply spec_views_ext; [intros l; apply used_langs_mem, Hstale|reflexivity]. }
  assert (Hcov' : forall l, mem_lang l (used_langs_gen c b) = true -> is_some (cm_get cm l) = true).
  { intros l Hl. unfold covers in Hcov. rewrite forallb_forall in Hcov.
    unfold mem_lang in Hl. apply existsb_exists in Hl as [y [Hin Hy]]. apply lang_eqb_eq in Hy. subst y. exact (Hcov _ Hin). }
  assert (Hlen : (cm_len retained =? 0) = is_nil (langs_in_use (langs_used b))).
  { unfold cm_len, cm_keys, langs_in_use. apply keys_nil_iff. intros l. rewrite Hget', <- (used_langs_mem c b l Hstale).
    destruct (mem_lang l (used_langs_gen c b)) eqn:M; [apply Hcov', M|reflexivity]. }
  set (d' := add_extra d (b_extra_datums b)) in *.
  assert (HBL' : builder_list d') by (apply add_extra_builder_list; assumption).
  assert (Hitems : has_script_items b = negb (is_nil (rs_list r)) || is_some d').
  { unfold has_script_items. subst r d'. cbn [rs_list]. rewrite dedup_redeemers_nil.
    destruct (all_witnesses b) eqn:EW; cbn [map is_nil negb orb].
    - subst d. cbn [witness_datums flat_map dedup_pdata dedup_by]. destruct (b_extra_datums b); reflexivity.
    - reflexivity. }
  (* when there is no Plutus witness no language is in use *)
  assert (Hnolang : is_nil (rs_list r) = true -> langs_in_use (langs_used b) = [] /\ spec_views (langs_used b) cm = [160]).
  { subst r. cbn [rs_list]. rewrite dedup_redeemers_nil. unfold langs_used. destruct (all_witnesses b); [|discriminate].
    intros _. split; reflexivity. }
  unfold script_data_preimage in Hcalc. rewrite (preimage_builder _ _ r retained d' HBL') in Hcalc.
  unfold ledger_script_integrity. rewrite F5, F4.
  destruct (is_nil (rs_list r)) eqn:ENr.
  - (* no redeemers *)
    destruct (Hnolang eq_refl) as [HL HV]. rewrite HL, HV.
    destruct (rs_list r) eqn:Er; [|discriminate].
    rewrite Hlen, HL in Hcalc. cbn [is_nil negb orb] in Hcalc.
    destruct d' as [l|] eqn:Ed'.
    + destruct HBL' as [_ Hne]. cbn [is_some orb] in Hcalc. apply ok_inj in Hcalc; subst p.
      destruct (pl_elems l) eqn:El; [congruence|]. cbn [is_nil].
      rewrite Hitems. cbn [is_some is_none negb andb orb ledger_preimage]. repeat split; reflexivity.
    + cbn [is_some orb] in Hcalc. apply ok_inj in Hcalc; subst p. rewrite Hitems. split; reflexivity.
  - (* at least one redeemer *)
    destruct (rs_list r) eqn:Er; [discriminate|].
    cbn [negb orb] in Hcalc. rewrite orb_true_r in Hcalc. cbn [orb] in Hcalc. apply ok_inj in Hcalc; subst p.
    rewrite Hitems. cbn [negb orb is_none is_some andb].
    destruct d' as [l2|] eqn:Ed'.
    + destruct HBL' as [_ Hne]. destruct (pl_elems l2) eqn:El; [congruence|]. cbn [is_nil ledger_preimage].
      rewrite Hviews. repeat split; reflexivity.
    + cbn [ledger_preimage]. rewrite Hviews. repeat split; reflexivity.
Qed.

Theorem calc_preimage_spec b cm p :
  wf_builder b -> known_stale_lang b = false -> calc_preimage b cm = Ok p ->
  let fs := ws_fields (get_witness_set b) in
  match p with
  | Some pre =>
      has_script_items b = true /\
      pre = ledger_preimage (assoc_field 5 fs) (assoc_field 4 fs) (spec_views (langs_used b) cm) /\
      ledger_script_integrity H (assoc_field 5 fs) (assoc_field 4 fs) (langs_used b) cm = Some (H pre)
  | None =>
      has_script_items b = false /\
      ledger_script_integrity H (assoc_field 5 fs) (assoc_field 4 fs) (langs_used b) cm = None
  end.
Proof. exact (calc_preimage_spec_gen stale_langs_counted b cm p). Qed.

(* whatever calc_script_data_hash returns differs from the builder it was given only in the stored hash and its flag *)
Lemma set_hash_flag_eta b : set_hash_flag b (b_script_data_hash b) (b_hash_calculated b) = b.
Proof. destruct b; reflexivity. Qed.
Lemma calc_result clears b cm b' :
  calc_script_data_hash_gen H clears b cm = Ok b' -> exists h f, b' = set_hash_flag b h f.
Proof.
  unfold calc_script_data_hash_gen. destruct (calc_preimage b cm) as [[p|]| | |]; cbn [bind]; try discriminate.
  - intros E. injection E as <-. eauto.
  - destruct (clears && b_hash_calculated b); intros E; injection E as <-; [eauto|].
    exists (b_script_data_hash b), (b_hash_calculated b). symmetry. apply set_hash_flag_eta.
Qed.
Lemma calc_result_view clears b cm b' :
  calc_script_data_hash_gen H clears b cm = Ok b' ->
  script_view b' = script_view b /\ b_aux b' = b_aux b /\ b_collateral_len b' = b_collateral_len b.
Proof. intros E. destruct (calc_result _ _ _ _ E) as [h [f ->]]. repeat split; reflexivity. Qed.

Lemma calc_preimage_no_panic b cm : calc_preimage b cm = Err \/ exists p, calc_preimage b cm = Ok p.
Proof.
  unfold calc_preimage. rewrite calc_preimage_eq. cbv zeta.
  destruct (retain_or_fail_no_panic cm (used_langs_gen stale_langs_counted b) cm_empty) as [->|[r ->]]; cbn [bind]; [left; reflexivity|].
  right. match goal with |- context [if ?c then _ else _] => destruct c end; eexists; reflexivity.
Qed.

(* C09_same_bytes, state form: if the hash in the builder was computed by calc_script_data_hash on a state with the
   same script items, the body's script_data_hash is the ledger's script-integrity hash of the emitted witness set *)
Theorem same_bytes_gen (clears : bool) b0 cm b1 b t :
  wf_builder b0 -> known_stale_lang b0 = false ->
  calc_script_data_hash_gen H clears b0 cm = Ok b1 ->
  (has_script_items b0 = true \/ b_script_data_hash b0 = None \/ (clears = true /\ b_hash_calculated b0 = true)) ->
  script_view b = script_view b0 -> b_script_data_hash b = b_script_data_hash b1 ->
  build_tx H b = Ok t ->
  let fs := ws_fields (tx_witness_set t) in
  tx_script_data_hash t = ledger_script_integrity H (assoc_field 5 fs) (assoc_field 4 fs) (langs_used b) cm.
Proof.
  intros Hwf Hstale Hcalc Hprior Hview Hhash Hbuild fs. subst fs.
  destruct (script_view_eq _ _ Hview) as [_ [_ [Hws [Hlangs _]]]].
  assert (Ht : tx_script_data_hash t = b_script_data_hash b /\ tx_witness_set t = get_witness_set b).
  { unfold build_tx in Hbuild.
    destruct (has_plutus_inputs b && negb (is_some (b_script_data_hash b))); [discriminate|].
    destruct (has_plutus_inputs b && (b_collateral_len b =? 0)); [discriminate|].
    injection Hbuild as <-. split; reflexivity. }
  destruct Ht as [-> ->]. rewrite Hhash, Hws, Hlangs.
  unfold calc_script_data_hash_gen in Hcalc.
  destruct (calc_preimage b0 cm) as [p| | |] eqn:EP; cbn [bind] in Hcalc; try discriminate.
  pose proof (calc_preimage_spec b0 cm p Hwf Hstale EP) as HS. cbv zeta in HS.
  destruct p as [pre|].
  - injection Hcalc as <-. destruct HS as [_ [_ HS]]. rewrite HS. reflexivity.
  - destruct HS as [Hno HS]. rewrite HS.
    destruct (clears && b_hash_calculated b0) eqn:Ec; injection Hcalc as <-; [reflexivity|].
    destruct Hprior as [Hp|[Hp|[Hc Hf]]]; [congruence|exact Hp|]. rewrite Hc, Hf in Ec. discriminate.
Qed.

(* C09_same_bytes, state form: if the hash in the builder was computed by calc_script_data_hash on a state with the
   same script items, the body's script_data_hash is the ledger's script-integrity hash of the emitted witness set *)
Theorem same_bytes b0 cm b1 b t :
  wf_builder b0 -> known_stale_lang b0 = false ->
  calc_script_data_hash H b0 cm = Ok b1 ->
  (has_script_items b0 = true \/ b_script_data_hash b0 = None \/ (calc_clears_own_hash = true /\ b_hash_calculated b0 = true)) ->
  script_view b = script_view b0 -> b_script_data_hash b = b_script_data_hash b1 ->
  build_tx H b = Ok t ->
  let fs := ws_fields (tx_witness_set t) in
  tx_script_data_hash t = ledger_script_integrity H (assoc_field 5 fs) (assoc_field 4 fs) (langs_used b) cm.
Proof. exact (same_bytes_gen calc_clears_own_hash b0 cm b1 b t). Qed.

(* C09_aux: the body's auxiliary_data_hash is the hash of the auxiliary data the transaction carries, as serialised *)
Theorem aux_hash b t :
  build_tx H b = Ok t ->
  tx_aux_data_hash t = ledger_aux_hash H (match tx_aux t with Some a => Some (enc_aux a) | None => None end).
Proof.
  unfold build_tx. intros Hb.
  destruct (has_plutus_inputs b && negb (is_some (b_script_data_hash b))); [discriminate|].
  destruct (has_plutus_inputs b && (b_collateral_len b =? 0)); [discriminate|].
  injection Hb as <-. cbn [tx_aux_data_hash tx_aux]. destruct (b_aux b); reflexivity.
Qed.

(* ------------------------------------------------------------------ histories *)

Lemma run_app b ops1 ops2 : fst (run H b (ops1 ++ ops2)) = fst (run H (fst (run H b ops1)) ops2).
Proof.
  revert b. induction ops1 as [|o t IH]; intros b; [reflexivity|].
  cbn [app run]. destruct (step H b o) as [b' ok] eqn:Es.
  specialize (IH b'). destruct (run H b' (t ++ ops2)) as [bf fl] eqn:E1. destruct (run H b' t) as [bg fg] eqn:E2.
  cbn [fst] in *. exact IH.
Qed.

Lemma run_cons b o t : fst (run H b (o :: t)) = fst (run H (fst (step H b o)) t).
Proof. cbn [run]. destruct (step H b o) as [b' ok]. cbn [fst]. destruct (run H b' t). reflexivity. Qed.

Definition quiet (o : op) : Prop := touches_scripts o = false /\ touches_hash o = false.

Lemma quiet_step b o : quiet o ->
  script_view (fst (step H b o)) = script_view b /\ b_script_data_hash (fst (step H b o)) = b_script_data_hash b /\
  b_collateral_len (fst (step H b o)) = b_collateral_len b.
Proof. intros [Hs Hh]. destruct o; try discriminate; repeat split; reflexivity. Qed.

Lemma quiet_run post : Forall quiet post -> forall b,
  script_view (fst (run H b post)) = script_view b /\ b_script_data_hash (fst (run H b post)) = b_script_data_hash b.
Proof.
  induction 1 as [|o t Ho _ IH]; intros b; [split; reflexivity|].
  rewrite run_cons. destruct (quiet_step b o Ho) as [E1 [E2 _]]. destruct (IH (fst (step H b o))) as [E3 E4].
  split; congruence.
Qed.

Lemma last_calc_rev_split ro cm before :
  last_calc_rev ro = Some (cm, before) -> exists rpost, ro = rpost ++ OpCalc cm :: before /\ Forall quiet rpost.
Proof.
  induction ro as [|o t IH]; intros Hl; cbn [last_calc_rev] in Hl; [discriminate|].
  destruct o; try (cbn in Hl; discriminate);
    try (cbn [touches_scripts touches_hash orb] in Hl; destruct (IH Hl) as [rp [-> Hq]];
         eexists (_ :: rp); split; [reflexivity|constructor; [split; reflexivity|exact Hq]]).
  injection Hl as <- <-. exists []. split; [reflexivity|constructor].
Qed.

Lemma wf_step b o : wf_builder b -> wf_builder (fst (step H b o)).
Proof.
  unfold wf_builder. intros Hb. destruct o; cbn [step fst]; try exact Hb.
  - destruct k; exact Hb.
  - unfold add_extra_witness_datum. cbn [b_extra_datums]. destruct (b_extra_datums b) as [l|]; [destruct l|]; discriminate.
  - destruct (calc_script_data_hash H b cm) as [b'| | |] eqn:E; cbn [fst]; try exact Hb.
    destruct (calc_result _ _ _ _ E) as [h [f ->]]. exact Hb.
Qed.

Lemma wf_run ops : forall b, wf_builder b -> wf_builder (fst (run H b ops)).
Proof. induction ops as [|o t IH]; intros b Hb; [exact Hb|]. rewrite run_cons. apply IH, wf_step, Hb. Qed.

Lemma wf_new : wf_builder builder_new.
Proof. discriminate. Qed.

(* C09_same_bytes, history form: for EVERY sequence of builder operations in which calc_script_data_hash(cm) came
   after the last operation that touched a script item (and the hash was not replaced afterwards) *)
Theorem same_bytes_history ops cm before t :
  last_calc_rev (rev ops) = Some (cm, before) ->
  let b0 := fst (run H builder_new (rev before)) in
  let b := fst (run H builder_new ops) in
  is_ok (calc_script_data_hash H b0 cm) = true ->
  has_script_items b0 || is_none (b_script_data_hash b0) || (calc_clears_own_hash && b_hash_calculated b0) = true ->
  known_stale_lang b0 = false ->
  build_tx H b = Ok t ->
  let fs := ws_fields (tx_witness_set t) in
  tx_script_data_hash t = ledger_script_integrity H (assoc_field 5 fs) (assoc_field 4 fs) (langs_used b) cm.
Proof.
  intros Hl b0 b Hok Hprior Hstale Hbuild.
  destruct (last_calc_rev_split _ _ _ Hl) as [rpost [Hro Hq]].
  assert (Hops : ops = rev before ++ OpCalc cm :: rev rpost).
  { rewrite <- (rev_involutive ops), Hro, rev_app_distr. cbn [rev]. rewrite <- app_assoc. reflexivity. }
  destruct (calc_script_data_hash H b0 cm) as [b1| | |] eqn:Ec; try discriminate.
  assert (Hb : b = fst (run H b1 (rev rpost))).
  { subst b. rewrite Hops, run_app. fold b0. rewrite run_cons. cbn [step]. rewrite Ec. reflexivity. }
  assert (Hq' : Forall quiet (rev rpost)) by (apply Forall_rev, Hq).
  destruct (quiet_run _ Hq' b1) as [E1 E2]. rewrite <- Hb in E1, E2.
  assert (Hv1 : script_view b1 = script_view b0).
  { apply (calc_result_view _ _ _ _ Ec). }
  apply (same_bytes b0 cm b1 b t); try assumption.
  - apply wf_run, wf_new.
  - apply orb_true_iff in Hprior as [Hp|Hp]; [apply orb_true_iff in Hp as [Hp|Hp]|].
    + left. exact Hp.
    + right. left. unfold is_none in Hp. destruct (b_script_data_hash b0); [discriminate|reflexivity].
    + right. right. apply andb_true_iff in Hp. exact Hp.
  - congruence.
Qed.

(* a script item added AFTER calc_script_data_hash is outside the statement, and build_tx does not notice:
   the stored hash is the hash of a preimage different from the ledger's preimage of what is emitted *)
Definition stale_ops : list op :=
  [OpAddExtraDatum (mk_pdata 1 [1]); OpCalc cm_empty; OpAddExtraDatum (mk_pdata 2 [2])].

Theorem stale_hash_not_detected :
  exists t p_hashed p_ledger,
    build_tx H (fst (run H builder_new stale_ops)) = Ok t /\
    tx_script_data_hash t = Some (H p_hashed) /\
    (let fs := ws_fields (tx_witness_set t) in
     ledger_script_integrity H (assoc_field 5 fs) (assoc_field 4 fs) (langs_used (fst (run H builder_new stale_ops))) cm_empty
     = Some (H p_ledger)) /\
    p_hashed <> p_ledger /\
    last_calc_rev (rev stale_ops) = None.
Proof.
  eexists _, _, _. split; [reflexivity|]. split; [reflexivity|]. split; [reflexivity|]. split; [|reflexivity].
  vm_compute. discriminate.
Qed.

Lemma no_mem_nil u : (forall l, mem_lang l u = false) -> u = [].
Proof.
  destruct u as [|x xs]; [reflexivity|]. intros Hm. specialize (Hm x). cbn [mem_lang existsb] in Hm.
  rewrite lang_eqb_refl in Hm. discriminate.
Qed.

(* calc_script_data_hash on a builder without script items: nothing to hash.  As found (clears = false) nothing changes —
   a hash stored earlier stays, whoever stored it; repaired (clears = true) a hash that calc itself stored is removed,
   a hash given with set_script_data_hash stays *)
Lemma calc_noop clears b cm : has_script_items b = false -> wf_builder b -> known_stale_lang b = false ->
  calc_script_data_hash_gen H clears b cm =
  Ok (if clears && b_hash_calculated b then set_hash_flag b None false else b).
Proof.
  intros Hno Hwf Hstale. unfold calc_script_data_hash_gen.
  destruct (calc_preimage_no_panic b cm) as [E|[p E]].
  - exfalso. unfold calc_preimage in E. rewrite calc_preimage_eq in E. cbv zeta in E.
    unfold has_script_items in Hno. apply orb_false_iff in Hno as [Hw _].
    destruct (all_witnesses b) eqn:EW; [|discriminate].
    assert (Hu : used_langs_gen stale_langs_counted b = []).
    { apply no_mem_nil. intros l. rewrite (used_langs_mem _ b l Hstale). unfold langs_used. rewrite EW. reflexivity. }
    rewrite Hu in E. cbn [retain_or_fail bind] in E.
    match type of E with (if ?c then _ else _) = _ => destruct c end; discriminate.
  - rewrite E. cbn [bind]. pose proof (calc_preimage_spec b cm p Hwf Hstale E) as HS. cbv zeta in HS.
    destruct p as [pre|]; [destruct HS as [Hi _]; congruence|]. destruct (clears && b_hash_calculated b); reflexivity.
Qed.

Lemma calc_noop_keeps_hash b cm : has_script_items b = false -> wf_builder b -> known_stale_lang b = false ->
  calc_script_data_hash_gen H false b cm = Ok b.
Proof. intros Hno Hwf Hs. rewrite (calc_noop false b cm Hno Hwf Hs). reflexivity. Qed.

End Builder.

(* ================================================================== additions-only histories *)
(* The property quantifies over histories of ADDITIONS with the hash computed by the builder.  An operation is additive
   when it does not take script items away (a sub-builder is never replaced by one without Plutus witnesses once it had
   some) and does not install a hash by hand.  On such histories a stored hash always comes with script items, so the
   premise `has_script_items \/ hash = None` of same_bytes_history holds by itself: the no-op behaviour of
   calc_script_data_hash (calc_noop_keeps_hash) cannot leave a stale hash behind. *)
Section Additive.
Variable H : bytes -> bytes.

Definition sub_list (b : builder) (k : sub) : list witness :=
  match k with
  | SubInputs => b_inputs b | SubCollateral => b_collateral b | SubMint => b_mint b | SubCerts => b_certs b
  | SubWithdrawals => b_withdrawals b | SubVotes => b_votes b | SubProposals => b_proposals b
  end.

(* additive: a sub-builder that had Plutus witnesses is not replaced by one without, no stale witness (an input added
   again as a key input), no hash installed by hand *)
Definition additive_op (b : builder) (o : op) : bool :=
  match o with
  | OpSetSub k ss _ => (negb (is_nil (ss_witnesses ss)) || is_nil (sub_list b k)) && is_nil (ss_stale ss)
  | OpSetHash _ => false
  | _ => true
  end.

Fixpoint additive (b : builder) (ops : list op) : bool :=
  match ops with
  | [] => true
  | o :: t => additive_op b o && additive (fst (step H b o)) t
  end.

Definition raw_stale (b : builder) : list lang :=
  ss_stale (b_in b) ++ ss_stale (b_col b) ++ ss_stale (b_mi b) ++ ss_stale (b_ce b) ++ ss_stale (b_wd b) ++
  ss_stale (b_vo b) ++ ss_stale (b_pr b).
Definition hash_has_items (b : builder) : Prop :=
  raw_stale b = [] /\ (b_script_data_hash b = None \/ has_script_items b = true).

Lemma is_nil_app {A} (a b : list A) : is_nil (a ++ b) = is_nil a && is_nil b.
Proof. destruct a; reflexivity. Qed.

Lemma no_stale_known b : raw_stale b = [] -> known_stale_lang b = false.
Proof.
  unfold raw_stale. intros Hb. repeat (apply app_eq_nil in Hb as [? Hb]).
  unfold known_stale_lang, known_stale_lang_gen, stale_langs_gen, stale_in_gen, stale_sub_gen.
  repeat match goal with E : ss_stale _ = [] |- _ => rewrite E; clear E end.
  destruct stale_langs_counted; cbn [andb]; repeat (match goal with |- context [if ?c then _ else _] => destruct c end); reflexivity.
Qed.

Lemma has_items_set_sub b k ss n : negb (is_nil (ss_witnesses ss)) = true -> has_script_items (set_sub b k ss n) = true.
Proof.
  intros Hne. apply negb_true_iff in Hne. unfold has_script_items, all_witnesses, b_inputs, b_collateral, b_mint, b_certs, b_withdrawals, b_votes, b_proposals.
  destruct k; cbn [set_sub b_in b_col b_mi b_ce b_wd b_vo b_pr];
    rewrite !is_nil_app, Hne; cbn [andb]; rewrite ?andb_false_r; reflexivity.
Qed.

Lemma set_sub_same_items b k ss n : is_nil (ss_witnesses ss) = true -> is_nil (sub_list b k) = true ->
  has_script_items (set_sub b k ss n) = has_script_items b /\ b_script_data_hash (set_sub b k ss n) = b_script_data_hash b.
Proof.
  intros Hw Hl. destruct (ss_witnesses ss) eqn:Ew; [|discriminate].
  unfold has_script_items, all_witnesses, b_inputs, b_collateral, b_mint, b_certs, b_withdrawals, b_votes, b_proposals in *.
  destruct k; cbn [sub_list b_inputs b_collateral b_mint b_certs b_withdrawals b_votes b_proposals] in Hl;
    unfold b_inputs, b_collateral, b_mint, b_certs, b_withdrawals, b_votes, b_proposals in Hl;
    cbn [set_sub b_in b_col b_mi b_ce b_wd b_vo b_pr b_extra_datums b_script_data_hash];
    rewrite Ew; match type of Hl with is_nil ?l = true => destruct l; [|discriminate] end; split; reflexivity.
Qed.

Lemma stale_set_sub b k ss n : raw_stale b = [] -> is_nil (ss_stale ss) = true -> raw_stale (set_sub b k ss n) = [].
Proof.
  unfold raw_stale. intros Hb Hs. destruct (ss_stale ss) eqn:Es; [|discriminate].
  repeat (apply app_eq_nil in Hb as [? Hb]).
  destruct k; cbn [set_sub b_in b_col b_mi b_ce b_wd b_vo b_pr]; rewrite ?Es;
    repeat match goal with E : _ = [] |- _ => rewrite E; clear E end; reflexivity.
Qed.

Lemma additive_step b o : wf_builder b -> hash_has_items b -> additive_op b o = true -> hash_has_items (fst (step H b o)).
Proof.
  intros Hwf [Hst Hi] Ha. destruct o; cbn [additive_op] in Ha; cbn [step fst].
  - apply andb_true_iff in Ha as [Ha Hs]. split; [apply stale_set_sub; assumption|].
    apply orb_true_iff in Ha as [Hne|Hold].
    + right. apply has_items_set_sub, Hne.
    + destruct (is_nil (ss_witnesses ss)) eqn:Ew.
      * destruct (set_sub_same_items b k ss n Ew Hold) as [E1 E2]. rewrite E1, E2. exact Hi.
      * right. apply has_items_set_sub. rewrite Ew. reflexivity.
  - split; [exact Hst|]. right. unfold has_script_items, add_extra_witness_datum. cbn [b_extra_datums is_some]. apply orb_true_r.
  - unfold calc_script_data_hash, calc_script_data_hash_gen. destruct (calc_preimage b cm) as [p| | |] eqn:EP; cbn [bind fst]; try (split; assumption).
    pose proof (calc_preimage_spec H b cm p Hwf (no_stale_known b Hst) EP) as HS. cbv zeta in HS.
    destruct p as [pre|]; cbn [fst].
    + destruct HS as [Hitems _]. split; [exact Hst|]. right. exact Hitems.
    + destruct (calc_clears_own_hash && b_hash_calculated b); cbn [fst]; [|split; assumption].
      split; [exact Hst|]. left. reflexivity.
  - discriminate.
  - split; [exact Hst|]. left. reflexivity.
  - split; assumption.
  - split; assumption.
  - split; assumption.
  - split; assumption.
  - split; assumption.
Qed.

Lemma additive_run ops : forall b, wf_builder b -> hash_has_items b -> additive b ops = true ->
  hash_has_items (fst (run H b ops)).
Proof.
  induction ops as [|o t IH]; intros b Hwf Hi Ha; [exact Hi|].
  cbn [additive] in Ha. apply andb_true_iff in Ha as [Ho Ht]. rewrite run_cons.
  apply IH; [apply wf_step, Hwf|apply additive_step; assumption|exact Ht].
Qed.

Lemma additive_app b ops1 ops2 : additive b (ops1 ++ ops2) = true -> additive b ops1 = true.
Proof.
  revert b. induction ops1 as [|o t IH]; intros b Ha; [reflexivity|].
  cbn [app additive] in *. apply andb_true_iff in Ha as [Ho Ht]. rewrite Ho. exact (IH _ Ht).
Qed.

(* C09_same_bytes for additions-only histories: no premise about the earlier hash or stale witnesses is needed *)
Theorem same_bytes_additive ops cm before t :
  additive builder_new ops = true ->
  last_calc_rev (rev ops) = Some (cm, before) ->
  let b0 := fst (run H builder_new (rev before)) in
  let b := fst (run H builder_new ops) in
  is_ok (calc_script_data_hash H b0 cm) = true ->
  build_tx H b = Ok t ->
  let fs := ws_fields (tx_witness_set t) in
  tx_script_data_hash t = ledger_script_integrity H (assoc_field 5 fs) (assoc_field 4 fs) (langs_used b) cm.
Proof.
  intros Hadd Hl b0 b Hok Hbuild.
  destruct (last_calc_rev_split _ _ _ Hl) as [rpost [Hro _]].
  assert (Hops : ops = rev before ++ (OpCalc cm :: rev rpost)).
  { rewrite <- (rev_involutive ops), Hro, rev_app_distr. cbn [rev]. rewrite <- app_assoc. reflexivity. }
  rewrite Hops in Hadd. apply additive_app in Hadd.
  assert (Hi : hash_has_items b0).
  { apply additive_run; [apply wf_new|split; [reflexivity|left; reflexivity]|exact Hadd]. }
  destruct Hi as [Hst Hi].
  apply (same_bytes_history H ops cm before t Hl Hok); [|apply no_stale_known, Hst|exact Hbuild].
  unfold b0 in Hi. destruct Hi as [Hn|Hitems].
  - rewrite Hn. cbn [is_none is_some negb]. rewrite orb_true_r. reflexivity.
  - rewrite Hitems. reflexivity.
Qed.

End Additive.

(* the defect behind the class C09-stale-input-language: an input added with a PlutusV1 witness and then again as a key
   input leaves the witness registered; calc_script_data_hash hashes a PlutusV1 language view although the emitted
   transaction has no redeemer, no datum and no script — the ledger expects NO script_data_hash *)
Definition stale_lang_witness : witness := mk_witness (SrcRef V2) DatumNone (mk_redeemer 0 0 (mk_pdata 1 [1]) 10 20).
Definition stale_lang_cm : costmdls := mk_costmdls (Some [1; 2]%Z) (Some [3]%Z) None.
Definition stale_lang_ops : list op :=
  [OpSetSub SubCollateral (mk_sub [] [] []) 1; OpSetSub SubInputs (mk_sub [stale_lang_witness] [V1] []) 0; OpCalc stale_lang_cm].

Definition stale_lang_builder : builder :=
  set_sub (set_sub builder_new SubCollateral (mk_sub [] [] []) 1) SubInputs (mk_sub [stale_lang_witness] [V1] []) 0.

Theorem stale_lang_refuted :
  exists p_hashed p_ledger,
    (* with the languages taken from the registrations (the code as found) *)
    calc_preimage_gen true stale_lang_builder stale_lang_cm = Ok (Some p_hashed) /\
    (let fs := ws_fields (get_witness_set stale_lang_builder) in
     p_ledger = ledger_preimage (assoc_field 5 fs) (assoc_field 4 fs) (spec_views (langs_used stale_lang_builder) stale_lang_cm)) /\
    (* the hashed preimage carries a PlutusV1 view that the ledger's does not *)
    p_hashed <> p_ledger /\
    known_stale_lang_gen true stale_lang_builder = true /\
    (* with the languages taken from the collected witnesses (after the repair) the two coincide *)
    calc_preimage_gen false stale_lang_builder stale_lang_cm = Ok (Some p_ledger).
Proof.
  eexists _, _. split; [reflexivity|]. split; [reflexivity|]. split; [vm_compute; discriminate|]. split; reflexivity.
Qed.

(* the defect behind the class C09-noop-calc-keeps-hash: a Plutus spend, calc_script_data_hash (stores a hash), the same
   outpoint added again as a key input (the witness stays registered, nothing is returned any more),
   calc_script_data_hash again — finds nothing to hash and leaves the earlier hash; build_tx succeeds (a hash is there,
   has_plutus_inputs still sees the registered witness) and emits a body hash of a state that no longer exists, while
   the witness set has neither redeemers nor datums: the ledger expects NO script_data_hash *)
Definition noop_calc_ops : list op :=
  [OpSetSub SubCollateral (mk_sub [] [] []) 1; OpSetSub SubInputs (mk_sub [stale_lang_witness] [] []) 0; OpCalc stale_lang_cm;
   OpSetSub SubInputs (mk_sub [] [V2] []) 0; OpCalc stale_lang_cm].

(* the state before the last calc: the first calc stored a hash, then the inputs builder was replaced *)
Definition noop_state (H : bytes -> bytes) : builder := fst (run H builder_new (removelast noop_calc_ops)).
(* the same with a Plutus mint replaced by a native-only mint builder (no stale registration: build_tx does not insist on a hash) *)
Definition noop_mint_ops : list op :=
  [OpSetSub SubCollateral (mk_sub [] [] []) 1; OpSetSub SubMint (mk_sub [mk_witness (SrcRef V2) DatumNone (mk_redeemer 1 0 (mk_pdata 1 [1]) 10 20)] [] []) 0;
   OpCalc stale_lang_cm; OpSetSub SubMint (mk_sub [] [] [[130; 0; 1]]) 0].
Definition noop_mint_state (H : bytes -> bytes) : builder := fst (run H builder_new noop_mint_ops).

Theorem noop_calc_refuted (H : bytes -> bytes) :
  (* the code as found (clears = false): the last calc returns Ok and changes nothing; build_tx emits the earlier hash
     although the witness set has neither redeemers nor datums: the ledger expects NO script_data_hash *)
  (exists t p,
    noop_shape (noop_state H) = true /\
    calc_script_data_hash_gen H false (noop_state H) stale_lang_cm = Ok (noop_state H) /\
    build_tx H (noop_state H) = Ok t /\
    tx_script_data_hash t = Some (H p) /\
    (let fs := ws_fields (tx_witness_set t) in
     assoc_field 5 fs = None /\ assoc_field 4 fs = None /\
     ledger_script_integrity H (assoc_field 5 fs) (assoc_field 4 fs) (langs_used (noop_state H)) stale_lang_cm = None)) /\
  (* repaired (clears = true): the hash calc had stored is removed; with a stale registration build_tx then refuses
     ("Plutus inputs are present, but script data hash is not specified"), exactly as without the first calc;
     with a replaced mint builder it builds a transaction without script_data_hash *)
  (exists b', calc_script_data_hash_gen H true (noop_state H) stale_lang_cm = Ok b' /\ b_script_data_hash b' = None /\ build_tx H b' = Err) /\
  (exists b' t, noop_shape (noop_mint_state H) = true /\
     calc_script_data_hash_gen H true (noop_mint_state H) stale_lang_cm = Ok b' /\ build_tx H b' = Ok t /\ tx_script_data_hash t = None) /\
  additive H builder_new noop_calc_ops = false.
Proof.
  split; [eexists _, _; repeat split; reflexivity|].
  split; [eexists; repeat split; reflexivity|].
  split; [eexists _, _; repeat split; reflexivity|reflexivity].
Qed.

(* ================================================================== auxiliary data: histories and wire forms *)
Section AuxHistory.
Variable H : bytes -> bytes.

(* the auxiliary data a history leaves in the builder: the fold of aux_step, whatever else happens in between *)
Definition aux_of_history (ops : list op) : option aux_data := fold_left aux_step ops None.

Lemma step_aux b o : b_aux (fst (step H b o)) = aux_step (b_aux b) o.
Proof.
  destruct o; cbn [step fst aux_step]; try reflexivity.
  - destruct k; reflexivity.
  - destruct (calc_script_data_hash H b cm) as [b'| | |] eqn:E; cbn [fst]; try reflexivity.
    apply (calc_result_view H _ _ _ _ E).
Qed.

Lemma run_aux ops : forall b, b_aux (fst (run H b ops)) = fold_left aux_step ops (b_aux b).
Proof.
  induction ops as [|o t IH]; intros b; [reflexivity|].
  rewrite run_cons, IH, step_aux. reflexivity.
Qed.

(* C09_aux, history form: for EVERY history of builder operations (auxiliary-data setters in any number and order,
   interleaved with anything else) the body's auxiliary_data_hash is the hash of the auxiliary data the transaction
   carries, as serialised, and that is the auxiliary data the last setters left *)
Theorem aux_history ops t :
  build_tx H (fst (run H builder_new ops)) = Ok t ->
  tx_aux t = aux_of_history ops /\
  tx_aux_data_hash t = ledger_aux_hash H (match aux_of_history ops with Some a => Some (enc_aux a) | None => None end).
Proof.
  intros Hb. pose proof (aux_hash H _ _ Hb) as Hh.
  assert (Ha : tx_aux t = aux_of_history ops).
  { unfold build_tx in Hb.
    destruct (has_plutus_inputs _ && negb (is_some _)); [discriminate|].
    destruct (has_plutus_inputs _ && (_ =? 0)); [discriminate|].
    injection Hb as <-. cbn [tx_aux]. rewrite run_aux. reflexivity. }
  split; [exact Ha|]. rewrite <- Ha. exact Hh.
Qed.

(* re-setting the same content with the other format preference changes the emitted bytes (Shelley map vs tag 259):
   the hash must follow *)
Lemma map_head_first n : exists b r, encode_head 5 n = b :: r /\ b < 192.
Proof.
  unfold encode_head.
  destruct (n <? 24) eqn:E1; [exists (5 * 32 + n), []; split; [reflexivity|lia]|].
  destruct (n <? 256); [eexists _, _; split; [reflexivity|lia]|].
  destruct (n <? 65536); [eexists _, _; split; [reflexivity|lia]|].
  destruct (n <? 4294967296); eexists _, _; (split; [reflexivity|lia]).
Qed.

Lemma format_flag_changes_bytes md :
  enc_aux (mk_aux (Some md) None None false) <> enc_aux (mk_aux (Some md) None None true).
Proof.
  cbn [enc_aux negb a_prefer_alonzo a_metadata a_plutus a_native]. unfold enc_metadata.
  destruct (map_head_first (len md)) as [b [r [E Hb]]]. rewrite E.
  change (encode_head 6 259) with [217; 1; 3]. cbn [app]. intros Heq. injection Heq as Hb' _. lia.
Qed.

(* decoding: what comes back from a wire form re-serialises to the same bytes when the form is one the serializer
   itself produces (Plutus lists: a V1 list present whenever any is, later lists non-empty) *)
Definition nonempty_or_absent (o : option (list bytes)) : bool := match o with Some [] => false | _ => true end.
Definition wire_canonical (w : aux_wire) : bool :=
  match w with
  | WAlonzo _ _ v1 v2 v3 =>
      (is_some v1 || (negb (is_some v2) && negb (is_some v3))) && nonempty_or_absent v2 && nonempty_or_absent v3
  | _ => true
  end.

Lemma scripts_view_map_same v l : scripts_view v (map (mk_script v) l) = map (mk_script v) l.
Proof. induction l as [|x t IH]; [reflexivity|]. cbn [map scripts_view filter sc_lang]. rewrite lang_eqb_refl. f_equal. exact IH. Qed.
Lemma scripts_view_map_other v v' l : lang_eqb v' v = false -> scripts_view v (map (mk_script v') l) = [].
Proof. intros Hv. induction l as [|x t IH]; [reflexivity|]. cbn [map scripts_view filter sc_lang]. rewrite Hv. exact IH. Qed.
Lemma scripts_view_app v a b : scripts_view v (a ++ b) = scripts_view v a ++ scripts_view v b.
Proof. apply filter_app. Qed.
Lemma has_version_view v l : has_version v l = negb (is_nil (scripts_view v l)).
Proof.
  induction l as [|x t IH]; [reflexivity|]. cbn [has_version existsb scripts_view filter].
  destruct (lang_eqb (sc_lang x) v); [reflexivity|]. exact IH.
Qed.
Lemma enc_scripts_by_version_map v l : enc_scripts_by_version v (map (mk_script v) l) = enc_script_array l.
Proof.
  unfold enc_scripts_by_version, enc_script_array. rewrite scripts_view_map_same. unfold len. rewrite map_length.
  f_equal. induction l as [|x t IH]; [reflexivity|]. cbn [map flat_map]. rewrite IH. reflexivity.
Qed.

Definition ol (o : option (list bytes)) : list bytes := match o with Some l => l | None => [] end.
Definition merged3 (l1 l2 l3 : list bytes) : list script :=
  map (mk_script V1) l1 ++ map (mk_script V2) l2 ++ map (mk_script V3) l3.

Lemma merged3_view l1 l2 l3 :
  scripts_view V1 (merged3 l1 l2 l3) = map (mk_script V1) l1 /\
  scripts_view V2 (merged3 l1 l2 l3) = map (mk_script V2) l2 /\
  scripts_view V3 (merged3 l1 l2 l3) = map (mk_script V3) l3.
Proof.
  unfold merged3. rewrite !scripts_view_app, !scripts_view_map_same.
  rewrite !(scripts_view_map_other V1 V2), !(scripts_view_map_other V1 V3), !(scripts_view_map_other V2 V1),
          !(scripts_view_map_other V2 V3), !(scripts_view_map_other V3 V1), !(scripts_view_map_other V3 V2) by reflexivity.
  rewrite !app_nil_r. repeat split; reflexivity.
Qed.

Lemma merged3_enc l1 l2 l3 :
  let L := merged3 l1 l2 l3 in
  enc_scripts_by_version V1 L = enc_script_array l1 /\ enc_scripts_by_version V2 L = enc_script_array l2 /\
  enc_scripts_by_version V3 L = enc_script_array l3 /\
  has_version V2 L = negb (is_nil l2) /\ has_version V3 L = negb (is_nil l3).
Proof.
  cbv zeta. destruct (merged3_view l1 l2 l3) as [E1 [E2 E3]].
  rewrite !has_version_view, E2, E3.
  repeat split.
  - rewrite <- (enc_scripts_by_version_map V1 l1). unfold enc_scripts_by_version. rewrite E1, scripts_view_map_same. reflexivity.
  - rewrite <- (enc_scripts_by_version_map V2 l2). unfold enc_scripts_by_version. rewrite E2, scripts_view_map_same. reflexivity.
  - rewrite <- (enc_scripts_by_version_map V3 l3). unfold enc_scripts_by_version. rewrite E3, scripts_view_map_same. reflexivity.
  - destruct l2; reflexivity.
  - destruct l3; reflexivity.
Qed.

Lemma merge_opt_merged3 v1 v2 v3 :
  merge_opt (merge_opt (scripts_of V1 v1) (scripts_of V2 v2)) (scripts_of V3 v3) =
  if is_some v1 || is_some v2 || is_some v3 then Some (merged3 (ol v1) (ol v2) (ol v3)) else None.
Proof.
  unfold merged3. destruct v1 as [l1|], v2 as [l2|], v3 as [l3|]; cbn [scripts_of merge_opt is_some orb ol map app];
    rewrite ?app_nil_r, <- ?app_assoc; reflexivity.
Qed.

(* the serializer reproduces a canonical wire form exactly (so set_auxiliary_data(from_bytes(b)) emits b and hashes b) *)
Theorem wire_reencode w a : decode_wire w = Ok a -> wire_canonical w = true -> enc_aux a = enc_wire w.
Proof.
  destruct w as [md|md ns|md ns v1 v2 v3]; cbn [decode_wire wire_canonical].
  - destruct (labels_nodup [] md); [|discriminate]. intros Ha _. injection Ha as <-. reflexivity.
  - destruct (labels_nodup [] md); [|discriminate]. intros Ha _. injection Ha as <-. reflexivity.
  - destruct (match md with Some m => labels_nodup [] m | None => true end); [|discriminate].
    intros Ha Hc. injection Ha as <-. rewrite merge_opt_merged3.
    apply andb_true_iff in Hc as [Hc H3]. apply andb_true_iff in Hc as [H1 H2].
    destruct (merged3_enc (ol v1) (ol v2) (ol v3)) as [E1 [E2 [E3 [V2' V3']]]].
    assert (Henc : forall x (n : option bytes) p, enc_aux (mk_aux x n p true) =
              encode_head 6 259 ++ encode_head 5 (opt64 x + opt64 n +
                 match p with Some l => 1 + b2n (has_version V2 l) + b2n (has_version V3 l) | None => 0 end) ++
              (match x with Some m => [0] ++ enc_metadata m | None => [] end) ++
              (match n with Some y => [1] ++ y | None => [] end) ++
              (match p with
               | Some l => [2] ++ enc_scripts_by_version V1 l ++
                           (if has_version V2 l then [3] ++ enc_scripts_by_version V2 l else []) ++
                           (if has_version V3 l then [4] ++ enc_scripts_by_version V3 l else [])
               | None => [] end)).
    { intros x n p. unfold enc_aux. cbn [negb a_prefer_alonzo a_metadata a_native a_plutus]. destruct x; reflexivity. }
    rewrite Henc. cbn [enc_wire].
    destruct v1 as [l1|]; cbn [is_some orb negb andb] in *.
    + rewrite E1, E2, E3, V2', V3'. cbn [ol] in *.
      destruct v2 as [[|x2 t2]|]; try discriminate; destruct v3 as [[|x3 t3]|]; try discriminate;
        cbn [ol is_nil negb b2n opt64 is_some app]; rewrite ?app_nil_r;
        rewrite ?N.add_0_r, ?N.add_assoc; reflexivity.
    + destruct v2; [discriminate|]. destruct v3; [discriminate|]. cbn [is_some orb opt64]. rewrite !app_nil_r.
      rewrite ?N.add_0_r, ?N.add_assoc; reflexivity.
Qed.

End AuxHistory.
