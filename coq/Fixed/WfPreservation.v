(* Well-formedness of the witness set written back is preserved by every operation except set_witness_set:
   if the kept slices of a decoded witness set are well-formed items and the input is a string of bytes (< 256)
   shorter than 2^64, then after any such operation list (whose added / signed witnesses are byte strings) the
   written witness set is a well-formed definite map. *)
From CSL Require Import Base.Prelude Cbor.Head Cbor.HeadProofs Cbor.Item Cbor.ItemProofs
  Fixed.CborEv Fixed.CborEvProofs Fixed.DatumBytes Fixed.DatumBytesProofs Fixed.FixedTx Fixed.FixedTxProofs.
Local Open Scope N_scope.

(* inputs: byte strings of representable length *)
Definition good (bs : bytes) : Prop := bytes_ok bs /\ N.of_nat (length bs) < two64.

Lemma good_sfx bs r : sfx bs r -> good bs -> good r.
Proof.
  intros [pre ->] [Hb Hl]. split.
  - unfold bytes_ok in *. apply Forall_app in Hb. tauto.
  - rewrite app_length in Hl. lia.
Qed.

(* values cut out of an input *)
Definition carved (b bs : bytes) : Prop := incl b bs /\ (length b <= length bs)%nat.

Lemma carved_chunk_ok b bs : good bs -> carved b bs -> chunk_ok b = true.
Proof.
  intros [Hb Hl] [Hi Hlen]. unfold chunk_ok. apply andb_true_iff. split.
  - apply bytes_ok_okb. unfold bytes_ok in *. rewrite Forall_forall in *. intros x Hx. apply Hb, Hi, Hx.
  - apply N.ltb_lt. unfold len. lia.
Qed.

Lemma carved_sfx b r bs : sfx bs r -> carved b r -> carved b bs.
Proof.
  intros [pre ->] [Hi Hl]. split.
  - intros x Hx. apply in_or_app. right. apply Hi, Hx.
  - rewrite app_length. lia.
Qed.

Lemma chunks_carved : forall k bs cs r, parse_until_break (parse_chunk 2) k bs = Ok (cs, r) ->
  incl (concat cs) bs /\ (length (concat cs) + length r <= length bs)%nat.
Proof.
  induction k as [|k IH]; intros bs cs r H; destruct bs as [|b t]; cbn [parse_until_break] in H; try discriminate.
  - destruct (b =? 255); [|discriminate]. injection H as <- <-. split; [intros x []|cbn [concat length]; lia].
  - destruct (b =? 255).
    + injection H as <- <-. split; [intros x []|cbn [concat length]; lia].
    + apply bind_ok in H as [[c r1] [H1 H]]. apply bind_ok in H as [[cs' r2] [H2 H]]. injection H as <- <-.
      unfold parse_chunk in H1. destruct (decode_head (b :: t)) as [[[m' [n|]] r0]|] eqn:Hd; try discriminate.
      destruct (m' =? 2); [|discriminate]. apply decode_head_suffix in Hd as [pre [Hd _]].
      apply take_bytes_ok in H1 as [-> _]. apply IH in H2 as [Hi Hl]. rewrite Hd. cbn [concat]. split.
      * intros x Hx. apply in_app_or in Hx as [Hx|Hx]; apply in_or_app; right; apply in_or_app; [left; exact Hx|right; apply Hi, Hx].
      * rewrite !app_length in *. lia.
Qed.

Lemma rd_bytes_carved bs b r : rd_bytes bs = Ok (b, r) -> carved b bs /\ sfx bs r.
Proof.
  intros H. split; [|apply ssfx_sfx; apply rd_bytes_suffix in H; exact H].
  unfold rd_bytes in H. apply bind_ok in H as [[a r0] [H0 H]].
  pose proof (rd_head_suffix 2 _ _ _ H0) as [pre [-> _]]. destruct a as [n|].
  - apply take_bytes_ok in H as [-> _]. split.
    + intros x Hx. apply in_or_app. right. apply in_or_app. left. exact Hx.
    + rewrite !app_length. lia.
  - apply bind_ok in H as [[cs r1] [H1 H]]. injection H as <- <-. apply chunks_carved in H1 as [Hi Hl]. split.
    + intros x Hx. apply in_or_app. right. apply Hi, Hx.
    + rewrite app_length. lia.
Qed.

Lemma dec_vkw_ok bs x r : good bs -> dec_vkw bs = Ok (x, r) -> vkw_ok x = true.
Proof.
  intros Hg H. unfold dec_vkw in H.
  apply bind_ok in H as [[ln r0] [H0 H]]. apply bind_ok in H as [[vk r1] [H1 H]].
  destruct (negb (blen vk =? 32)); [discriminate|].
  apply bind_ok in H as [[sg r2] [H2 H]]. destruct (negb (blen sg =? 64)); [discriminate|].
  apply rd_head_suffix in H0. apply ssfx_sfx in H0.
  apply rd_bytes_carved in H1 as [C1 S1]. apply rd_bytes_carved in H2 as [C2 S2].
  assert (E : x = (vk, sg)).
  { destruct ln as [n|]; [destruct (n =? 2); [injection H as <- _; reflexivity|discriminate]|].
    apply bind_ok in H as [r3 [_ H]]. injection H as <- _. reflexivity. }
  subst x. unfold vkw_ok. cbn [fst snd].
  rewrite (carved_chunk_ok vk bs Hg (carved_sfx _ _ _ H0 C1)).
  rewrite (carved_chunk_ok sg bs Hg (carved_sfx _ _ _ (sfx_trans _ _ _ H0 S1) C2)). reflexivity.
Qed.

Lemma dec_bw_ok bs x r : good bs -> dec_bw bs = Ok (x, r) -> bw_ok x = true.
Proof.
  intros Hg H. unfold dec_bw in H.
  apply bind_ok in H as [[ln r0] [H0 H]]. apply bind_ok in H as [u [_ H]]. apply bind_ok in H as [[vk r1] [H1 H]].
  destruct (negb (blen vk =? 32)); [discriminate|].
  apply bind_ok in H as [[sg r2] [H2 H]]. destruct (negb (blen sg =? 64)); [discriminate|].
  apply bind_ok in H as [[cc r3] [H3 H]]. apply bind_ok in H as [[at_ r4] [H4 H]].
  apply bind_ok in H as [r5 [_ H]]. injection H as <- _.
  apply rd_head_suffix in H0. apply ssfx_sfx in H0.
  apply rd_bytes_carved in H1 as [C1 S1]. apply rd_bytes_carved in H2 as [C2 S2].
  apply rd_bytes_carved in H3 as [C3 S3]. apply rd_bytes_carved in H4 as [C4 S4].
  pose proof (sfx_trans _ _ _ H0 S1) as T1. pose proof (sfx_trans _ _ _ T1 S2) as T2. pose proof (sfx_trans _ _ _ T2 S3) as T3.
  unfold bw_ok.
  rewrite (carved_chunk_ok vk bs Hg (carved_sfx _ _ _ H0 C1)), (carved_chunk_ok sg bs Hg (carved_sfx _ _ _ T1 C2)),
          (carved_chunk_ok cc bs Hg (carved_sfx _ _ _ T2 C3)), (carved_chunk_ok at_ bs Hg (carved_sfx _ _ _ T3 C4)).
  reflexivity.
Qed.

(* the element loop: a property of the elements that holds wherever the input is good; and the elements are
   at most as many as the bytes *)
Lemma dec_elems_good {A} (p : parser A) (P : A -> Prop) : psuffix p ->
  (forall bs x r, good bs -> p bs = Ok (x, r) -> P x) ->
  forall fuel ln cnt bs xs r, good bs -> dec_elems p fuel ln cnt bs = Ok (xs, r) ->
  Forall P xs /\ (length xs + length r <= length bs)%nat.
Proof.
  intros Hs Hp. induction fuel as [|f IH]; intros ln cnt bs xs r Hg E; cbn [dec_elems] in E; [discriminate|].
  destruct (match ln with Arg n => cnt <? n | Indef => true end).
  - apply bind_ok in E as [t [_ E]]. destruct (t =? 7).
    + apply bind_ok in E as [[s r1] [E1 E]]. destruct (is_break s); [|discriminate].
      destruct ln; [discriminate|]. injection E as <- <-. split; [constructor|].
      apply rd_special_suffix in E1. apply ssfx_length in E1. cbn [length]. lia.
    + apply bind_ok in E as [[x r1] [E1 E]]. apply bind_ok in E as [[xs' r2] [E2 E]]. injection E as <- <-.
      pose proof (Hs _ _ _ E1) as S1. apply (IH _ _ _ _ _ (good_sfx _ _ (ssfx_sfx _ _ S1) Hg)) in E2 as [HF HL].
      split; [constructor; [eapply Hp; [exact Hg|exact E1]|exact HF]|].
      apply ssfx_length in S1. cbn [length]. lia.
  - injection E as <- <-. split; [constructor|cbn [length]; lia].
Qed.

Lemma dec_set_good {A} (p : parser A) (P : A -> Prop) dbl : psuffix p ->
  (forall bs x r, good bs -> p bs = Ok (x, r) -> P x) ->
  forall bs t d xs r, good bs -> dec_set p dbl bs = Ok ((t, d, xs), r) ->
  Forall P xs /\ (length xs <= length bs)%nat.
Proof.
  intros Hs Hp bs t d xs r Hg E. unfold dec_set in E.
  apply bind_ok in E as [[t0 r0] [E0 E]]. apply bind_ok in E as [[t1 r0'] [E0' E]].
  apply bind_ok in E as [[ln r1] [E1 E]]. apply bind_ok in E as [[xs' r2] [E2 E]]. injection E as <- <- <- <-.
  apply skip_set_tag_suffix in E0.
  assert (S1 : sfx r0 r0').
  { destruct dbl; [apply skip_set_tag_suffix in E0'; exact E0'|injection E0' as <- <-; apply sfx_refl]. }
  apply rd_head_suffix in E1. apply ssfx_sfx in E1.
  pose proof (sfx_trans _ _ _ (sfx_trans _ _ _ E0 S1) E1) as T.
  apply (dec_elems_good p P Hs Hp _ _ _ _ _ _ (good_sfx _ _ T Hg)) in E2 as [HF HL].
  split; [exact HF|]. apply sfx_length in T. lia.
Qed.

Lemma forallb_dedup_add {A} (eqb : A -> A -> bool) (f : A -> bool) l x :
  forallb f l = true -> f x = true -> forallb f (dedup_add eqb l x) = true.
Proof.
  intros Hl Hx. unfold dedup_add. destruct (existsb (eqb x) l); [exact Hl|].
  rewrite forallb_app, Hl. cbn [forallb]. rewrite Hx. reflexivity.
Qed.
Lemma length_dedup_add {A} (eqb : A -> A -> bool) l x : (length (dedup_add eqb l x) <= S (length l))%nat.
Proof. unfold dedup_add. destruct (existsb (eqb x) l); [lia|]. rewrite app_length. cbn [length]. lia. Qed.

Lemma dedup_list_ok {A} (eqb : A -> A -> bool) (f : A -> bool) l :
  forallb f l = true -> forallb f (dedup_list eqb l) = true /\ (length (dedup_list eqb l) <= length l)%nat.
Proof.
  unfold dedup_list. intros Hl.
  assert (G : forall acc, forallb f acc = true ->
              forallb f (fold_left (dedup_add eqb) l acc) = true /\
              (length (fold_left (dedup_add eqb) l acc) <= length acc + length l)%nat).
  { induction l as [|x t IH]; intros acc Ha; cbn [fold_left length]; [split; [exact Ha|lia]|].
    cbn [forallb] in Hl. apply andb_true_iff in Hl as [Hx Ht].
    destruct (IH Ht (dedup_add eqb acc x) (forallb_dedup_add eqb f acc x Ha Hx)) as [A1 A2].
    split; [exact A1|]. pose proof (length_dedup_add eqb acc x). lia. }
  destruct (G [] eq_refl) as [A1 A2]. split; [exact A1|cbn [length] in A2; lia].
Qed.

(* ---------------------------------------------------------------- the invariant *)
(* every kept slice is a well-formed item; the witnesses of the two signature sets are byte strings; the sets
   hold at most n witnesses *)
Definition field_ok (n : nat) (f : fstate) : Prop :=
  (forall raw, f_raw f = Some raw -> item_wf raw = true) /\
  match f_parsed f with
  | PVk _ ws => forallb vkw_ok ws = true /\ (length ws <= n)%nat
  | PBw _ ws => forallb bw_ok ws = true /\ (length ws <= n)%nat
  | PGen _ _ => True
  end.
Definition wits_ok (n : nat) (w : wits) : Prop :=
  forall k f, lookup k (w_fields w) = Some f -> field_ok n f.

Lemma field_ok_mono n m f : (n <= m)%nat -> field_ok n f -> field_ok m f.
Proof.
  intros Hle [H1 H2]. split; [exact H1|]. destruct (f_parsed f); try exact I; destruct H2 as [A B]; split; try exact A; lia.
Qed.

Theorem wits_ok_wf n w : wits_ok n w -> N.of_nat n < two64 -> wits_wf w.
Proof.
  intros Hw Hn k v E.
  destruct (N.leb_spec k 7) as [Hk|Hk].
  2:{ unfold entries in E. rewrite entries_by_lookup in E.
      assert (X : is_key k = false).
      { destruct (is_key k) eqn:Ek; [apply is_key_le in Ek; lia|reflexivity]. }
      unfold is_key in X. rewrite X in E. discriminate. }
  rewrite (entries_lookup _ _ Hk) in E.
  destruct (lookup k (w_fields w)) as [f|] eqn:El; [|discriminate].
  destruct (Hw _ _ El) as [Hraw Hp]. unfold written in E.
  destruct (f_raw f) as [raw|] eqn:Er.
  - injection E as <-. apply Hraw. reflexivity.
  - destruct (f_parsed f) as [t ws|t ws|t c]; try discriminate.
    + destruct (fp_empty (PVk t ws)); [discriminate|]. injection E as <-. destruct Hp as [A B].
      apply enc_vkeys_wf; [exact A|unfold len; lia].
    + destruct (fp_empty (PBw t ws)); [discriminate|]. injection E as <-. destruct Hp as [A B].
      apply enc_boots_wf; [exact A|unfold len; lia].
Qed.

(* a freshly decoded witness set whose kept slices are well-formed items *)
Definition raws_wf (w : wits) : Prop :=
  forall k f raw, lookup k (w_fields w) = Some f -> f_raw f = Some raw -> item_wf raw = true.

Lemma dec_field_parsed_ok k bs p r : good bs -> dec_field k bs = Ok (p, r) ->
  match p with
  | PVk _ ws => forallb vkw_ok ws = true /\ (length ws <= length bs)%nat
  | PBw _ ws => forallb bw_ok ws = true /\ (length ws <= length bs)%nat
  | PGen _ _ => True
  end.
Proof.
  intros Hg H. unfold dec_field in H.
  destruct (k =? 0).
  { apply bind_ok in H as [[[[t d] ws] r0] [H0 H]]. injection H as <- <-.
    apply (dec_set_good dec_vkw (fun x => vkw_ok x = true) true dec_vkw_suffix
             (fun bs x r Hg E => dec_vkw_ok bs x r Hg E) _ _ _ _ _ Hg) in H0 as [HF HL].
    rewrite Forall_forall in HF. assert (HF' : forallb vkw_ok ws = true) by (apply forallb_forall; exact HF).
    destruct (dedup_list_ok vkw_eqb vkw_ok ws HF') as [A B]. split; [exact A|lia]. }
  destruct (k =? 2).
  { apply bind_ok in H as [[[[t d] ws] r0] [H0 H]]. injection H as <- <-.
    apply (dec_set_good dec_bw (fun x => bw_ok x = true) false dec_bw_suffix
             (fun bs x r Hg E => dec_bw_ok bs x r Hg E) _ _ _ _ _ Hg) in H0 as [HF HL].
    rewrite Forall_forall in HF. assert (HF' : forallb bw_ok ws = true) by (apply forallb_forall; exact HF).
    destruct (dedup_list_ok bw_eqb bw_ok ws HF') as [A B]. split; [exact A|lia]. }
  destruct (k =? 1).
  { apply bind_ok in H as [[[[t d] xs] r0] [_ H]]. injection H as <- _. exact I. }
  destruct ((k =? 3) || (k =? 6) || (k =? 7)).
  { apply bind_ok in H as [[[[t d] xs] r0] [_ H]]. injection H as <- _. exact I. }
  destruct (k =? 4).
  { apply bind_ok in H as [[[[t d] xs] r0] [_ H]]. injection H as <- _. exact I. }
  destruct (k =? 5); [|discriminate]. unfold dec_redeemers in H. apply bind_ok in H as [t [_ H]].
  destruct (t =? 4).
  - apply bind_ok in H as [[ln r0] [_ H]]. apply bind_ok in H as [[xs r1] [_ H]]. injection H as <- _. exact I.
  - destruct (t =? 5); [|discriminate].
    apply bind_ok in H as [[ln r0] [_ H]]. apply bind_ok in H as [[xs r1] [_ H]]. injection H as <- _. exact I.
Qed.

Theorem decode_wits_ok bs w rest : good bs -> decode_wits bs = Ok (w, rest) -> raws_wf w ->
  wits_ok (length bs) w.
Proof.
  intros Hg E Hr k f El. split; [intros raw Er; apply (Hr _ _ _ El Er)|].
  apply decode_wits_slices in E as [_ [_ Hs]]. destruct (Hs _ _ El) as [raw [pre [kb [post [_ [_ [Ebs [_ Ef]]]]]]]].
  assert (S : sfx bs (raw ++ post)) by (exists (pre ++ kb); rewrite Ebs, <- app_assoc; reflexivity).
  pose proof (dec_field_parsed_ok k _ _ _ (good_sfx _ _ S Hg) Ef) as P. apply sfx_length in S.
  destruct (f_parsed f); try exact I; destruct P as [A B]; split; try exact A; lia.
Qed.

(* ---------------------------------------------------------------- operations *)
Lemma lookup_update {A} k k' (v : A) l :
  lookup k (update k' v l) = if k =? k' then Some v else lookup k l.
Proof.
  destruct (k =? k') eqn:E.
  - apply N.eqb_eq in E. subst k'. apply lookup_update_same.
  - apply lookup_update_other. apply N.eqb_neq, E.
Qed.

Lemma add_vkey_ok n x w : vkw_ok x = true -> wits_ok n w -> wits_ok (S n) (add_vkey x w).
Proof.
  intros Hx Hw k f El. unfold add_vkey in El. cbn [w_fields] in El. rewrite lookup_update in El.
  destruct (k =? 0).
  - injection El as <-. split; [intros raw Er; discriminate|]. cbn [f_parsed].
    destruct (lookup 0 (w_fields w)) as [[r0 p0]|] eqn:E0.
    + destruct p0 as [t ws|t ws|t c].
      * destruct (Hw _ _ E0) as [_ [A B]]. cbn [f_parsed] in A, B. split.
        -- apply forallb_dedup_add; assumption.
        -- pose proof (length_dedup_add vkw_eqb ws x). lia.
      * split; [cbn [forallb]; rewrite Hx; reflexivity|cbn [length]; lia].
      * split; [cbn [forallb]; rewrite Hx; reflexivity|cbn [length]; lia].
    + split; [cbn [forallb]; rewrite Hx; reflexivity|cbn [length]; lia].
  - apply (field_ok_mono n); [lia|]. apply (Hw _ _ El).
Qed.

Lemma add_boot_ok n x w : bw_ok x = true -> wits_ok n w -> wits_ok (S n) (add_boot x w).
Proof.
  intros Hx Hw k f El. unfold add_boot in El. cbn [w_fields] in El. rewrite lookup_update in El.
  destruct (k =? 2).
  - injection El as <-. split; [intros raw Er; discriminate|]. cbn [f_parsed].
    destruct (lookup 2 (w_fields w)) as [[r0 p0]|] eqn:E0.
    + destruct p0 as [t ws|t ws|t c].
      * split; [cbn [forallb]; rewrite Hx; reflexivity|cbn [length]; lia].
      * destruct (Hw _ _ E0) as [_ [A B]]. cbn [f_parsed] in A, B. split.
        -- apply forallb_dedup_add; assumption.
        -- pose proof (length_dedup_add bw_eqb ws x). lia.
      * split; [cbn [forallb]; rewrite Hx; reflexivity|cbn [length]; lia].
    + split; [cbn [forallb]; rewrite Hx; reflexivity|cbn [length]; lia].
  - apply (field_ok_mono n); [lia|]. apply (Hw _ _ El).
Qed.

Section Ops.
  Variable H : bytes -> bytes.
  Variable sign_vkey : bytes -> bytes -> vkw.
  Variable sign_boot : bool -> bytes -> bytes -> bw.
  (* the external signers return byte strings *)
  Hypothesis sign_vkey_ok : forall k h, vkw_ok (sign_vkey k h) = true.
  Hypothesis sign_boot_ok : forall d k h, bw_ok (sign_boot d k h) = true.

  Definition op_ok (o : op) : Prop :=
    match o with
    | OAddVkey x => vkw_ok x = true
    | OAddBoot x => bw_ok x = true
    | OSetWits _ => False                 (* replaces the whole set: start again from decode_wits_ok *)
    | _ => True
    end.

  Lemma step_wits_ok n o tx : op_ok o -> wits_ok n (ft_wits tx) ->
    wits_ok (S n) (ft_wits (step H sign_vkey sign_boot tx o)).
  Proof.
    intros Ho Hw. assert (M : wits_ok (S n) (ft_wits tx)) by (intros k f El; apply (field_ok_mono n); [lia|apply (Hw _ _ El)]).
    unfold step. destruct o; cbn [op_ok] in Ho; cbn [apply_op ft_wits with_wits].
    - apply add_vkey_ok; assumption.
    - apply add_boot_ok; assumption.
    - apply add_vkey_ok; [apply sign_vkey_ok|assumption].
    - apply add_boot_ok; [apply sign_boot_ok|assumption].
    - apply add_boot_ok; [apply sign_boot_ok|assumption].
    - destruct (parse_exact b) as [?| | |]; exact M.
    - contradiction.
    - exact M.
    - destruct (parse_exact b) as [?| | |]; exact M.
  Qed.

  Theorem run_ops_wits_ok ops : Forall op_ok ops -> forall n tx, wits_ok n (ft_wits tx) ->
    wits_ok (n + length ops) (ft_wits (run_ops H sign_vkey sign_boot ops tx)).
  Proof.
    unfold run_ops. induction 1 as [|o t Ho _ IH]; intros n tx Hw; cbn [fold_left length].
    - rewrite Nat.add_0_r. exact Hw.
    - replace (n + S (length t))%nat with (S n + length t)%nat by lia. apply IH. apply step_wits_ok; assumption.
  Qed.

  (* C04: a transaction decoded from a string of bytes whose kept witness slices are well-formed items, after
     any list of operations other than set_witness_set (added / signed witnesses being byte strings), writes
     back a witness set that is one well-formed definite map holding exactly the written entries *)
  Theorem fixed_witness_map_wf_after_ops bs tx rest ops :
    good bs -> decode_fixed H bs = Ok (tx, rest) -> raws_wf (ft_wits tx) -> Forall op_ok ops ->
    N.of_nat (length bs + length ops) < two64 ->
    let w' := ft_wits (run_ops H sign_vkey sign_boot ops tx) in
    item_wf (encode_wits w') = true /\ map_slices (encode_wits w') = Some (entries w', []).
  Proof.
    intros Hg E Hr Ho Hn w'. apply encode_wits_wf.
    destruct (decode_fixed_slices H _ _ _ E) as [hd [Wb [V [cl [ln [w [E1 [_ [_ [_ [Ew [Ef _]]]]]]]]]]]].
    assert (S : sfx bs (Wb ++ V ++ enc_aux (ft_aux tx) ++ cl ++ rest)).
    { exists (hd ++ ft_body tx). rewrite E1 at 1. rewrite <- app_assoc. reflexivity. }
    pose proof (good_sfx _ _ S Hg) as Hg'.
    assert (Hr' : raws_wf w) by (intros k f raw El Er; rewrite <- Ef in El; apply (Hr _ _ _ El Er)).
    pose proof (decode_wits_ok _ _ _ Hg' Ew Hr') as Hw.
    assert (Hw0 : wits_ok (length bs) (ft_wits tx)).
    { intros k f El. rewrite Ef in El. apply (field_ok_mono (length (Wb ++ V ++ enc_aux (ft_aux tx) ++ cl ++ rest))).
      - apply sfx_length, S.
      - apply (Hw _ _ El). }
    apply (wits_ok_wf (length bs + length ops)); [|exact Hn].
    apply run_ops_wits_ok; assumption.
  Qed.
End Ops.

(* the premises are satisfiable: the non-canonical sample transaction of FixedTxProofs.v *)
Example wf_after_ops_premises :
  good sample_tx /\
  exists tx, decode_fixed Hid sample_tx = Ok (tx, []) /\ raws_wf (ft_wits tx) /\
    Forall op_ok [OAddVkey (sample_vk, sample_sg); OSignVkey [1]; OAddBoot (sample_vk, sample_sg, [1; 2], [160]); OSetBody [160]; OSetValid true].
Proof.
  split.
  { split; [apply bytes_okb_ok; vm_compute; reflexivity|vm_compute; reflexivity]. }
  eexists. split; [vm_compute; reflexivity|]. split.
  - intros k f raw El Er. vm_compute in El.
    destruct k as [|p]; [injection El as <-; injection Er as <-; vm_compute; reflexivity|].
    repeat (destruct p as [p|p|]; try discriminate;
            try (injection El as <-; injection Er as <-; vm_compute; reflexivity)).
  - repeat constructor.
Qed.
