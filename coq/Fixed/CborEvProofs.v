(* Suffix lemmas for the cbor_event-level readers of Fixed/CborEv.v: a successful read returns a proper
   suffix of its input (what makes the byte-range capture [with_orig] return exactly the consumed bytes),
   and the loops never run out of their fuel. *)
From CSL Require Import Base.Prelude Cbor.Head Cbor.HeadProofs Cbor.Item Cbor.ItemProofs Fixed.CborEv.
Local Open Scope N_scope.

(* [r] is what is left of [bs] after reading a (possibly empty / non-empty) prefix *)
Definition sfx (bs r : bytes) : Prop := exists pre, bs = pre ++ r.
Definition ssfx (bs r : bytes) : Prop := exists pre, bs = pre ++ r /\ pre <> [].

Lemma sfx_refl bs : sfx bs bs.
Proof. exists []. reflexivity. Qed.
Lemma ssfx_sfx a b : ssfx a b -> sfx a b.
Proof. intros [p [E _]]. exists p. exact E. Qed.
Lemma sfx_trans a b c : sfx a b -> sfx b c -> sfx a c.
Proof. intros [p ->] [q ->]. exists (p ++ q). apply app_assoc. Qed.
Lemma ssfx_sfx_trans a b c : ssfx a b -> sfx b c -> ssfx a c.
Proof.
  intros [p [-> Hp]] [q ->]. exists (p ++ q). split; [apply app_assoc|].
  destruct p; [congruence|discriminate].
Qed.
Lemma sfx_ssfx_trans a b c : sfx a b -> ssfx b c -> ssfx a c.
Proof.
  intros [p ->] [q [-> Hq]]. exists (p ++ q). split; [apply app_assoc|].
  destruct q; [congruence|]. destruct p; discriminate.
Qed.
Lemma ssfx_trans a b c : ssfx a b -> ssfx b c -> ssfx a c.
Proof. intros H1 H2. eapply ssfx_sfx_trans; [exact H1|apply ssfx_sfx, H2]. Qed.
Lemma sfx_length a b : sfx a b -> (length b <= length a)%nat.
Proof. intros [p ->]. rewrite app_length. lia. Qed.
Lemma ssfx_length a b : ssfx a b -> (length b < length a)%nat.
Proof. intros [p [-> Hp]]. rewrite app_length. destruct p; [congruence|cbn [length]; lia]. Qed.
Lemma ssfx_cons b t : ssfx (b :: t) t.
Proof. exists [b]. split; [reflexivity|discriminate]. Qed.

Lemma psuffix_ssfx {A} (p : parser A) : psuffix p <-> (forall bs x r, p bs = Ok (x, r) -> ssfx bs r).
Proof. split; intros H bs x r E; apply (H bs x r E). Qed.

(* the consumed prefix, computed the way deserilized_with_orig_bytes does (position after - position before) *)
Lemma firstn_consumed (pre r : bytes) : firstn (length (pre ++ r) - length r) (pre ++ r) = pre.
Proof.
  rewrite app_length. replace (length pre + length r - length r)%nat with (length pre) by lia.
  rewrite firstn_app, Nat.sub_diag, firstn_all. cbn [firstn]. apply app_nil_r.
Qed.

(* C04 mechanism 1: the capture returns exactly the bytes the inner reader consumed *)
Theorem with_orig_slice {A} (p : parser A) : psuffix p ->
  forall bs v raw rest, with_orig p bs = Ok ((v, raw), rest) ->
  bs = raw ++ rest /\ raw <> [] /\ p (raw ++ rest) = Ok (v, rest).
Proof.
  intros Hp bs v raw rest H. unfold with_orig in H.
  apply bind_ok in H as [[v' r] [H1 H]]. injection H as <- <- <-.
  destruct (Hp _ _ _ H1) as [pre [-> Hne]]. rewrite firstn_consumed.
  split; [reflexivity|]. split; [exact Hne|exact H1].
Qed.

Lemma with_orig_suffix {A} (p : parser A) : psuffix p -> psuffix (with_orig p).
Proof.
  intros Hp bs [v raw] r H. apply (with_orig_slice p Hp) in H as [-> [Hne _]]. exists raw. split; [reflexivity|exact Hne].
Qed.

(* ---------------------------------------------------------------- heads *)
Lemma rd_head_ok m bs a r : rd_head m bs = Ok (a, r) -> decode_head bs = Some (m, a, r).
Proof.
  unfold rd_head. destruct (decode_head bs) as [[[m' a'] r']|]; [|discriminate].
  destruct (m' =? m) eqn:E; [|discriminate]. apply N.eqb_eq in E. subst m'.
  intros H; injection H as <- <-. reflexivity.
Qed.

Lemma rd_head_suffix m : psuffix (rd_head m).
Proof. intros bs a r H. apply rd_head_ok in H. apply decode_head_suffix in H. exact H. Qed.

Lemma rd_arg_ok m bs n r : rd_arg m bs = Ok (n, r) -> decode_head bs = Some (m, Arg n, r).
Proof.
  unfold rd_arg. intros H. apply bind_ok in H as [[a r'] [H1 H]]. destruct a; [|discriminate].
  injection H as <- <-. apply rd_head_ok, H1.
Qed.
Lemma rd_arg_suffix m : psuffix (rd_arg m).
Proof. intros bs n r H. apply rd_arg_ok in H. apply decode_head_suffix in H. exact H. Qed.

Lemma rd_bytes_suffix : psuffix rd_bytes.
Proof.
  intros bs x r H. unfold rd_bytes in H. apply bind_ok in H as [[a r0] [H0 H]].
  apply rd_head_suffix in H0. change (ssfx bs r0) in H0. change (ssfx bs r).
  destruct a as [n|].
  - apply take_bytes_ok in H as [-> _]. eapply ssfx_sfx_trans; [exact H0|]. exists x. reflexivity.
  - apply bind_ok in H as [[cs r1] [H1 H]]. injection H as <- <-.
    apply (parse_until_break_suffix _ (parse_chunk_suffix 2)) in H1.
    eapply ssfx_trans; [exact H0|exact H1].
Qed.

Lemma rd_special_suffix : psuffix rd_special.
Proof.
  intros bs s r H. unfold rd_special in H. destruct bs as [|b t]; [discriminate|].
  destruct (b / 32 =? 7); [|discriminate]. cbv zeta in H.
  assert (K : forall k, match split_at k t with Some (_, r') => Ok (SpOther, r') | None => Err end = Ok (s, r) ->
              ssfx (b :: t) r).
  { intros k. destruct (split_at k t) as [[p r']|] eqn:E; [|discriminate]. intros E2; injection E2 as <- <-.
    apply split_at_ok in E as [-> _]. exists (b :: p). split; [reflexivity|discriminate]. }
  repeat match type of H with
         | (if ?c then _ else _) = _ => destruct c
         end;
    try (injection H as <- <-; apply ssfx_cons); try (apply K in H; exact H).
Qed.

Lemma expect_break_suffix bs r : expect_break bs = Ok r -> ssfx bs r.
Proof.
  unfold expect_break. intros H. apply bind_ok in H as [[s r'] [H1 H]].
  destruct (is_break s); [|discriminate]. injection H as <-. apply rd_special_suffix in H1. exact H1.
Qed.

Lemma close_len_suffix ln bs r : close_len ln bs = Ok r -> sfx bs r.
Proof.
  destruct ln; cbn [close_len]; intros H.
  - injection H as <-. apply sfx_refl.
  - apply ssfx_sfx, expect_break_suffix, H.
Qed.

Lemma skip_set_tag_suffix bs t r : skip_set_tag bs = Ok (t, r) -> sfx bs r.
Proof.
  unfold skip_set_tag. destruct (rd_tag bs) as [[n r']| | |] eqn:E.
  - destruct (n =? 258); [|discriminate]. intros H; injection H as <- <-.
    apply ssfx_sfx. apply (rd_arg_suffix 6) in E. exact E.
  - intros H; injection H as <- <-. apply sfx_refl.
  - intros H; injection H as <- <-. apply sfx_refl.
  - intros H; injection H as <- <-. apply sfx_refl.
Qed.

Lemma raw_item_suffix : psuffix raw_item.
Proof. intros bs x r H. apply skip_item_exact in H as [-> Hne]. exists x. split; [reflexivity|exact Hne]. Qed.

(* the element of a generic collection IS its bytes *)
Lemma raw_item_self bs x r : raw_item bs = Ok (x, r) -> bs = x ++ r /\ item_wf x = true.
Proof.
  intros H. split; [apply skip_item_exact in H as [E _]; exact E|]. eapply skip_item_wf, H.
Qed.

(* ---------------------------------------------------------------- the element loop *)
Lemma dec_elems_suffix {A} (p : parser A) : psuffix p ->
  forall fuel ln cnt bs xs r, dec_elems p fuel ln cnt bs = Ok (xs, r) -> sfx bs r.
Proof.
  intros Hp. induction fuel as [|f IH]; intros ln cnt bs xs r H; cbn [dec_elems] in H; [discriminate|].
  destruct (match ln with Arg n => cnt <? n | Indef => true end).
  - apply bind_ok in H as [t [Ht H]]. destruct (t =? 7).
    + apply bind_ok in H as [[s r1] [H1 H]]. destruct (is_break s); [|discriminate].
      destruct ln; [discriminate|]. injection H as <- <-. apply ssfx_sfx. apply rd_special_suffix in H1. exact H1.
    + apply bind_ok in H as [[x r1] [H1 H]]. apply bind_ok in H as [[xs' r2] [H2 H]]. injection H as <- <-.
      apply Hp in H1. apply IH in H2. eapply sfx_trans; [apply ssfx_sfx, H1|exact H2].
  - injection H as <- <-. apply sfx_refl.
Qed.

Lemma dec_set_suffix {A} (p : parser A) dbl : psuffix p -> psuffix (dec_set p dbl).
Proof.
  intros Hp bs [[t d] xs] r H. unfold dec_set in H.
  apply bind_ok in H as [[t0 r0] [H0 H]]. apply bind_ok in H as [[t1 r0'] [H0' H]].
  apply bind_ok in H as [[ln r1] [H1 H]]. apply bind_ok in H as [[xs' r2] [H2 H]]. injection H as <- <- <- <-.
  apply skip_set_tag_suffix in H0.
  assert (S1 : sfx r0 r0').
  { destruct dbl; [apply skip_set_tag_suffix in H0'; exact H0'|injection H0' as <- <-; apply sfx_refl]. }
  apply rd_head_suffix in H1. apply (dec_elems_suffix _ Hp) in H2.
  change (ssfx bs r2).
  eapply sfx_ssfx_trans; [exact H0|]. eapply sfx_ssfx_trans; [exact S1|].
  eapply ssfx_sfx_trans; [exact H1|exact H2].
Qed.

(* ---------------------------------------------------------------- bounded bytes *)
Lemma rd_bchunks_suffix : forall fuel bs cs r, rd_bchunks fuel bs = Ok (cs, r) -> ssfx bs r.
Proof.
  induction fuel as [|f IH]; intros bs cs r H; destruct bs as [|b t]; cbn [rd_bchunks] in H; try discriminate.
  - destruct (b / 32 =? 7); [|discriminate]. apply bind_ok in H as [r' [H1 H]]. injection H as <- <-.
    apply expect_break_suffix, H1.
  - destruct (b / 32 =? 7).
    + apply bind_ok in H as [r' [H1 H]]. injection H as <- <-. apply expect_break_suffix, H1.
    + destruct (decode_head (b :: t)) as [[[m [n|]] r0]|] eqn:Hd; try discriminate.
      destruct (m =? 2); [|discriminate]. destruct (64 <? n); [discriminate|].
      apply bind_ok in H as [[c r1] [H1 H]]. apply bind_ok in H as [[cs' r2] [H2 H]]. injection H as <- <-.
      apply decode_head_suffix in Hd. apply take_bytes_ok in H1 as [-> _]. apply IH in H2.
      eapply ssfx_trans; [exact Hd|]. eapply sfx_ssfx_trans; [exists c; reflexivity|exact H2].
Qed.

Lemma rd_bounded_bytes_suffix : psuffix rd_bounded_bytes.
Proof.
  intros bs x r H. unfold rd_bounded_bytes in H. apply bind_ok in H as [[a r0] [H0 H]].
  apply rd_head_suffix in H0. destruct a as [n|].
  - apply bind_ok in H as [[s r'] [H1 H]]. destruct (64 <? n); [discriminate|]. injection H as <- <-.
    apply take_bytes_ok in H1 as [-> _]. eapply ssfx_sfx_trans; [exact H0|]. exists s. reflexivity.
  - apply bind_ok in H as [[cs r1] [H1 H]]. injection H as <- <-. apply rd_bchunks_suffix in H1.
    eapply ssfx_trans; [exact H0|exact H1].
Qed.

Lemma orelse_ok {A} (r : result A) k v : orelse r k = Ok v -> r = Ok v \/ (r = Err /\ k tt = Ok v).
Proof. destruct r; cbn [orelse]; intros H; try discriminate; [left; exact H|right; split; [reflexivity|exact H]]. Qed.

(* ---------------------------------------------------------------- fuel: S (length bs) is always enough *)
Lemma cbor_type_no_oof bs : cbor_type bs <> OutOfFuel.
Proof. destruct bs; discriminate. Qed.
Lemma rd_special_no_oof bs : rd_special bs <> OutOfFuel.
Proof.
  unfold rd_special. destruct bs as [|b t]; [discriminate|]. destruct (b / 32 =? 7); [|discriminate]. cbv zeta.
  repeat match goal with |- (if ?c then _ else _) <> _ => destruct c end; try discriminate;
    match goal with |- match split_at ?k ?t with _ => _ end <> _ => destruct (split_at k t) as [[? ?]|]; discriminate end.
Qed.

Lemma dec_elems_no_oof {A} (p : parser A) : psuffix p -> (forall bs, p bs <> OutOfFuel) ->
  forall fuel ln cnt bs, (length bs < fuel)%nat -> dec_elems p fuel ln cnt bs <> OutOfFuel.
Proof.
  intros Hp Hn. induction fuel as [|f IH]; intros ln cnt bs Hl; [lia|]. cbn [dec_elems].
  destruct (match ln with Arg n => cnt <? n | Indef => true end); [|discriminate].
  destruct (cbor_type bs) as [t| | |] eqn:Et; cbn [bind]; try discriminate; [|apply cbor_type_no_oof in Et; contradiction].
  destruct (t =? 7).
  - destruct (rd_special bs) as [[s r]| | |] eqn:Es; cbn [bind]; try discriminate.
    + destruct (is_break s); [destruct ln; discriminate|discriminate].
    + apply rd_special_no_oof in Es. contradiction.
  - destruct (p bs) as [[x r]| | |] eqn:Ep; cbn [bind]; try discriminate; [|apply Hn in Ep; contradiction].
    pose proof (ssfx_length _ _ (Hp _ _ _ Ep)) as Hlen.
    specialize (IH ln (cnt + 1) r ltac:(lia)).
    destruct (dec_elems p f ln (cnt + 1) r) as [[xs r']| | |]; cbn [bind]; try discriminate. congruence.
Qed.
