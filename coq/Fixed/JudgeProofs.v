(* The judge (the executable reading of C04 used on the implementation's observations) accepts the model's own
   output: for every input on which the generic reading and the library-mirroring reading coincide
   ([same_reading]), every operation list without set_witness_set, provided the written witness set is
   well-formed ([wits_wf], see WfPreservation.v), judge = VHolds.  So the judge is not stricter than the
   theorems, and a `fails` verdict on the implementation is a deviation from the proved behaviour. *)
From CSL Require Import Base.Prelude Cbor.Head Cbor.HeadProofs Cbor.Item Cbor.ItemProofs
  Fixed.CborEv Fixed.CborEvProofs Fixed.DatumBytes Fixed.DatumBytesProofs Fixed.FixedTx Fixed.FixedTxProofs.
Local Open Scope N_scope.

Notation idH := (fun b : bytes => b).

(* ---------------------------------------------------------------- keys without repetition *)
Lemma lookup_none_notin {A} k (l : list (N * A)) : lookup k l = None <-> ~ In k (map fst l).
Proof.
  induction l as [|[k' v] t IH]; cbn [lookup map fst In]; [tauto|].
  destruct (k =? k') eqn:E.
  - apply N.eqb_eq in E. subst k'. split; [discriminate|tauto].
  - apply N.eqb_neq in E. rewrite IH. split; [intros H [C|C]; [congruence|tauto]|tauto].
Qed.

Lemma nodup_keys_iff (l : list (N * bytes)) : nodup_keys l = true <-> NoDup (map fst l).
Proof.
  induction l as [|[k v] t IH]; cbn [nodup_keys map fst]; [split; [constructor|reflexivity]|].
  destruct (lookup k t) eqn:E.
  - split; [discriminate|]. intros H. inversion H as [|? ? Hn _]. apply lookup_none_notin in Hn. congruence.
  - rewrite IH. split; [intros H; constructor; [apply lookup_none_notin, E|exact H]|intros H; inversion H; assumption].
Qed.

Lemma nodup_snoc {A} (l : list A) x : NoDup l -> ~ In x l -> NoDup (l ++ [x]).
Proof.
  induction l as [|a t IH]; cbn [app]; intros Hn Hx; [constructor; [intros []|constructor]|].
  inversion Hn as [|? ? Ha Ht]; subst. constructor.
  - intros Hi. apply in_app_or in Hi as [Hi|[->|[]]]; [contradiction|apply Hx; left; reflexivity].
  - apply IH; [exact Ht|intros Hi; apply Hx; right; exact Hi].
Qed.

Lemma dec_wits_loop_nodup : forall fuel ln read acc bs fs rest,
  NoDup (map fst acc) -> dec_wits_loop fuel ln read acc bs = Ok (fs, rest) -> NoDup (map fst fs).
Proof.
  induction fuel as [|f IH]; intros ln read acc bs fs rest Hn H; cbn [dec_wits_loop] in H; [discriminate|].
  destruct (match ln with Arg n => read <? n | Indef => true end); [|injection H as <- <-; exact Hn].
  apply bind_ok in H as [t [_ H]]. destruct (t =? 0).
  - apply bind_ok in H as [[k r] [_ H]]. destruct (7 <? k); [discriminate|].
    destruct (lookup k acc) eqn:El; [discriminate|]. apply bind_ok in H as [[[p raw] r'] [_ H]].
    apply IH in H; [exact H|]. rewrite map_app. cbn [map fst].
    apply nodup_snoc; [exact Hn|apply lookup_none_notin, El].
  - destruct (t =? 7); [|discriminate]. destruct ln; [discriminate|].
    apply bind_ok in H as [r [_ H]]. injection H as <- <-. exact Hn.
Qed.

Lemma decode_wits_nodup bs w r : decode_wits bs = Ok (w, r) -> NoDup (map fst (w_fields w)).
Proof.
  unfold decode_wits. intros H. apply bind_ok in H as [[ln r0] [_ H]]. apply bind_ok in H as [[fs r'] [H1 H]].
  injection H as <- <-. cbn [w_fields]. apply (dec_wits_loop_nodup _ _ _ [] _ _ _ (NoDup_nil _) H1).
Qed.

Lemma nodup_in_lookup {A} k (v : A) l : NoDup (map fst l) -> In (k, v) l -> lookup k l = Some v.
Proof.
  induction l as [|[k' v'] t IH]; cbn [map fst In lookup]; intros Hn Hi; [contradiction|].
  inversion Hn as [|? ? Hk Ht]; subst. destruct Hi as [E|Hi].
  - injection E as -> ->. rewrite N.eqb_refl. reflexivity.
  - destruct (k =? k') eqn:E; [|apply IH; assumption].
    apply N.eqb_eq in E. subst k'. exfalso. apply Hk. apply in_map_iff. exists (k, v). split; [reflexivity|exact Hi].
Qed.

(* every field of a decoded witness set keeps its bytes *)
Definition raw_total (l : list (N * fstate)) : Prop := Forall (fun kf => f_raw (snd kf) <> None) l.

Lemma decode_wits_raw_total bs w r : decode_wits bs = Ok (w, r) -> raw_total (w_fields w).
Proof.
  intros H. pose proof (decode_wits_nodup _ _ _ H) as Hn. apply Forall_forall. intros [k f] Hi. cbn [snd].
  apply (nodup_in_lookup _ _ _ Hn) in Hi. destruct (decode_wits_raw _ _ _ _ _ H Hi) as [raw [E _]]. rewrite E. discriminate.
Qed.

Lemma field_slices_keys l : raw_total l ->
  map fst (flat_map (fun kf : N * fstate => match f_raw (snd kf) with Some r => [(fst kf, r)] | None => [] end) l) = map fst l.
Proof.
  induction 1 as [|[k f] t Hx _ IH]; cbn [flat_map map fst]; [reflexivity|]. cbn [snd fst] in *.
  destruct (f_raw f); [|congruence]. cbn [app map fst]. rewrite IH. reflexivity.
Qed.

Lemma field_slices_lookup l k : raw_total l ->
  lookup k (flat_map (fun kf : N * fstate => match f_raw (snd kf) with Some r => [(fst kf, r)] | None => [] end) l)
  = match lookup k l with Some f => f_raw f | None => None end.
Proof.
  induction 1 as [|[k' f] t Hx _ IH]; cbn [flat_map lookup]; [reflexivity|]. cbn [snd fst] in *.
  destruct (f_raw f) as [raw|] eqn:Er; [|congruence]. cbn [app lookup].
  destruct (k =? k'); [symmetry; exact Er|exact IH].
Qed.

(* ---------------------------------------------------------------- unpacking same_reading *)
Lemma slices_eqb_eq a b : slices_eqb a b = true -> a = b.
Proof.
  unfold slices_eqb. apply list_eqb_eq. intros [k1 v1] [k2 v2]. cbn [fst snd]. rewrite andb_true_iff, N.eqb_eq, bytes_eqb_eq.
  split; [intros [-> ->]; reflexivity|intros E; injection E; auto].
Qed.
Lemma opt_bytes_eqb_eq a b : opt_bytes_eqb a b = true -> a = b.
Proof.
  destruct a, b; cbn [opt_bytes_eqb]; try discriminate; [|reflexivity]. intros E. apply bytes_eqb_eq in E. subst. reflexivity.
Qed.

Lemma same_reading_unpack bs : same_reading bs = true ->
  exists tx r s, decode_fixed idH bs = Ok (tx, r) /\ spec_slices bs = Some s /\
    sp_body s = ft_body tx /\ sp_aux s = ft_aux tx /\ sp_valid s = ft_valid tx /\ sp_fields s = field_slices (ft_wits tx).
Proof.
  unfold same_reading.
  destruct (decode_fixed idH bs) as [[tx r]| | |]; try discriminate.
  destruct (spec_slices bs) as [s|]; [|discriminate]. intros E.
  apply andb_true_iff in E as [E E4]. apply andb_true_iff in E as [E E3]. apply andb_true_iff in E as [E1 E2].
  exists tx, r, s. apply bytes_eqb_eq in E1. apply opt_bytes_eqb_eq in E2. apply Bool.eqb_prop in E3. apply slices_eqb_eq in E4.
  repeat split; congruence.
Qed.

(* ---------------------------------------------------------------- the specification record follows the model *)
Section Run.
  Variable sv : bytes -> bytes -> vkw.
  Variable sb : bool -> bytes -> bytes -> bw.
  Notation step := (step idH sv sb).
  Notation apply_op := (apply_op idH sv sb).
  Notation run_ops := (run_ops idH sv sb).

  Definition not_set_wits (o : op) : Prop := match o with OSetWits _ => False | _ => True end.

  Definition rel (F : list (N * bytes)) (tx0 tx : fixed_tx) (s : spec_tx * (N -> bool)) : Prop :=
    sp_body (fst s) = ft_body tx /\ sp_aux (fst s) = ft_aux tx /\ sp_valid (fst s) = ft_valid tx /\
    sp_fields (fst s) = F /\
    forall k, snd s k = false -> lookup k (w_fields (ft_wits tx)) = lookup k (w_fields (ft_wits tx0)).

  Lemma rel_step F tx0 tx s o : not_set_wits o -> rel F tx0 tx s ->
    exists s', spec_step s o (is_ok (apply_op o tx)) = Some s' /\ rel F tx0 (step tx o) s'.
  Proof.
    intros Ho [Rb [Ra [Rv [Rf Rt]]]]. destruct s as [st touched]. cbn [fst snd] in *.
    assert (SIG : forall f, is_sig_op o = true -> apply_op o tx = Ok (with_wits f tx) ->
              (forall k, touches o k = false -> lookup k (w_fields (f (ft_wits tx))) = lookup k (w_fields (ft_wits tx))) ->
              exists s', spec_step (st, touched) o (is_ok (apply_op o tx)) = Some s' /\ rel F tx0 (step tx o) s').
    { intros f Hs Ea Hl. unfold FixedTx.step. rewrite Ea. cbn [is_ok]. unfold spec_step. cbn [negb].
      exists (st, fun k => touched k || touches o k).
      split; [destruct o; cbn [is_sig_op] in Hs; try discriminate; reflexivity|].
      unfold rel. cbn [fst snd with_wits ft_body ft_aux ft_valid ft_wits].
      repeat split; try assumption. intros k Hk. apply orb_false_iff in Hk as [Hk1 Hk2].
      rewrite (Hl k Hk2). apply Rt, Hk1. }
    destruct o; cbn [not_set_wits] in Ho; try contradiction.
    - apply (SIG (add_vkey w)); [reflexivity|reflexivity|]. intros k Hk. cbn [touches] in Hk. apply N.eqb_neq in Hk. apply add_vkey_other, Hk.
    - apply (SIG (add_boot w)); [reflexivity|reflexivity|]. intros k Hk. cbn [touches] in Hk. apply N.eqb_neq in Hk. apply add_boot_other, Hk.
    - apply (SIG (add_vkey (sv key (ft_hash tx)))); [reflexivity|reflexivity|]. intros k Hk. cbn [touches] in Hk. apply N.eqb_neq in Hk. apply add_vkey_other, Hk.
    - apply (SIG (add_boot (sb false key (ft_hash tx)))); [reflexivity|reflexivity|]. intros k Hk. cbn [touches] in Hk. apply N.eqb_neq in Hk. apply add_boot_other, Hk.
    - apply (SIG (add_boot (sb true key (ft_hash tx)))); [reflexivity|reflexivity|]. intros k Hk. cbn [touches] in Hk. apply N.eqb_neq in Hk. apply add_boot_other, Hk.
    - (* set_body *)
      unfold FixedTx.step. cbn [FixedTx.apply_op]. destruct (parse_exact b) as [it| | |]; cbn [bind is_ok];
        unfold spec_step; cbn [negb]; eexists; (split; [reflexivity|]); unfold rel; cbn; repeat split; assumption.
    - (* set_is_valid *)
      unfold FixedTx.step. cbn [FixedTx.apply_op is_ok]. unfold spec_step. cbn [negb]. eexists. split; [reflexivity|].
      unfold rel; cbn; repeat split; assumption.
    - (* set_auxiliary_data *)
      unfold FixedTx.step. cbn [FixedTx.apply_op]. destruct (parse_exact b) as [it| | |]; cbn [bind is_ok];
        unfold spec_step; cbn [negb]; eexists; (split; [reflexivity|]); unfold rel; cbn; repeat split; assumption.
  Qed.

  Lemma rel_run F tx0 ops : Forall not_set_wits ops -> forall tx s, rel F tx0 tx s ->
    exists s', spec_run s (op_flags sv sb ops tx) = Some s' /\ rel F tx0 (run_ops ops tx) s'.
  Proof.
    unfold FixedTx.run_ops. induction 1 as [|o t Ho _ IH]; intros tx s R; cbn [op_flags spec_run fold_left].
    - exists s. split; [reflexivity|exact R].
    - destruct (rel_step F tx0 tx s o Ho R) as [s1 [E1 R1]]. rewrite E1. apply IH, R1.
  Qed.
End Run.

(* ---------------------------------------------------------------- the entries written *)
Lemma flat_map_keys_nodup (g : N -> option bytes) ks : NoDup ks ->
  NoDup (map fst (flat_map (fun k => match g k with Some v => [(k, v)] | None => [] end) ks)) /\
  forall k, In k (map fst (flat_map (fun k => match g k with Some v => [(k, v)] | None => [] end) ks)) -> In k ks.
Proof.
  induction 1 as [|k t Hk _ [IH1 IH2]]; cbn [flat_map map]; [split; [constructor|intros k []]|].
  destruct (g k) as [v|]; cbn [app map fst].
  - split; [constructor; [intros Hi; apply Hk, IH2, Hi|exact IH1]|].
    intros k' [->|Hi]; [left; reflexivity|right; apply IH2, Hi].
  - split; [exact IH1|intros k' Hi; right; apply IH2, Hi].
Qed.

Lemma entries_nodup w : nodup_keys (entries w) = true.
Proof.
  apply nodup_keys_iff. unfold entries, entries_by.
  rewrite (flat_map_ext _ (fun k => match (match lookup k (w_fields w) with Some f => written f | None => None end) with
                                    | Some v => [(k, v)] | None => [] end)).
  - apply flat_map_keys_nodup. unfold key_order. repeat constructor; cbn [In]; intros C;
      repeat (destruct C as [C|C]; [discriminate|]); exact C.
  - intros k. destruct (lookup k (w_fields w)) as [f|]; [destruct (written f)|]; reflexivity.
Qed.

Lemma entries_keys_le w : forallb (fun kv : N * bytes => fst kv <=? 7) (entries w) = true.
Proof. apply forallb_forall. intros kv Hi. apply entries_by_keys in Hi as [Hk _]. apply N.leb_le, Hk. Qed.

Lemma encode_wits_head w : exists n r, decode_head (encode_wits w) = Some (5, Arg n, r).
Proof.
  unfold encode_wits, encode_map. eexists. eexists. apply decode_encode_head.
  pose proof (entries_len_le (fun _ => written) w). unfold entries, two64. lia.
Qed.

(* ================================================================= the theorem *)
Theorem judge_accepts_model sv sb bs tx r ops :
  same_reading bs = true -> decode_fixed idH bs = Ok (tx, r) ->
  Forall not_set_wits ops ->
  wits_wf (ft_wits (run_ops idH sv sb ops tx)) ->
  judge bs (op_flags sv sb ops tx) (model_obs (run_ops idH sv sb ops tx)) = VHolds.
Proof.
  intros Hsr E Hops Hwf.
  destruct (same_reading_unpack bs Hsr) as [tx' [r' [s [E' [Es [Sb [Sa [Sv Sf]]]]]]]].
  rewrite E in E'. injection E' as <- <-.
  (* the decoded witness set *)
  destruct (decode_fixed_slices idH _ _ _ E) as [hd [Wb [V [cl [ln [w0 [_ [_ [_ [_ [Ew [Ef _]]]]]]]]]]]].
  pose proof (decode_wits_nodup _ _ _ Ew) as Hnd. pose proof (decode_wits_raw_total _ _ _ Ew) as Hrt.
  rewrite <- Ef in Hnd, Hrt.
  assert (R0 : rel (field_slices (ft_wits tx)) tx tx (s, fun _ => false)).
  { unfold rel. cbn [fst snd]. repeat split; try assumption. }
  destruct (rel_run sv sb _ tx ops Hops tx _ R0) as [[st touched] [Erun [Rb [Ra [Rv [Rf Rt]]]]]]. cbn [fst snd] in *.
  set (tx1 := run_ops idH sv sb ops tx) in *.
  destruct (encode_wits_wf _ Hwf) as [Hiwf Hms].
  unfold judge. rewrite Es.
  assert (Hn0 : nodup_keys (sp_fields s) = true).
  { apply nodup_keys_iff. rewrite Sf. unfold field_slices. rewrite field_slices_keys by exact Hrt. exact Hnd. }
  rewrite Hn0. cbn [negb]. rewrite Erun. cbn [model_obs o_wits o_body o_aux o_tx o_hash_pre o_valid]. rewrite Hms.
  destruct (encode_wits_head (ft_wits tx1)) as [n [rr Hh]]. rewrite Hh.
  rewrite Rb, Ra, Rv, bytes_eqb_refl, Hiwf, entries_nodup, entries_keys_le.
  assert (Haux : match ft_aux tx1, ft_aux tx1 with Some a, Some b => bytes_eqb a b | None, None => true | _, _ => false end = true)
    by (destruct (ft_aux tx1); [apply bytes_eqb_refl|reflexivity]).
  rewrite Haux.
  assert (Htx : bytes_eqb (encode_fixed tx1)
                  ([132] ++ ft_body tx1 ++ encode_wits (ft_wits tx1) ++ enc_valid (ft_valid tx1) ++ enc_aux (ft_aux tx1)) = true)
    by (unfold encode_fixed; apply bytes_eqb_refl).
  rewrite Htx.
  assert (Hh2 : bytes_eqb (ft_hash tx1) (ft_body tx1) = true).
  { apply bytes_eqb_eq. apply (run_ops_hash_inv idH sv sb ops tx).
    destruct (decode_fixed_slices idH _ _ _ E) as [? [? [? [? [? [? [_ [_ [_ [Hh' _]]]]]]]]]]. exact Hh'. }
  rewrite Hh2.
  assert (Hunt : forallb (fun k => touched k ||
                   match lookup k (entries (ft_wits tx1)), lookup k (sp_fields st) with
                   | Some a, Some b => bytes_eqb a b | None, None => true | _, _ => false end) key_order = true).
  { apply forallb_forall. intros k Hk. destruct (touched k) eqn:Et; [reflexivity|]. cbn [orb].
    assert (Hk7 : k <= 7).
    { apply is_key_le. unfold is_key. apply existsb_exists. exists k. split; [exact Hk|apply N.eqb_refl]. }
    rewrite (entries_lookup _ _ Hk7), (Rt k Et), Rf. unfold field_slices. rewrite (field_slices_lookup _ k Hrt).
    destruct (lookup k (w_fields (ft_wits tx))) as [f|] eqn:El; [|reflexivity].
    pose proof Hrt as Hrt2. unfold raw_total in Hrt2. rewrite Forall_forall in Hrt2. specialize (Hrt2 (k, f)). cbn [snd] in Hrt2.
    unfold written. destruct (f_raw f) as [raw|] eqn:Er; [apply bytes_eqb_refl|].
    exfalso. apply Hrt2; [|reflexivity]. clear - El. induction (w_fields (ft_wits tx)) as [|[k' f'] t IH]; cbn [lookup] in El; [discriminate|].
    destruct (k =? k') eqn:Ek; [injection El as ->; apply N.eqb_eq in Ek; subst; left; reflexivity|right; apply IH, El]. }
  rewrite Hunt, Bool.eqb_reflx. reflexivity.
Qed.

(* the premise is satisfiable on a non-canonical input *)
Example same_reading_example : same_reading sample_tx = true.
Proof. vm_compute. reflexivity. Qed.
