(* A decoded Plutus datum re-encodes to exactly the bytes it was decoded from (every accepted encoding:
   non-minimal heads, indefinite or definite lists/maps, chunked byte strings, big-integer tags, general or
   compact constructor tags, tag 258 lists, duplicate map keys ... are just bytes here). *)
From CSL Require Import Base.Prelude Cbor.Head Cbor.HeadProofs Cbor.Item Cbor.ItemProofs
  Fixed.CborEv Fixed.CborEvProofs Fixed.DatumBytes.
Local Open Scope N_scope.

Section Kind.
  Variable p : parser pd.
  Hypothesis Hp : psuffix p.

  Lemma dec_plist_suffix : psuffix (dec_plist p).
  Proof. apply dec_set_suffix, Hp. Qed.

  Lemma dec_constr_suffix : psuffix (dec_constr p).
  Proof.
    intros bs k r H. unfold dec_constr in H. apply bind_ok in H as [[t r0] [H0 H]].
    apply (rd_arg_suffix 6) in H0. change (ssfx bs r0) in H0. change (ssfx bs r).
    destruct (t =? 102).
    - apply bind_ok in H as [[ln r1] [H1 H]].
      destruct (match ln with Arg n => negb (n =? 2) | Indef => false end); [discriminate|].
      apply bind_ok in H as [[alt r2] [H2 H]]. apply bind_ok in H as [[[[tg df] xs] r3] [H3 H]].
      apply bind_ok in H as [r4 [H4 H]]. injection H as <- <-.
      apply rd_head_suffix in H1. apply (rd_arg_suffix 0) in H2. apply dec_plist_suffix in H3.
      apply close_len_suffix in H4.
      eapply ssfx_trans; [exact H0|]. eapply ssfx_trans; [exact H1|]. eapply ssfx_trans; [exact H2|].
      eapply ssfx_sfx_trans; [exact H3|exact H4].
    - destruct (compact_alt t); [|discriminate].
      apply bind_ok in H as [[[[tg df] xs] r1] [H1 H]]. injection H as <- <-.
      apply dec_plist_suffix in H1. eapply ssfx_trans; [exact H0|exact H1].
  Qed.

  Lemma dec_kv_suffix : psuffix (dec_kv p).
  Proof.
    intros bs [k v] r H. unfold dec_kv in H. apply bind_ok in H as [[k' r0] [H0 H]].
    apply bind_ok in H as [[v' r1] [H1 H]]. injection H as <- <- <-.
    apply Hp in H0. apply Hp in H1. apply (ssfx_trans _ _ _ H0 H1).
  Qed.

  Lemma dec_pmap_suffix : psuffix (dec_pmap p).
  Proof.
    intros bs k r H. unfold dec_pmap in H. apply bind_ok in H as [[ln r0] [H0 H]].
    apply bind_ok in H as [[kvs r1] [H1 H]]. injection H as <- <-.
    apply rd_head_suffix in H0. apply (dec_elems_suffix _ dec_kv_suffix) in H1.
    apply (ssfx_sfx_trans _ _ _ H0 H1).
  Qed.

  Lemma dec_plist_k_suffix : psuffix (dec_plist_k p).
  Proof.
    intros bs k r H. unfold dec_plist_k in H. apply bind_ok in H as [[[[tg df] xs] r0] [H0 H]].
    injection H as <- <-. apply dec_plist_suffix in H0. exact H0.
  Qed.

  Lemma dec_bigint_suffix : psuffix dec_bigint.
  Proof.
    intros bs k r H. unfold dec_bigint in H. apply bind_ok in H as [t [_ H]].
    destruct (t =? 6).
    - apply bind_ok in H as [[tag r0] [H0 H]]. apply bind_ok in H as [[b r1] [H1 H]].
      apply (rd_arg_suffix 6) in H0. apply rd_bounded_bytes_suffix in H1.
      assert (S : ssfx bs r1) by apply (ssfx_trans _ _ _ H0 H1).
      destruct (tag =? 2); [injection H as <- <-; exact S|].
      destruct (tag =? 3); [injection H as <- <-; exact S|discriminate].
    - destruct (t =? 0).
      + apply bind_ok in H as [[n r0] [H0 H]]. injection H as <- <-. apply (rd_arg_suffix 0) in H0. exact H0.
      + destruct (t =? 1); [|discriminate].
        apply bind_ok in H as [[n r0] [H0 H]]. injection H as <- <-. apply (rd_arg_suffix 1) in H0. exact H0.
  Qed.

  Lemma dec_pbytes_suffix : psuffix dec_pbytes.
  Proof.
    intros bs k r H. unfold dec_pbytes in H. apply bind_ok in H as [[b r0] [H0 H]]. injection H as <- <-.
    apply rd_bounded_bytes_suffix in H0. exact H0.
  Qed.

  Lemma dec_kind_suffix : psuffix (dec_kind p).
  Proof.
    intros bs k r H. unfold dec_kind in H.
    apply orelse_ok in H as [H|[_ H]]; [apply dec_constr_suffix in H; exact H|].
    apply orelse_ok in H as [H|[_ H]]; [apply dec_pmap_suffix in H; exact H|].
    apply orelse_ok in H as [H|[_ H]]; [apply dec_plist_k_suffix in H; exact H|].
    apply orelse_ok in H as [H|[_ H]]; [apply dec_bigint_suffix in H; exact H|].
    apply dec_pbytes_suffix in H; exact H.
  Qed.
End Kind.

Lemma dec_pd_suffix fuel : psuffix (dec_pd fuel).
Proof.
  induction fuel as [|f IH]; intros bs d r H; cbn [dec_pd] in H; [discriminate|].
  apply bind_ok in H as [[[k raw] r0] [H0 H]]. injection H as <- <-.
  apply (with_orig_suffix _ (dec_kind_suffix _ IH)) in H0. exact H0.
Qed.

(* the decoded node carries exactly the bytes it was decoded from *)
Lemma dec_pd_orig fuel bs d r : dec_pd fuel bs = Ok (d, r) ->
  exists raw, pd_orig d = Some raw /\ bs = raw ++ r /\ raw <> [].
Proof.
  destruct fuel as [|f]; cbn [dec_pd]; [discriminate|]. intros H.
  apply bind_ok in H as [[[k raw] r0] [H0 H]]. injection H as <- <-.
  apply (with_orig_slice _ (dec_kind_suffix _ (dec_pd_suffix f))) in H0 as [E [Hne _]].
  exists raw. split; [reflexivity|]. split; [exact E|exact Hne].
Qed.

Section Main.
  Variable fresh : pdk -> bytes.
  Variable H : bytes -> bytes.

  (* PlutusData::from_bytes then to_bytes: exactly the consumed bytes *)
  Theorem datum_bytes bs d rest : decode_pd bs = Ok (d, rest) -> encode_pd fresh d ++ rest = bs.
  Proof.
    unfold decode_pd. intros E. apply dec_pd_orig in E as [raw [Ho [-> _]]].
    destruct d as [o k]. cbn [pd_orig] in Ho. subst o. reflexivity.
  Qed.

  (* hash_plutus_data of a decoded datum: Blake2b-256 of the original bytes *)
  Theorem datum_hash_preimage bs d rest : decode_pd bs = Ok (d, rest) ->
    exists raw, bs = raw ++ rest /\ raw <> [] /\ pd_orig d = Some raw /\ hash_pd fresh H d = H raw.
  Proof.
    unfold decode_pd. intros E. apply dec_pd_orig in E as [raw [Ho [-> Hne]]].
    exists raw. split; [reflexivity|]. split; [exact Hne|]. split; [exact Ho|].
    destruct d as [o k]. cbn [pd_orig] in Ho. subst o. reflexivity.
  Qed.

  (* the same holds for a datum met anywhere inside another structure (any fuel, any position) *)
  Theorem datum_bytes_nested fuel bs d rest : dec_pd fuel bs = Ok (d, rest) -> encode_pd fresh d ++ rest = bs.
  Proof.
    intros E. apply dec_pd_orig in E as [raw [Ho [-> _]]].
    destruct d as [o k]. cbn [pd_orig] in Ho. subst o. reflexivity.
  Qed.

  (* a datum built through the API has no original bytes: its encoding is the fresh one *)
  Lemma datum_new_fresh k : encode_pd fresh (pd_new k) = fresh k.
  Proof. reflexivity. Qed.
End Main.

(* non-vacuity: a non-canonical datum (indefinite list, non-minimal integer head, chunked bytes, a constructor
   in general form) is accepted and, by the theorem, re-encodes verbatim *)
Example datum_example :
  let bs := [159; 24; 1; 95; 65; 7; 64; 255; 216; 102; 130; 0; 128; 255; 9] in
  exists d, decode_pd bs = Ok (d, [9]) /\ pd_orig d = Some (firstn 14 bs).
Proof. cbv zeta. eexists. split; vm_compute; reflexivity. Qed.
