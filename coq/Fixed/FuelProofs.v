(* Fuel is never the reason for a rejection: every loop of the model is given [S (length input)] units and
   consumes at least one byte per unit, so no decoder of Fixed/ ever answers OutOfFuel.  Hence "the model
   decoder accepts bs" is a statement about bs alone. *)
From CSL Require Import Base.Prelude Cbor.Head Cbor.HeadProofs Cbor.Item Cbor.ItemProofs
  Fixed.CborEv Fixed.CborEvProofs Fixed.DatumBytes Fixed.DatumBytesProofs Fixed.FixedTx Fixed.FixedTxProofs.
Local Open Scope N_scope.

Definition noof {A} (p : parser A) : Prop := forall bs, p bs <> OutOfFuel.
(* [p] does not run out of fuel on any input shorter than n *)
Definition ok_lt {A} (p : parser A) (n : nat) : Prop := forall b, (length b < n)%nat -> p b <> OutOfFuel.

Lemma noof_ok_lt {A} (p : parser A) n : noof p -> ok_lt p n.
Proof. intros H b _. apply H. Qed.
Lemma ok_lt_mono {A} (p : parser A) n m : (m <= n)%nat -> ok_lt p n -> ok_lt p m.
Proof. intros Hle H b Hb. apply H. lia. Qed.

Lemma rd_head_noof m : noof (rd_head m).
Proof.
  intros bs. unfold rd_head. destruct (decode_head bs) as [[[m' a] r]|]; [|discriminate].
  destruct (m' =? m); discriminate.
Qed.
Lemma rd_arg_noof m : noof (rd_arg m).
Proof.
  intros bs. unfold rd_arg. apply bind_no_oof; [apply rd_head_noof|]. intros [a r] _. destruct a; discriminate.
Qed.
Lemma rd_bytes_noof : noof rd_bytes.
Proof.
  intros bs. unfold rd_bytes. apply bind_no_oof; [apply rd_head_noof|]. intros [a r] _. destruct a as [n|].
  - apply take_bytes_no_oof.
  - apply bind_no_oof; [|intros [cs r'] _; discriminate].
    apply (parse_until_break_no_oof _ (length r) (parse_chunk_suffix 2)); [intros; apply parse_chunk_no_oof|lia|lia].
Qed.
Lemma expect_break_noof bs : expect_break bs <> OutOfFuel.
Proof.
  unfold expect_break. apply bind_no_oof; [apply rd_special_no_oof|]. intros [s r] _. destruct (is_break s); discriminate.
Qed.
Lemma close_len_noof ln bs : close_len ln bs <> OutOfFuel.
Proof. destruct ln; cbn [close_len]; [discriminate|apply expect_break_noof]. Qed.
Lemma skip_set_tag_noof bs : skip_set_tag bs <> OutOfFuel.
Proof. unfold skip_set_tag. destruct (rd_tag bs) as [[t r]| | |]; try discriminate. destruct (t =? 258); discriminate. Qed.
Lemma raw_item_noof : noof raw_item.
Proof.
  intros bs. unfold raw_item, skip_item. apply bind_no_oof; [apply parse_one_no_oof|]. intros [it r] _. discriminate.
Qed.

Lemma rd_bchunks_noof : forall fuel bs, (length bs <= fuel)%nat -> rd_bchunks fuel bs <> OutOfFuel.
Proof.
  induction fuel as [|f IH]; intros [|b t] Hl; cbn [rd_bchunks]; try discriminate.
  - cbn [length] in Hl. lia.
  - destruct (b / 32 =? 7).
    + apply bind_no_oof; [apply expect_break_noof|]. intros r _. discriminate.
    + destruct (decode_head (b :: t)) as [[[m [n|]] r0]|] eqn:Hd; try discriminate.
      destruct (m =? 2); [|discriminate]. destruct (64 <? n); [discriminate|].
      apply bind_no_oof; [apply take_bytes_no_oof|]. intros [c r1] E1.
      apply take_bytes_ok in E1 as [E1 _]. apply decode_head_shorter in Hd.
      apply bind_no_oof; [|intros [cs r2] _; discriminate].
      apply IH. subst r0. rewrite app_length in Hd. cbn [length] in Hl, Hd. lia.
Qed.
Lemma rd_bounded_bytes_noof : noof rd_bounded_bytes.
Proof.
  intros bs. unfold rd_bounded_bytes. apply bind_no_oof; [apply rd_head_noof|]. intros [a r] _. destruct a as [n|].
  - apply bind_no_oof; [apply take_bytes_no_oof|]. intros [s r'] _. destruct (64 <? n); discriminate.
  - apply bind_no_oof; [apply rd_bchunks_noof; lia|]. intros [cs r'] _. discriminate.
Qed.

Lemma dec_elems_noof {A} (p : parser A) : psuffix p ->
  forall fuel ln cnt bs, (length bs < fuel)%nat -> ok_lt p (S (length bs)) -> dec_elems p fuel ln cnt bs <> OutOfFuel.
Proof.
  intros Hp. induction fuel as [|f IH]; intros ln cnt bs Hl Hn; [lia|]. cbn [dec_elems].
  destruct (match ln with Arg n => cnt <? n | Indef => true end); [|discriminate].
  apply bind_no_oof; [apply cbor_type_no_oof|]. intros t _. destruct (t =? 7).
  - apply bind_no_oof; [apply rd_special_no_oof|]. intros [s r] _.
    destruct (is_break s); [destruct ln; discriminate|discriminate].
  - apply bind_no_oof; [apply Hn; lia|]. intros [x r] Ex.
    pose proof (ssfx_length _ _ (Hp _ _ _ Ex)) as Hlen.
    apply bind_no_oof; [|intros [xs r'] _; discriminate].
    apply IH; [lia|]. eapply ok_lt_mono; [|exact Hn]. lia.
Qed.

Lemma dec_set_noof {A} (p : parser A) dbl bs : psuffix p -> ok_lt p (length bs) -> dec_set p dbl bs <> OutOfFuel.
Proof.
  intros Hp Hn. unfold dec_set. apply bind_no_oof; [apply skip_set_tag_noof|]. intros [t r0] E0.
  apply skip_set_tag_suffix in E0. apply sfx_length in E0.
  apply bind_no_oof; [destruct dbl; [apply skip_set_tag_noof|discriminate]|]. intros [t' r0'] E0'.
  assert (L0 : (length r0' <= length r0)%nat).
  { destruct dbl; [apply skip_set_tag_suffix in E0'; apply sfx_length in E0'; exact E0'|injection E0' as _ <-; lia]. }
  apply bind_no_oof; [apply rd_head_noof|]. intros [ln r1] E1.
  apply rd_head_suffix in E1. apply ssfx_length in E1.
  apply bind_no_oof; [|intros [xs r2] _; discriminate].
  apply (dec_elems_noof p Hp); [lia|]. eapply ok_lt_mono; [|exact Hn]. lia.
Qed.

(* ---------------------------------------------------------------- Plutus data *)
Section Kind.
  Variable p : parser pd.
  Hypothesis Hp : psuffix p.

  Lemma dec_constr_noof bs : ok_lt p (length bs) -> dec_constr p bs <> OutOfFuel.
  Proof.
    intros Hn. unfold dec_constr. apply bind_no_oof; [apply rd_arg_noof|]. intros [t r] E0.
    apply (rd_arg_suffix 6) in E0. apply ssfx_length in E0.
    assert (Hn' : ok_lt p (length r)) by (eapply ok_lt_mono; [|exact Hn]; lia).
    destruct (t =? 102).
    - apply bind_no_oof; [apply rd_head_noof|]. intros [ln r1] E1.
      apply rd_head_suffix in E1. apply ssfx_length in E1.
      destruct (match ln with Arg n => negb (n =? 2) | Indef => false end); [discriminate|].
      apply bind_no_oof; [apply rd_arg_noof|]. intros [alt r2] E2.
      apply (rd_arg_suffix 0) in E2. apply ssfx_length in E2.
      apply bind_no_oof.
      + apply dec_set_noof; [exact Hp|]. eapply ok_lt_mono; [|exact Hn]. lia.
      + intros [[[tg df] xs] r3] _. apply bind_no_oof; [apply close_len_noof|]. intros r4 _. discriminate.
    - destruct (compact_alt t); [|discriminate].
      apply bind_no_oof; [apply dec_set_noof; [exact Hp|exact Hn']|]. intros [[[tg df] xs] r1] _. discriminate.
  Qed.

  Lemma dec_kv_noof bs : ok_lt p (S (length bs)) -> dec_kv p bs <> OutOfFuel.
  Proof.
    intros Hn. unfold dec_kv. apply bind_no_oof; [apply Hn; lia|]. intros [k r] E.
    apply Hp in E. apply ssfx_length in E. apply bind_no_oof; [apply Hn; lia|]. intros [v r'] _. discriminate.
  Qed.

  Lemma dec_pmap_noof bs : ok_lt p (length bs) -> dec_pmap p bs <> OutOfFuel.
  Proof.
    intros Hn. unfold dec_pmap. apply bind_no_oof; [apply rd_head_noof|]. intros [ln r] E0.
    apply rd_head_suffix in E0. apply ssfx_length in E0.
    apply bind_no_oof; [|intros [kvs r'] _; discriminate].
    apply (dec_elems_noof _ (dec_kv_suffix p Hp)); [lia|].
    intros b Hb. apply dec_kv_noof. eapply ok_lt_mono; [|exact Hn]. lia.
  Qed.

  Lemma dec_plist_k_noof bs : ok_lt p (length bs) -> dec_plist_k p bs <> OutOfFuel.
  Proof.
    intros Hn. unfold dec_plist_k. apply bind_no_oof; [apply dec_set_noof; [exact Hp|exact Hn]|].
    intros [[[tg df] xs] r] _. discriminate.
  Qed.

  Lemma dec_bigint_noof bs : dec_bigint bs <> OutOfFuel.
  Proof.
    unfold dec_bigint. apply bind_no_oof; [apply cbor_type_no_oof|]. intros t _. destruct (t =? 6).
    - apply bind_no_oof; [apply rd_arg_noof|]. intros [tag r] _.
      apply bind_no_oof; [apply rd_bounded_bytes_noof|]. intros [b r'] _.
      destruct (tag =? 2); [discriminate|]. destruct (tag =? 3); discriminate.
    - destruct (t =? 0); [apply bind_no_oof; [apply rd_arg_noof|]; intros [n r] _; discriminate|].
      destruct (t =? 1); [apply bind_no_oof; [apply rd_arg_noof|]; intros [n r] _; discriminate|discriminate].
  Qed.

  Lemma dec_pbytes_noof bs : dec_pbytes bs <> OutOfFuel.
  Proof.
    unfold dec_pbytes. apply bind_no_oof; [apply rd_bounded_bytes_noof|]. intros [b r] _. discriminate.
  Qed.

  Lemma orelse_noof {A} (r : result A) k : r <> OutOfFuel -> k tt <> OutOfFuel -> orelse r k <> OutOfFuel.
  Proof. destruct r; cbn [orelse]; intros H1 H2; try congruence. Qed.

  Lemma dec_kind_noof bs : ok_lt p (length bs) -> dec_kind p bs <> OutOfFuel.
  Proof.
    intros Hn. unfold dec_kind.
    apply orelse_noof; [apply dec_constr_noof, Hn|].
    apply orelse_noof; [apply dec_pmap_noof, Hn|].
    apply orelse_noof; [apply dec_plist_k_noof, Hn|].
    apply orelse_noof; [apply dec_bigint_noof|apply dec_pbytes_noof].
  Qed.
End Kind.

Theorem dec_pd_noof : forall fuel bs, (length bs < fuel)%nat -> dec_pd fuel bs <> OutOfFuel.
Proof.
  induction fuel as [|f IH]; intros bs Hl; [lia|]. cbn [dec_pd].
  apply bind_no_oof; [|intros [[k raw] r] _; discriminate].
  unfold with_orig. apply bind_no_oof; [|intros [v r] _; discriminate].
  apply (dec_kind_noof _ (dec_pd_suffix f)). intros b Hb. apply IH. lia.
Qed.

Theorem decode_pd_noof bs : decode_pd bs <> OutOfFuel.
Proof. unfold decode_pd. apply dec_pd_noof. lia. Qed.

(* ---------------------------------------------------------------- the transaction *)
Lemma check_len_noof ln k : check_len ln k <> OutOfFuel.
Proof. unfold check_len. destruct ln as [n|]; [destruct (n =? k)|]; discriminate. Qed.

Lemma dec_vkw_noof : noof dec_vkw.
Proof.
  intros bs. unfold dec_vkw. apply bind_no_oof; [apply rd_head_noof|]. intros [ln r0] _.
  apply bind_no_oof; [apply rd_bytes_noof|]. intros [vk r1] _. destruct (negb (blen vk =? 32)); [discriminate|].
  apply bind_no_oof; [apply rd_bytes_noof|]. intros [sg r2] _. destruct (negb (blen sg =? 64)); [discriminate|].
  destruct ln as [n|]; [destruct (n =? 2); discriminate|].
  apply bind_no_oof; [apply expect_break_noof|]. intros r3 _. discriminate.
Qed.
Lemma dec_bw_noof : noof dec_bw.
Proof.
  intros bs. unfold dec_bw. apply bind_no_oof; [apply rd_head_noof|]. intros [ln r0] _.
  apply bind_no_oof; [apply check_len_noof|]. intros u _.
  apply bind_no_oof; [apply rd_bytes_noof|]. intros [vk r1] _. destruct (negb (blen vk =? 32)); [discriminate|].
  apply bind_no_oof; [apply rd_bytes_noof|]. intros [sg r2] _. destruct (negb (blen sg =? 64)); [discriminate|].
  apply bind_no_oof; [apply rd_bytes_noof|]. intros [cc r3] _.
  apply bind_no_oof; [apply rd_bytes_noof|]. intros [at_ r4] _.
  apply bind_no_oof; [apply close_len_noof|]. intros r5 _. discriminate.
Qed.
Lemma pair_items_noof : noof pair_items.
Proof.
  intros bs. unfold pair_items. apply bind_no_oof; [apply raw_item_noof|]. intros [k r] _.
  apply bind_no_oof; [apply raw_item_noof|]. intros [v r'] _. discriminate.
Qed.
Lemma dec_redeemers_noof : noof dec_redeemers.
Proof.
  intros bs. unfold dec_redeemers. apply bind_no_oof; [apply cbor_type_no_oof|]. intros t _. destruct (t =? 4).
  - apply bind_no_oof; [apply rd_head_noof|]. intros [ln r] _.
    apply bind_no_oof; [|intros [xs r'] _; discriminate].
    apply (dec_elems_noof _ raw_item_suffix); [lia|apply noof_ok_lt, raw_item_noof].
  - destruct (t =? 5); [|discriminate].
    apply bind_no_oof; [apply rd_head_noof|]. intros [ln r] _.
    apply bind_no_oof; [|intros [xs r'] _; discriminate].
    apply (dec_elems_noof _ pair_items_suffix); [lia|apply noof_ok_lt, pair_items_noof].
Qed.

Lemma dec_field_noof k : noof (dec_field k).
Proof.
  intros bs. unfold dec_field.
  destruct (k =? 0).
  { apply bind_no_oof; [apply dec_set_noof; [apply dec_vkw_suffix|apply noof_ok_lt, dec_vkw_noof]|].
    intros [[[t d] ws] r] _. discriminate. }
  destruct (k =? 2).
  { apply bind_no_oof; [apply dec_set_noof; [apply dec_bw_suffix|apply noof_ok_lt, dec_bw_noof]|].
    intros [[[t d] ws] r] _. discriminate. }
  destruct (k =? 1).
  { apply bind_no_oof; [apply dec_set_noof; [apply raw_item_suffix|apply noof_ok_lt, raw_item_noof]|].
    intros [x r] _. discriminate. }
  destruct ((k =? 3) || (k =? 6) || (k =? 7)).
  { apply bind_no_oof; [apply dec_set_noof; [apply rd_bytes_suffix|apply noof_ok_lt, rd_bytes_noof]|].
    intros [x r] _. discriminate. }
  destruct (k =? 4).
  { apply bind_no_oof; [apply dec_set_noof; [apply dec_pd_suffix|]|intros [x r] _; discriminate].
    intros b Hb. apply dec_pd_noof. lia. }
  destruct (k =? 5); [apply dec_redeemers_noof|discriminate].
Qed.

Lemma dec_wits_loop_noof : forall fuel ln read acc bs, (length bs < fuel)%nat ->
  dec_wits_loop fuel ln read acc bs <> OutOfFuel.
Proof.
  induction fuel as [|f IH]; intros ln read acc bs Hl; [lia|]. cbn [dec_wits_loop].
  destruct (match ln with Arg n => read <? n | Indef => true end); [|discriminate].
  apply bind_no_oof; [apply cbor_type_no_oof|]. intros t _. destruct (t =? 0).
  - apply bind_no_oof; [apply rd_arg_noof|]. intros [k r] Ek. destruct (7 <? k); [discriminate|].
    destruct (lookup k acc); [discriminate|].
    apply (rd_arg_suffix 0) in Ek. apply ssfx_length in Ek.
    apply bind_no_oof.
    + unfold with_orig. apply bind_no_oof; [apply dec_field_noof|]. intros [v r'] _. discriminate.
    + intros [[p raw] r'] Ef. apply (with_orig_suffix _ (dec_field_suffix k)) in Ef. apply ssfx_length in Ef.
      apply IH. lia.
  - destruct (t =? 7); [|discriminate]. destruct ln; [discriminate|].
    apply bind_no_oof; [apply expect_break_noof|]. intros r _. discriminate.
Qed.

Theorem decode_wits_noof : noof decode_wits.
Proof.
  intros bs. unfold decode_wits. apply bind_no_oof; [apply rd_head_noof|]. intros [ln r] _.
  apply bind_no_oof; [apply dec_wits_loop_noof; lia|]. intros [fs r'] _. discriminate.
Qed.

Lemma dec_tail_noof ln : noof (dec_tail ln).
Proof.
  intros bs. unfold dec_tail. apply bind_no_oof; [apply cbor_type_no_oof|]. intros t _. destruct (t =? 7).
  - apply bind_no_oof; [apply rd_special_no_oof|]. intros [s r] _. destruct s; try discriminate.
    + apply bind_no_oof; [apply check_len_noof|]. intros u _.
      apply bind_no_oof; [|intros [a r'] _; discriminate].
      unfold dec_aux_after_bool. apply bind_no_oof; [apply cbor_type_no_oof|]. intros t' _. destruct (t' =? 7).
      * apply bind_no_oof; [apply rd_special_no_oof|]. intros [s' r'] _. destruct s'; discriminate.
      * apply bind_no_oof; [apply raw_item_noof|]. intros [a r'] _. discriminate.
    + apply bind_no_oof; [apply check_len_noof|]. intros u _. discriminate.
  - apply bind_no_oof; [apply check_len_noof|]. intros u _.
    apply bind_no_oof; [apply raw_item_noof|]. intros [a r] _. discriminate.
Qed.

Lemma parse_exact_noof bs : parse_exact bs <> OutOfFuel.
Proof.
  unfold parse_exact. pose proof (parse_one_no_oof bs). destruct (parse_one bs) as [[it [|b t]]| | |]; congruence.
Qed.

Section Model.
  Variable H : bytes -> bytes.
  Variable sign_vkey : bytes -> bytes -> vkw.
  Variable sign_boot : bool -> bytes -> bytes -> bw.

  Lemma mk_fixed_noof body bb w v a : mk_fixed H body bb w v a <> OutOfFuel.
  Proof.
    unfold mk_fixed, force_set_tag. destruct (body_tags body) as [[|] [|]]; cbn [bind]; discriminate.
  Qed.

  Theorem decode_fixed_noof bs : decode_fixed H bs <> OutOfFuel.
  Proof.
    unfold decode_fixed. apply bind_no_oof; [apply rd_head_noof|]. intros [ln r0] _.
    apply bind_no_oof.
    { unfold item_with_bytes, with_orig. apply bind_no_oof; [apply parse_one_no_oof|]. intros [v r] _. discriminate. }
    intros [[bit bb] r1] _. apply bind_no_oof; [apply decode_wits_noof|]. intros [w r2] _.
    apply bind_no_oof; [apply dec_tail_noof|]. intros [[valid aux] r3] _.
    apply bind_no_oof; [apply close_len_noof|]. intros r4 _.
    apply bind_no_oof; [apply mk_fixed_noof|]. intros tx _. discriminate.
  Qed.

  Theorem apply_op_noof o tx : apply_op H sign_vkey sign_boot o tx <> OutOfFuel.
  Proof.
    destruct o; cbn [apply_op]; try discriminate.
    - apply bind_no_oof; [apply parse_exact_noof|]. intros ? _. discriminate.
    - apply bind_no_oof; [apply decode_wits_noof|]. intros [w r] _. discriminate.
    - apply bind_no_oof; [apply parse_exact_noof|]. intros ? _. discriminate.
  Qed.

  Theorem decode_fixed_body_noof bs : decode_fixed_body H bs <> OutOfFuel.
  Proof.
    unfold decode_fixed_body. apply bind_no_oof; [apply raw_item_noof|]. intros [raw r] _. discriminate.
  Qed.
End Model.
