(* The sub-stream on which the comparison with the library is exact in BOTH directions.
   The model delimits the transaction body, the auxiliary data, the native-script collection and the redeemers
   as generic items.  When each of them is accepted by the C01 schema decoder (Codec/Schema.v [dec] on the
   ledger schemas: every head width, writer key order, definite containers; value in the domain of the
   round-trip theorem), the library must accept the input too: on that sub-stream a library rejection is a
   disagreement, not a tolerated refinement.  Definitions only (used by the driver's comparison rule). *)
From CSL Require Import Base.Prelude Cbor.Head Cbor.Item Codec.Schema Ledger.Schemas Fixed.CborEv Fixed.FixedTx.
Local Open Scope N_scope.

Definition schema_depth : nat := 3.

(* text strings: the schema decoder takes any bytes, the library insists on UTF-8; the covered sub-stream keeps to
   ASCII text (what the generators produce) *)
Fixpoint ascii_item (it : item) : bool :=
  match it with
  | IText b => forallb (fun c => c <? 128) b
  | ITextChunked cs => forallb (forallb (fun c => c <? 128)) cs
  | IArray _ xs => forallb ascii_item xs
  | IMap _ kvs => forallb (fun kv => ascii_item (fst kv) && ascii_item (snd kv)) kvs
  | ITag _ x => ascii_item x
  | _ => true
  end.
Definition ascii_texts (bs : bytes) : bool :=
  match parse_exact bs with Ok it => ascii_item it | _ => false end.

(* the bytes are exactly one encoding, accepted by the schema decoder, of a value in the domain of C01's theorem *)
Definition schema_accepts (s : schema) (bs : bytes) : bool :=
  match dec s bs with
  | Ok (v, []) => wfv s v && refined writer_form s v && ascii_texts bs
  | _ => false
  end.

Definition body_covered (b : bytes) : bool := schema_accepts (TransactionBody schema_depth) b.
Definition aux_covered (a : option bytes) : bool :=
  match a with Some x => schema_accepts (AuxiliaryData schema_depth) x | None => true end.
(* the generic fields of a witness set: native scripts (1) and redeemers (5) *)
Definition wits_covered (w : wits) : bool :=
  forallb (fun kf =>
    match f_raw (snd kf) with
    | Some raw =>
      if fst kf =? 1 then schema_accepts (WsNativeScripts schema_depth) raw
      else if fst kf =? 5 then schema_accepts (Redeemers schema_depth) raw
      else true
    | None => true
    end) (w_fields w).
Definition tx_covered (tx : fixed_tx) : bool :=
  body_covered (ft_body tx) && aux_covered (ft_aux tx) && wits_covered (ft_wits tx).

(* TransactionBody::to_bytes of the parsed body of a covered input: the canonical encoding of the decoded value *)
Definition body_canonical (b : bytes) : option bytes :=
  if body_covered b then
    match dec (TransactionBody schema_depth) b with Ok (v, _) => Some (enc (TransactionBody schema_depth) v) | _ => None end
  else None.
