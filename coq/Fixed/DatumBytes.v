(* PlutusData with its original bytes.
   Mirrors rust/src/serialization/plutus/plutus_data.rs:
     PlutusData::deserialize      :211-228  (byte range of PlutusDataEnum::deserialize kept as original_bytes)
     PlutusData::serialize        :198-209  (original bytes if present, else the fresh encoding of the datum)
     PlutusDataEnum::deserialize  :131-196  (alternatives in order: constr, map, list, integer, bytes; any
                                             error of an alternative seeks back and tries the next one)
     ConstrPlutusData::deserialize :26-66, PlutusMap::deserialize :85-109, PlutusList::deserialize :272-303,
   rust/src/serialization/numeric/big_int.rs:57-103 (BigInt), rust/src/utils.rs:428-499 (bounded bytes),
   rust/src/protocol_types/plutus/plutus_data.rs:179-253 (the struct; every `new_*` constructor sets
   original_bytes = None), rust/src/utils.rs:603-605 (hash_plutus_data = blake2b256(to_bytes)).
   Every nested PlutusData node captures its own bytes; the serializer of a node that has bytes never looks at
   its children.  Definitions only; proofs in Fixed/DatumBytesProofs.v. *)
From CSL Require Import Base.Prelude Cbor.Head Cbor.Item Fixed.CborEv.
Local Open Scope N_scope.

Inductive pd : Type := PD (orig : option bytes) (k : pdk)
with pdk : Type :=
| KConstr (alt : N) (tagged definite : bool) (xs : list pd)
| KMap (kvs : list (pd * pd))
| KList (tagged definite : bool) (xs : list pd)
| KInt (z : Z)
| KBytes (b : bytes).

Definition pd_orig (d : pd) : option bytes := match d with PD o _ => o end.
Definition pd_kind (d : pd) : pdk := match d with PD _ k => k end.

(* ConstrPlutusData::compact_cbor_tag_to_alternative *)
Definition compact_alt (t : N) : option N :=
  if (121 <=? t) && (t <=? 127) then Some (t - 121)
  else if (1280 <=? t) && (t <=? 1400) then Some (t - 1280 + 7)
  else None.

Section Decode.
  Variable p : parser pd.     (* nested PlutusData::deserialize (one fuel level down) *)

  (* PlutusList::deserialize *)
  Definition dec_plist : parser (bool * bool * list pd) := dec_set p false.

  Definition dec_constr : parser pdk := fun bs =>
    let* '(t, r) := rd_tag bs in
    if t =? 102 then
      let* '(len, r1) := rd_array r in
      (* CBORReadLen::read_elems(2) ... finish(): a definite length must be exactly 2 (/repo 7266590) *)
      if (match len with Arg n => negb (n =? 2) | Indef => false end) then Err else
      let* '(alt, r2) := rd_uint r1 in
      let* '((tg, df, xs), r3) := dec_plist r2 in
      let* r4 := close_len len r3 in
      Ok (KConstr alt tg df xs, r4)
    else
      match compact_alt t with
      | Some alt => let* '((tg, df, xs), r1) := dec_plist r in Ok (KConstr alt tg df xs, r1)
      | None => Err
      end.

  Definition dec_kv : parser (pd * pd) := fun bs =>
    let* '(k, r) := p bs in let* '(v, r') := p r in Ok ((k, v), r').

  Definition dec_pmap : parser pdk := fun bs =>
    let* '(len, r) := rd_map bs in
    let* '(kvs, r') := dec_elems dec_kv (S (length r)) len 0 r in
    Ok (KMap kvs, r').

  Definition dec_plist_k : parser pdk := fun bs =>
    let* '((tg, df, xs), r) := dec_plist bs in Ok (KList tg df xs, r).

  (* BigInt::deserialize *)
  Definition dec_bigint : parser pdk := fun bs =>
    let* t := cbor_type bs in
    if t =? 6 then
      let* '(tag, r) := rd_tag bs in
      let* '(b, r') := rd_bounded_bytes r in
      if tag =? 2 then Ok (KInt (Z.of_N (unbe b 0)), r')
      else if tag =? 3 then Ok (KInt (- (Z.of_N (unbe b 0) + 1))%Z, r')
      else Err
    else if t =? 0 then let* '(n, r) := rd_uint bs in Ok (KInt (Z.of_N n), r)
    else if t =? 1 then let* '(n, r) := rd_nint bs in Ok (KInt (- 1 - Z.of_N n)%Z, r)
    else Err.

  Definition dec_pbytes : parser pdk := fun bs =>
    let* '(b, r) := rd_bounded_bytes bs in Ok (KBytes b, r).

  Definition dec_kind : parser pdk := fun bs =>
    orelse (dec_constr bs) (fun _ =>
    orelse (dec_pmap bs) (fun _ =>
    orelse (dec_plist_k bs) (fun _ =>
    orelse (dec_bigint bs) (fun _ =>
    dec_pbytes bs)))).
End Decode.

(* PlutusData::deserialize; the fuel bounds the nesting depth *)
Fixpoint dec_pd (fuel : nat) : parser pd :=
  match fuel with
  | O => fun _ => OutOfFuel
  | S f => fun bs =>
    let* '(k, raw, r) := with_orig (dec_kind (dec_pd f)) bs in
    Ok (PD (Some raw) k, r)
  end.

(* PlutusData::from_bytes (trailing bytes are not looked at) *)
Definition decode_pd (bs : bytes) : result (pd * bytes) := dec_pd (S (length bs)) bs.

Section Encode.
  (* the writer for a datum WITHOUT original bytes (built with the `new_*` constructors): the canonical
     encoder covered by C01; C04 never reaches it for decoded values, so it stays a parameter here *)
  Variable fresh : pdk -> bytes.
  Definition encode_pd (d : pd) : bytes :=
    match d with PD (Some b) _ => b | PD None k => fresh k end.
  Section Hash.
    Variable H : bytes -> bytes.
    (* hash_plutus_data *)
    Definition hash_pd (d : pd) : bytes := H (encode_pd d).
  End Hash.
End Encode.

(* constructors drop the bytes *)
Definition pd_new (k : pdk) : pd := PD None k.

(* every node reachable in a decoded datum carries its own bytes *)
Fixpoint all_orig (fuel : nat) (d : pd) : bool :=
  match fuel with
  | O => true
  | S f =>
    match d with
    | PD None _ => false
    | PD (Some _) k =>
      match k with
      | KConstr _ _ _ xs | KList _ _ xs => forallb (all_orig f) xs
      | KMap kvs => forallb (fun kv => all_orig f (fst kv) && all_orig f (snd kv)) kvs
      | _ => true
      end
    end
  end.
