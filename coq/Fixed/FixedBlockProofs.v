(* Theorems about the block-level byte-preserving views of Fixed/FixedBlock.v. *)
From CSL Require Import Base.Prelude Cbor.Head Cbor.HeadProofs Cbor.Item Cbor.ItemProofs
  Fixed.CborEv Fixed.CborEvProofs Fixed.DatumBytes Fixed.DatumBytesProofs Fixed.FixedTx Fixed.FixedTxProofs
  Fixed.FuelProofs Fixed.FixedBlock.
Local Open Scope N_scope.

(* the element loop over a reader whose result determines the bytes it consumed: the input is the
   concatenation of the elements' bytes, then the closing break (indefinite) or nothing *)
Lemma dec_elems_concat {A} (p : parser A) (slice : A -> bytes) :
  (forall bs x r, p bs = Ok (x, r) -> bs = slice x ++ r) ->
  forall fuel ln cnt bs xs r, dec_elems p fuel ln cnt bs = Ok (xs, r) ->
  exists cl, bs = concat (map slice xs) ++ cl ++ r /\ (cl = [] \/ cl = [255]).
Proof.
  intros Hp. induction fuel as [|f IH]; intros ln cnt bs xs r H; cbn [dec_elems] in H; [discriminate|].
  destruct (match ln with Arg n => cnt <? n | Indef => true end).
  - apply bind_ok in H as [t [_ H]]. destruct (t =? 7).
    + apply bind_ok in H as [[s r1] [H1 H]]. destruct (is_break s) eqn:Eb; [|discriminate].
      destruct ln; [discriminate|]. injection H as <- <-.
      assert (E : expect_break bs = Ok r1) by (unfold expect_break; rewrite H1; cbn [bind]; rewrite Eb; reflexivity).
      apply rd_special_break in E. exists [255]. split; [exact E|right; reflexivity].
    + apply bind_ok in H as [[x r1] [H1 H]]. apply bind_ok in H as [[xs' r2] [H2 H]]. injection H as <- <-.
      apply Hp in H1. apply IH in H2 as [cl [E Hcl]]. exists cl. split; [|exact Hcl].
      cbn [map concat]. rewrite H1, E. rewrite <- !app_assoc. reflexivity.
  - injection H as <- <-. exists []. split; [reflexivity|left; reflexivity].
Qed.

Section Block.
  Variable H : bytes -> bytes.

  Lemma decode_fixed_body_self bs x r : decode_fixed_body H bs = Ok (x, r) ->
    bs = fst x ++ r /\ snd x = H (fst x) /\ item_wf (fst x) = true.
  Proof.
    destruct x as [raw h]. intros E. apply fixed_body_bytes in E as [E1 [E2 E3]]. cbn [fst snd]. repeat split; assumption.
  Qed.

  Lemma decode_fixed_body_suffix : psuffix (decode_fixed_body H).
  Proof.
    intros bs x r E. unfold decode_fixed_body in E. apply bind_ok in E as [[raw r'] [E1 E]]. injection E as <- <-.
    apply raw_item_suffix in E1. exact E1.
  Qed.

  Lemma dec_elems_forall {A} (p : parser A) (P : A -> Prop) :
    (forall bs x r, p bs = Ok (x, r) -> P x) ->
    forall fuel ln cnt bs xs r, dec_elems p fuel ln cnt bs = Ok (xs, r) -> Forall P xs.
  Proof.
    intros Hp. induction fuel as [|f IH]; intros ln cnt bs xs r E; cbn [dec_elems] in E; [discriminate|].
    destruct (match ln with Arg n => cnt <? n | Indef => true end).
    - apply bind_ok in E as [t [_ E]]. destruct (t =? 7).
      + apply bind_ok in E as [[s r1] [_ E]]. destruct (is_break s); [|discriminate].
        destruct ln; [discriminate|]. injection E as <- <-. constructor.
      + apply bind_ok in E as [[x r1] [E1 E]]. apply bind_ok in E as [[xs' r2] [E2 E]]. injection E as <- <-.
        constructor; [eapply Hp, E1|eapply IH, E2].
    - injection E as <- <-. constructor.
  Qed.

  Definition body_ok (oh : bytes * bytes) : Prop := snd oh = H (fst oh) /\ item_wf (fst oh) = true.

  (* FixedTransactionBodies: the array is exactly  head ++ body_1 ++ ... ++ body_n ++ [break];  every kept
     original_bytes is that slice, every tx_hash is H of it *)
  Theorem decode_fixed_bodies_slices bs l rest : decode_fixed_bodies H bs = Ok (l, rest) ->
    exists hd cl, bs = hd ++ concat (map fst l) ++ cl ++ rest /\ hd <> [] /\ (cl = [] \/ cl = [255]) /\
                  Forall body_ok l.
  Proof.
    unfold decode_fixed_bodies. intros E. apply bind_ok in E as [[ln r] [E0 E]].
    pose proof (rd_head_suffix 4 _ _ _ E0) as [hd [-> Hne]].
    pose proof (dec_elems_concat _ fst (fun bs x r E => proj1 (decode_fixed_body_self bs x r E)) _ _ _ _ _ _ E) as [cl [-> Hcl]].
    exists hd, cl. split; [reflexivity|]. split; [exact Hne|]. split; [exact Hcl|].
    apply (dec_elems_forall _ body_ok (fun bs x r E => proj2 (decode_fixed_body_self bs x r E)) _ _ _ _ _ _ E).
  Qed.

  Lemma decode_fixed_bodies_suffix : psuffix (decode_fixed_bodies H).
  Proof.
    intros bs l r E. apply decode_fixed_bodies_slices in E as [hd [cl [-> [Hne _]]]].
    exists (hd ++ concat (map fst l) ++ cl). split; [rewrite <- !app_assoc; reflexivity|].
    destruct hd; [congruence|discriminate].
  Qed.

  Lemma raw_array_self bs x r : raw_array bs = Ok (x, r) -> bs = x ++ r /\ item_wf x = true.
  Proof.
    unfold raw_array. intros E. apply bind_ok in E as [t [_ E]]. destruct (t =? 4); [|discriminate].
    apply raw_item_self, E.
  Qed.

  (* FixedBlock: header and bodies are exact slices; block hash = H(header) [repaired] *)
  Theorem dec_block_slices w bs b rest : dec_block H w bs = Ok (b, rest) ->
    exists hd bhd cl tl,
      bs = hd ++ fb_header b ++ bhd ++ concat (map fst (fb_bodies b)) ++ cl ++ tl ++ rest /\
      item_wf (fb_header b) = true /\
      (cl = [] \/ cl = [255]) /\
      Forall body_ok (fb_bodies b) /\
      fb_hash b = H (if w then hd ++ fb_header b ++ bhd ++ concat (map fst (fb_bodies b)) ++ cl ++ tl else fb_header b).
  Proof.
    unfold dec_block. intros E. apply bind_ok in E as [[ln r0] [E0 E]].
    destruct (match ln with Arg n => n <? 4 | Indef => false end); [discriminate|].
    apply bind_ok in E as [[hdr r1] [E1 E]]. apply bind_ok in E as [[bodies r2] [E2 E]].
    apply bind_ok in E as [[ws r3] [E3 E]]. apply bind_ok in E as [[ax r4] [E4 E]].
    apply bind_ok in E as [present [_ E]]. apply bind_ok in E as [[ivn r5] [E5 E]]. apply bind_ok in E as [r6 [E6 E]].
    injection E as <- <-. cbn [fb_header fb_bodies fb_hash].
    pose proof (rd_head_suffix 4 _ _ _ E0) as [hd [-> _]].
    apply raw_item_self in E1 as [-> Hwf].
    apply decode_fixed_bodies_slices in E2 as [bhd [cl [-> [_ [Hcl Hall]]]]].
    apply raw_array_self in E3 as [-> _]. apply raw_item_self in E4 as [-> _].
    assert (S5 : exists t5, r4 = t5 ++ r5).
    { destruct present.
      - destruct (match ln with Arg n => negb (n =? 5) | Indef => false end); [discriminate|].
        apply bind_ok in E5 as [[iv r'] [E5 E5']]. injection E5' as _ <-. apply raw_array_self in E5 as [-> _].
        exists iv. reflexivity.
      - injection E5 as _ <-. exists []. reflexivity. }
    destruct S5 as [t5 ->]. apply close_len_shape in E6 as [c6 [-> _]].
    exists hd, bhd, cl, (ws ++ ax ++ t5 ++ c6). rewrite <- !app_assoc.
    split; [reflexivity|]. split; [exact Hwf|]. split; [exact Hcl|]. split; [exact Hall|].
    destruct w; [|reflexivity]. f_equal.
    replace (hd ++ hdr ++ bhd ++ concat (map fst bodies) ++ cl ++ ws ++ ax ++ t5 ++ c6 ++ r6)
      with ((hd ++ hdr ++ bhd ++ concat (map fst bodies) ++ cl ++ ws ++ ax ++ t5 ++ c6) ++ r6)
      by (rewrite <- !app_assoc; reflexivity).
    apply firstn_consumed.
  Qed.

  Theorem fixed_block_slices bs b rest : decode_fixed_block H bs = Ok (b, rest) ->
    exists hd bhd cl tl,
      bs = hd ++ fb_header b ++ bhd ++ concat (map fst (fb_bodies b)) ++ cl ++ tl ++ rest /\
      item_wf (fb_header b) = true /\ (cl = [] \/ cl = [255]) /\
      Forall body_ok (fb_bodies b) /\ fb_hash b = H (fb_header b).
  Proof. intros E. apply (dec_block_slices false) in E. exact E. Qed.

  Lemma dec_block_suffix w : psuffix (dec_block H w).
  Proof.
    intros bs b r E. apply dec_block_slices in E as [hd [bhd [cl [tl [-> [Hwf _]]]]]].
    exists (hd ++ fb_header b ++ bhd ++ concat (map fst (fb_bodies b)) ++ cl ++ tl).
    split; [rewrite <- !app_assoc; reflexivity|].
    intros E. apply app_eq_nil in E as [_ E]. apply app_eq_nil in E as [E _]. rewrite E in Hwf. discriminate.
  Qed.

  (* FixedVersionedBlock: the block inside is read by the same reader *)
  Theorem versioned_block_inner bs era b rest : decode_versioned_block H bs = Ok ((era, b), rest) ->
    era < 4294967296 /\
    exists pre inner post, bs = pre ++ inner ++ post ++ rest /\ pre <> [] /\
      decode_fixed_block H (inner ++ post ++ rest) = Ok (b, post ++ rest) /\ (post = [] \/ post = [255]) /\
      fb_hash b = H (fb_header b) /\ Forall body_ok (fb_bodies b).
  Proof.
    unfold decode_versioned_block. intros E. apply bind_ok in E as [[ln r0] [E0 E]]. apply bind_ok in E as [u [_ E]].
    apply bind_ok in E as [[e r1] [E1 E]]. destruct (4294967295 <? e) eqn:Ee; [discriminate|].
    apply bind_ok in E as [[b' r2] [E2 E]]. apply bind_ok in E as [r3 [E3 E]]. injection E as <- <- <-.
    split; [lia|].
    pose proof (rd_head_suffix 4 _ _ _ E0) as [p0 [-> Hne]]. pose proof (rd_arg_suffix 0 _ _ _ E1) as [p1 [-> _]].
    pose proof (dec_block_suffix false _ _ _ E2) as [inner [-> _]]. apply close_len_shape in E3 as [post [-> Hpost]].
    pose proof (fixed_block_slices _ _ _ E2) as [_ [_ [_ [_ [_ [_ [_ [Hall Hh]]]]]]]].
    exists (p0 ++ p1), inner, post. rewrite <- !app_assoc. split; [reflexivity|].
    split; [destruct p0; [congruence|discriminate]|]. split; [exact E2|]. split; [exact Hpost|]. split; assumption.
  Qed.

  (* fuel *)
  Lemma decode_fixed_bodies_noof : noof (decode_fixed_bodies H).
  Proof.
    intros bs. unfold decode_fixed_bodies. apply bind_no_oof; [apply rd_head_noof|]. intros [ln r] _.
    apply (dec_elems_noof _ decode_fixed_body_suffix); [lia|]. apply noof_ok_lt. intros b. apply decode_fixed_body_noof.
  Qed.
  Lemma raw_array_noof : noof raw_array.
  Proof.
    intros bs. unfold raw_array. apply bind_no_oof; [apply cbor_type_no_oof|]. intros t _.
    destruct (t =? 4); [apply raw_item_noof|discriminate].
  Qed.
  Theorem dec_block_noof w : noof (dec_block H w).
  Proof.
    intros bs. unfold dec_block. apply bind_no_oof; [apply rd_head_noof|]. intros [ln r0] _.
    destruct (match ln with Arg n => n <? 4 | Indef => false end); [discriminate|].
    apply bind_no_oof; [apply raw_item_noof|]. intros [hdr r1] _.
    apply bind_no_oof; [apply decode_fixed_bodies_noof|]. intros [bodies r2] _.
    apply bind_no_oof; [apply raw_array_noof|]. intros [ws r3] _.
    apply bind_no_oof; [apply raw_item_noof|]. intros [ax r4] _.
    apply bind_no_oof.
    { destruct ln; [discriminate|]. apply bind_no_oof; [apply cbor_type_no_oof|]. intros t _. discriminate. }
    intros present _. apply bind_no_oof.
    { destruct present; [|discriminate].
      destruct (match ln with Arg n => negb (n =? 5) | Indef => false end); [discriminate|].
      apply bind_no_oof; [apply raw_array_noof|]. intros [iv r] _. discriminate. }
    intros [ivn r5] _. apply bind_no_oof; [apply close_len_noof|]. intros r6 _. discriminate.
  Qed.
  Theorem decode_versioned_block_noof : noof (decode_versioned_block H).
  Proof.
    intros bs. unfold decode_versioned_block. apply bind_no_oof; [apply rd_head_noof|]. intros [ln r0] _.
    apply bind_no_oof; [apply check_len_noof|]. intros u _.
    apply bind_no_oof; [apply rd_arg_noof|]. intros [e r1] _. destruct (4294967295 <? e); [discriminate|].
    apply bind_no_oof; [apply dec_block_noof|]. intros [b r2] _.
    apply bind_no_oof; [apply close_len_noof|]. intros r3 _. discriminate.
  Qed.
End Block.

(* the block hash as it was before /repo c6f013f: H of the whole block, not of the header *)
Definition tiny_block : bytes := [132; 128; 129; 160; 128; 160].     (* [ [], [ {} ], [], {} ] *)
Theorem old_block_hash_refuted :
  exists b, decode_fixed_block_old Hid tiny_block = Ok (b, []) /\ fb_header b = [128] /\
            fb_hash b = Hid tiny_block /\ fb_hash b <> Hid (fb_header b) /\
            exists b', decode_fixed_block Hid tiny_block = Ok (b', []) /\ fb_hash b' = Hid (fb_header b') /\
                       fb_bodies b' = [([160], Hid [160])].
Proof.
  eexists. split; [vm_compute; reflexivity|]. split; [reflexivity|]. split; [reflexivity|]. split; [vm_compute; discriminate|].
  eexists. split; [vm_compute; reflexivity|]. split; reflexivity.
Qed.

(* non-vacuity: an indefinite-length versioned block with two bodies (one with a non-minimal key head) and the
   invalid-transaction list *)
Example versioned_block_example :
  exists b, decode_versioned_block Hid ([159; 7] ++ [159; 130; 1; 2; 159; 160; 161; 24; 0; 128; 255; 128; 160; 129; 0; 255] ++ [255; 9])
            = Ok ((7, b), [9]) /\ map fst (fb_bodies b) = [[160]; [161; 24; 0; 128]] /\ fb_header b = [130; 1; 2].
Proof. eexists. split; [vm_compute; reflexivity|]. split; reflexivity. Qed.
