(* FixedTransaction: the byte-preserving transaction (model).  Mirrors
     rust/src/serialization/fixed_tx.rs:4-124                (Serialize / Deserialize / embedded group)
     rust/src/protocol_types/fixed_tx.rs:23-245              (constructors, setters, add/sign operations)
     rust/src/protocol_types/witnesses/fixed_tx_witnesses_set.rs:21-109
     rust/src/serialization/witnesses/fixed_tx_witnesses_set.rs
     rust/src/serialization/witnesses/transaction_witnesses_set.rs:27-198 (deserialize, raw parts)
                                                                :200-314 (serialize with raw parts; as of
                                                                          /repo 7a5b266 the map length counts
                                                                          exactly the fields that are written)
     rust/src/serialization/witnesses/{vkeywitnesses,vkeywitness,bootstrap_witnesses,bootstrap_witness}.rs
     rust/src/serialization/{native_scripts.rs:40-72, plutus/plutus_scripts.rs:80-107, plutus/redeemers.rs:27-77}
                                                             (container loops; elements generic, see below)
     rust/src/utils.rs:1126-1266                             (has_transaction_set_tag_internal)
     rust/src/serialization/block/fixed_transaction_body.rs  (FixedTransactionBody)
   What is abstracted: the transaction body, the auxiliary data, native scripts and redeemers (as elements)
   are delimited as ONE generic CBOR item each (Cbor/Item.v) - the library additionally validates their
   contents, i.e. it rejects some inputs this model accepts (refinement; compared one-sidedly).  Everything
   that decides which bytes are kept, dropped, re-encoded or counted is modelled exactly: outer array (3 or 4 items), the
   witness-set map loop (key order, duplicates, indefinite length), per-field byte capture, the collection
   loops incl. their "break inside a definite array" behaviour, set tags, vkey / bootstrap witnesses, Plutus
   scripts (byte strings) and Plutus data elements, is_valid / auxiliary-data look-ahead, the tag state.
   Definitions only; proofs in Fixed/FixedTxProofs.v. *)
From CSL Require Import Base.Prelude Cbor.Head Cbor.Item Fixed.CborEv Fixed.DatumBytes.
Local Open Scope N_scope.

Definition vkw : Type := bytes * bytes.                      (* vkey (32), signature (64) *)
Definition bw : Type := bytes * bytes * bytes * bytes.       (* vkey, signature, chain code, attributes *)

Definition vkw_eqb (a b : vkw) : bool := bytes_eqb (fst a) (fst b) && bytes_eqb (snd a) (snd b).
Definition bw_eqb (a b : bw) : bool :=
  match a, b with (a1, a2, a3, a4), (b1, b2, b3, b4) =>
    bytes_eqb a1 b1 && bytes_eqb a2 b2 && bytes_eqb a3 b3 && bytes_eqb a4 b4 end.

(* Vkeywitnesses::add / add_move, BootstrapWitnesses::add / from_vec: append unless already present *)
Definition dedup_add {A} (eqb : A -> A -> bool) (l : list A) (x : A) : list A :=
  if existsb (eqb x) l then l else l ++ [x].
Definition dedup_list {A} (eqb : A -> A -> bool) (l : list A) : list A := fold_left (dedup_add eqb) l [].

Definition blen (b : bytes) : N := len b.

(* Vkeywitness::deserialize *)
Definition dec_vkw : parser vkw := fun bs =>
  let* '(ln, r0) := rd_array bs in
  let* '(vk, r1) := rd_bytes r0 in
  if negb (blen vk =? 32) then Err else
  let* '(sg, r2) := rd_bytes r1 in
  if negb (blen sg =? 64) then Err else
  match ln with
  | Arg n => if n =? 2 then Ok ((vk, sg), r2) else Err
  | Indef => let* r3 := expect_break r2 in Ok ((vk, sg), r3)
  end.

(* BootstrapWitness::deserialize: a definite length must be 4 (check_len, /repo 3be5cfb) *)
Definition dec_bw : parser bw := fun bs =>
  let* '(ln, r0) := rd_array bs in
  let* _ := check_len ln 4 in
  let* '(vk, r1) := rd_bytes r0 in
  if negb (blen vk =? 32) then Err else
  let* '(sg, r2) := rd_bytes r1 in
  if negb (blen sg =? 64) then Err else
  let* '(cc, r3) := rd_bytes r2 in
  let* '(at_, r4) := rd_bytes r3 in
  let* r5 := close_len ln r4 in
  Ok ((vk, sg, cc, at_), r5).

(* parsed form of a witness-set field, as far as the byte-preserving paths look at it *)
Inductive fparsed :=
| PVk (tagged : bool) (ws : list vkw)
| PBw (tagged : bool) (ws : list bw)
| PGen (tagged : bool) (count : nat).      (* tag flag and number of elements *)

Definition fp_tagged (p : fparsed) : bool :=
  match p with PVk t _ | PBw t _ | PGen t _ => t end.
Definition fp_empty (p : fparsed) : bool :=
  match p with PVk _ [] | PBw _ [] | PGen _ O => true | _ => false end.

Definition gen_of {A} (x : bool * bool * list A) : fparsed :=
  match x with (t, _, xs) => PGen t (length xs) end.

Definition pair_items : parser (bytes * bytes) := fun bs =>
  let* '(k, r) := raw_item bs in let* '(v, r') := raw_item r in Ok ((k, v), r').

(* Redeemers::deserialize: an array of redeemers or a map (redeemer key -> value) *)
Definition dec_redeemers : parser fparsed := fun bs =>
  let* t := cbor_type bs in
  if t =? 4 then
    let* '(ln, r) := rd_array bs in
    let* '(xs, r') := dec_elems raw_item (S (length r)) ln 0 r in Ok (PGen false (length xs), r')
  else if t =? 5 then
    let* '(ln, r) := rd_map bs in
    let* '(xs, r') := dec_elems pair_items (S (length r)) ln 0 r in Ok (PGen false (length xs), r')
  else Err.

(* the value parser of witness-set key k (transaction_witnesses_set.rs:47-152) *)
Definition dec_field (k : N) : parser fparsed := fun bs =>
  if k =? 0 then                                   (* Vkeywitnesses: set tag skipped twice *)
    let* '((t, _, ws), r) := dec_set dec_vkw true bs in Ok (PVk t (dedup_list vkw_eqb ws), r)
  else if k =? 2 then
    let* '((t, _, ws), r) := dec_set dec_bw false bs in Ok (PBw t (dedup_list bw_eqb ws), r)
  else if k =? 1 then                              (* NativeScripts: elements generic *)
    let* '(x, r) := dec_set raw_item false bs in Ok (gen_of x, r)
  else if (k =? 3) || (k =? 6) || (k =? 7) then    (* PlutusScripts::deserialize_with_version: byte strings *)
    let* '(x, r) := dec_set rd_bytes false bs in Ok (gen_of x, r)
  else if k =? 4 then                              (* PlutusList of PlutusData *)
    let* '(x, r) := dec_set (dec_pd (S (length bs))) false bs in Ok (gen_of x, r)
  else if k =? 5 then dec_redeemers bs
  else Err.

Record fstate := { f_raw : option bytes; f_parsed : fparsed }.

Fixpoint lookup {A} (k : N) (l : list (N * A)) : option A :=
  match l with
  | [] => None
  | (k', v) :: t => if k =? k' then Some v else lookup k t
  end.
Fixpoint update {A} (k : N) (v : A) (l : list (N * A)) : list (N * A) :=
  match l with
  | [] => [(k, v)]
  | (k', v') :: t => if k =? k' then (k, v) :: t else (k', v') :: update k v t
  end.

Record wits := { w_fields : list (N * fstate); w_set_tags : bool }.

(* the key loop of transaction_witnesses_set.rs:42-181 *)
Fixpoint dec_wits_loop (fuel : nat) (ln : harg) (read : N) (acc : list (N * fstate)) (bs : bytes)
  : result (list (N * fstate) * bytes) :=
  match fuel with
  | O => OutOfFuel
  | S f =>
    if (match ln with Arg n => read <? n | Indef => true end) then
      let* t := cbor_type bs in
      if t =? 0 then
        let* '(k, r) := rd_uint bs in
        if 7 <? k then Err                                    (* UnknownKey *)
        else match lookup k acc with
             | Some _ => Err                                  (* DuplicateKey *)
             | None =>
               let* '(p, raw, r') := with_orig (dec_field k) r in
               dec_wits_loop f ln (read + 1) (acc ++ [(k, {| f_raw := Some raw; f_parsed := p |})]) r'
             end
      else if t =? 7 then
        match ln with
        | Arg _ => Err                                        (* BreakInDefiniteLen *)
        | Indef => let* r := expect_break bs in Ok (acc, r)
        end
      else Err                                                (* text key: UnknownKey; others: UnexpectedKeyType *)
    else Ok (acc, bs)
  end.

(* FixedTxWitnessesSet::deserialize (+ ::new: transaction_has_set_tags = true) *)
Definition decode_wits : parser wits := fun bs =>
  let* '(ln, r) := rd_map bs in
  let* '(fs, r') := dec_wits_loop (S (length r)) ln 0 [] r in
  Ok ({| w_fields := fs; w_set_tags := true |}, r').

Definition wits_empty : wits := {| w_fields := []; w_set_tags := true |}.

(* ---------------------------------------------------------------- tag state *)
(* has_transaction_witnesses_set_tag: (some set is tagged, some set is untagged); redeemers do not count;
   absent Plutus-script versions inherit the flag of a present one (PlutusScripts::from_vec / merge) *)
Definition wits_tags (w : wits) : bool * bool :=
  let fs := filter (fun kf => negb (fst kf =? 5)) (w_fields w) in
  (existsb (fun kf => fp_tagged (f_parsed (snd kf))) fs,
   existsb (fun kf => negb (fp_tagged (f_parsed (snd kf)))) fs).

Definition is_tagged (it : item) : bool := match it with ITag _ _ => true | _ => false end.
Definition acc_tag (it : item) (st : bool * bool) : bool * bool :=
  if is_tagged it then (true, snd st) else (fst st, true).
Definition acc_key (b : item) (k : N) (st : bool * bool) : bool * bool :=
  match map_lookup_uint k b with Some it => acc_tag it st | None => st end.
Definition set_elems (it : item) : list item :=
  match strip_tags it with IArray _ xs => xs | _ => [] end.
Definition key_elems (b : item) (k : N) : list item :=
  match map_lookup_uint k b with Some it => set_elems it | None => [] end.

(* has_transaction_body_set_tag on the body item: inputs 0, reference inputs 18, required signers 14,
   voting proposals 20, collateral 13, certificates 4, pool owners of pool registrations
   [3, operator, vrf, pledge, cost, margin, reward account, OWNERS, relays, metadata], members to remove of
   update-committee actions [deposit, reward account, [4, prev, REMOVE, add, quorum], anchor] *)
Definition body_tags (b : item) : bool * bool :=
  let st := fold_left (fun st k => acc_key b k st) [0; 18; 14; 20; 13; 4] (false, false) in
  let st := fold_left (fun st c =>
              match c with
              | IArray _ (IUint 3 :: rest) =>
                  match nth_error rest 6 with Some owners => acc_tag owners st | None => st end
              | _ => st
              end) (key_elems b 4) st in
  fold_left (fun st p =>
     match p with
     | IArray _ (_ :: _ :: IArray _ (IUint 4 :: _ :: rem :: _) :: _) => acc_tag rem st
     | _ => st
     end) (key_elems b 20) st.

(* new_with_original_bytes: force_set_tag = not AllSetsHaveNoTag; Err = "Transaction has invalid state" *)
Definition force_set_tag (body : item) (w : option wits) : result bool :=
  match body_tags body with
  | (false, false) => Err
  | (bt, _) =>
    let wt := match w with Some w => fst (wits_tags w) | None => false end in
    Ok (bt || wt)
  end.

(* ---------------------------------------------------------------- fresh encodings of the two signature sets *)
Definition vkw_item (w : vkw) : item := IArray true [IBytes (fst w); IBytes (snd w)].
Definition bw_item (w : bw) : item :=
  match w with (vk, sg, cc, at_) => IArray true [IBytes vk; IBytes sg; IBytes cc; IBytes at_] end.
Definition set_item (tagged : bool) (xs : list item) : item :=
  if tagged then ITag 258 (IArray true xs) else IArray true xs.
(* Vkeywitnesses / BootstrapWitnesses::serialize with force_original_cbor_set_type *)
Definition enc_vkeys (t : bool) (ws : list vkw) : bytes := encode_item (set_item t (map vkw_item ws)).
Definition enc_boots (t : bool) (ws : list bw) : bytes := encode_item (set_item t (map bw_item ws)).

(* ---------------------------------------------------------------- witness-set serializer *)
(* the value written for a field: its original bytes if kept, else the fresh encoding when non-empty.
   (For the generic fields the bytes are always kept: FixedTxWitnessesSet only drops those of key 0 and 2.) *)
Definition written (f : fstate) : option bytes :=
  match f_raw f with
  | Some raw => Some raw
  | None =>
    match f_parsed f with
    | PVk t ws => if fp_empty (PVk t ws) then None else Some (enc_vkeys t ws)
    | PBw t ws => if fp_empty (PBw t ws) then None else Some (enc_boots t ws)
    | PGen _ _ => None
    end
  end.

Definition key_order : list N := [0; 1; 2; 3; 6; 7; 4; 5].

Definition entries_by (wr : N -> fstate -> option bytes) (w : wits) : list (N * bytes) :=
  flat_map (fun k => match lookup k (w_fields w) with
                     | Some f => match wr k f with Some v => [(k, v)] | None => [] end
                     | None => []
                     end) key_order.
Definition entries (w : wits) : list (N * bytes) := entries_by (fun _ => written) w.

Definition enc_entry (kv : N * bytes) : bytes := encode_head 0 (fst kv) ++ snd kv.
Definition encode_map (count : N) (es : list (N * bytes)) : bytes :=
  encode_head 5 count ++ flat_map enc_entry es.

(* serialize(wit_set, Some(raw_parts), _) as repaired: length = number of fields written *)
Definition encode_wits (w : wits) : bytes := encode_map (len (entries w)) (entries w).

(* the serializer BEFORE /repo 7a5b266 (kept for the refutation theorem and the regression witness):
   length = [vkeys present] + [non-empty] for 1,2,4,5 + [some script of that version] for 3,6,7, while
   fields 0,1,2,4,5 were written whenever original bytes exist and 3,6,7 only when non-empty *)
Definition old_written (k : N) (f : fstate) : option bytes :=
  if (k =? 3) || (k =? 6) || (k =? 7) then (if fp_empty (f_parsed f) then None else written f) else written f.
Definition old_count (w : wits) : N :=
  len (filter (fun k => match lookup k (w_fields w) with
                        | Some f => (k =? 0) || negb (fp_empty (f_parsed f))
                        | None => false
                        end) key_order).
Definition encode_wits_old (w : wits) : bytes := encode_map (old_count w) (entries_by old_written w).

(* ---------------------------------------------------------------- FixedTxWitnessesSet::add_* *)
Definition add_vkey (x : vkw) (w : wits) : wits :=
  let f := match lookup 0 (w_fields w) with
           | Some {| f_parsed := PVk t ws |} => PVk t (dedup_add vkw_eqb ws x)
           | _ => PVk (w_set_tags w) [x]
           end in
  {| w_fields := update 0 {| f_raw := None; f_parsed := f |} (w_fields w); w_set_tags := w_set_tags w |}.
Definition add_boot (x : bw) (w : wits) : wits :=
  let f := match lookup 2 (w_fields w) with
           | Some {| f_parsed := PBw t ws |} => PBw t (dedup_add bw_eqb ws x)
           | _ => PBw (w_set_tags w) [x]
           end in
  {| w_fields := update 2 {| f_raw := None; f_parsed := f |} (w_fields w); w_set_tags := w_set_tags w |}.

(* ---------------------------------------------------------------- the transaction *)
Record fixed_tx := {
  ft_body : bytes;              (* body_bytes *)
  ft_hash : bytes;              (* tx_hash *)
  ft_wits : wits;
  ft_valid : bool;
  ft_aux : option bytes         (* auxiliary_bytes *)
}.

(* one generic item and its exact bytes *)
Definition item_with_bytes : parser (item * bytes) := with_orig parse_one.

(* is_valid / auxiliary data look-ahead of deserialize_as_embedded_group (fixed_tx.rs:57-107) *)
Definition dec_aux_after_bool : parser (option bytes) := fun bs =>
  let* t := cbor_type bs in
  if t =? 7 then
    let* '(s, r) := rd_special bs in
    match s with SpNull => Ok (None, r) | _ => Err end
  else let* '(a, r) := raw_item bs in Ok (Some a, r).

(* as of /repo 3be5cfb a definite outer length must be 4 when the bool is there and 3 otherwise *)
Definition dec_tail (ln : harg) : parser (bool * option bytes) := fun bs =>
  let* t := cbor_type bs in
  if t =? 7 then
    let* '(s, r) := rd_special bs in
    match s with
    | SpBool b => let* _ := check_len ln 4 in let* '(a, r') := dec_aux_after_bool r in Ok ((b, a), r')
    | SpNull => let* _ := check_len ln 3 in Ok ((true, None), r)
    | _ => Err
    end
  else let* _ := check_len ln 3 in let* '(a, r) := raw_item bs in Ok ((true, Some a), r).

Inductive op :=
| OAddVkey (w : vkw)            (* add_vkey_witness *)
| OAddBoot (w : bw)             (* add_bootstrap_witness *)
| OSignVkey (key : bytes)       (* sign_and_add_vkey_signature *)
| OSignIcarus (key : bytes)     (* sign_and_add_icarus_bootstrap_signature (address + key) *)
| OSignDaedalus (key : bytes)   (* sign_and_add_daedalus_bootstrap_signature *)
| OSetBody (b : bytes)
| OSetWits (b : bytes)
| OSetValid (v : bool)
| OSetAux (b : bytes).

(* the operations of the property's history quantifier *)
Definition is_sig_op (o : op) : bool :=
  match o with OAddVkey _ | OAddBoot _ | OSignVkey _ | OSignIcarus _ | OSignDaedalus _ => true | _ => false end.
(* the witness-set key an operation rewrites (None: it does not touch the witness set);
   set_witness_set replaces every field *)
Definition touches (o : op) (k : N) : bool :=
  match o with
  | OAddVkey _ | OSignVkey _ => k =? 0
  | OAddBoot _ | OSignIcarus _ | OSignDaedalus _ => k =? 2
  | OSetWits _ => true
  | _ => false
  end.

Section Model.
  Variable H : bytes -> bytes.                         (* Blake2b-256 (external; no law is used) *)
  Variable sign_vkey : bytes -> bytes -> vkw.          (* make_vkey_witness key hash (Ed25519, external) *)
  Variable sign_boot : bool -> bytes -> bytes -> bw.   (* make_{icarus,daedalus}_bootstrap_witness (external) *)

  (* FixedTransaction::new_with_original_bytes *)
  Definition mk_fixed (body : item) (bb : bytes) (w : wits) (valid : bool) (aux : option bytes) : result fixed_tx :=
    let* force := force_set_tag body (Some w) in
    Ok {| ft_body := bb; ft_hash := H bb;
          ft_wits := {| w_fields := w_fields w; w_set_tags := force |};
          ft_valid := valid; ft_aux := aux |}.

  (* FixedTransaction::deserialize (from_bytes ignores what follows) *)
  Definition decode_fixed : parser fixed_tx := fun bs =>
    let* '(ln, r0) := rd_array bs in
    let* '(bit, bb, r1) := item_with_bytes r0 in
    let* '(w, r2) := decode_wits r1 in
    let* '(valid, aux, r3) := dec_tail ln r2 in
    let* r4 := close_len ln r3 in
    let* tx := mk_fixed bit bb w valid aux in
    Ok (tx, r4).

  (* FixedTransaction::new / new_with_auxiliary / new_from_body_bytes: the body and auxiliary-data arguments
     are kept whole and must be exactly one item (deserialize_whole, /repo 5b2f744 + dea2b79); what follows
     the witness-set argument is ignored (the witness set is re-assembled field by field anyway) *)
  Definition fixed_new (raw_body raw_wits : bytes) (valid : bool) (raw_aux : option bytes) : result fixed_tx :=
    let* bit := parse_exact raw_body in
    let* '(w, _) := decode_wits raw_wits in
    let* _ := match raw_aux with Some a => let* _ := parse_exact a in Ok tt | None => Ok tt end in
    mk_fixed bit raw_body w valid raw_aux.
  Definition fixed_new_from_body (raw_body : bytes) : result fixed_tx :=
    let* bit := parse_exact raw_body in                  (* deserialize_whole: nothing may follow (/repo 5b2f744) *)
    let* force := force_set_tag bit None in
    Ok {| ft_body := raw_body; ft_hash := H raw_body;
          ft_wits := {| w_fields := []; w_set_tags := force |}; ft_valid := true; ft_aux := None |}.

  Definition with_wits (f : wits -> wits) (tx : fixed_tx) : fixed_tx :=
    {| ft_body := ft_body tx; ft_hash := ft_hash tx; ft_wits := f (ft_wits tx);
       ft_valid := ft_valid tx; ft_aux := ft_aux tx |}.

  Definition apply_op (o : op) (tx : fixed_tx) : result fixed_tx :=
    match o with
    | OAddVkey x => Ok (with_wits (add_vkey x) tx)
    | OAddBoot x => Ok (with_wits (add_boot x) tx)
    | OSignVkey k => Ok (with_wits (add_vkey (sign_vkey k (ft_hash tx))) tx)
    | OSignIcarus k => Ok (with_wits (add_boot (sign_boot false k (ft_hash tx))) tx)
    | OSignDaedalus k => Ok (with_wits (add_boot (sign_boot true k (ft_hash tx))) tx)
    | OSetBody b =>                                    (* as of /repo be1619f the hash follows the body;
                                                          deserialize_whole: nothing may follow (5b2f744) *)
      let* _ := parse_exact b in
      Ok {| ft_body := b; ft_hash := H b; ft_wits := ft_wits tx; ft_valid := ft_valid tx; ft_aux := ft_aux tx |}
    | OSetWits b =>                                    (* FixedTxWitnessesSet::from_bytes: set tags flag back to true *)
      let* '(w, _) := decode_wits b in
      Ok {| ft_body := ft_body tx; ft_hash := ft_hash tx; ft_wits := w; ft_valid := ft_valid tx; ft_aux := ft_aux tx |}
    | OSetValid v =>
      Ok {| ft_body := ft_body tx; ft_hash := ft_hash tx; ft_wits := ft_wits tx; ft_valid := v; ft_aux := ft_aux tx |}
    | OSetAux b =>
      let* _ := parse_exact b in
      Ok {| ft_body := ft_body tx; ft_hash := ft_hash tx; ft_wits := ft_wits tx; ft_valid := ft_valid tx; ft_aux := Some b |}
    end.

  (* a failing setter returns its error before changing anything *)
  Definition step (tx : fixed_tx) (o : op) : fixed_tx :=
    match apply_op o tx with Ok tx' => tx' | _ => tx end.
  Definition run_ops (ops : list op) (tx : fixed_tx) : fixed_tx := fold_left step ops tx.

  (* set_body as it was before /repo be1619f: the hash is not recomputed *)
  Definition step_old (tx : fixed_tx) (o : op) : fixed_tx :=
    match o with
    | OSetBody b =>
      match parse_exact b with
      | Ok _ => {| ft_body := b; ft_hash := ft_hash tx; ft_wits := ft_wits tx; ft_valid := ft_valid tx; ft_aux := ft_aux tx |}
      | _ => tx
      end
    | _ => step tx o
    end.

  (* FixedTransactionBody::deserialize: (original_bytes, tx_hash) *)
  Definition decode_fixed_body : parser (bytes * bytes) := fun bs =>
    let* '(raw, r) := raw_item bs in Ok ((raw, H raw), r).
End Model.

(* FixedTransaction::serialize *)
Definition enc_valid (v : bool) : bytes := [if v then 245 else 244].
Definition enc_aux (a : option bytes) : bytes := match a with Some b => b | None => [246] end.
Definition encode_fixed (tx : fixed_tx) : bytes :=
  [132] ++ ft_body tx ++ encode_wits (ft_wits tx) ++ enc_valid (ft_valid tx) ++ enc_aux (ft_aux tx).

(* =============================================================== specification side ==========
   The judge: C04's statement as an executable predicate over (input bytes, operations, what the
   implementation reported).  It slices the INPUT with the generic item reader only (no definition of the
   model decoder above is used), so it is an independent reading of "the body bytes / the auxiliary-data
   bytes / the bytes of witness-set field k of the input". *)

(* key/value slices of a CBOR map whose keys are unsigned integers *)
Fixpoint map_slices_n (k : nat) (bs : bytes) : option (list (N * bytes) * bytes) :=
  match k with
  | O => Some ([], bs)
  | S k' =>
    match parse_one bs with
    | Ok (IUint key, r) =>
      match skip_item r with
      | Ok (v, r') =>
        match map_slices_n k' r' with Some (es, r'') => Some ((key, v) :: es, r'') | None => None end
      | _ => None
      end
    | _ => None
    end
  end.
Fixpoint map_slices_brk (fuel : nat) (bs : bytes) : option (list (N * bytes) * bytes) :=
  match bs with
  | [] => None
  | b :: t =>
    if b =? 255 then Some ([], t) else
    match fuel with
    | O => None
    | S f =>
      match parse_one bs with
      | Ok (IUint key, r) =>
        match skip_item r with
        | Ok (v, r') =>
          match map_slices_brk f r' with Some (es, r'') => Some ((key, v) :: es, r'') | None => None end
        | _ => None
        end
      | _ => None
      end
    end
  end.
Definition map_slices (bs : bytes) : option (list (N * bytes) * bytes) :=
  match decode_head bs with
  | Some (5, Arg n, r) => if n <=? len r then map_slices_n (N.to_nat n) r else None
  | Some (5, Indef, r) => map_slices_brk (length r) r
  | _ => None
  end.

Record spec_tx := { sp_body : bytes; sp_fields : list (N * bytes); sp_valid : bool; sp_aux : option bytes }.

Definition spec_tail (bs : bytes) : option (bool * option bytes * bytes) :=
  match parse_one bs with
  | Ok (ISimple 22, r) => Some (true, None, r)
  | Ok (ISimple v, r) =>
    if (v =? 20) || (v =? 21) then
      match parse_one r with
      | Ok (ISimple 22, r') => Some (v =? 21, None, r')
      | Ok (ISimple _, _) | Ok (IFloat _ _, _) => None
      | Ok (_, _) => match skip_item r with Ok (a, r') => Some (v =? 21, Some a, r') | _ => None end
      | _ => None
      end
    else None
  | Ok (IFloat _ _, _) => None
  | Ok (_, _) => match skip_item bs with Ok (a, r) => Some (true, Some a, r) | _ => None end
  | _ => None
  end.

(* the input read as  array-head  body  {k: field ...}  [bool]  aux|null  [break] *)
Definition spec_slices (bs : bytes) : option spec_tx :=
  match decode_head bs with
  | Some (4, ln, r0) =>
    match skip_item r0 with
    | Ok (body, r1) =>
      match map_slices r1 with
      | Some (fs, r2) =>
        match spec_tail r2 with
        | Some (v, a, r3) =>
          let closed := match ln with Arg _ => true | Indef => match r3 with b :: _ => b =? 255 | [] => false end end in
          if closed then Some {| sp_body := body; sp_fields := fs; sp_valid := v; sp_aux := a |} else None
        | None => None
        end
      | None => None
      end
    | _ => None
    end
  | _ => None
  end.

(* what the statement expects after an operation, on the specification record *)
Definition spec_step (s : spec_tx * (N -> bool)) (o : op) (ok : bool) : option (spec_tx * (N -> bool)) :=
  let '(st, touched) := s in
  if negb ok then Some s else
  match o with
  | OSetBody b => Some ({| sp_body := b; sp_fields := sp_fields st; sp_valid := sp_valid st; sp_aux := sp_aux st |}, touched)
  | OSetAux b => Some ({| sp_body := sp_body st; sp_fields := sp_fields st; sp_valid := sp_valid st; sp_aux := Some b |}, touched)
  | OSetValid v => Some ({| sp_body := sp_body st; sp_fields := sp_fields st; sp_valid := v; sp_aux := sp_aux st |}, touched)
  | OSetWits b =>
    match map_slices b with
    | Some (fs, _) => Some ({| sp_body := sp_body st; sp_fields := fs; sp_valid := sp_valid st; sp_aux := sp_aux st |}, fun _ => false)
    | None => None
    end
  | _ => Some (st, fun k => touched k || touches o k)
  end.
Fixpoint spec_run (s : spec_tx * (N -> bool)) (ops : list (op * bool)) : option (spec_tx * (N -> bool)) :=
  match ops with
  | [] => Some s
  | (o, ok) :: t => match spec_step s o ok with Some s' => spec_run s' t | None => None end
  end.

Fixpoint nodup_keys (l : list (N * bytes)) : bool :=
  match l with
  | [] => true
  | (k, _) :: t => match lookup k t with Some _ => false | None => nodup_keys t end
  end.

(* what the implementation reported *)
Record obs := {
  o_body : bytes;            (* raw_body *)
  o_aux : option bytes;      (* raw_auxiliary_data *)
  o_wits : bytes;            (* raw_witness_set *)
  o_tx : bytes;              (* to_bytes *)
  o_valid : bool;            (* is_valid() *)
  o_hash_pre : option bytes  (* bytes whose Blake2b-256 (computed outside the library) is transaction_hash,
                                searched among the current raw_body and the body slices seen so far *)
}.

Inductive verdict := VHolds | VNa | VFails.

(* C04 on one run: [ops] with the success flag the implementation reported for each setter *)
Definition judge (input : bytes) (ops : list (op * bool)) (o : obs) : verdict :=
  match spec_slices input with
  | None => VNa
  | Some s0 =>
    if negb (nodup_keys (sp_fields s0)) then VNa else
    match spec_run (s0, fun _ => false) ops with
    | None => VNa
    | Some (st, touched) =>
      match map_slices (o_wits o) with
      | Some (es, []) =>
        if bytes_eqb (o_body o) (sp_body st)
           && match o_aux o, sp_aux st with
              | Some a, Some b => bytes_eqb a b | None, None => true | _, _ => false end
           && item_wf (o_wits o)
           && match decode_head (o_wits o) with Some (5, Arg _, _) => true | _ => false end
           && nodup_keys es
           && forallb (fun k => touched k ||
                         match lookup k es, lookup k (sp_fields st) with
                         | Some a, Some b => bytes_eqb a b | None, None => true | _, _ => false end)
                      key_order
           && forallb (fun kv => (fst kv <=? 7)) es
           && bytes_eqb (o_tx o)
                ([132] ++ sp_body st ++ o_wits o ++ enc_valid (sp_valid st) ++ enc_aux (sp_aux st))
           && match o_hash_pre o with Some p => bytes_eqb p (sp_body st) | None => false end
           && Bool.eqb (o_valid o) (sp_valid st)
        then VHolds else VFails
      | _ => VFails
      end
    end
  end.

(* domain guard of the judge: the generic reading of the input coincides with the library-mirroring one
   (always the case for well-formed CBOR; inputs on which the library's collection loops accept a break
   inside a definite array etc. are outside the judge's domain and reported `na`) *)
Definition opt_bytes_eqb (a b : option bytes) : bool :=
  match a, b with Some x, Some y => bytes_eqb x y | None, None => true | _, _ => false end.
Definition field_slices (w : wits) : list (N * bytes) :=
  flat_map (fun kf => match f_raw (snd kf) with Some r => [(fst kf, r)] | None => [] end) (w_fields w).
Definition slices_eqb (a b : list (N * bytes)) : bool :=
  list_eqb (fun x y => (fst x =? fst y) && bytes_eqb (snd x) (snd y)) a b.
Definition same_reading (input : bytes) : bool :=
  match decode_fixed (fun b => b) input, spec_slices input with
  | Ok (tx, _), Some s =>
      bytes_eqb (ft_body tx) (sp_body s) && opt_bytes_eqb (ft_aux tx) (sp_aux s)
      && Bool.eqb (ft_valid tx) (sp_valid s) && slices_eqb (field_slices (ft_wits tx)) (sp_fields s)
  | _, _ => false
  end.

(* the model's own observation, in the form the judge reads (H = identity: the hash is carried as its preimage),
   and the operations paired with their success in the model *)
Definition model_obs (tx : fixed_tx) : obs :=
  {| o_body := ft_body tx; o_aux := ft_aux tx; o_wits := encode_wits (ft_wits tx);
     o_tx := encode_fixed tx; o_valid := ft_valid tx; o_hash_pre := Some (ft_hash tx) |}.
Fixpoint op_flags (sv : bytes -> bytes -> vkw) (sb : bool -> bytes -> bytes -> bw) (ops : list op) (tx : fixed_tx)
  : list (op * bool) :=
  match ops with
  | [] => []
  | o :: t => (o, is_ok (apply_op (fun b => b) sv sb o tx)) :: op_flags sv sb t (step (fun b => b) sv sb tx o)
  end.

(* a datum: what PlutusData::from_bytes(input).to_bytes() returned and the bytes whose Blake2b-256 is
   hash_plutus_data: the datum is a non-empty prefix of the input, and the hash is taken over it *)
Fixpoint is_prefix (a b : bytes) : bool :=
  match a, b with
  | [], _ => true
  | x :: a', y :: b' => (x =? y) && is_prefix a' b'
  | _ :: _, [] => false
  end.
Definition judge_datum (input to_bytes : bytes) (hash_pre : option bytes) : verdict :=
  match to_bytes with
  | [] => VFails
  | _ :: _ =>
    if is_prefix to_bytes input
       && match hash_pre with Some p => bytes_eqb p to_bytes | None => false end
    then VHolds else VFails
  end.

(* PlutusList::from_bytes(..).to_bytes(): the list head is re-written (definite as decoded, no set tag), every
   element is its original bytes *)
Section Reencode.
  Variable fresh : pdk -> bytes.
  Definition reencode_plist (x : bool * bool * list pd) : bytes :=
    match x with (_, definite, xs) =>
      if definite then encode_head 4 (len xs) ++ flat_map (encode_pd fresh) xs
      else [159] ++ flat_map (encode_pd fresh) xs ++ [255]
    end.
End Reencode.
Definition decode_plist (bs : bytes) : result (bool * bool * list pd * bytes) :=
  dec_plist (dec_pd (S (length bs))) bs.
