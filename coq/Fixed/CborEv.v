(* Byte-level model of the cbor_event 2.4.0 reading primitives the byte-preserving code paths use
   (cbor_event-2.4.0/src/de.rs: cbor_type, cbor_len, array, map, unsigned_integer, tag, bytes, special)
   and of the library's own helpers built on them (rust/src/serialization/utils.rs: skip_tag / skip_set_tag
   :115-138, is_break_tag :140-153, deserilized_with_orig_bytes :155-166; rust/src/utils.rs
   read_bounded_bytes :428-499).  Definitions only; proofs in Fixed/CborEvProofs.v.

   Every reader is a [parser A = bytes -> result (A * bytes)] returning the unread rest.  Heads are read
   with Cbor/Head.v's [decode_head], which accepts every width (as cbor_len does) and rejects additional
   info 28..30. *)
From CSL Require Import Base.Prelude Cbor.Head Cbor.Item.
Local Open Scope N_scope.

(* Deserializer::cbor_type: the major type of the next byte, without consuming it *)
Definition cbor_type (bs : bytes) : result N :=
  match bs with [] => Err | b :: _ => Ok (b / 32) end.

(* cbor_expect_type m + cbor_len + advance *)
Definition rd_head (m : N) : parser harg := fun bs =>
  match decode_head bs with
  | Some (m', a, r) => if m' =? m then Ok (a, r) else Err
  | None => Err
  end.

Definition rd_array : parser harg := rd_head 4.
Definition rd_map : parser harg := rd_head 5.

(* unsigned_integer / tag / read_nint: an indefinite marker is an error *)
Definition rd_arg (m : N) : parser N := fun bs =>
  let* '(a, r) := rd_head m bs in
  match a with Arg n => Ok (n, r) | Indef => Err end.
Definition rd_uint : parser N := rd_arg 0.
Definition rd_nint : parser N := rd_arg 1.      (* the integer -1-n *)
Definition rd_tag : parser N := rd_arg 6.

(* Deserializer::bytes: definite, or indefinite = definite chunks closed by 0xff.  (A truncated chunk makes
   cbor_event read fewer bytes and fail at the next cbor_type(); both are Err.) *)
Definition rd_bytes : parser bytes := fun bs =>
  let* '(a, r) := rd_head 2 bs in
  match a with
  | Arg n => take_bytes n r
  | Indef => let* '(cs, r') := parse_until_break (parse_chunk 2) (length r) r in Ok (concat cs, r')
  end.

(* Deserializer::special *)
Inductive special := SpBool (b : bool) | SpNull | SpUndef | SpBreak | SpOther.
Definition is_break (s : special) : bool := match s with SpBreak => true | _ => false end.

Definition rd_special : parser special := fun bs =>
  match bs with
  | [] => Err
  | b :: r =>
    if b / 32 =? 7 then
      let ai := b mod 32 in
      let skipk (k : nat) := match split_at k r with Some (_, r') => Ok (SpOther, r') | None => Err end in
      if ai =? 20 then Ok (SpBool false, r)
      else if ai =? 21 then Ok (SpBool true, r)
      else if ai =? 22 then Ok (SpNull, r)
      else if ai =? 23 then Ok (SpUndef, r)
      else if ai =? 24 then skipk 1%nat
      else if ai =? 25 then skipk 2%nat
      else if ai =? 26 then skipk 4%nat
      else if ai =? 27 then skipk 8%nat
      else if ai =? 31 then Ok (SpBreak, r)
      else Ok (SpOther, r)                      (* 0..19 and 28..30: Unassigned, one byte *)
    else Err
  end.

(* the closing break of an indefinite array read with `raw.special()?` and compared with Break *)
Definition expect_break (bs : bytes) : result bytes :=
  let* '(s, r) := rd_special bs in if is_break s then Ok r else Err.

Definition close_len (len : harg) (bs : bytes) : result bytes :=
  match len with Arg _ => Ok bs | Indef => expect_break bs end.

(* check_len (serialization/utils.rs:85-101): a definite length must be the expected one *)
Definition check_len (len : harg) (k : N) : result unit :=
  match len with Arg n => if n =? k then Ok tt else Err | Indef => Ok tt end.

(* skip_tag(raw, 258): `if let Ok(t) = raw.tag()`: a tag other than 258 is an error, anything that is not a
   readable tag is "no tag" and consumes nothing *)
Definition skip_set_tag (bs : bytes) : result (bool * bytes) :=
  match rd_tag bs with
  | Ok (t, r) => if t =? 258 then Ok (true, r) else Err
  | _ => Ok (false, bs)
  end.

(* The element loop shared by the collection deserializers
     while match len { Len(n) => count < n, Indefinite => true } {
         if <next is Special> { <must be Break, and the length must be indefinite> ; break }
         push(elem(raw)?) }
   is_break_tag (serialization/utils.rs:156-178) and the copies of it in Vkeywitnesses / BootstrapWitnesses:
   as of /repo 795c77b + ec1af1f a non-break special is an error (it used to panic in the two witness
   collections) and so is a break inside a definite-length container (it used to end the collection). *)
Fixpoint dec_elems {A} (p : parser A) (fuel : nat) (len : harg) (cnt : N) (bs : bytes)
  : result (list A * bytes) :=
  match fuel with
  | O => OutOfFuel
  | S f =>
    if (match len with Arg n => cnt <? n | Indef => true end) then
      let* t := cbor_type bs in
      if t =? 7 then
        let* '(s, r) := rd_special bs in
        if is_break s then (match len with Arg _ => Err | Indef => Ok ([], r) end)
        else Err
      else
        let* '(x, r) := p bs in
        let* '(xs, r') := dec_elems p f len (cnt + 1) r in
        Ok (x :: xs, r')
    else Ok ([], bs)
  end.

(* [tag 258] [tag 258 again when double] array-head elements.  Result: (had the set tag, definite, elements) *)
Definition dec_set {A} (p : parser A) (double : bool) : parser (bool * bool * list A) := fun bs =>
  let* '(tagged, r0) := skip_set_tag bs in
  let* '(_, r0') := (if double then skip_set_tag r0 else Ok (false, r0)) in
  let* '(len, r1) := rd_array r0' in
  let* '(xs, r2) := dec_elems p (S (length r1)) len 0 r1 in
  Ok ((tagged, match len with Arg _ => true | Indef => false end, xs), r2).

(* deserilized_with_orig_bytes: the bytes between the stream position before and after the inner parser *)
Definition with_orig {A} (p : parser A) : parser (A * bytes) := fun bs =>
  let* '(v, r) := p bs in
  Ok ((v, firstn (length bs - length r) bs), r).

(* one generic item, returned as its own bytes (element of a collection whose contents are not modelled) *)
Definition raw_item : parser bytes := skip_item.

(* read_bounded_bytes (rust/src/utils.rs:428-499): definite strings of at most 64 bytes, or an indefinite
   string whose chunks are at most 64 bytes each *)
Fixpoint rd_bchunks (fuel : nat) (bs : bytes) : result (list bytes * bytes) :=
  match bs with
  | [] => Err
  | b :: _ =>
    if b / 32 =? 7 then
      let* r := expect_break bs in Ok ([], r)
    else
      match fuel with
      | O => OutOfFuel
      | S f =>
        match decode_head bs with
        | Some (m, Arg n, r) =>
          if m =? 2 then
            if 64 <? n then Err else
            let* '(c, r1) := take_bytes n r in
            let* '(cs, r2) := rd_bchunks f r1 in
            Ok (c :: cs, r2)
          else Err
        | _ => Err
        end
      end
  end.

Definition rd_bounded_bytes : parser bytes := fun bs =>
  let* '(a, r) := rd_head 2 bs in
  match a with
  | Arg n => let* '(s, r') := take_bytes n r in if 64 <? n then Err else Ok (s, r')
  | Indef => let* '(cs, r') := rd_bchunks (length r) r in Ok (concat cs, r')
  end.

(* first error falls through to the next alternative (PlutusDataEnum::deserialize seeks back on Err) *)
Definition orelse {A} (r : result A) (k : unit -> result A) : result A :=
  match r with Err => k tt | _ => r end.
