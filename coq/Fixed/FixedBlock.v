(* The block-level byte-preserving types (read-only views).  Mirrors
     rust/src/serialization/block/fixed_transaction_body.rs    FixedTransactionBody (in Fixed/FixedTx.v: decode_fixed_body)
     rust/src/serialization/block/fixed_transaction_bodies.rs  FixedTransactionBodies::deserialize
     rust/src/serialization/block/fixed_block.rs               FixedBlock::deserialize, deserialize_block
                                                               (block hash over the header bytes as of /repo c6f013f;
                                                                array length checked as of 3be5cfb)
     rust/src/serialization/block/fixed_versioned_block.rs     FixedVersionedBlock::deserialize
     rust/src/protocol_types/block/fixed_versioned_block.rs    era()
   Abstracted as ONE generic item each (the library validates their contents): the header, every transaction
   body, the witness-set array, the auxiliary-data map, the invalid-transaction indices.
   Definitions only; proofs in Fixed/FixedBlockProofs.v. *)
From CSL Require Import Base.Prelude Cbor.Head Cbor.Item Fixed.CborEv Fixed.FixedTx.
Local Open Scope N_scope.

(* ------------------------------------------------------------------ specification side (generic reading) *)
(* the element slices of a CBOR array *)
Fixpoint slices_n (k : nat) (bs : bytes) : option (list bytes * bytes) :=
  match k with
  | O => Some ([], bs)
  | S k' => match skip_item bs with
            | Ok (x, r) => match slices_n k' r with Some (xs, r') => Some (x :: xs, r') | None => None end
            | _ => None
            end
  end.
Fixpoint slices_brk (fuel : nat) (bs : bytes) : option (list bytes * bytes) :=
  match bs with
  | [] => None
  | b :: t =>
    if b =? 255 then Some ([], t) else
    match fuel with
    | O => None
    | S f => match skip_item bs with
             | Ok (x, r) => match slices_brk f r with Some (xs, r') => Some (x :: xs, r') | None => None end
             | _ => None
             end
    end
  end.
Definition array_slices (bs : bytes) : option (list bytes * bytes) :=
  match decode_head bs with
  | Some (4, Arg n, r) => if n <=? len r then slices_n (N.to_nat n) r else None
  | Some (4, Indef, r) => slices_brk (length r) r
  | _ => None
  end.


Definition count_elems (arr : bytes) : nat :=
  match array_slices arr with Some (xs, _) => length xs | None => O end.

Record fixed_block := {
  fb_header : bytes;                     (* the header item as received (not exposed by the API; hashed) *)
  fb_bodies : list (bytes * bytes);      (* (original_bytes, tx_hash) of every transaction body *)
  fb_hash : bytes;                       (* block_hash *)
  fb_nwits : nat;                        (* transaction_witness_sets().len() *)
  fb_ninvalid : nat                      (* invalid_transactions().len() *)
}.

Section Block.
  Variable H : bytes -> bytes.

  (* FixedTransactionBodies::deserialize *)
  Definition decode_fixed_bodies : parser (list (bytes * bytes)) := fun bs =>
    let* '(ln, r) := rd_array bs in
    dec_elems (decode_fixed_body H) (S (length r)) ln 0 r.

  (* one item that must be an array (raw.array() then its elements) *)
  Definition raw_array : parser bytes := fun bs =>
    let* t := cbor_type bs in if t =? 4 then raw_item bs else Err.

  (* deserialize_block: [header, bodies, witness sets, auxiliary data set, (invalid transactions)] *)
  Definition dec_block (whole_block_hash : bool) : parser fixed_block := fun bs =>
    let* '(ln, r0) := rd_array bs in
    if (match ln with Arg n => n <? 4 | Indef => false end) then Err else      (* read_elems(4) *)
    let* '(hdr, r1) := raw_item r0 in
    let* '(bodies, r2) := decode_fixed_bodies r1 in
    let* '(ws, r3) := raw_array r2 in                    (* TransactionWitnessSets *)
    let* '(_, r4) := raw_item r3 in                      (* AuxiliaryDataSet *)
    let* present := (match ln with
                     | Indef => let* t := cbor_type r4 in Ok (t =? 4)
                     | Arg n => Ok (negb (n =? 4))
                     end) in
    let* '(iv, r5) := (if present then
                  (* read_elems(1) + finish(): a definite length must then be exactly 5 *)
                  if (match ln with Arg n => negb (n =? 5) | Indef => false end) then Err
                  else let* '(x, r) := raw_array r4 in Ok (count_elems x, r)
                else Ok (O, r4)) in
    let* r6 := close_len ln r5 in
    Ok ({| fb_header := hdr; fb_bodies := bodies;
           fb_hash := H (if whole_block_hash then firstn (length bs - length r6) bs else hdr);
           fb_nwits := count_elems ws; fb_ninvalid := iv |}, r6).

  (* FixedBlock::deserialize as repaired (hash of the header) and as it was (hash of the whole block) *)
  Definition decode_fixed_block : parser fixed_block := dec_block false.
  Definition decode_fixed_block_old : parser fixed_block := dec_block true.

  (* FixedVersionedBlock::deserialize: [era code (u32), block] *)
  Definition decode_versioned_block : parser (N * fixed_block) := fun bs =>
    let* '(ln, r0) := rd_array bs in
    let* _ := check_len ln 2 in
    let* '(era, r1) := rd_uint r0 in
    if 4294967295 <? era then Err else
    let* '(b, r2) := decode_fixed_block r1 in
    let* r3 := close_len ln r2 in
    Ok ((era, b), r3).
End Block.

(* FixedVersionedBlock::era as the enum's discriminant: Byron 0 (codes 0, 1), Shelley 1, ..., Conway 6, Unknown 7 *)
Definition era_of (code : N) : N :=
  if code <=? 1 then 0 else if code <=? 7 then code - 1 else 7.

(* what the implementation reported for a block: the original bytes of every body, whether each tx hash is
   Blake2b-256 of them (computed outside the library), the bytes the block hash is Blake2b-256 of *)
Definition judge_block (input : bytes) (origs : list bytes) (hash_ok : list bool) (block_hash_pre : option bytes) : verdict :=
  match array_slices input with
  | Some (hdr :: bodies :: _ :: _ :: _, _) =>
    match array_slices bodies with
    | Some (bs, []) =>
      if list_eqb bytes_eqb origs bs && forallb (fun b => b) hash_ok
         && (length hash_ok =? length origs)%nat
         && match block_hash_pre with Some p => bytes_eqb p hdr | None => false end
      then VHolds else VFails
    | _ => VNa
    end
  | _ => VNa
  end.
Definition judge_bodies (input : bytes) (origs : list bytes) (hash_ok : list bool) : verdict :=
  match array_slices input with
  | Some (bs, _) =>
    if list_eqb bytes_eqb origs bs && forallb (fun b => b) hash_ok && (length hash_ok =? length origs)%nat
    then VHolds else VFails
  | None => VNa
  end.
