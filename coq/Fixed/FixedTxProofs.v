(* Theorems about the byte-preserving transaction model of Fixed/FixedTx.v. *)
From CSL Require Import Base.Prelude Cbor.Head Cbor.HeadProofs Cbor.Item Cbor.ItemProofs
  Fixed.CborEv Fixed.CborEvProofs Fixed.DatumBytes Fixed.DatumBytesProofs Fixed.FixedTx.
Local Open Scope N_scope.

(* ================================================================= readers return proper suffixes *)
Lemma dec_vkw_suffix : psuffix dec_vkw.
Proof.
  intros bs x r H. unfold dec_vkw in H. change (ssfx bs r).
  apply bind_ok in H as [[ln r0] [H0 H]]. apply bind_ok in H as [[vk r1] [H1 H]].
  destruct (negb (blen vk =? 32)); [discriminate|].
  apply bind_ok in H as [[sg r2] [H2 H]]. destruct (negb (blen sg =? 64)); [discriminate|].
  apply rd_head_suffix in H0. apply rd_bytes_suffix in H1. apply rd_bytes_suffix in H2.
  assert (S : ssfx bs r2) by (eapply ssfx_trans; [exact H0|]; eapply ssfx_trans; [exact H1|exact H2]).
  destruct ln as [n|].
  - destruct (n =? 2); [|discriminate]. injection H as <- <-. exact S.
  - apply bind_ok in H as [r3 [H3 H]]. injection H as <- <-. apply expect_break_suffix in H3.
    apply (ssfx_trans _ _ _ S H3).
Qed.

Lemma dec_bw_suffix : psuffix dec_bw.
Proof.
  intros bs x r H. unfold dec_bw in H. change (ssfx bs r).
  apply bind_ok in H as [[ln r0] [H0 H]]. apply bind_ok in H as [u [_ H]]. apply bind_ok in H as [[vk r1] [H1 H]].
  destruct (negb (blen vk =? 32)); [discriminate|].
  apply bind_ok in H as [[sg r2] [H2 H]]. destruct (negb (blen sg =? 64)); [discriminate|].
  apply bind_ok in H as [[cc r3] [H3 H]]. apply bind_ok in H as [[at_ r4] [H4 H]].
  apply bind_ok in H as [r5 [H5 H]]. injection H as <- <-.
  apply rd_head_suffix in H0. apply rd_bytes_suffix in H1. apply rd_bytes_suffix in H2.
  apply rd_bytes_suffix in H3. apply rd_bytes_suffix in H4. apply close_len_suffix in H5.
  eapply ssfx_trans; [exact H0|]. eapply ssfx_trans; [exact H1|]. eapply ssfx_trans; [exact H2|].
  eapply ssfx_trans; [exact H3|]. eapply ssfx_sfx_trans; [exact H4|exact H5].
Qed.

Lemma pair_items_suffix : psuffix pair_items.
Proof.
  intros bs [k v] r H. unfold pair_items in H. apply bind_ok in H as [[k' r0] [H0 H]].
  apply bind_ok in H as [[v' r1] [H1 H]]. injection H as <- <- <-.
  apply raw_item_suffix in H0. apply raw_item_suffix in H1. apply (ssfx_trans _ _ _ H0 H1).
Qed.

Lemma dec_redeemers_suffix : psuffix dec_redeemers.
Proof.
  intros bs x r H. unfold dec_redeemers in H. change (ssfx bs r). apply bind_ok in H as [t [_ H]].
  destruct (t =? 4).
  - apply bind_ok in H as [[ln r0] [H0 H]]. apply bind_ok in H as [[xs r1] [H1 H]]. injection H as <- <-.
    apply rd_head_suffix in H0. apply (dec_elems_suffix _ raw_item_suffix) in H1.
    apply (ssfx_sfx_trans _ _ _ H0 H1).
  - destruct (t =? 5); [|discriminate].
    apply bind_ok in H as [[ln r0] [H0 H]]. apply bind_ok in H as [[xs r1] [H1 H]]. injection H as <- <-.
    apply rd_head_suffix in H0. apply (dec_elems_suffix _ pair_items_suffix) in H1.
    apply (ssfx_sfx_trans _ _ _ H0 H1).
Qed.

Lemma dec_field_suffix k : psuffix (dec_field k).
Proof.
  intros bs x r H. unfold dec_field in H. change (ssfx bs r).
  destruct (k =? 0).
  { apply bind_ok in H as [[[[t d] ws] r0] [H0 H]]. injection H as <- <-.
    apply (dec_set_suffix _ _ dec_vkw_suffix) in H0. exact H0. }
  destruct (k =? 2).
  { apply bind_ok in H as [[[[t d] ws] r0] [H0 H]]. injection H as <- <-.
    apply (dec_set_suffix _ _ dec_bw_suffix) in H0. exact H0. }
  destruct (k =? 1).
  { apply bind_ok in H as [[y r0] [H0 H]]. injection H as <- <-.
    apply (dec_set_suffix _ _ raw_item_suffix) in H0. exact H0. }
  destruct ((k =? 3) || (k =? 6) || (k =? 7)).
  { apply bind_ok in H as [[y r0] [H0 H]]. injection H as <- <-.
    apply (dec_set_suffix _ _ rd_bytes_suffix) in H0. exact H0. }
  destruct (k =? 4).
  { apply bind_ok in H as [[y r0] [H0 H]]. injection H as <- <-.
    apply (dec_set_suffix _ _ (dec_pd_suffix _)) in H0. exact H0. }
  destruct (k =? 5); [|discriminate]. apply dec_redeemers_suffix in H. exact H.
Qed.

(* ================================================================= association lists *)
Lemma lookup_app {A} k (l1 l2 : list (N * A)) :
  lookup k (l1 ++ l2) = match lookup k l1 with Some v => Some v | None => lookup k l2 end.
Proof.
  induction l1 as [|[k' v] t IH]; cbn [lookup app]; [reflexivity|]. destruct (k =? k'); [reflexivity|exact IH].
Qed.

Lemma lookup_update_same {A} k (v : A) l : lookup k (update k v l) = Some v.
Proof.
  induction l as [|[k' v'] t IH]; cbn [update lookup].
  - rewrite N.eqb_refl. reflexivity.
  - destruct (k =? k') eqn:E; cbn [lookup]; [rewrite N.eqb_refl; reflexivity|rewrite E; exact IH].
Qed.

Lemma lookup_update_other {A} k k' (v : A) l : k <> k' -> lookup k (update k' v l) = lookup k l.
Proof.
  intros Hne. induction l as [|[k2 v2] t IH]; cbn [update lookup].
  - destruct (k =? k') eqn:E; [apply N.eqb_eq in E; contradiction|reflexivity].
  - destruct (k' =? k2) eqn:E2; cbn [lookup].
    + apply N.eqb_eq in E2. subst k2. destruct (k =? k') eqn:E; [apply N.eqb_eq in E; contradiction|reflexivity].
    + destruct (k =? k2); [reflexivity|exact IH].
Qed.

(* ================================================================= witness-set fields are exact input slices *)
(* field [f] under key [k] of a witness set decoded from [bs0]: its kept bytes [raw] sit in the input right
   after an encoding [kb] of the key, and are exactly what the field's reader consumed *)
Definition slice_ok (bs0 : bytes) (k : N) (f : fstate) : Prop :=
  exists raw pre kb post,
    f_raw f = Some raw /\ raw <> [] /\
    bs0 = pre ++ kb ++ raw ++ post /\
    rd_uint (kb ++ raw ++ post) = Ok (k, raw ++ post) /\
    dec_field k (raw ++ post) = Ok (f_parsed f, post).

Lemma dec_wits_loop_slices bs0 : forall fuel ln read acc pre0 bs fs rest,
  bs0 = pre0 ++ bs ->
  (forall k f, lookup k acc = Some f -> slice_ok bs0 k f) ->
  dec_wits_loop fuel ln read acc bs = Ok (fs, rest) ->
  (forall k f, lookup k fs = Some f -> slice_ok bs0 k f) /\ sfx bs rest.
Proof.
  induction fuel as [|fu IH]; intros ln read acc pre0 bs fs rest E0 Hacc H; cbn [dec_wits_loop] in H; [discriminate|].
  destruct (match ln with Arg n => read <? n | Indef => true end).
  2:{ injection H as <- <-. split; [exact Hacc|apply sfx_refl]. }
  apply bind_ok in H as [t [_ H]]. destruct (t =? 0).
  - apply bind_ok in H as [[k r] [Hk H]]. destruct (7 <? k); [discriminate|].
    destruct (lookup k acc) eqn:El; [discriminate|].
    apply bind_ok in H as [[[p raw] r'] [Hf H]].
    pose proof (rd_arg_suffix 0 _ _ _ Hk) as [kb [Ekb _]].
    apply (with_orig_slice _ (dec_field_suffix k)) in Hf as [Er [Hne Hp]].
    subst bs r.
    apply (IH ln (read + 1) _ (pre0 ++ kb ++ raw) r' fs rest) in H.
    + destruct H as [Hfs Hs]. split; [exact Hfs|].
      eapply sfx_trans; [|exact Hs]. exists (kb ++ raw). rewrite <- app_assoc. reflexivity.
    + rewrite E0. rewrite <- !app_assoc. reflexivity.
    + intros k' f'. rewrite lookup_app. destruct (lookup k' acc) as [f0|] eqn:E1.
      * intros E; injection E as <-. apply Hacc, E1.
      * cbn [lookup]. destruct (k' =? k) eqn:E2; [|discriminate]. apply N.eqb_eq in E2. subst k'.
        intros E; injection E as <-. exists raw, pre0, kb, r'. cbn [f_raw f_parsed].
        split; [reflexivity|]. split; [exact Hne|]. split; [exact E0|]. split; [exact Hk|exact Hp].
  - destruct (t =? 7); [|discriminate]. destruct ln as [n|]; [discriminate|].
    apply bind_ok in H as [r [Hb H]]. injection H as <- <-. split; [exact Hacc|].
    apply ssfx_sfx, expect_break_suffix, Hb.
Qed.

Theorem decode_wits_slices bs w rest : decode_wits bs = Ok (w, rest) ->
  ssfx bs rest /\ w_set_tags w = true /\
  forall k f, lookup k (w_fields w) = Some f -> slice_ok bs k f.
Proof.
  unfold decode_wits. intros H. apply bind_ok in H as [[ln r] [H0 H]].
  apply bind_ok in H as [[fs r'] [H1 H]]. injection H as <- <-. cbn [w_fields w_set_tags].
  pose proof (rd_head_suffix 5 _ _ _ H0) as [hd [E0 Hne]].
  apply (dec_wits_loop_slices bs _ _ _ _ hd r fs r' E0) in H1.
  - destruct H1 as [Hfs Hs]. split; [|split; [reflexivity|exact Hfs]].
    eapply ssfx_sfx_trans; [|exact Hs]. exists hd. split; [exact E0|exact Hne].
  - intros k f E. discriminate.
Qed.

Lemma decode_wits_suffix : psuffix decode_wits.
Proof. intros bs w r H. apply decode_wits_slices in H as [S _]. exact S. Qed.

(* every field of a freshly decoded witness set keeps its bytes *)
Corollary decode_wits_raw bs w rest k f : decode_wits bs = Ok (w, rest) ->
  lookup k (w_fields w) = Some f -> exists raw, f_raw f = Some raw /\ written f = Some raw.
Proof.
  intros H E. apply decode_wits_slices in H as [_ [_ Hs]]. apply Hs in E as [raw [pre [kb [post [E1 _]]]]].
  exists raw. split; [exact E1|]. unfold written. rewrite E1. reflexivity.
Qed.

(* ================================================================= the tail: is_valid and auxiliary data *)
Lemma special_byte b : b / 32 = 7 -> forall c, b mod 32 = c -> b = 224 + c.
Proof. intros H1 c H2. pose proof (N.div_mod b 32 ltac:(lia)). lia. Qed.

Lemma rd_special_bool bs v r : rd_special bs = Ok (SpBool v, r) -> bs = enc_valid v ++ r.
Proof.
  unfold rd_special. destruct bs as [|b t]; [discriminate|]. destruct (b / 32 =? 7) eqn:E7; [|discriminate].
  apply N.eqb_eq in E7. cbv zeta.
  assert (K : forall k x, match split_at k t with Some (_, r') => Ok (SpOther, r') | None => Err end <> Ok (SpBool x, r)).
  { intros k x. destruct (split_at k t) as [[? ?]|]; discriminate. }
  destruct (b mod 32 =? 20) eqn:E20.
  { intros H; injection H as <- <-. apply N.eqb_eq in E20. rewrite (special_byte b E7 _ E20). reflexivity. }
  destruct (b mod 32 =? 21) eqn:E21.
  { intros H; injection H as <- <-. apply N.eqb_eq in E21. rewrite (special_byte b E7 _ E21). reflexivity. }
  repeat match goal with |- (if ?c then _ else _) = _ -> _ => destruct c end;
    try discriminate; intros H; apply K in H; contradiction.
Qed.

Lemma rd_special_null bs r : rd_special bs = Ok (SpNull, r) -> bs = [246] ++ r.
Proof.
  unfold rd_special. destruct bs as [|b t]; [discriminate|]. destruct (b / 32 =? 7) eqn:E7; [|discriminate].
  apply N.eqb_eq in E7. cbv zeta.
  assert (K : forall k, match split_at k t with Some (_, r') => Ok (SpOther, r') | None => Err end <> Ok (SpNull, r)).
  { intros k. destruct (split_at k t) as [[? ?]|]; discriminate. }
  destruct (b mod 32 =? 20); [discriminate|]. destruct (b mod 32 =? 21); [discriminate|].
  destruct (b mod 32 =? 22) eqn:E22.
  { intros H; injection H as <-. apply N.eqb_eq in E22. rewrite (special_byte b E7 _ E22). reflexivity. }
  repeat match goal with |- (if ?c then _ else _) = _ -> _ => destruct c end;
    try discriminate; intros H; apply K in H; contradiction.
Qed.

Lemma rd_special_break bs r : expect_break bs = Ok r -> bs = [255] ++ r.
Proof.
  unfold expect_break. intros H. apply bind_ok in H as [[s r'] [H1 H]].
  destruct s; cbn [is_break] in H; try discriminate. injection H as <-.
  revert H1. unfold rd_special. destruct bs as [|b t]; [discriminate|]. destruct (b / 32 =? 7) eqn:E7; [|discriminate].
  apply N.eqb_eq in E7. cbv zeta.
  assert (K : forall k, match split_at k t with Some (_, r0) => Ok (SpOther, r0) | None => Err end <> Ok (SpBreak, r')).
  { intros k. destruct (split_at k t) as [[? ?]|]; discriminate. }
  destruct (b mod 32 =? 20); [discriminate|]. destruct (b mod 32 =? 21); [discriminate|].
  destruct (b mod 32 =? 22); [discriminate|]. destruct (b mod 32 =? 23); [discriminate|].
  destruct (b mod 32 =? 24); [intros H; apply K in H; contradiction|].
  destruct (b mod 32 =? 25); [intros H; apply K in H; contradiction|].
  destruct (b mod 32 =? 26); [intros H; apply K in H; contradiction|].
  destruct (b mod 32 =? 27); [intros H; apply K in H; contradiction|].
  destruct (b mod 32 =? 31) eqn:E31; [|discriminate].
  intros H; injection H as <-. apply N.eqb_eq in E31. rewrite (special_byte b E7 _ E31). reflexivity.
Qed.

Lemma close_len_shape ln bs r : close_len ln bs = Ok r -> exists cl, bs = cl ++ r /\ (cl = [] \/ cl = [255]).
Proof.
  destruct ln; cbn [close_len]; intros H.
  - injection H as <-. exists []. split; [reflexivity|left; reflexivity].
  - apply rd_special_break in H. exists [255]. split; [exact H|right; reflexivity].
Qed.

(* the optional auxiliary data: either the bytes of exactly one data item, kept verbatim, or the null byte *)
Lemma dec_aux_after_bool_shape bs a r : dec_aux_after_bool bs = Ok (a, r) ->
  bs = enc_aux a ++ r /\ match a with Some x => item_wf x = true | None => True end.
Proof.
  unfold dec_aux_after_bool. intros H. apply bind_ok in H as [t [_ H]]. destruct (t =? 7).
  - apply bind_ok in H as [[s r'] [H1 H]]. destruct s; try discriminate. injection H as <- <-.
    apply rd_special_null in H1. split; [exact H1|exact I].
  - apply bind_ok in H as [[x r'] [H1 H]]. injection H as <- <-. apply raw_item_self in H1 as [-> Hwf].
    split; [reflexivity|exact Hwf].
Qed.

Lemma dec_tail_shape ln bs v a r : dec_tail ln bs = Ok ((v, a), r) ->
  exists V, bs = V ++ enc_aux a ++ r /\ ((V = [] /\ v = true) \/ V = enc_valid v) /\
            match a with Some x => item_wf x = true | None => True end.
Proof.
  unfold dec_tail. intros H. apply bind_ok in H as [t [_ H]]. destruct (t =? 7).
  - apply bind_ok in H as [[s r'] [H1 H]]. destruct s; try discriminate.
    + apply bind_ok in H as [u [_ H]]. apply bind_ok in H as [[a' r''] [H2 H]]. injection H as <- <- <-.
      apply rd_special_bool in H1. apply dec_aux_after_bool_shape in H2 as [-> Hwf].
      exists (enc_valid b). split; [exact H1|]. split; [right; reflexivity|exact Hwf].
    + apply bind_ok in H as [u [_ H]]. injection H as <- <- <-. apply rd_special_null in H1. exists []. split; [exact H1|].
      split; [left; split; reflexivity|exact I].
  - apply bind_ok in H as [u [_ H]]. apply bind_ok in H as [[x r'] [H1 H]]. injection H as <- <- <-.
    apply raw_item_self in H1 as [-> Hwf].
    exists []. split; [reflexivity|]. split; [left; split; reflexivity|exact Hwf].
Qed.

Lemma item_with_bytes_slice bs it bb r : item_with_bytes bs = Ok ((it, bb), r) ->
  bs = bb ++ r /\ item_wf bb = true /\ parse_one (bb ++ r) = Ok (it, r).
Proof.
  intros H. apply (with_orig_slice _ parse_one_suffix) in H as [-> [_ Hp]].
  split; [reflexivity|]. split; [|exact Hp].
  eapply skip_item_wf. apply skip_item_parse. exists it. split; [exact Hp|reflexivity].
Qed.

Section Model.
  Variable H : bytes -> bytes.
  Variable sign_vkey : bytes -> bytes -> vkw.
  Variable sign_boot : bool -> bytes -> bytes -> bw.

  Notation decode_fixed := (decode_fixed H).
  Notation run_ops := (run_ops H sign_vkey sign_boot).
  Notation step := (step H sign_vkey sign_boot).
  Notation apply_op := (apply_op H sign_vkey sign_boot).

  Lemma mk_fixed_ok body bb w valid aux tx : mk_fixed H body bb w valid aux = Ok tx ->
    ft_body tx = bb /\ ft_hash tx = H bb /\ w_fields (ft_wits tx) = w_fields w /\ ft_valid tx = valid /\ ft_aux tx = aux.
  Proof.
    unfold mk_fixed. intros E. apply bind_ok in E as [f [_ E]]. injection E as <-. cbn. repeat split.
  Qed.

  (* C04 (loading): the decoded transaction is the input cut into
       array head | BODY | witness set | [bool] | AUX or null | [break] | rest
     with BODY, AUX kept verbatim, BODY and AUX each exactly one well-formed data item, the hash taken
     over BODY, and every witness-set field an exact slice of the witness-set bytes *)
  Theorem decode_fixed_slices bs tx rest : decode_fixed bs = Ok (tx, rest) ->
    exists hd Wb V cl ln w,
      bs = hd ++ ft_body tx ++ Wb ++ V ++ enc_aux (ft_aux tx) ++ cl ++ rest /\
      rd_array bs = Ok (ln, ft_body tx ++ Wb ++ V ++ enc_aux (ft_aux tx) ++ cl ++ rest) /\
      item_wf (ft_body tx) = true /\
      ft_hash tx = H (ft_body tx) /\
      decode_wits (Wb ++ V ++ enc_aux (ft_aux tx) ++ cl ++ rest) = Ok (w, V ++ enc_aux (ft_aux tx) ++ cl ++ rest) /\
      w_fields (ft_wits tx) = w_fields w /\
      (forall k f, lookup k (w_fields (ft_wits tx)) = Some f ->
         slice_ok (Wb ++ V ++ enc_aux (ft_aux tx) ++ cl ++ rest) k f) /\
      ((V = [] /\ ft_valid tx = true) \/ V = enc_valid (ft_valid tx)) /\
      match ft_aux tx with Some a => item_wf a = true | None => True end /\
      (cl = [] \/ cl = [255]).
  Proof.
    unfold FixedTx.decode_fixed. intros E.
    apply bind_ok in E as [[ln r0] [E0 E]]. apply bind_ok in E as [[[bit bb] r1] [E1 E]].
    apply bind_ok in E as [[w r2] [E2 E]]. apply bind_ok in E as [[[valid aux] r3] [E3 E]].
    apply bind_ok in E as [r4 [E4 E]]. apply bind_ok in E as [tx' [E5 E]]. injection E as <- <-.
    apply mk_fixed_ok in E5 as [Eb [Eh [Ew [Ev Ea]]]].
    pose proof (rd_head_suffix 4 _ _ _ E0) as [hd [Ehd _]].
    apply item_with_bytes_slice in E1 as [Er0 [Hwf _]].
    pose proof (decode_wits_slices _ _ _ E2) as [[Wb [EWb _]] [_ Hsl]].
    apply dec_tail_shape in E3 as [V [EV [HV Hawf]]].
    apply close_len_shape in E4 as [cl [Ecl Hcl]].
    exists hd, Wb, V, cl, ln, w.
    rewrite Eb, Ea, Ev, Eh. subst r3 r2 r1 r0.
    split; [exact Ehd|]. split; [exact E0|]. split; [exact Hwf|]. split; [reflexivity|].
    split; [exact E2|]. split; [exact Ew|]. split; [rewrite Ew; exact Hsl|]. split; [exact HV|].
    split; [exact Hawf|exact Hcl].
  Qed.

  (* ================================================================= operations *)
  Definition sig_ops (ops : list op) : Prop := forall o, In o ops -> is_sig_op o = true.

  Lemma step_sig_frame o tx : is_sig_op o = true ->
    ft_body (step tx o) = ft_body tx /\ ft_hash (step tx o) = ft_hash tx /\
    ft_valid (step tx o) = ft_valid tx /\ ft_aux (step tx o) = ft_aux tx.
  Proof. destruct o; cbn [is_sig_op]; try discriminate; intros _; cbn; repeat split. Qed.

  Lemma run_ops_sig_frame ops : sig_ops ops -> forall tx,
    ft_body (run_ops ops tx) = ft_body tx /\ ft_hash (run_ops ops tx) = ft_hash tx /\
    ft_valid (run_ops ops tx) = ft_valid tx /\ ft_aux (run_ops ops tx) = ft_aux tx.
  Proof.
    unfold FixedTx.run_ops. induction ops as [|o t IH]; intros Hs tx; cbn [fold_left]; [repeat split|].
    destruct (IH (fun o' Hin => Hs o' (or_intror Hin)) (step tx o)) as [A [B [C D]]].
    destruct (step_sig_frame o tx (Hs o (or_introl eq_refl))) as [A' [B' [C' D']]].
    rewrite A, B, C, D. repeat split; assumption.
  Qed.

  (* the hash invariant holds after EVERY operation, set_body included (as repaired) *)
  Definition hash_inv (tx : fixed_tx) : Prop := ft_hash tx = H (ft_body tx).

  Lemma step_hash_inv o tx : hash_inv tx -> hash_inv (step tx o).
  Proof.
    unfold hash_inv, FixedTx.step. intros Hi. destruct o; cbn [FixedTx.apply_op]; try exact Hi.
    - destruct (parse_exact b) as [?| | |]; cbn [bind]; [reflexivity|exact Hi..].
    - destruct (decode_wits b) as [[? ?]| | |]; cbn [bind]; exact Hi.
    - destruct (parse_exact b) as [?| | |]; cbn [bind]; exact Hi.
  Qed.

  Theorem run_ops_hash_inv ops : forall tx, hash_inv tx -> hash_inv (run_ops ops tx).
  Proof.
    unfold FixedTx.run_ops. induction ops as [|o t IH]; intros tx Hi; cbn [fold_left]; [exact Hi|].
    apply IH, step_hash_inv, Hi.
  Qed.

  (* ---------------------------------------------------------------- untouched fields *)
  Lemma add_vkey_other x w k : k <> 0 -> lookup k (w_fields (add_vkey x w)) = lookup k (w_fields w).
  Proof. intros Hk. unfold add_vkey. cbn [w_fields]. apply lookup_update_other, Hk. Qed.
  Lemma add_boot_other x w k : k <> 2 -> lookup k (w_fields (add_boot x w)) = lookup k (w_fields w).
  Proof. intros Hk. unfold add_boot. cbn [w_fields]. apply lookup_update_other, Hk. Qed.

  Lemma step_untouched o tx k : touches o k = false ->
    lookup k (w_fields (ft_wits (step tx o))) = lookup k (w_fields (ft_wits tx)).
  Proof.
    unfold FixedTx.step. destruct o; cbn [touches FixedTx.apply_op]; intros Ht;
      try (apply N.eqb_neq in Ht; cbn [ft_wits with_wits]; first [apply add_vkey_other, Ht|apply add_boot_other, Ht]);
      try discriminate; try reflexivity.
    - destruct (parse_exact b) as [?| | |]; reflexivity.
    - destruct (parse_exact b) as [?| | |]; reflexivity.
  Qed.

  Theorem run_ops_untouched ops k : (forall o, In o ops -> touches o k = false) -> forall tx,
    lookup k (w_fields (ft_wits (run_ops ops tx))) = lookup k (w_fields (ft_wits tx)).
  Proof.
    unfold FixedTx.run_ops. induction ops as [|o t IH]; intros Ht tx; cbn [fold_left]; [reflexivity|].
    rewrite IH by (intros o' Hin; apply Ht; right; exact Hin).
    apply step_untouched, Ht. left. reflexivity.
  Qed.
End Model.

(* ================================================================= the written entries *)
Lemma lookup_flat_map_keys (g : N -> option bytes) ks k :
  lookup k (flat_map (fun k' => match g k' with Some v => [(k', v)] | None => [] end) ks)
  = if existsb (N.eqb k) ks then g k else None.
Proof.
  induction ks as [|k' t IH]; cbn [flat_map existsb lookup]; [reflexivity|].
  rewrite lookup_app, IH. destruct (g k') as [v|] eqn:Eg; cbn [lookup].
  - destruct (k =? k') eqn:E; cbn [orb]; [apply N.eqb_eq in E; subst k'; rewrite Eg; reflexivity|reflexivity].
  - destruct (k =? k') eqn:E; cbn [orb]; [|reflexivity].
    apply N.eqb_eq in E. subst k'. rewrite Eg. destruct (existsb (N.eqb k) t); reflexivity.
Qed.

Lemma entries_by_lookup wr w k :
  lookup k (entries_by wr w) =
  if existsb (N.eqb k) key_order
  then match lookup k (w_fields w) with Some f => wr k f | None => None end
  else None.
Proof.
  unfold entries_by.
  rewrite <- (lookup_flat_map_keys (fun k' => match lookup k' (w_fields w) with Some f => wr k' f | None => None end)).
  f_equal. apply flat_map_ext. intros k'. destruct (lookup k' (w_fields w)) as [f|]; [|reflexivity].
  destruct (wr k' f); reflexivity.
Qed.

Definition is_key (k : N) : bool := existsb (N.eqb k) key_order.
Lemma is_key_le k : is_key k = true <-> k <= 7.
Proof.
  unfold is_key, key_order. cbn [existsb]. split.
  - intros E. repeat (apply orb_true_iff in E as [E|E]; [apply N.eqb_eq in E; lia|]). discriminate.
  - intros E. assert (C : k = 0 \/ k = 1 \/ k = 2 \/ k = 3 \/ k = 4 \/ k = 5 \/ k = 6 \/ k = 7) by lia.
    repeat (destruct C as [->|C]; [reflexivity|]). subst k. reflexivity.
Qed.

Lemma entries_lookup w k : k <= 7 ->
  lookup k (entries w) = match lookup k (w_fields w) with Some f => written f | None => None end.
Proof.
  intros Hk. unfold entries. rewrite entries_by_lookup. apply is_key_le in Hk. unfold is_key in Hk. rewrite Hk. reflexivity.
Qed.

(* ================================================================= the re-assembled witness map is well-formed *)
Lemma encode_head_ne m n : encode_head m n <> [].
Proof. unfold encode_head. repeat match goal with |- (if ?c then _ else _) <> _ => destruct c end; discriminate. Qed.

Lemma enc_entry_ne kv : enc_entry kv <> [].
Proof. unfold enc_entry. intros E. apply app_eq_nil in E as [E _]. apply (encode_head_ne _ _ E). Qed.

Lemma wf_parse_item v it X f : parse_exact v = Ok it -> (length v < f)%nat -> parse_item f (v ++ X) = Ok (it, X).
Proof.
  intros Hv Hf. apply parse_exact_ok in Hv. unfold parse_one, default_fuel in Hv.
  assert (Hv' : parse_item (S (length v)) (v ++ []) = Ok (it, [])) by (rewrite app_nil_r; exact Hv).
  apply (parse_item_prefix_free _ _ _ X) in Hv'.
  eapply parse_item_fuel_ok; [|exact Hv']. lia.
Qed.

Lemma item_wf_skip v X : item_wf v = true -> skip_item (v ++ X) = Ok (v, X).
Proof.
  unfold item_wf. destruct (parse_exact v) as [it| | |] eqn:E; try discriminate. intros _.
  apply skip_item_parse. exists it. split; [|reflexivity].
  apply parse_exact_ok in E. rewrite <- (app_nil_r v) in E. apply (parse_one_local _ _ X) in E. exact E.
Qed.

Definition entry_ok (kv : N * bytes) : Prop := fst kv < two64 /\ item_wf (snd kv) = true.

Lemma parse_n_entries f es X :
  Forall (fun kv => entry_ok kv /\ (length (snd kv) < f)%nat) es -> (1 <= f)%nat ->
  exists kvs, parse_n (parse_pair (parse_item f)) (length es) (flat_map enc_entry es ++ X) = Ok (kvs, X).
Proof.
  intros HF Hf. induction HF as [|[k v] t [[Hk Hv] Hl] _ [kvs IH]]; cbn [length parse_n flat_map app].
  - exists []. reflexivity.
  - cbn [fst snd] in Hk, Hv, Hl. unfold item_wf in Hv.
    destruct (parse_exact v) as [it| | |] eqn:Ev; try discriminate.
    exists ((IUint k, it) :: kvs). unfold enc_entry at 1. cbn [fst snd]. rewrite <- !app_assoc.
    unfold parse_pair at 1.
    pose proof (parse_item_encode (IUint k) ltac:(cbn [item_ok]; apply N.ltb_lt, Hk) f
                  (v ++ flat_map enc_entry t ++ X) ltac:(cbn [item_depth]; lia)) as P.
    cbn [encode_item] in P. rewrite P. cbn [bind].
    rewrite (wf_parse_item v it _ f Ev Hl). cbn [bind]. rewrite IH. reflexivity.
Qed.

Lemma in_flat_map_length (es : list (N * bytes)) kv : In kv es -> (length (snd kv) <= length (flat_map enc_entry es))%nat.
Proof.
  induction es as [|e t IH]; cbn [In flat_map]; [contradiction|]. intros [->|Hin]; rewrite app_length.
  - unfold enc_entry. rewrite app_length. lia.
  - specialize (IH Hin). lia.
Qed.

(* a definite map written as head(count) ++ entries, every value one well-formed item, IS one well-formed item,
   and the generic reader cuts it back into exactly the entries *)
Theorem encode_map_wf es X : Forall entry_ok es -> len es < two64 ->
  (exists kvs, parse_one (encode_map (len es) es ++ X) = Ok (IMap true kvs, X)) /\
  map_slices (encode_map (len es) es ++ X) = Some (es, X).
Proof.
  intros HF Hlen. unfold encode_map. rewrite <- app_assoc.
  pose proof (decode_encode_head 5 (len es) (flat_map enc_entry es ++ X) Hlen) as Hd.
  assert (G : (len es <=? len (flat_map enc_entry es ++ X)) = true)
    by (apply guard_true, Forall_forall; intros; apply enc_entry_ne).
  split.
  - unfold parse_one, default_fuel. cbn [parse_item]. rewrite (parse_body_head _ _ _ _ _ Hd).
    unfold parse_after. cbn [major_of]. rewrite G.
    replace (N.to_nat (len es)) with (length es) by (unfold len; symmetry; apply Nat2N.id).
    destruct (parse_n_entries (length (encode_head 5 (len es) ++ flat_map enc_entry es ++ X)) es X) as [kvs P].
    + apply Forall_forall. intros kv Hin. rewrite Forall_forall in HF. split; [apply HF, Hin|].
      pose proof (in_flat_map_length es kv Hin). rewrite !app_length.
      pose proof (encode_head_ne 5 (len es)). destruct (encode_head 5 (len es)); [congruence|cbn [length]; lia].
    + rewrite app_length. pose proof (encode_head_ne 5 (len es)).
      destruct (encode_head 5 (len es)); [congruence|cbn [length]; lia].
    + exists kvs. rewrite P. reflexivity.
  - unfold map_slices. rewrite Hd. rewrite G.
    replace (N.to_nat (len es)) with (length es) by (unfold len; symmetry; apply Nat2N.id).
    clear Hd G Hlen. induction HF as [|[k v] t [Hk Hv] _ IH]; cbn [length map_slices_n flat_map app]; [reflexivity|].
    cbn [fst snd] in Hk, Hv. unfold enc_entry at 1. cbn [fst snd]. rewrite <- !app_assoc.
    pose proof (parse_one_encode (IUint k) (v ++ flat_map enc_entry t ++ X) ltac:(cbn [item_ok]; apply N.ltb_lt, Hk)) as P.
    cbn [encode_item] in P. rewrite P. rewrite (item_wf_skip v _ Hv). rewrite IH. reflexivity.
Qed.

(* a witness-set state whose written values are well-formed items *)
Definition wits_wf (w : wits) : Prop :=
  forall k v, lookup k (entries w) = Some v -> item_wf v = true.

Lemma entries_by_keys wr w kv : In kv (entries_by wr w) -> fst kv <= 7 /\ lookup (fst kv) (entries_by wr w) = Some (snd kv).
Proof.
  intros Hin. unfold entries_by in Hin. apply in_flat_map in Hin as [k [Hk Hin]].
  destruct (lookup k (w_fields w)) as [f|] eqn:El; [|contradiction].
  destruct (wr k f) as [v|] eqn:Ew; [|contradiction]. destruct Hin as [<-|[]]. cbn [fst snd].
  assert (Hk' : is_key k = true).
  { unfold is_key. apply existsb_exists. exists k. split; [exact Hk|apply N.eqb_refl]. }
  split; [apply is_key_le, Hk'|]. rewrite entries_by_lookup. unfold is_key in Hk'. rewrite Hk', El. exact Ew.
Qed.

Lemma entries_len_le wr w : len (entries_by wr w) <= 8.
Proof.
  unfold entries_by, key_order. cbn [flat_map]. unfold len. rewrite !app_length. cbn [length].
  repeat match goal with
         | |- context [match lookup ?k ?l with _ => _ end] => destruct (lookup k l) as [?f|]
         | |- context [match wr ?k ?f with _ => _ end] => destruct (wr k f)
         end; cbn [length]; lia.
Qed.

(* C04: the witness set written back is a well-formed definite map whose declared length is the number of
   entries written, and the generic reader recovers exactly those entries *)
Theorem encode_wits_wf w : wits_wf w ->
  item_wf (encode_wits w) = true /\ map_slices (encode_wits w) = Some (entries w, []).
Proof.
  intros Hw. unfold encode_wits.
  assert (HF : Forall entry_ok (entries w)).
  { apply Forall_forall. intros kv Hin. apply entries_by_keys in Hin as [Hk Hl]. split.
    - unfold two64. lia.
    - apply (Hw _ _ Hl). }
  assert (Hlen : len (entries w) < two64) by (pose proof (entries_len_le (fun _ => written) w); unfold entries, two64; lia).
  destruct (encode_map_wf (entries w) [] HF Hlen) as [[kvs P] S]. rewrite app_nil_r in P, S. split; [|exact S].
  unfold item_wf, parse_exact. rewrite P. reflexivity.
Qed.

(* fresh encodings of the two signature sets are well-formed when their components are byte strings *)
Definition vkw_ok (x : vkw) : bool := chunk_ok (fst x) && chunk_ok (snd x).
Definition bw_ok (x : bw) : bool :=
  match x with (a, b, c, d) => chunk_ok a && chunk_ok b && chunk_ok c && chunk_ok d end.

Lemma enc_vkeys_wf t ws : forallb vkw_ok ws = true -> len ws < two64 -> item_wf (enc_vkeys t ws) = true.
Proof.
  intros Hall Hl. unfold enc_vkeys. apply item_wf_encode.
  assert (A : item_ok (IArray true (map vkw_item ws)) = true).
  { cbn [item_ok]. unfold len in *. rewrite map_length. apply andb_true_iff. split; [apply N.ltb_lt, Hl|].
    rewrite forallb_forall in *. intros it Hin. apply in_map_iff in Hin as [x [<- Hx]]. specialize (Hall x Hx).
    unfold vkw_ok in Hall. apply andb_true_iff in Hall as [A B]. unfold vkw_item. cbn [item_ok forallb len length].
    rewrite A, B. reflexivity. }
  unfold set_item. destruct t; [|exact A].
  change (item_ok (ITag 258 (IArray true (map vkw_item ws)))) with ((258 <? two64) && item_ok (IArray true (map vkw_item ws))).
  rewrite A. reflexivity.
Qed.

Lemma enc_boots_wf t ws : forallb bw_ok ws = true -> len ws < two64 -> item_wf (enc_boots t ws) = true.
Proof.
  intros Hall Hl. unfold enc_boots. apply item_wf_encode.
  assert (A : item_ok (IArray true (map bw_item ws)) = true).
  { cbn [item_ok]. unfold len in *. rewrite map_length. apply andb_true_iff. split; [apply N.ltb_lt, Hl|].
    rewrite forallb_forall in *. intros it Hin. apply in_map_iff in Hin as [x [<- Hx]]. specialize (Hall x Hx).
    destruct x as [[[a b] c] d]. unfold bw_ok in Hall.
    apply andb_true_iff in Hall as [Hall D]. apply andb_true_iff in Hall as [Hall C]. apply andb_true_iff in Hall as [A B].
    unfold bw_item. cbn [item_ok forallb len length]. rewrite A, B, C, D. reflexivity. }
  unfold set_item. destruct t; [|exact A].
  change (item_ok (ITag 258 (IArray true (map bw_item ws)))) with ((258 <? two64) && item_ok (IArray true (map bw_item ws))).
  rewrite A. reflexivity.
Qed.

(* ================================================================= the property, assembled *)
Section Main.
  Variable H : bytes -> bytes.
  Variable sign_vkey : bytes -> bytes -> vkw.
  Variable sign_boot : bool -> bytes -> bytes -> bw.

  Notation decode_fixed := (decode_fixed H).
  Notation run_ops := (run_ops H sign_vkey sign_boot).

  (* body and auxiliary data: input slices, re-emitted verbatim after any add-signature history *)
  Theorem fixed_body_aux_preserved bs tx rest ops :
    decode_fixed bs = Ok (tx, rest) -> sig_ops ops ->
    exists hd Wb V cl,
      bs = hd ++ ft_body tx ++ Wb ++ V ++ enc_aux (ft_aux tx) ++ cl ++ rest /\
      item_wf (ft_body tx) = true /\
      match ft_aux tx with Some a => item_wf a = true | None => True end /\
      ((V = [] /\ ft_valid tx = true) \/ V = enc_valid (ft_valid tx)) /\
      (cl = [] \/ cl = [255]) /\
      ft_body (run_ops ops tx) = ft_body tx /\
      ft_aux (run_ops ops tx) = ft_aux tx /\
      encode_fixed (run_ops ops tx) =
        [132] ++ ft_body tx ++ encode_wits (ft_wits (run_ops ops tx)) ++ enc_valid (ft_valid tx) ++ enc_aux (ft_aux tx).
  Proof.
    intros E Hs. destruct (decode_fixed_slices H _ _ _ E) as [hd [Wb [V [cl [ln [w [E1 [_ [Hb [_ [_ [_ [_ [HV [Ha Hcl]]]]]]]]]]]]]]].
    destruct (run_ops_sig_frame H sign_vkey sign_boot ops Hs tx) as [A [_ [C D]]].
    exists hd, Wb, V, cl. repeat split; try assumption.
    unfold encode_fixed. rewrite A, C, D. reflexivity.
  Qed.

  (* every witness-set field no operation touched: the entry written back is byte-identical to the input
     slice of that field (and absent fields stay absent) *)
  Theorem fixed_untouched_verbatim bs tx rest ops k :
    decode_fixed bs = Ok (tx, rest) -> k <= 7 ->
    (forall o, In o ops -> touches o k = false) ->
    exists hd Wrest, bs = hd ++ ft_body tx ++ Wrest /\
      match lookup k (w_fields (ft_wits tx)) with
      | Some f =>
        exists raw pre kb post,
          lookup k (entries (ft_wits (run_ops ops tx))) = Some raw /\
          f_raw f = Some raw /\ raw <> [] /\
          Wrest = pre ++ kb ++ raw ++ post /\
          rd_uint (kb ++ raw ++ post) = Ok (k, raw ++ post) /\
          dec_field k (raw ++ post) = Ok (f_parsed f, post)
      | None => lookup k (entries (ft_wits (run_ops ops tx))) = None
      end.
  Proof.
    intros E Hk Ht. destruct (decode_fixed_slices H _ _ _ E) as [hd [Wb [V [cl [ln [w [E1 [_ [_ [_ [_ [_ [Hsl _]]]]]]]]]]]]].
    exists hd, (Wb ++ V ++ enc_aux (ft_aux tx) ++ cl ++ rest). split; [exact E1|].
    rewrite (entries_lookup _ _ Hk), (run_ops_untouched H sign_vkey sign_boot ops k Ht tx).
    destruct (lookup k (w_fields (ft_wits tx))) as [f|] eqn:El; [|reflexivity].
    destruct (Hsl _ _ El) as [raw [pre [kb [post [A [B [C [D F]]]]]]]].
    exists raw, pre, kb, post. unfold written. rewrite A. repeat split; assumption.
  Qed.

  (* the reported hash is Blake2b-256 of the body bytes - after ANY operation list (set_body as repaired),
     and of the ORIGINAL body slice after any add-signature history *)
  Theorem fixed_hash bs tx rest ops :
    decode_fixed bs = Ok (tx, rest) ->
    ft_hash (run_ops ops tx) = H (ft_body (run_ops ops tx)) /\
    (sig_ops ops -> ft_hash (run_ops ops tx) = H (ft_body tx)).
  Proof.
    intros E. destruct (decode_fixed_slices H _ _ _ E) as [hd [Wb [V [cl [ln [w [_ [_ [_ [Hh _]]]]]]]]]].
    split; [apply run_ops_hash_inv, Hh|].
    intros Hs. destruct (run_ops_sig_frame H sign_vkey sign_boot ops Hs tx) as [_ [B _]]. rewrite B. exact Hh.
  Qed.

  (* the signing operations sign exactly that hash *)
  Theorem fixed_sign_uses_hash tx k :
    hash_inv H tx ->
    ft_wits (step H sign_vkey sign_boot tx (OSignVkey k)) = add_vkey (sign_vkey k (H (ft_body tx))) (ft_wits tx) /\
    ft_wits (step H sign_vkey sign_boot tx (OSignIcarus k)) = add_boot (sign_boot false k (H (ft_body tx))) (ft_wits tx) /\
    ft_wits (step H sign_vkey sign_boot tx (OSignDaedalus k)) = add_boot (sign_boot true k (H (ft_body tx))) (ft_wits tx).
  Proof. unfold hash_inv. intros <-. repeat split. Qed.

  (* FixedTransactionBody *)
  Theorem fixed_body_bytes bs raw h rest : decode_fixed_body H bs = Ok ((raw, h), rest) ->
    bs = raw ++ rest /\ item_wf raw = true /\ h = H raw.
  Proof.
    unfold decode_fixed_body. intros E. apply bind_ok in E as [[raw' r] [E1 E]]. injection E as <- <- <-.
    apply raw_item_self in E1 as [-> Hwf]. repeat split. exact Hwf.
  Qed.

  (* the other constructors keep their byte arguments whole *)
  Theorem fixed_new_bytes rb rw v ra tx : fixed_new H rb rw v ra = Ok tx ->
    ft_body tx = rb /\ ft_aux tx = ra /\ ft_valid tx = v /\ ft_hash tx = H rb.
  Proof.
    unfold fixed_new. intros E. apply bind_ok in E as [bit [_ E]]. apply bind_ok in E as [[w r1] [_ E]].
    apply bind_ok in E as [u [_ E]]. apply mk_fixed_ok in E as [A [B [_ [C D]]]]. repeat split; assumption.
  Qed.
End Main.

(* ================================================================= the defects the repairs removed *)
Definition Hid (b : bytes) : bytes := b.
Definition no_vk (_ _ : bytes) : vkw := ([], []).
Definition no_bw (_ : bool) (_ _ : bytes) : bw := ([], [], [], []).

(* 84 | {0:[],1:[],2:0} | {1: []} | true | null : an empty native-script list *)
Definition witness_empty_native : bytes := [132; 163; 0; 128; 1; 128; 2; 0; 161; 1; 128; 245; 246].
Definition witness_empty_plutus : bytes := [132; 163; 0; 128; 1; 128; 2; 0; 161; 3; 128; 245; 246].

(* the serializer as it was before /repo 7a5b266 wrote map(0) followed by an entry: not a data item;
   the repaired one re-emits the input witness set *)
Theorem old_map_length_refuted :
  exists tx, decode_fixed Hid witness_empty_native = Ok (tx, []) /\
    item_wf (encode_wits_old (ft_wits tx)) = false /\
    encode_wits_old (ft_wits tx) = [160; 1; 128] /\
    item_wf (encode_wits (ft_wits tx)) = true /\
    encode_fixed tx = witness_empty_native.
Proof. eexists. split; [vm_compute; reflexivity|]. repeat split; vm_compute; reflexivity. Qed.

(* ... and dropped an empty Plutus-script array although no operation touched it *)
Theorem old_drops_empty_scripts_refuted :
  exists tx, decode_fixed Hid witness_empty_plutus = Ok (tx, []) /\
    lookup 3 (entries_by old_written (ft_wits tx)) = None /\
    lookup 3 (entries (ft_wits tx)) = Some [128] /\
    encode_fixed tx = witness_empty_plutus.
Proof. eexists. split; [vm_compute; reflexivity|]. repeat split; vm_compute; reflexivity. Qed.

(* set_body as it was before /repo be1619f left the hash of the previous body in place *)
Theorem old_set_body_hash_refuted :
  exists tx b, hash_inv Hid tx /\
    ~ hash_inv Hid (fold_left (step_old Hid no_vk no_bw) [OSetBody b] tx) /\
    hash_inv Hid (run_ops Hid no_vk no_bw [OSetBody b] tx).
Proof.
  destruct (decode_fixed Hid witness_empty_native) as [[tx r]| | |] eqn:E; try (vm_compute in E; discriminate).
  exists tx, [163; 0; 128; 1; 128; 2; 1].
  vm_compute in E. injection E as <- _. split; [reflexivity|]. split; [|reflexivity].
  unfold hash_inv. vm_compute. discriminate.
Qed.

(* ================================================================= non-vacuity *)
(* a non-canonical transaction: indefinite outer array, body with a non-minimal key head, witness set as an
   indefinite map with keys out of order, an untagged chunked-vkey witness set, an empty redeemer map,
   a one-element tagged datum list with an indefinite constructor; is_valid present; metadata map as aux *)
Definition sample_vk : bytes := repeat 7 32.
Definition sample_sg : bytes := repeat 9 64.
Definition sample_tx : bytes :=
  [159] ++ [163; 24; 0; 128; 1; 128; 2; 0] ++
  ([191; 5; 160; 4; 217; 1; 2; 129; 216; 121; 159; 255; 0; 129; 130; 95; 88; 32] ++ sample_vk ++ [255; 88; 64] ++ sample_sg ++ [255]) ++
  [244] ++ [161; 1; 2] ++ [255].

Example sample_tx_accepted :
  exists tx, decode_fixed Hid sample_tx = Ok (tx, []) /\
    ft_valid tx = false /\ ft_aux tx = Some [161; 1; 2] /\ ft_body tx = [163; 24; 0; 128; 1; 128; 2; 0] /\
    map fst (w_fields (ft_wits tx)) = [5; 4; 0] /\
    wits_wf (ft_wits (run_ops Hid no_vk no_bw [OAddBoot (sample_vk, sample_sg, [1; 2], [160])] tx)).
Proof.
  eexists. split; [vm_compute; reflexivity|]. repeat split.
  intros k v. vm_compute. 
  destruct k as [|p]; [intros E; injection E as <-; reflexivity|].
  repeat (destruct p as [p|p|]; try discriminate; try (intros E; injection E as <-; reflexivity)).
Qed.

Example sig_ops_example : sig_ops [OAddVkey (sample_vk, sample_sg); OSignVkey [1]; OSignIcarus [2]; OSignDaedalus [3]; OAddBoot (sample_vk, sample_sg, [], [])].
Proof. intros o Hin. cbn [In] in Hin. repeat (destruct Hin as [<-|Hin]; [reflexivity|]). contradiction. Qed.
