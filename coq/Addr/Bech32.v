(* BIP-173 Bech32 as the `bech32` crate 0.7.3 (the version in /repo/rust/Cargo.lock) implements it:
   u5 / charset, check_hrp (length 1..83, bytes 33..126, no mixed case), Bech32Writer (HRP expansion,
   polymod_step with the five generator constants, six padding zeros, checksum characters),
   encode / encode_to_fmt (an upper-case HRP is lower-cased), decode (at least 8 bytes, LAST '1' is the
   separator, at least 6 data characters, case rules across HRP and data, CHARSET_REV lookup,
   verify_checksum, the 6 checksum symbols dropped; this crate version enforces NO 90-character
   limit), ToBase32 for byte slices (8 -> 5 bits with zero padding, the bit-buffer algorithm) and
   FromBase32 for Vec<u8> (convert_bits 5 -> 8 without padding: at most 4 leftover bits, all zero).
   Variant Bech32 only (constant 1); bech32m does not exist in this version.
   Text is a list of bytes (ASCII codes; &str in UTF-8).  CHARSET, CHARSET_REV and GEN are transcribed
   by script from src/lib.rs.  Model definitions only; proofs are in Bech32Proofs.v. *)
From CSL Require Import Base.Prelude.
Local Open Scope N_scope.

(* CHARSET = "qpzry9x8gf2tvdw0s3jn54khce6mua7l" *)
Definition charset : list N := [113; 112; 122; 114; 121; 57; 120; 56; 103; 102; 50; 116; 118; 100; 119; 48; 115; 51; 106; 110; 53; 52; 107; 104; 99; 101; 54; 109; 117; 97; 55; 108].
Definition to_char (d : N) : N := nth (N.to_nat d) charset 0.

(* CHARSET_REV : [i8; 128] *)
Definition charset_rev : list Z := [
  (-1); (-1); (-1); (-1); (-1); (-1); (-1); (-1); (-1); (-1); (-1); (-1); (-1); (-1); (-1); (-1);
  (-1); (-1); (-1); (-1); (-1); (-1); (-1); (-1); (-1); (-1); (-1); (-1); (-1); (-1); (-1); (-1);
  (-1); (-1); (-1); (-1); (-1); (-1); (-1); (-1); (-1); (-1); (-1); (-1); (-1); (-1); (-1); (-1);
  15; (-1); 10; 17; 21; 20; 26; 30; 7; 5; (-1); (-1); (-1); (-1); (-1); (-1);
  (-1); 29; (-1); 24; 13; 25; 9; 8; 23; (-1); 18; 22; 31; 27; 19; (-1);
  1; 0; 3; 16; 11; 28; 12; 14; 6; 4; 2; (-1); (-1); (-1); (-1); (-1);
  (-1); 29; (-1); 24; 13; 25; 9; 8; 23; (-1); 18; 22; 31; 27; 19; (-1);
  1; 0; 3; 16; 11; 28; 12; 14; 6; 4; 2; (-1); (-1); (-1); (-1); (-1)
]%Z.

Definition gen0 : N := 996825010.
Definition gen1 : N := 642813549.
Definition gen2 : N := 513874426.
Definition gen3 : N := 1027748829.
Definition gen4 : N := 705979059.

(* ---------------- checksum ---------------- *)
(* if (b >> i) & 1 == 1 { chk ^= item } *)
Definition sel (b i g : N) : N := if N.testbit b i then g else 0.

(* polymod_step: b = chk >> 25; chk = (chk & 0x1ffffff) << 5 ^ v; then the selected generators.
   The state stays below 2^30, so u32 never wraps. *)
Definition polymod_step (chk v : N) : N :=
  let b := N.shiftr chk 25 in
  let c := N.lxor (N.shiftl (N.land chk 33554431) 5) v in
  N.lxor (N.lxor (N.lxor (N.lxor (N.lxor c (sel b 0 gen0)) (sel b 1 gen1)) (sel b 2 gen2)) (sel b 3 gen3)) (sel b 4 gen4).

Definition polymod_from (chk : N) (values : list N) : N := fold_left polymod_step values chk.
Definition polymod (values : list N) : N := polymod_from 1 values.

(* hrp_expand: high 3 bits of every byte, a zero, low 5 bits of every byte *)
Definition hrp_expand (hrp : list N) : list N :=
  map (fun b => b / 32) hrp ++ [0] ++ map (fun b => b mod 32) hrp.

(* Bech32Writer::inner_finalize: six zeros, xor 1, six 5-bit groups most significant first
   ([(plm >> (5 * (5 - p))) & 0x1f], written with / and mod) *)
Definition create_checksum (hrp data : list N) : list N :=
  let plm := N.lxor (polymod_from 1 (hrp_expand hrp ++ data ++ [0; 0; 0; 0; 0; 0])) 1 in
  [plm / 33554432 mod 32; plm / 1048576 mod 32; plm / 32768 mod 32; plm / 1024 mod 32; plm / 32 mod 32; plm mod 32].

Definition verify_checksum (hrp data : list N) : bool := polymod (hrp_expand hrp ++ data) =? 1.

(* ---------------- human-readable part ---------------- *)
Inductive hcase := CUpper | CLower | CNone.
Definition is_lower (b : N) : bool := (97 <=? b) && (b <=? 122).
Definition is_upper (b : N) : bool := (65 <=? b) && (b <=? 90).
Definition lowercase (b : N) : N := if is_upper b then b + 32 else b.

Fixpoint check_hrp_go (hrp : list N) (has_lower has_upper : bool) : result hcase :=
  match hrp with
  | [] => Ok (match has_upper, has_lower with
              | true, false => CUpper | false, true => CLower | _, _ => CNone end)
  | b :: t =>
      if (b <? 33) || (126 <? b) then Err
      else
        let hl := if is_lower b then true else has_lower in
        let hu := if is_lower b then has_upper else if is_upper b then true else has_upper in
        if hl && hu then Err else check_hrp_go t hl hu
  end.
Definition check_hrp (hrp : list N) : result hcase :=
  if (length hrp =? 0)%nat || (83 <? length hrp)%nat then Err else check_hrp_go hrp false false.

Definition hrp_lower (c : hcase) (hrp : list N) : list N :=
  match c with CUpper => map lowercase hrp | _ => hrp end.

(* ---------------- encode ---------------- *)
(* data: u5 values (below 32 by type) *)
Definition encode (hrp data : list N) : result (list N) :=
  match check_hrp hrp with
  | Ok c =>
      let hl := hrp_lower c hrp in
      Ok (hl ++ [49] ++ map to_char data ++ map to_char (create_checksum hl data))
  | _ => Err
  end.

(* ---------------- decode ---------------- *)
Fixpoint rfind_go (c : N) (s : list N) (i : nat) (last : option nat) : option nat :=
  match s with
  | [] => last
  | x :: t => rfind_go c t (S i) (if x =? c then Some i else last)
  end.
Definition rfind (c : N) (s : list N) : option nat := rfind_go c s 0%nat None.

(* one data character: ASCII only, case bookkeeping, reverse table *)
Definition decode_char (case : hcase) (c : N) : result (hcase * N) :=
  if 128 <=? c then Err
  else
    let r := if is_lower c then (match case with CUpper => Err | _ => Ok CLower end)
             else if is_upper c then (match case with CLower => Err | _ => Ok CUpper end)
             else Ok case in
    match r with
    | Ok case' =>
        let num := nth (N.to_nat c) charset_rev (-1)%Z in
        if (31 <? num)%Z || (num <? 0)%Z then Err else Ok (case', Z.to_N num)
    | _ => Err
    end.

Fixpoint decode_chars (case : hcase) (cs : list N) : result (list N) :=
  match cs with
  | [] => Ok []
  | c :: t =>
      let* '(case', v) := decode_char case c in
      let* vs := decode_chars case' t in Ok (v :: vs)
  end.

Definition decode (s : list N) : result (list N * list N) :=
  if (length s <? 8)%nat then Err
  else match rfind 49 s with
  | None => Err
  | Some sep =>
      let raw_hrp := firstn sep s in
      let raw_data := skipn (S sep) s in
      if (length raw_data <? 6)%nat then Err
      else
        let* case := check_hrp raw_hrp in
        let hl := hrp_lower case raw_hrp in
        let* data := decode_chars case raw_data in
        if verify_checksum hl data then Ok (hl, firstn (length data - 6) data) else Err
  end.

(* ---------------- 8 <-> 5 bit conversion ---------------- *)
(* ToBase32 for byte slices: [buffer] keeps the unwritten bits at the top of a u8 *)
Fixpoint to_base32_go (bs : bytes) (buffer_bits buffer : N) : list N :=
  match bs with
  | [] =>
      let '(out1, buffer, buffer_bits) :=
        if 5 <=? buffer_bits then ([N.land buffer 248 / 8], (buffer * 32) mod 256, buffer_bits - 5)
        else ([], buffer, buffer_bits) in
      out1 ++ (if buffer_bits =? 0 then [] else [buffer / 8])
  | b :: t =>
      let '(out1, buffer, buffer_bits) :=
        if 5 <=? buffer_bits then ([N.land buffer 248 / 8], (buffer * 32) mod 256, buffer_bits - 5)
        else ([], buffer, buffer_bits) in
      let from_buffer := buffer / 8 in
      let from_byte := N.shiftr b (3 + buffer_bits) in
      out1 ++ N.lor from_buffer from_byte
           :: to_base32_go t (buffer_bits + 3) (N.shiftl b (5 - buffer_bits) mod 256)
  end.
Definition to_base32 (bs : bytes) : list N := to_base32_go bs 0 0.

(* convert_bits(data, 5, 8, false): u32 accumulator (shifts drop the high bits), at most one byte is
   produced per input value because fewer than 8 bits are ever left over *)
Fixpoint from_base32_go (data : list N) (acc bits : N) (ret : bytes) : result bytes :=
  match data with
  | [] =>
      if (5 <=? bits) || negb (N.shiftl acc (8 - bits) mod 256 =? 0) then Err else Ok ret
  | v :: t =>
      if negb (N.shiftr v 5 =? 0) then Err
      else
        let acc := N.lor (N.shiftl acc 5 mod 4294967296) v in
        let bits := bits + 5 in
        if 8 <=? bits then from_base32_go t acc (bits - 8) (ret ++ [N.shiftr acc (bits - 8) mod 256])
        else from_base32_go t acc bits ret
  end.
Definition from_base32 (data : list N) : result bytes := from_base32_go data 0 0 [].

(* ---------------- the two calls the library makes ---------------- *)
(* bech32::encode(hrp, bytes.to_base32()) *)
Definition b32_encode (hrp : list N) (bs : bytes) : option (list N) :=
  match encode hrp (to_base32 bs) with Ok s => Some s | _ => None end.
(* bech32::decode(s) then Vec::<u8>::from_base32 *)
Definition b32_decode (s : list N) : option (list N * bytes) :=
  match decode s with
  | Ok (h, d) => match from_base32 d with Ok bs => Some (h, bs) | _ => None end
  | _ => None
  end.
