(* Round trip of the Base58 digit-array algorithm (Base58.v): for EVERY non-empty byte string,
   decode (encode bs) = Ok bs; the empty string does not round-trip (refuted by computation). *)
From CSL Require Import Base.Prelude Addr.Base58.
Local Open Scope N_scope.

(* value of a little-endian digit list *)
Fixpoint val (b : N) (ds : list N) : N :=
  match ds with [] => 0 | d :: t => d + b * val b t end.
(* no most-significant zero digit *)
Fixpoint trimmed (l : list N) : bool :=
  match l with
  | [] => true
  | d :: t => match t with [] => negb (d =? 0) | _ => trimmed t end
  end.
Definition digits_lt (b : N) (l : list N) : Prop := Forall (fun d => d < b) l.
(* Horner evaluation, most significant first *)
Definition horner (m : N) (xs : list N) (v0 : N) : N := fold_left (fun v x => m * v + x) xs v0.

Lemma trimmed_tail d t : trimmed (d :: t) = true -> trimmed t = true.
Proof. destruct t; [reflexivity|]. cbn [trimmed]. auto. Qed.

Lemma trimmed_app l p : p <> [] -> trimmed (l ++ p) = trimmed p.
Proof.
  intros Hp. induction l as [|d t IH]; [reflexivity|]. cbn [app].
  destruct (t ++ p) eqn:E.
  - destruct t; [cbn in E; congruence|discriminate].
  - change (trimmed (d :: n :: l)) with (trimmed (n :: l)). exact IH.
Qed.

Lemma pow_S b n : b ^ N.of_nat (S n) = b * b ^ N.of_nat n.
Proof. rewrite Nat2N.inj_succ, N.pow_succ_r'. reflexivity. Qed.

Lemma val_app b l1 l2 : val b (l1 ++ l2) = val b l1 + b ^ N.of_nat (length l1) * val b l2.
Proof.
  induction l1 as [|d t IH]; cbn [app val length].
  - change (N.of_nat 0) with 0. rewrite N.pow_0_r. lia.
  - rewrite IH, pow_S. lia.
Qed.

Lemma horner_app m l1 l2 v : horner m (l1 ++ l2) v = horner m l2 (horner m l1 v).
Proof. unfold horner. apply fold_left_app. Qed.

Lemma horner_rev b l : horner b (rev l) 0 = val b l.
Proof.
  induction l as [|d t IH]; [reflexivity|]. cbn [rev val]. rewrite horner_app, IH.
  unfold horner. cbn [fold_left]. lia.
Qed.

Lemma horner_ge m xs : 1 <= m -> forall v, v <= horner m xs v.
Proof.
  intros Hm. induction xs as [|x t IH]; intros v; unfold horner in *; cbn [fold_left]; [lia|].
  etransitivity; [|apply IH]. nia.
Qed.

Section Digits.
  Variables m base : N.
  Hypothesis Hm : 1 <= m.
  Hypothesis Hb : 2 <= base.

  Lemma muladd_spec ds : forall c ds' c', muladd_digits m base ds c = (ds', c') ->
    length ds' = length ds /\ digits_lt base ds' /\
    val base ds' + base ^ N.of_nat (length ds) * c' = m * val base ds + c.
  Proof.
    induction ds as [|d t IH]; intros c ds' c' H; cbn [muladd_digits] in H.
    - injection H as <- <-. cbn [length val]. change (N.of_nat 0) with 0. rewrite N.pow_0_r.
      repeat split; [constructor|lia].
    - destruct (muladd_digits m base t ((c + d * m) / base)) as [t' c1] eqn:E.
      injection H as <- <-. destruct (IH _ _ _ E) as (Hl & Hlt & Hv).
      cbn [length val]. rewrite pow_S. repeat split.
      + now rewrite Hl.
      + constructor; [apply N.mod_lt; lia|exact Hlt].
      + pose proof (N.div_mod (c + d * m) base ltac:(lia)) as Hdm.
        set (P := base ^ N.of_nat (length t)) in *.
        assert (base * val base t' + base * P * c1 = base * (m * val base t) + base * ((c + d * m) / base)) by nia.
        lia.
  Qed.

  Lemma muladd_carry ds : forall c ds' c', digits_lt base ds -> c < m ->
    muladd_digits m base ds c = (ds', c') -> c' < m.
  Proof.
    induction ds as [|d t IH]; intros c ds' c' Hlt Hc H; cbn [muladd_digits] in H.
    - injection H as _ <-. exact Hc.
    - destruct (muladd_digits m base t ((c + d * m) / base)) as [t' c1] eqn:E.
      injection H as _ <-. inversion Hlt as [|? ? Hd Hlt']; subst.
      eapply IH; [exact Hlt'| |exact E].
      apply N.div_lt_upper_bound; [lia|]. nia.
  Qed.

  Lemma muladd_trimmed ds : forall c ds', ds <> [] -> trimmed ds = true ->
    muladd_digits m base ds c = (ds', 0) -> trimmed ds' = true.
  Proof.
    induction ds as [|d t IH]; intros c ds' Hne Ht H; [congruence|].
    cbn [muladd_digits] in H.
    destruct (muladd_digits m base t ((c + d * m) / base)) as [t' c1] eqn:E.
    injection H as <- ->. destruct t as [|d2 t2].
    - cbn [muladd_digits] in E. injection E as <- E. cbn [trimmed] in *.
      apply N.div_small_iff in E; [|lia]. rewrite N.mod_small by exact E.
      destruct (d =? 0) eqn:E0; [discriminate|].
      destruct (c + d * m =? 0) eqn:E1; [nia|reflexivity].
    - assert (Ht' : trimmed t' = true) by (eapply IH; [discriminate|exact Ht|exact E]).
      destruct (muladd_spec _ _ _ _ E) as (Hl & _). destruct t'; [discriminate|]. exact Ht'.
  Qed.

  Lemma push_carry_zero f : push_carry f base 0 = [].
  Proof. destruct f; reflexivity. Qed.

  Lemma push_carry_spec f : forall c, c < base ^ N.of_nat f ->
    val base (push_carry f base c) = c /\ digits_lt base (push_carry f base c) /\
    trimmed (push_carry f base c) = true /\ (c <> 0 -> push_carry f base c <> []).
  Proof.
    induction f as [|f IH]; intros c Hc.
    - change (N.of_nat 0) with 0 in Hc. rewrite N.pow_0_r in Hc. assert (c = 0) by lia. subst.
      cbn. repeat split; [constructor|congruence].
    - cbn [push_carry]. destruct (c =? 0) eqn:E.
      + assert (c = 0) by lia. subst. cbn. repeat split; [constructor|congruence].
      + rewrite pow_S in Hc.
        assert (Hd : c / base < base ^ N.of_nat f) by (apply N.div_lt_upper_bound; lia).
        destruct (IH _ Hd) as (Hv & Hlt & Ht & Hne).
        pose proof (N.div_mod c base ltac:(lia)) as Hdm.
        pose proof (N.mod_lt c base ltac:(lia)) as Hml.
        cbn [val]. rewrite Hv. repeat split; [lia|constructor; assumption| |discriminate].
        cbn [trimmed]. destruct (push_carry f base (c / base)) eqn:Ep; [|exact Ht].
        destruct (N.eq_dec (c / base) 0) as [Hz|Hz]; [|now apply Hne in Hz].
        destruct (c mod base =? 0) eqn:E2; [lia|reflexivity].
  Qed.

  (* what the digit array is between two rounds *)
  Definition good (ds : list N) : Prop :=
    digits_lt base ds /\ (ds = [0] \/ (ds <> [] /\ trimmed ds = true)).

  Hypothesis Hfuel : m <= base ^ N.of_nat 32.

  Lemma step_good ds x : good ds -> x < m ->
    good (digits_step m base ds x) /\ val base (digits_step m base ds x) = m * val base ds + x.
  Proof.
    intros [Hlt Hshape] Hx. unfold digits_step.
    destruct (muladd_digits m base ds x) as [ds' c'] eqn:E.
    destruct (muladd_spec _ _ _ _ E) as (Hl & Hlt' & Hv).
    pose proof (muladd_carry _ _ _ _ Hlt Hx E) as Hc.
    destruct (push_carry_spec 32 c' ltac:(lia)) as (Hpv & Hplt & Hpt & Hpne).
    split.
    - split; [apply Forall_app; split; assumption|].
      destruct (N.eq_dec c' 0) as [Hz|Hz].
      + subst c'. rewrite push_carry_zero, app_nil_r.
        destruct Hshape as [->|[Hne Ht]].
        * cbn [muladd_digits] in E. injection E as <- E.
          rewrite N.mul_0_l, N.add_0_r in *. apply N.div_small_iff in E; [|lia].
          rewrite N.mod_small by exact E.
          destruct (N.eq_dec x 0) as [->|Hx0]; [now left|right].
          split; [discriminate|]. cbn [trimmed]. destruct (x =? 0) eqn:E0; [lia|reflexivity].
        * right. split; [destruct ds'; [destruct ds; [congruence|discriminate]|discriminate]|].
          eapply muladd_trimmed; eassumption.
      + right. specialize (Hpne Hz). split; [destruct ds'; [exact Hpne|discriminate]|].
        rewrite trimmed_app by exact Hpne. exact Hpt.
    - rewrite val_app, Hpv, Hl. exact Hv.
  Qed.

  Lemma fold_good xs : forall ds, good ds -> Forall (fun x => x < m) xs ->
    good (fold_left (digits_step m base) xs ds) /\
    val base (fold_left (digits_step m base) xs ds) = horner m xs (val base ds).
  Proof.
    induction xs as [|x t IH]; intros ds Hg Hxs; cbn [fold_left]; [split; [exact Hg|reflexivity]|].
    inversion Hxs as [|? ? Hx Hxs']; subst.
    destruct (step_good ds x Hg Hx) as [Hg' Hv'].
    destruct (IH _ Hg' Hxs') as [Hg'' Hv'']. split; [exact Hg''|].
    rewrite Hv'', Hv'. reflexivity.
  Qed.

  Lemma val_zero_trimmed l : trimmed l = true -> val base l = 0 -> l = [].
  Proof using Hb. clear Hm Hfuel.
    induction l as [|d t IH]; intros Ht Hv; [reflexivity|]. cbn [val] in Hv.
    assert (d = 0) by lia. assert (val base t = 0) by nia. subst d.
    destruct t as [|d2 t2]; [cbn in Ht; discriminate|].
    specialize (IH (trimmed_tail _ _ Ht) H0). discriminate.
  Qed.

  Lemma trimmed_unique l1 : forall l2, digits_lt base l1 -> digits_lt base l2 ->
    trimmed l1 = true -> trimmed l2 = true -> val base l1 = val base l2 -> l1 = l2.
  Proof using Hb. clear Hm Hfuel.
    induction l1 as [|d1 t1 IH]; intros l2 H1 H2 T1 T2 Hv.
    - symmetry. apply val_zero_trimmed; [exact T2|]. cbn [val] in Hv. lia.
    - destruct l2 as [|d2 t2].
      + apply val_zero_trimmed; [exact T1|exact Hv].
      + inversion H1 as [|? ? Hd1 H1']; inversion H2 as [|? ? Hd2 H2']; subst.
        cbn [val] in Hv.
        assert (Ht : val base t1 = val base t2).
        { rewrite (N.div_unique (d1 + base * val base t1) base (val base t1) d1) by lia.
          rewrite (N.div_unique (d1 + base * val base t1) base (val base t2) d2) by lia. reflexivity. }
        assert (d1 = d2) by nia. subst d2. f_equal.
        apply IH; [assumption|assumption|eapply trimmed_tail; eassumption|eapply trimmed_tail; eassumption|exact Ht].
  Qed.

  Lemma good_unique l1 l2 : good l1 -> good l2 -> val base l1 = val base l2 -> l1 = l2.
  Proof using Hb. clear Hm Hfuel.
    intros [H1 S1] [H2 S2] Hv.
    destruct S1 as [->|[N1 T1]], S2 as [->|[N2 T2]].
    - reflexivity.
    - cbn [val] in Hv. exfalso. apply N2. apply val_zero_trimmed; [exact T2|lia].
    - cbn [val] in Hv. exfalso. apply N1. apply val_zero_trimmed; [exact T1|lia].
    - apply trimmed_unique; assumption.
  Qed.

  Lemma good_val_zero l : good l -> val base l = 0 -> l = [0].
  Proof using Hb. clear Hm Hfuel.
    intros [_ [->|[Hn Ht]]] Hv; [reflexivity|]. exfalso. apply Hn. now apply val_zero_trimmed.
  Qed.

  Lemma good_start : good [0].
  Proof using Hb. clear Hm Hfuel. split; [constructor; [lia|constructor]|now left]. Qed.
End Digits.

(* ---- take_while / repeat helpers ---- *)
Fixpoint drop_while (p : N -> bool) (l : list N) : list N :=
  match l with [] => [] | x :: t => if p x then drop_while p t else l end.

Lemma take_drop p l : l = take_while p l ++ drop_while p l.
Proof. induction l as [|x t IH]; [reflexivity|]. cbn. destruct (p x); [cbn; now f_equal|reflexivity]. Qed.

Lemma drop_while_head p l : match drop_while p l with [] => True | x :: _ => p x = false end.
Proof. induction l as [|x t IH]; [exact I|]. cbn. destruct (p x) eqn:E; [exact IH|exact E]. Qed.

Lemma take_while_all p l : Forall (fun x => p x = true) (take_while p l).
Proof. induction l as [|x t IH]; [constructor|]. cbn. destruct (p x) eqn:E; constructor; assumption. Qed.

Lemma take_while_app_stop p l1 l2 : Forall (fun x => p x = true) l1 ->
  match l2 with [] => True | x :: _ => p x = false end -> take_while p (l1 ++ l2) = l1.
Proof.
  induction 1 as [|x t Hx _ IH]; intros H2; cbn [app take_while].
  - destruct l2 as [|y r]; [reflexivity|]. cbn. now rewrite H2.
  - rewrite Hx. f_equal. now apply IH.
Qed.

Lemma zeros_repeat l : Forall (fun x => (x =? 0) = true) l -> l = repeat 0 (length l).
Proof. induction 1 as [|x t Hx _ IH]; [reflexivity|]. cbn. f_equal; [lia|exact IH]. Qed.

Lemma rev_repeat (x : N) n : rev (repeat x n) = repeat x n.
Proof.
  induction n as [|n IH]; [reflexivity|]. cbn [repeat rev]. rewrite IH.
  clear. induction n as [|n IH]; [reflexivity|]. cbn. now rewrite IH.
Qed.

Lemma horner_zeros m l v : Forall (fun x => (x =? 0) = true) l -> v = 0 -> horner m l v = 0.
Proof.
  intros H; revert v; induction H as [|x t Hx _ IH]; intros v ->; [reflexivity|].
  unfold horner in *. cbn [fold_left]. apply IH. lia.
Qed.

(* ---- alphabet ---- *)
Lemma alphabet_sweep :
  forallb (fun i => match position (alpha (N.of_nat i)) with Some j => j =? N.of_nat i | None => false end)
          (seq 0 58) = true.
Proof. vm_compute. reflexivity. Qed.

Lemma position_alpha d : d < 58 -> position (alpha d) = Some d.
Proof.
  intros Hd. pose proof alphabet_sweep as S. rewrite forallb_forall in S.
  specialize (S (N.to_nat d)). rewrite N2Nat.id in S.
  assert (Hin : In (N.to_nat d) (seq 0 58)) by (apply in_seq; lia).
  specialize (S Hin). destruct (position (alpha d)) as [j|]; [|discriminate]. f_equal. lia.
Qed.

Lemma positions_alpha ds : digits_lt 58 ds -> positions (map alpha ds) = Some ds.
Proof.
  induction 1 as [|d t Hd _ IH]; [reflexivity|]. cbn [map positions].
  now rewrite position_alpha, IH.
Qed.

Lemma alpha_zero_inj d : d < 58 -> (alpha d =? alpha 0) = true -> d = 0.
Proof.
  intros Hd He. assert (alpha d = alpha 0) by lia.
  pose proof (position_alpha d Hd) as P. rewrite H in P. rewrite position_alpha in P by lia. congruence.
Qed.

Lemma pow58_fuel : 256 <= 58 ^ N.of_nat 32. Proof. vm_compute. discriminate. Qed.
Lemma pow256_fuel : 58 <= 256 ^ N.of_nat 32. Proof. vm_compute. discriminate. Qed.

(* ---- the round trip ---- *)
Theorem base58_roundtrip bs : bytes_ok bs -> bs <> [] -> base58_decode (base58_encode bs) = Ok bs.
Proof.
  intros Hok Hne. unfold base58_encode.
  set (zs := take_while (fun b => b =? 0) bs).
  set (rest := drop_while (fun b => b =? 0) bs).
  assert (Hsplit : bs = zs ++ rest) by apply take_drop.
  assert (Hzs : Forall (fun x => (x =? 0) = true) zs) by apply take_while_all.
  pose proof (drop_while_head (fun b => b =? 0) bs) as Hrest. fold rest in Hrest.
  set (D := fold_left (digits_step 256 58) bs [0]).
  destruct (fold_good 256 58 ltac:(lia) ltac:(lia) pow58_fuel bs [0] (good_start 58 ltac:(lia)))
    as [HgD HvD].
  { eapply Forall_impl; [|exact Hok]. cbn. intros; lia. }
  fold D in HgD, HvD. cbn [val] in HvD. rewrite N.mul_0_r, N.add_0_r in HvD.
  assert (HV : horner 256 bs 0 = horner 256 rest 0).
  { rewrite Hsplit at 1. rewrite horner_app. f_equal. now apply horner_zeros. }
  rewrite HV in HvD.
  assert (Hones : Forall (fun c => (c =? alpha 0) = true) (map (fun _ : N => alpha 0) zs)).
  { apply Forall_forall. intros c Hc. apply in_map_iff in Hc. destruct Hc as (? & <- & _). lia. }
  unfold base58_decode.
  destruct rest as [|r rt] eqn:Er.
  - (* all bytes are zero *)
    rewrite app_nil_r in Hsplit. unfold horner in HvD. cbn [fold_left] in HvD.
    assert (HD : D = [0]) by (eapply good_val_zero; [| exact HgD | exact HvD]; lia).
    rewrite HD. cbn [rev map app].
    assert (Htw : take_while (fun c => c =? alpha 0) (map (fun _ : N => alpha 0) zs ++ [alpha 0])
                  = map (fun _ : N => alpha 0) zs ++ [alpha 0]).
    { rewrite <- (app_nil_r (map _ zs ++ [alpha 0])) at 1. apply take_while_app_stop; [|exact I].
      apply Forall_app; split; [exact Hones|]. constructor; [lia|constructor]. }
    rewrite Htw, skipn_all. cbn [positions fold_left].
    change (length (take_while (fun b : N => b =? 0) (rev [0]))) with 1%nat.
    rewrite app_length, map_length. cbn [length].
    assert (Hz : (1 <= length zs)%nat) by (rewrite <- Hsplit; destruct bs; [congruence|cbn; lia]).
    replace (1 <? length zs + 1)%nat with true by (symmetry; apply Nat.ltb_lt; lia).
    change (0 <? 1)%nat with true. cbv iota.
    replace (length zs + 1 - 1 - 1)%nat with (length zs - 1)%nat by lia.
    f_equal. rewrite rev_app_distr, rev_repeat. cbn [rev app].
    rewrite Hsplit. rewrite (zeros_repeat zs Hzs) at 2.
    destruct (length zs) as [|n]; [lia|]. cbn [repeat]. replace (S n - 1)%nat with n by lia.
    clear. induction n as [|n IH]; [reflexivity|]. cbn [repeat app]. now rewrite IH.
  - (* a non-zero byte exists: rest = r :: rt with r <> 0 *)
    assert (Hr : r <> 0) by (cbn in Hrest; lia).
    assert (Hokr : bytes_ok (r :: rt)).
    { unfold bytes_ok in *. rewrite Hsplit in Hok. apply Forall_app in Hok. tauto. }
    assert (HVpos : 0 < horner 256 (r :: rt) 0).
    { unfold horner. cbn [fold_left]. rewrite N.mul_0_r, N.add_0_l.
      pose proof (horner_ge 256 rt ltac:(lia) r). unfold horner in H. lia. }
    destruct HgD as [HltD [HD0|[HDne HDt]]].
    { rewrite HD0 in HvD. cbn [val] in HvD. lia. }
    destruct (exists_last HDne) as (Dl & x & HDx).
    assert (Hx0 : x <> 0).
    { rewrite HDx, trimmed_app in HDt by discriminate. cbn in HDt. lia. }
    assert (Hxlt : x < 58).
    { rewrite HDx in HltD. apply Forall_app in HltD. destruct HltD as [_ H]. now inversion H. }
    assert (HrevD : rev D = x :: rev Dl) by (rewrite HDx, rev_app_distr; reflexivity).
    assert (Htw : take_while (fun c => c =? alpha 0) (map (fun _ : N => alpha 0) zs ++ map alpha (rev D))
                  = map (fun _ : N => alpha 0) zs).
    { apply take_while_app_stop; [exact Hones|]. rewrite HrevD. cbn [map].
      destruct (alpha x =? alpha 0) eqn:E; [|reflexivity]. apply alpha_zero_inj in E; [contradiction|exact Hxlt]. }
    rewrite Htw, map_length.
    assert (Hskip : skipn (length zs) (map (fun _ : N => alpha 0) zs ++ map alpha (rev D)) = map alpha (rev D)).
    { rewrite <- (map_length (fun _ : N => alpha 0) zs) at 1. rewrite skipn_app, skipn_all, Nat.sub_diag. reflexivity. }
    rewrite Hskip, positions_alpha by (apply Forall_rev; exact HltD).
    set (B := fold_left (digits_step 58 256) (rev D) [0]).
    destruct (fold_good 58 256 ltac:(lia) ltac:(lia) pow256_fuel (rev D) [0] (good_start 256 ltac:(lia)))
      as [HgB HvB].
    { apply Forall_rev. exact HltD. }
    fold B in HgB, HvB. cbn [val] in HvB. rewrite N.mul_0_r, N.add_0_r, horner_rev, HvD in HvB.
    assert (HB : B = rev (r :: rt)).
    { apply (good_unique 256 ltac:(lia)); [exact HgB| |rewrite HvB, <- horner_rev, rev_involutive; reflexivity].
      split; [apply Forall_rev; eapply Forall_impl; [|exact Hokr]; cbn; intros; lia|].
      right. split; [cbn [rev]; destruct (rev rt); discriminate|].
      cbn [rev]. rewrite trimmed_app by discriminate. cbn. destruct (r =? 0) eqn:E; [lia|reflexivity]. }
    rewrite HB, rev_involutive. cbn [take_while].
    destruct (r =? 0) eqn:E; [lia|]. cbn [length].
    assert (Hpad : (if (0 <? length zs)%nat then if (0 <? 0)%nat then (length zs - 0 - 1)%nat else length zs else 0%nat) = length zs).
    { destruct (0 <? length zs)%nat eqn:E1; [reflexivity|]. apply Nat.ltb_ge in E1. lia. }
    rewrite Hpad. f_equal. rewrite rev_app_distr, rev_repeat, rev_involutive.
    rewrite Hsplit. f_equal. symmetry. apply zeros_repeat. exact Hzs.
Qed.

(* the empty input is the one exception of this algorithm: encode [] = "1", decode "1" = [0] *)
Theorem base58_empty_refuted : base58_decode (base58_encode []) = Ok [0].
Proof. vm_compute. reflexivity. Qed.

(* leading zero bytes <-> leading '1' characters *)
Theorem base58_leading_ones bs : bytes_ok bs ->
  exists body, base58_encode bs = repeat (alpha 0) (length (take_while (fun b => b =? 0) bs)) ++ body /\ body <> [].
Proof.
  intros _. unfold base58_encode. eexists. split.
  - f_equal. generalize (take_while (fun b : N => b =? 0) bs). intros l.
    induction l as [|z t IH]; [reflexivity|]. cbn [map length repeat]. now rewrite IH.
  - set (D := fold_left (digits_step 256 58) bs [0]).
    assert (HD : D <> []).
    { unfold D. clear. assert (G : forall xs ds, ds <> [] -> fold_left (digits_step 256 58) xs ds <> []).
      { induction xs as [|x t IH]; intros ds Hd; [exact Hd|]. cbn [fold_left]. apply IH.
        unfold digits_step. destruct (muladd_digits 256 58 ds x) as [ds' c] eqn:E.
        destruct ds as [|d dt]; [congruence|]. cbn [muladd_digits] in E.
        destruct (muladd_digits 256 58 dt ((x + d * 256) / 58)). injection E as <- _. discriminate. }
      apply G. discriminate. }
    intros H. apply map_eq_nil in H. apply (f_equal (@rev N)) in H. rewrite rev_involutive in H. cbn in H. congruence.
Qed.
