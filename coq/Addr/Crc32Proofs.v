(* Facts about the CRC-32 model (Crc32.v). *)
From CSL Require Import Base.Prelude Addr.Crc32.
Local Open Scope N_scope.

(* the table transcribed from crc32.rs is the standard CRC-32 (IEEE, reflected) table *)
Theorem crc_table_standard : crc_table = map (fun i => crc_entry (N.of_nat i)) (seq 0 256).
Proof. vm_compute. reflexivity. Qed.

(* the test vector of crc32.rs *)
Example crc32_quick_brown_fox :
  crc32 [84;104;101;32;113;117;105;99;107;32;98;114;111;119;110;32;102;111;120;32;106;117;109;112;115;
         32;111;118;101;114;32;116;104;101;32;108;97;122;121;32;100;111;103] = 1095738169.
Proof. vm_compute. reflexivity. Qed.

Lemma lxor_lt_pow2 a b n : a < 2 ^ n -> b < 2 ^ n -> N.lxor a b < 2 ^ n.
Proof.
  intros Ha Hb. destruct (N.eq_dec (N.lxor a b) 0) as [E|E].
  - rewrite E. apply N.neq_0_lt_0. apply N.pow_nonzero. lia.
  - apply N.log2_lt_pow2; [lia|].
    eapply N.le_lt_trans; [apply N.log2_lxor|].
    apply N.max_lub_lt.
    + destruct (N.eq_dec a 0) as [->|Ha0].
      * cbn. destruct (N.eq_dec n 0) as [->|Hn]; [|lia].
        rewrite N.pow_0_r in *. assert (b = 0) by lia. subst. cbn in E. congruence.
      * apply N.log2_lt_pow2; lia.
    + destruct (N.eq_dec b 0) as [->|Hb0].
      * cbn. destruct (N.eq_dec n 0) as [->|Hn]; [|lia].
        rewrite N.pow_0_r in *. assert (a = 0) by lia. subst. cbn in E. congruence.
      * apply N.log2_lt_pow2; lia.
Qed.

Lemma crc_table_bound : forallb (fun v => v <? 4294967296) crc_table = true.
Proof. vm_compute. reflexivity. Qed.

Lemma crc_table_nth i : nth i crc_table 0 < 2 ^ 32.
Proof.
  destruct (Nat.lt_ge_cases i (length crc_table)) as [H|H].
  - pose proof crc_table_bound as B. rewrite forallb_forall in B.
    specialize (B _ (nth_In crc_table 0 H)). change (2 ^ 32) with 4294967296. lia.
  - rewrite nth_overflow by exact H. change (2 ^ 32) with 4294967296. lia.
Qed.

Lemma crc_update_bound st b : st < 2 ^ 32 -> crc_update st b < 2 ^ 32.
Proof.
  intros H. unfold crc_update. apply lxor_lt_pow2; [|apply crc_table_nth].
  rewrite N.shiftr_div_pow2. eapply N.le_lt_trans; [|exact H].
  apply N.div_le_upper_bound; [lia|]. change (2 ^ 8) with 256. lia.
Qed.

Lemma crc_fold_bound bs : forall st, st < 2 ^ 32 -> fold_left crc_update bs st < 2 ^ 32.
Proof.
  induction bs as [|b t IH]; intros st H; cbn [fold_left]; [exact H|].
  apply IH, crc_update_bound, H.
Qed.

(* the checksum is a u32 *)
Theorem crc32_bound bs : crc32 bs < two32.
Proof.
  unfold crc32, two32. change 4294967296 with (2 ^ 32). apply lxor_lt_pow2.
  - apply crc_fold_bound. change (2 ^ 32) with 4294967296. lia.
  - change (2 ^ 32) with 4294967296. lia.
Qed.
