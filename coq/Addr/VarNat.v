(* Variable-length natural numbers of pointer addresses.
   Mirrors rust/src/protocol_types/address.rs:8-33 (variable_nat_decode / variable_nat_encode).
   Model definitions only; proofs are in VarNatProofs.v. *)
From CSL Require Import Base.Prelude.
Local Open Scope N_scope.

(* variable_nat_decode: a u128 accumulator, checked against u64::MAX after every group; the
   result is (value, bytes read); None when the input ends before a byte without the
   continuation bit, or when the value leaves the u64 range.
   [(output << 7) | (byte & 0x7F)] is [acc * 128 + b mod 128] (the low 7 bits are free);
   [(byte & 0x80) == 0] is [b < 128] for a byte. *)
Fixpoint varnat_decode_go (bs : bytes) (acc : N) (read : nat) : option (N * nat) :=
  match bs with
  | [] => None
  | b :: r =>
      let acc' := acc * 128 + b mod 128 in
      if two64 <=? acc' then None
      else if b <? 128 then Some (acc', S read)
      else varnat_decode_go r acc' (S read)
  end.
Definition varnat_decode (bs : bytes) : option (N * nat) := varnat_decode_go bs 0 0%nat.

(* variable_nat_encode: push the low group without continuation bit, then the higher groups
   with it, least significant first; reverse at the end.  The while loop runs while num > 0:
   for a u64 the number left after the first division is below 2^57, so at most 9 rounds;
   the fuel 10 always suffices (VarNatProofs.varnat_encode_hi uses num < 128^10). *)
Fixpoint venc_loop (fuel : nat) (num : N) (out : bytes) : bytes :=
  match fuel with
  | O => out
  | S f => if num =? 0 then out else venc_loop f (num / 128) (out ++ [num mod 128 + 128])
  end.
Definition varnat_encode (n : N) : bytes :=
  rev (venc_loop 10 (n / 128) [n mod 128]).

(* minimal encodings: the only encoding whose first byte is 0x80 (a zero group with the
   continuation bit) is a padded one *)
Definition varnat_padded (bs : bytes) : bool :=
  match bs with b :: _ => b =? 128 | [] => false end.
