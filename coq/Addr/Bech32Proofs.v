(* Proofs about the Bech32 model (Bech32.v): the checksum the writer appends always verifies
   (polymod is XOR-linear), 8 -> 5 -> 8 bit conversion is the identity on byte strings, and
   decode (encode hrp data) = Ok (lower-cased hrp, data) for every valid HRP and ALL data. *)
From Coq Require Import Btauto.
From CSL Require Import Base.Prelude Addr.Crc32Proofs Addr.Bech32.
Local Open Scope N_scope.

(* ================= 1. the checksum ================= *)
Lemma sel_spec b i g n : N.testbit (sel b i g) n = N.testbit b i && N.testbit g n.
Proof. unfold sel. destruct (N.testbit b i); [reflexivity|apply N.bits_0]. Qed.

(* one step is linear over GF(2): xor of states and xor of symbols give the xor of the results *)
Lemma step_linear c1 c2 v1 v2 :
  polymod_step (N.lxor c1 c2) (N.lxor v1 v2) = N.lxor (polymod_step c1 v1) (polymod_step c2 v2).
Proof.
  unfold polymod_step. apply N.bits_inj. intros n.
  rewrite !N.lxor_spec, !sel_spec, !N.shiftr_spec', !N.lxor_spec.
  destruct (N.lt_ge_cases n 5) as [H|H].
  - rewrite !N.shiftl_spec_low by exact H. btauto.
  - rewrite !N.shiftl_spec_high' by exact H. rewrite !N.land_spec, !N.lxor_spec. btauto.
Qed.

Lemma polymod_from_linear l : forall c1 c2,
  polymod_from (N.lxor c1 c2) (map (fun p => N.lxor (fst p) (snd p)) l) =
  N.lxor (polymod_from c1 (map fst l)) (polymod_from c2 (map snd l)).
Proof.
  induction l as [|[a b] t IH]; intros c1 c2; [reflexivity|].
  unfold polymod_from in *. cbn [map fold_left fst snd]. rewrite step_linear. apply IH.
Qed.

Lemma testbit_small v k n : v < 2 ^ k -> k <= n -> N.testbit v n = false.
Proof.
  intros Hv Hk. destruct (N.eq_dec v 0) as [->|Hz]; [apply N.bits_0|].
  apply N.bits_above_log2. apply N.log2_lt_pow2; [lia|].
  eapply N.lt_le_trans; [exact Hv|]. apply N.pow_le_mono_r; lia.
Qed.

Lemma land_disj a v k : a mod 2 ^ k = 0 -> v < 2 ^ k -> N.land a v = 0.
Proof.
  intros Ha Hv. apply N.bits_inj. intros n. rewrite N.land_spec, N.bits_0.
  destruct (N.lt_ge_cases n k) as [H|H].
  - assert (E : a = a / 2 ^ k * 2 ^ k).
    { pose proof (N.div_mod a (2 ^ k) ltac:(apply N.pow_nonzero; lia)). lia. }
    rewrite E, N.mul_pow2_bits_low by exact H. reflexivity.
  - rewrite (testbit_small v k n Hv H). apply andb_false_r.
Qed.

Lemma lxor_disj a v k : a mod 2 ^ k = 0 -> v < 2 ^ k -> N.lxor a v = a + v.
Proof. intros Ha Hv. symmetry. apply N.add_nocarry_lxor. eapply land_disj; eassumption. Qed.

Lemma lor_disj a v k : a mod 2 ^ k = 0 -> v < 2 ^ k -> N.lor a v = a + v.
Proof.
  intros Ha Hv. rewrite <- N.lxor_lor by (eapply land_disj; eassumption).
  eapply lxor_disj; eassumption.
Qed.

Lemma sel_zero i g : sel 0 i g = 0.
Proof. unfold sel. now rewrite N.bits_0. Qed.

(* while the state is short no generator is selected: the step just appends the symbol *)
Lemma step_small c v : c < 33554432 -> v < 32 -> polymod_step c v = c * 32 + v.
Proof.
  intros Hc Hv. unfold polymod_step.
  rewrite N.shiftr_div_pow2. change (2 ^ 25) with 33554432. rewrite N.div_small by exact Hc.
  rewrite !sel_zero, !N.lxor_0_r.
  change 33554431 with (N.ones 25). rewrite N.land_ones. change (2 ^ 25) with 33554432.
  rewrite N.mod_small by exact Hc. rewrite N.shiftl_mul_pow2. change (2 ^ 5) with 32.
  apply (lxor_disj (c * 32) v 5); [change (2 ^ 5) with 32; apply N.mod_mul; lia|exact Hv].
Qed.

(* the state stays below 2^30 *)
Lemma step_bound c v : v < 32 -> polymod_step c v < 2 ^ 30.
Proof.
  intros Hv. unfold polymod_step.
  assert (G : forall b i g, g < 2 ^ 30 -> sel b i g < 2 ^ 30).
  { intros b i g Hg. unfold sel. destruct (N.testbit b i); [exact Hg|]. apply N.neq_0_lt_0. apply N.pow_nonzero. lia. }
  repeat apply lxor_lt_pow2; try (apply G; vm_compute; reflexivity).
  - rewrite N.shiftl_mul_pow2. change 33554431 with (N.ones 25). rewrite N.land_ones.
    pose proof (N.mod_lt c (2 ^ 25) ltac:(apply N.pow_nonzero; lia)).
    change (2 ^ 30) with (2 ^ 25 * 2 ^ 5). apply N.mul_lt_mono_pos_r; [vm_compute; reflexivity|exact H].
  - eapply N.lt_trans; [exact Hv|vm_compute; reflexivity].
Qed.

Lemma polymod_from_app c l1 l2 : polymod_from c (l1 ++ l2) = polymod_from (polymod_from c l1) l2.
Proof. unfold polymod_from. apply fold_left_app. Qed.

(* six symbols fed into the zero state spell the number they are the base-32 digits of *)
Lemma polymod_from_zero6 v0 v1 v2 v3 v4 v5 :
  v0 < 32 -> v1 < 32 -> v2 < 32 -> v3 < 32 -> v4 < 32 -> v5 < 32 ->
  polymod_from 0 [v0; v1; v2; v3; v4; v5] = ((((v0 * 32 + v1) * 32 + v2) * 32 + v3) * 32 + v4) * 32 + v5.
Proof.
  intros. unfold polymod_from. cbn [fold_left].
  rewrite (step_small 0 v0) by lia. rewrite (step_small _ v1) by lia.
  rewrite (step_small _ v2) by lia. rewrite (step_small _ v3) by lia.
  rewrite (step_small _ v4) by lia. rewrite (step_small _ v5) by lia. lia.
Qed.

Lemma linear6 S v0 v1 v2 v3 v4 v5 :
  polymod_from S [v0; v1; v2; v3; v4; v5] =
  N.lxor (polymod_from S [0; 0; 0; 0; 0; 0]) (polymod_from 0 [v0; v1; v2; v3; v4; v5]).
Proof.
  pose proof (polymod_from_linear [(0, v0); (0, v1); (0, v2); (0, v3); (0, v4); (0, v5)] S 0) as L.
  cbn [map fst snd] in L. rewrite !N.lxor_0_l, N.lxor_0_r in L. exact L.
Qed.

(* verify_checksum accepts what create_checksum appends: for EVERY hrp and EVERY data *)
Theorem checksum_valid hrp data :
  polymod (hrp_expand hrp ++ data ++ create_checksum hrp data) = 1.
Proof.
  unfold polymod, create_checksum.
  set (A := hrp_expand hrp ++ data).
  replace (hrp_expand hrp ++ data ++ [0; 0; 0; 0; 0; 0]) with (A ++ [0; 0; 0; 0; 0; 0]) by (unfold A; now rewrite app_assoc).
  rewrite app_assoc. fold A. rewrite !polymod_from_app.
  set (S := polymod_from 1 A).
  set (chk := polymod_from S [0; 0; 0; 0; 0; 0]).
  set (plm := N.lxor chk 1).
  assert (Hchk : chk < 2 ^ 30).
  { unfold chk, polymod_from. cbn [fold_left]. apply step_bound. lia. }
  assert (Hplm : plm < 1073741824).
  { unfold plm. change 1073741824 with (2 ^ 30). apply lxor_lt_pow2; [exact Hchk|vm_compute; reflexivity]. }
  rewrite linear6. fold chk.
  rewrite polymod_from_zero6 by (apply N.mod_lt; lia).
  replace (((((plm / 33554432 mod 32 * 32 + plm / 1048576 mod 32) * 32 + plm / 32768 mod 32) * 32 +
             plm / 1024 mod 32) * 32 + plm / 32 mod 32) * 32 + plm mod 32) with plm by lia.
  unfold plm. rewrite <- N.lxor_assoc, N.lxor_nilpotent, N.lxor_0_l. reflexivity.
Qed.

(* ================= 2. 8 -> 5 -> 8 bit conversion ================= *)
(* the decoder with its accumulator normalised to the bits that are still unread *)
Fixpoint D (data : list N) (y bits : N) (ret : bytes) : result bytes :=
  match data with
  | [] => if (5 <=? bits) || negb (y =? 0) then Err else Ok ret
  | v :: t =>
      if 32 <=? v then Err
      else
        let y' := y * 32 + v in
        if 8 <=? bits + 5 then D t (y' mod 2 ^ (bits + 5 - 8)) (bits + 5 - 8) (ret ++ [y' / 2 ^ (bits + 5 - 8)])
        else D t y' (bits + 5) ret
  end.

Ltac pow2 := repeat match goal with
  | |- context [2 ^ ?e] => let v := eval vm_compute in (2 ^ e) in change (2 ^ e) with v
  | H : context [2 ^ ?e] |- _ => let v := eval vm_compute in (2 ^ e) in change (2 ^ e) with v in H
  end.

Lemma small_cases bits : bits < 8 ->
  bits = 0 \/ bits = 1 \/ bits = 2 \/ bits = 3 \/ bits = 4 \/ bits = 5 \/ bits = 6 \/ bits = 7.
Proof. lia. Qed.

Lemma dec_D data : forall acc bits ret, bits < 8 ->
  from_base32_go data acc bits ret = D data (acc mod 2 ^ bits) bits ret.
Proof.
  induction data as [|v t IH]; intros acc bits ret Hb.
  - cbn [from_base32_go D]. rewrite N.shiftl_mul_pow2.
    destruct (small_cases bits Hb) as [->|[->|[->|[->|[->|[->|[->| ->]]]]]]]; pow2;
      change (8 - 0) with 8; change (8 - 1) with 7; change (8 - 2) with 6; change (8 - 3) with 5;
      change (8 - 4) with 4; change (8 - 5) with 3; change (8 - 6) with 2; change (8 - 7) with 1; pow2;
      try reflexivity;
      match goal with |- (if ?c || negb ?a then _ else _) = (if ?c || negb ?b then _ else _) =>
        replace a with b; [reflexivity|] end;
      match goal with |- (?a =? 0) = (?b =? 0) =>
        destruct (a =? 0) eqn:E1; destruct (b =? 0) eqn:E2; try reflexivity; exfalso; lia end.
  - cbn [from_base32_go D]. rewrite N.shiftr_div_pow2. change (2 ^ 5) with 32.
    destruct (32 <=? v) eqn:Ev.
    + destruct (v / 32 =? 0) eqn:E; [exfalso; lia|reflexivity].
    + destruct (v / 32 =? 0) eqn:E; [|exfalso; lia]. cbn [negb].
      rewrite N.shiftl_mul_pow2. change (2 ^ 5) with 32.
      assert (Hlor : N.lor ((acc * 32) mod 4294967296) v = (acc * 32) mod 4294967296 + v).
      { apply (lor_disj _ v 5); change (2 ^ 5) with 32; lia. }
      rewrite Hlor. set (acc' := (acc * 32) mod 4294967296 + v).
      destruct (small_cases bits Hb) as [->|[->|[->|[->|[->|[->|[->| ->]]]]]]];
        match goal with |- context [8 <=? ?b + 5] =>
          let c := eval vm_compute in (8 <=? b + 5) in change (8 <=? b + 5) with c;
          let s := eval vm_compute in (b + 5) in change (b + 5) with s end;
        cbv iota;
        repeat match goal with |- context [?a - 8] =>
          let d := eval vm_compute in (a - 8) in change (a - 8) with d end;
        rewrite ?N.shiftr_div_pow2; pow2;
        rewrite IH by lia; pow2;
        (f_equal; [unfold acc'; lia| ]) || idtac;
        try (f_equal; f_equal; unfold acc'; lia);
        try (f_equal; unfold acc'; lia).
Qed.

Lemma D_emit v t y bits ret k : v < 32 -> bits + 5 = k + 8 ->
  D (v :: t) y bits ret = D t ((y * 32 + v) mod 2 ^ k) k (ret ++ [(y * 32 + v) / 2 ^ k]).
Proof.
  intros Hv Hk. cbn [D]. destruct (32 <=? v) eqn:E; [lia|].
  destruct (8 <=? bits + 5) eqn:E2; [|lia]. replace (bits + 5 - 8) with k by lia. reflexivity.
Qed.
Lemma D_keep v t y bits ret : v < 32 -> bits + 5 < 8 ->
  D (v :: t) y bits ret = D t (y * 32 + v) (bits + 5) ret.
Proof.
  intros Hv Hk. cbn [D]. destruct (32 <=? v) eqn:E; [lia|].
  destruct (8 <=? bits + 5) eqn:E2; [lia|reflexivity].
Qed.
Lemma D_end y bits ret : bits < 5 -> y = 0 -> D [] y bits ret = Ok ret.
Proof. intros Hb ->. cbn [D]. destruct (5 <=? bits) eqn:E; [lia|reflexivity]. Qed.

(* (buffer & 0b1111_1000) >> 3 is buffer >> 3 for a u8: sweep over the 256 values *)
Lemma mask_shift_sweep : forallb (fun i => N.land (N.of_nat i) 248 / 8 =? N.of_nat i / 8) (seq 0 256) = true.
Proof. vm_compute. reflexivity. Qed.
Lemma mask_shift b : b < 256 -> N.land b 248 / 8 = b / 8.
Proof.
  intros H. pose proof mask_shift_sweep as S. rewrite forallb_forall in S.
  specialize (S (N.to_nat b)). rewrite N2Nat.id in S.
  assert (I : In (N.to_nat b) (seq 0 256)) by (apply in_seq; lia). specialize (S I). lia.
Qed.

(* one round of the encoder for each reachable amount of buffered bits (by computation) *)
Lemma enc_step_0 b t buffer : to_base32_go (b :: t) 0 buffer =
  N.lor (buffer / 8) (N.shiftr b 3) :: to_base32_go t 3 (N.shiftl b 5 mod 256).
Proof. reflexivity. Qed.
Lemma enc_step_3 b t buffer : to_base32_go (b :: t) 3 buffer =
  N.lor (buffer / 8) (N.shiftr b 6) :: to_base32_go t 6 (N.shiftl b 2 mod 256).
Proof. reflexivity. Qed.
Lemma enc_step_4 b t buffer : to_base32_go (b :: t) 4 buffer =
  N.lor (buffer / 8) (N.shiftr b 7) :: to_base32_go t 7 (N.shiftl b 1 mod 256).
Proof. reflexivity. Qed.
Lemma enc_step_5 b t buffer : to_base32_go (b :: t) 5 buffer =
  N.land buffer 248 / 8 :: N.lor ((buffer * 32) mod 256 / 8) (N.shiftr b 3) :: to_base32_go t 3 (N.shiftl b 5 mod 256).
Proof. reflexivity. Qed.
Lemma enc_step_6 b t buffer : to_base32_go (b :: t) 6 buffer =
  N.land buffer 248 / 8 :: N.lor ((buffer * 32) mod 256 / 8) (N.shiftr b 4) :: to_base32_go t 4 (N.shiftl b 4 mod 256).
Proof. reflexivity. Qed.
Lemma enc_step_7 b t buffer : to_base32_go (b :: t) 7 buffer =
  N.land buffer 248 / 8 :: N.lor ((buffer * 32) mod 256 / 8) (N.shiftr b 5) :: to_base32_go t 5 (N.shiftl b 3 mod 256).
Proof. reflexivity. Qed.
Lemma enc_end_0 buffer : to_base32_go [] 0 buffer = []. Proof. reflexivity. Qed.
Lemma enc_end_3 buffer : to_base32_go [] 3 buffer = [buffer / 8]. Proof. reflexivity. Qed.
Lemma enc_end_4 buffer : to_base32_go [] 4 buffer = [buffer / 8]. Proof. reflexivity. Qed.
Lemma enc_end_5 buffer : to_base32_go [] 5 buffer = [N.land buffer 248 / 8]. Proof. reflexivity. Qed.
Lemma enc_end_6 buffer : to_base32_go [] 6 buffer = [N.land buffer 248 / 8; (buffer * 32) mod 256 / 8]. Proof. reflexivity. Qed.
Lemma enc_end_7 buffer : to_base32_go [] 7 buffer = [N.land buffer 248 / 8; (buffer * 32) mod 256 / 8]. Proof. reflexivity. Qed.

Definition bits_of (r : N) : N := if r =? 0 then 0 else 8 - r.
(* the byte that is split between the decoder's unread bits (high part) and the encoder's buffer *)
Definition pend (r buffer y : N) : bytes := if r =? 0 then [] else [y * 2 ^ r + buffer / 2 ^ (8 - r)].
Definition st_ok (r buffer y : N) : Prop :=
  (r = 0 /\ buffer = 0 /\ y = 0) \/
  ((r = 3 \/ r = 4 \/ r = 5 \/ r = 6 \/ r = 7) /\ buffer < 256 /\ buffer mod 2 ^ (8 - r) = 0 /\ y < 2 ^ (8 - r)).

Ltac lor_plus k :=
  match goal with |- context [N.lor ?a ?v] =>
    rewrite (lor_disj a v k) by (pow2; lia) end.

Lemma sim bs : bytes_ok bs -> forall r buffer y ret, st_ok r buffer y ->
  D (to_base32_go bs r buffer) y (bits_of r) ret = Ok (ret ++ pend r buffer y ++ bs).
Proof.
  induction 1 as [|b t Hb _ IH]; intros r buffer y ret Hst.
  - (* end of input: flush *)
    destruct Hst as [(-> & -> & ->)|([->|[->|[->|[->| ->]]]] & Hbuf & Hmod & Hy)];
      unfold bits_of, pend; pow2;
      repeat match goal with |- context [?a =? 0] =>
        let c := eval vm_compute in (a =? 0) in change (a =? 0) with c end; cbv iota;
      repeat match goal with |- context [8 - ?a] =>
        let c := eval vm_compute in (8 - a) in change (8 - a) with c end; pow2;
      repeat match goal with H : context [8 - ?a] |- _ =>
        let c := eval vm_compute in (8 - a) in change (8 - a) with c in H end; pow2.
    + rewrite enc_end_0, D_end by lia. now rewrite !app_nil_r.
    + rewrite enc_end_3. rewrite (D_emit _ _ _ 5 _ 2) by lia. pow2. rewrite D_end by lia.
      rewrite app_nil_r. do 3 f_equal. lia.
    + rewrite enc_end_4. rewrite (D_emit _ _ _ 4 _ 1) by lia. pow2. rewrite D_end by lia.
      rewrite app_nil_r. do 3 f_equal. lia.
    + rewrite enc_end_5, mask_shift by lia. rewrite (D_emit _ _ _ 3 _ 0) by lia. pow2. rewrite D_end by lia.
      rewrite app_nil_r. do 3 f_equal. lia.
    + rewrite enc_end_6, mask_shift by lia. rewrite (D_keep _ _ _ 2) by lia. change (2 + 5) with 7.
      rewrite (D_emit _ _ _ 7 _ 4) by lia. pow2. rewrite D_end by lia.
      rewrite app_nil_r. do 3 f_equal. lia.
    + rewrite enc_end_7, mask_shift by lia. rewrite (D_keep _ _ _ 1) by lia. change (1 + 5) with 6.
      rewrite (D_emit _ _ _ 6 _ 3) by lia. pow2. rewrite D_end by lia.
      rewrite app_nil_r. do 3 f_equal. lia.
  - (* one more byte *)
    destruct Hst as [(-> & -> & ->)|([->|[->|[->|[->| ->]]]] & Hbuf & Hmod & Hy)];
      unfold bits_of, pend; pow2;
      repeat match goal with |- context [?a =? 0] =>
        let c := eval vm_compute in (a =? 0) in change (a =? 0) with c end; cbv iota;
      repeat match goal with |- context [8 - ?a] =>
        let c := eval vm_compute in (8 - a) in change (8 - a) with c end; pow2;
      repeat match goal with H : context [8 - ?a] |- _ =>
        let c := eval vm_compute in (8 - a) in change (8 - a) with c in H end; pow2.
    + (* r = 0 *)
      rewrite enc_step_0, N.shiftr_div_pow2, N.shiftl_mul_pow2. pow2.
      change (0 / 8) with 0. rewrite N.lor_0_l.
      rewrite (D_keep _ _ _ 0) by lia. change (0 + 5) with 5.
      assert (S3 : st_ok 3 ((b * 32) mod 256) (0 * 32 + b / 8)).
      { right. split; [auto|]. pow2. change (8 - 3) with 5. pow2. lia. }
      pose proof (IH 3 _ _ ret S3) as I. unfold bits_of, pend in I.
      change (3 =? 0) with false in I. cbv iota in I. change (8 - 3) with 5 in I. pow2. rewrite I.
      cbn [app]. do 3 f_equal. lia.
    + (* r = 3 *)
      rewrite enc_step_3, N.shiftr_div_pow2, N.shiftl_mul_pow2. pow2. lor_plus 2.
      rewrite (D_emit _ _ _ 5 _ 2) by lia. pow2.
      assert (S6 : st_ok 6 ((b * 4) mod 256) ((y * 32 + (buffer / 8 + b / 64)) mod 4)).
      { right. split; [auto|]. change (8 - 6) with 2. pow2. lia. }
      pose proof (IH 6 _ _ (ret ++ [(y * 32 + (buffer / 8 + b / 64)) / 4]) S6) as I. unfold bits_of, pend in I.
      change (6 =? 0) with false in I. cbv iota in I. change (8 - 6) with 2 in I. pow2. rewrite I.
      rewrite <- app_assoc. cbn [app]. do 2 f_equal. f_equal; [lia|]. f_equal. lia.
    + (* r = 4 *)
      rewrite enc_step_4, N.shiftr_div_pow2, N.shiftl_mul_pow2. pow2. lor_plus 1.
      rewrite (D_emit _ _ _ 4 _ 1) by lia. pow2.
      assert (S7 : st_ok 7 ((b * 2) mod 256) ((y * 32 + (buffer / 8 + b / 128)) mod 2)).
      { right. split; [auto 6|]. change (8 - 7) with 1. pow2. lia. }
      pose proof (IH 7 _ _ (ret ++ [(y * 32 + (buffer / 8 + b / 128)) / 2]) S7) as I. unfold bits_of, pend in I.
      change (7 =? 0) with false in I. cbv iota in I. change (8 - 7) with 1 in I. pow2. rewrite I.
      rewrite <- app_assoc. cbn [app]. do 2 f_equal. f_equal; [lia|]. f_equal. lia.
    + (* r = 5 *)
      rewrite enc_step_5, mask_shift, N.shiftr_div_pow2, N.shiftl_mul_pow2 by lia. pow2.
      replace ((buffer * 32) mod 256 / 8) with 0 by lia. rewrite N.lor_0_l.
      rewrite (D_emit _ _ _ 3 _ 0) by lia. pow2.
      rewrite (D_keep _ _ _ 0) by lia. change (0 + 5) with 5.
      assert (S3 : st_ok 3 ((b * 32) mod 256) ((y * 32 + buffer / 8) mod 1 * 32 + b / 8)).
      { right. split; [auto|]. change (8 - 3) with 5. pow2. lia. }
      pose proof (IH 3 _ _ (ret ++ [(y * 32 + buffer / 8) / 1]) S3) as I. unfold bits_of, pend in I.
      change (3 =? 0) with false in I. cbv iota in I. change (8 - 3) with 5 in I. pow2. rewrite I.
      rewrite <- app_assoc. cbn [app]. do 2 f_equal. f_equal; [lia|]. f_equal. lia.
    + (* r = 6 *)
      rewrite enc_step_6, mask_shift, N.shiftr_div_pow2, N.shiftl_mul_pow2 by lia. pow2. lor_plus 4.
      rewrite (D_keep _ _ _ 2) by lia. change (2 + 5) with 7.
      rewrite (D_emit _ _ _ 7 _ 4) by lia. pow2.
      set (y2 := (y * 32 + buffer / 8) * 32 + ((buffer * 32) mod 256 / 8 + b / 16)).
      assert (S4 : st_ok 4 ((b * 16) mod 256) (y2 mod 16)).
      { right. split; [auto|]. change (8 - 4) with 4. pow2. lia. }
      pose proof (IH 4 _ _ (ret ++ [y2 / 16]) S4) as I. unfold bits_of, pend in I.
      change (4 =? 0) with false in I. cbv iota in I. change (8 - 4) with 4 in I. pow2. rewrite I.
      rewrite <- app_assoc. cbn [app]. do 2 f_equal. unfold y2. f_equal; [lia|]. f_equal. lia.
    + (* r = 7 *)
      rewrite enc_step_7, mask_shift, N.shiftr_div_pow2, N.shiftl_mul_pow2 by lia. pow2. lor_plus 3.
      rewrite (D_keep _ _ _ 1) by lia. change (1 + 5) with 6.
      rewrite (D_emit _ _ _ 6 _ 3) by lia. pow2.
      set (y2 := (y * 32 + buffer / 8) * 32 + ((buffer * 32) mod 256 / 8 + b / 32)).
      assert (S5 : st_ok 5 ((b * 8) mod 256) (y2 mod 8)).
      { right. split; [auto|]. change (8 - 5) with 3. pow2. lia. }
      pose proof (IH 5 _ _ (ret ++ [y2 / 8]) S5) as I. unfold bits_of, pend in I.
      change (5 =? 0) with false in I. cbv iota in I. change (8 - 5) with 3 in I. pow2. rewrite I.
      rewrite <- app_assoc. cbn [app]. do 2 f_equal. unfold y2. f_equal; [lia|]. f_equal. lia.
Qed.

(* FromBase32(ToBase32(bytes)) = bytes, for every byte string *)
Theorem base32_roundtrip bs : bytes_ok bs -> from_base32 (to_base32 bs) = Ok bs.
Proof.
  intros H. unfold from_base32, to_base32. rewrite dec_D by lia. change (0 mod 2 ^ 0) with 0.
  pose proof (sim bs H 0 0 0 [] ltac:(left; auto)) as S. unfold bits_of, pend in S.
  change (0 =? 0) with true in S. cbv iota in S. exact S.
Qed.

Lemma D_ok_lt32 data : forall y bits ret r, D data y bits ret = Ok r -> Forall (fun d => d < 32) data.
Proof.
  induction data as [|v t IH]; intros y bits ret r H; [constructor|]. cbn [D] in H.
  destruct (32 <=? v) eqn:E; [discriminate|]. constructor; [lia|].
  destruct (8 <=? bits + 5); eapply IH; exact H.
Qed.

(* ToBase32 produces u5 values *)
Theorem to_base32_lt32 bs : bytes_ok bs -> Forall (fun d => d < 32) (to_base32 bs).
Proof.
  intros H. pose proof (sim bs H 0 0 0 [] ltac:(left; auto)) as S. unfold bits_of in S.
  change (0 =? 0) with true in S. cbv iota in S. eapply D_ok_lt32. exact S.
Qed.

(* ================= 3. decode (encode hrp data) ================= *)
Definition char_ok (d : N) : bool :=
  let c := to_char d in
  (c <? 128) && negb (is_upper c) && negb (c =? 49)
  && (nth (N.to_nat c) charset_rev (-1)%Z =? Z.of_N d)%Z.
Lemma charset_sweep : forallb (fun i => char_ok (N.of_nat i)) (seq 0 32) = true.
Proof. vm_compute. reflexivity. Qed.
Lemma char_ok_all d : d < 32 -> char_ok d = true.
Proof.
  intros H. pose proof charset_sweep as S. rewrite forallb_forall in S.
  specialize (S (N.to_nat d)). rewrite N2Nat.id in S. apply S. apply in_seq. lia.
Qed.

Lemma decode_char_to_char case d : d < 32 -> case <> CUpper ->
  exists case', decode_char case (to_char d) = Ok (case', d) /\ case' <> CUpper.
Proof.
  intros Hd Hc. pose proof (char_ok_all d Hd) as K. unfold char_ok in K. cbv zeta in K.
  rewrite !andb_true_iff, !negb_true_iff in K. destruct K as (((K1 & K2) & K3) & K4).
  unfold decode_char. destruct (128 <=? to_char d) eqn:E; [lia|]. rewrite K2.
  assert (Hn : nth (N.to_nat (to_char d)) charset_rev (-1)%Z = Z.of_N d) by lia. rewrite Hn.
  assert (Hr : ((31 <? Z.of_N d)%Z || (Z.of_N d <? 0)%Z) = false) by lia. rewrite Hr, N2Z.id.
  destruct (is_lower (to_char d)).
  - destruct case; [congruence| |]; (eexists; split; [reflexivity|discriminate]).
  - eexists; split; [reflexivity|exact Hc].
Qed.

Lemma decode_chars_to_char ds : Forall (fun d => d < 32) ds -> forall case, case <> CUpper ->
  decode_chars case (map to_char ds) = Ok ds.
Proof.
  induction 1 as [|d t Hd _ IH]; intros case Hc; [reflexivity|]. cbn [map decode_chars].
  destruct (decode_char_to_char case d Hd Hc) as (case' & E & Hc'). rewrite E. cbn [bind].
  rewrite (IH case' Hc'). reflexivity.
Qed.

Lemma to_char_not_sep ds : Forall (fun d => d < 32) ds -> Forall (fun c => c <> 49) (map to_char ds).
Proof.
  induction 1 as [|d t Hd _ IH]; [constructor|]. cbn [map]. constructor; [|exact IH].
  pose proof (char_ok_all d Hd) as K. unfold char_ok in K. cbv zeta in K.
  rewrite !andb_true_iff, !negb_true_iff in K. lia.
Qed.

(* --- the separator is the LAST '1' --- *)
Lemma rfind_go_notin c b : Forall (fun x => x <> c) b -> forall i last, rfind_go c b i last = last.
Proof.
  induction 1 as [|x t Hx _ IH]; intros i last; [reflexivity|]. cbn [rfind_go].
  destruct (x =? c) eqn:E; [lia|]. apply IH.
Qed.
Lemma rfind_go_last c a b : Forall (fun x => x <> c) b -> forall i last,
  rfind_go c (a ++ c :: b) i last = Some (i + length a)%nat.
Proof.
  intros Hb. induction a as [|x t IH]; intros i last.
  - cbn [app rfind_go length]. rewrite N.eqb_refl, rfind_go_notin by exact Hb. f_equal. lia.
  - cbn [app rfind_go length]. rewrite IH. f_equal. lia.
Qed.
Lemma rfind_last c a b : Forall (fun x => x <> c) b -> rfind c (a ++ c :: b) = Some (length a).
Proof. intros H. unfold rfind. now rewrite rfind_go_last. Qed.

(* --- check_hrp and lower-casing --- *)
Lemma check_go_has_lower hrp : forall hu c, check_hrp_go hrp true hu = Ok c -> c <> CUpper.
Proof.
  induction hrp as [|b t IH]; intros hu c H; cbn [check_hrp_go] in H.
  - destruct hu; injection H as <-; discriminate.
  - destruct ((b <? 33) || (126 <? b)); [discriminate|].
    destruct (is_lower b).
    + cbn [andb] in H. destruct hu; [discriminate|]. eapply IH; exact H.
    + destruct (is_upper b); cbn [andb] in H; [discriminate|].
      destruct hu; [discriminate|]. eapply IH; exact H.
Qed.

Lemma is_lower_lowercase b : is_upper b = true -> is_lower (lowercase b) = true /\ is_upper (lowercase b) = false
  /\ ((lowercase b <? 33) || (126 <? lowercase b)) = false.
Proof. intros H. unfold lowercase. rewrite H. unfold is_upper, is_lower in *. lia. Qed.

Lemma lowercase_id b : is_upper b = false -> lowercase b = b.
Proof. unfold lowercase. now intros ->. Qed.

Lemma check_go_upper hrp : forall hu, check_hrp_go hrp false hu = Ok CUpper ->
  check_hrp_go (map lowercase hrp) hu false = Ok CLower.
Proof.
  induction hrp as [|b t IH]; intros hu H; cbn [check_hrp_go map] in *.
  - destruct hu; [reflexivity|discriminate].
  - destruct ((b <? 33) || (126 <? b)) eqn:R; [discriminate|].
    destruct (is_lower b) eqn:L.
    + cbn [andb] in H. destruct hu; [discriminate|]. exfalso. eapply check_go_has_lower; [exact H|reflexivity].
    + destruct (is_upper b) eqn:U.
      * cbn [andb] in H. destruct (is_lower_lowercase b U) as (L' & U' & R'). rewrite R', L'.
        cbn [andb]. apply IH in H. destruct hu; exact H.
      * cbn [andb] in H. rewrite (lowercase_id b U), R, L, U.
        destruct hu; cbn [andb]; apply IH; exact H.
Qed.

Lemma check_hrp_lowered hrp c : check_hrp hrp = Ok c ->
  exists c', check_hrp (hrp_lower c hrp) = Ok c' /\ c' <> CUpper.
Proof.
  unfold check_hrp. intros H. destruct c; cbn [hrp_lower].
  - rewrite map_length. destruct ((length hrp =? 0)%nat || (83 <? length hrp)%nat); [discriminate|].
    exists CLower. split; [apply check_go_upper; exact H|discriminate].
  - exists CLower. split; [exact H|discriminate].
  - exists CNone. split; [exact H|discriminate].
Qed.

Lemma check_hrp_nonempty hrp c : check_hrp hrp = Ok c -> (1 <= length hrp <= 83)%nat.
Proof.
  unfold check_hrp. destruct (length hrp =? 0)%nat eqn:E1; [discriminate|].
  destruct (83 <? length hrp)%nat eqn:E2; [discriminate|]. intros _.
  apply Nat.eqb_neq in E1. apply Nat.ltb_ge in E2. lia.
Qed.

Lemma firstn_len {A} (l r : list A) : firstn (length l) (l ++ r) = l.
Proof. induction l as [|x t IH]; [reflexivity|]. cbn. now rewrite IH. Qed.
Lemma skipn_len {A} (l r : list A) : skipn (length l) (l ++ r) = r.
Proof. induction l as [|x t IH]; [reflexivity|]. cbn. exact IH. Qed.

Lemma skipn_add_hl (hl r : list N) : skipn (length hl + 1) (hl ++ 49 :: r) = r.
Proof. induction hl as [|x t IH]; [reflexivity|]. cbn [length app]. exact IH. Qed.

Lemma create_checksum_props hrp data :
  length (create_checksum hrp data) = 6%nat /\ Forall (fun d => d < 32) (create_checksum hrp data).
Proof. unfold create_checksum. split; [reflexivity|]. repeat constructor; apply N.mod_lt; lia. Qed.

Lemma encode_shape hrp data c : check_hrp hrp = Ok c ->
  encode hrp data = Ok (hrp_lower c hrp ++ 49 :: map to_char (data ++ create_checksum (hrp_lower c hrp) data)).
Proof. intros H. unfold encode. rewrite H, map_app. reflexivity. Qed.

(* decode (encode hrp data) = (lower-cased hrp, data): every accepted HRP, every u5 list, no length limit *)
Theorem decode_encode hrp data s : Forall (fun d => d < 32) data -> encode hrp data = Ok s ->
  exists c, check_hrp hrp = Ok c /\ decode s = Ok (hrp_lower c hrp, data).
Proof.
  intros Hd He. destruct (check_hrp hrp) as [c| | |] eqn:Ec;
    try (unfold encode in He; rewrite Ec in He; discriminate).
  rewrite (encode_shape hrp data c Ec) in He.
  exists c. split; [reflexivity|].
  remember (hrp_lower c hrp) as hl eqn:Ehl. remember (create_checksum hl data) as cs eqn:Ecs.
  injection He as <-.
  destruct (create_checksum_props hl data) as [Lcs Hcs]. rewrite <- Ecs in Lcs, Hcs.
  destruct (check_hrp_lowered hrp c Ec) as (c' & Ec' & Hc'). rewrite <- Ehl in Ec'.
  assert (Lhl : (1 <= length hl)%nat) by (apply (check_hrp_nonempty hl c' Ec')).
  unfold decode.
  assert (Hall : Forall (fun d => d < 32) (data ++ cs)) by (apply Forall_app; split; assumption).
  match goal with |- context [(?n <? 8)%nat] => destruct (n <? 8)%nat eqn:E8 end.
  { apply Nat.ltb_lt in E8. rewrite app_length in E8. cbn [length] in E8.
    rewrite map_length, app_length, Lcs in E8. lia. }
  rewrite rfind_last by (apply to_char_not_sep; exact Hall).
  rewrite firstn_len.
  change (S (length hl)) with (1 + length hl)%nat. rewrite Nat.add_comm, skipn_add_hl.
  destruct (length (map to_char (data ++ cs)) <? 6)%nat eqn:E6.
  { apply Nat.ltb_lt in E6. rewrite map_length, app_length, Lcs in E6. lia. }
  rewrite Ec'. cbn [bind].
  assert (Hhl : hrp_lower c' hl = hl) by (destruct c'; [congruence|reflexivity|reflexivity]).
  rewrite Hhl, (decode_chars_to_char _ Hall c' Hc'). cbn [bind].
  unfold verify_checksum. rewrite Ecs at 1. rewrite checksum_valid. change (1 =? 1) with true. cbv iota.
  rewrite app_length, Lcs. replace (length data + 6 - 6)%nat with (length data) by lia.
  now rewrite firstn_len.
Qed.

(* the two calls the library makes, composed: for every byte string *)
Theorem b32_roundtrip hrp bs s : bytes_ok bs -> b32_encode hrp bs = Some s ->
  exists c, check_hrp hrp = Ok c /\ b32_decode s = Some (hrp_lower c hrp, bs).
Proof.
  intros Hok H. unfold b32_encode in H.
  destruct (encode hrp (to_base32 bs)) as [s'| | |] eqn:E; try discriminate. injection H as <-.
  destruct (decode_encode hrp (to_base32 bs) s' (to_base32_lt32 bs Hok) E) as (c & Hc & Hd).
  exists c. split; [exact Hc|]. unfold b32_decode. rewrite Hd, (base32_roundtrip bs Hok). reflexivity.
Qed.

(* encode fails only on the HRP: any valid HRP, any data, any length *)
Theorem b32_encode_total hrp bs c : check_hrp hrp = Ok c -> exists s, b32_encode hrp bs = Some s.
Proof. intros H. unfold b32_encode. rewrite (encode_shape hrp _ c H). eauto. Qed.

(* ================= 4. rejections ================= *)
Theorem decode_rejects_short s : (length s < 8)%nat -> decode s = Err.
Proof. intros H. unfold decode. apply Nat.ltb_lt in H. now rewrite H. Qed.

Theorem decode_rejects_no_separator s : Forall (fun x => x <> 49) s -> decode s = Err.
Proof.
  intros H. unfold decode. destruct (length s <? 8)%nat; [reflexivity|].
  unfold rfind. now rewrite rfind_go_notin.
Qed.

Lemma check_hrp_go_cases hrp : forall hl hu, (exists c, check_hrp_go hrp hl hu = Ok c) \/ check_hrp_go hrp hl hu = Err.
Proof.
  induction hrp as [|b t IH]; intros hl hu; cbn [check_hrp_go]; [left; eexists; reflexivity|].
  destruct ((b <? 33) || (126 <? b)); [now right|].
  match goal with |- context [if ?c then Err else _] => destruct c end; [now right|apply IH].
Qed.
Lemma check_hrp_cases hrp : (exists c, check_hrp hrp = Ok c) \/ check_hrp hrp = Err.
Proof. unfold check_hrp. destruct (_ || _); [now right|apply check_hrp_go_cases]. Qed.

Lemma decode_char_cases case c : (exists p, decode_char case c = Ok p) \/ decode_char case c = Err.
Proof.
  unfold decode_char. destruct (128 <=? c); [now right|].
  destruct (is_lower c); [destruct case|destruct (is_upper c); [destruct case|]];
    try (now right);
    destruct ((31 <? nth (N.to_nat c) charset_rev (-1))%Z || (nth (N.to_nat c) charset_rev (-1) <? 0)%Z);
    (now right) || (left; eexists; reflexivity).
Qed.

Lemma decode_chars_bad c cs : In c cs -> (forall case, decode_char case c = Err) ->
  forall case, decode_chars case cs = Err.
Proof.
  intros Hin Hbad. induction cs as [|x t IH]; [destruct Hin|]. intros case. cbn [decode_chars].
  destruct Hin as [->|Hin]; [now rewrite Hbad|].
  destruct (decode_char_cases case x) as [[[case' v] E]|E]; rewrite E; cbn [bind]; [|reflexivity].
  now rewrite (IH Hin case').
Qed.

(* a data character outside the charset (or outside ASCII) makes decode fail *)
Theorem decode_rejects_bad_char s sep c : rfind 49 s = Some sep -> In c (skipn (S sep) s) ->
  (forall case, decode_char case c = Err) -> decode s = Err.
Proof.
  intros Hr Hin Hbad. unfold decode. destruct (length s <? 8)%nat; [reflexivity|]. rewrite Hr.
  destruct (length (skipn (S sep) s) <? 6)%nat; [reflexivity|].
  destruct (check_hrp_cases (firstn sep s)) as [[case E]|E]; rewrite E; cbn [bind]; [|reflexivity].
  now rewrite (decode_chars_bad c _ Hin Hbad case).
Qed.

Example bad_chars : forall case, decode_char case 98 = Err /\ decode_char case 49 = Err /\ decode_char case 200 = Err.
Proof. intros case. destruct case; repeat split; vm_compute; reflexivity. Qed.   (* 'b', '1', a non-ASCII byte *)

Lemma lower_upper_excl c : is_lower c = true -> is_upper c = true -> False.
Proof. unfold is_lower, is_upper. lia. Qed.

Lemma decode_chars_lower_then_upper cs up : In up cs -> is_upper up = true -> decode_chars CLower cs = Err.
Proof.
  intros Hin Hup. induction cs as [|x t IH]; [destruct Hin|]. cbn [decode_chars].
  destruct Hin as [->|Hin].
  - unfold decode_char. destruct (128 <=? up); [reflexivity|].
    destruct (is_lower up) eqn:L; [exfalso; eapply lower_upper_excl; eassumption|]. now rewrite Hup.
  - unfold decode_char. destruct (128 <=? x); [reflexivity|].
    destruct (is_lower x).
    + destruct ((31 <? nth (N.to_nat x) charset_rev (-1))%Z || (nth (N.to_nat x) charset_rev (-1) <? 0)%Z); cbn [bind]; [reflexivity|].
      now rewrite (IH Hin).
    + destruct (is_upper x); [reflexivity|].
      destruct ((31 <? nth (N.to_nat x) charset_rev (-1))%Z || (nth (N.to_nat x) charset_rev (-1) <? 0)%Z); cbn [bind]; [reflexivity|].
      now rewrite (IH Hin).
Qed.

Lemma decode_chars_upper_then_lower cs lo : In lo cs -> is_lower lo = true -> decode_chars CUpper cs = Err.
Proof.
  intros Hin Hlo. induction cs as [|x t IH]; [destruct Hin|]. cbn [decode_chars].
  destruct Hin as [->|Hin].
  - unfold decode_char. destruct (128 <=? lo); [reflexivity|]. now rewrite Hlo.
  - unfold decode_char. destruct (128 <=? x); [reflexivity|].
    destruct (is_lower x); [reflexivity|].
    destruct (is_upper x);
      (destruct ((31 <? nth (N.to_nat x) charset_rev (-1))%Z || (nth (N.to_nat x) charset_rev (-1) <? 0)%Z); cbn [bind]; [reflexivity|];
       now rewrite (IH Hin)).
Qed.

(* mixed case in the data part is refused whatever the case of the HRP *)
Theorem decode_chars_mixed_case cs lo up : In lo cs -> In up cs -> is_lower lo = true -> is_upper up = true ->
  forall case, decode_chars case cs = Err.
Proof.
  intros Hlo Hup Ll Uu. induction cs as [|x t IH]; [destruct Hlo|]. intros case.
  destruct case.
  - apply (decode_chars_upper_then_lower _ lo); assumption.
  - apply (decode_chars_lower_then_upper _ up); assumption.
  - cbn [decode_chars]. unfold decode_char. destruct (128 <=? x); [reflexivity|].
    destruct (is_lower x) eqn:Lx.
    + destruct ((31 <? nth (N.to_nat x) charset_rev (-1))%Z || (nth (N.to_nat x) charset_rev (-1) <? 0)%Z); cbn [bind]; [reflexivity|].
      destruct Hup as [->|Hup]; [exfalso; eapply lower_upper_excl; eassumption|].
      now rewrite (decode_chars_lower_then_upper t up Hup Uu).
    + destruct (is_upper x) eqn:Ux.
      * destruct ((31 <? nth (N.to_nat x) charset_rev (-1))%Z || (nth (N.to_nat x) charset_rev (-1) <? 0)%Z); cbn [bind]; [reflexivity|].
        destruct Hlo as [->|Hlo]; [congruence|].
        now rewrite (decode_chars_upper_then_lower t lo Hlo Ll).
      * destruct ((31 <? nth (N.to_nat x) charset_rev (-1))%Z || (nth (N.to_nat x) charset_rev (-1) <? 0)%Z); cbn [bind]; [reflexivity|].
        destruct Hlo as [->|Hlo]; [congruence|]. destruct Hup as [->|Hup]; [congruence|].
        now rewrite (IH Hlo Hup CNone).
Qed.

Theorem decode_rejects_mixed_case s sep lo up : rfind 49 s = Some sep ->
  In lo (skipn (S sep) s) -> In up (skipn (S sep) s) -> is_lower lo = true -> is_upper up = true ->
  decode s = Err.
Proof.
  intros Hr Hlo Hup Ll Uu. unfold decode. destruct (length s <? 8)%nat; [reflexivity|]. rewrite Hr.
  destruct (length (skipn (S sep) s) <? 6)%nat; [reflexivity|].
  destruct (check_hrp_cases (firstn sep s)) as [[case E]|E]; rewrite E; cbn [bind]; [|reflexivity].
  now rewrite (decode_chars_mixed_case _ lo up Hlo Hup Ll Uu case).
Qed.

(* an upper-case HRP with a lower-case data character (or the converse) is refused *)
Theorem decode_rejects_hrp_data_case s sep x : rfind 49 s = Some sep -> In x (skipn (S sep) s) ->
  (check_hrp (firstn sep s) = Ok CUpper /\ is_lower x = true) \/
  (check_hrp (firstn sep s) = Ok CLower /\ is_upper x = true) -> decode s = Err.
Proof.
  intros Hr Hin H. unfold decode. destruct (length s <? 8)%nat; [reflexivity|]. rewrite Hr.
  destruct (length (skipn (S sep) s) <? 6)%nat; [reflexivity|].
  destruct H as [[-> Hx]|[-> Hx]]; cbn [bind].
  - now rewrite (decode_chars_upper_then_lower _ x Hin Hx).
  - now rewrite (decode_chars_lower_then_upper _ x Hin Hx).
Qed.

(* ================= 5. error detection: one wrong symbol is always detected ================= *)
Definition mixf (b : N) : N :=
  N.lxor (N.lxor (N.lxor (N.lxor (sel b 0 gen0) (sel b 1 gen1)) (sel b 2 gen2)) (sel b 3 gen3)) (sel b 4 gen4).

Lemma step_split c v :
  polymod_step c v = N.lxor (N.lxor (N.shiftl (N.land c 33554431) 5) v) (mixf (N.shiftr c 25)).
Proof. unfold polymod_step, mixf. apply N.bits_inj. intros n. rewrite !N.lxor_spec. btauto. Qed.

Lemma mixf_low_sweep :
  forallb (fun i => (N.of_nat i =? 0) || negb (mixf (N.of_nat i) mod 32 =? 0)) (seq 0 32) = true.
Proof. vm_compute. reflexivity. Qed.
Lemma mixf_low b : b < 32 -> mixf b mod 32 = 0 -> b = 0.
Proof.
  intros Hb H. pose proof mixf_low_sweep as S. rewrite forallb_forall in S.
  specialize (S (N.to_nat b)). rewrite N2Nat.id in S.
  assert (I : In (N.to_nat b) (seq 0 32)) by (apply in_seq; lia). specialize (S I). lia.
Qed.

(* multiplying a non-zero state by x never gives zero: the step with symbol 0 is injective *)
Lemma step0_nonzero d : d < 2 ^ 30 -> polymod_step d 0 = 0 -> d = 0.
Proof.
  intros Hd H. rewrite step_split, N.lxor_0_r in H. apply N.lxor_eq in H.
  rewrite N.shiftl_mul_pow2, N.shiftr_div_pow2 in H. change 33554431 with (N.ones 25) in H.
  rewrite N.land_ones in H. change (2 ^ 5) with 32 in H. change (2 ^ 25) with 33554432 in *.
  change (2 ^ 30) with 1073741824 in Hd.
  assert (Hb : d / 33554432 < 32) by (apply N.div_lt_upper_bound; lia).
  assert (Hz : d / 33554432 = 0).
  { apply mixf_low; [exact Hb|]. rewrite <- H. apply N.mod_mul. lia. }
  rewrite Hz in H. change (mixf 0) with 0 in H. lia.
Qed.

Lemma polymod_zeros_nonzero k : forall d, d < 2 ^ 30 -> d <> 0 -> polymod_from d (repeat 0 k) <> 0.
Proof.
  induction k as [|k IH]; intros d Hd Hz; [exact Hz|]. unfold polymod_from in *. cbn [repeat fold_left].
  apply IH; [apply step_bound; lia|]. intros E. apply Hz. now apply step0_nonzero.
Qed.

Lemma combine_same_fst (z : list N) : map fst (combine z z) = z.
Proof. induction z as [|x t IH]; [reflexivity|]. cbn. now rewrite IH. Qed.
Lemma combine_same_snd (z : list N) : map snd (combine z z) = z.
Proof. induction z as [|x t IH]; [reflexivity|]. cbn. now rewrite IH. Qed.
Lemma combine_same_xor (z : list N) : map (fun p => N.lxor (fst p) (snd p)) (combine z z) = repeat 0 (length z).
Proof. induction z as [|x t IH]; [reflexivity|]. cbn. now rewrite IH, N.lxor_nilpotent. Qed.

Theorem single_substitution_detected c a e e' z : e < 32 -> e' < 32 -> e <> e' ->
  polymod_from c (a ++ e :: z) <> polymod_from c (a ++ e' :: z).
Proof.
  intros He He' Hne Heq. rewrite !polymod_from_app in Heq.
  set (S := polymod_from c a) in *.
  change (polymod_from S (e :: z)) with (polymod_from (polymod_step S e) z) in Heq.
  change (polymod_from S (e' :: z)) with (polymod_from (polymod_step S e') z) in Heq.
  pose proof (polymod_from_linear (combine z z) (polymod_step S e) (polymod_step S e')) as L.
  rewrite combine_same_fst, combine_same_snd, combine_same_xor, Heq, N.lxor_nilpotent in L.
  rewrite <- step_linear, N.lxor_nilpotent in L.
  assert (Hx : N.lxor e e' < 32) by (change 32 with (2 ^ 5); apply lxor_lt_pow2; assumption).
  rewrite step_small in L by lia. change (0 * 32 + N.lxor e e') with (N.lxor e e') in L.
  revert L. apply polymod_zeros_nonzero.
  - eapply N.lt_trans; [exact Hx|vm_compute; reflexivity].
  - intros E. apply Hne. now apply N.lxor_eq.
Qed.

(* a valid string with ONE data or checksum symbol replaced by another one never verifies *)
Theorem verify_rejects_symbol_substitution hrp a e e' z : e < 32 -> e' < 32 -> e <> e' ->
  verify_checksum hrp (a ++ e :: z) = true -> verify_checksum hrp (a ++ e' :: z) = false.
Proof.
  unfold verify_checksum, polymod. intros He He' Hne H.
  destruct (polymod_from 1 (hrp_expand hrp ++ a ++ e' :: z) =? 1) eqn:E; [|reflexivity]. exfalso.
  rewrite !app_assoc in H, E.
  apply (single_substitution_detected 1 (hrp_expand hrp ++ a) e e' z He He' Hne). lia.
Qed.

(* a wrong human-readable part: one character replaced by another with the same top three bits
   (e.g. any lower-case letter by another lower-case letter) never verifies *)
Theorem verify_rejects_hrp_substitution h1 x x' h2 data : x / 32 = x' / 32 -> x mod 32 <> x' mod 32 ->
  verify_checksum (h1 ++ x :: h2) data = true -> verify_checksum (h1 ++ x' :: h2) data = false.
Proof.
  unfold verify_checksum, polymod, hrp_expand. intros Hhi Hlo H.
  match goal with |- (?t =? 1) = false => destruct (t =? 1) eqn:E end; [|reflexivity]. exfalso.
  rewrite !map_app in H, E. cbn [map] in H, E. rewrite Hhi in H.
  rewrite <- !app_assoc in H, E. cbn [app] in H, E.
  set (pre := map (fun b => b / 32) h1 ++ x' / 32 :: map (fun b => b / 32) h2 ++ 0 :: map (fun b => b mod 32) h1) in *.
  assert (R : forall y, map (fun b => b / 32) h1 ++ x' / 32 :: map (fun b => b / 32) h2 ++
                0 :: map (fun b => b mod 32) h1 ++ y mod 32 :: map (fun b => b mod 32) h2 ++ data
              = pre ++ y mod 32 :: (map (fun b => b mod 32) h2 ++ data)).
  { intros y. unfold pre. rewrite <- !app_assoc. cbn [app]. rewrite <- !app_assoc. reflexivity. }
  rewrite (R x) in H. rewrite (R x') in E.
  apply (single_substitution_detected 1 pre (x mod 32) (x' mod 32) (map (fun b => b mod 32) h2 ++ data));
    try (apply N.mod_lt; lia); [exact Hlo|lia].
Qed.
