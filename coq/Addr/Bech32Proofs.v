(* Proofs about the Bech32 model (Bech32.v): the checksum the writer appends always verifies
   (polymod is XOR-linear), 8 -> 5 -> 8 bit conversion is the identity on byte strings, and
   decode (encode hrp data) = Ok (lower-cased hrp, data) for every valid HRP and ALL data. *)
From Coq Require Import Btauto.
From CSL Require Import Base.Prelude Addr.Crc32Proofs Addr.Bech32.
Local Open Scope N_scope.

(* ================= 1. the checksum ================= *)
Lemma sel_spec b i g n : N.testbit (sel b i g) n = N.testbit b i && N.testbit g n.
Proof. unfold sel. destruct (N.testbit b i); [reflexivity|apply N.bits_0]. Qed.

(* one step is linear over GF(2): xor of states and xor of symbols give the xor of the results *)
Lemma step_linear c1 c2 v1 v2 :
  polymod_step (N.lxor c1 c2) (N.lxor v1 v2) = N.lxor (polymod_step c1 v1) (polymod_step c2 v2).
Proof.
  unfold polymod_step. apply N.bits_inj. intros n.
  rewrite !N.lxor_spec, !sel_spec, !N.shiftr_spec', !N.lxor_spec.
  destruct (N.lt_ge_cases n 5) as [H|H].
  - rewrite !N.shiftl_spec_low by exact H. btauto.
  - rewrite !N.shiftl_spec_high' by exact H. rewrite !N.land_spec, !N.lxor_spec. btauto.
Qed.

Lemma polymod_from_linear l : forall c1 c2,
  polymod_from (N.lxor c1 c2) (map (fun p => N.lxor (fst p) (snd p)) l) =
  N.lxor (polymod_from c1 (map fst l)) (polymod_from c2 (map snd l)).
Proof.
  induction l as [|[a b] t IH]; intros c1 c2; [reflexivity|].
  unfold polymod_from in *. cbn [map fold_left fst snd]. rewrite step_linear. apply IH.
Qed.

Lemma testbit_small v k n : v < 2 ^ k -> k <= n -> N.testbit v n = false.
Proof.
  intros Hv Hk. destruct (N.eq_dec v 0) as [->|Hz]; [apply N.bits_0|].
  apply N.bits_above_log2. apply N.log2_lt_pow2; [lia|].
  eapply N.lt_le_trans; [exact Hv|]. apply N.pow_le_mono_r; lia.
Qed.

Lemma land_disj a v k : a mod 2 ^ k = 0 -> v < 2 ^ k -> N.land a v = 0.
Proof.
  intros Ha Hv. apply N.bits_inj. intros n. rewrite N.land_spec, N.bits_0.
  destruct (N.lt_ge_cases n k) as [H|H].
  - assert (E : a = a / 2 ^ k * 2 ^ k).
    { pose proof (N.div_mod a (2 ^ k) ltac:(apply N.pow_nonzero; lia)). lia. }
    rewrite E, N.mul_pow2_bits_low by exact H. reflexivity.
  - rewrite (testbit_small v k n Hv H). apply andb_false_r.
Qed.

Lemma lxor_disj a v k : a mod 2 ^ k = 0 -> v < 2 ^ k -> N.lxor a v = a + v.
Proof. intros Ha Hv. symmetry. apply N.add_nocarry_lxor. eapply land_disj; eassumption. Qed.

Lemma lor_disj a v k : a mod 2 ^ k = 0 -> v < 2 ^ k -> N.lor a v = a + v.
Proof.
  intros Ha Hv. rewrite <- N.lxor_lor by (eapply land_disj; eassumption).
  eapply lxor_disj; eassumption.
Qed.

Lemma sel_zero i g : sel 0 i g = 0.
Proof. unfold sel. now rewrite N.bits_0. Qed.

(* while the state is short no generator is selected: the step just appends the symbol *)
Lemma step_small c v : c < 33554432 -> v < 32 -> polymod_step c v = c * 32 + v.
Proof.
  intros Hc Hv. unfold polymod_step.
  rewrite N.shiftr_div_pow2. change (2 ^ 25) with 33554432. rewrite N.div_small by exact Hc.
  rewrite !sel_zero, !N.lxor_0_r.
  change 33554431 with (N.ones 25). rewrite N.land_ones. change (2 ^ 25) with 33554432.
  rewrite N.mod_small by exact Hc. rewrite N.shiftl_mul_pow2. change (2 ^ 5) with 32.
  apply (lxor_disj (c * 32) v 5); [change (2 ^ 5) with 32; apply N.mod_mul; lia|exact Hv].
Qed.

(* the state stays below 2^30 *)
Lemma step_bound c v : v < 32 -> polymod_step c v < 2 ^ 30.
Proof.
  intros Hv. unfold polymod_step.
  assert (G : forall b i g, g < 2 ^ 30 -> sel b i g < 2 ^ 30).
  { intros b i g Hg. unfold sel. destruct (N.testbit b i); [exact Hg|]. apply N.neq_0_lt_0. apply N.pow_nonzero. lia. }
  repeat apply lxor_lt_pow2; try (apply G; vm_compute; reflexivity).
  - rewrite N.shiftl_mul_pow2. change 33554431 with (N.ones 25). rewrite N.land_ones.
    pose proof (N.mod_lt c (2 ^ 25) ltac:(apply N.pow_nonzero; lia)).
    change (2 ^ 30) with (2 ^ 25 * 2 ^ 5). apply N.mul_lt_mono_pos_r; [vm_compute; reflexivity|exact H].
  - eapply N.lt_trans; [exact Hv|vm_compute; reflexivity].
Qed.

Lemma polymod_from_app c l1 l2 : polymod_from c (l1 ++ l2) = polymod_from (polymod_from c l1) l2.
Proof. unfold polymod_from. apply fold_left_app. Qed.

(* six symbols fed into the zero state spell the number they are the base-32 digits of *)
Lemma polymod_from_zero6 v0 v1 v2 v3 v4 v5 :
  v0 < 32 -> v1 < 32 -> v2 < 32 -> v3 < 32 -> v4 < 32 -> v5 < 32 ->
  polymod_from 0 [v0; v1; v2; v3; v4; v5] = ((((v0 * 32 + v1) * 32 + v2) * 32 + v3) * 32 + v4) * 32 + v5.
Proof.
  intros. unfold polymod_from. cbn [fold_left].
  rewrite (step_small 0 v0) by lia. rewrite (step_small _ v1) by lia.
  rewrite (step_small _ v2) by lia. rewrite (step_small _ v3) by lia.
  rewrite (step_small _ v4) by lia. rewrite (step_small _ v5) by lia. lia.
Qed.

Lemma linear6 S v0 v1 v2 v3 v4 v5 :
  polymod_from S [v0; v1; v2; v3; v4; v5] =
  N.lxor (polymod_from S [0; 0; 0; 0; 0; 0]) (polymod_from 0 [v0; v1; v2; v3; v4; v5]).
Proof.
  pose proof (polymod_from_linear [(0, v0); (0, v1); (0, v2); (0, v3); (0, v4); (0, v5)] S 0) as L.
  cbn [map fst snd] in L. rewrite !N.lxor_0_l, N.lxor_0_r in L. exact L.
Qed.

(* verify_checksum accepts what create_checksum appends: for EVERY hrp and EVERY data *)
Theorem checksum_valid hrp data :
  polymod (hrp_expand hrp ++ data ++ create_checksum hrp data) = 1.
Proof.
  unfold polymod, create_checksum.
  set (A := hrp_expand hrp ++ data).
  replace (hrp_expand hrp ++ data ++ [0; 0; 0; 0; 0; 0]) with (A ++ [0; 0; 0; 0; 0; 0]) by (unfold A; now rewrite app_assoc).
  rewrite app_assoc. fold A. rewrite !polymod_from_app.
  set (S := polymod_from 1 A).
  set (chk := polymod_from S [0; 0; 0; 0; 0; 0]).
  set (plm := N.lxor chk 1).
  assert (Hchk : chk < 2 ^ 30).
  { unfold chk, polymod_from. cbn [fold_left]. apply step_bound. lia. }
  assert (Hplm : plm < 1073741824).
  { unfold plm. change 1073741824 with (2 ^ 30). apply lxor_lt_pow2; [exact Hchk|vm_compute; reflexivity]. }
  rewrite linear6. fold chk.
  rewrite polymod_from_zero6 by (apply N.mod_lt; lia).
  replace (((((plm / 33554432 mod 32 * 32 + plm / 1048576 mod 32) * 32 + plm / 32768 mod 32) * 32 +
             plm / 1024 mod 32) * 32 + plm / 32 mod 32) * 32 + plm mod 32) with plm by lia.
  unfold plm. rewrite <- N.lxor_assoc, N.lxor_nilpotent, N.lxor_0_l. reflexivity.
Qed.
