(* Address: the sum type, raw-bytes writer, strict and lenient parser, accessors.
   Mirrors rust/src/protocol_types/address.rs:
     :319-343  kind / payment_cred / is_malformed
     :356-393  to_bytes
     :395-404  from_bytes_impl_safe / from_bytes_impl_unsafe (embedded, Malformed carrier)
     :406-539  from_bytes_internal_impl (header-nibble dispatch, exact-length checks)
     :541-568  decode_pointer
     :603-612  network_id
     :615-628  cbor Serialize / Deserialize (bytes wrapper; lenient)
   with Address::from_bytes(empty) repaired to an error (it indexed data[0]).
   Model definitions only; proofs are in ShelleyProofs.v. *)
From CSL Require Import Base.Prelude Cbor.Head Addr.VarNat Addr.Crc32 Addr.Byron.
Local Open Scope N_scope.

Inductive cred := KeyHash (h : bytes) | ScriptHash (h : bytes).
(* CredKind as u8 *)
Definition cred_kind (c : cred) : N := match c with KeyHash _ => 0 | ScriptHash _ => 1 end.
Definition cred_bytes (c : cred) : bytes := match c with KeyHash h => h | ScriptHash h => h end.

Record pointer := mkPtr { p_slot : N; p_tx : N; p_cert : N }.   (* three BigNum (u64) *)

Inductive address :=
| Base (net : N) (pay stake : cred)
| Ptr (net : N) (pay : cred) (p : pointer)
| Enterprise (net : N) (pay : cred)
| Reward (net : N) (pay : cred)
| Byron (a : byron_addr)
| Malformed (bs : bytes).

Inductive addr_kind := KBase | KPointer | KEnterprise | KReward | KByron | KMalformed.

Definition kind (a : address) : addr_kind :=
  match a with
  | Base _ _ _ => KBase | Ptr _ _ _ => KPointer | Enterprise _ _ => KEnterprise
  | Reward _ _ => KReward | Byron _ => KByron | Malformed _ => KMalformed
  end.

Definition payment_cred (a : address) : option cred :=
  match a with
  | Base _ p _ => Some p | Ptr _ p _ => Some p | Enterprise _ p => Some p | Reward _ p => Some p
  | Byron _ => None | Malformed _ => None
  end.

(* BaseAddress::stake_cred / PointerAddress::stake_pointer through the from_address casts *)
Definition stake_cred (a : address) : option cred :=
  match a with Base _ _ s => Some s | _ => None end.
Definition stake_pointer (a : address) : option pointer :=
  match a with Ptr _ _ p => Some p | _ => None end.

Definition network_id (a : address) : result N :=
  match a with
  | Base n _ _ => Ok n | Ptr n _ _ => Ok n | Enterprise n _ => Ok n | Reward n _ => Ok n
  | Byron b => byron_network_id b
  | Malformed _ => Err
  end.

(* ---------------- to_bytes ---------------- *)
(* the header bit fields do not overlap, so [|] is [+]; [network & 0xF] is [mod 16] *)
Definition to_bytes (a : address) : bytes :=
  match a with
  | Base net pay stake =>
      (cred_kind pay * 16 + cred_kind stake * 32 + net mod 16) :: cred_bytes pay ++ cred_bytes stake
  | Ptr net pay p =>
      (64 + cred_kind pay * 16 + net mod 16) :: cred_bytes pay
      ++ varnat_encode (p_slot p) ++ varnat_encode (p_tx p) ++ varnat_encode (p_cert p)
  | Enterprise net pay => (96 + cred_kind pay * 16 + net mod 16) :: cred_bytes pay
  | Reward net pay => (224 + cred_kind pay * 16 + net mod 16) :: cred_bytes pay
  | Byron b => byron_encode crc32 b
  | Malformed bs => bs
  end.

(* ---------------- from_bytes_internal_impl ---------------- *)
Definition hash_len : nat := 28.

(* read_addr_cred: [header & (1 << bit) == 0] selects key hash, else script hash *)
Definition read_cred (header : N) (data : bytes) (bit : N) (pos : nat) : cred :=
  let h := firstn hash_len (skipn pos data) in
  if N.testbit header bit then ScriptHash h else KeyHash h.

Definition decode_pointer (data : bytes) : option (pointer * nat) :=
  match varnat_decode data with
  | None => None
  | Some (slot, k1) =>
    match varnat_decode (skipn k1 data) with
    | None => None
    | Some (tx, k2) =>
      match varnat_decode (skipn (k1 + k2) data) with
      | None => None
      | Some (cert, k3) => Some (mkPtr slot tx cert, (k1 + k2 + k3)%nat)
      end
    end
  end.

Definition lift_byron (r : result byron_addr) : result address :=
  match r with Ok b => Ok (Byron b) | Err => Err | Panic => Panic | OutOfFuel => OutOfFuel end.

Definition from_bytes_internal (ignore_leftover : bool) (data : bytes) : result address :=
  match data with
  | [] => Err
  | header :: _ =>
    let network := header mod 16 in
    let nib := header / 16 in
    let len := length data in
    (* fixed-size kinds: exactly [size] bytes, or at least that many when leftovers are ignored *)
    let fixed (size : nat) (mk : address) : result address :=
      if (len <? size)%nat then Err
      else if (size <? len)%nat && negb ignore_leftover then Err
      else Ok mk in
    if nib <? 4 then
      fixed 57%nat (Base network (read_cred header data 4 1) (read_cred header data 5 29))
    else if nib <? 6 then
      if (len <? 32)%nat then Err
      else
        let pay := read_cred header data 4 1 in
        match decode_pointer (skipn 29 data) with
        | Some (p, off) =>
            if (29 + off <? len)%nat && negb ignore_leftover then Err else Ok (Ptr network pay p)
        | None => Err
        end
    else if nib <? 8 then fixed 29%nat (Enterprise network (read_cred header data 4 1))
    else if nib =? 8 then lift_byron (byron_from_bytes crc32 data)
    else if 14 <=? nib then fixed 29%nat (Reward network (read_cred header data 4 1))
    else Err
  end.

(* Address::from_bytes / from_hex / from_bech32 payload: strict *)
Definition from_bytes (data : bytes) : result address := from_bytes_internal false data.

(* Deserialize for Address (inside outputs, certificates ...): lenient, errors become Malformed *)
Definition embedded_decode (data : bytes) : result address :=
  match from_bytes_internal true data with
  | Ok a => Ok a
  | Err => Ok (Malformed data)
  | Panic => Panic
  | OutOfFuel => OutOfFuel
  end.

(* RewardAddress::deserialize: strict, and the kind must be Reward *)
Definition reward_address_decode (data : bytes) : result address :=
  match from_bytes data with
  | Ok (Reward n p) => Ok (Reward n p)
  | Ok _ => Err
  | r => r
  end.

Fixpoint bytes_eqb (a b : bytes) : bool :=
  match a, b with
  | [], [] => true
  | x :: a', y :: b' => (x =? y) && bytes_eqb a' b'
  | _, _ => false
  end.

(* ---------------- the header table (specification side) ---------------- *)
(* what shelley.cddl says about a header byte: kind, and which credentials are script hashes *)
Inductive header_class :=
| HBase (pay_script stake_script : bool) | HPointer (pay_script : bool)
| HEnterprise (pay_script : bool) | HReward (pay_script : bool) | HByron | HInvalid.

Definition classify_header (h : N) : header_class :=
  let b4 := N.testbit h 4 in let b5 := N.testbit h 5 in
  let b6 := N.testbit h 6 in let b7 := N.testbit h 7 in
  match b7, b6, b5 with
  | false, false, _ => HBase b4 b5
  | false, true, false => HPointer b4
  | false, true, true => HEnterprise b4
  | true, true, true => HReward b4
  | true, false, false => if b4 then HInvalid else HByron
  | _, _, _ => HInvalid
  end.

Definition is_script (c : cred) : bool := match c with ScriptHash _ => true | KeyHash _ => false end.

(* does an address agree with a header byte and the payload that follows it? *)
Definition agrees_with_header (a : address) (data : bytes) : bool :=
  match data with
  | [] => false
  | h :: payload =>
    let net_ok (n : N) := n =? h mod 16 in
    let cred_ok (c : cred) (script : bool) (pos : nat) :=
      Bool.eqb (is_script c) script && bytes_eqb (cred_bytes c) (firstn 28 (skipn pos payload)) in
    match classify_header h, a with
    | HBase ps ss, Base n p s => net_ok n && cred_ok p ps 0%nat && cred_ok s ss 28%nat
    | HPointer ps, Ptr n p _ => net_ok n && cred_ok p ps 0%nat
    | HEnterprise ps, Enterprise n p => net_ok n && cred_ok p ps 0%nat
    | HReward ps, Reward n p => net_ok n && cred_ok p ps 0%nat
    | HByron, Byron _ => true
    | _, _ => false
    end
  end.

(* ---------------- well-formed values ---------------- *)
Definition wf_cred (c : cred) : Prop := length (cred_bytes c) = 28%nat /\ bytes_ok (cred_bytes c).
Definition wf_pointer (p : pointer) : Prop := p_slot p < two64 /\ p_tx p < two64 /\ p_cert p < two64.
(* networks 0-15 (the header has four bits for it; the u8 field can hold more, see refutation) *)
Definition wf_address (a : address) : Prop :=
  match a with
  | Base n p s => n < 16 /\ wf_cred p /\ wf_cred s
  | Ptr n p q => n < 16 /\ wf_cred p /\ wf_pointer q
  | Enterprise n p => n < 16 /\ wf_cred p
  | Reward n p => n < 16 /\ wf_cred p
  | Byron b => wf_byron b
  | Malformed _ => False
  end.

(* ---------------- known classes of the embedded (lenient) decoder ---------------- *)
(* the lenient parser accepts, and the writer then normalises:
   1. bytes after a complete Shelley-era address;
   2. pointer fields written with padding groups (0x80 prefix);
   3. Byron addresses whose CBOR is not what the writer produces (wider heads, chunked strings,
      reordered / repeated attributes, bytes after the tuple inside the tag-24 string). *)
Definition shelley_nibble (h : N) : bool := (h / 16 <? 8) || (14 <=? h / 16).

Definition known_trailing (data : bytes) : bool :=
  match data with
  | [] => false
  | h :: _ =>
    let nib := h / 16 in
    if nib <? 4 then (57 <? length data)%nat
    else if nib <? 6 then
      match decode_pointer (skipn 29 data) with
      | Some (_, off) => (32 <=? length data)%nat && (29 + off <? length data)%nat
      | None => false
      end
    else if (nib <? 8) || (14 <=? nib) then (29 <? length data)%nat
    else false
  end.

Definition known_padded_pointer (data : bytes) : bool :=
  match data with
  | [] => false
  | h :: _ =>
    let nib := h / 16 in
    if (4 <=? nib) && (nib <? 6) && (32 <=? length data)%nat then
      let d := skipn 29 data in
      match varnat_decode d with
      | None => false
      | Some (_, k1) =>
        varnat_padded d ||
        match varnat_decode (skipn k1 d) with
        | None => false
        | Some (_, k2) =>
          varnat_padded (skipn k1 d) ||
          match varnat_decode (skipn (k1 + k2) d) with
          | None => false
          | Some _ => varnat_padded (skipn (k1 + k2) d)
          end
        end
      end
    else false
  end.

Definition known_noncanonical_byron (data : bytes) : bool :=
  match data with
  | [] => false
  | h :: _ =>
    if h / 16 =? 8 then
      match byron_from_bytes crc32 data with
      | Ok b => negb (bytes_eqb (byron_encode crc32 b) data)
      | _ => false
      end
    else false
  end.

(* a declared byte-string length of 2^63 or more inside a Byron-looking address panics in
   cbor_event (capacity overflow) *)
Definition known_huge_length (data : bytes) : bool :=
  match data with
  | [] => false
  | h :: _ =>
    if h / 16 =? 8 then
      match byron_from_bytes crc32 data with Panic => true | _ => false end
    else false
  end.
