(* Base58 text form of legacy addresses.  Mirrors rust/src/legacy_address/base58.rs
   (base_encode / base_decode: a little-endian digit array, "multiply by 256 resp. 58 and add"
   with a carry that pushes new digits only while it is non-zero).  Characters are ASCII codes.
   Model definitions only; proofs are in Base58Proofs.v. *)
From CSL Require Import Base.Prelude.
Local Open Scope N_scope.

(* ALPHABET = "123456789ABCDEFGHJKLMNPQRSTUVWXYZabcdefghijkmnopqrstuvwxyz" *)
Definition alphabet : list N := [49; 50; 51; 52; 53; 54; 55; 56; 57; 65; 66; 67; 68; 69; 70; 71; 72; 74; 75; 76; 77; 78; 80; 81; 82; 83; 84; 85; 86; 87; 88; 89; 90; 97; 98; 99; 100; 101; 102; 103; 104; 105; 106; 107; 109; 110; 111; 112; 113; 114; 115; 116; 117; 118; 119; 120; 121; 122].

(* for j in 0..digits.len() { carry = carry + digits[j] * m; digits[j] = carry % base; carry = carry / base }
   (encode: m = 256 written as << 8, base = 58; decode: m = 58, base = 256 written as [as u8] and [>> 8]) *)
Fixpoint muladd_digits (m base : N) (ds : list N) (carry : N) : list N * N :=
  match ds with
  | [] => ([], carry)
  | d :: t =>
      let c := carry + d * m in
      let '(t', c') := muladd_digits m base t (c / base) in
      (c mod base :: t', c')
  end.

(* while carry > 0 { digits.push(carry % base); carry = carry / base } ; the carry is a u32 and
   base >= 2, so 32 rounds always suffice *)
Fixpoint push_carry (fuel : nat) (base carry : N) : list N :=
  match fuel with
  | O => []
  | S f => if carry =? 0 then [] else carry mod base :: push_carry f base (carry / base)
  end.

Definition digits_step (m base : N) (ds : list N) (x : N) : list N :=
  let '(ds', c) := muladd_digits m base ds x in ds' ++ push_carry 32 base c.

Fixpoint take_while (p : N -> bool) (l : list N) : list N :=
  match l with [] => [] | x :: t => if p x then x :: take_while p t else [] end.

Definition alpha (d : N) : N := nth (N.to_nat d) alphabet 0.

Definition base58_encode (input : bytes) : list N :=
  let digits := fold_left (digits_step 256 58) input [0] in
  let zeros := take_while (fun b => b =? 0) input in
  map (fun _ => alpha 0) zeros ++ map alpha (rev digits).

(* alphabet.iter().position(|&x| x == c) *)
Fixpoint position_go (c : N) (l : list N) (i : N) : option N :=
  match l with [] => None | x :: t => if x =? c then Some i else position_go c t (i + 1) end.
Definition position (c : N) : option N := position_go c alphabet 0.

Fixpoint positions (cs : list N) : option (list N) :=
  match cs with
  | [] => Some []
  | c :: t => match position c, positions t with Some v, Some vs => Some (v :: vs) | _, _ => None end
  end.

Definition base58_decode (input : list N) : result bytes :=
  let zcount := length (take_while (fun c => c =? alpha 0) input) in
  match positions (skipn zcount input) with
  | None => Err                                   (* Error::UnknownSymbol *)
  | Some values =>
      let bytes0 := fold_left (digits_step 58 256) values [0] in
      let leading_zeros := length (take_while (fun b => b =? 0) (rev bytes0)) in
      let pad :=
        if (leading_zeros <? zcount)%nat then
          if (0 <? leading_zeros)%nat then (zcount - leading_zeros - 1)%nat else zcount
        else 0%nat in
      Ok (rev (bytes0 ++ repeat 0 pad))
  end.
