(* Proofs about Address (Shelley.v): round trip, classification by header, strict rejections,
   embedded decoding total and verbatim outside the known classes. *)
From CSL Require Import Base.Prelude Cbor.Head Cbor.HeadProofs Addr.VarNat Addr.VarNatProofs
  Addr.Crc32 Addr.Crc32Proofs Addr.Byron Addr.ByronProofs Addr.Shelley.
Local Open Scope N_scope.

(* ---------------- the 256 header bytes ---------------- *)
Definition headers : list N := map N.of_nat (seq 0 256).

Lemma in_headers h : h < 256 -> In h headers.
Proof.
  intros H. unfold headers. apply in_map_iff. exists (N.to_nat h). split; [apply N2Nat.id|].
  apply in_seq. lia.
Qed.

(* the parser's nibble dispatch is the header table of shelley.cddl *)
Definition dispatch_ok (h : N) : bool :=
  let nib := h / 16 in
  match classify_header h with
  | HBase ps ss => (nib <? 4) && Bool.eqb ps (N.testbit h 4) && Bool.eqb ss (N.testbit h 5)
  | HPointer ps => negb (nib <? 4) && (nib <? 6) && Bool.eqb ps (N.testbit h 4)
  | HEnterprise ps => negb (nib <? 6) && (nib <? 8) && Bool.eqb ps (N.testbit h 4)
  | HByron => negb (nib <? 8) && (nib =? 8)
  | HReward ps => negb (nib <? 8) && negb (nib =? 8) && (14 <=? nib) && Bool.eqb ps (N.testbit h 4)
  | HInvalid => negb (nib <? 8) && negb (nib =? 8) && negb (14 <=? nib)
  end.

Lemma dispatch_sweep : forallb dispatch_ok headers = true.
Proof. vm_compute. reflexivity. Qed.

Lemma dispatch_ok_all h : h < 256 -> dispatch_ok h = true.
Proof. intros H. pose proof dispatch_sweep as S. rewrite forallb_forall in S. apply S, in_headers, H. Qed.

(* the writer recomputes the header the parser dispatched on *)
Definition bit (b : bool) : N := if b then 1 else 0.
Definition rewrite_ok (h : N) : bool :=
  let nib := h / 16 in
  let k4 := bit (N.testbit h 4) in let k5 := bit (N.testbit h 5) in
  if nib <? 4 then k4 * 16 + k5 * 32 + (h mod 16) mod 16 =? h
  else if nib <? 6 then 64 + k4 * 16 + (h mod 16) mod 16 =? h
  else if nib <? 8 then 96 + k4 * 16 + (h mod 16) mod 16 =? h
  else if nib =? 8 then true
  else if 14 <=? nib then 224 + k4 * 16 + (h mod 16) mod 16 =? h
  else true.

Lemma rewrite_sweep : forallb rewrite_ok headers = true.
Proof. vm_compute. reflexivity. Qed.

Lemma rewrite_ok_all h : h < 256 -> rewrite_ok h = true.
Proof. intros H. pose proof rewrite_sweep as S. rewrite forallb_forall in S. apply S, in_headers, H. Qed.

(* the header the writer produces for (kind bits, network) is read back as such *)
Definition written_ok (base : N) (nib_lo nib_hi : N) (net : N) (k4 k5 : bool) : bool :=
  let h := base + bit k4 * 16 + bit k5 * 32 + net mod 16 in
  (h <? 256) && (nib_lo <=? h / 16) && (h / 16 <? nib_hi) && (h mod 16 =? net)
  && Bool.eqb (N.testbit h 4) k4 && (if base =? 0 then Bool.eqb (N.testbit h 5) k5 else true).

Definition nets : list N := map N.of_nat (seq 0 16).
Lemma in_nets n : n < 16 -> In n nets.
Proof.
  intros H. unfold nets. apply in_map_iff. exists (N.to_nat n). split; [apply N2Nat.id|].
  apply in_seq. lia.
Qed.

Lemma written_sweep :
  forallb (fun net => forallb (fun k4 => forallb (fun k5 =>
     written_ok 0 0 4 net k4 k5 && written_ok 64 4 6 net k4 false
     && written_ok 96 6 8 net k4 false && written_ok 224 14 16 net k4 false)
     [false; true]) [false; true]) nets = true.
Proof. vm_compute. reflexivity. Qed.

Lemma written_all net k4 k5 : net < 16 ->
  written_ok 0 0 4 net k4 k5 = true /\ written_ok 64 4 6 net k4 false = true /\
  written_ok 96 6 8 net k4 false = true /\ written_ok 224 14 16 net k4 false = true.
Proof.
  intros H. pose proof written_sweep as S. rewrite forallb_forall in S.
  specialize (S _ (in_nets _ H)). rewrite forallb_forall in S.
  assert (I4 : In k4 [false; true]) by (destruct k4; cbn; auto).
  specialize (S _ I4). rewrite forallb_forall in S.
  assert (I5 : In k5 [false; true]) by (destruct k5; cbn; auto).
  specialize (S _ I5). rewrite !andb_true_iff in S. tauto.
Qed.

(* ---------------- list helpers ---------------- *)
Lemma firstn_firstn_skipn {A} (a b : nat) (l : list A) :
  firstn a l ++ firstn b (skipn a l) = firstn (a + b) l.
Proof.
  revert l; induction a as [|a IH]; intros l; [reflexivity|].
  destruct l as [|x t]; [cbn; now rewrite firstn_nil|]. cbn. now rewrite IH.
Qed.

Lemma skipn_app_le {A} (k : nat) (l x : list A) : (k <= length l)%nat -> skipn k (l ++ x) = skipn k l ++ x.
Proof.
  intros H. rewrite skipn_app. replace (k - length l)%nat with 0%nat by lia. reflexivity.
Qed.

Lemma skipn_add {A} (a b : nat) (l : list A) : skipn (a + b) l = skipn b (skipn a l).
Proof.
  revert l; induction a as [|a IH]; intros l; [reflexivity|].
  destruct l as [|x t]; [cbn; now rewrite skipn_nil|]. cbn. apply IH.
Qed.

Lemma skipn_S {A} n (x : A) l : skipn (S n) (x :: l) = skipn n l.
Proof. reflexivity. Qed.

Lemma bytes_eqb_refl a : bytes_eqb a a = true.
Proof. induction a as [|x t IH]; [reflexivity|]. cbn. now rewrite N.eqb_refl, IH. Qed.

Lemma bytes_eqb_eq a : forall b, bytes_eqb a b = true -> a = b.
Proof.
  induction a as [|x t IH]; intros [|y u] H; cbn in H; try discriminate; [reflexivity|].
  apply andb_true_iff in H. destruct H as [H1 H2]. f_equal; [lia|now apply IH].
Qed.

Definition mk_cred (script : bool) (h : bytes) : cred := if script then ScriptHash h else KeyHash h.
Lemma mk_cred_id c : mk_cred (is_script c) (cred_bytes c) = c.
Proof. destruct c; reflexivity. Qed.
Lemma read_cred_mk header data b pos :
  read_cred header data b pos = mk_cred (N.testbit header b) (firstn 28 (skipn pos data)).
Proof. unfold read_cred, mk_cred, hash_len. destruct (N.testbit header b); reflexivity. Qed.
Lemma cred_kind_bit c : cred_kind c = bit (is_script c).
Proof. destruct c; reflexivity. Qed.

(* ---------------- pointers ---------------- *)
Lemma decode_pointer_enc s t c rest : s < two64 -> t < two64 -> c < two64 ->
  decode_pointer (varnat_encode s ++ varnat_encode t ++ varnat_encode c ++ rest) =
  Some (mkPtr s t c, (length (varnat_encode s) + length (varnat_encode t) + length (varnat_encode c))%nat).
Proof.
  intros Hs Ht Hc. unfold decode_pointer.
  rewrite varnat_roundtrip by exact Hs. rewrite skipn_exact.
  rewrite varnat_roundtrip by exact Ht.
  rewrite skipn_add, skipn_exact, skipn_exact.
  rewrite varnat_roundtrip by exact Hc. reflexivity.
Qed.

Lemma decode_pointer_bound d p off : decode_pointer d = Some (p, off) -> (3 <= off <= length d)%nat.
Proof.
  unfold decode_pointer.
  destruct (varnat_decode d) as [[s k1]|] eqn:E1; [|discriminate].
  destruct (varnat_decode (skipn k1 d)) as [[t k2]|] eqn:E2; [|discriminate].
  destruct (varnat_decode (skipn (k1 + k2) d)) as [[c k3]|] eqn:E3; [|discriminate].
  intros H; injection H as _ <-.
  apply varnat_decode_range in E1, E2, E3. rewrite skipn_length in E2, E3. lia.
Qed.

Lemma decode_pointer_app d p off x : decode_pointer d = Some (p, off) ->
  decode_pointer (d ++ x) = Some (p, off).
Proof.
  unfold decode_pointer.
  destruct (varnat_decode d) as [[s k1]|] eqn:E1; [|discriminate].
  destruct (varnat_decode (skipn k1 d)) as [[t k2]|] eqn:E2; [|discriminate].
  destruct (varnat_decode (skipn (k1 + k2) d)) as [[c k3]|] eqn:E3; [|discriminate].
  intros H.
  pose proof (varnat_decode_range _ _ _ E1) as R1. pose proof (varnat_decode_range _ _ _ E2) as R2.
  rewrite skipn_length in R2.
  rewrite (varnat_decode_app _ _ _ x E1).
  rewrite skipn_app_le by lia. rewrite (varnat_decode_app _ _ _ x E2).
  rewrite skipn_app_le by lia. rewrite (varnat_decode_app _ _ _ x E3). exact H.
Qed.

(* ---------------- parsing what the writer wrote, with anything after it ---------------- *)
Definition shelley_kind (a : address) : bool :=
  match a with Base _ _ _ | Ptr _ _ _ | Enterprise _ _ | Reward _ _ => true | _ => false end.

Definition nonempty (l : bytes) : bool := match l with [] => false | _ => true end.

Lemma parse_written ig a junk : wf_address a -> shelley_kind a = true ->
  from_bytes_internal ig (to_bytes a ++ junk) = if negb ig && nonempty junk then Err else Ok a.
Proof.
  intros Hwf Hk. destruct a as [net p s|net p q|net p|net p|b|m]; try discriminate; clear Hk.
  - (* base *)
    destruct Hwf as (Hn & [Lp _] & [Ls _]).
    destruct (written_all net (is_script p) (is_script s) Hn) as (W & _).
    unfold written_ok in W. rewrite !andb_true_iff in W. destruct W as (((((W1 & W2) & W3) & W4) & W5) & W6).
    change (0 =? 0) with true in W6. cbv iota in W6.
    cbn [to_bytes]. rewrite !cred_kind_bit.
    set (h := bit (is_script p) * 16 + bit (is_script s) * 32 + net mod 16) in *.
    replace (0 + bit (is_script p) * 16 + bit (is_script s) * 32 + net mod 16) with h in * by (unfold h; lia).
    cbn [app]. unfold from_bytes_internal.
    destruct (h / 16 <? 4) eqn:E; [|lia].
    cbn [length]. rewrite !app_length, Lp, Ls.
    rewrite !read_cred_mk. rewrite !skipn_S, ?skipn_O.
    rewrite <- !app_assoc.
    replace (firstn 28 (cred_bytes p ++ cred_bytes s ++ junk)) with (cred_bytes p)
      by (rewrite <- Lp at 1; now rewrite firstn_exact).
    replace (skipn 28 (cred_bytes p ++ cred_bytes s ++ junk)) with (cred_bytes s ++ junk)
      by (rewrite <- Lp at 1; now rewrite skipn_exact).
    replace (firstn 28 (cred_bytes s ++ junk)) with (cred_bytes s)
      by (rewrite <- Ls at 1; now rewrite firstn_exact).
    apply eqb_prop in W5. apply eqb_prop in W6. rewrite W5, W6, !mk_cred_id.
    replace (h mod 16) with net by lia.
    destruct (S (28 + (28 + length junk)) <? 57)%nat eqn:E1; [apply Nat.ltb_lt in E1; lia|].
    destruct junk as [|x t]; cbn [length nonempty].
    + rewrite andb_false_r. reflexivity.
    + destruct ig; cbn [negb andb]; [reflexivity|].
      destruct (57 <? S (28 + (28 + S (length t))))%nat eqn:E2; [reflexivity|apply Nat.ltb_ge in E2; lia].
  - (* pointer *)
    destruct Hwf as (Hn & [Lp _] & (Hs & Ht & Hc)).
    destruct (written_all net (is_script p) false Hn) as (_ & W & _).
    unfold written_ok in W. rewrite !andb_true_iff in W. destruct W as (((((W1 & W2) & W3) & W4) & W5) & _).
    cbn [to_bytes]. rewrite !cred_kind_bit. cbn [bit] in W1, W2, W3, W4, W5.
    set (h := 64 + bit (is_script p) * 16 + net mod 16) in *.
    replace (64 + bit (is_script p) * 16 + 0 * 32 + net mod 16) with h in * by (unfold h; lia).
    cbn [app]. unfold from_bytes_internal.
    destruct (h / 16 <? 4) eqn:E; [lia|]. destruct (h / 16 <? 6) eqn:E0; [|lia].
    pose proof (varnat_encode_nonempty (p_slot q)) as N1.
    pose proof (varnat_encode_nonempty (p_tx q)) as N2.
    pose proof (varnat_encode_nonempty (p_cert q)) as N3.
    set (e1 := varnat_encode (p_slot q)) in *. set (e2 := varnat_encode (p_tx q)) in *.
    set (e3 := varnat_encode (p_cert q)) in *.
    assert (L1 : (1 <= length e1)%nat) by (destruct e1; [congruence|cbn; lia]).
    assert (L2 : (1 <= length e2)%nat) by (destruct e2; [congruence|cbn; lia]).
    assert (L3 : (1 <= length e3)%nat) by (destruct e3; [congruence|cbn; lia]).
    cbn [length]. rewrite !app_length, Lp.
    destruct (S (28 + (length e1 + (length e2 + length e3)) + length junk) <? 32)%nat eqn:E1;
      [apply Nat.ltb_lt in E1; lia|].
    rewrite read_cred_mk. rewrite !skipn_S, ?skipn_O. rewrite <- !app_assoc.
    replace (firstn 28 (cred_bytes p ++ e1 ++ e2 ++ e3 ++ junk)) with (cred_bytes p)
      by (rewrite <- Lp at 1; now rewrite firstn_exact).
    replace (skipn 28 (cred_bytes p ++ e1 ++ e2 ++ e3 ++ junk)) with (e1 ++ e2 ++ e3 ++ junk)
      by (rewrite <- Lp at 1; now rewrite skipn_exact).
    unfold e1, e2, e3. rewrite decode_pointer_enc by assumption. fold e1 e2 e3.
    apply eqb_prop in W5. rewrite W5, mk_cred_id. replace (h mod 16) with net by lia.
    destruct q as [sl tx ce]. cbn [p_slot p_tx p_cert] in *.
    destruct junk as [|x t]; cbn [length nonempty].
    + rewrite andb_false_r.
      destruct ((29 + (length e1 + length e2 + length e3) <? S (28 + (length e1 + (length e2 + length e3)) + 0))%nat && negb ig) eqn:E2;
        [|reflexivity].
      apply andb_true_iff in E2. destruct E2 as [E2 _]. apply Nat.ltb_lt in E2. lia.
    + destruct ig; cbn [negb andb]; [now rewrite andb_false_r|]. rewrite andb_true_r.
      destruct (29 + (length e1 + length e2 + length e3) <? S (28 + (length e1 + (length e2 + length e3)) + S (length t)))%nat eqn:E2;
        [reflexivity|apply Nat.ltb_ge in E2; lia].
  - (* enterprise *)
    destruct Hwf as (Hn & [Lp _]).
    destruct (written_all net (is_script p) false Hn) as (_ & _ & W & _).
    unfold written_ok in W. rewrite !andb_true_iff in W. destruct W as (((((W1 & W2) & W3) & W4) & W5) & _).
    cbn [to_bytes]. rewrite !cred_kind_bit. cbn [bit] in W1, W2, W3, W4, W5.
    set (h := 96 + bit (is_script p) * 16 + net mod 16) in *.
    replace (96 + bit (is_script p) * 16 + 0 * 32 + net mod 16) with h in * by (unfold h; lia).
    cbn [app]. unfold from_bytes_internal.
    destruct (h / 16 <? 4) eqn:E; [lia|]. destruct (h / 16 <? 6) eqn:E0; [lia|].
    destruct (h / 16 <? 8) eqn:E3; [|lia].
    cbn [length]. rewrite !app_length, Lp. rewrite read_cred_mk. rewrite !skipn_S, ?skipn_O.
    replace (firstn 28 (cred_bytes p ++ junk)) with (cred_bytes p)
      by (rewrite <- Lp at 1; now rewrite firstn_exact).
    apply eqb_prop in W5. rewrite W5, mk_cred_id. replace (h mod 16) with net by lia.
    destruct (S (28 + length junk) <? 29)%nat eqn:E1; [apply Nat.ltb_lt in E1; lia|].
    destruct junk as [|x t]; cbn [length nonempty].
    + rewrite andb_false_r. reflexivity.
    + destruct ig; cbn [negb andb]; [reflexivity|].
      destruct (29 <? S (28 + S (length t)))%nat eqn:E2; [reflexivity|apply Nat.ltb_ge in E2; lia].
  - (* reward *)
    destruct Hwf as (Hn & [Lp _]).
    destruct (written_all net (is_script p) false Hn) as (_ & _ & _ & W).
    unfold written_ok in W. rewrite !andb_true_iff in W. destruct W as (((((W1 & W2) & W3) & W4) & W5) & _).
    cbn [to_bytes]. rewrite !cred_kind_bit. cbn [bit] in W1, W2, W3, W4, W5.
    set (h := 224 + bit (is_script p) * 16 + net mod 16) in *.
    replace (224 + bit (is_script p) * 16 + 0 * 32 + net mod 16) with h in * by (unfold h; lia).
    cbn [app]. unfold from_bytes_internal.
    destruct (h / 16 <? 4) eqn:E; [lia|]. destruct (h / 16 <? 6) eqn:E0; [lia|].
    destruct (h / 16 <? 8) eqn:E3; [lia|]. destruct (h / 16 =? 8) eqn:E4; [lia|].
    destruct (14 <=? h / 16) eqn:E5; [|lia].
    cbn [length]. rewrite !app_length, Lp. rewrite read_cred_mk. rewrite !skipn_S, ?skipn_O.
    replace (firstn 28 (cred_bytes p ++ junk)) with (cred_bytes p)
      by (rewrite <- Lp at 1; now rewrite firstn_exact).
    apply eqb_prop in W5. rewrite W5, mk_cred_id. replace (h mod 16) with net by lia.
    destruct (S (28 + length junk) <? 29)%nat eqn:E1; [apply Nat.ltb_lt in E1; lia|].
    destruct junk as [|x t]; cbn [length nonempty].
    + rewrite andb_false_r. reflexivity.
    + destruct ig; cbn [negb andb]; [reflexivity|].
      destruct (29 <? S (28 + S (length t)))%nat eqn:E2; [reflexivity|apply Nat.ltb_ge in E2; lia].
Qed.

(* ---------------- Byron addresses inside Address ---------------- *)
Lemma crc32_range bs : crc32 bs < two64.
Proof. pose proof (crc32_bound bs). unfold two32, two64 in *. lia. Qed.

Lemma from_bytes_internal_byron ig tl :
  from_bytes_internal ig (130 :: tl) = lift_byron (byron_from_bytes crc32 (130 :: tl)).
Proof. unfold from_bytes_internal. change (130 / 16) with 8. reflexivity. Qed.

Lemma parse_written_byron ig b : wf_byron b -> from_bytes_internal ig (to_bytes (Byron b)) = Ok (Byron b).
Proof.
  intros Hwf. cbn [to_bytes]. destruct (byron_encode_head crc32 b) as [tl Htl].
  rewrite Htl, from_bytes_internal_byron, <- Htl, (byron_roundtrip crc32 crc32_range b Hwf). reflexivity.
Qed.

Lemma parse_written_byron_trailing ig b x t : wf_byron b ->
  from_bytes_internal ig (to_bytes (Byron b) ++ x :: t) = Err.
Proof.
  intros Hwf. cbn [to_bytes]. destruct (byron_encode_head crc32 b) as [tl Htl].
  pose proof (byron_rejects_trailing crc32 crc32_range b x t Hwf) as R.
  rewrite Htl in *. cbn [app] in *. rewrite from_bytes_internal_byron, R. reflexivity.
Qed.

(* ---------------- C11_shelley_roundtrip / C11_byron_roundtrip at the Address level ------- *)
Theorem address_roundtrip a : wf_address a -> from_bytes (to_bytes a) = Ok a.
Proof.
  intros Hwf. unfold from_bytes. destruct a as [net p s|net p q|net p|net p|b|m] eqn:Ea.
  1-4: rewrite <- (app_nil_r (to_bytes _)); rewrite parse_written by (exact Hwf || reflexivity); reflexivity.
  - apply parse_written_byron, Hwf.
  - destruct Hwf.
Qed.

(* the embedded (lenient) decoder agrees on everything the writer produces *)
Theorem embedded_roundtrip a : wf_address a -> embedded_decode (to_bytes a) = Ok a.
Proof.
  intros Hwf. unfold embedded_decode. destruct a as [net p s|net p q|net p|net p|b|m] eqn:Ea.
  1-4: rewrite <- (app_nil_r (to_bytes _)); rewrite parse_written by (exact Hwf || reflexivity);
       cbn [nonempty]; rewrite andb_false_r; reflexivity.
  - rewrite parse_written_byron by exact Hwf. reflexivity.
  - destruct Hwf.
Qed.

(* network ids above 15 do not fit the header: the round trip is false without the premise *)
Theorem roundtrip_needs_network_below_16 :
  exists a, from_bytes (to_bytes a) <> Ok a /\
            match a with Enterprise n p => 16 <= n < 256 /\ wf_cred p | _ => False end.
Proof.
  exists (Enterprise 17 (KeyHash (repeat 7 28))). split; [vm_compute; discriminate|].
  split; [lia|]. split; [reflexivity|]. repeat constructor.
Qed.

(* ---------------- C11_strict_rejects ---------------- *)
Theorem strict_rejects_trailing a x t : wf_address a -> from_bytes (to_bytes a ++ x :: t) = Err.
Proof.
  intros Hwf. unfold from_bytes. destruct a as [net p s|net p q|net p|net p|b|m] eqn:Ea.
  1-4: rewrite parse_written by (exact Hwf || reflexivity); reflexivity.
  - apply parse_written_byron_trailing, Hwf.
  - destruct Hwf.
Qed.

(* ... while the lenient parser accepts them and forgets them (the known class, in general) *)
Theorem lenient_drops_trailing a junk : wf_address a -> shelley_kind a = true ->
  embedded_decode (to_bytes a ++ junk) = Ok a.
Proof.
  intros Hwf Hk. unfold embedded_decode. rewrite parse_written by assumption. reflexivity.
Qed.

Lemma to_bytes_length a : wf_address a -> shelley_kind a = true ->
  match a with
  | Base _ _ _ => length (to_bytes a) = 57%nat
  | Ptr _ _ q => length (to_bytes a) = (29 + length (varnat_encode (p_slot q) ++ varnat_encode (p_tx q) ++ varnat_encode (p_cert q)))%nat
  | _ => length (to_bytes a) = 29%nat
  end.
Proof.
  intros Hwf Hk. destruct a as [net p s|net p q|net p|net p|b|m]; try discriminate; cbn [to_bytes length].
  - destruct Hwf as (_ & [Lp _] & [Ls _]). rewrite app_length, Lp, Ls. reflexivity.
  - destruct Hwf as (_ & [Lp _] & _). rewrite app_length, Lp. reflexivity.
  - destruct Hwf as (_ & [Lp _]). rewrite Lp. reflexivity.
  - destruct Hwf as (_ & [Lp _]). rewrite Lp. reflexivity.
Qed.

(* a pointer header followed by a payment hash and var-nats that do not decode is refused in
   both modes (unterminated field, field beyond u64, missing field) *)
Lemma pointer_bad_varnat ig h pay d : (h / 16 <? 4) = false -> (h / 16 <? 6) = true ->
  length pay = 28%nat -> decode_pointer d = None -> from_bytes_internal ig (h :: pay ++ d) = Err.
Proof.
  intros E1 E2 Lp Hd. unfold from_bytes_internal. rewrite E1, E2.
  destruct (length (h :: pay ++ d) <? 32)%nat; [reflexivity|].
  rewrite skipn_S. replace (skipn 28 (pay ++ d)) with d by (rewrite <- Lp; now rewrite skipn_exact).
  now rewrite Hd.
Qed.

Theorem strict_rejects_unterminated h pay s t u : (h / 16 <? 4) = false -> (h / 16 <? 6) = true ->
  length pay = 28%nat -> s < two64 -> t < two64 -> Forall (fun b => 128 <= b) u ->
  from_bytes (h :: pay ++ u) = Err /\
  from_bytes (h :: pay ++ varnat_encode s ++ u) = Err /\
  from_bytes (h :: pay ++ varnat_encode s ++ varnat_encode t ++ u) = Err.
Proof.
  intros E1 E2 Lp Hs Ht Hu. unfold from_bytes.
  repeat split; apply pointer_bad_varnat; try assumption; unfold decode_pointer.
  - unfold varnat_decode. now rewrite varnat_unterminated.
  - rewrite varnat_roundtrip by exact Hs. rewrite skipn_exact.
    unfold varnat_decode at 1. now rewrite varnat_unterminated.
  - rewrite varnat_roundtrip by exact Hs. rewrite skipn_exact.
    rewrite varnat_roundtrip by exact Ht. rewrite skipn_add, skipn_exact, skipn_exact.
    unfold varnat_decode. now rewrite varnat_unterminated.
Qed.

(* the value a pointer field decodes to is the value of its groups and is a u64: a field worth
   2^64 or more is never accepted *)
Theorem strict_rejects_overflow d p off : decode_pointer d = Some (p, off) ->
  p_slot p < two64 /\ p_tx p < two64 /\ p_cert p < two64.
Proof.
  unfold decode_pointer.
  destruct (varnat_decode d) as [[s k1]|] eqn:E1; [|discriminate].
  destruct (varnat_decode (skipn k1 d)) as [[t k2]|] eqn:E2; [|discriminate].
  destruct (varnat_decode (skipn (k1 + k2) d)) as [[c k3]|] eqn:E3; [|discriminate].
  intros H; injection H as <- _. cbn.
  apply varnat_decode_range in E1, E2, E3. tauto.
Qed.

(* truncation: every proper prefix of a written Shelley-era address is refused, in both modes *)
Theorem strict_rejects_truncation ig a k : wf_address a -> shelley_kind a = true ->
  (k < length (to_bytes a))%nat -> from_bytes_internal ig (firstn k (to_bytes a)) = Err.
Proof.
  intros Hwf Hk Hlt. pose proof (to_bytes_length a Hwf Hk) as HL.
  destruct k as [|k]; [reflexivity|].
  destruct a as [net p s|net p q|net p|net p|b|m]; try discriminate; clear Hk.
  - (* base *)
    destruct (written_all net (is_script p) (is_script s) (proj1 Hwf)) as (W & _).
    unfold written_ok in W. rewrite !andb_true_iff in W. destruct W as (((((W1 & W2) & W3) & W4) & W5) & W6).
    cbn [to_bytes] in *. rewrite !cred_kind_bit in *.
    set (h := bit (is_script p) * 16 + bit (is_script s) * 32 + net mod 16) in *.
    replace (0 + bit (is_script p) * 16 + bit (is_script s) * 32 + net mod 16) with h in * by (unfold h; lia).
    cbn [firstn]. unfold from_bytes_internal. destruct (h / 16 <? 4) eqn:E; [|lia].
    assert (Hlen : (length (h :: firstn k (cred_bytes p ++ cred_bytes s)) < 57)%nat).
    { cbn [length] in *. rewrite firstn_length. lia. }
    destruct (length (h :: firstn k (cred_bytes p ++ cred_bytes s)) <? 57)%nat eqn:E1; [reflexivity|].
    apply Nat.ltb_ge in E1. lia.
  - (* pointer *)
    destruct Hwf as (Hn & [Lp _] & (Hs & Ht & Hc)).
    destruct (written_all net (is_script p) false Hn) as (_ & W & _).
    unfold written_ok in W. rewrite !andb_true_iff in W. destruct W as (((((W1 & W2) & W3) & W4) & W5) & _).
    cbn [to_bytes] in *. rewrite !cred_kind_bit in *. cbn [bit] in W1, W2, W3, W4, W5.
    set (h := 64 + bit (is_script p) * 16 + net mod 16) in *.
    replace (64 + bit (is_script p) * 16 + 0 * 32 + net mod 16) with h in * by (unfold h; lia).
    set (d := varnat_encode (p_slot q) ++ varnat_encode (p_tx q) ++ varnat_encode (p_cert q)) in *.
    cbn [firstn]. cbn [length] in Hlt, HL.
    destruct (Nat.le_gt_cases k 28) as [Hk|Hk].
    + (* cut inside the hash: too short *)
      unfold from_bytes_internal. destruct (h / 16 <? 4) eqn:E; [lia|]. destruct (h / 16 <? 6) eqn:E0; [|lia].
      destruct (length (h :: firstn k (cred_bytes p ++ d)) <? 32)%nat eqn:E1; [reflexivity|].
      apply Nat.ltb_ge in E1. cbn [length] in E1. rewrite firstn_length in E1. lia.
    + (* cut inside the var-nats *)
      assert (Hsplit : firstn k (cred_bytes p ++ d) = cred_bytes p ++ firstn (k - 28) d).
      { rewrite firstn_app, Lp. rewrite firstn_all2 by lia. reflexivity. }
      rewrite Hsplit. apply pointer_bad_varnat; [lia|lia|exact Lp|].
      destruct (decode_pointer (firstn (k - 28) d)) as [[p' off']|] eqn:Ed; [|reflexivity].
      exfalso. pose proof (decode_pointer_bound _ _ _ Ed) as B. rewrite firstn_length in B.
      pose proof (decode_pointer_app _ _ _ (skipn (k - 28) d) Ed) as A.
      rewrite firstn_skipn in A. unfold d in A.
      rewrite <- (app_nil_r (varnat_encode (p_cert q))) in A. rewrite decode_pointer_enc in A by assumption.
      injection A as _ A. fold d in HL.
      assert (length d = (length (varnat_encode (p_slot q)) + length (varnat_encode (p_tx q)) + length (varnat_encode (p_cert q)))%nat)
        by (unfold d; rewrite !app_length; lia).
      rewrite app_length, Lp in Hlt. lia.
  - (* enterprise *)
    destruct (written_all net (is_script p) false (proj1 Hwf)) as (_ & _ & W & _).
    unfold written_ok in W. rewrite !andb_true_iff in W. destruct W as (((((W1 & W2) & W3) & W4) & W5) & _).
    cbn [to_bytes] in *. rewrite !cred_kind_bit in *. cbn [bit] in W1, W2, W3, W4, W5.
    set (h := 96 + bit (is_script p) * 16 + net mod 16) in *.
    replace (96 + bit (is_script p) * 16 + 0 * 32 + net mod 16) with h in * by (unfold h; lia).
    cbn [firstn]. unfold from_bytes_internal.
    destruct (h / 16 <? 4) eqn:E; [lia|]. destruct (h / 16 <? 6) eqn:E0; [lia|].
    destruct (h / 16 <? 8) eqn:E3; [|lia].
    destruct (length (h :: firstn k (cred_bytes p)) <? 29)%nat eqn:E1; [reflexivity|].
    apply Nat.ltb_ge in E1. cbn [length] in *. rewrite firstn_length in E1. lia.
  - (* reward *)
    destruct (written_all net (is_script p) false (proj1 Hwf)) as (_ & _ & _ & W).
    unfold written_ok in W. rewrite !andb_true_iff in W. destruct W as (((((W1 & W2) & W3) & W4) & W5) & _).
    cbn [to_bytes] in *. rewrite !cred_kind_bit in *. cbn [bit] in W1, W2, W3, W4, W5.
    set (h := 224 + bit (is_script p) * 16 + net mod 16) in *.
    replace (224 + bit (is_script p) * 16 + 0 * 32 + net mod 16) with h in * by (unfold h; lia).
    cbn [firstn]. unfold from_bytes_internal.
    destruct (h / 16 <? 4) eqn:E; [lia|]. destruct (h / 16 <? 6) eqn:E0; [lia|].
    destruct (h / 16 <? 8) eqn:E3; [lia|]. destruct (h / 16 =? 8) eqn:E4; [lia|].
    destruct (14 <=? h / 16) eqn:E5; [|lia].
    destruct (length (h :: firstn k (cred_bytes p)) <? 29)%nat eqn:E1; [reflexivity|].
    apply Nat.ltb_ge in E1. cbn [length] in *. rewrite firstn_length in E1. lia.
Qed.

(* empty input: an error (the repaired behaviour; it was an index panic) *)
Theorem strict_rejects_empty ig : from_bytes_internal ig [] = Err.
Proof. reflexivity. Qed.

(* ---------------- C11_classify ---------------- *)
Lemma is_script_mk b x : is_script (mk_cred b x) = b.
Proof. destruct b; reflexivity. Qed.
Lemma cred_bytes_mk b x : cred_bytes (mk_cred b x) = x.
Proof. destruct b; reflexivity. Qed.
Lemma cred_kind_mk b x : cred_kind (mk_cred b x) = bit b.
Proof. destruct b; reflexivity. Qed.

Lemma cred_ok_read h payload b ps pos : Bool.eqb ps (N.testbit h b) = true ->
  Bool.eqb (is_script (read_cred h (h :: payload) b (S pos))) ps
  && bytes_eqb (cred_bytes (read_cred h (h :: payload) b (S pos))) (firstn 28 (skipn pos payload)) = true.
Proof.
  intros H. apply eqb_prop in H. subst ps. rewrite read_cred_mk, is_script_mk, cred_bytes_mk, skipn_S.
  rewrite eqb_reflx, bytes_eqb_refl. reflexivity.
Qed.

Theorem classify_parsed ig data a : bytes_ok data -> from_bytes_internal ig data = Ok a ->
  agrees_with_header a data = true.
Proof.
  intros Hok H. destruct data as [|h payload]; [discriminate|].
  inversion Hok as [|? ? Hh Hok']; subst.
  pose proof (dispatch_ok_all h Hh) as D. unfold dispatch_ok in D.
  unfold from_bytes_internal in H. unfold agrees_with_header.
  destruct (h / 16 <? 4) eqn:E4.
  { destruct (classify_header h) as [ps ss|ps|ps|ps| |]; cbn [negb andb] in D; try discriminate; try (exfalso; lia).
    rewrite !andb_true_iff in D. destruct D as [D1 D2].
    destruct (length (h :: payload) <? 57)%nat; [discriminate|].
    destruct ((57 <? length (h :: payload))%nat && negb ig); [discriminate|].
    injection H as <-. rewrite N.eqb_refl.
    rewrite (cred_ok_read h payload 4 ps 0 D1), (cred_ok_read h payload 5 ss 28 D2). reflexivity. }
  destruct (h / 16 <? 6) eqn:E6.
  { destruct (classify_header h) as [ps ss|ps|ps|ps| |]; cbn [negb andb] in D; try discriminate; try (exfalso; lia).
    destruct (length (h :: payload) <? 32)%nat; [discriminate|].
    destruct (decode_pointer (skipn 29 (h :: payload))) as [[p off]|]; [|discriminate].
    destruct ((29 + off <? length (h :: payload))%nat && negb ig); [discriminate|].
    injection H as <-. rewrite N.eqb_refl. rewrite (cred_ok_read h payload 4 ps 0 D). reflexivity. }
  destruct (h / 16 <? 8) eqn:E8.
  { destruct (classify_header h) as [ps ss|ps|ps|ps| |]; cbn [negb andb] in D; try discriminate; try (exfalso; lia).
    destruct (length (h :: payload) <? 29)%nat; [discriminate|].
    destruct ((29 <? length (h :: payload))%nat && negb ig); [discriminate|].
    injection H as <-. rewrite N.eqb_refl. rewrite (cred_ok_read h payload 4 ps 0 D). reflexivity. }
  destruct (h / 16 =? 8) eqn:E88.
  { destruct (classify_header h) as [ps ss|ps|ps|ps| |]; cbn [negb andb] in D; try discriminate; try (exfalso; lia).
    destruct (byron_from_bytes crc32 (h :: payload)); try discriminate. injection H as <-. reflexivity. }
  destruct (14 <=? h / 16) eqn:E14; [|discriminate].
  destruct (classify_header h) as [ps ss|ps|ps|ps| |]; cbn [negb andb] in D; try discriminate; try (exfalso; lia).
  destruct (length (h :: payload) <? 29)%nat; [discriminate|].
  destruct ((29 <? length (h :: payload))%nat && negb ig); [discriminate|].
  injection H as <-. rewrite N.eqb_refl. rewrite (cred_ok_read h payload 4 ps 0 D). reflexivity.
Qed.

(* what agreement means for the accessors: kind, network id, payment credential *)
Theorem classify_accessors a h payload : agrees_with_header a (h :: payload) = true ->
  match classify_header h with
  | HBase ps ss => kind a = KBase /\ network_id a = Ok (h mod 16)
                   /\ payment_cred a = Some (mk_cred ps (firstn 28 payload))
                   /\ stake_cred a = Some (mk_cred ss (firstn 28 (skipn 28 payload)))
  | HPointer ps => kind a = KPointer /\ network_id a = Ok (h mod 16)
                   /\ payment_cred a = Some (mk_cred ps (firstn 28 payload))
  | HEnterprise ps => kind a = KEnterprise /\ network_id a = Ok (h mod 16)
                   /\ payment_cred a = Some (mk_cred ps (firstn 28 payload))
  | HReward ps => kind a = KReward /\ network_id a = Ok (h mod 16)
                   /\ payment_cred a = Some (mk_cred ps (firstn 28 payload))
  | HByron => kind a = KByron /\ payment_cred a = None
  | HInvalid => False
  end.
Proof.
  unfold agrees_with_header.
  assert (G : forall c ps pos, Bool.eqb (is_script c) ps = true /\ bytes_eqb (cred_bytes c) (firstn 28 (skipn pos payload)) = true ->
              c = mk_cred ps (firstn 28 (skipn pos payload))).
  { intros c ps pos Hc. destruct Hc as [H1 H2].
    apply eqb_prop in H1. apply bytes_eqb_eq in H2. rewrite <- H1, <- H2. symmetry. apply mk_cred_id. }
  destruct (classify_header h) as [ps ss|ps|ps|ps| |];
    destruct a as [net p s|net p q|net p|net p|b|m]; try discriminate; intros H;
    rewrite ?andb_true_iff in H.
  - destruct H as [[Hn Hp] Hs]. apply G in Hp. apply G in Hs. rewrite skipn_O in Hp.
    cbn. assert (net = h mod 16) by lia. subst. auto.
  - destruct H as [Hn Hp]. apply G in Hp. rewrite skipn_O in Hp. cbn. assert (net = h mod 16) by lia. subst. auto.
  - destruct H as [Hn Hp]. apply G in Hp. rewrite skipn_O in Hp. cbn. assert (net = h mod 16) by lia. subst. auto.
  - destruct H as [Hn Hp]. apply G in Hp. rewrite skipn_O in Hp. cbn. assert (net = h mod 16) by lia. subst. auto.
  - cbn. auto.
Qed.

(* ---------------- C11_embedded_total ---------------- *)
Theorem embedded_total data : known_huge_length data = false -> exists a, embedded_decode data = Ok a.
Proof.
  intros K. unfold embedded_decode.
  destruct (from_bytes_internal true data) as [a| | |] eqn:E; eauto; exfalso.
  - (* Panic *)
    destruct data as [|h t]; [discriminate|]. unfold from_bytes_internal in E. unfold known_huge_length in K.
    destruct (h / 16 <? 4).
    { destruct (length (h :: t) <? 57)%nat; [discriminate|]. destruct ((57 <? length (h :: t))%nat && negb true); discriminate. }
    destruct (h / 16 <? 6).
    { destruct (length (h :: t) <? 32)%nat; [discriminate|].
      destruct (decode_pointer (skipn 29 (h :: t))) as [[p off]|]; [|discriminate].
      destruct ((29 + off <? length (h :: t))%nat && negb true); discriminate. }
    destruct (h / 16 <? 8).
    { destruct (length (h :: t) <? 29)%nat; [discriminate|]. destruct ((29 <? length (h :: t))%nat && negb true); discriminate. }
    destruct (h / 16 =? 8).
    { destruct (byron_from_bytes crc32 (h :: t)); discriminate. }
    destruct (14 <=? h / 16); [|discriminate].
    destruct (length (h :: t) <? 29)%nat; [discriminate|]. destruct ((29 <? length (h :: t))%nat && negb true); discriminate.
  - (* OutOfFuel *)
    destruct data as [|h t]; [discriminate|]. unfold from_bytes_internal in E.
    destruct (h / 16 <? 4).
    { destruct (length (h :: t) <? 57)%nat; [discriminate|]. destruct ((57 <? length (h :: t))%nat && negb true); discriminate. }
    destruct (h / 16 <? 6).
    { destruct (length (h :: t) <? 32)%nat; [discriminate|].
      destruct (decode_pointer (skipn 29 (h :: t))) as [[p off]|]; [|discriminate].
      destruct ((29 + off <? length (h :: t))%nat && negb true); discriminate. }
    destruct (h / 16 <? 8).
    { destruct (length (h :: t) <? 29)%nat; [discriminate|]. destruct ((29 <? length (h :: t))%nat && negb true); discriminate. }
    destruct (h / 16 =? 8).
    { pose proof (byron_from_bytes_total crc32 crc32_range (h :: t)) as T.
      destruct (byron_from_bytes crc32 (h :: t)); try discriminate. congruence. }
    destruct (14 <=? h / 16); [|discriminate].
    destruct (length (h :: t) <? 29)%nat; [discriminate|]. destruct ((29 <? length (h :: t))%nat && negb true); discriminate.
Qed.

(* the strict parser never panics either, outside that class, and never runs out of fuel *)
Theorem strict_total data : known_huge_length data = false ->
  from_bytes data = Err \/ exists a, from_bytes data = Ok a.
Proof.
  intros K. unfold from_bytes. destruct (from_bytes_internal false data) as [a| | |] eqn:E; eauto; exfalso.
  - destruct data as [|h t]; [discriminate|]. unfold from_bytes_internal in E. unfold known_huge_length in K.
    destruct (h / 16 <? 4).
    { destruct (length (h :: t) <? 57)%nat; [discriminate|]. destruct ((57 <? length (h :: t))%nat && negb false); discriminate. }
    destruct (h / 16 <? 6).
    { destruct (length (h :: t) <? 32)%nat; [discriminate|].
      destruct (decode_pointer (skipn 29 (h :: t))) as [[p off]|]; [|discriminate].
      destruct ((29 + off <? length (h :: t))%nat && negb false); discriminate. }
    destruct (h / 16 <? 8).
    { destruct (length (h :: t) <? 29)%nat; [discriminate|]. destruct ((29 <? length (h :: t))%nat && negb false); discriminate. }
    destruct (h / 16 =? 8).
    { destruct (byron_from_bytes crc32 (h :: t)); discriminate. }
    destruct (14 <=? h / 16); [|discriminate].
    destruct (length (h :: t) <? 29)%nat; [discriminate|]. destruct ((29 <? length (h :: t))%nat && negb false); discriminate.
  - destruct data as [|h t]; [discriminate|]. unfold from_bytes_internal in E.
    destruct (h / 16 <? 4).
    { destruct (length (h :: t) <? 57)%nat; [discriminate|]. destruct ((57 <? length (h :: t))%nat && negb false); discriminate. }
    destruct (h / 16 <? 6).
    { destruct (length (h :: t) <? 32)%nat; [discriminate|].
      destruct (decode_pointer (skipn 29 (h :: t))) as [[p off]|]; [|discriminate].
      destruct ((29 + off <? length (h :: t))%nat && negb false); discriminate. }
    destruct (h / 16 <? 8).
    { destruct (length (h :: t) <? 29)%nat; [discriminate|]. destruct ((29 <? length (h :: t))%nat && negb false); discriminate. }
    destruct (h / 16 =? 8).
    { pose proof (byron_from_bytes_total crc32 crc32_range (h :: t)) as T.
      destruct (byron_from_bytes crc32 (h :: t)); try discriminate. congruence. }
    destruct (14 <=? h / 16); [|discriminate].
    destruct (length (h :: t) <? 29)%nat; [discriminate|]. destruct ((29 <? length (h :: t))%nat && negb false); discriminate.
Qed.

(* ---------------- C11_embedded_verbatim ---------------- *)
Lemma bytes_ok_skipn k (l : bytes) : bytes_ok l -> bytes_ok (skipn k l).
Proof.
  unfold bytes_ok. revert l; induction k as [|k IH]; intros l H; [exact H|].
  destruct l as [|x t]; [constructor|]. cbn. apply IH. now inversion H.
Qed.

Theorem embedded_verbatim data a : bytes_ok data ->
  known_trailing data = false -> known_padded_pointer data = false ->
  known_noncanonical_byron data = false ->
  embedded_decode data = Ok a -> to_bytes a = data.
Proof.
  intros Hok KT KP KB H. unfold embedded_decode in H.
  destruct (from_bytes_internal true data) as [a'| | |] eqn:E; try discriminate.
  2:{ injection H as <-. reflexivity. }
  injection H as ->.
  destruct data as [|h payload]; [discriminate|].
  inversion Hok as [|? ? Hh Hok']; subst.
  pose proof (rewrite_ok_all h Hh) as R. unfold rewrite_ok in R.
  unfold from_bytes_internal in E. unfold known_trailing in KT.
  unfold known_padded_pointer in KP. unfold known_noncanonical_byron in KB.
  destruct (h / 16 <? 4) eqn:E4.
  { (* base *)
    destruct (length (h :: payload) <? 57)%nat eqn:L1; [discriminate|].
    rewrite KT in E. cbn [andb] in E. injection E as <-.
    apply Nat.ltb_ge in L1. apply Nat.ltb_ge in KT. cbn [length] in L1, KT.
    cbn [to_bytes]. rewrite !read_cred_mk, !cred_kind_mk, !cred_bytes_mk, !skipn_S, skipn_O.
    f_equal; [lia|]. rewrite firstn_firstn_skipn. apply firstn_all2. lia. }
  destruct (h / 16 <? 6) eqn:E6.
  { (* pointer *)
    destruct (length (h :: payload) <? 32)%nat eqn:L1; [discriminate|].
    apply Nat.ltb_ge in L1.
    assert (L1b : (32 <=? length (h :: payload))%nat = true) by (apply Nat.leb_le; exact L1).
    rewrite L1b in KT, KP.
    assert (E46 : (4 <=? h / 16) = true) by lia. rewrite E46 in KP. cbn [andb] in KP.
    rewrite skipn_S in *. set (d := skipn 28 payload) in *.
    assert (Hd : bytes_ok d) by (apply bytes_ok_skipn; exact Hok').
    destruct (decode_pointer d) as [[p off]|] eqn:Ed; [|discriminate].
    cbn [andb] in KT. apply Nat.ltb_ge in KT.
    pose proof (decode_pointer_bound _ _ _ Ed) as B.
    assert (Ld : length d = (length payload - 28)%nat) by (unfold d; apply skipn_length).
    cbn [length] in KT, L1.
    assert (Hoff : off = length d) by lia.
    rewrite andb_false_r in E. injection E as <-.
    unfold decode_pointer in Ed.
    destruct (varnat_decode d) as [[s k1]|] eqn:V1; [|discriminate].
    destruct (varnat_decode (skipn k1 d)) as [[t k2]|] eqn:V2; [|discriminate].
    destruct (varnat_decode (skipn (k1 + k2) d)) as [[c k3]|] eqn:V3; [|discriminate].
    injection Ed as <- Eoff.
    apply orb_false_iff in KP. destruct KP as [P1 KP].
    apply orb_false_iff in KP. destruct KP as [P2 P3].
    pose proof (varnat_decode_canonical _ _ _ Hd P1 V1) as C1.
    pose proof (varnat_decode_canonical _ _ _ (bytes_ok_skipn k1 _ Hd) P2 V2) as C2.
    pose proof (varnat_decode_canonical _ _ _ (bytes_ok_skipn (k1 + k2) _ Hd) P3 V3) as C3.
    cbn [to_bytes p_slot p_tx p_cert]. rewrite read_cred_mk, cred_kind_mk, cred_bytes_mk, skipn_S, skipn_O.
    f_equal; [lia|]. rewrite C1, C2, C3.
    rewrite (skipn_add k1 k2 d).
    rewrite (firstn_firstn_skipn k2 k3 (skipn k1 d)), (firstn_firstn_skipn k1 (k2 + k3) d).
    replace (k1 + (k2 + k3))%nat with (length d) by lia. rewrite firstn_all.
    unfold d. apply firstn_skipn. }
  destruct (h / 16 <? 8) eqn:E8.
  { (* enterprise *)
    cbn [orb] in KT.
    destruct (length (h :: payload) <? 29)%nat eqn:L1; [discriminate|].
    rewrite KT in E. cbn [andb] in E. injection E as <-.
    apply Nat.ltb_ge in L1. apply Nat.ltb_ge in KT. cbn [length] in L1, KT.
    cbn [to_bytes]. rewrite !read_cred_mk, !cred_kind_mk, !cred_bytes_mk, !skipn_S, skipn_O.
    f_equal; [lia|]. apply firstn_all2. lia. }
  destruct (h / 16 =? 8) eqn:E88.
  { (* byron *)
    destruct (byron_from_bytes crc32 (h :: payload)) as [b| | |]; try discriminate.
    injection E as <-. cbn [to_bytes]. apply negb_false_iff in KB. now apply bytes_eqb_eq. }
  destruct (14 <=? h / 16) eqn:E14; [|discriminate].
  { (* reward *)
    cbn [orb] in KT.
    destruct (length (h :: payload) <? 29)%nat eqn:L1; [discriminate|].
    rewrite KT in E. cbn [andb] in E. injection E as <-.
    apply Nat.ltb_ge in L1. apply Nat.ltb_ge in KT. cbn [length] in L1, KT.
    cbn [to_bytes]. rewrite !read_cred_mk, !cred_kind_mk, !cred_bytes_mk, !skipn_S, skipn_O.
    f_equal; [lia|]. apply firstn_all2. lia. }
Qed.

(* bytes that the lenient parser refuses are kept verbatim as Malformed *)
Theorem embedded_malformed_verbatim data : from_bytes_internal true data = Err ->
  embedded_decode data = Ok (Malformed data) /\ to_bytes (Malformed data) = data.
Proof. intros H. unfold embedded_decode. rewrite H. split; reflexivity. Qed.

(* ---------------- the full-strength statement is false: witnesses of the known classes ------ *)
Definition w_trailing : bytes := 97 :: repeat 7 28 ++ [255].
Definition w_padded : bytes := 65 :: repeat 9 28 ++ [128; 1; 2; 3].
Definition w_byron_inner : bytes := byron_inner (mkByron (repeat 3 28) None None ATPubKey).
(* tag 24 written with a two-byte argument (d9 0018) instead of d8 18 *)
Definition w_byron : bytes :=
  encode_head 4 2 ++ encode_head_w 6 24 2 ++ enc_bytes w_byron_inner ++ enc_uint (crc32 w_byron_inner).
Definition w_huge : bytes := [130; 216; 24; 91; 255; 255; 255; 255; 255; 255; 255; 255; 0].

Definition verbatim_fails (data : bytes) : Prop :=
  bytes_ok data /\ exists a, embedded_decode data = Ok a /\ to_bytes a <> data.

Theorem embedded_verbatim_refuted_trailing : verbatim_fails w_trailing /\ known_trailing w_trailing = true.
Proof.
  split; [|vm_compute; reflexivity]. split; [unfold w_trailing; repeat constructor|].
  eexists. split; [vm_compute; reflexivity|]. vm_compute. discriminate.
Qed.

Theorem embedded_verbatim_refuted_padded : verbatim_fails w_padded /\ known_padded_pointer w_padded = true.
Proof.
  split; [|vm_compute; reflexivity]. split; [unfold w_padded; repeat constructor|].
  eexists. split; [vm_compute; reflexivity|]. vm_compute. discriminate.
Qed.

Lemma w_byron_value : w_byron =
  [130; 217; 0; 24; 88; 33; 131; 88; 28; 3; 3; 3; 3; 3; 3; 3; 3; 3; 3; 3; 3; 3; 3; 3; 3; 3; 3; 3; 3; 3; 3; 3; 3; 3; 3; 3; 3;
   160; 0; 26; 59; 40; 209; 119].
Proof. vm_compute. reflexivity. Qed.

Theorem embedded_verbatim_refuted_byron : verbatim_fails w_byron /\ known_noncanonical_byron w_byron = true.
Proof.
  split; [|vm_compute; reflexivity]. split; [rewrite w_byron_value; repeat constructor|].
  eexists. split; [vm_compute; reflexivity|]. vm_compute. discriminate.
Qed.

Theorem embedded_total_refuted : embedded_decode w_huge = Panic /\ known_huge_length w_huge = true.
Proof. split; vm_compute; reflexivity. Qed.

(* the premises of embedded_verbatim are satisfiable on a decoded (non-malformed) address *)
Example embedded_verbatim_nonvacuous :
  let data := 65 :: repeat 9 28 ++ [129; 0; 2; 3] in
  bytes_ok data /\ known_trailing data = false /\ known_padded_pointer data = false /\
  known_noncanonical_byron data = false /\
  embedded_decode data = Ok (Ptr 1 (KeyHash (repeat 9 28)) (mkPtr 128 2 3)).
Proof. cbv zeta. split; [repeat constructor|]. repeat split; vm_compute; reflexivity. Qed.

(* ================= Byron truncation at the Address level ================= *)
Theorem strict_rejects_truncation_byron ig b k : wf_byron b -> (k < length (to_bytes (Byron b)))%nat ->
  from_bytes_internal ig (firstn k (to_bytes (Byron b))) = Err.
Proof.
  intros Hwf Hk. pose proof (byron_rejects_truncation crc32 crc32_range b k Hwf Hk) as T.
  cbn [to_bytes] in *. destruct (byron_encode_head crc32 b) as [tl Htl]. rewrite Htl in *.
  destruct k as [|k]; [reflexivity|]. cbn [firstn] in *. rewrite from_bytes_internal_byron, T. reflexivity.
Qed.

(* ================= whatever the parser returns is a well-formed address ================= *)
Lemma read_cred_wf h data b pos : bytes_ok data -> (pos + 28 <= length data)%nat -> wf_cred (read_cred h data b pos).
Proof.
  intros Hok Hl. rewrite read_cred_mk. unfold wf_cred. rewrite cred_bytes_mk. split.
  - rewrite firstn_length, skipn_length. lia.
  - apply bytes_ok_firstn, bytes_ok_skipn, Hok.
Qed.

Theorem parsed_wf ig data a : bytes_ok data -> N.of_nat (length data) < 4611686018427387904 ->
  from_bytes_internal ig data = Ok a -> wf_address a.
Proof.
  intros Hok HL H. destruct data as [|h t]; [discriminate|]. unfold from_bytes_internal in H.
  assert (Hnet : h mod 16 < 16) by (apply N.mod_lt; lia).
  destruct (h / 16 <? 4).
  { destruct (length (h :: t) <? 57)%nat eqn:L; [discriminate|]. apply Nat.ltb_ge in L.
    destruct ((57 <? length (h :: t))%nat && negb ig); [discriminate|]. injection H as <-.
    repeat split; auto; apply read_cred_wf; auto; lia. }
  destruct (h / 16 <? 6).
  { destruct (length (h :: t) <? 32)%nat eqn:L; [discriminate|]. apply Nat.ltb_ge in L.
    destruct (decode_pointer (skipn 29 (h :: t))) as [[p off]|] eqn:Ed; [|discriminate].
    destruct ((29 + off <? length (h :: t))%nat && negb ig); [discriminate|]. injection H as <-.
    split; [exact Hnet|]. split; [apply read_cred_wf; auto; lia|]. exact (strict_rejects_overflow _ _ _ Ed). }
  destruct (h / 16 <? 8).
  { destruct (length (h :: t) <? 29)%nat eqn:L; [discriminate|]. apply Nat.ltb_ge in L.
    destruct ((29 <? length (h :: t))%nat && negb ig); [discriminate|]. injection H as <-.
    split; [exact Hnet|]. apply read_cred_wf; auto; lia. }
  destruct (h / 16 =? 8).
  { destruct (byron_from_bytes crc32 (h :: t)) as [b| | |] eqn:E; try discriminate. injection H as <-.
    exact (byron_from_bytes_wf crc32 _ b Hok HL E). }
  destruct (14 <=? h / 16); [|discriminate].
  destruct (length (h :: t) <? 29)%nat eqn:L; [discriminate|]. apply Nat.ltb_ge in L.
  destruct ((29 <? length (h :: t))%nat && negb ig); [discriminate|]. injection H as <-.
  split; [exact Hnet|]. apply read_cred_wf; auto; lia.
Qed.

(* so the strict parser is idempotent through the writer: parse, write, parse again = the same value *)
Theorem reparse_same ig data a : bytes_ok data -> N.of_nat (length data) < 4611686018427387904 ->
  from_bytes_internal ig data = Ok a -> from_bytes (to_bytes a) = Ok a.
Proof. intros Hok HL H. apply address_roundtrip. eapply parsed_wf; eassumption. Qed.
