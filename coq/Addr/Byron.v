(* Legacy (Byron) addresses: CBOR-in-CBOR with tag 24 and a CRC-32.
   Mirrors rust/src/legacy_address/cbor.rs:9-53 (encode_with_crc32_ / raw_with_crc32),
   rust/src/legacy_address/address.rs:44-164 (ByronAddressType, Attributes), :340-382 (ExtendedAddr
   TryFrom / Serialize / Deserialize) and rust/src/protocol_types/address.rs:163-264 (ByronAddress:
   to_bytes, from_bytes, byron_protocol_magic, network_id, from_base58 / to_base58).
   The reader primitives mirror what cbor_event 2.4.0's Deserializer does for the calls used there
   (array / map / tag / unsigned_integer / bytes incl. indefinite chunks / tuple / u32).
   Model definitions only; proofs are in ByronProofs.v. *)
From CSL Require Import Base.Prelude Cbor.Head Addr.Crc32.
Local Open Scope N_scope.

Inductive byron_type := ATPubKey | ATScript | ATRedeem.

Record byron_addr := mkByron {
  b_addr : bytes;                 (* [u8; 28] *)
  b_dpath : option bytes;         (* Attributes.derivation_path *)
  b_magic : option N;             (* Attributes.protocol_magic : Option<u32> *)
  b_type : byron_type }.

Definition two63 : N := 9223372036854775808.

(* ---------------- writer ---------------- *)
Definition enc_uint (n : N) : bytes := encode_head 0 n.
Definition enc_bytes (b : bytes) : bytes := encode_head 2 (N.of_nat (length b)) ++ b.
Definition byron_type_code (t : byron_type) : N :=
  match t with ATPubKey => 0 | ATScript => 1 | ATRedeem => 2 end.

(* Attributes::serialize: map of 0..2 entries; key 1 = derivation path (bytes), key 2 = protocol
   magic (an unsigned integer, CBOR-encoded, wrapped in bytes) *)
Definition enc_attrs (dp : option bytes) (pm : option N) : bytes :=
  let len := (match dp with Some _ => 1 | None => 0 end) + (match pm with Some _ => 1 | None => 0 end) in
  encode_head 5 len
  ++ (match dp with Some d => enc_uint 1 ++ enc_bytes d | None => [] end)
  ++ (match pm with Some m => enc_uint 2 ++ enc_bytes (enc_uint m) | None => [] end).

(* the tuple (addr bytes, attributes, addr_type) *)
Definition byron_inner (a : byron_addr) : bytes :=
  encode_head 4 3 ++ enc_bytes (b_addr a) ++ enc_attrs (b_dpath a) (b_magic a)
  ++ enc_uint (byron_type_code (b_type a)).

Section WithCrc.
  (* the checksum function: [Crc32.crc32] when the model runs; any function in the proofs *)
  Variable crc : bytes -> N.

  (* encode_with_crc32_: [tag 24 bytes(inner), crc32(inner)] *)
  Definition byron_encode (a : byron_addr) : bytes :=
    let inner := byron_inner a in
    encode_head 4 2 ++ encode_head 6 24 ++ enc_bytes inner ++ enc_uint (crc inner).

  (* ---------------- reader primitives (cbor_event) ---------------- *)
  (* array() / map(): the major type must match; any width; indefinite allowed *)
  Definition rd_len (major : N) (bs : bytes) : result (harg * bytes) :=
    match decode_head bs with
    | Some (m, a, r) => if m =? major then Ok (a, r) else Err
    | None => Err
    end.
  (* unsigned_integer() / tag(): definite argument only *)
  Definition rd_arg (major : N) (bs : bytes) : result (N * bytes) :=
    match decode_head bs with
    | Some (m, Arg n, r) => if m =? major then Ok (n, r) else Err
    | _ => Err
    end.

  (* chunks of an indefinite byte string: every chunk a definite byte string, terminated by the
     break byte 0xff; any other "special" byte is an error.  A chunk that declares more bytes than
     remain is read short ([take(len).read_to_end]) and the next iteration fails on the empty
     buffer, hence Err.  Every round consumes at least one byte: fuel = S (length bs). *)
  Fixpoint rd_chunks (fuel : nat) (bs acc : bytes) : result (bytes * bytes) :=
    match fuel with
    | O => OutOfFuel
    | S f =>
      match bs with
      | [] => Err
      | b :: r =>
        if b / 32 =? 7 then (if b mod 32 =? 31 then Ok (acc, r) else Err)
        else match decode_head bs with
             | Some (m, Arg n, r') =>
                 if m =? 2 then
                   if N.of_nat (length r') <? n then Err
                   else rd_chunks f (skipn (N.to_nat n) r') (acc ++ firstn (N.to_nat n) r')
                 else Err
             | _ => Err
             end
      end
    end.

  (* bytes(): definite = [vec![0; len]] then [read_exact]: a declared length of 2^63 or more
     panics with "capacity overflow" before anything is read; a length beyond the input is an
     error (allocation failure for lengths the allocator refuses is not modelled) *)
  Definition rd_bytes (bs : bytes) : result (bytes * bytes) :=
    match decode_head bs with
    | Some (m, Arg n, r) =>
        if m =? 2 then
          if N.of_nat (length r) <? n then (if two63 <=? n then Panic else Err)
          else Ok (firstn (N.to_nat n) r, skipn (N.to_nat n) r)
        else Err
    | Some (m, Indef, r) => if m =? 2 then rd_chunks (S (length r)) r [] else Err
    | None => Err
    end.

  (* ---------------- Attributes::deserialize ---------------- *)
  (* definite map only; [while len > 0]: key 1 -> bytes, key 2 -> bytes holding a CBOR u32 (what
     follows the integer inside those bytes is ignored); any other key is an error; repeated keys
     overwrite.  Every round consumes at least one byte: fuel = S (length bs). *)
  Fixpoint attrs_loop (fuel : nat) (n : N) (bs : bytes) (dp : option bytes) (pm : option N)
    : result (option bytes * option N * bytes) :=
    if n =? 0 then Ok (dp, pm, bs) else
    match fuel with
    | O => OutOfFuel
    | S f =>
      let* '(key, r1) := rd_arg 0 bs in
      if key =? 1 then
        let* '(v, r2) := rd_bytes r1 in attrs_loop f (n - 1) r2 (Some v) pm
      else if key =? 2 then
        let* '(v, r2) := rd_bytes r1 in
        let* '(magic, _) := rd_arg 0 v in
        if magic <? two32 then attrs_loop f (n - 1) r2 dp (Some magic) else Err
      else Err
    end.

  Definition rd_attrs (bs : bytes) : result (option bytes * option N * bytes) :=
    let* '(len, r) := rd_len 5 bs in
    match len with
    | Indef => Err
    | Arg n => attrs_loop (S (length r)) n r None None
    end.

  Definition byron_type_of (v : N) : option byron_type :=
    if v =? 0 then Some ATPubKey else if v =? 1 then Some ATScript
    else if v =? 2 then Some ATRedeem else None.

  (* ExtendedAddr::deserialize, second half: the tuple inside the tag-24 bytes
     (nothing checks that those bytes are used up) *)
  Definition byron_decode_inner (inner : bytes) : result byron_addr :=
    let* '(len, i1) := rd_len 4 inner in
    match len with
    | Arg 3 =>
        let* '(addr, i2) := rd_bytes i1 in
        if (length addr =? 28)%nat then
          let* '(dp, pm, i3) := rd_attrs i2 in
          let* '(ty, _) := rd_arg 0 i3 in
          match byron_type_of ty with
          | Some t => Ok (mkByron addr dp pm t)
          | None => Err
          end
        else Err
    | _ => Err
    end.

  (* raw_with_crc32 + ExtendedAddr::deserialize; returns the address and the unread rest.
     The array length check is the repaired one (an error; it was an assert!). *)
  Definition byron_decode_prefix (bs : bytes) : result (byron_addr * bytes) :=
    let* '(len, r1) := rd_len 4 bs in
    match len with
    | Arg 2 =>
        let* '(tag, r2) := rd_arg 6 r1 in
        if tag =? 24 then
          let* '(inner, r3) := rd_bytes r2 in
          let* '(c, r4) := rd_arg 0 r3 in
          if c =? crc inner then
            let* a := byron_decode_inner inner in Ok (a, r4)
          else Err
        else Err
    | _ => Err
    end.

  (* ByronAddress::from_bytes and ExtendedAddr::try_from(&[u8]) (used by from_base58):
     the repaired ones use deserialize_complete, i.e. refuse trailing bytes *)
  Definition byron_from_bytes (bs : bytes) : result byron_addr :=
    let* '(a, rest) := byron_decode_prefix bs in
    match rest with [] => Ok a | _ => Err end.
End WithCrc.

(* ---------------- accessors ---------------- *)
Definition mainnet_magic : N := 764824073.
(* byron_protocol_magic: the embedded magic, mainnet's when absent *)
Definition byron_protocol_magic (a : byron_addr) : N :=
  match b_magic a with Some m => m | None => mainnet_magic end.
(* network_id: mainnet magic -> 1, preprod (1) and preview (2) -> 0, anything else is an error *)
Definition byron_network_id (a : byron_addr) : result N :=
  let m := byron_protocol_magic a in
  if m =? mainnet_magic then Ok 1 else if m =? 1 then Ok 0 else if m =? 2 then Ok 0 else Err.

(* what a ByronAddress value can hold *)
Definition wf_byron (a : byron_addr) : Prop :=
  length (b_addr a) = 28%nat /\ bytes_ok (b_addr a) /\
  (match b_dpath a with Some d => bytes_ok d /\ N.of_nat (length d) < 4611686018427387904 | None => True end) /\
  (match b_magic a with Some m => m < two32 | None => True end).
