(* The specification used by the judge agrees with the model of the strict parser. *)
From CSL Require Import Base.Prelude Cbor.Head Addr.VarNat Addr.VarNatProofs Addr.Crc32 Addr.Byron Addr.Base58 Addr.Base58Proofs
  Addr.Shelley Addr.ShelleyProofs Addr.Bech32Iface Addr.Check.
Local Open Scope N_scope.

(* the strict parser accepts exactly the byte strings the header table + exact lengths allow *)
Theorem strict_accepts_iff data : bytes_ok data -> is_ok (from_bytes data) = spec_strict_ok data.
Proof.
  intros Hok. destruct data as [|h payload]; [reflexivity|].
  inversion Hok as [|? ? Hh Hok']; subst.
  pose proof (dispatch_ok_all h Hh) as D. unfold dispatch_ok in D.
  unfold from_bytes, from_bytes_internal, spec_strict_ok.
  destruct (h / 16 <? 4) eqn:E4.
  { destruct (classify_header h) as [ps ss|ps|ps|ps| |]; cbn [negb andb] in D; try discriminate; try (exfalso; lia).
    destruct (length (h :: payload) <? 57)%nat eqn:L1.
    - apply Nat.ltb_lt in L1. destruct (length (h :: payload) =? 57)%nat eqn:L2; [apply Nat.eqb_eq in L2; lia|reflexivity].
    - apply Nat.ltb_ge in L1. rewrite andb_true_r.
      destruct (57 <? length (h :: payload))%nat eqn:L3.
      + apply Nat.ltb_lt in L3. destruct (length (h :: payload) =? 57)%nat eqn:L2; [apply Nat.eqb_eq in L2; lia|reflexivity].
      + apply Nat.ltb_ge in L3. destruct (length (h :: payload) =? 57)%nat eqn:L2; [reflexivity|apply Nat.eqb_neq in L2; lia]. }
  destruct (h / 16 <? 6) eqn:E6.
  { destruct (classify_header h) as [ps ss|ps|ps|ps| |]; cbn [negb andb] in D; try discriminate; try (exfalso; lia).
    destruct (decode_pointer (skipn 29 (h :: payload))) as [[p off]|] eqn:Ed.
    - pose proof (decode_pointer_bound _ _ _ Ed) as B. rewrite skipn_length in B.
      destruct (length (h :: payload) <? 32)%nat eqn:L1; [apply Nat.ltb_lt in L1; lia|].
      rewrite andb_true_r.
      destruct (29 + off <? length (h :: payload))%nat eqn:L3.
      + apply Nat.ltb_lt in L3. destruct (29 + off =? length (h :: payload))%nat eqn:L2; [apply Nat.eqb_eq in L2; lia|reflexivity].
      + apply Nat.ltb_ge in L3. destruct (29 + off =? length (h :: payload))%nat eqn:L2; [reflexivity|apply Nat.eqb_neq in L2; lia].
    - destruct (length (h :: payload) <? 32)%nat; reflexivity. }
  destruct (h / 16 <? 8) eqn:E8.
  { destruct (classify_header h) as [ps ss|ps|ps|ps| |]; cbn [negb andb] in D; try discriminate; try (exfalso; lia).
    destruct (length (h :: payload) <? 29)%nat eqn:L1.
    - apply Nat.ltb_lt in L1. destruct (length (h :: payload) =? 29)%nat eqn:L2; [apply Nat.eqb_eq in L2; lia|reflexivity].
    - apply Nat.ltb_ge in L1. rewrite andb_true_r.
      destruct (29 <? length (h :: payload))%nat eqn:L3.
      + apply Nat.ltb_lt in L3. destruct (length (h :: payload) =? 29)%nat eqn:L2; [apply Nat.eqb_eq in L2; lia|reflexivity].
      + apply Nat.ltb_ge in L3. destruct (length (h :: payload) =? 29)%nat eqn:L2; [reflexivity|apply Nat.eqb_neq in L2; lia]. }
  destruct (h / 16 =? 8) eqn:E88.
  { destruct (classify_header h) as [ps ss|ps|ps|ps| |]; cbn [negb andb] in D; try discriminate; try (exfalso; lia).
    destruct (byron_from_bytes crc32 (h :: payload)); reflexivity. }
  destruct (14 <=? h / 16) eqn:E14.
  { destruct (classify_header h) as [ps ss|ps|ps|ps| |]; cbn [negb andb] in D; try discriminate; try (exfalso; lia).
    destruct (length (h :: payload) <? 29)%nat eqn:L1.
    - apply Nat.ltb_lt in L1. destruct (length (h :: payload) =? 29)%nat eqn:L2; [apply Nat.eqb_eq in L2; lia|reflexivity].
    - apply Nat.ltb_ge in L1. rewrite andb_true_r.
      destruct (29 <? length (h :: payload))%nat eqn:L3.
      + apply Nat.ltb_lt in L3. destruct (length (h :: payload) =? 29)%nat eqn:L2; [apply Nat.eqb_eq in L2; lia|reflexivity].
      + apply Nat.ltb_ge in L3. destruct (length (h :: payload) =? 29)%nat eqn:L2; [reflexivity|apply Nat.eqb_neq in L2; lia]. }
  destruct (classify_header h) as [ps ss|ps|ps|ps| |]; cbn [negb andb] in D; try discriminate; try (exfalso; lia).
  reflexivity.
Qed.

(* the judge accepts what the model observes for the Base58 codec, for every non-empty input *)
Theorem judge_b58_accepts_model bs : bytes_ok bs -> bs <> [] -> judge_b58 bs (snd (model_b58 bs)) = Holds.
Proof.
  intros Hok Hne. unfold judge_b58, model_b58. cbn [snd].
  rewrite base58_roundtrip by assumption. destruct bs; [congruence|].
  cbn [res_eqb]. now rewrite bytes_eqb_refl.
Qed.
