(* The specification used by the judge agrees with the model of the strict parser. *)
From CSL Require Import Base.Prelude Cbor.Head Addr.VarNat Addr.VarNatProofs Addr.Crc32 Addr.Byron Addr.Base58 Addr.Base58Proofs
  Addr.Shelley Addr.ShelleyProofs Addr.Bech32Iface Addr.TextProofs Addr.Check.
Local Open Scope N_scope.

(* the strict parser accepts exactly the byte strings the header table + exact lengths allow *)
Theorem strict_accepts_iff data : bytes_ok data -> is_ok (from_bytes data) = spec_strict_ok data.
Proof.
  intros Hok. destruct data as [|h payload]; [reflexivity|].
  inversion Hok as [|? ? Hh Hok']; subst.
  pose proof (dispatch_ok_all h Hh) as D. unfold dispatch_ok in D.
  unfold from_bytes, from_bytes_internal, spec_strict_ok.
  destruct (h / 16 <? 4) eqn:E4.
  { destruct (classify_header h) as [ps ss|ps|ps|ps| |]; cbn [negb andb] in D; try discriminate; try (exfalso; lia).
    destruct (length (h :: payload) <? 57)%nat eqn:L1.
    - apply Nat.ltb_lt in L1. destruct (length (h :: payload) =? 57)%nat eqn:L2; [apply Nat.eqb_eq in L2; lia|reflexivity].
    - apply Nat.ltb_ge in L1. rewrite andb_true_r.
      destruct (57 <? length (h :: payload))%nat eqn:L3.
      + apply Nat.ltb_lt in L3. destruct (length (h :: payload) =? 57)%nat eqn:L2; [apply Nat.eqb_eq in L2; lia|reflexivity].
      + apply Nat.ltb_ge in L3. destruct (length (h :: payload) =? 57)%nat eqn:L2; [reflexivity|apply Nat.eqb_neq in L2; lia]. }
  destruct (h / 16 <? 6) eqn:E6.
  { destruct (classify_header h) as [ps ss|ps|ps|ps| |]; cbn [negb andb] in D; try discriminate; try (exfalso; lia).
    destruct (decode_pointer (skipn 29 (h :: payload))) as [[p off]|] eqn:Ed.
    - pose proof (decode_pointer_bound _ _ _ Ed) as B. rewrite skipn_length in B.
      destruct (length (h :: payload) <? 32)%nat eqn:L1; [apply Nat.ltb_lt in L1; lia|].
      rewrite andb_true_r.
      destruct (29 + off <? length (h :: payload))%nat eqn:L3.
      + apply Nat.ltb_lt in L3. destruct (29 + off =? length (h :: payload))%nat eqn:L2; [apply Nat.eqb_eq in L2; lia|reflexivity].
      + apply Nat.ltb_ge in L3. destruct (29 + off =? length (h :: payload))%nat eqn:L2; [reflexivity|apply Nat.eqb_neq in L2; lia].
    - destruct (length (h :: payload) <? 32)%nat; reflexivity. }
  destruct (h / 16 <? 8) eqn:E8.
  { destruct (classify_header h) as [ps ss|ps|ps|ps| |]; cbn [negb andb] in D; try discriminate; try (exfalso; lia).
    destruct (length (h :: payload) <? 29)%nat eqn:L1.
    - apply Nat.ltb_lt in L1. destruct (length (h :: payload) =? 29)%nat eqn:L2; [apply Nat.eqb_eq in L2; lia|reflexivity].
    - apply Nat.ltb_ge in L1. rewrite andb_true_r.
      destruct (29 <? length (h :: payload))%nat eqn:L3.
      + apply Nat.ltb_lt in L3. destruct (length (h :: payload) =? 29)%nat eqn:L2; [apply Nat.eqb_eq in L2; lia|reflexivity].
      + apply Nat.ltb_ge in L3. destruct (length (h :: payload) =? 29)%nat eqn:L2; [reflexivity|apply Nat.eqb_neq in L2; lia]. }
  destruct (h / 16 =? 8) eqn:E88.
  { destruct (classify_header h) as [ps ss|ps|ps|ps| |]; cbn [negb andb] in D; try discriminate; try (exfalso; lia).
    destruct (byron_from_bytes crc32 (h :: payload)); reflexivity. }
  destruct (14 <=? h / 16) eqn:E14.
  { destruct (classify_header h) as [ps ss|ps|ps|ps| |]; cbn [negb andb] in D; try discriminate; try (exfalso; lia).
    destruct (length (h :: payload) <? 29)%nat eqn:L1.
    - apply Nat.ltb_lt in L1. destruct (length (h :: payload) =? 29)%nat eqn:L2; [apply Nat.eqb_eq in L2; lia|reflexivity].
    - apply Nat.ltb_ge in L1. rewrite andb_true_r.
      destruct (29 <? length (h :: payload))%nat eqn:L3.
      + apply Nat.ltb_lt in L3. destruct (length (h :: payload) =? 29)%nat eqn:L2; [apply Nat.eqb_eq in L2; lia|reflexivity].
      + apply Nat.ltb_ge in L3. destruct (length (h :: payload) =? 29)%nat eqn:L2; [reflexivity|apply Nat.eqb_neq in L2; lia]. }
  destruct (classify_header h) as [ps ss|ps|ps|ps| |]; cbn [negb andb] in D; try discriminate; try (exfalso; lia).
  reflexivity.
Qed.

(* the judge accepts what the model observes for the Base58 codec, for every non-empty input *)
Theorem judge_b58_accepts_model bs : bytes_ok bs -> bs <> [] -> judge_b58 bs (snd (model_b58 bs)) = Holds.
Proof.
  intros Hok Hne. unfold judge_b58, model_b58. cbn [snd].
  rewrite base58_roundtrip by assumption. destruct bs; [congruence|].
  cbn [res_eqb]. now rewrite bytes_eqb_refl.
Qed.

(* ================= the judge accepts what the model observes (case `dec`) ================= *)
Lemma cred_eqb_refl c : cred_eqb c c = true.
Proof. destruct c; cbn; apply bytes_eqb_refl. Qed.
Lemma opt_eqb_refl {A} (eqb : A -> A -> bool) (H : forall x, eqb x x = true) o : opt_eqb eqb o o = true.
Proof. destruct o; cbn; auto. Qed.
Lemma res_eqb_refl {A} (eqb : A -> A -> bool) (H : forall x, eqb x x = true) r : res_eqb eqb r r = true.
Proof. destruct r; cbn; auto. Qed.
Lemma byron_eqb_refl b : byron_eqb b b = true.
Proof.
  unfold byron_eqb, byron_type_eqb. rewrite bytes_eqb_refl, N.eqb_refl.
  rewrite (opt_eqb_refl bytes_eqb bytes_eqb_refl), (opt_eqb_refl N.eqb N.eqb_refl). reflexivity.
Qed.
Lemma address_eqb_refl a : address_eqb a a = true.
Proof.
  destruct a as [n p s|n p q|n p|n p|b|m]; cbn [address_eqb];
    rewrite ?N.eqb_refl, ?cred_eqb_refl, ?bytes_eqb_refl; try reflexivity. apply byron_eqb_refl.
Qed.

Lemma acc_agrees_of_header a data : agrees_with_header a data = true -> acc_agrees (accessors a) data = true.
Proof.
  intros H. destruct data as [|h payload]; [discriminate|].
  pose proof (classify_accessors a h payload H) as C. unfold acc_agrees, accessors. cbn [a_kind a_net a_pay].
  destruct (classify_header h) as [ps ss|ps|ps|ps| |].
  - destruct C as (K & Nn & P & _). rewrite K, Nn, P. cbn [res_eqb opt_eqb kind_code].
    rewrite !N.eqb_refl. change (cred_of ps (firstn 28 payload)) with (mk_cred ps (firstn 28 payload)).
    now rewrite cred_eqb_refl.
  - destruct C as (K & Nn & P). rewrite K, Nn, P. cbn [res_eqb opt_eqb kind_code].
    rewrite !N.eqb_refl. change (cred_of ps (firstn 28 payload)) with (mk_cred ps (firstn 28 payload)).
    now rewrite cred_eqb_refl.
  - destruct C as (K & Nn & P). rewrite K, Nn, P. cbn [res_eqb opt_eqb kind_code].
    rewrite !N.eqb_refl. change (cred_of ps (firstn 28 payload)) with (mk_cred ps (firstn 28 payload)).
    now rewrite cred_eqb_refl.
  - destruct C as (K & Nn & P). rewrite K, Nn, P. cbn [res_eqb opt_eqb kind_code].
    rewrite !N.eqb_refl. change (cred_of ps (firstn 28 payload)) with (mk_cred ps (firstn 28 payload)).
    now rewrite cred_eqb_refl.
  - destruct C as (K & P). rewrite K, P. reflexivity.
  - destruct C.
Qed.

(* the only failures the judge can report on the model's own observations are the known classes *)
Definition known_only (v : verdict) : Prop := v = Holds \/ exists c, c <> 0 /\ v = Fails c.

Lemma combine_known a b : known_only a -> known_only b -> known_only (combine a b).
Proof.
  intros [->|(c & Hc & ->)] [->|(d & Hd & ->)]; cbn [combine].
  - now left.
  - right; eauto.
  - right; eauto.
  - destruct (c =? 0) eqn:E; [lia|]. destruct (d =? 0) eqn:E2; [lia|]. right; eauto.
Qed.

Theorem judge_dec_accepts_model data : bytes_ok data -> N.of_nat (length data) < 4611686018427387904 ->
  known_only (judge_dec data (model_dec data)).
Proof.
  intros Hok HL. unfold judge_dec. apply combine_known.
  - (* strict half *)
    unfold judge_dec_strict, model_dec. cbn [d_strict d_acc d_reparsed d_reward d_hex].
    rewrite (res_eqb_refl address_eqb address_eqb_refl). cbn [negb].
    pose proof (strict_accepts_iff data Hok) as Hspec.
    destruct (from_bytes data) as [a| | |] eqn:S.
    + left. cbn [is_ok] in Hspec. rewrite <- Hspec.
      rewrite (classify_parsed false data a Hok S).
      rewrite (acc_agrees_of_header a data (classify_parsed false data a Hok S)).
      rewrite (res_eqb_refl N.eqb N.eqb_refl).
      rewrite (reparse_same false data a Hok HL S), (res_eqb_refl address_eqb address_eqb_refl).
      unfold reward_address_decode. rewrite S.
      destruct a; cbn [andb]; rewrite ?(res_eqb_refl address_eqb address_eqb_refl); reflexivity.
    + left. cbn [is_ok] in Hspec. rewrite <- Hspec. unfold reward_address_decode. rewrite S. reflexivity.
    + right. exists cls_huge. split; [discriminate|]. unfold panic_class.
      destruct (known_huge_length data) eqn:K; [reflexivity|].
      destruct (strict_total data K) as [E|[a E]]; congruence.
    + right. exists cls_huge. split; [discriminate|]. unfold panic_class.
      destruct (known_huge_length data) eqn:K; [reflexivity|].
      destruct (strict_total data K) as [E|[a E]]; congruence.
  - (* embedded half *)
    unfold judge_dec_embedded, model_dec. cbn [d_embedded d_emb_bytes].
    destruct (embedded_decode data) as [a| | |] eqn:E.
    + destruct (bytes_eqb (to_bytes a) data) eqn:B; [now left|]. right.
      exists (lenient_class data). split; [|reflexivity]. unfold lenient_class.
      destruct (known_trailing data) eqn:K1; [discriminate|].
      destruct (known_padded_pointer data) eqn:K2; [discriminate|].
      destruct (known_noncanonical_byron data) eqn:K3; [discriminate|].
      rewrite (embedded_verbatim data a Hok K1 K2 K3 E), bytes_eqb_refl in B. discriminate.
    + exfalso. unfold embedded_decode in E. destruct (from_bytes_internal true data); discriminate.
    + right. exists cls_huge. split; [discriminate|]. unfold panic_class.
      destruct (known_huge_length data) eqn:K; [reflexivity|].
      destruct (embedded_total data K) as [a Ea]. congruence.
    + right. exists cls_huge. split; [discriminate|]. unfold panic_class.
      destruct (known_huge_length data) eqn:K; [reflexivity|].
      destruct (embedded_total data K) as [a Ea]. congruence.
Qed.

(* and on what the writer produced the judge simply says Holds *)
Theorem judge_dec_holds_on_written a : wf_address a -> N.of_nat (length (to_bytes a)) < 4611686018427387904 ->
  judge_dec (to_bytes a) (model_dec (to_bytes a)) = Holds.
Proof.
  intros Hwf HL. pose proof (to_bytes_ok a Hwf) as Hok.
  destruct (judge_dec_accepts_model _ Hok HL) as [H|(c & Hc & H)]; [exact H|exfalso].
  unfold judge_dec in H.
  assert (HS : judge_dec_strict (to_bytes a) (model_dec (to_bytes a)) = Holds).
  { unfold judge_dec_strict, model_dec. cbn [d_strict d_acc d_reparsed d_reward d_hex].
    rewrite (res_eqb_refl address_eqb address_eqb_refl). cbn [negb].
    pose proof (address_roundtrip a Hwf) as S. pose proof (strict_accepts_iff _ Hok) as Hspec.
    rewrite S in *. cbn [is_ok] in Hspec. rewrite <- Hspec.
    rewrite (classify_parsed false _ a Hok S), (acc_agrees_of_header a _ (classify_parsed false _ a Hok S)).
    rewrite (res_eqb_refl N.eqb N.eqb_refl), S, (res_eqb_refl address_eqb address_eqb_refl).
    unfold reward_address_decode. rewrite S.
    destruct a; cbn [andb]; rewrite ?(res_eqb_refl address_eqb address_eqb_refl); reflexivity. }
  assert (HE : judge_dec_embedded (to_bytes a) (model_dec (to_bytes a)) = Holds).
  { unfold judge_dec_embedded, model_dec. cbn [d_embedded d_emb_bytes].
    rewrite (embedded_roundtrip a Hwf), bytes_eqb_refl. reflexivity. }
  rewrite HS, HE in H. discriminate.
Qed.
