(* Text forms of addresses.
   - Bech32 (rust/src/protocol_types/address.rs:570-601 to_bech32 / from_bech32): the `bech32` crate is
     external; its two entry points are parameters of the model functions ([b32_encode hrp data] stands for
     bech32::encode(hrp, data.to_base32()), [b32_decode s] for bech32::decode(s) followed by
     Vec::<u8>::from_base32) and its round-trip law is an explicit premise of the theorems
     (Bech32Proofs.v).  The prefix (HRP) selection is /repo's own logic and is modelled here.
   - Base58 of Byron addresses (address.rs:166-168 to_base58, :222-227 from_base58 via
     ExtendedAddr::from_str -> base58::decode -> try_from(&[u8])).
   Characters are ASCII codes.  Model definitions only. *)
From CSL Require Import Base.Prelude Addr.Crc32 Addr.Byron Addr.Base58 Addr.Shelley.
Local Open Scope N_scope.

Definition s_addr : list N := [97; 100; 100; 114].                      (* "addr" *)
Definition s_stake : list N := [115; 116; 97; 107; 101].                (* "stake" *)
Definition s_test : list N := [95; 116; 101; 115; 116].                 (* "_test" *)
Definition s_malformed : list N := [95; 109; 97; 108; 102; 111; 114; 109; 101; 100].   (* "_malformed" *)

(* see CIP5: "stake" for reward addresses, "addr" otherwise; "_malformed" for the carrier;
   "_test" when network_id() is the id of preprod / preview (both 0), nothing otherwise; a Byron
   address with an unknown protocol magic has no network id and therefore no default prefix *)
Definition default_prefix (a : address) : result (list N) :=
  let header := match a with Reward _ _ => s_stake | _ => s_addr end in
  match a with
  | Malformed _ => Ok (header ++ s_malformed)
  | _ => let* id := network_id a in Ok (header ++ (if id =? 0 then s_test else []))
  end.

Definition to_bech32 (b32_encode : list N -> bytes -> option (list N))
                     (prefix : option (list N)) (a : address) : result (list N) :=
  let* p := (match prefix with Some p => Ok p | None => default_prefix a end) in
  match b32_encode p (to_bytes a) with Some s => Ok s | None => Err end.

(* the human-readable part is not looked at; the payload goes through the strict parser *)
Definition from_bech32 (b32_decode : list N -> option (list N * bytes)) (s : list N) : result address :=
  match b32_decode s with
  | Some (_, data) => from_bytes data
  | None => Err
  end.

Definition byron_to_base58 (b : byron_addr) : list N := base58_encode (byron_encode crc32 b).
Definition byron_from_base58 (s : list N) : result byron_addr :=
  match base58_decode s with
  | Ok bs => byron_from_bytes crc32 bs
  | _ => Err
  end.
