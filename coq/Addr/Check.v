(* Executable statement of C11 for the correspondence run: the observations the model makes for a
   case, the specification of strict acceptance written from the header table, and the judge that
   evaluates the property on the implementation's observations.  Definitions only. *)
From CSL Require Import Base.Prelude Cbor.Head Addr.VarNat Addr.Crc32 Addr.Byron Addr.Base58 Addr.Shelley Addr.Bech32Iface Addr.Bech32.
Local Open Scope N_scope.

(* 0 = not a known class *)
Inductive verdict := Holds | NotApplicable | Fails (cls : N).
Definition cls_trailing : N := 1.
Definition cls_padded : N := 2.
Definition cls_byron : N := 3.
Definition cls_huge : N := 4.

Record acc := mkAcc { a_kind : addr_kind; a_net : result N; a_pay : option cred }.
Definition accessors (a : address) : acc := mkAcc (kind a) (network_id a) (payment_cred a).

(* ---------------- decidable equalities (glue-free comparison inside the judge) ------------- *)
Definition cred_eqb (c d : cred) : bool :=
  match c, d with
  | KeyHash x, KeyHash y => bytes_eqb x y
  | ScriptHash x, ScriptHash y => bytes_eqb x y
  | _, _ => false
  end.
Definition opt_eqb {A} (eqb : A -> A -> bool) (x y : option A) : bool :=
  match x, y with Some a, Some b => eqb a b | None, None => true | _, _ => false end.
Definition byron_type_eqb (s t : byron_type) : bool := byron_type_code s =? byron_type_code t.
Definition byron_eqb (a b : byron_addr) : bool :=
  bytes_eqb (b_addr a) (b_addr b) && opt_eqb bytes_eqb (b_dpath a) (b_dpath b)
  && opt_eqb N.eqb (b_magic a) (b_magic b) && byron_type_eqb (b_type a) (b_type b).
Definition address_eqb (a b : address) : bool :=
  match a, b with
  | Base n p s, Base n' p' s' => (n =? n') && cred_eqb p p' && cred_eqb s s'
  | Ptr n p q, Ptr n' p' q' =>
      (n =? n') && cred_eqb p p' && (p_slot q =? p_slot q') && (p_tx q =? p_tx q') && (p_cert q =? p_cert q')
  | Enterprise n p, Enterprise n' p' => (n =? n') && cred_eqb p p'
  | Reward n p, Reward n' p' => (n =? n') && cred_eqb p p'
  | Byron x, Byron y => byron_eqb x y
  | Malformed x, Malformed y => bytes_eqb x y
  | _, _ => false
  end.
Definition kind_code (k : addr_kind) : N :=
  match k with KBase => 0 | KPointer => 1 | KEnterprise => 2 | KReward => 3 | KByron => 4 | KMalformed => 5 end.
Definition res_eqb {A} (eqb : A -> A -> bool) (x y : result A) : bool :=
  match x, y with
  | Ok a, Ok b => eqb a b | Err, Err => true | Panic, Panic => true | OutOfFuel, OutOfFuel => true
  | _, _ => false
  end.

(* ---------------- specification of the strict parser, from the header table ---------------- *)
Definition spec_strict_ok (data : bytes) : bool :=
  match data with
  | [] => false
  | h :: _ =>
    match classify_header h with
    | HBase _ _ => (length data =? 57)%nat
    | HEnterprise _ => (length data =? 29)%nat
    | HReward _ => (length data =? 29)%nat
    | HPointer _ =>
        match decode_pointer (skipn 29 data) with
        | Some (_, off) => (29 + off =? length data)%nat
        | None => false
        end
    | HByron => is_ok (byron_from_bytes crc32 data)
    | HInvalid => false
    end
  end.

Definition cred_of (script : bool) (h : bytes) : cred := if script then ScriptHash h else KeyHash h.

(* what kind(), network_id() and payment_cred() must report for the bytes of an address *)
Definition acc_agrees (x : acc) (data : bytes) : bool :=
  match data with
  | [] => false
  | h :: payload =>
    let shelley (k : addr_kind) (ps : bool) :=
      (kind_code (a_kind x) =? kind_code k) && res_eqb N.eqb (a_net x) (Ok (h mod 16))
      && opt_eqb cred_eqb (a_pay x) (Some (cred_of ps (firstn 28 payload))) in
    match classify_header h with
    | HBase ps _ => shelley KBase ps
    | HPointer ps => shelley KPointer ps
    | HEnterprise ps => shelley KEnterprise ps
    | HReward ps => shelley KReward ps
    | HByron => (kind_code (a_kind x) =? kind_code KByron) && opt_eqb cred_eqb (a_pay x) None
    | HInvalid => false
    end
  end.

Definition lenient_class (data : bytes) : N :=
  if known_trailing data then cls_trailing
  else if known_padded_pointer data then cls_padded
  else if known_noncanonical_byron data then cls_byron
  else 0.
Definition panic_class (data : bytes) : N := if known_huge_length data then cls_huge else 0.

(* ---------------- case `dec`: arbitrary bytes ---------------- *)
Record dec_obs := mkDecObs {
  d_strict : result address;            (* Address::from_bytes *)
  d_acc : option acc;                   (* accessors of that address *)
  d_rebytes : option bytes;             (* its to_bytes *)
  d_reparsed : result address;          (* Address::from_bytes of those *)
  d_embedded : result address;          (* address of a transaction output decoded from [bytes, coin] *)
  d_emb_bytes : option bytes;           (* the address bytes inside the re-serialised output *)
  d_hex : result address;               (* Address::from_hex of the hex text of the bytes *)
  d_byron : result byron_addr;          (* ByronAddress::from_bytes *)
  d_reward : result address }.          (* RewardAddress as a withdrawals key *)

Definition model_dec (data : bytes) : dec_obs :=
  let s := from_bytes data in
  let e := embedded_decode data in
  mkDecObs s
    (match s with Ok a => Some (accessors a) | _ => None end)
    (match s with Ok a => Some (to_bytes a) | _ => None end)
    (match s with Ok a => from_bytes (to_bytes a) | _ => Err end)
    e
    (match e with Ok a => Some (to_bytes a) | _ => None end)
    s
    (byron_from_bytes crc32 data)
    (reward_address_decode data).

(* the two halves of the statement are judged independently; a failure outside the known classes
   is never hidden by a known one *)
Definition judge_dec_strict (data : bytes) (o : dec_obs) : verdict :=
  (* from_hex is the same strict parser behind a hex decoder *)
  if negb (res_eqb address_eqb (d_hex o) (d_strict o)) then Fails (panic_class data) else
  match d_strict o with
  | Ok a =>
      if spec_strict_ok data && agrees_with_header a data
         && (match d_acc o with
             | Some x => acc_agrees x data && res_eqb N.eqb (a_net x) (network_id a)
             | None => false
             end)
         && res_eqb address_eqb (d_reparsed o) (Ok a)
         && res_eqb address_eqb (d_reward o) (match a with Reward _ _ => Ok a | _ => Err end)
      then Holds else Fails 0
  | Err => if spec_strict_ok data then Fails 0 else
           (match d_reward o with Err => Holds | _ => Fails 0 end)
  | _ => Fails (panic_class data)
  end.

Definition judge_dec_embedded (data : bytes) (o : dec_obs) : verdict :=
  match d_embedded o, d_emb_bytes o with
  | Ok _, Some wb => if bytes_eqb wb data then Holds else Fails (lenient_class data)
  | _, _ => Fails (panic_class data)
  end.

Definition combine (a b : verdict) : verdict :=
  match a, b with
  | Fails c, Fails d => if c =? 0 then Fails 0 else if d =? 0 then Fails 0 else Fails c
  | Fails c, _ => Fails c
  | _, Fails d => Fails d
  | NotApplicable, x => x
  | x, _ => x
  end.

Definition judge_dec (data : bytes) (o : dec_obs) : verdict :=
  combine (judge_dec_strict data o) (judge_dec_embedded data o).

(* ---------------- case `enc`: an address value ---------------- *)
Definition cred_okb (c : cred) : bool :=
  (length (cred_bytes c) =? 28)%nat && forallb (fun b => b <? 256) (cred_bytes c).
Definition wf_addressb (a : address) : bool :=
  match a with
  | Base n p s => (n <? 16) && cred_okb p && cred_okb s
  | Ptr n p q => (n <? 16) && cred_okb p && (p_slot q <? two64) && (p_tx q <? two64) && (p_cert q <? two64)
  | Enterprise n p => (n <? 16) && cred_okb p
  | Reward n p => (n <? 16) && cred_okb p
  | Byron b =>
      (length (b_addr b) =? 28)%nat && forallb (fun x => x <? 256) (b_addr b)
      && (match b_dpath b with Some d => forallb (fun x => x <? 256) d && (N.of_nat (length d) <? 4611686018427387904) | None => true end)
      && (match b_magic b with Some m => m <? two32 | None => true end)
  | Malformed _ => false
  end.

Record enc_obs := mkEncObs {
  e_bytes : bytes;                      (* to_bytes *)
  e_strict : result address;            (* Address::from_bytes(to_bytes) *)
  e_embedded : result address;          (* decoded inside an output *)
  e_acc : acc;                          (* accessors of the value *)
  e_prefix : result (list N);           (* human-readable part of to_bech32(None) *)
  e_text : option (list N);             (* to_bech32(prefix); None = refused *)
  e_bech32 : option (result address);   (* from_bech32 of that text *)
  e_base58 : option (list N);           (* ByronAddress::to_base58 *)
  e_base58_back : option (result byron_addr) }.

(* the bech32 crate is modelled (Bech32.v), so the text and its decoding are computed exactly *)
Definition model_enc (prefix : option (list N)) (a : address) : enc_obs :=
  let bs := to_bytes a in
  let text := match to_bech32 b32_encode prefix a with Ok s => Some s | _ => None end in
  mkEncObs bs (from_bytes bs) (embedded_decode bs) (accessors a) (default_prefix a)
    text
    (match text with Some s => Some (from_bech32 b32_decode s) | None => None end)
    (match a with Byron b => Some (byron_to_base58 b) | _ => None end)
    (match a with Byron b => Some (byron_from_base58 (byron_to_base58 b)) | _ => None end).

(* to_bech32 must succeed exactly when the prefix in force is an acceptable human-readable part *)
Definition bech32_expected (prefix : option (list N)) (a : address) : bool :=
  match prefix with
  | Some p => is_ok (check_hrp p)
  | None => is_ok (default_prefix a)
  end.

Definition judge_enc (prefix : option (list N)) (a : address) (o : enc_obs) : verdict :=
  if wf_addressb a then
    if res_eqb address_eqb (e_strict o) (Ok a) && res_eqb address_eqb (e_embedded o) (Ok a)
       && agrees_with_header a (e_bytes o) && acc_agrees (e_acc o) (e_bytes o)
       && res_eqb N.eqb (a_net (e_acc o)) (network_id a)
       && (match e_bech32 o with Some r => res_eqb address_eqb r (Ok a) | None => true end)
       && Bool.eqb (match e_text o with Some _ => true | None => false end) (bech32_expected prefix a)
       && (match a, e_base58_back o with
           | Byron b, Some r => res_eqb byron_eqb r (Ok b)
           | Byron _, None => false
           | _, _ => true
           end)
       && (match a, e_prefix o with
           | Reward n _, Ok p => bytes_eqb p (s_stake ++ (if n =? 0 then s_test else []))
           | Byron _, _ => true
           | _, Ok p => (match network_id a with Ok n => bytes_eqb p (s_addr ++ (if n =? 0 then s_test else [])) | _ => false end)
           | _, _ => false
           end)
    then Holds else Fails 0
  else NotApplicable.

(* ---------------- case `b58`: the Base58 codec on arbitrary bytes ---------------- *)
Definition model_b58 (bs : bytes) : list N * result bytes :=
  let s := base58_encode bs in (s, base58_decode s).
Definition judge_b58 (bs : bytes) (back : result bytes) : verdict :=
  match bs with
  | [] => NotApplicable
  | _ => if res_eqb bytes_eqb back (Ok bs) then Holds else Fails 0
  end.

(* ---------------- cases `bech` / `bech5` / `bechd`: the bech32 codec itself ---------------- *)
Record bech_obs := mkBechObs {
  h_u5 : list N;                              (* to_base32 of the bytes (bech), the given symbols (bech5) *)
  h_text : option (list N);                   (* bech32::encode *)
  h_dec : option (list N * list N);           (* bech32::decode of that text: (hrp, symbols) *)
  h_back : option (result bytes) }.           (* from_base32 of the decoded symbols *)

Definition model_bech5 (hrp u5 : list N) : bech_obs :=
  let text := match encode hrp u5 with Ok s => Some s | _ => None end in
  let dec := match text with Some s => (match decode s with Ok p => Some p | _ => None end) | None => None end in
  mkBechObs u5 text dec (match dec with Some (_, d) => Some (from_base32 d) | None => None end).
Definition model_bech (hrp : list N) (data : bytes) : bech_obs := model_bech5 hrp (to_base32 data).

Definition judge_bech (hrp : list N) (data : bytes) (o : bech_obs) : verdict :=
  match check_hrp hrp, h_text o with
  | Ok c, Some _ =>
      match h_dec o, h_back o with
      | Some (h, d), Some back =>
          if bytes_eqb h (hrp_lower c hrp) && bytes_eqb d (h_u5 o) && res_eqb bytes_eqb back (Ok data)
          then Holds else Fails 0
      | _, _ => Fails 0
      end
  | Ok _, None => Fails 0
  | _, Some _ => Fails 0
  | _, None => Holds
  end.

(* arbitrary text: what decode returns, then from_base32 *)
Definition model_bechd (s : list N) : option (list N * list N) * option (result bytes) :=
  match decode s with
  | Ok (h, d) => (Some (h, d), Some (from_base32 d))
  | _ => (None, None)
  end.

(* ---------------- case `b58a`: Base58 text through the Byron entry points ---------------- *)
(* ByronAddress::from_base58 / is_valid on arbitrary text: accepted exactly when the decoded bytes
   are a complete Byron address (nothing after it), and then the text written back is the Base58 of
   the canonical bytes *)
Definition judge_b58a (text : list N) (valid : bool) (r : result byron_addr) (back : option (list N)) : verdict :=
  let expected := byron_from_base58 text in
  if res_eqb byron_eqb r expected && Bool.eqb valid (is_ok expected)
     && (match r, back with
         | Ok b, Some t => bytes_eqb t (byron_to_base58 b)
         | Ok _, None => false
         | _, _ => true
         end)
  then Holds else Fails 0.

(* ---------------- case `becha`: a bech32 text whose payload is arbitrary bytes ---------------- *)
(* Address::from_bech32: the payload goes through the strict parser (trailing bytes refused) *)
Definition judge_becha (payload : bytes) (r : result address) : verdict :=
  match r with
  | Ok a => if spec_strict_ok payload && agrees_with_header a payload then Holds else Fails 0
  | Err => if spec_strict_ok payload then Fails 0 else Holds
  | _ => Fails (panic_class payload)
  end.
