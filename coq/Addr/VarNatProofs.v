(* Proofs about the variable-length naturals (VarNat.v). *)
From CSL Require Import Base.Prelude Addr.VarNat.
Local Open Scope N_scope.

(* most-significant-first form of the continuation groups *)
Fixpoint venc_hi (fuel : nat) (num : N) : bytes :=
  match fuel with
  | O => []
  | S f => if num =? 0 then [] else venc_hi f (num / 128) ++ [num mod 128 + 128]
  end.

Lemma venc_loop_hi f : forall m out, venc_loop f m out = out ++ rev (venc_hi f m).
Proof.
  induction f as [|f IH]; intros m out; cbn [venc_loop venc_hi].
  - now rewrite app_nil_r.
  - destruct (m =? 0); [now rewrite app_nil_r|].
    rewrite IH, rev_app_distr. cbn [rev app]. now rewrite <- app_assoc.
Qed.

Lemma varnat_encode_hi n : varnat_encode n = venc_hi 10 (n / 128) ++ [n mod 128].
Proof.
  unfold varnat_encode. rewrite venc_loop_hi. cbn [app rev]. now rewrite rev_involutive.
Qed.

Lemma venc_hi_zero f : venc_hi f 0 = [].
Proof. destruct f; reflexivity. Qed.

Lemma pow128_S f : 128 ^ N.of_nat (S f) = 128 * 128 ^ N.of_nat f.
Proof. rewrite Nat2N.inj_succ, N.pow_succ_r'. reflexivity. Qed.

(* fuel does not matter once it suffices *)
Lemma venc_hi_fuel f : forall m f', m < 128 ^ N.of_nat f -> (f <= f')%nat -> venc_hi f m = venc_hi f' m.
Proof.
  induction f as [|f IH]; intros m f' Hm Hf.
  - change (N.of_nat 0) with 0 in Hm. rewrite N.pow_0_r in Hm.
    assert (m = 0) by lia. subst. now rewrite !venc_hi_zero.
  - destruct f' as [|f']; [lia|]. cbn [venc_hi]. destruct (m =? 0); [reflexivity|].
    rewrite pow128_S in Hm. rewrite (IH (m / 128) f'); [reflexivity| |lia].
    apply N.div_lt_upper_bound; lia.
Qed.

Lemma venc_hi_S f m :
  venc_hi (S f) m = if m =? 0 then [] else venc_hi f (m / 128) ++ [m mod 128 + 128].
Proof. reflexivity. Qed.

Lemma venc_hi_step f acc g : 0 < acc -> acc < 128 ^ N.of_nat f -> g < 128 ->
  venc_hi (S f) (acc * 128 + g) = venc_hi (S f) acc ++ [g + 128].
Proof.
  intros Ha Hb Hg. rewrite (venc_hi_S f (acc * 128 + g)).
  destruct (acc * 128 + g =? 0) eqn:E; [lia|].
  replace ((acc * 128 + g) / 128) with acc by (apply N.div_unique with g; lia).
  replace ((acc * 128 + g) mod 128) with g by (apply N.mod_unique with acc; lia).
  rewrite (venc_hi_fuel f acc (S f)); [reflexivity|exact Hb|lia].
Qed.

(* decoding the groups written by the encoder *)
Lemma decode_hi f : forall m tail acc r, m < 128 ^ N.of_nat f ->
  acc * 128 ^ N.of_nat (length (venc_hi f m)) + m < two64 ->
  varnat_decode_go (venc_hi f m ++ tail) acc r =
  varnat_decode_go tail (acc * 128 ^ N.of_nat (length (venc_hi f m)) + m) (r + length (venc_hi f m)).
Proof.
  induction f as [|f IH]; intros m tail acc r Hm Hv.
  - change (N.of_nat 0) with 0 in Hm. rewrite N.pow_0_r in Hm. assert (m = 0) by lia; subst.
    cbn [venc_hi length app]. change (N.of_nat 0) with 0. rewrite N.pow_0_r, Nat.add_0_r.
    f_equal. lia.
  - cbn [venc_hi] in *. destruct (m =? 0) eqn:E.
    + assert (m = 0) by lia; subst. cbn [length app]. change (N.of_nat 0) with 0.
      rewrite N.pow_0_r, Nat.add_0_r. f_equal. lia.
    + rewrite app_length in *. cbn [length] in *.
      set (k := length (venc_hi f (m / 128))) in *.
      replace (k + 1)%nat with (S k) in * by lia. rewrite pow128_S in Hv. rewrite pow128_S in Hm.
      assert (Hd : m / 128 < 128 ^ N.of_nat f) by (apply N.div_lt_upper_bound; lia).
      pose proof (N.div_mod m 128 ltac:(lia)) as Hdm.
      pose proof (N.mod_lt m 128 ltac:(lia)) as Hml.
      set (X := acc * 128 ^ N.of_nat k) in *.
      assert (Hx : acc * (128 * 128 ^ N.of_nat k) = X * 128) by (unfold X; lia).
      rewrite <- app_assoc. rewrite (IH (m / 128) _ acc r Hd); fold k; fold X; [|lia].
      cbn [app varnat_decode_go].
      replace ((m mod 128 + 128) mod 128) with (m mod 128)
        by (apply N.mod_unique with 1; lia).
      replace ((X + m / 128) * 128 + m mod 128) with (acc * 128 ^ N.of_nat (S k) + m)
        by (rewrite pow128_S; lia).
      destruct (two64 <=? acc * 128 ^ N.of_nat (S k) + m) eqn:E1; [rewrite pow128_S in E1; lia|].
      destruct (m mod 128 + 128 <? 128) eqn:E2; [lia|].
      f_equal. lia.
Qed.

(* C11_varnat: every u64 decodes back, whatever follows, and the count is the encoded length *)
Theorem varnat_roundtrip n rest : n < two64 ->
  varnat_decode (varnat_encode n ++ rest) = Some (n, length (varnat_encode n)).
Proof.
  intros Hn. unfold varnat_decode. rewrite varnat_encode_hi, <- app_assoc.
  pose proof (N.div_mod n 128 ltac:(lia)) as Hdm.
  pose proof (N.mod_lt n 128 ltac:(lia)) as Hml.
  assert (Hd : n / 128 < 128 ^ N.of_nat 10).
  { apply N.div_lt_upper_bound; [lia|]. unfold two64 in Hn. change (128 ^ N.of_nat 10) with 1180591620717411303424. lia. }
  rewrite decode_hi; [|exact Hd|unfold two64 in *; lia].
  cbn [app varnat_decode_go]. rewrite N.mul_0_l, N.add_0_l.
  rewrite (N.mod_small (n mod 128) 128) by lia.
  replace (n / 128 * 128 + n mod 128) with n by lia.
  destruct (two64 <=? n) eqn:E1; [lia|].
  destruct (n mod 128 <? 128) eqn:E2; [|lia].
  rewrite app_length. cbn [length]. do 2 f_equal. lia.
Qed.

Lemma varnat_encode_nonempty n : varnat_encode n <> [].
Proof. rewrite varnat_encode_hi. destruct (venc_hi 10 (n / 128)); discriminate. Qed.

Lemma venc_hi_bytes_ok f : forall m, bytes_ok (venc_hi f m).
Proof.
  induction f as [|f IH]; intros m; cbn [venc_hi]; [constructor|].
  destruct (m =? 0); [constructor|]. apply Forall_app; split; [apply IH|].
  constructor; [|constructor]. pose proof (N.mod_lt m 128 ltac:(lia)). lia.
Qed.

Lemma varnat_encode_bytes_ok n : bytes_ok (varnat_encode n).
Proof.
  rewrite varnat_encode_hi. apply Forall_app; split; [apply venc_hi_bytes_ok|].
  constructor; [|constructor]. pose proof (N.mod_lt n 128 ltac:(lia)). lia.
Qed.

(* unterminated: every byte carries the continuation bit *)
Theorem varnat_unterminated bs : Forall (fun b => 128 <= b) bs -> forall acc r, varnat_decode_go bs acc r = None.
Proof.
  induction 1 as [|b t Hb _ IH]; intros acc r; cbn [varnat_decode_go]; [reflexivity|].
  destruct (two64 <=? acc * 128 + b mod 128); [reflexivity|].
  destruct (b <? 128) eqn:E; [lia|]. apply IH.
Qed.

(* a decoded value is always a u64 and the count is within the input *)
Lemma varnat_decode_go_spec bs : forall acc r v k, varnat_decode_go bs acc r = Some (v, k) ->
  v < two64 /\ (r < k)%nat /\ (k - r <= length bs)%nat.
Proof.
  induction bs as [|b t IH]; intros acc r v k H; cbn [varnat_decode_go] in H; [discriminate|].
  destruct (two64 <=? acc * 128 + b mod 128) eqn:E1; [discriminate|].
  destruct (b <? 128) eqn:E2.
  - injection H as <- <-. cbn [length]. repeat split; lia.
  - apply IH in H. cbn [length]. destruct H as (? & ? & ?). repeat split; lia.
Qed.

Theorem varnat_decode_range bs v k : varnat_decode bs = Some (v, k) ->
  v < two64 /\ (1 <= k <= length bs)%nat.
Proof. intros H. apply varnat_decode_go_spec in H. lia. Qed.

(* overflow: a value of 2^64 or more is refused, for any continuation *)
Theorem varnat_overflow_rejected bs acc r : two64 <= acc -> varnat_decode_go bs acc r = None.
Proof.
  intros Ha. destruct bs as [|b t]; cbn [varnat_decode_go]; [reflexivity|].
  destruct (two64 <=? acc * 128 + b mod 128) eqn:E; [reflexivity|lia].
Qed.

(* the decoder ignores what follows the terminating byte *)
Lemma varnat_decode_go_firstn bs : forall acc r v k, varnat_decode_go bs acc r = Some (v, k) ->
  forall rest, varnat_decode_go (firstn (k - r) bs ++ rest) acc r = Some (v, k).
Proof.
  induction bs as [|b t IH]; intros acc r v k H rest; cbn [varnat_decode_go] in H; [discriminate|].
  pose proof H as H0.
  destruct (two64 <=? acc * 128 + b mod 128) eqn:E1; [discriminate|].
  destruct (b <? 128) eqn:E2.
  - injection H as <- <-. replace (S r - r)%nat with 1%nat by lia. cbn [firstn app varnat_decode_go].
    now rewrite E1, E2.
  - pose proof (varnat_decode_go_spec _ _ _ _ _ H) as (_ & Hk & _).
    replace (k - r)%nat with (S (k - S r)) by lia. cbn [firstn app varnat_decode_go].
    rewrite E1, E2. now apply IH.
Qed.

(* minimal encodings are reproduced: with at least one non-zero group already read ... *)
Lemma decode_canonical_go bs : forall acc r v k, bytes_ok bs -> 0 < acc ->
  varnat_decode_go bs acc r = Some (v, k) ->
  venc_hi 10 acc ++ firstn (k - r) bs = varnat_encode v.
Proof.
  induction bs as [|b t IH]; intros acc r v k Hok Ha H; cbn [varnat_decode_go] in H; [discriminate|].
  inversion Hok as [|? ? Hb Hok']; subst.
  destruct (two64 <=? acc * 128 + b mod 128) eqn:E1; [discriminate|].
  pose proof (N.mod_lt b 128 ltac:(lia)) as Hml.
  assert (Hacc : acc < 128 ^ N.of_nat 9).
  { unfold two64 in E1. change (128 ^ N.of_nat 9) with 9223372036854775808. lia. }
  destruct (b <? 128) eqn:E2.
  - injection H as <- <-. replace (S r - r)%nat with 1%nat by lia. cbn [firstn].
    rewrite varnat_encode_hi.
    replace ((acc * 128 + b mod 128) / 128) with acc by (apply N.div_unique with (b mod 128); lia).
    replace ((acc * 128 + b mod 128) mod 128) with (b mod 128) by (apply N.mod_unique with acc; lia).
    rewrite N.mod_small by lia. reflexivity.
  - pose proof (varnat_decode_go_spec _ _ _ _ _ H) as (_ & Hk & _).
    replace (k - r)%nat with (S (k - S r)) by lia. cbn [firstn].
    rewrite <- (IH (acc * 128 + b mod 128) (S r) v k Hok' ltac:(lia) H).
    change 10%nat with (S 9). rewrite (venc_hi_step 9) by (assumption || lia).
    rewrite <- app_assoc. cbn [app]. do 2 f_equal.
    pose proof (N.div_mod b 128 ltac:(lia)).
    assert (b mod 128 = b - 128).
    { symmetry. apply N.mod_unique with 1; lia. }
    lia.
Qed.

(* ... and from the start, provided the first byte is not a padding group 0x80 *)
Theorem varnat_decode_canonical bs v k : bytes_ok bs -> varnat_padded bs = false ->
  varnat_decode bs = Some (v, k) -> varnat_encode v = firstn k bs.
Proof.
  intros Hok Hp H. unfold varnat_decode in H. destruct bs as [|b t]; [discriminate|].
  cbn [varnat_padded] in Hp. cbn [varnat_decode_go] in H. inversion Hok as [|? ? Hb Hok']; subst.
  rewrite N.mul_0_l, N.add_0_l in H.
  destruct (two64 <=? b mod 128) eqn:E1; [discriminate|].
  destruct (b <? 128) eqn:E2.
  - injection H as <- <-. cbn [firstn]. rewrite varnat_encode_hi.
    rewrite N.mod_small by lia.
    rewrite (N.div_small b 128), (N.mod_small b 128) by lia. reflexivity.
  - pose proof (varnat_decode_go_spec _ _ _ _ _ H) as (_ & Hk & _).
    assert (Hm : b mod 128 = b - 128) by (symmetry; apply N.mod_unique with 1; lia).
    rewrite <- (decode_canonical_go t (b mod 128) 1 v k Hok' ltac:(lia) H).
    destruct k as [|k]; [lia|]. cbn [firstn]. replace (S k - 1)%nat with k by lia.
    change 10%nat with (S 9). rewrite venc_hi_S.
    destruct (b mod 128 =? 0) eqn:E3; [lia|].
    rewrite (N.div_small (b mod 128) 128) by lia. rewrite venc_hi_zero.
    rewrite (N.mod_small (b mod 128) 128) by lia. cbn [app]. f_equal. lia.
Qed.

(* the first byte the encoder writes is never the padding group 0x80 *)
Lemma venc_hi_head f : forall m, m <> 0 -> m < 128 ^ N.of_nat f ->
  exists g tl, venc_hi f m = g :: tl /\ 128 < g.
Proof.
  induction f as [|f IH]; intros m Hm Hlt.
  - change (N.of_nat 0) with 0 in Hlt. rewrite N.pow_0_r in Hlt. lia.
  - cbn [venc_hi]. destruct (m =? 0) eqn:E; [lia|]. rewrite pow128_S in Hlt.
    destruct (N.eq_dec (m / 128) 0) as [Hz|Hz].
    + rewrite Hz, venc_hi_zero. exists (m mod 128 + 128), []. split; [reflexivity|].
      pose proof (N.div_mod m 128 ltac:(lia)). lia.
    + destruct (IH (m / 128) Hz) as (g & tl & Hg & Hgt); [apply N.div_lt_upper_bound; lia|].
      rewrite Hg. exists g, (tl ++ [m mod 128 + 128]). split; [reflexivity|exact Hgt].
Qed.

Theorem varnat_padded_not_canonical bs v k : v < two64 -> varnat_padded bs = true ->
  varnat_encode v <> firstn k bs.
Proof.
  intros Hv Hp He. destruct bs as [|b t]; [discriminate|]. cbn [varnat_padded] in Hp.
  assert (b = 128) by lia; subst. rewrite varnat_encode_hi in He.
  destruct k as [|k]; cbn [firstn] in He.
  - destruct (venc_hi 10 (v / 128)); discriminate.
  - destruct (N.eq_dec (v / 128) 0) as [Hz|Hz].
    + rewrite Hz, venc_hi_zero in He. cbn [app] in He. injection He as He _.
      pose proof (N.mod_lt v 128 ltac:(lia)). lia.
    + destruct (venc_hi_head 10 (v / 128) Hz) as (g & tl & Hg & Hgt).
      { apply N.div_lt_upper_bound; [lia|]. unfold two64 in Hv.
        change (128 ^ N.of_nat 10) with 1180591620717411303424. lia. }
      rewrite Hg in He. cbn [app] in He. injection He as He _. lia.
Qed.

(* the decoder does not look beyond the terminating byte: appending bytes changes nothing *)
Lemma varnat_decode_go_app bs : forall acc r v k x, varnat_decode_go bs acc r = Some (v, k) ->
  varnat_decode_go (bs ++ x) acc r = Some (v, k).
Proof.
  induction bs as [|b t IH]; intros acc r v k x H; cbn [varnat_decode_go app] in *; [discriminate|].
  destruct (two64 <=? acc * 128 + b mod 128); [discriminate|].
  destruct (b <? 128); [exact H|]. now apply IH.
Qed.

Lemma varnat_decode_app bs v k x : varnat_decode bs = Some (v, k) -> varnat_decode (bs ++ x) = Some (v, k).
Proof. apply varnat_decode_go_app. Qed.

(* the mathematical value of the first n groups *)
Fixpoint gval (bs : bytes) (acc : N) (n : nat) {struct n} : N :=
  match n, bs with
  | S n', b :: t => gval t (acc * 128 + b mod 128) n'
  | _, _ => acc
  end.

(* soundness: an accepted encoding yields exactly the value of its groups, which is a u64;
   read contrapositively: a terminated group sequence worth 2^64 or more is refused *)
Theorem varnat_decode_value bs : forall acc r v k, varnat_decode_go bs acc r = Some (v, k) ->
  v = gval bs acc (k - r) /\ gval bs acc (k - r) < two64.
Proof.
  induction bs as [|b t IH]; intros acc r v k H; cbn [varnat_decode_go] in H; [discriminate|].
  destruct (two64 <=? acc * 128 + b mod 128) eqn:E1; [discriminate|].
  destruct (b <? 128) eqn:E2.
  - injection H as <- <-. replace (S r - r)%nat with 1%nat by lia. cbn [gval]. split; [reflexivity|lia].
  - pose proof (varnat_decode_go_spec _ _ _ _ _ H) as (_ & Hk & _).
    replace (k - r)%nat with (S (k - S r)) by lia. cbn [gval]. now apply IH.
Qed.

(* the test vector of tests/address.rs (variable_nat_decode_too_big) *)
Example varnat_too_big : varnat_decode [129; 255; 255; 255; 255; 255; 255; 255; 255; 255; 127] = None.
Proof. vm_compute. reflexivity. Qed.
Example varnat_max : varnat_decode (varnat_encode 18446744073709551615) = Some (18446744073709551615, 10%nat).
Proof. vm_compute. reflexivity. Qed.
