(* Round trips of the text forms (Bech32Iface.v). *)
From CSL Require Import Base.Prelude Cbor.Head Cbor.HeadProofs Addr.Crc32 Addr.Crc32Proofs Addr.Byron Addr.ByronProofs
  Addr.Base58 Addr.Base58Proofs Addr.VarNat Addr.VarNatProofs Addr.Shelley Addr.ShelleyProofs Addr.Bech32Iface
  Addr.Bech32 Addr.Bech32Proofs.
Local Open Scope N_scope.



(* the default prefix is a function of kind and network id *)
Theorem default_prefix_table a :
  default_prefix a =
  match kind a, network_id a with
  | KMalformed, _ => Ok (s_addr ++ s_malformed)
  | KReward, Ok n => Ok (s_stake ++ (if n =? 0 then s_test else []))
  | _, Ok n => Ok (s_addr ++ (if n =? 0 then s_test else []))
  | _, Err => Err
  | _, Panic => Panic
  | _, OutOfFuel => OutOfFuel
  end.
Proof.
  destruct a as [net p s|net p q|net p|net p|b|m]; try reflexivity.
Qed.

(* ---------------- Base58 of Byron addresses ---------------- *)
Lemma enc_bytes_ok b : bytes_ok b -> bytes_ok (enc_bytes b).
Proof. intros H. apply Forall_app; split; [apply encode_head_bytes_ok; lia|exact H]. Qed.

Lemma byron_inner_ok a : wf_byron a -> bytes_ok (byron_inner a).
Proof.
  intros (_ & Ha & Hd & _). unfold byron_inner, enc_uint.
  apply Forall_app; split; [apply encode_head_bytes_ok; lia|].
  apply Forall_app; split; [apply enc_bytes_ok, Ha|].
  apply Forall_app; split; [|apply encode_head_bytes_ok; lia].
  unfold enc_attrs, enc_uint.
  apply Forall_app; split; [apply encode_head_bytes_ok; lia|].
  apply Forall_app; split.
  - destruct (b_dpath a) as [d|]; [|constructor].
    apply Forall_app; split; [apply encode_head_bytes_ok; lia|apply enc_bytes_ok; tauto].
  - destruct (b_magic a) as [m|]; [|constructor].
    apply Forall_app; split; [apply encode_head_bytes_ok; lia|].
    apply enc_bytes_ok. apply encode_head_bytes_ok. lia.
Qed.

Lemma byron_encode_ok crc a : wf_byron a -> bytes_ok (byron_encode crc a).
Proof.
  intros H. unfold byron_encode, enc_uint.
  apply Forall_app; split; [apply encode_head_bytes_ok; lia|].
  apply Forall_app; split; [apply encode_head_bytes_ok; lia|].
  apply Forall_app; split; [|apply encode_head_bytes_ok; lia].
  apply enc_bytes_ok, byron_inner_ok, H.
Qed.

Theorem byron_base58_roundtrip b : wf_byron b -> byron_from_base58 (byron_to_base58 b) = Ok b.
Proof.
  intros Hwf. unfold byron_from_base58, byron_to_base58.
  rewrite base58_roundtrip.
  - apply (byron_roundtrip crc32 crc32_range b Hwf).
  - apply byron_encode_ok, Hwf.
  - destruct (byron_encode_head crc32 b) as [tl ->]. discriminate.
Qed.

(* the written bytes of every well-formed address are bytes *)
Lemma to_bytes_ok a : wf_address a -> bytes_ok (to_bytes a).
Proof.
  intros Hwf. destruct a as [net p s|net p q|net p|net p|b|m]; cbn [to_bytes].
  - destruct Hwf as (Hn & [_ Hp] & [_ Hs]). constructor; [destruct p, s; cbn; lia|].
    apply Forall_app; split; assumption.
  - destruct Hwf as (Hn & [_ Hp] & _). constructor; [destruct p; cbn; lia|].
    repeat (apply Forall_app; split); try assumption; apply varnat_encode_bytes_ok.
  - destruct Hwf as (Hn & [_ Hp]). constructor; [destruct p; cbn; lia|exact Hp].
  - destruct Hwf as (Hn & [_ Hp]). constructor; [destruct p; cbn; lia|exact Hp].
  - apply byron_encode_ok, Hwf.
  - destruct Hwf.
Qed.

Section Bech32.
  (* the external crate *)
  Variable b32_encode : list N -> bytes -> option (list N).
  Variable b32_decode : list N -> option (list N * bytes).
  (* its law: what encode produced decodes to the same payload (under some spelling of the prefix) *)
  Hypothesis b32_law : forall hrp data s, bytes_ok data -> b32_encode hrp data = Some s ->
    exists hrp', b32_decode s = Some (hrp', data).

  (* C11_bech32: for every prefix, given or default *)
  Theorem bech32_roundtrip prefix a s : wf_address a ->
    to_bech32 b32_encode prefix a = Ok s -> from_bech32 b32_decode s = Ok a.
  Proof.
    intros Hwf H. unfold to_bech32 in H.
    destruct (match prefix with Some p => Ok p | None => default_prefix a end) as [p| | |]; cbn [bind] in H; try discriminate.
    destruct (b32_encode p (to_bytes a)) as [s'|] eqn:E; [|discriminate]. injection H as <-.
    destruct (b32_law _ _ _ (to_bytes_ok a Hwf) E) as [hrp' D]. unfold from_bech32. rewrite D. apply address_roundtrip, Hwf.
  Qed.
End Bech32.

(* ---- the same WITHOUT the premise: the model of the bech32 crate (Bech32.v) satisfies the law ---- *)
Lemma bech32_model_law : forall hrp data s, bytes_ok data -> Bech32.b32_encode hrp data = Some s ->
  exists hrp', Bech32.b32_decode s = Some (hrp', data).
Proof.
  intros hrp data s Hok H. destruct (b32_roundtrip hrp data s Hok H) as (c & _ & D). eauto.
Qed.

Theorem bech32_roundtrip_concrete prefix a s : wf_address a ->
  to_bech32 Bech32.b32_encode prefix a = Ok s -> from_bech32 Bech32.b32_decode s = Ok a.
Proof. apply (bech32_roundtrip Bech32.b32_encode Bech32.b32_decode bech32_model_law). Qed.

(* with the default prefix the text form always exists (every CIP5 prefix the library picks is a valid HRP) *)
Theorem to_bech32_default_total a p : default_prefix a = Ok p ->
  exists s, to_bech32 Bech32.b32_encode None a = Ok s.
Proof.
  intros Hp. unfold to_bech32. rewrite Hp. cbn [bind].
  assert (Hc : exists c, check_hrp p = Ok c).
  { unfold default_prefix in Hp.
    destruct a as [net q s|net q r|net q|net q|b|m]; cbn [network_id bind] in Hp;
      try (injection Hp as <-; match goal with |- context [if ?c then _ else _] => destruct c end;
           eexists; vm_compute; reflexivity).
    - destruct (byron_network_id b) as [n| | |]; cbn [bind] in Hp; try discriminate.
      injection Hp as <-. destruct (n =? 0); eexists; vm_compute; reflexivity.
    - injection Hp as <-. eexists; vm_compute; reflexivity. }
  destruct Hc as [c Hc]. destruct (b32_encode_total p (to_bytes a) c Hc) as [s Hs]. rewrite Hs. eauto.
Qed.

(* what a well-formed address writes is classified as itself by its own header *)
Theorem classify_written a : wf_address a -> agrees_with_header a (to_bytes a) = true.
Proof.
  intros Hwf. apply (classify_parsed false); [apply to_bytes_ok, Hwf|apply address_roundtrip, Hwf].
Qed.
